#!/usr/bin/env python3
"""Print the DESIGN.md §10.5 table of seeded changes.

usage: tools/seedtable.py [results.json ...]

Each results file maps seed id -> {property: {"rc": int, "lines": [...]}} (what a matrix
run of `./bin/check <property> quick` against the changed tree printed).  Without one the
`checks` recorded in seeded/<id>/meta.json are used.  Later files override earlier ones.
"""
import glob
import json
import os
import sys

ROOT = os.path.dirname(os.path.dirname(os.path.abspath(__file__)))


def main():
    res = {}
    for f in sys.argv[1:]:
        for sid, v in json.load(open(f)).items():
            if 'checks' in v and isinstance(v['checks'], dict):
                v = v['checks']
            res.setdefault(sid, {}).update(v)
    for d in sorted(glob.glob(os.path.join(ROOT, 'seeded', 'C*'))):
        sid = os.path.basename(d)
        meta = json.load(open(os.path.join(d, 'meta.json')))
        checks = dict(meta.get('checks') or {})
        checks.update(res.get(sid, {}))
        own = sid[:3]
        summ = ' '.join(meta.get('summary', '').split()).replace('|', '/')
        if len(summ) > 150:
            summ = summ[:150].rsplit(' ', 1)[0] + '…'
        hit, quiet = [], []
        for p, r in checks.items():
            if r.get('rc') == 1:
                nf = any('no-failing' in l for l in r.get('lines', []))
                hit.append((p != own, p, ('**%s**' % p if p == own else p) + ('†' if nf else '')))
            elif r.get('rc') == 0:
                quiet.append(p)
        cell = ', '.join(x[2] for x in sorted(hit))
        if quiet:
            cell += ' (not: %s)' % ', '.join(sorted(quiet))
        print('| %s | %s | %s |' % (sid, summ, cell.strip()))


if __name__ == '__main__':
    main()
