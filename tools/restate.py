#!/usr/bin/env python3
"""Development tool: print the elaborated types of lemma-file theorems so that they can be re-stated with EXPLICIT types in a
Properties/ file (`theorem new_name : <type> := @Lemma.name`).  Input: a JSON list of {prop, new, src, imports}; output: a JSON map
src -> lines of the pretty-printed type.  usage: tools/restate.py items.json types.json"""
import sys
ITEMS_PATH, OUT_PATH = sys.argv[1], sys.argv[2]
import subprocess, re, sys, json
# (target namespace file, new name, source name)
ITEMS = json.load(open(ITEMS_PATH))
imports = sorted({i for it in ITEMS for i in it['imports']})
src = '\n'.join('import ' + i for i in imports) + '\nset_option pp.fullNames true\nset_option pp.proofs true\nset_option pp.coercions.types true\nset_option pp.funBinderTypes true\nset_option linter.all false\n'
for it in ITEMS:
    src += '#check @%s\n' % it['src']
open('/tmp/restate_chk.lean','w').write(src)
out = subprocess.run(['lake','env','lean','/tmp/restate_chk.lean'],cwd='/verif/lean',stdout=subprocess.PIPE,stderr=subprocess.STDOUT).stdout.decode()
# split on lines starting with '@Name :' or 'Name :'
blocks = {}
cur=None
for line in out.splitlines():
    m = re.match(r'^@?([A-Za-z_][\w\.\']*) : (.*)$', line)
    if m and any(m.group(1)==it['src'] for it in ITEMS):
        cur=m.group(1); blocks[cur]=[m.group(2)]
    elif cur: blocks[cur].append(line)
json.dump(blocks, open(OUT_PATH,'w'), indent=1)
print(len(blocks), 'types of', len(ITEMS))
