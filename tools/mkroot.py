#!/usr/bin/env python3
"""Regenerate lean/NflowsModel.lean: import every module of the library except the per-property audit scripts."""
import os
HERE = os.path.dirname(os.path.dirname(os.path.abspath(__file__)))
root = os.path.join(HERE, 'lean', 'NflowsModel')
mods = []
for d, _, fs in os.walk(root):
    for f in sorted(fs):
        if not f.endswith('.lean'):
            continue
        rel = os.path.relpath(os.path.join(d, f), os.path.join(HERE, 'lean'))[:-5].replace(os.sep, '.')
        if rel.startswith('NflowsModel.Audit.C'):
            continue
        mods.append(rel)
open(os.path.join(HERE, 'lean', 'NflowsModel.lean'), 'w').write('\n'.join('import ' + m for m in sorted(mods)) + '\n')
print(len(mods), 'modules')
