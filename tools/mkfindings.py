#!/usr/bin/env python3
"""Write known_findings.json (committed; never written at run time).  status: fixed (suppresses nothing, replayed on
every run, a recurrence is a violation) or known (genuine defect recorded rather than repaired)."""
import json, os
HERE = os.path.dirname(os.path.dirname(os.path.abspath(__file__)))
F = []
def fixed(prop, id, commit, what, match=None):
    F.append({'property': prop, 'status': 'fixed', 'id': id, 'commit': commit, 'what': what, 'match': match or {'id': id},
              'line': 'fixed: property=%s %s %s' % (prop, commit, what)})
def known(prop, id, what, match):
    F.append({'property': prop, 'status': 'known', 'id': id, 'commit': None, 'what': what, 'match': match})

for fam in ('linear', 'quadratic', 'cubic'):
    fixed('C01', 'F1-' + fam, '655a2cd', '%s_spline(left=0,right=1,bottom=0,top=2): returned log-abs-det misses log((top-bottom)/(right-left))' % fam)
fixed('C01', 'F6', 'ad4baa4', 'GatedLinearUnit on [B,3] inputs with a [B,1] gate: log-abs-det was log g, Jacobian determinant is g**3')
fixed('C01', 'F13', '43d1ce1', 'LeakyReLU log-abs-det in float64 carried a float32 log(slope) (6e-8 error per negative element); dtype was the default dtype (2d2104e)')
fixed('C02', 'F2', '35fe8c1', 'quadratic_spline(inverse=True) with equal bin-edge heights (e.g. all-zero parameters): NaN')
fixed('C02', 'F3', '20be18f', 'cubic_spline(inverse=True) with all-zero parameters (a=b=0 in a bin): NaN')
fixed('C02', 'F4', 'f69dac8', 'SqueezeTransform(3).inverse rejected its own forward outputs (c % 4 hard-coded)')
fixed('C02', 'F12', '6ce8c16', 'torchutils.searchsorted added eps to the caller bin_locations in place (leaked 1e-6 into the linear spline inverse)')
fixed('C02', 'F17', 'eea16c3', 'linear_spline inverse in float64 with num_bins=10 was only accurate to 2e-8 (float32 linspace)')
fixed('C02', 'F20', '55e5f1f', 'cubic_spline inverse with strongly non-uniform parameters (all slopes of a bin < 1e-3): quadratic fallback dropped a non-negligible cubic term -> error up to 0.3 or NaN')
fixed('C02', 'F21', 'cce9c3c', 'cubic_spline inverse in float32 at the end-points of the box: no root passed the eps=1e-5 mask, an arbitrary root was returned (inverse(-3.) = +3.)')
fixed('C02', 'F26', 'c64b8d4', 'cubic_spline(inverse=True) in float64 at y = top of the box when the last bin is almost flat at its right end (derivative ~1e-13): sqrt of a radicand rounded below zero -> NaN output and log-abs-det')
fixed('C17', 'F26', 'c64b8d4', 'unconstrained_cubic_spline(inverse=True, tail_bound=2.) at y = 2.0 (in the domain) returned NaN for strongly non-uniform parameter values (flat right end of the last bin)')
fixed('C09', 'F22', 'c4c1ee6', 'cubic spline forward at the right end-point returned a value a few ulp above the top of the box (no clamp)')
fixed('C17', 'F9', '25877ca', 'unconstrained_rational_quadratic_spline(x=100., tail_bound=100.) in float32: IndexError (searchsorted eps absorbed)')
fixed('C17', 'F16', 'a0a002f', 'spline inverses tested their inputs against [left,right] instead of [bottom,top] (non-square boxes)')
fixed('C19', 'F13', '2d2104e', 'LeakyReLU log-abs-det dtype was the default dtype, not the dtype of the inputs')
fixed('C02', 'F29', '25816b3', 'MaskedUMNNAutoregressiveTransform with integrand pre-activations below -37 (weights perturbed by N(0, 0.5^2), inputs around 3.7): ELUPlus = (exp(x) - 1) + 1 rounds to exactly 0 -> log-abs-det -inf on ordinary inputs')
fixed('C16', 'F29', '25816b3', 'same input: gradient w.r.t. the inputs NaN (log of a zero derivative)')
fixed('C19', 'F30', 'c321ed1', 'linear_spline(inverse=True) in float32 with a bin whose mass is below the resolution of the cdf (unnormalised pdf entries ~18 apart): input on that bin (e.g. exactly the upper end / tail bound) -> NaN output, inf log-abs-det (slopes were differences of the cumulative sums)')
fixed('C17', 'F30', 'c321ed1', 'PiecewiseLinearCouplingTransform(tails=linear).inverse at y = tail bound in float32 returned NaN for conditioner outputs ~18 apart')
fixed('C19', 'F31', 'd9050ee', 'PointwiseAffineTransform(shift=1, scale=2) (integer arguments): int64 buffers are not converted by .double(), so a float64 model on float64 inputs returned its log-abs-det in float32 (log of an integer tensor), 1e-8 off the float64 value')
fixed('C19', 'F28', '1d63aad', 'Tanh().forward(x) in float32 with |x| >= 9.1 (float64: |x| >= 19.1): log-abs-det = log(1 - tanh(x)**2) = -inf although the float64 / exact value (-16.6 at x = 9) is representable')
fixed('C01', 'F28', '1d63aad', 'Tanh forward log-abs-det -inf once tanh(x) rounds to one (|x| >= 19.1 in float64): not log|det J| = -2|x| + log 4 + ...')
fixed('C19', 'F17', 'eea16c3', 'linear_spline inverse built float32 bin boundaries for float64 inputs')
fixed('C20', 'F12', '6ce8c16', 'torchutils.searchsorted modified its bin_locations argument in place', {'function': 'searchsorted', 'symptom': 'mutates-argument'})
fixed('C20', 'F9', '25877ca', 'searchsorted(last edge 100. in float32, input 100.) returned index K (eps absorbed by rounding)', {'function': 'searchsorted', 'symptom': 'index-out-of-range'})
fixed('C20', 'F14', '5d3c2ff', 'random_orthogonal raised AttributeError (torch.qr removed)', {'function': 'random_orthogonal', 'symptom': 'raises'})
fixed('C11', 'F5a', '5855eed', 'HouseholderSequence(2, 6): zero initial q-vectors -> NaN', {'class': 'HouseholderSequence', 'features': 2, 'num_transforms': 6, 'symptom': 'non-finite'})
fixed('C11', 'F5b', '5855eed', 'HouseholderSequence(2, 5): IndexError in the constructor', {'class': 'HouseholderSequence', 'features': 2, 'num_transforms': 5, 'symptom': 'IndexError'})
fixed('C11', 'F5c', '5855eed', 'HouseholderSequence(1, 3): IndexError in the constructor', {'class': 'HouseholderSequence', 'features': 1, 'num_transforms': 3, 'symptom': 'IndexError'})
fixed('C11', 'F14', '5d3c2ff', 'NaiveLinear(orthogonal_initialization=True) could not be constructed (torch.qr removed)', {'class': 'NaiveLinear', 'symptom': 'raises'})
fixed('C11', 'F19', '969f587', 'NaiveLinear(3).double() cached inverse raised (float32 identity in weight_inverse_and_logabsdet)',
      {'class': 'NaiveLinear', 'accessor': 'weight_inverse_and_logabsdet', 'dtype': 'float64', 'symptom': 'raises'})
fixed('C11', 'F23', '3ec41ef', 'HouseholderSequence.matrix() raised a dtype mismatch after .double()', {'class': 'HouseholderSequence', 'accessor': 'matrix', 'dtype': 'float64', 'symptom': 'raises'})
fixed('C10', 'F11a', 'c25e13f', 'eval + use_cache + forward + load_state_dict + forward returned outputs of the old parameters', {'symptom': 'stale-after-load'})
fixed('C10', 'F11b', 'c25e13f', 'eval + use_cache + forward + .double() + forward raised a dtype mismatch', {'symptom': 'dtype-after-cast'})
fixed('C10', 'F11d', '969f587', 'NaiveLinear cold cached inverse in float64 raised', {'symptom': 'naive-cold-inverse-dtype', 'class': 'NaiveLinear'})
for C in ('LULinear', 'QRLinear', 'SVDLinear', 'NaiveLinear', 'OneByOneConvolution'):
    known('C10', 'F11c-' + C, '%s in eval mode with use_cache(): a second forward+backward (loss = outputs.sum() + logabsdet.sum()) raises "Trying to backward through the graph a second time" because the cached tensors keep a freed autograd graph' % C,
          {'symptom': 'second-backward', 'class': C})
fixed('C18', 'F7', 'ea12a48', 'Distribution.sample(5, context with 3 rows, batch_size=2) raised; sample(4, ctx, 2) had shape [6,2,..]', {'symptom': 'batched-context-cat'})
fixed('C05', 'F8a', 'a68e44e', 'DiagonalNormal([2]).mean() returned a bound method', {'class': 'DiagonalNormal', 'symptom': 'mean-returns-method'})
fixed('C05', 'F8b', 'a68e44e', 'DiagonalNormal([2,3]).log_prob raised (broadcast of [1,D] parameters)', {'class': 'DiagonalNormal', 'event_shape': [2, 3], 'symptom': 'raises'})
fixed('C05', 'F10', '7cc288d', 'LotkaVolterraOscillating normaliser used erf(x/sigma) without 1/sqrt(2) and 1/2', {'class': 'LotkaVolterraOscillating', 'symptom': 'normaliser'})
fixed('C05', 'F10b', 'e7d89ee', 'LotkaVolterraOscillating.log_prob added BoxUniform.log_prob (-4 log 7): density integrated to 7**-4', {'class': 'LotkaVolterraOscillating', 'event_shape': [4], 'symptom': 'integral!=1'})
fixed('C05', 'F18', '6482762', 'BoxUniform.log_prob raised ValueError outside the box (broke LotkaVolterraOscillating.sample)', {'class': 'BoxUniform', 'symptom': 'raises-outside-support'})
known('C05', 'F15', 'MADEMoG / MixtureOfGaussiansMADE.sample(n, context=None) raises AttributeError (context.shape): sampling is only offered with a context',
      {'class': 'MADEMoG', 'context': None, 'symptom': 'AttributeError'})
known('C18', 'F15', 'MADEMoG.sample(n) without context raises AttributeError instead of returning [n, features]',
      {'class': 'MADEMoG', 'context': None, 'symptom': 'AttributeError'})
fixed('C20', 'G1', 'a69477f', 'sum_except_batch(arange(3.), 1) returned a scalar: with num_batch_dims >= ndim torch.sum(x, dim=[]) reduced everything', {'function': 'sum_except_batch', 'symptom': 'batch-lost', 'num_batch_dims': 'ndim'})
fixed('C20', 'G2', '3e70b12', 'gaussian_kde_log_eval raised a dtype mismatch for float64 samples (float32 torch.eye)', {'function': 'gaussian_kde_log_eval', 'symptom': 'dtype-error', 'dtype': 'float64'})
fixed('C20', 'G3a', '8b73dff', 'merge_leading_dims(zeros(2,0), 1) raised (reshape(-1, 0))', {'function': 'merge_leading_dims', 'symptom': 'empty-trailing-dims-raise'})
fixed('C20', 'G3b', '8b73dff', 'repeat_rows(zeros(2,0), 3) raised (reshape(-1, 0))', {'function': 'repeat_rows', 'symptom': 'empty-trailing-dims-raise'})
known('C17', 'F27', "PiecewiseQuadraticCDF(shape, num_bins=1, tails='linear') / unconstrained_quadratic_spline with one bin: constructed without complaint, but EVERY call (any in-domain input) raises IndexError (no interior heights: unnorm_heights_exp[..., 0] on an empty tensor); Lean: Properties.C17.quad_tails_one_bin_counterexample",
      {'fn': 'quad', 'tails': True, 'K': 1, 'symptom': 'raises-IndexError'})
known('C19', 'F24', 'cubic_spline(inverse=True) in float32: the Cardano / trigonometric root formulas lose accuracy in single precision for some parameter values; e.g. PiecewiseCubicCouplingTransform(tails=linear, tail_bound=2.5).inverse at y = 2.5 returned 0.2233 and a NaN log-abs-det (float64 twin: 2.5, 7.108)',
      {'family': 'cubic', 'inverse': True, 'dtype': 'float32'})
known('C19', 'F32', 'cubic_spline(inverse=False) in float32 at the END of a bin whose knot derivative is tiny (sigmoid(unnormalized_derivatives_right) ~ 4e-8): the log-abs-det log(3a s^2 + 2b s + c) is evaluated by cancellation and comes out NaN (negative argument) or off by O(1) (-15.0 for -12.9 at udr = -14); witness: num_bins 3, torch.manual_seed(1) widths/heights, derivatives_left 0, derivatives_right -17, x = 1.0 -> NaN (float64: -15.88). Forward sibling of F24/F26; a repair means evaluating the derivative in Bernstein form (exact at the bin ends), which changes the formula the whole cubic model and its proofs are about',
      {'family': 'cubic', 'inverse': False, 'dtype': 'float32'})
known('C17', 'F32', 'cubic_spline(inverse=False) in float32: an in-domain input on the end of a nearly flat bin gets a NaN log-abs-det (see C19 F32)',
      {'fn': 'cubic', 'symptom': 'in-domain-fails', 'prec': 'f32'})
known('C16', 'F25', 'cubic_spline(inverse=True): for some strongly non-uniform parameter values the gradient autograd returns is NaN/inf although the value is finite (sqrt at a vanishing discriminant / masked one-root vs three-root branches); e.g. PiecewiseCubicCouplingTransform on images with perturbed ConvResidualNet parameters; second witness, derived from the Lean theorem NF.WellDefined.cubic_inverse_cardano_log_zero and replayed on the code: ONE bin, zero widths/heights, unnorm_derivatives_left = -log 6, _right = log(4/3): every in-domain y takes the Cardano branch with one cube-root argument exactly 0 (cbrt = sign(x) exp(log|x|/3)): values correct, every gradient NaN',
      {'family': 'cubic', 'inverse': True, 'symptom': 'grad-nonfinite'})
json.dump(F, open(os.path.join(HERE, 'known_findings.json'), 'w'), indent=1)
print(len(F), 'entries')
