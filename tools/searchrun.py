#!/usr/bin/env python3
"""Soundness test of the failing-input searches: run `search(ctx)` of a property module directly (as if a proof obligation or
the correspondence had broken) and list what it reports.  On the unchanged tree every reported input must be covered by an
entry of known_findings.json — anything else is a false alarm of the search.
Usage: PYTHONPATH=/repo:/verif /venv/bin/python tools/searchrun.py Cxx [quick|thorough] [seed]"""
import importlib, json, os, sys
sys.path.insert(0, os.path.dirname(os.path.dirname(os.path.abspath(__file__))))
from harness.common import run as R

def main():
    prop = sys.argv[1]; tier = sys.argv[2] if len(sys.argv) > 2 else 'quick'; seed = int(sys.argv[3]) if len(sys.argv) > 3 else 0
    ctx = R.Ctx(prop, tier, seed)
    mod = importlib.import_module('harness.props.' + prop.lower())
    ctx.known_entries = [f for f in R.load_findings() if f.get('property') == prop and f.get('status') == 'known']
    if hasattr(mod, 'setup'):
        mod.setup(ctx)
    mod.search(ctx)
    unlisted = [f for f in ctx.failing if not ctx.is_known(f.get('match'))]
    print('SEARCH property=%s tier=%s seed=%d reported=%d unlisted=%d wall=%.1fs' % (prop, tier, seed, len(ctx.failing), len(unlisted), ctx.elapsed()))
    for f in unlisted[:10]:
        print('  UNLISTED', f['what'], json.dumps(f.get('match')), json.dumps(f.get('case'), default=str)[:300])
    return 1 if unlisted else 0

if __name__ == '__main__':
    sys.exit(main())
