#!/usr/bin/env python3
"""Confirm a seeded change (scratch worktree: tests pass, demo fails with / passes without), then run checks against it
(patch applied to /repo itself and undone straight afterwards).  Usage: seedrun.py <srcdir> <seed-id> <prop> [more props]"""
import json, os, shutil, subprocess, sys, time
VERIF = os.path.dirname(os.path.dirname(os.path.abspath(__file__)))
ENV = dict(os.environ, OMP_NUM_THREADS='2', MKL_NUM_THREADS='2')

def sh(cmd, cwd=None, env=None, timeout=3600):
    p = subprocess.run(cmd, shell=True, cwd=cwd, env=env or ENV, stdout=subprocess.PIPE, stderr=subprocess.STDOUT, timeout=timeout)
    return p.returncode, p.stdout.decode(errors='replace')

def main():
    src, sid = sys.argv[1], sys.argv[2]
    props = sys.argv[3:]
    patch = os.path.join(src, 'patch.diff'); demo = os.path.join(src, 'demo.py')
    meta = json.load(open(os.path.join(src, 'meta.json')))
    out = {'seed': sid, 'confirm': {}, 'checks': {}}
    wt = '/tmp/confirm_%s' % sid
    sh('git -C /repo worktree remove --force %s' % wt)
    rc, o = sh('git -C /repo worktree add -q --detach %s HEAD' % wt)
    assert rc == 0, o
    try:
        e = dict(ENV, PYTHONPATH=wt)
        rc0, o0 = sh('/venv/bin/python -W ignore %s' % demo, cwd=wt, env=e, timeout=900)
        out['confirm']['demo_clean_rc'] = rc0
        rc, o = sh('git apply %s' % patch, cwd=wt)
        out['confirm']['patch_applies'] = (rc == 0)
        if rc != 0:
            out['confirm']['apply_out'] = o[-500:]
        else:
            rc1, o1 = sh('/venv/bin/python -W ignore %s' % demo, cwd=wt, env=e, timeout=900)
            out['confirm']['demo_patched_rc'] = rc1
            out['confirm']['demo_patched_tail'] = o1[-400:]
            # the pinned suite itself is slightly flaky (float32 PiecewiseCubicCoupling round trip fails ~0.4% of draws on the
            # ORIGINAL snapshot too): retry up to 3 times, accept a clean run
            for attempt in range(3):
                rct, ot = sh('/venv/bin/python -m pytest -q -p no:cacheprovider tests', cwd=wt, env=e, timeout=3000)
                if rct == 0:
                    break
            out['confirm']['tests_attempts'] = attempt + 1
            out['confirm']['tests_rc'] = rct
            out['confirm']['tests_tail'] = ot.strip().splitlines()[-1] if ot.strip() else ''
    finally:
        sh('git -C /repo worktree remove --force %s' % wt)
    ok = out['confirm'].get('patch_applies') and out['confirm'].get('demo_clean_rc') == 0 and out['confirm'].get('demo_patched_rc') not in (0, None) and out['confirm'].get('tests_rc') == 0
    out['confirmed'] = bool(ok)
    if ok:
        rc, o = sh('git -C /repo status --short')
        assert o.strip() == '', 'repo not clean: ' + o
        rc, o = sh('git -C /repo apply %s' % patch)
        assert rc == 0, o
        try:
            for p in props:
                t0 = time.time()
                rc, o = sh('./bin/check %s quick' % p, cwd=VERIF, timeout=3000)
                lines = [l for l in o.splitlines() if l.startswith(('VIOLATION', 'SUMMARY', 'INFRA'))]
                out['checks'][p] = {'rc': rc, 'lines': lines, 'wall': round(time.time() - t0, 1)}
        finally:
            sh('git -C /repo checkout -- .')
            sh('git -C %s checkout -- lean/NflowsModel/Generated' % VERIF)
            rc, o = sh('git -C /repo status --short')
            assert o.strip() == '', 'repo not restored: ' + o
    dst = os.path.join(VERIF, 'seeded', sid)
    os.makedirs(dst, exist_ok=True)
    if ok:
        shutil.copy(patch, dst); shutil.copy(demo, dst)
        meta.update({'seed_id': sid, 'confirmed_by_me': out['confirm'], 'what_i_ran': ['scratch worktree: git apply patch.diff; demo.py (clean rc 0, patched rc !=0); pytest -x tests (rc 0)',
                     'git -C /repo apply patch.diff; ./bin/check <id> quick for each listed property; git -C /repo checkout -- .'],
                     'checks': out['checks'], 'detected_by': sorted(p for p, r in out['checks'].items() if r['rc'] == 1)})
        json.dump(meta, open(os.path.join(dst, 'meta.json'), 'w'), indent=1)
    print(json.dumps(out, indent=1))

if __name__ == '__main__':
    main()
