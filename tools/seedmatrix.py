#!/usr/bin/env python3
import json, os, subprocess, sys, threading, queue, re, time
"""Development tool (not a registered check): run the quick checks of the related properties against every seeded change of
seeded/<id>/ — each in a scratch worktree of /repo (NFLOWS_REPO) from a snapshot of /verif under /tmp/mx, five at a time — and write
{seed id: {property: {rc, lines, wall}}} to the JSON path given first (default /tmp/w/mx_results.json).  /repo itself is not touched.
usage: tools/seedmatrix.py [out.json] [seed ids ...]"""
import glob
OUT = sys.argv[1] if len(sys.argv) > 1 and sys.argv[1].endswith('.json') else '/tmp/w/mx_results.json'
ARGS = [a for a in sys.argv[1:] if not a.endswith('.json')]
REL = {}
for d in sorted(glob.glob('/verif/seeded/C*')):
    sid = os.path.basename(d)
    meta = json.load(open(d + '/meta.json'))
    REL[sid] = list((meta.get('checks') or {}).keys()) or [sid[:3]]
    if sid[:3] not in REL[sid]:
        REL[sid].insert(0, sid[:3])
ids = sorted(REL)
if ARGS:
    ids = ARGS
q = queue.Queue()
for i in ids: q.put(i)
res = {}
def sh(cmd, cwd=None, env=None, timeout=3000):
    p = subprocess.run(cmd, shell=True, cwd=cwd, env=env, stdout=subprocess.PIPE, stderr=subprocess.STDOUT, timeout=timeout)
    return p.returncode, p.stdout.decode(errors='replace')
def worker(k):
    snap = '/tmp/mx/v%d' % k
    sh('rm -rf %s; mkdir -p %s; rsync -a /verif/ %s/' % (snap, snap, snap))
    while True:
        try: sid = q.get_nowait()
        except queue.Empty: return
        wt = '/tmp/mx/r_%s' % sid
        sh('git -C /repo worktree remove --force %s' % wt)
        rc, o = sh('git -C /repo worktree add -q --detach %s HEAD' % wt)
        out = {}
        try:
            rc, o = sh('git apply /verif/seeded/%s/patch.diff' % sid, cwd=wt)
            if rc != 0:
                out = {'apply': o}
            else:
                for p in REL[sid]:
                    env = dict(os.environ, NFLOWS_REPO=wt)
                    t0 = time.time()
                    rc, o = sh('./bin/check %s quick' % p, cwd=snap, env=env)
                    lines = [l for l in o.splitlines() if l.startswith(('VIOLATION', 'SUMMARY', 'INFRA'))]
                    out[p] = {'rc': rc, 'lines': lines, 'wall': round(time.time() - t0, 1)}
                    sh('git checkout -- lean/NflowsModel/Generated evidence', cwd=snap)
        finally:
            sh('git -C /repo worktree remove --force %s' % wt)
        res[sid] = out
        print(sid, {p: (r['rc'], 'nofail' if any('no-failing' in l for l in r['lines']) else '') for p, r in out.items() if isinstance(r, dict)}, flush=True)
        json.dump(res, open(OUT, 'w'), indent=1)
ts = [threading.Thread(target=worker, args=(k,)) for k in range(5)]
for t in ts: t.start()
for t in ts: t.join()
print('MX-DONE')
