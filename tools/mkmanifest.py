#!/usr/bin/env python3
"""Regenerate /verif/MANIFEST.json from the table below (kept next to the checks so they stay in sync)."""
import json, os
HERE = os.path.dirname(os.path.dirname(os.path.abspath(__file__)))

NOTE_COMMON = ("Trusted: Lean 4.33 kernel + Mathlib v4.33; axioms propext/Classical.choice/Quot.sound only (audited per run); "
               "the hand-written Lean model is tied to /repo by a differential correspondence run (Python harness, bit-exact float transport); "
               "theorems are over the reals, float behaviour is covered by executing the same definitions in Float/Float32; "
               "torch kernels, autograd and RNGs trusted; neural conditioners are arbitrary functions in the theorems (their recorded outputs in the correspondence).")

CHECKS = {
 'C09': dict(cat='proof', text="Lean theorems (any K, any parameters, any box): knots valid, bin search spec, per-bin strict monotonicity/end-points of the executed Expr terms, K-bin assembly strictly increasing with pinned end-points, tails identity; tied to the code by running the same Lean definitions against the four spline functions on knots, neighbours, end-points and the tail junction.",
             tech="Lean 4 proof + model/implementation correspondence", ref="DESIGN.md §5 C09"),
}
CHECKS.update({
 'C01': dict(cat='proof', text="Lean theorems: HasDerivAt laws with derivative exp(returned log-det) for the element-wise transformers and for the EXECUTED Expr terms of the RQ/quadratic/cubic bins (any bin, any parameters), box rescaling, ranked-dependency determinant (coupling with any mask, autoregressive, element-wise: det = product of diagonal), LU log-det, additivity under composition; tied to the code by running the same Lean definitions (fed the recorded conditioner outputs) against every modelled transform class, outputs and log-abs-dets.",
             tech="Lean 4 proof + model/implementation correspondence", ref="DESIGN.md §5 C01"),
 'C02': dict(cat='proof', text="Lean theorems: scalar round trips (exp, tanh, leaky ReLU, the stable quadratic root, the executed RQ root term in both orders), structural round trips generic in the scalar bijections (coupling any mask, autoregressive in n passes, composite reversed, Householder); tied to the code in both directions incl. pass-by-pass autoregressive inverse; finiteness/accuracy in floating point only via the executed model (stated as such).",
             tech="Lean 4 proof + model/implementation correspondence", ref="DESIGN.md §5 C02"),
 'C07': dict(cat='proof', text="Lean theorems generic in the element type: identity pass-through (both directions), the conditioner sees only the identity split, transformed feature depends only on itself + identity features + context, index partition of the executable mask split, image parameter layout; tied to the code bitwise (identity features, conditioner input) over every non-trivial mask subset for small feature counts.",
             tech="Lean 4 proof + bitwise model/implementation correspondence", ref="DESIGN.md §5 C07"),
})
NOT_YET = {}

def main():
    props = [json.loads(l) for l in open(os.path.join(HERE, 'properties.jsonl'))]
    checks, na = [], []
    for p in props:
        pid = p['id']
        if pid in CHECKS:
            c = CHECKS[pid]
            checks.append({
                'property_id': pid,
                'quick_cmd': './bin/check %s quick' % pid,
                'thorough_cmd': './bin/check %s thorough' % pid,
                'evidence_file': 'evidence/%s.json' % pid,
                'replay_cmd_template': './bin/check %s --replay {path}' % pid,
                'engine': 'lean-proof+correspondence',
                'level_claimed': {'category': c['cat'], 'text': c['text'], 'design_ref': c['ref']},
                'level_note': c.get('note', NOTE_COMMON),
                'technique': c['tech'],
            })
        else:
            na.append({'property_id': pid, 'reason': NOT_YET.get(pid, 'check not built yet in this revision (work in progress; see DESIGN.md §9 build order)')})
    m = {
        'version': 1,
        'setup_cmd': 'cd lean && lake build',
        'hooks': {'guard': 'NFLOWS_VERIF', 'enable': 'no source hooks are needed: checks observe public behaviour, forward hooks and TorchFunctionMode; NFLOWS_VERIF=1 is exported by bin/check for uniformity',
                  'baseline_off_cmd': 'cd /repo && /venv/bin/python -m pytest -ra -q -p no:cacheprovider --timeout=900 --continue-on-collection-errors',
                  'source_commits': [], 'add_only': True},
        'engines': [{'name': 'lean-proof+correspondence', 'path': 'lean/ , harness/ , bin/check',
                     'serves_properties': sorted(CHECKS), 'kind_free_text': 'Lean 4 theorems about a hand-written executable model (lean/NflowsModel), audited with collectAxioms on every run; Python differential harness drives the compiled model (line protocol, floats as bit patterns) against /repo'}],
        'checks': checks,
        'not_applicable': na,
        'notes': 'bin/check <id> quick|thorough; exit 0 held / 1 VIOLATION / 2 infrastructure. known_findings.json lists fixed (fix: commits in /repo) and known findings.',
    }
    json.dump(m, open(os.path.join(HERE, 'MANIFEST.json'), 'w'), indent=1)
    print('wrote MANIFEST.json with', len(checks), 'checks,', len(na), 'not_applicable')

if __name__ == '__main__':
    main()
