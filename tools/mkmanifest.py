#!/usr/bin/env python3
"""Regenerate /verif/MANIFEST.json from the table below (kept next to the checks so they stay in sync)."""
import json, os
HERE = os.path.dirname(os.path.dirname(os.path.abspath(__file__)))

NOTE_COMMON = ("Trusted: Lean 4.33 kernel + Mathlib v4.33; axioms propext/Classical.choice/Quot.sound only (audited per run); "
               "the hand-written Lean model is tied to /repo by a differential correspondence run (Python harness, bit-exact float transport); "
               "theorems are over the reals, float behaviour is covered by executing the same definitions in Float/Float32; "
               "torch kernels, autograd and RNGs trusted; neural conditioners are arbitrary functions in the theorems (their recorded outputs in the correspondence).")

CHECKS = {
 'C09': dict(cat='proof', text="Lean theorems (any K, any parameters, any box): knots valid, bin search spec, per-bin strict monotonicity/end-points of the executed Expr terms, K-bin assembly strictly increasing with pinned end-points, tails identity; tied to the code by running the same Lean definitions against the four spline functions on knots, neighbours, end-points and the tail junction.",
             tech="Lean 4 proof + model/implementation correspondence", ref="DESIGN.md §5 C09"),
}
CHECKS.update({
 'C01': dict(cat='proof', text="Lean theorems: HasDerivAt laws with derivative exp(returned log-det) for the element-wise transformers and for the EXECUTED Expr terms of the RQ/quadratic/cubic bins (any bin, any parameters), box rescaling, ranked-dependency determinant (coupling with any mask, autoregressive, element-wise: det = product of diagonal), LU log-det, additivity under composition; tied to the code by running the same Lean definitions (fed the recorded conditioner outputs) against every modelled transform class, outputs and log-abs-dets.",
             tech="Lean 4 proof + model/implementation correspondence", ref="DESIGN.md §5 C01"),
 'C02': dict(cat='proof', text="Lean theorems: scalar round trips (exp, tanh, leaky ReLU, the stable quadratic root, the executed RQ root term in both orders), structural round trips generic in the scalar bijections (coupling any mask, autoregressive in n passes, composite reversed, Householder); tied to the code in both directions incl. pass-by-pass autoregressive inverse; finiteness/accuracy in floating point only via the executed model (stated as such).",
             tech="Lean 4 proof + model/implementation correspondence", ref="DESIGN.md §5 C02"),
 'C07': dict(cat='proof', text="Lean theorems generic in the element type: identity pass-through (both directions), the conditioner sees only the identity split, transformed feature depends only on itself + identity features + context, index partition of the executable mask split, image parameter layout; tied to the code bitwise (identity features, conditioner input) over every non-trivial mask subset for small feature counts.",
             tech="Lean 4 proof + bitwise model/implementation correspondence", ref="DESIGN.md §5 C07"),
})
CHECKS.update({
 'C04': dict(cat='proof', text="Lean theorems for all R, n: repeat_rows/merge/split index laws, row pairing (flat row i*n+j pairs noise (i,j) with context row i), sample = Tinv(noise; emb c_i) and logp = base - ldInv, consistency with log_prob under ldInv = -ld∘Tinv, and the push-forward density (Measure.map form, 1-D and n-D event probabilities); tied to the code by tagged integer tensors through the real Flow/Distribution plumbing (exact) and seeded noise reproduction on real flows. RNG and the law of large numbers are trusted; KS test only in the thorough tier.",
             tech="Lean 4 proof + exact/seeded correspondence", ref="DESIGN.md §5 C04"),
 'C08': dict(cat='proof', text="Lean theorems about the executable wrapper model (no bound on parts, stages, rank, size, split dim): cascade = left fold, composite forward in order / inverse reversed with summed log-dets, InverseTransform swaps directions, multiscale shape bookkeeping ((n+1)/2, n/2, sizes sum), stage-prefix routing, routing is a permutation for identity stages, inverse∘forward and forward∘inverse; tied bit-exactly to the code on random nestings over non-commuting exact atoms, the full multiscale grid and 60 error-contract cases.",
             tech="Lean 4 proof + exact correspondence", ref="DESIGN.md §5 C08"),
 'C10': dict(cat='proof', text="Lean state machine of the Linear cache (current code: load_state_dict and dtype conversion invalidate) with an inductive invariant; theorem: for EVERY history over {train, eval, use_cache, forward, inverse, update, load, cast, forward+backward} the cached run equals the uncached reference, under two explicit hypotheses (updates only in training mode — the property's alphabet — and no repeated backward through one cache epoch); the second is a genuine defect kept as known finding F11c with a decide-proved counterexample. Tied by lock-step histories on the five classes (white-box cache state, outputs/log-dets/gradients vs recomputation).",
             tech="Lean 4 invariant proof over histories + lock-step correspondence", ref="DESIGN.md §5 C10"),
 'C11': dict(cat='proof', text="Lean theorems: LU/QR/SVD/Householder matrix identities (W = LU / QR / Q1 D Q2, weight_inverse two-sided inverse, logabsdet = log|det W|, Householder (sequences) orthogonal with |det| = 1, matrix() = Q), executed index placement (tril/triu order), executed triangular solves, initial q-vectors are unit basis vectors for ALL constructor-accepted sizes; tied to the code on accessors/forward/inverse for features 1-6 x Householder counts 1-13 x init modes x dtypes, constructor grid exact. NaiveLinear's LU/inverse/slogdet by specification.",
             tech="Lean 4 proof + model/implementation correspondence", ref="DESIGN.md §5 C11"),
 'C12': dict(cat='proof', text="Lean theorems: boolean-mask gather/scatter equals row-wise routing (any batch length), row-wise maps give row i from row i alone, are permutation-equivariant and insensitive to other rows, image parameter layout; tied to the code by whole-batch implementation vs the row-wise model on batch sizes 1,2,3,7 and conditioner batch-vs-row comparison.",
             tech="Lean 4 proof + model/implementation correspondence", ref="DESIGN.md §5 C12"),
 'C17': dict(cat='proof', text="Lean theorems on the executable model for ANY scalar semantics (Float, Float32, reals): a restricted transform rejects an element iff the comparison the code makes says it is outside (Exp/Tanh/Sigmoid/Logit/Cauchy inverses; bounded splines reject outside the interval of the requested direction; tails accept everything outside), and over the reals every accepted input gets an in-range bin index for any box magnitude. The rounding-dependent half (eps absorption at large bounds in float32) is carried by executing the model in the same precision on boundary atoms +-1ulp.",
             tech="Lean 4 proof + same-precision correspondence on boundary atoms", ref="DESIGN.md §5 C17"),
 'C18': dict(cat='proof', text="Lean theorems for any class meeting a hook contract, any event shape, any R: log_prob shape and ValueError iff row mismatch, sample shapes with/without context, TypeError iff not a positive int (bool counts as int), batched sampling gives n draws per context row for every n, b (dividing or not), sample_and_log_prob shapes match, per-class contract instances; tied exactly on an exhaustive grid (18k cells) of classes x n x batch_size x context x event shapes. Known finding F15 (MADEMoG.sample without context).",
             tech="Lean 4 proof + exhaustive exact correspondence", ref="DESIGN.md §5 C18"),
 'C19': dict(cat='other', text="PARTIAL. Proved: the dtype clause on a promotion-lattice model (results of ops over dimensioned float-d leaves plus weak leaves have dtype d); and, for the numeric clause, forward-error theorems in the standard model of floating-point arithmetic (the EXECUTED program with every primitive followed by a rounding of relative error <= u; the model is realised in Lean by round-to-nearest-even to 24 / 53 significant bits, proved to satisfy it at every real and proved equal to any function meeting IEEE-754's roundTiesToEven specification on the normal range; trusted: torch's kernels are correctly rounded and no intermediate leaves the normal range): inner product, F.linear, point-wise affine element (both directions, log-det), chains of affine elements and general Lipschitz composition, LeakyReLU, Exp, LU/SVD log-det sums, the LULinear forward pass with given factors, and whole FLOWS of linear / LU / affine / LeakyReLU layers chained by the model's own composite loop (sup-norm error recursion, log-det running sum) -- two precisions differ by at most the two rounding budgets times the conditioning scale sum|x_i||w_i|. NOT a theorem: splines and other programs branching on rounded constants, overflow/NaN/finiteness; these are decided by executing the same Lean definitions in Float32 and Float against the float32 implementation and its float64 twin, plus result-dtype checks.",
             tech="Lean 4 proof (dtype clause) + Float32/Float model correspondence (numeric clause)", ref="DESIGN.md §5 C19, §8.1"),
})
CHECKS.update({
 'C13': dict(cat='proof', text="PARTIAL (theorem is about a storage-trace machine). Lean: traceSafe_sound / values_unchanged (a trace with no write to an owned, non-whitelisted storage leaves those storages unchanged for ALL tensor values), closure under concatenation and arbitrary call histories, repeat determinism, exactness of the check. Translator: on every run the op traces of ~480 (configuration, mode, call, branch atom, input kind) cases are extracted from the running code (TorchFunctionMode) and written to Generated/C13.lean, one `traceSafe … = true := by decide` obligation per distinct skeleton; independently, bitwise + _version snapshots of caller tensors and the whole state dict are compared with the verdicts. A code path never executed by the generator is not covered.",
             tech="Lean 4 proof on a trace model + run-time translator of op traces + bitwise snapshots", ref="DESIGN.md §5 C13, §8.3"),
 'C15': dict(cat='proof', text="PARTIAL (theorem is about a state-dict inventory model). Lean: reload_sound / reload_same_function / reload_after_history (an inventory whose function-determining entries are persisted, constructor-determined or aliases reloads to the same evaluation, for every history of value updates), exactness. Translator: on every run the inventory of every configuration with constructor-time randomness is extracted from the running modules and written to Generated/C15.lean (one `reloadSafe … = true := by decide` obligation each); behavioural differential: save under seed A, load into an instance built under seed B, forward/inverse/log_prob compared bitwise.",
             tech="Lean 4 proof on an inventory model + run-time translator + bitwise reload differential", ref="DESIGN.md §5 C15, §8.3"),
})
CHECKS.update({
 'C05': dict(cat='proof', text="Lean theorems on the executed density definitions at the real instance, for every event dimension D: standard/diagonal/conditional-diagonal normal integrate to 1 and have the stated means; sampling map mu+sigma*eps has law withDensity exp(log_prob); Bernoulli sums to 1 over {0,1}^D with mean sigmoid(logits) (for the executed softplus with threshold 20 under |logit| <= 20, counterexample beyond); MoG conditionals and the autoregressive joint integrate to 1 for every D (conditionals measurable functions of the prefix, cited from C06); KDE normalised for every N, D; BoxUniform / MG1 volume; truncated-Gaussian (Lotka) normaliser. Tied by log_prob/mean/seeded-sample correspondence on every Distribution class. erf of the executable model is a series validated numerically only; RNGs trusted. Known finding F15.",
             tech="Lean 4 proof (measure theory) + model/implementation correspondence", ref="DESIGN.md §5 C05"),
 'C14': dict(cat='proof', text="Lean theorems for EVERY history over {train, eval, forward(batch), inverse(batch), save+load into a fresh instance}: the executable ActNorm / BatchNorm code machines (generic in the scalar semantics, i.e. the binary64 machine the driver runs) refine spec machines written from the documented behaviour; initialisation at most once, exactly at the first training-mode forward, never in eval / by inverse / after reload; the initialising batch comes out with mean 0 and unbiased variance 1 (reals, 2-D and 4-D); running statistics are the momentum fold over exactly the training-mode forward batches (closed form over the reals); eval uses running stats; inverse refused in training. Tied by lock-step histories (exhaustive to length 5, random to 40) with bit-exact running statistics on dyadic data.",
             tech="Lean 4 refinement proof over histories + lock-step correspondence", ref="DESIGN.md §5 C14"),
 'C16': dict(cat='proof', text="PARTIAL. Proved: forward-mode AD over the expression language is sound away from kinks (evalDual_sound), and the executed RQ forward term is smooth on its bin for every parameter value, so it is differentiable in the input and in every parameter with the derivative the dual evaluation returns. Tie: torch.autograd gradients of the real code w.r.t. inputs and w.r.t. conditioner outputs / own parameters (made leaves) are compared along random directions with the dual-number evaluation (dualX floatX) of the SAME Lean model definitions, for every modelled transform in both directions; every parameter receives a finite gradient, backward twice. Autograd itself (chain rule through conditioners) is trusted.",
             tech="Lean 4 proof (AD soundness) + autograd-vs-dual-number correspondence", ref="DESIGN.md §5 C16, §8.2"),
})
CHECKS.update({
 'C03': dict(cat='proof', text="Lean theorems: change of variables in 1-D and n-D (bijection + derivative with |det| = exp(log-det) + normalised base => exp(log_prob) integrates to 1), closure of 1-D diffeomorphisms under composition with summed log-dets (every program of such parts is normalised, by structural induction), normalised diagonal-normal base for every dimension. Tie: log_prob of random real flows (1-3 stages, Inverse wrappers, three bases, context / embedding net) vs base model at the model-transformed point + summed model log-dets, chained stage by stage. Bijectivity onto the support rests on C09/C02; differentiability of conditioners is a hypothesis. Quadrature only in the search (1-D).",
             tech="Lean 4 proof (measure theory) + model/implementation correspondence", ref="DESIGN.md §5 C03"),
 'C06': dict(cat='proof', text="Lean theorems for EVERY MADE the constructor can build (any feature count, hidden width, number/type of blocks, any hidden degrees incl. random draws, context, multiplier, per-unit maps that may couple batch rows as training-mode batch norm does) and ALL weight values: output unit i*m+r is unchanged when inputs j >= i change; the executable path-count matrix is strictly lower block-triangular; built nets are valid. Tie (exact integers): mask/degrees buffers and autograd Jacobians at all-ones weights equal the model's path counts, for both copies of the implementation (transforms.MADE, nde.MADE, MixtureOfGaussiansMADE), exhaustively up to F<=6, H<=8, 3 blocks. Over the reals (0*inf = NaN caveat).",
             tech="Lean 4 proof + exact correspondence on both implementation copies", ref="DESIGN.md §5 C06"),
 'C20': dict(cat='proof', text="Lean theorems on the executable helper models, all shapes/sizes: tile / repeat_rows placement, merge/split leading dims mutually inverse (explicit split and -1 inference: exactly when split_leading_dim returns, every failure a RuntimeError, round trip characterised incl. 0-element tensors), sum_except_batch shape and value for every num_batch_dims, searchsorted half-open bin spec on any linearly ordered scalar semantics and its purity, cbrt^3 = x for all signs, logabsdet = log|det| (slogdet by specification; executable Laplace determinant = Matrix.det for EVERY n), mask patterns and counts, temperature, type predicates incl. is_power_of_two <-> exists k, n = 2^k. Tie: exhaustive over all shapes with <= 3 dims and <= 4 per dim with tagged tensors (exact), arguments snapshotted before/after every call.",
             tech="Lean 4 proof + exhaustive exact correspondence", ref="DESIGN.md §5 C20"),
})
NOT_YET = {}

# the whole-program layer (theorems about the executed list/array programs instantiated at the reals; DESIGN.md §10.1)
EXTRA = {
 'C01': " Whole programs: HasDerivAt (value) (exp (returned log-det)) for the executed RQ (every point of the open box; with linear tails every real point), quadratic, cubic, linear spline programs and their inverses; row log-det of the executed coupling layer = channel sum, of the executed autoregressive transform (MADE conditioner) = log|det J_b|; executed Tanh (stable formula).",
 'C02': " Whole programs: both round trips and the negated log-det on the closed boxes (knots included) for the executed RQ, quadratic (both shapes), linear programs, RQ with tails on all reals, cubic (exact away from the declared quadratic fallback, error < quadratic_threshold otherwise, counterexample proved); executed coupling layer inverse(forward(x)) = x on whole arrays for additive/affine/RQ/RQ-tails/quadratic/linear elements; executed F-pass autoregressive inverse loop undoes forward for any autoregressive conditioner, MADE model discharged.",
 'C06': " The MADE model is shown to be an autoregressive conditioner in the sense the executed autoregressive transform needs (any batch coupling maps).",
 'C07': " Executed coupling layer (couplingApply, any XOps incl. Float): identity positions untouched, conditioner input = identity split (incl. unconditional-transform ordering), one row refines the abstract coupling.",
 'C09': " Whole programs: the executed RQ / quadratic / cubic / linear forward programs (and inverses) are strictly increasing bijections of the box pinning the corners for every K and parameter vector; with linear tails: identity outside, continuous, strictly increasing bijection of the real line (RQ also C1 at the junctions).",
 'C12': " Executed coupling / autoregressive / CDF passes: row b of out and ld depends only on row b of x and params (batch sizes may differ), for any XOps.",
 'C16': " Also: soundness of the dual-number rule of every XOps primitive, of every element-wise transformer (input and own-parameter directions) and of the whole executed RQ program on dual numbers (returns (value, exp(log-det))); the executed RQ inverse, quadratic (both shapes) and linear programs on dual numbers; the executed RQ forward AND inverse, quadratic and linear forward programs in EVERY parameter direction (tangents through softmax, floor, cumsum, pinning, search, closed form = derivative of the real program along the line); the chain rule through the EXECUTED coupling layer with bounded RQ elements in both directions (inputs and conditioner output moving along arbitrary differentiable curves: every output entry and row log-det of the dual run is the total derivative).",
 'C17': " Whole programs: every executed spline program (RQ, quadratic both shapes, cubic, linear; forward and inverse; RQ with tails on all reals; RQ-tails coupling layers) returns a value on its whole domain (all gathers in range, assertions dead, logarithm arguments positive); counterexample theorem for the one-bin quadratic tails configuration (known finding F27).",
}


def main():
    props = [json.loads(l) for l in open(os.path.join(HERE, 'properties.jsonl'))]
    checks, na = [], []
    for p in props:
        pid = p['id']
        if pid in CHECKS:
            c = CHECKS[pid]
            checks.append({
                'property_id': pid,
                'quick_cmd': './bin/check %s quick' % pid,
                'thorough_cmd': './bin/check %s thorough' % pid,
                'evidence_file': 'evidence/%s.json' % pid,
                'replay_cmd_template': './bin/check %s --replay {path}' % pid,
                'engine': 'lean-proof+correspondence',
                'level_claimed': {'category': c['cat'], 'text': c['text'] + EXTRA.get(pid, ''), 'design_ref': c['ref']},
                'level_note': c.get('note', NOTE_COMMON),
                'technique': c['tech'],
            })
        else:
            na.append({'property_id': pid, 'reason': NOT_YET.get(pid, 'check not built yet in this revision (work in progress; see DESIGN.md §9 build order)')})
    m = {
        'version': 1,
        'setup_cmd': 'cd lean && lake build',
        'hooks': {'guard': 'NFLOWS_VERIF', 'enable': 'no source hooks are needed: checks observe public behaviour, forward hooks and TorchFunctionMode; NFLOWS_VERIF=1 is exported by bin/check for uniformity',
                  'baseline_off_cmd': 'cd /repo && /venv/bin/python -m pytest -ra -q -p no:cacheprovider --timeout=900 --continue-on-collection-errors',
                  'source_commits': [], 'add_only': True},
        'engines': [{'name': 'lean-proof+correspondence', 'path': 'lean/ , harness/ , bin/check',
                     'serves_properties': sorted(CHECKS), 'kind_free_text': 'Lean 4 theorems about a hand-written executable model (lean/NflowsModel), audited with collectAxioms on every run; Python differential harness drives the compiled model (line protocol, floats as bit patterns) against /repo'}],
        'checks': checks,
        'not_applicable': na,
        'notes': 'bin/check <id> quick|thorough; exit 0 held / 1 VIOLATION / 2 infrastructure. known_findings.json lists fixed (fix: commits in /repo) and known findings.',
    }
    json.dump(m, open(os.path.join(HERE, 'MANIFEST.json'), 'w'), indent=1)
    print('wrote MANIFEST.json with', len(checks), 'checks,', len(na), 'not_applicable')

if __name__ == '__main__':
    main()
