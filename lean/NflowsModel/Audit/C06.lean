import NflowsModel.Audit.Tool
import NflowsModel.Properties.C06

#audit_namespace Properties.C06
