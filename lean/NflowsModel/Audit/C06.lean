import NflowsModel.Audit.Tool
import NflowsModel.Properties.C06
import NflowsModel.Properties.C06A

#audit_namespace Properties.C06
