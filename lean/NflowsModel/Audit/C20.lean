import NflowsModel.Audit.Tool
import NflowsModel.Properties.C20
import NflowsModel.Properties.C20D

#audit_namespace Properties.C20
