import NflowsModel.Audit.Tool
import NflowsModel.Properties.C20

#audit_namespace Properties.C20
