import NflowsModel.Audit.Tool
import NflowsModel.Properties.C17
import NflowsModel.Properties.C17E
import NflowsModel.Properties.C17W

#audit_namespace Properties.C17
