import NflowsModel.Audit.Tool
import NflowsModel.Properties.C17
import NflowsModel.Properties.C17E

#audit_namespace Properties.C17
