import NflowsModel.Audit.Tool
import NflowsModel.Properties.C17

#audit_namespace Properties.C17
