import NflowsModel.Audit.Tool
import NflowsModel.Properties.C01
import NflowsModel.Properties.C01E
import NflowsModel.Properties.C01J
import NflowsModel.Properties.C01L
import NflowsModel.Properties.C01N
import NflowsModel.Properties.C01V
import NflowsModel.Properties.C01M
import NflowsModel.Properties.C01X

#audit_namespace Properties.C01
