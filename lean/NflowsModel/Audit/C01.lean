import NflowsModel.Audit.Tool
import NflowsModel.Properties.C01

#audit_namespace Properties.C01
