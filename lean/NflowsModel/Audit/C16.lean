import NflowsModel.Audit.Tool
import NflowsModel.Properties.C16

#audit_namespace Properties.C16
