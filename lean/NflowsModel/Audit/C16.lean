import NflowsModel.Audit.Tool
import NflowsModel.Properties.C16
import NflowsModel.Properties.C16D
import NflowsModel.Properties.C16M
import NflowsModel.Properties.C16L
import NflowsModel.Properties.C16O
import NflowsModel.Properties.C16F
import NflowsModel.Properties.C16S
import NflowsModel.Properties.C16R

#audit_namespace Properties.C16
