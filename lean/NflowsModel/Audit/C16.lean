import NflowsModel.Audit.Tool
import NflowsModel.Properties.C16
import NflowsModel.Properties.C16D
import NflowsModel.Properties.C16M

#audit_namespace Properties.C16
