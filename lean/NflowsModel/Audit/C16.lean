import NflowsModel.Audit.Tool
import NflowsModel.Properties.C16
import NflowsModel.Properties.C16D

#audit_namespace Properties.C16
