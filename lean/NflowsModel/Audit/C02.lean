import NflowsModel.Audit.Tool
import NflowsModel.Properties.C02
import NflowsModel.Properties.C02E
import NflowsModel.Properties.C02V
import NflowsModel.Properties.C02A

#audit_namespace Properties.C02
