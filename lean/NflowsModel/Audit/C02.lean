import NflowsModel.Audit.Tool
import NflowsModel.Properties.C02
import NflowsModel.Properties.C02E

#audit_namespace Properties.C02
