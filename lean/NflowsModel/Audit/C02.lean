import NflowsModel.Audit.Tool
import NflowsModel.Properties.C02

#audit_namespace Properties.C02
