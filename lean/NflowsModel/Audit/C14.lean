import NflowsModel.Audit.Tool
import NflowsModel.Properties.C14

#audit_namespace Properties.C14
