import NflowsModel.Audit.Tool
import NflowsModel.Properties.C19

#audit_namespace Properties.C19
