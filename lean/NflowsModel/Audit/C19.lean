import NflowsModel.Audit.Tool
import NflowsModel.Properties.C19
import NflowsModel.Properties.C19R

#audit_namespace Properties.C19
