import Lean
/-!
# Audit/Tool — `#audit_namespace ns`

Enumerates every theorem declared in namespace `ns` and prints, one JSON line each, the axioms it depends on
(`collectAxioms`), so no property theorem can be forgotten by the audit and a `sorry` shows up as `sorryAx`.
-/
open Lean Elab Command

elab "#audit_namespace " ns:ident : command => do
  let env ← getEnv
  let nsName := ns.getId
  let mut names : Array Name := #[]
  for (n, ci) in env.constants.map₁.toList do
    if nsName.isPrefixOf n && !n.isInternal then
      match ci with
      | .thmInfo _ => names := names.push n
      | _ => pure ()
  for (n, ci) in env.constants.map₂.toList do
    if nsName.isPrefixOf n && !n.isInternal then
      match ci with
      | .thmInfo _ => names := names.push n
      | _ => pure ()
  for n in names.qsort (fun a b => a.toString < b.toString) do
    let axs ← liftCoreM (collectAxioms n)
    let axsStr := ", ".intercalate (axs.toList.map (fun a => "\"" ++ a.toString ++ "\""))
    logInfo m!"AUDIT \{\"theorem\":\"{n}\",\"axioms\":[{axsStr}]}"
