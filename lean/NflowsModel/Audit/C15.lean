import NflowsModel.Audit.Tool
import NflowsModel.Properties.C15

#audit_namespace Properties.C15
