import NflowsModel.Audit.Tool
import NflowsModel.Properties.C18

#audit_namespace Properties.C18
