import NflowsModel.Audit.Tool
import NflowsModel.Properties.C18
import NflowsModel.Properties.C18L

#audit_namespace Properties.C18
