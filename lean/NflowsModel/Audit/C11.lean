import NflowsModel.Audit.Tool
import NflowsModel.Properties.C11
import NflowsModel.Properties.C11F
import NflowsModel.Properties.C11G

#audit_namespace Properties.C11
