import NflowsModel.Audit.Tool
import NflowsModel.Properties.C11

#audit_namespace Properties.C11
