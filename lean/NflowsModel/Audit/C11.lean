import NflowsModel.Audit.Tool
import NflowsModel.Properties.C11
import NflowsModel.Properties.C11F

#audit_namespace Properties.C11
