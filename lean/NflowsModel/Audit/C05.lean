import NflowsModel.Audit.Tool
import NflowsModel.Properties.C05

#audit_namespace Properties.C05
