import NflowsModel.Audit.Tool
import NflowsModel.Properties.C05
import NflowsModel.Properties.C05G

#audit_namespace Properties.C05
