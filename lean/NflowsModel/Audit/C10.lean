import NflowsModel.Audit.Tool
import NflowsModel.Properties.C10

#audit_namespace Properties.C10
