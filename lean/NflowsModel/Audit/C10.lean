import NflowsModel.Audit.Tool
import NflowsModel.Properties.C10
import NflowsModel.Properties.C10V

#audit_namespace Properties.C10
