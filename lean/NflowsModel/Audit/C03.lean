import NflowsModel.Audit.Tool
import NflowsModel.Properties.C03
import NflowsModel.Properties.C03ND
import NflowsModel.Properties.C03B

#audit_namespace Properties.C03
