import NflowsModel.Audit.Tool
import NflowsModel.Properties.C03

#audit_namespace Properties.C03
