import NflowsModel.Audit.Tool
import NflowsModel.Properties.C03
import NflowsModel.Properties.C03ND

#audit_namespace Properties.C03
