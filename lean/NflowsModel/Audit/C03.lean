import NflowsModel.Audit.Tool
import NflowsModel.Properties.C03
import NflowsModel.Properties.C03ND
import NflowsModel.Properties.C03B
import NflowsModel.Properties.C03M
import NflowsModel.Properties.C03G

#audit_namespace Properties.C03
