import NflowsModel.Audit.Tool
import NflowsModel.Properties.C09

#audit_namespace Properties.C09
