import NflowsModel.Audit.Tool
import NflowsModel.Properties.C08
import NflowsModel.Properties.C08I

#audit_namespace Properties.C08
