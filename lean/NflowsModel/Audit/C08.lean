import NflowsModel.Audit.Tool
import NflowsModel.Properties.C08

#audit_namespace Properties.C08
