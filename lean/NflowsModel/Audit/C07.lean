import NflowsModel.Audit.Tool
import NflowsModel.Properties.C07
import NflowsModel.Properties.C07C

#audit_namespace Properties.C07
