import NflowsModel.Audit.Tool
import NflowsModel.Properties.C07

#audit_namespace Properties.C07
