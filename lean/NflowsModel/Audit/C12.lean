import NflowsModel.Audit.Tool
import NflowsModel.Properties.C12

#audit_namespace Properties.C12
