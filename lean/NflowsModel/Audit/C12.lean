import NflowsModel.Audit.Tool
import NflowsModel.Properties.C12
import NflowsModel.Properties.C12E

#audit_namespace Properties.C12
