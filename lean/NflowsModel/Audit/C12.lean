import NflowsModel.Audit.Tool
import NflowsModel.Properties.C12
import NflowsModel.Properties.C12E
import NflowsModel.Properties.C12R
import NflowsModel.Properties.C12F
import NflowsModel.Properties.C12S
import NflowsModel.Properties.C12A

#audit_namespace Properties.C12
