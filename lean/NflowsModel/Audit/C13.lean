import NflowsModel.Audit.Tool
import NflowsModel.Properties.C13

#audit_namespace Properties.C13
