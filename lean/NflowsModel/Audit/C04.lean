import NflowsModel.Audit.Tool
import NflowsModel.Properties.C04
import NflowsModel.Properties.C04P
import NflowsModel.Properties.C04X
import NflowsModel.Properties.C04R
import NflowsModel.Properties.C04A
import NflowsModel.Properties.C04G

#audit_namespace Properties.C04
