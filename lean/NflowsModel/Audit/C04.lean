import NflowsModel.Audit.Tool
import NflowsModel.Properties.C04
import NflowsModel.Properties.C04P
import NflowsModel.Properties.C04X
import NflowsModel.Properties.C04R

#audit_namespace Properties.C04
