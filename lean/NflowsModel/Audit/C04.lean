import NflowsModel.Audit.Tool
import NflowsModel.Properties.C04
import NflowsModel.Properties.C04P

#audit_namespace Properties.C04
