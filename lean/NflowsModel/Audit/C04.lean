import NflowsModel.Audit.Tool
import NflowsModel.Properties.C04

#audit_namespace Properties.C04
