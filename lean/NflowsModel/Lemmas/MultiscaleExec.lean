import Mathlib.Tactic
import NflowsModel.Core.Multiscale
import NflowsModel.Lemmas.WrappersExec
/-!
# Lemmas/MultiscaleExec — helper lemmas about the EXECUTABLE multiscale model of `Core/Multiscale.lean`
(block walks on row-major data, shapes `pre ++ n :: suf`, chunk/cat, the stage loops)
-/
namespace NF.Wrap

variable {α : Type}

/-! ### blocks -/

theorem splitBlocks_length (blk k : Nat) (hk : k ≤ blk) : ∀ (m : Nat) (l : List α), l.length = m * blk →
    (splitBlocks blk k m l).1.length = m * k ∧ (splitBlocks blk k m l).2.length = m * (blk - k)
  | 0, l, _ => by simp [splitBlocks]
  | m + 1, l, hl => by
    have hl' : (l.drop blk).length = m * blk := by rw [List.length_drop, hl, Nat.succ_mul]; omega
    obtain ⟨h1, h2⟩ := splitBlocks_length blk k hk m (l.drop blk) hl'
    have hb : blk ≤ l.length := by rw [hl, Nat.succ_mul]; omega
    simp only [splitBlocks, List.length_append, List.length_take, List.length_drop, h1, h2, Nat.succ_mul]
    constructor <;> omega

theorem merge_split (blk k : Nat) (hk : k ≤ blk) : ∀ (m : Nat) (l : List α), l.length = m * blk →
    mergeBlocks k (blk - k) m (splitBlocks blk k m l).1 (splitBlocks blk k m l).2 = l
  | 0, l, hl => by
    have : l = [] := List.eq_nil_of_length_eq_zero (by simpa using hl)
    simp [mergeBlocks, this]
  | m + 1, l, hl => by
    have hl' : (l.drop blk).length = m * blk := by rw [List.length_drop, hl, Nat.succ_mul]; omega
    have hb : blk ≤ l.length := by rw [hl, Nat.succ_mul]; omega
    have ih := merge_split blk k hk m (l.drop blk) hl'
    have hA : ((l.take blk).take k).length = k := by simp [List.length_take]; omega
    have hB : ((l.take blk).drop k).length = blk - k := by simp [List.length_take, List.length_drop]; omega
    simp only [splitBlocks, mergeBlocks]
    rw [List.take_left' hA, List.drop_left' hA, List.take_left' hB, List.drop_left' hB, ih]
    rw [← List.append_assoc, List.take_append_drop, List.take_append_drop]

theorem split_merge (ka kb : Nat) : ∀ (m : Nat) (a b : List α), a.length = m * ka → b.length = m * kb →
    splitBlocks (ka + kb) ka m (mergeBlocks ka kb m a b) = (a, b)
  | 0, a, b, ha, hb => by
    have h1 : a = [] := List.eq_nil_of_length_eq_zero (by simpa using ha)
    have h2 : b = [] := List.eq_nil_of_length_eq_zero (by simpa using hb)
    simp [splitBlocks, h1, h2]
  | m + 1, a, b, ha, hb => by
    have ha' : (a.drop ka).length = m * ka := by rw [List.length_drop, ha, Nat.succ_mul]; omega
    have hb' : (b.drop kb).length = m * kb := by rw [List.length_drop, hb, Nat.succ_mul]; omega
    have ih := split_merge ka kb m (a.drop ka) (b.drop kb) ha' hb'
    have hA : (a.take ka).length = ka := by rw [List.length_take, ha, Nat.succ_mul]; omega
    have hB : (b.take kb).length = kb := by rw [List.length_take, hb, Nat.succ_mul]; omega
    have hAB : (a.take ka ++ b.take kb).length = ka + kb := by simp [List.length_append, hA, hB]
    simp only [splitBlocks, mergeBlocks]
    rw [← List.append_assoc, List.take_left' hAB, List.drop_left' hAB, List.take_left' hA, List.drop_left' hA, ih]
    simp [List.take_append_drop]

theorem mergeBlocks_length (ka kb : Nat) : ∀ (m : Nat) (a b : List α), a.length = m * ka → b.length = m * kb →
    (mergeBlocks ka kb m a b).length = m * (ka + kb)
  | 0, a, b, _, _ => by simp [mergeBlocks]
  | m + 1, a, b, ha, hb => by
    have ha' : (a.drop ka).length = m * ka := by rw [List.length_drop, ha, Nat.succ_mul]; omega
    have hb' : (b.drop kb).length = m * kb := by rw [List.length_drop, hb, Nat.succ_mul]; omega
    have ih := mergeBlocks_length ka kb m (a.drop ka) (b.drop kb) ha' hb'
    have hA : (a.take ka).length = ka := by rw [List.length_take, ha, Nat.succ_mul]; omega
    have hB : (b.take kb).length = kb := by rw [List.length_take, hb, Nat.succ_mul]; omega
    simp only [mergeBlocks, List.length_append, hA, hB, ih, Nat.succ_mul, Nat.mul_add]
    omega

theorem splitBlocks_perm (blk k : Nat) : ∀ (m : Nat) (l : List α), l.length = m * blk →
    ((splitBlocks blk k m l).1 ++ (splitBlocks blk k m l).2).Perm l
  | 0, l, hl => by
    have : l = [] := List.eq_nil_of_length_eq_zero (by simpa using hl)
    simp [splitBlocks, this]
  | m + 1, l, hl => by
    have hl' : (l.drop blk).length = m * blk := by rw [List.length_drop, hl, Nat.succ_mul]; omega
    have ih := splitBlocks_perm blk k m (l.drop blk) hl'
    simp only [splitBlocks]
    have h1 : (((l.take blk).take k ++ (splitBlocks blk k m (l.drop blk)).1) ++
        ((l.take blk).drop k ++ (splitBlocks blk k m (l.drop blk)).2)).Perm
        (((l.take blk).take k ++ (l.take blk).drop k) ++
          ((splitBlocks blk k m (l.drop blk)).1 ++ (splitBlocks blk k m (l.drop blk)).2)) := by
      rw [List.append_assoc, List.append_assoc]
      exact List.Perm.append_left _ (List.perm_append_comm_assoc _ _ _)
    refine h1.trans ?_
    rw [List.take_append_drop]
    have := List.Perm.append_left (l.take blk) ih
    rwa [List.take_append_drop] at this

theorem splitBlocks_map {β : Type} (g : α → β) (blk k : Nat) : ∀ (m : Nat) (l : List α),
    splitBlocks blk k m (l.map g) = ((splitBlocks blk k m l).1.map g, (splitBlocks blk k m l).2.map g)
  | 0, l => by simp [splitBlocks]
  | m + 1, l => by
    simp only [splitBlocks, ← List.map_drop, ← List.map_take, splitBlocks_map g blk k m, List.map_append]

/-! ### shapes `pre ++ n :: suf` (split dimension = `pre.length`) -/

theorem prod_append (a b : List Nat) : prod (a ++ b) = prod a * prod b := by
  induction a with
  | nil => simp [prod]
  | cons x a ih => simp [prod, ih, Nat.mul_assoc]

theorem prod_mid (pre suf : List Nat) (n : Nat) : prod (pre ++ n :: suf) = prod pre * (n * prod suf) := by
  rw [prod_append]; rfl

theorem getElem?_mid (pre suf : List Nat) (n : Nat) : (pre ++ n :: suf)[pre.length]? = some n := by simp
theorem getD_mid (pre suf : List Nat) (n : Nat) : (pre ++ n :: suf).getD pre.length 0 = n := by simp
theorem take_mid (pre suf : List Nat) (n : Nat) : (pre ++ n :: suf).take pre.length = pre := by simp
theorem drop_mid (pre suf : List Nat) (n : Nat) : (pre ++ n :: suf).drop (pre.length + 1) = suf := by simp
theorem set_mid (pre suf : List Nat) (n v : Nat) : (pre ++ n :: suf).set pre.length v = pre ++ v :: suf := by simp

/-- well-formed item: as many data as the shape says -/
def WF (x : Item α) : Prop := x.data.length = prod x.shape

theorem chunk2_mid (pre suf : List Nat) (n : Nat) (hn : n ≠ 1) (data : List α) :
    chunk2 pre.length ⟨pre ++ n :: suf, data⟩ =
      .ok (⟨pre ++ ((n + 1) / 2) :: suf, (splitBlocks (n * prod suf) ((n + 1) / 2 * prod suf) (prod pre) data).1⟩,
           ⟨pre ++ (n / 2) :: suf, (splitBlocks (n * prod suf) ((n + 1) / 2 * prod suf) (prod pre) data).2⟩) := by
  have h : n - (n + 1) / 2 = n / 2 := by omega
  simp [chunk2, hn, h]

theorem chunk2_one (pre suf : List Nat) (data : List α) :
    chunk2 pre.length ⟨pre ++ 1 :: suf, data⟩ = .error .valueError := by
  simp [chunk2]

theorem cat2_mid (pre suf : List Nat) (na nb : Nat) (da db : List α) :
    cat2 pre.length ⟨pre ++ na :: suf, da⟩ ⟨pre ++ nb :: suf, db⟩ =
      .ok ⟨pre ++ (na + nb) :: suf, mergeBlocks (na * prod suf) (nb * prod suf) (prod pre) da db⟩ := by
  simp [cat2]

theorem half_mul_le (n p : Nat) : (n + 1) / 2 * p ≤ n * p ∨ n = 0 := by
  rcases Nat.eq_zero_or_pos n with h | h
  · exact Or.inr h
  · exact Or.inl (Nat.mul_le_mul_right p (by omega))

theorem sub_half_mul (n p : Nat) : n * p - (n + 1) / 2 * p = n / 2 * p := by
  rw [← Nat.sub_mul]; congr 1; omega

theorem half_add_mul (n p : Nat) : (n + 1) / 2 * p + n / 2 * p = n * p := by
  rw [← Nat.add_mul]; congr 1; omega

/-- chunk of a well-formed item: both parts are well-formed -/
theorem chunk2_wf (pre suf : List Nat) (n : Nat) (data : List α) (hwf : data.length = prod (pre ++ n :: suf)) :
    let s := splitBlocks (n * prod suf) ((n + 1) / 2 * prod suf) (prod pre) data
    s.1.length = prod (pre ++ ((n + 1) / 2) :: suf) ∧ s.2.length = prod (pre ++ (n / 2) :: suf) := by
  intro s
  have hk : (n + 1) / 2 * prod suf ≤ n * prod suf := Nat.mul_le_mul_right _ (by omega)
  have := splitBlocks_length (n * prod suf) ((n + 1) / 2 * prod suf) hk (prod pre) data (by rw [hwf, prod_mid])
  rw [sub_half_mul] at this
  simpa [prod_mid] using this

/-- `cat ∘ chunk = id` along any dimension, odd and even sizes -/
theorem cat2_chunk2 (pre suf : List Nat) (n : Nat) (data : List α) (hwf : data.length = prod (pre ++ n :: suf)) :
    let s := splitBlocks (n * prod suf) ((n + 1) / 2 * prod suf) (prod pre) data
    cat2 pre.length ⟨pre ++ ((n + 1) / 2) :: suf, s.1⟩ ⟨pre ++ (n / 2) :: suf, s.2⟩ = .ok ⟨pre ++ n :: suf, data⟩ := by
  intro s
  have hk : (n + 1) / 2 * prod suf ≤ n * prod suf := Nat.mul_le_mul_right _ (by omega)
  have hm := merge_split (n * prod suf) ((n + 1) / 2 * prod suf) hk (prod pre) data (by rw [hwf, prod_mid])
  rw [sub_half_mul] at hm
  have hn : (n + 1) / 2 + n / 2 = n := by omega
  rw [cat2_mid, hn]
  simp only [s, hm]

/-- `chunk ∘ cat = id` when the two parts are the two halves of a size (`⌈n/2⌉` and `⌊n/2⌋`) -/
theorem chunk2_cat2 (pre suf : List Nat) (n : Nat) (hn : n ≠ 1) (da db : List α)
    (ha : da.length = prod (pre ++ ((n + 1) / 2) :: suf)) (hb : db.length = prod (pre ++ (n / 2) :: suf)) :
    chunk2 pre.length ⟨pre ++ n :: suf, mergeBlocks ((n + 1) / 2 * prod suf) (n / 2 * prod suf) (prod pre) da db⟩ =
      .ok (⟨pre ++ ((n + 1) / 2) :: suf, da⟩, ⟨pre ++ (n / 2) :: suf, db⟩) := by
  rw [chunk2_mid pre suf n hn]
  have h := split_merge ((n + 1) / 2 * prod suf) (n / 2 * prod suf) (prod pre) da db
    (by rw [ha, prod_mid]) (by rw [hb, prod_mid])
  rw [half_add_mul] at h
  rw [h]

/-! ### the stage loops -/
variable {C L : Type}

/-- prepend already emitted outputs `acc` and an already accumulated log-det `l` to a result -/
def shiftOut (A : LD L) (acc : List α) (l : L) : Except Err (List α × L) → Except Err (List α × L)
  | .error e => .error e
  | .ok r => .ok (acc ++ r.1, A.add l r.2)

@[simp] theorem shiftOut_ok (A : LD L) (acc : List α) (l : L) (r : List α × L) :
    shiftOut A acc l (.ok r) = .ok (acc ++ r.1, A.add l r.2) := rfl
@[simp] theorem shiftOut_error (A : LD L) (acc : List α) (l : L) (e : Err) :
    shiftOut A acc l (.error e : Except Err (List α × L)) = .error e := rfl

/-- the accumulators `all_outputs` / `total_logabsdet` only prepend -/
theorem fwdStages_acc (A : LD L) (hA : A.Lawful) (d : Nat) :
    ∀ (ts : List (Tr (Item α) C L)) (shs : List (List Nat)) (h : Item α) (acc : List α) (l : L) (c : C),
      fwdStages A d ts shs h acc l c = shiftOut A acc l (fwdStages A d ts shs h [] A.zero c)
  | [], _, _, _, _, _ => by simp [fwdStages]
  | [t], shs, h, acc, l, c => by
    simp only [fwdStages]
    rcases t.fwd h c with e | ⟨y, ld⟩
    · simp
    · simp [hA.zero_add]
  | t :: t' :: ts, shs, h, acc, l, c => by
    simp only [fwdStages]
    rcases t.fwd h c with e | ⟨y, ld⟩
    · simp
    · simp only []
      rcases chunk2 d y with e | ⟨o, h'⟩
      · simp
      · simp only []
        split
        · simp
        · rw [fwdStages_acc A hA d (t' :: ts) shs.tail h' (acc ++ o.data) (A.add l ld) c,
            fwdStages_acc A hA d (t' :: ts) shs.tail h' ([] ++ o.data) (A.add A.zero ld) c]
          rcases fwdStages A d (t' :: ts) shs.tail h' [] A.zero c with e | ⟨flat, l'⟩
          · simp
          · simp [hA.zero_add, hA.add_assoc]

/-- **forward, unrolled by one stage**: the output is the flattened first chunk of the first stage's output followed
    by the output of the remaining stages on the second chunk; log-dets add up. -/
theorem fwdStages_cons (A : LD L) (hA : A.Lawful) (d : Nat) (t t' : Tr (Item α) C L) (ts : List (Tr (Item α) C L))
    (sh : List Nat) (shs : List (List Nat)) (h : Item α) (c : C) :
    fwdStages A d (t :: t' :: ts) (sh :: shs) h [] A.zero c =
      match t.fwd h c with
      | .error e => .error e
      | .ok (y, ld) =>
        match chunk2 d y with
        | .error e => .error e
        | .ok (o, h') =>
          if sh ≠ o.shape then .error .assertion
          else shiftOut A o.data ld (fwdStages A d (t' :: ts) shs h' [] A.zero c) := by
  simp only [fwdStages]
  rcases t.fwd h c with e | ⟨y, ld⟩
  · rfl
  · simp only []
    rcases chunk2 d y with e | ⟨o, h'⟩
    · rfl
    · simp only [List.head?_cons, List.tail_cons, ne_eq, Option.some.injEq, List.nil_append]
      split
      · rfl
      · rw [fwdStages_acc A hA, hA.zero_add]

theorem fwdStages_single (A : LD L) (hA : A.Lawful) (d : Nat) (t : Tr (Item α) C L) (shs : List (List Nat))
    (h : Item α) (c : C) :
    fwdStages A d [t] shs h [] A.zero c =
      match t.fwd h c with
      | .error e => .error e
      | .ok (y, ld) => .ok (y.data, ld) := by
  simp only [fwdStages]
  rcases t.fwd h c with e | ⟨y, ld⟩
  · rfl
  · simp [hA.zero_add]

/-! ### the shapes `add_transform` records -/

/-- recorded `_output_shapes` for `k` stages on a split dimension of size `n` -/
def outShapes (pre suf : List Nat) : Nat → Nat → List (List Nat)
  | 0, _ => []
  | 1, n => [pre ++ n :: suf]
  | k + 2, n => (pre ++ ((n + 1) / 2) :: suf) :: outShapes pre suf (k + 1) (n / 2)

theorem outShapes_length (pre suf : List Nat) : ∀ (k n : Nat), (outShapes pre suf k n).length = k
  | 0, _ => rfl
  | 1, _ => rfl
  | k + 2, n => by simp [outShapes, outShapes_length pre suf (k + 1) (n / 2)]

theorem two_le_of_pow_le {k n : Nat} (h : 2 ^ (k + 1) ≤ n) : 2 ≤ n :=
  le_trans (by have := Nat.one_le_two_pow (n := k); omega) h

theorem pow_le_half {k n : Nat} (h : 2 ^ (k + 1) ≤ n) : 2 ^ k ≤ n / 2 := by
  rw [Nat.le_div_iff_mul_le (by norm_num)]; rw [pow_succ] at h; exact h

/-- the documented chain of `add_transform` calls succeeds when the split dimension can be halved often enough,
    and records `outShapes` -/
theorem addChain_ok (pre suf : List Nat) :
    ∀ (ts : List (Tr (Item α) C L)) (m0 : MS α C L) (n : Nat), ts ≠ [] → m0.splitDim = pre.length + 1 →
      m0.numTransforms = ((m0.transforms.length + ts.length : Nat) : Int) → 2 ^ ts.length ≤ n →
      addChain m0 ts (some (pre ++ n :: suf)) =
        .ok { m0 with transforms := m0.transforms ++ ts,
                      outputShapes := m0.outputShapes ++ outShapes pre suf ts.length n }
  | [], _, _, h, _, _, _ => absurd rfl h
  | [t], m0, n, _, hsd, hnum, hn => by
    have h2 : 2 ≤ n := two_le_of_pow_le (k := 0) (by simpa using hn)
    have hnum' : m0.numTransforms = (m0.transforms.length : Int) + 1 := by simpa using hnum
    simp only [addChain, MS.addTransform, hsd, hnum', Nat.add_sub_cancel, getD_mid, List.length_append,
      List.length_cons, List.length_nil]
    have h1 : ¬ (pre.length ≥ pre.length + (suf.length + 1)) := by omega
    have h3 : ¬ n < 2 := by omega
    simp [h1, h3, outShapes]
  | t :: t' :: ts, m0, n, _, hsd, hnum, hn => by
    have h2 : 2 ≤ n := two_le_of_pow_le (k := ts.length + 1) (by simpa using hn)
    have hnum' : m0.numTransforms = (m0.transforms.length : Int) + ((ts.length : Int) + 1 + 1) := by
      rw [hnum]; push_cast [List.length_cons]; ring
    have h1 : ¬ (pre.length ≥ pre.length + (suf.length + 1)) := by omega
    have h3 : ¬ n < 2 := by omega
    have h4 : ¬ ((m0.transforms.length : Int) + ((ts.length : Int) + 1 + 1) ≤ (m0.transforms.length : Int)) := by omega
    have h5 : ¬ ((m0.transforms.length : Int) = (m0.transforms.length : Int) + ((ts.length : Int) + 1 + 1)) := by omega
    have h6 : ((m0.transforms.length : Int) + 1 ≠ (m0.transforms.length : Int) + ((ts.length : Int) + 1 + 1)) := by omega
    have ih := addChain_ok pre suf (t' :: ts)
      { m0 with transforms := m0.transforms ++ [t],
                outputShapes := m0.outputShapes ++ [(pre ++ n :: suf).set (m0.splitDim - 1) ((n + 1) / 2)] }
      (n / 2) (by simp) hsd (by rw [hnum]; simp only [List.length_append, List.length_cons, List.length_nil]; push_cast; ring)
      (pow_le_half (by simpa using hn))
    rw [addChain]
    simp only [MS.addTransform, hsd, hnum', Nat.add_sub_cancel, getD_mid, List.length_append,
      List.length_cons, List.length_nil, set_mid]
    simp only [hsd, Nat.add_sub_cancel, set_mid, hnum'] at ih
    have h4' : ¬ ((ts.length : Int) + 1 + 1 < 0) := by omega
    simp [h1, h3, h4', h5, h6, outShapes]
    simpa using ih

/-- ... and is refused with `ValueError` ("Size of dimension must be at least 2") otherwise -/
theorem addChain_small (pre suf : List Nat) :
    ∀ (ts : List (Tr (Item α) C L)) (m0 : MS α C L) (n : Nat), ts ≠ [] → m0.splitDim = pre.length + 1 →
      m0.numTransforms = ((m0.transforms.length + ts.length : Nat) : Int) → ¬ 2 ^ ts.length ≤ n →
      addChain m0 ts (some (pre ++ n :: suf)) = .error .valueError
  | [], _, _, h, _, _, _ => absurd rfl h
  | [t], m0, n, _, hsd, hnum, hn => by
    have h3 : n < 2 := by simpa using hn
    have hnum' : m0.numTransforms = (m0.transforms.length : Int) + 1 := by simpa using hnum
    simp only [addChain, MS.addTransform, hsd, hnum', Nat.add_sub_cancel, getD_mid, List.length_append,
      List.length_cons, List.length_nil]
    have h1 : ¬ (pre.length ≥ pre.length + (suf.length + 1)) := by omega
    simp [h1, h3]
  | t :: t' :: ts, m0, n, _, hsd, hnum, hn => by
    have hnum' : m0.numTransforms = (m0.transforms.length : Int) + ((ts.length : Int) + 1 + 1) := by
      rw [hnum]; push_cast [List.length_cons]; ring
    have h1 : ¬ (pre.length ≥ pre.length + (suf.length + 1)) := by omega
    have h4' : ¬ ((ts.length : Int) + 1 + 1 < 0) := by omega
    have h5 : ¬ ((m0.transforms.length : Int) = (m0.transforms.length : Int) + ((ts.length : Int) + 1 + 1)) := by omega
    have h6 : ((m0.transforms.length : Int) + 1 ≠ (m0.transforms.length : Int) + ((ts.length : Int) + 1 + 1)) := by omega
    rw [addChain]
    simp only [MS.addTransform, hsd, hnum', Nat.add_sub_cancel, getD_mid, List.length_append,
      List.length_cons, List.length_nil, set_mid]
    by_cases h3 : n < 2
    · simp [h1, h3, h4', h5]
    · have hsmall : ¬ 2 ^ (t' :: ts).length ≤ n / 2 := by
        intro hle
        apply hn
        rw [Nat.le_div_iff_mul_le (by norm_num)] at hle
        simpa [pow_succ] using hle
      have ih := addChain_small pre suf (t' :: ts)
        { m0 with transforms := m0.transforms ++ [t],
                  outputShapes := m0.outputShapes ++ [(pre ++ n :: suf).set (m0.splitDim - 1) ((n + 1) / 2)] }
        (n / 2) (by simp) hsd (by rw [hnum]; simp only [List.length_append, List.length_cons, List.length_nil]; push_cast; ring)
        hsmall
      simp only [hsd, Nat.add_sub_cancel, set_mid, hnum'] at ih
      simp [h1, h3, h4', h5, h6]
      simpa using ih

/-! ### round trips -/
section roundtrip
variable {G : Type} [AddCommGroup G]

/-- a stage that, on well-formed items of shape `S`, keeps the shape and whose inverse undoes its forward with the
    negated log-det -/
def StageOK (t : Tr (Item α) C G) (S : List Nat) : Prop :=
  ∀ x c, x.shape = S → WF x → ∃ y l, t.fwd x c = .ok (y, l) ∧ y.shape = S ∧ WF y ∧ t.inv y c = .ok (x, -l)

/-- every stage is `StageOK` on the shape of the hidden tensor that reaches it -/
def StagesOK (pre suf : List Nat) : List (Tr (Item α) C G) → Nat → Prop
  | [], _ => True
  | t :: ts, n => StageOK t (pre ++ n :: suf) ∧ StagesOK pre suf ts (n / 2)

theorem item_eta (y : Item α) (S : List Nat) (h : y.shape = S) : (⟨S, y.data⟩ : Item α) = y := by
  cases y; simp_all

theorem prod_halves (pre suf : List Nat) (n : Nat) :
    prod (pre ++ ((n + 1) / 2) :: suf) + prod (pre ++ (n / 2) :: suf) = prod (pre ++ n :: suf) := by
  simp only [prod_mid]
  rw [← Nat.mul_add, half_add_mul]

theorem fwd_then_inv (pre suf : List Nat) (c : C) :
    ∀ (ts : List (Tr (Item α) C G)) (n : Nat) (x : Item α), ts ≠ [] → StagesOK pre suf ts n →
      2 ^ (ts.length - 1) ≤ n → x.shape = pre ++ n :: suf → WF x →
      ∃ flat l, fwdStages (LD.std G) pre.length ts (outShapes pre suf ts.length n) x [] (LD.std G).zero c = .ok (flat, l) ∧
        flat.length = prod (pre ++ n :: suf) ∧
        ∀ rest, ∃ slices, splitFlat (outShapes pre suf ts.length n) (flat ++ rest) = .ok slices ∧
          invStages (LD.std G) pre.length ts slices c = .ok (x, -l)
  | [], _, _, h, _, _, _, _ => absurd rfl h
  | [t], n, x, _, hok, _, hx, hwf => by
    obtain ⟨y, l, hf, hs, hw, hi⟩ := hok.1 x c hx hwf
    have hlen : y.data.length = prod (pre ++ n :: suf) := by rw [← hs]; exact hw
    refine ⟨y.data, l, ?_, hlen, ?_⟩
    · rw [fwdStages_single _ (LD.std_lawful G), hf]
    · intro rest
      refine ⟨[y], ?_, ?_⟩
      · simp [outShapes, splitFlat, List.take_left' hlen, item_eta y _ hs, hlen]
      · simp [invStages, hi]
  | t :: t' :: ts, n, x, _, hok, hn, hx, hwf => by
    have hn2 : 2 ^ (ts.length + 1) ≤ n := by simpa using hn
    have h2 : 2 ≤ n := two_le_of_pow_le hn2
    obtain ⟨y, l1, hf, hs, hw, hi⟩ := hok.1 x c hx hwf
    obtain ⟨ysh, yd⟩ := y
    simp only at hs; subst hs
    have hyd : yd.length = prod (pre ++ n :: suf) := hw
    obtain ⟨hw1, hw2⟩ := chunk2_wf pre suf n yd hyd
    have ih := fwd_then_inv pre suf c (t' :: ts) (n / 2)
      ⟨pre ++ (n / 2) :: suf, (splitBlocks (n * prod suf) ((n + 1) / 2 * prod suf) (prod pre) yd).2⟩
      (by simp) hok.2 (by simpa using pow_le_half hn2) rfl hw2
    obtain ⟨flat', l', hf', hlen', hinv'⟩ := ih
    refine ⟨(splitBlocks (n * prod suf) ((n + 1) / 2 * prod suf) (prod pre) yd).1 ++ flat', l1 + l', ?_, ?_, ?_⟩
    · simp only [List.length_cons, outShapes]
      rw [fwdStages_cons _ (LD.std_lawful G), hf]
      simp only []
      rw [chunk2_mid pre suf n (by omega)]
      simp only [ne_eq, not_true_eq_false, if_false]
      simp only [List.length_cons] at hf'
      rw [hf']
      simp
    · rw [List.length_append, hw1, hlen', prod_halves]
    · intro rest
      obtain ⟨slices', hsp, hiv⟩ := hinv' rest
      refine ⟨⟨pre ++ ((n + 1) / 2) :: suf, (splitBlocks (n * prod suf) ((n + 1) / 2 * prod suf) (prod pre) yd).1⟩ :: slices', ?_, ?_⟩
      · simp only [List.length_cons, outShapes, splitFlat]
        simp only [List.length_cons] at hsp
        rw [List.append_assoc, List.take_left' hw1, List.drop_left' hw1, hsp]
        simp [hw1]
      · simp only [invStages]
        rw [hiv]
        simp only []
        rw [cat2_chunk2 pre suf n yd hyd]
        simp only []
        rw [hi]
        simp [add_comm]

theorem inv_then_fwd (pre suf : List Nat) (c : C) :
    ∀ (ts : List (Tr (Item α) C G)) (n : Nat) (flat : List α), ts ≠ [] → StagesOK pre suf (ts.map inverseTr) n →
      2 ^ (ts.length - 1) ≤ n → flat.length = prod (pre ++ n :: suf) →
      ∃ slices x l, splitFlat (outShapes pre suf ts.length n) flat = .ok slices ∧
        invStages (LD.std G) pre.length ts slices c = .ok (x, l) ∧ x.shape = pre ++ n :: suf ∧ WF x ∧
        fwdStages (LD.std G) pre.length ts (outShapes pre suf ts.length n) x [] (LD.std G).zero c = .ok (flat, -l)
  | [], _, _, h, _, _, _ => absurd rfl h
  | [t], n, flat, _, hok, _, hlen => by
    obtain ⟨x, l, hi, hs, hw, hf⟩ := hok.1 ⟨pre ++ n :: suf, flat⟩ c rfl hlen
    simp only [inverseTr] at hi hf
    refine ⟨[⟨pre ++ n :: suf, flat⟩], x, l, ?_, ?_, hs, hw, ?_⟩
    · have : flat.take (prod (pre ++ n :: suf)) = flat := List.take_of_length_le (by omega)
      simp [outShapes, splitFlat, this, hlen]
    · simp [invStages, hi]
    · rw [fwdStages_single _ (LD.std_lawful G), hf]
  | t :: t' :: ts, n, flat, _, hok, hn, hlen => by
    have hn2 : 2 ^ (ts.length + 1) ≤ n := by simpa using hn
    have h2 : 2 ≤ n := two_le_of_pow_le hn2
    have hsum := prod_halves pre suf n
    have ha : (flat.take (prod (pre ++ ((n + 1) / 2) :: suf))).length = prod (pre ++ ((n + 1) / 2) :: suf) := by
      rw [List.length_take]; omega
    have hb : (flat.drop (prod (pre ++ ((n + 1) / 2) :: suf))).length = prod (pre ++ (n / 2) :: suf) := by
      rw [List.length_drop]; omega
    have ih := inv_then_fwd pre suf c (t' :: ts) (n / 2) (flat.drop (prod (pre ++ ((n + 1) / 2) :: suf)))
      (by simp) hok.2 (by simpa using pow_le_half hn2) hb
    obtain ⟨slices', h, l', hsp, hiv, hhs, hhw, hf'⟩ := ih
    obtain ⟨hsh, hd⟩ := h
    simp only at hhs; subst hhs
    have hhd : hd.length = prod (pre ++ (n / 2) :: suf) := hhw
    have hcat := cat2_mid pre suf ((n + 1) / 2) (n / 2) (flat.take (prod (pre ++ ((n + 1) / 2) :: suf))) hd
    have hnn : (n + 1) / 2 + n / 2 = n := by omega
    rw [hnn] at hcat
    have hzw : WF (⟨pre ++ n :: suf, mergeBlocks ((n + 1) / 2 * prod suf) (n / 2 * prod suf) (prod pre)
        (flat.take (prod (pre ++ ((n + 1) / 2) :: suf))) hd⟩ : Item α) := by
      show (mergeBlocks _ _ _ _ _).length = prod (pre ++ n :: suf)
      rw [mergeBlocks_length _ _ _ _ _ (by rw [ha, prod_mid]) (by rw [hhd, prod_mid]), half_add_mul, prod_mid]
    obtain ⟨x, l1, hi, hs, hw, hf⟩ := hok.1 _ c rfl hzw
    simp only [inverseTr] at hi hf
    refine ⟨⟨pre ++ ((n + 1) / 2) :: suf, flat.take (prod (pre ++ ((n + 1) / 2) :: suf))⟩ :: slices', x, l' + l1, ?_, ?_, hs, hw, ?_⟩
    · simp only [List.length_cons, outShapes, splitFlat]
      simp only [List.length_cons] at hsp
      rw [hsp]
      simp [ha]
    · simp only [invStages]
      rw [hiv]
      simp only []
      rw [hcat]
      simp only []
      rw [hi]
      simp
    · simp only [List.length_cons, outShapes]
      rw [fwdStages_cons _ (LD.std_lawful G), hf]
      simp only []
      rw [chunk2_cat2 pre suf n (by omega) _ _ ha hhd]
      simp only [ne_eq, not_true_eq_false, if_false]
      simp only [List.length_cons] at hf'
      rw [hf']
      simp [add_comm]

end roundtrip

/-! ### routing -/

theorem routeSegs_map {β : Type} (g : α → β) (outer inner : Nat) : ∀ (k n : Nat) (l : List α),
    routeSegs outer inner k n (l.map g) = (routeSegs outer inner k n l).map (List.map g)
  | 0, _, _ => rfl
  | 1, _, _ => rfl
  | k + 2, n, l => by
    simp only [routeSegs, splitBlocks_map, List.map_cons, routeSegs_map g outer inner (k + 1) (n / 2)]

theorem routeSegs_perm (outer inner : Nat) : ∀ (k n : Nat) (l : List α), l.length = outer * (n * inner) →
    (routeSegs outer inner (k + 1) n l).flatten.Perm l
  | 0, _, l, _ => by simp [routeSegs]
  | k + 1, n, l, hl => by
    have hk : (n + 1) / 2 * inner ≤ n * inner := Nat.mul_le_mul_right _ (by omega)
    have hlen := (splitBlocks_length (n * inner) ((n + 1) / 2 * inner) hk outer l hl).2
    rw [sub_half_mul] at hlen
    have ih := routeSegs_perm outer inner k (n / 2) _ hlen
    simp only [routeSegs, List.flatten_cons]
    exact (List.Perm.append_left _ ih).trans (splitBlocks_perm _ _ outer l hl)

theorem sizes_sum_aux (pre suf : List Nat) : ∀ (k n : Nat),
    ((outShapes pre suf (k + 1) n).map prod).sum = prod (pre ++ n :: suf)
  | 0, n => by simp [outShapes]
  | k + 1, n => by
    simp only [outShapes, List.map_cons, List.sum_cons, sizes_sum_aux pre suf k (n / 2), prod_halves]

theorem zipWith_prefix (g : α → α) : ∀ (P : List (α → α)) (segs : List (List α)),
    List.zipWith (fun f seg => List.map f seg) (P.map (fun f => f ∘ g)) segs =
      List.zipWith (fun f seg => List.map f seg) P (segs.map (List.map g))
  | [], _ => by simp
  | _ :: _, [] => by simp
  | f :: P, s :: segs => by simp [zipWith_prefix g P segs]

/-- a stage that acts element-wise with `g c` (any log-det) -/
def IsPointwise (t : Tr (Item α) C L) (g : C → α → α) : Prop :=
  ∀ x c, ∃ l, t.fwd x c = .ok (⟨x.shape, x.data.map (g c)⟩, l)

theorem fwdStages_pointwise (A : LD L) (hA : A.Lawful) (pre suf : List Nat) (c : C) :
    ∀ (ts : List (Tr (Item α) C L)) (gs : List (C → α → α)) (n : Nat) (data : List α),
      List.Forall₂ IsPointwise ts gs → ts ≠ [] → 2 ^ (ts.length - 1) ≤ n →
      ∃ l, fwdStages A pre.length ts (outShapes pre suf ts.length n) ⟨pre ++ n :: suf, data⟩ [] A.zero c =
        .ok ((List.zipWith (fun f seg => List.map f seg) (prefixMaps (gs.map (fun g => g c)))
              (routeSegs (prod pre) (prod suf) ts.length n data)).flatten, l)
  | [], _, _, _, _, h, _ => absurd rfl h
  | [t], gs, n, data, hpw, _, _ => by
    cases hpw with
    | cons h1 hrest =>
      cases hrest
      obtain ⟨l, hl⟩ := h1 ⟨pre ++ n :: suf, data⟩ c
      exact ⟨l, by rw [fwdStages_single A hA, hl]; simp [routeSegs, prefixMaps]⟩
  | t :: t' :: ts, gs, n, data, hpw, _, hn => by
    have hn2 : 2 ^ (ts.length + 1) ≤ n := by simpa using hn
    have h2 : 2 ≤ n := two_le_of_pow_le hn2
    cases hpw with
    | @cons _ g _ gs' h1 hrest =>
      obtain ⟨l1, hl1⟩ := h1 ⟨pre ++ n :: suf, data⟩ c
      obtain ⟨l', hl'⟩ := fwdStages_pointwise A hA pre suf c (t' :: ts) gs' (n / 2)
        ((splitBlocks (n * prod suf) ((n + 1) / 2 * prod suf) (prod pre) data).2.map (g c)) hrest (by simp)
        (by simpa using pow_le_half hn2)
      refine ⟨A.add l1 l', ?_⟩
      simp only [List.length_cons, outShapes]
      rw [fwdStages_cons A hA, hl1]
      simp only []
      rw [chunk2_mid pre suf n (by omega), splitBlocks_map]
      simp only [ne_eq, not_true_eq_false, if_false]
      simp only [List.length_cons] at hl'
      rw [hl']
      simp [routeSegs, prefixMaps, routeSegs_map, zipWith_prefix]

theorem foldl_comp_init (l : List (α → α)) (h : α → α) :
    l.foldl (fun f g => g ∘ f) h = (l.foldl (fun f g => g ∘ f) id) ∘ h := by
  induction l generalizing h with
  | nil => rfl
  | cons g l ih => simp only [List.foldl_cons]; rw [ih (g ∘ h), ih (g ∘ id)]; rfl

/-- entry `k` of `prefixMaps gs` is `g_{k+1} ∘ … ∘ g_1` -/
theorem prefixMaps_getElem? : ∀ (gs : List (α → α)) (k : Nat), k < gs.length →
    (prefixMaps gs)[k]? = some ((gs.take (k + 1)).foldl (fun f g => g ∘ f) id)
  | [], _, h => by simp at h
  | g :: gs, 0, _ => by simp [prefixMaps]
  | g :: gs, k + 1, h => by
    have ih := prefixMaps_getElem? gs k (by simpa using h)
    simp only [prefixMaps, List.getElem?_cons_succ, List.getElem?_map, ih, Option.map_some, List.take_succ_cons,
      List.foldl_cons]
    rw [foldl_comp_init _ (g ∘ id)]
    rfl

/-! ### building the documented way -/

theorem build_ok (pre suf : List Nat) (ts : List (Tr (Item α) C L)) (n : Nat) (hts : ts ≠ []) (hn : 2 ^ ts.length ≤ n) :
    MS.build (ts.length : Int) (.int ((pre.length : Int) + 1)) ts (pre ++ n :: suf) =
      .ok ⟨ts.length, pre.length + 1, ts, outShapes pre suf ts.length n⟩ := by
  have h1 : ((pre.length : Int) + 1).toNat = pre.length + 1 := by omega
  have h2 : (pre.length : Int) + 1 > 0 := by omega
  simp only [MS.build, MS.new, h2, if_true, h1]
  rw [addChain_ok pre suf ts _ n hts rfl (by simp) hn]
  simp

theorem build_small (pre suf : List Nat) (ts : List (Tr (Item α) C L)) (n : Nat) (hts : ts ≠ []) (hn : ¬ 2 ^ ts.length ≤ n) :
    MS.build (ts.length : Int) (.int ((pre.length : Int) + 1)) ts (pre ++ n :: suf) = .error .valueError := by
  have h1 : ((pre.length : Int) + 1).toNat = pre.length + 1 := by omega
  have h2 : (pre.length : Int) + 1 > 0 := by omega
  simp only [MS.build, MS.new, h2, if_true, h1]
  rw [addChain_small pre suf ts _ n hts rfl (by simp) hn]

/-! ### small list helpers used by the routing theorem -/

theorem forall2_of_forall {β γ : Type} (R : β → γ → Prop) (f : β → γ) :
    ∀ (l : List β), (∀ b ∈ l, R b (f b)) → List.Forall₂ R l (l.map f)
  | [], _ => List.Forall₂.nil
  | b :: l, h => List.Forall₂.cons (h b List.mem_cons_self)
      (forall2_of_forall R f l (fun b' hb' => h b' (List.mem_cons_of_mem _ hb')))


theorem prefixMaps_length : ∀ (gs : List (α → α)), (prefixMaps gs).length = gs.length
  | [] => rfl
  | g :: gs => by simp [prefixMaps, prefixMaps_length gs]

theorem prefixMaps_all_id : ∀ (gs : List (α → α)), (∀ g ∈ gs, g = id) → ∀ f ∈ prefixMaps gs, f = id
  | [], _, f, hf => by simp [prefixMaps] at hf
  | g :: gs, h, f, hf => by
    have hg : g = id := h g List.mem_cons_self
    simp only [prefixMaps, List.mem_cons, List.mem_map] at hf
    rcases hf with rfl | ⟨f', hf', rfl⟩
    · exact hg
    · rw [prefixMaps_all_id gs (fun g' hg' => h g' (List.mem_cons_of_mem _ hg')) f' hf', hg]; rfl

theorem routeSegs_length (outer inner : Nat) : ∀ (k n : Nat) (l : List α), (routeSegs outer inner k n l).length = k
  | 0, _, _ => rfl
  | 1, _, _ => rfl
  | k + 2, n, l => by simp [routeSegs, routeSegs_length outer inner (k + 1) (n / 2)]

theorem zipWith_all_id : ∀ (P : List (α → α)) (segs : List (List α)), (∀ f ∈ P, f = id) → P.length = segs.length →
    List.zipWith (fun f seg => List.map f seg) P segs = segs
  | [], [], _, _ => rfl
  | [], _ :: _, _, h => by simp at h
  | _ :: _, [], _, h => by simp at h
  | f :: P, s :: segs, hP, h => by
    have hf : f = id := hP f List.mem_cons_self
    simp only [List.zipWith_cons_cons, hf, List.map_id]
    rw [zipWith_all_id P segs (fun f' hf' => hP f' (List.mem_cons_of_mem _ hf')) (by simpa using h)]


/-- a stage that negates every entry (its own inverse), log-det 1 / -1 -/
def negStage : Tr (Item Int) Unit Int :=
  ⟨fun x _ => .ok (⟨x.shape, x.data.map (fun v => -v)⟩, 1), fun x _ => .ok (⟨x.shape, x.data.map (fun v => -v)⟩, -1)⟩


end NF.Wrap
