import NflowsModel.Lemmas.RQInverseWhole
import NflowsModel.Lemmas.QuadWhole
import NflowsModel.Lemmas.CubicWhole
import NflowsModel.Lemmas.StructureExecRQ
import Mathlib.Topology.Order.MonotoneContinuity
import Mathlib.Analysis.Calculus.Deriv.Basic
import Mathlib.Analysis.Calculus.Deriv.Add
import Mathlib.Analysis.SpecialFunctions.Pow.Real
/-!
# Lemmas/TailsWhole — the UNCONSTRAINED splines (linear tails) as whole programs over the reals, on the WHOLE real line

Subjects: the executed `rqSplineTails` (rational-quadratic, both directions), the generic wrapper `tailsWrap` (quadratic,
linear) and the inlined cubic wrapper of `elTransform`, all instantiated at `NF.realX e`.  Building blocks: the bounded
whole-program theorems of `RQWhole`, `RQInverseWhole`, `QuadWhole`, `CubicWhole` (nothing is re-proved).

* generic (`ext`, `BoxBij`): the identity-tails extension of a strictly increasing bijection of `[-B,B]` fixing `±B` is
  strictly increasing, continuous and bijective on ℝ, maps the box (and each tail) onto itself, has derivative 1 in the
  tails and the inner derivative inside; it is differentiable at a junction when the inner one-sided derivative there is
  1 (`ext_hasDerivAt_left/right`) and not differentiable when that derivative is some `d ≠ 1`.
* RQ with linear tails (`RQTailsValid`): `tails_total`, `valT_outside`, `valT_inside`, `valT_junction`,
  `valT_strictMono`, `valT_continuous`, `valT_bijective`, `valT_bijOn_box`, `valT_hasDerivAt_bin`,
  `valT_hasDerivAt_outside`; the same for the inverse program (`invT_*`); the round trips `invT_valT`, `valT_invT` and the
  log-det law `invLdT_eq_neg_ldT` for ALL reals.
* the boundary derivative (`PadExact`): `knot_deriv_first_one`, `knot_deriv_last_one`, the C¹ join
  `valT_hasDerivAt_left/right`, and C01 at EVERY real point `valT_hasDerivAt_all`, `invT_hasDerivAt_all`.  By-product for
  the bounded program: `val_hasDerivAt_knot`, `val_hasDerivAt_all` (the executed RQ spline is C¹ at interior knots).
* FINDINGS: with `0 < beta < 1` (`enable_identity_init=True`) the padding constant is wrong and the junction is not C¹
  (`knot_deriv_gt_one_of_beta_lt_one`, `valT_not_differentiableAt_of_beta_lt_one`); the quadratic tails program is not
  differentiable at `-B` (`quad_tails_not_differentiable_left`, the known boundary-height defect on the whole-line map).
* `tailsWrap` generic (`WrapValid`, `wrap_*`), instances `quad_wrapValid`, `quad_tails_whole`, `quad_hasDerivAt_bin`,
  `cubic_tails_total`, `cubic_tails_whole`, `cubic_hasDerivAt`; `elTransform_{rq,quad,cubic}_tails` show these are the
  texts the coupling / autoregressive dispatcher runs when `tails = true`.
-/
open NF DualSound

namespace TailsWhole
noncomputable section

/-! ## generic: the identity-tails extension of a bijection of `[-B, B]` -/

/-- `f` inside `[-B, B]`, the identity outside — the mathematical content of every `unconstrained_*_spline` wrapper -/
def ext (B : ℝ) (f : ℝ → ℝ) (x : ℝ) : ℝ := if -B ≤ x ∧ x ≤ B then f x else x

/-- `f` is a strictly increasing bijection of `[-B, B]` fixing both end-points -/
structure BoxBij (B : ℝ) (f : ℝ → ℝ) : Prop where
  hB : 0 < B
  mono : StrictMonoOn f (Set.Icc (-B) B)
  left : f (-B) = -B
  right : f B = B
  surj : Set.SurjOn f (Set.Icc (-B) B) (Set.Icc (-B) B)

variable {B : ℝ} {f : ℝ → ℝ}

theorem ext_inside (x : ℝ) (h0 : -B ≤ x) (h1 : x ≤ B) : ext B f x = f x := by
  unfold ext; rw [if_pos ⟨h0, h1⟩]

theorem ext_outside (x : ℝ) (h : x < -B ∨ B < x) : ext B f x = x := by
  unfold ext
  rw [if_neg]
  rintro ⟨h0, h1⟩
  rcases h with h | h <;> linarith

theorem ext_below (x : ℝ) (h : x < -B) : ext B f x = x := ext_outside x (Or.inl h)
theorem ext_above (x : ℝ) (h : B < x) : ext B f x = x := ext_outside x (Or.inr h)

theorem BoxBij.mapsTo (hf : BoxBij B f) : Set.MapsTo f (Set.Icc (-B) B) (Set.Icc (-B) B) := by
  intro x hx
  have hm := hf.mono.monotoneOn
  have hBB : -B ≤ B := by linarith [hf.hB]
  constructor
  · rw [← hf.left]; exact hm ⟨le_rfl, hBB⟩ hx hx.1
  · rw [← hf.right]; exact hm hx ⟨hBB, le_rfl⟩ hx.2

theorem BoxBij.bijOn (hf : BoxBij B f) : Set.BijOn f (Set.Icc (-B) B) (Set.Icc (-B) B) :=
  ⟨hf.mapsTo, hf.mono.injOn, hf.surj⟩

/-- **no jump at the junctions** -/
theorem ext_left (hf : BoxBij B f) : ext B f (-B) = -B := by
  rw [ext_inside _ le_rfl (by linarith [hf.hB]), hf.left]
theorem ext_right (hf : BoxBij B f) : ext B f B = B := by
  rw [ext_inside _ (by linarith [hf.hB]) le_rfl, hf.right]

/-- **strictly increasing on the whole line** -/
theorem ext_strictMono (hf : BoxBij B f) : StrictMono (ext B f) := by
  intro a b hab
  by_cases ha : -B ≤ a ∧ a ≤ B
  · by_cases hb : -B ≤ b ∧ b ≤ B
    · rw [ext_inside a ha.1 ha.2, ext_inside b hb.1 hb.2]
      exact hf.mono ⟨ha.1, ha.2⟩ ⟨hb.1, hb.2⟩ hab
    · have hbB : B < b := by
        by_contra h
        exact hb ⟨by linarith [ha.1], not_lt.mp h⟩
      rw [ext_inside a ha.1 ha.2, ext_above b hbB]
      exact lt_of_le_of_lt (hf.mapsTo ⟨ha.1, ha.2⟩).2 hbB
  · by_cases hb : -B ≤ b ∧ b ≤ B
    · have haB : a < -B := by
        by_contra h
        exact ha ⟨not_lt.mp h, by linarith [hb.2]⟩
      rw [ext_below a haB, ext_inside b hb.1 hb.2]
      exact lt_of_lt_of_le haB (hf.mapsTo ⟨hb.1, hb.2⟩).1
    · have ha' : ext B f a = a := by unfold ext; rw [if_neg ha]
      have hb' : ext B f b = b := by unfold ext; rw [if_neg hb]
      rw [ha', hb']; exact hab

/-- **onto the whole line** -/
theorem ext_surjective (hf : BoxBij B f) : Function.Surjective (ext B f) := by
  intro y
  by_cases hy : -B ≤ y ∧ y ≤ B
  · obtain ⟨x, hx, hxy⟩ := hf.surj ⟨hy.1, hy.2⟩
    exact ⟨x, by rw [ext_inside x hx.1 hx.2, hxy]⟩
  · exact ⟨y, by unfold ext; rw [if_neg hy]⟩

/-- **a bijection of ℝ onto ℝ** -/
theorem ext_bijective (hf : BoxBij B f) : Function.Bijective (ext B f) :=
  ⟨(ext_strictMono hf).injective, ext_surjective hf⟩

/-- … which maps the box `[-B, B]` onto itself -/
theorem ext_bijOn_box (hf : BoxBij B f) : Set.BijOn (ext B f) (Set.Icc (-B) B) (Set.Icc (-B) B) :=
  hf.bijOn.congr (fun x hx => (ext_inside x hx.1 hx.2).symm)

/-- … and each tail onto itself -/
theorem ext_bijOn_below (B : ℝ) (f : ℝ → ℝ) : Set.BijOn (ext B f) (Set.Iio (-B)) (Set.Iio (-B)) :=
  (Set.bijOn_id _).congr (fun x hx => (ext_below x hx).symm)
theorem ext_bijOn_above (B : ℝ) (f : ℝ → ℝ) : Set.BijOn (ext B f) (Set.Ioi B) (Set.Ioi B) :=
  (Set.bijOn_id _).congr (fun x hx => (ext_above x hx).symm)

/-- **continuous on the whole line** (strictly monotone and onto) -/
theorem ext_continuous (hf : BoxBij B f) : Continuous (ext B f) :=
  (ext_strictMono hf).monotone.continuous_of_surjective (ext_surjective hf)

/-- derivative 1 in the open tails -/
theorem ext_hasDerivAt_outside (B : ℝ) (f : ℝ → ℝ) (x : ℝ) (h : x < -B ∨ B < x) : HasDerivAt (ext B f) 1 x := by
  have hev : ext B f =ᶠ[nhds x] id := by
    rcases h with h | h
    · exact Filter.eventuallyEq_of_mem (Iio_mem_nhds h) (fun z hz => ext_below z hz)
    · exact Filter.eventuallyEq_of_mem (Ioi_mem_nhds h) (fun z hz => ext_above z hz)
  exact (hasDerivAt_id x).congr_of_eventuallyEq hev

/-- inside the open box the extension has the derivative of the inner function -/
theorem ext_hasDerivAt_inside (B : ℝ) (f : ℝ → ℝ) (x d : ℝ) (h0 : -B < x) (h1 : x < B) (hd : HasDerivAt f d x) :
    HasDerivAt (ext B f) d x := by
  have hev : ext B f =ᶠ[nhds x] f :=
    Filter.eventuallyEq_of_mem (Ioo_mem_nhds h0 h1) (fun z hz => ext_inside z hz.1.le hz.2.le)
  exact hd.congr_of_eventuallyEq hev

/-- **C¹ join at the right junction**: if the inner function has left derivative 1 at `B`, the extension is
    differentiable at `B` with derivative 1 -/
theorem ext_hasDerivAt_right (hf : BoxBij B f) (hd : HasDerivWithinAt f 1 (Set.Iic B) B) : HasDerivAt (ext B f) 1 B := by
  have hl : HasDerivWithinAt (ext B f) 1 (Set.Iic B) B := by
    have hmem : Set.Icc (-B) B ∈ nhdsWithin B (Set.Iic B) :=
      Icc_mem_nhdsLE (by linarith [hf.hB])
    have hev : ext B f =ᶠ[nhdsWithin B (Set.Iic B)] f :=
      Filter.eventuallyEq_of_mem hmem (fun z hz => ext_inside z hz.1 hz.2)
    exact hd.congr_of_eventuallyEq hev (by rw [ext_right hf, hf.right])
  have hr : HasDerivWithinAt (ext B f) 1 (Set.Ici B) B := by
    have hid : HasDerivWithinAt (fun z : ℝ => z) 1 (Set.Ici B) B := (hasDerivAt_id B).hasDerivWithinAt
    refine hid.congr (fun z hz => ?_) (ext_right hf)
    rcases eq_or_lt_of_le (Set.mem_Ici.mp hz) with h | h
    · rw [← h]; exact ext_right hf
    · exact ext_above z h
  have := hl.union hr
  rwa [Set.Iic_union_Ici, hasDerivWithinAt_univ] at this

theorem ext_hasDerivAt_left (hf : BoxBij B f) (hd : HasDerivWithinAt f 1 (Set.Ici (-B)) (-B)) :
    HasDerivAt (ext B f) 1 (-B) := by
  have hr : HasDerivWithinAt (ext B f) 1 (Set.Ici (-B)) (-B) := by
    have hmem : Set.Icc (-B) B ∈ nhdsWithin (-B) (Set.Ici (-B)) :=
      Icc_mem_nhdsGE (by linarith [hf.hB])
    have hev : ext B f =ᶠ[nhdsWithin (-B) (Set.Ici (-B))] f :=
      Filter.eventuallyEq_of_mem hmem (fun z hz => ext_inside z hz.1 hz.2)
    exact hd.congr_of_eventuallyEq hev (by rw [ext_left hf, hf.left])
  have hl : HasDerivWithinAt (ext B f) 1 (Set.Iic (-B)) (-B) := by
    have hid : HasDerivWithinAt (fun z : ℝ => z) 1 (Set.Iic (-B)) (-B) := (hasDerivAt_id (-B)).hasDerivWithinAt
    refine hid.congr (fun z hz => ?_) (ext_left hf)
    rcases eq_or_lt_of_le (Set.mem_Iic.mp hz) with h | h
    · rw [h]; exact ext_left hf
    · exact ext_below z h
  have := hl.union hr
  rwa [Set.Iic_union_Ici, hasDerivWithinAt_univ] at this

/-- two box bijections inverse to each other on the box extend to mutually inverse maps of ℝ -/
theorem ext_ext_cancel {g : ℝ → ℝ} (hf : BoxBij B f) (hgf : ∀ x, -B ≤ x → x ≤ B → g (f x) = x) (x : ℝ) :
    ext B g (ext B f x) = x := by
  by_cases hx : -B ≤ x ∧ x ≤ B
  · have hm := hf.mapsTo ⟨hx.1, hx.2⟩
    rw [ext_inside x hx.1 hx.2, ext_inside _ hm.1 hm.2, hgf x hx.1 hx.2]
  · have hx' : ext B f x = x := by unfold ext; rw [if_neg hx]
    rw [hx']; unfold ext; rw [if_neg hx]


/-! ## the bounded executed RQ spline at its knots: one-sided derivatives are the knot derivatives the program computes -/

section rqC1
open RQWhole RQInverseWhole
variable {e : Float → ℝ} {c : RQCfg} {uw uh ud : List ℝ}

theorem dnum_den_one (s d0 d1 : ℝ) (hs : s ≠ 0) : RQ.dnum s d0 d1 1 / RQ.den s d0 d1 1 ^ 2 = d1 := by
  have hd : RQ.den s d0 d1 1 = s := by unfold RQ.den; ring
  have hn : RQ.dnum s d0 d1 1 = s ^ 2 * d1 := by unfold RQ.dnum; ring
  rw [hd, hn]; field_simp

theorem dnum_den_zero (s d0 d1 : ℝ) (hs : s ≠ 0) : RQ.dnum s d0 d1 0 / RQ.den s d0 d1 0 ^ 2 = d0 := by
  have hd : RQ.den s d0 d1 0 = s := by unfold RQ.den; ring
  have hn : RQ.dnum s d0 d1 0 = s ^ 2 * d0 := by unfold RQ.dnum; ring
  rw [hd, hn]; field_simp

/-- on its CLOSED bin the bin formula has derivative `exp` of the bin's log-abs-det formula -/
theorem bin_hasDerivAt (hi : RQValid e c uw uh ud) (k : ℕ) (hk : k < uw.length) (x : ℝ)
    (h0 : xs e c uw k ≤ x) (h1 : x ≤ xs e c uw (k+1)) :
    HasDerivAt (binVal e c uw uh ud k) (Real.exp (binLd e c uw uh ud k x)) x := by
  have hw : 0 < xs e c uw (k+1) - xs e c uw k := sub_pos.mpr (xs_strict hi k hk)
  have hh : 0 < ys e c uh (k+1) - ys e c uh k := sub_pos.mpr (ys_strict hi k hk)
  exact RQBin.rq_executed_logdet (xk := xs e c uw k) (yk := ys e c uh k) (x := x) hw hh
    (ds_pos hi k (by omega)) (ds_pos hi (k+1) (by omega)) h0 (by linarith)

/-- at the right knot of bin `k` the executed log-abs-det formula is the log of the knot derivative `d_{k+1}` -/
theorem exp_binLd_right (hi : RQValid e c uw uh ud) (k : ℕ) (hk : k < uw.length) :
    Real.exp (binLd e c uw uh ud k (xs e c uw (k+1))) = ds e c ud (k+1) := by
  have hw : 0 < xs e c uw (k+1) - xs e c uw k := sub_pos.mpr (xs_strict hi k hk)
  have hh : 0 < ys e c uh (k+1) - ys e c uh k := sub_pos.mpr (ys_strict hi k hk)
  have hs : 0 < (ys e c uh (k+1) - ys e c uh k) / (xs e c uw (k+1) - xs e c uw k) := div_pos hh hw
  have h0 := ds_pos hi k (by omega)
  have h1 := ds_pos hi (k+1) (by omega)
  unfold binLd env
  rw [Bridge.rqFwdLdE_eq, div_self hw.ne', RQ.logdet_eq hs h0 h1 zero_le_one le_rfl,
    Real.exp_log (div_pos (RQ.dnum_pos hs h0 h1 zero_le_one le_rfl) (pow_pos (RQ.den_pos hs h0 h1 zero_le_one le_rfl) 2))]
  exact dnum_den_one _ _ _ hs.ne'

/-- at the left knot of bin `k` the executed log-abs-det formula is the log of the knot derivative `d_k` -/
theorem exp_binLd_left (hi : RQValid e c uw uh ud) (k : ℕ) (hk : k < uw.length) :
    Real.exp (binLd e c uw uh ud k (xs e c uw k)) = ds e c ud k := by
  have hw : 0 < xs e c uw (k+1) - xs e c uw k := sub_pos.mpr (xs_strict hi k hk)
  have hh : 0 < ys e c uh (k+1) - ys e c uh k := sub_pos.mpr (ys_strict hi k hk)
  have hs : 0 < (ys e c uh (k+1) - ys e c uh k) / (xs e c uw (k+1) - xs e c uw k) := div_pos hh hw
  have h0 := ds_pos hi k (by omega)
  have h1 := ds_pos hi (k+1) (by omega)
  unfold binLd env
  rw [Bridge.rqFwdLdE_eq, sub_self, zero_div, RQ.logdet_eq hs h0 h1 le_rfl zero_le_one,
    Real.exp_log (div_pos (RQ.dnum_pos hs h0 h1 le_rfl zero_le_one) (pow_pos (RQ.den_pos hs h0 h1 le_rfl zero_le_one) 2))]
  exact dnum_den_zero _ _ _ hs.ne'

/-- **left derivative of the whole executed function at the knot `x_{k+1}`** is the knot derivative `d_{k+1}` -/
theorem val_hasDerivWithinAt_left_of (hi : RQValid e c uw uh ud) (k : ℕ) (hk : k < uw.length) :
    HasDerivWithinAt (val e c uw uh ud) (ds e c ud (k+1)) (Set.Iic (xs e c uw (k+1))) (xs e c uw (k+1)) := by
  have hlt := xs_strict hi k hk
  have hb := bin_hasDerivAt hi k hk (xs e c uw (k+1)) hlt.le le_rfl
  rw [exp_binLd_right hi k hk] at hb
  have heq := val_eqOn_bin hi k hk
  have hev : val e c uw uh ud =ᶠ[nhdsWithin (xs e c uw (k+1)) (Set.Iic (xs e c uw (k+1)))] binVal e c uw uh ud k :=
    Filter.eventuallyEq_of_mem (Icc_mem_nhdsLE hlt) heq
  exact hb.hasDerivWithinAt.congr_of_eventuallyEq hev (heq ⟨hlt.le, le_rfl⟩)

/-- **right derivative of the whole executed function at the knot `x_k`** is the knot derivative `d_k` -/
theorem val_hasDerivWithinAt_right_of (hi : RQValid e c uw uh ud) (k : ℕ) (hk : k < uw.length) :
    HasDerivWithinAt (val e c uw uh ud) (ds e c ud k) (Set.Ici (xs e c uw k)) (xs e c uw k) := by
  have hlt := xs_strict hi k hk
  have hb := bin_hasDerivAt hi k hk (xs e c uw k) le_rfl hlt.le
  rw [exp_binLd_left hi k hk] at hb
  have heq := val_eqOn_bin hi k hk
  have hev : val e c uw uh ud =ᶠ[nhdsWithin (xs e c uw k) (Set.Ici (xs e c uw k))] binVal e c uw uh ud k :=
    Filter.eventuallyEq_of_mem (Icc_mem_nhdsGE hlt) heq
  exact hb.hasDerivWithinAt.congr_of_eventuallyEq hev (heq ⟨le_rfl, hlt.le⟩)

/-- **the executed RQ spline is C¹ at every interior knot**: both one-sided derivatives are `d_{k+1}`, and that is `exp`
    of the log-abs-det the program returns there (C01 at the knots) -/
theorem val_hasDerivAt_knot (hi : RQValid e c uw uh ud) (k : ℕ) (hk : k + 1 < uw.length) :
    HasDerivAt (val e c uw uh ud) (Real.exp (ld e c uw uh ud (xs e c uw (k+1)))) (xs e c uw (k+1)) := by
  have hl := val_hasDerivWithinAt_left_of hi k (by omega)
  have hr := val_hasDerivWithinAt_right_of hi (k+1) hk
  have hmem := knot_mem_x hi (k+1) (by omega)
  have hidx : idx e c uw (xs e c uw (k+1)) = k + 1 :=
    idx_unique (xs e c uw) uw.length (idx e c uw) (xs_strict hi) (RQWhole.search_spec hi).1 (k+1) hk _ le_rfl
      (Or.inl (xs_strict hi (k+1) hk))
  rw [ld_eq hi _ hmem.1 hmem.2, hidx, exp_binLd_left hi (k+1) hk]
  have := hl.union hr
  rwa [Set.Iic_union_Ici, hasDerivWithinAt_univ] at this

/-- the log-abs-det the program returns AT a knot `x_k` (`k < K`) is the log of the knot derivative `d_k` -/
theorem exp_ld_knot (hi : RQValid e c uw uh ud) (k : ℕ) (hk : k < uw.length) :
    Real.exp (ld e c uw uh ud (xs e c uw k)) = ds e c ud k := by
  have hmem := knot_mem_x hi k hk.le
  have hidx : idx e c uw (xs e c uw k) = k :=
    idx_unique (xs e c uw) uw.length (idx e c uw) (xs_strict hi) (RQWhole.search_spec hi).1 k hk _ le_rfl
      (Or.inl (xs_strict hi k hk))
  rw [ld_eq hi _ hmem.1 hmem.2, hidx, exp_binLd_left hi k hk]

/-- … and at the right end of the box it is the log of the last knot derivative `d_K` -/
theorem exp_ld_right_end (hi : RQValid e c uw uh ud) :
    Real.exp (ld e c uw uh ud (e c.box.right)) = ds e c ud uw.length := by
  have hK0 : 0 < uw.length := List.length_pos_of_ne_nil hi.hK
  have hK1 : uw.length - 1 + 1 = uw.length := by omega
  have hk : uw.length - 1 < uw.length := by omega
  have hle : xs e c uw (uw.length - 1) ≤ xs e c uw uw.length := by
    have := (xs_strict hi (uw.length - 1) hk).le; rwa [hK1] at this
  have hidx : idx e c uw (xs e c uw uw.length) = uw.length - 1 :=
    idx_unique (xs e c uw) uw.length (idx e c uw) (xs_strict hi) (RQWhole.search_spec hi).1 (uw.length - 1) hk _ hle
      (Or.inr ⟨hK1, rfl⟩)
  have h := exp_binLd_right hi (uw.length - 1) hk
  rw [hK1] at h
  rw [← xs_last hi, ld_eq hi _ (by rw [xs_last hi]; exact hi.hlr.le) (by rw [xs_last hi]), hidx, h]

/-- **C01 on the whole open box** for the bounded executed RQ spline: at EVERY `x ∈ (left, right)` — inside bins and at
    interior knots — the derivative of the executed value is `exp` of the executed log-abs-det -/
theorem val_hasDerivAt_all (hi : RQValid e c uw uh ud) (x : ℝ) (hx0 : e c.box.left < x) (hx1 : x < e c.box.right) :
    HasDerivAt (val e c uw uh ud) (Real.exp (ld e c uw uh ud x)) x := by
  obtain ⟨hiK, hle, hr⟩ := (RQWhole.search_spec hi).1 x (by rw [xs_zero hi]; exact hx0.le) (by rw [xs_last hi]; exact hx1.le)
  have hlt : x < xs e c uw (idx e c uw x + 1) := by
    rcases hr with hr | ⟨_, hr⟩
    · exact hr
    · rw [xs_last hi] at hr; linarith
  rcases eq_or_lt_of_le hle with heq | hlt0
  · -- `x` is the knot `idx x`, which is interior because `x > left`
    have hpos : 0 < idx e c uw x := by
      rcases Nat.eq_zero_or_pos (idx e c uw x) with h0 | h0
      · rw [h0, xs_zero hi] at heq; linarith
      · exact h0
    obtain ⟨k, hk⟩ : ∃ k, idx e c uw x = k + 1 := ⟨idx e c uw x - 1, by omega⟩
    rw [hk] at heq hiK
    rw [← heq]
    exact val_hasDerivAt_knot hi k hiK
  · exact RQWhole.val_hasDerivAt hi _ hiK x hlt0 hlt

end rqC1

/-! ## the executed RQ spline with linear tails, `rqSplineTails`, on the whole real line -/

section rq
open RQWhole RQInverseWhole
variable (e : Float → ℝ) (tb minW minH minD beta : Float) (uw uh ud : List ℝ)

/-- the configuration `rqSplineTails` hands to `rqSpline`: the box `[-B, B]²` -/
def cfgT : RQCfg :=
  { box := ⟨-tb, tb, -tb, tb⟩, minW := minW, minH := minH, minD := minD, beta := beta }

/-- the padding constant `np.log(np.exp(1 - min_derivative) - 1)` (a Python double) as `e` reads it -/
def cstT : ℝ := e (Float.log (Float.exp (1 - minD) - 1))

/-- the padded unnormalised derivatives `F.pad(ud, (1, 1))` with both ends set to the constant -/
def udT : List ℝ := cstT e minD :: (ud ++ [cstT e minD])

/-- `rqSplineTails` at the reals: the inside test is `-B ≤ x ≤ B`, inside it runs `rqSpline` on the box `[-B,B]²` with
    the padded derivative vector, outside it returns `(x, 0)` -/
theorem tails_unfold (inverse : Bool) (x : ℝ) :
    rqSplineTails (NF.realX e) tb minW minH minD beta uw uh ud inverse x
      = if -e tb ≤ x ∧ x ≤ e tb then
          rqSpline (NF.realX e) (cfgT tb minW minH minD beta) uw uh (udT e minD ud) inverse x
        else .ok (x, 0) := by
  unfold rqSplineTails
  simp only [XOps.ge, NF.realX_le, NF.realX_neg, NF.realX_ofFloat, Bool.and_eq_true, decide_eq_true_eq, NF.realX_zero]
  rfl

/-- an accepted tails configuration (`K` bins, `K-1` interior derivatives), with the reading `e` of the Python doubles
    exact on the expressions the code forms -/
structure RQTailsValid : Prop where
  hK : uw ≠ []
  hlenh : uh.length = uw.length
  hlend : ud.length + 1 = uw.length
  hgW : ¬ (minW * uw.length.toFloat > 1.0)
  hgH : ¬ (minH * uw.length.toFloat > 1.0)
  hmW0 : 0 ≤ e minW
  hcW : e (1 - minW * uw.length.toFloat) = 1 - e minW * uw.length
  hmWK : e minW * uw.length ≤ 1
  hmH0 : 0 ≤ e minH
  hcH : e (1 - minH * uh.length.toFloat) = 1 - e minH * uh.length
  hmHK : e minH * uh.length ≤ 1
  /-- the tail bound is positive, `e` commutes with the negation `-tail_bound` and with the box difference -/
  hB : 0 < e tb
  hneg : e (-tb) = - e tb
  hdiff : e (tb - (-tb)) = e tb - e (-tb)
  heps : 0 < e 1e-6
  hminD : 0 ≤ e minD
  hbeta : 0 < e beta

/-- what the tails program returns, forward and inverse (0 on the error branch, never taken: `tails_total`) -/
def valT (x : ℝ) : ℝ :=
  match rqSplineTails (NF.realX e) tb minW minH minD beta uw uh ud false x with
  | .ok r => r.1
  | .error _ => 0
def ldT (x : ℝ) : ℝ :=
  match rqSplineTails (NF.realX e) tb minW minH minD beta uw uh ud false x with
  | .ok r => r.2
  | .error _ => 0
def invT (y : ℝ) : ℝ :=
  match rqSplineTails (NF.realX e) tb minW minH minD beta uw uh ud true y with
  | .ok r => r.1
  | .error _ => 0
def invLdT (y : ℝ) : ℝ :=
  match rqSplineTails (NF.realX e) tb minW minH minD beta uw uh ud true y with
  | .ok r => r.2
  | .error _ => 0

local notation "CF" => cfgT tb minW minH minD beta
local notation "UD" => udT e minD ud
local notation "VT" => valT e tb minW minH minD beta uw uh ud
local notation "LT" => ldT e tb minW minH minD beta uw uh ud
local notation "IT" => invT e tb minW minH minD beta uw uh ud
local notation "ILT" => invLdT e tb minW minH minD beta uw uh ud
local notation "HV" => RQTailsValid e tb minW minH minD beta uw uh ud

/-- the forward tails program IS the identity-tails extension of the executed bounded program (no hypothesis) -/
theorem valT_eq_ext : VT = ext (e tb) (val e CF uw uh UD) := by
  funext x
  unfold valT ext val
  rw [tails_unfold]
  by_cases h : -e tb ≤ x ∧ x ≤ e tb
  · rw [if_pos h, if_pos h]; rfl
  · rw [if_neg h, if_neg h]

theorem invT_eq_ext : IT = ext (e tb) (inv e CF uw uh UD) := by
  funext x
  unfold invT ext inv
  rw [tails_unfold]
  by_cases h : -e tb ≤ x ∧ x ≤ e tb
  · rw [if_pos h, if_pos h]; rfl
  · rw [if_neg h, if_neg h]

theorem ldT_eq (x : ℝ) : LT x = if -e tb ≤ x ∧ x ≤ e tb then ld e CF uw uh UD x else 0 := by
  unfold ldT ld
  rw [tails_unfold]
  by_cases h : -e tb ≤ x ∧ x ≤ e tb
  · rw [if_pos h, if_pos h]; rfl
  · rw [if_neg h, if_neg h]

theorem invLdT_eq (y : ℝ) : ILT y = if -e tb ≤ y ∧ y ≤ e tb then invLd e CF uw uh UD y else 0 := by
  unfold invLdT invLd
  rw [tails_unfold]
  by_cases h : -e tb ≤ y ∧ y ≤ e tb
  · rw [if_pos h, if_pos h]; rfl
  · rw [if_neg h, if_neg h]

variable {e tb minW minH minD beta uw uh ud}

/-- the inner configuration is an accepted bounded configuration: everything in `RQWhole` / `RQInverseWhole` applies -/
theorem RQTailsValid.inner (hv : HV) : RQValid e CF uw uh UD where
  hK := hv.hK
  hlenh := hv.hlenh
  hlend := by simp [udT]; have := hv.hlend; omega
  hgW := hv.hgW
  hgH := hv.hgH
  hmW0 := hv.hmW0
  hcW := hv.hcW
  hmWK := hv.hmWK
  hmH0 := hv.hmH0
  hcH := hv.hcH
  hmHK := hv.hmHK
  hlr := by show e (-tb) < e tb; rw [hv.hneg]; linarith [hv.hB]
  hdlr := hv.hdiff
  hbt := by show e (-tb) < e tb; rw [hv.hneg]; linarith [hv.hB]
  hdbt := hv.hdiff
  heps := hv.heps
  hminD := hv.hminD
  hbeta := hv.hbeta

/-- the executed bounded FORWARD program is a strictly increasing bijection of `[-B, B]` fixing both end-points -/
theorem boxBij_val (hv : HV) : BoxBij (e tb) (val e CF uw uh UD) := by
  have hi := hv.inner
  have hm : StrictMonoOn (val e CF uw uh UD) (Set.Icc (e (-tb)) (e tb)) := val_strictMonoOn hi
  have he : val e CF uw uh UD (e (-tb)) = e (-tb) ∧ val e CF uw uh UD (e tb) = e tb := val_endpoints hi
  rw [hv.hneg] at hm he
  refine ⟨hv.hB, hm, he.1, he.2, ?_⟩
  intro y hy
  have hy0 : e (-tb) ≤ y := by rw [hv.hneg]; exact hy.1
  have hin : inv e CF uw uh UD y ∈ Set.Icc (e (-tb)) (e tb) := inv_mapsTo hi ⟨hy0, hy.2⟩
  rw [hv.hneg] at hin
  exact ⟨_, hin, val_inv hi y hy0 hy.2⟩

/-- the executed bounded INVERSE program is a strictly increasing bijection of `[-B, B]` fixing both end-points -/
theorem boxBij_inv (hv : HV) : BoxBij (e tb) (inv e CF uw uh UD) := by
  have hi := hv.inner
  have hm : StrictMonoOn (inv e CF uw uh UD) (Set.Icc (e (-tb)) (e tb)) := inv_strictMonoOn hi
  have he : inv e CF uw uh UD (e (-tb)) = e (-tb) ∧ inv e CF uw uh UD (e tb) = e tb := inv_endpoints hi
  rw [hv.hneg] at hm he
  refine ⟨hv.hB, hm, he.1, he.2, ?_⟩
  intro x hx
  have hx0 : e (-tb) ≤ x := by rw [hv.hneg]; exact hx.1
  have hin : val e CF uw uh UD x ∈ Set.Icc (e (-tb)) (e tb) := val_mapsTo hi ⟨hx0, hx.2⟩
  rw [hv.hneg] at hin
  exact ⟨_, hin, inv_val hi x hx0 hx.2⟩

/-! ### forward direction -/

/-- **C17 on the whole line**: the forward tails program returns a value for EVERY real input -/
theorem tails_total (hv : HV) (x : ℝ) :
    rqSplineTails (NF.realX e) tb minW minH minD beta uw uh ud false x = .ok (VT x, LT x) := by
  by_cases h : -e tb ≤ x ∧ x ≤ e tb
  · have hx0 : e (-tb) ≤ x := by rw [hv.hneg]; exact h.1
    have := RQWhole.exec_eq_bin hv.inner x hx0 h.2
    unfold valT ldT; rw [tails_unfold, if_pos h, this]
  · unfold valT ldT; rw [tails_unfold, if_neg h]

/-- **identity with zero log-det outside `[-B, B]`** (no hypothesis at all) -/
theorem valT_outside (x : ℝ) (h : x < -e tb ∨ e tb < x) : VT x = x ∧ LT x = 0 := by
  have hn : ¬ (-e tb ≤ x ∧ x ≤ e tb) := by rintro ⟨h0, h1⟩; rcases h with h | h <;> linarith
  constructor
  · rw [valT_eq_ext]; exact ext_outside x h
  · rw [ldT_eq, if_neg hn]

/-- **equal to the bounded program inside `[-B, B]`** (both outputs; no hypothesis) -/
theorem valT_inside (x : ℝ) (h0 : -e tb ≤ x) (h1 : x ≤ e tb) :
    VT x = val e CF uw uh UD x ∧ LT x = ld e CF uw uh UD x := by
  constructor
  · rw [valT_eq_ext]; exact ext_inside x h0 h1
  · rw [ldT_eq, if_pos ⟨h0, h1⟩]

/-- **continuous at the junctions**: `valT (±B) = ±B`, the value the identity tails take there -/
theorem valT_junction (hv : HV) : VT (-e tb) = -e tb ∧ VT (e tb) = e tb := by
  rw [valT_eq_ext]; exact ⟨ext_left (boxBij_val hv), ext_right (boxBij_val hv)⟩

/-- **C09 on the whole line: strictly increasing on ℝ** -/
theorem valT_strictMono (hv : HV) : StrictMono VT := by
  rw [valT_eq_ext]; exact ext_strictMono (boxBij_val hv)

/-- **continuous on ℝ** -/
theorem valT_continuous (hv : HV) : Continuous VT := by
  rw [valT_eq_ext]; exact ext_continuous (boxBij_val hv)

/-- **C09 on the whole line: a bijection of ℝ onto ℝ** -/
theorem valT_bijective (hv : HV) : Function.Bijective VT := by
  rw [valT_eq_ext]; exact ext_bijective (boxBij_val hv)

/-- … mapping the box `[-B, B]` onto itself -/
theorem valT_bijOn_box (hv : HV) : Set.BijOn VT (Set.Icc (-e tb) (e tb)) (Set.Icc (-e tb) (e tb)) := by
  rw [valT_eq_ext]; exact ext_bijOn_box (boxBij_val hv)

/-- **C01 outside the box**: derivative `1 = exp 0 = exp (ldT x)` -/
theorem valT_hasDerivAt_outside (x : ℝ) (h : x < -e tb ∨ e tb < x) : HasDerivAt VT (Real.exp (LT x)) x := by
  rw [(valT_outside x h).2, Real.exp_zero, valT_eq_ext]
  exact ext_hasDerivAt_outside _ _ x h

/-- the knots of the inner program lie in `[-B, B]` -/
theorem knot_mem (hv : HV) (j : ℕ) (hj : j ≤ uw.length) : -e tb ≤ xs e CF uw j ∧ xs e CF uw j ≤ e tb := by
  have h : xs e CF uw j ∈ Set.Icc (e (-tb)) (e tb) := knot_mem_x hv.inner j hj
  rw [hv.hneg] at h
  exact ⟨h.1, h.2⟩

/-- **C01 inside every open bin**: the derivative of the whole-line function is `exp` of the log-abs-det the tails
    program returns -/
theorem valT_hasDerivAt_bin (hv : HV) (k : ℕ) (hk : k < uw.length) (x : ℝ)
    (h0 : xs e CF uw k < x) (h1 : x < xs e CF uw (k+1)) : HasDerivAt VT (Real.exp (LT x)) x := by
  have hx0 : -e tb < x := lt_of_le_of_lt (knot_mem hv k hk.le).1 h0
  have hx1 : x < e tb := lt_of_lt_of_le h1 (knot_mem hv (k+1) hk).2
  rw [(valT_inside x hx0.le hx1.le).2, valT_eq_ext]
  exact ext_hasDerivAt_inside _ _ x _ hx0 hx1 (val_hasDerivAt hv.inner k hk x h0 h1)

/-! ### inverse direction -/

/-- **C17 on the whole line, inverse**: the inverse tails program returns a value for EVERY real input (the discriminant
    assertion never fires) -/
theorem tails_total_inv (hv : HV) (y : ℝ) :
    rqSplineTails (NF.realX e) tb minW minH minD beta uw uh ud true y = .ok (IT y, ILT y) := by
  by_cases h : -e tb ≤ y ∧ y ≤ e tb
  · have hy0 : e (-tb) ≤ y := by rw [hv.hneg]; exact h.1
    have := RQInverseWhole.exec_eq_bin hv.inner y hy0 h.2
    unfold invT invLdT; rw [tails_unfold, if_pos h, this]
  · unfold invT invLdT; rw [tails_unfold, if_neg h]

theorem invT_outside (y : ℝ) (h : y < -e tb ∨ e tb < y) : IT y = y ∧ ILT y = 0 := by
  have hn : ¬ (-e tb ≤ y ∧ y ≤ e tb) := by rintro ⟨h0, h1⟩; rcases h with h | h <;> linarith
  constructor
  · rw [invT_eq_ext]; exact ext_outside y h
  · rw [invLdT_eq, if_neg hn]

theorem invT_inside (y : ℝ) (h0 : -e tb ≤ y) (h1 : y ≤ e tb) :
    IT y = inv e CF uw uh UD y ∧ ILT y = invLd e CF uw uh UD y := by
  constructor
  · rw [invT_eq_ext]; exact ext_inside y h0 h1
  · rw [invLdT_eq, if_pos ⟨h0, h1⟩]

theorem invT_junction (hv : HV) : IT (-e tb) = -e tb ∧ IT (e tb) = e tb := by
  rw [invT_eq_ext]; exact ⟨ext_left (boxBij_inv hv), ext_right (boxBij_inv hv)⟩

theorem invT_strictMono (hv : HV) : StrictMono IT := by
  rw [invT_eq_ext]; exact ext_strictMono (boxBij_inv hv)

theorem invT_continuous (hv : HV) : Continuous IT := by
  rw [invT_eq_ext]; exact ext_continuous (boxBij_inv hv)

theorem invT_bijective (hv : HV) : Function.Bijective IT := by
  rw [invT_eq_ext]; exact ext_bijective (boxBij_inv hv)

theorem invT_bijOn_box (hv : HV) : Set.BijOn IT (Set.Icc (-e tb) (e tb)) (Set.Icc (-e tb) (e tb)) := by
  rw [invT_eq_ext]; exact ext_bijOn_box (boxBij_inv hv)

/-- **C02 on the whole line**: inverse ∘ forward = id, for EVERY real `x` -/
theorem invT_valT (hv : HV) (x : ℝ) : IT (VT x) = x := by
  rw [invT_eq_ext, valT_eq_ext]
  refine ext_ext_cancel (boxBij_val hv) (fun z h0 h1 => ?_) x
  exact inv_val hv.inner z (by show e (-tb) ≤ z; rw [hv.hneg]; exact h0) h1

/-- **C02 on the whole line**: forward ∘ inverse = id, for EVERY real `y` -/
theorem valT_invT (hv : HV) (y : ℝ) : VT (IT y) = y := by
  rw [invT_eq_ext, valT_eq_ext]
  refine ext_ext_cancel (boxBij_inv hv) (fun z h0 h1 => ?_) y
  exact val_inv hv.inner z (by show e (-tb) ≤ z; rw [hv.hneg]; exact h0) h1

/-- **log-abs-det law on the whole line** (C02): the inverse program's second output at `y` is the negated second output
    of the forward program at `invT y`, for EVERY real `y` -/
theorem invLdT_eq_neg_ldT (hv : HV) (y : ℝ) : ILT y = - LT (IT y) := by
  by_cases h : -e tb ≤ y ∧ y ≤ e tb
  · have hy0 : e (-tb) ≤ y := by rw [hv.hneg]; exact h.1
    have hin := (boxBij_inv hv).mapsTo ⟨h.1, h.2⟩
    rw [(invT_inside y h.1 h.2).2, (invT_inside y h.1 h.2).1, (valT_inside _ hin.1 hin.2).2]
    exact invLd_eq_neg_ld hv.inner y hy0 h.2
  · have ho : y < -e tb ∨ e tb < y := by
      by_contra hc
      exact h ⟨not_lt.mp (fun h' => hc (Or.inl h')), not_lt.mp (fun h' => hc (Or.inr h'))⟩
    rw [(invT_outside y ho).2, (invT_outside y ho).1, (valT_outside y ho).2, neg_zero]

theorem ldT_eq_neg_invLdT (hv : HV) (x : ℝ) : LT x = - ILT (VT x) := by
  rw [invLdT_eq_neg_ldT hv, invT_valT hv, neg_neg]

theorem invT_hasDerivAt_outside (y : ℝ) (h : y < -e tb ∨ e tb < y) : HasDerivAt IT (Real.exp (ILT y)) y := by
  rw [(invT_outside y h).2, Real.exp_zero, invT_eq_ext]
  exact ext_hasDerivAt_outside _ _ y h

theorem knot_mem_yT (hv : HV) (j : ℕ) (hj : j ≤ uw.length) : -e tb ≤ ys e CF uh j ∧ ys e CF uh j ≤ e tb := by
  have h : ys e CF uh j ∈ Set.Icc (e (-tb)) (e tb) := knot_mem_y hv.inner j hj
  rw [hv.hneg] at h
  exact ⟨h.1, h.2⟩

/-- **C01, inverse direction, inside every open y-bin** -/
theorem invT_hasDerivAt_bin (hv : HV) (k : ℕ) (hk : k < uw.length) (y : ℝ)
    (h0 : ys e CF uh k < y) (h1 : y < ys e CF uh (k+1)) : HasDerivAt IT (Real.exp (ILT y)) y := by
  have hy0 : -e tb < y := lt_of_le_of_lt (knot_mem_yT hv k hk.le).1 h0
  have hy1 : y < e tb := lt_of_lt_of_le h1 (knot_mem_yT hv (k+1) hk).2
  rw [(invT_inside y hy0.le hy1.le).2, invT_eq_ext]
  exact ext_hasDerivAt_inside _ _ y _ hy0 hy1 (inv_hasDerivAt hv.inner k hk y h0 h1)

/-! ### the boundary derivative: the padding constant makes the end knot derivatives exactly 1 (C¹ join with the tails) -/

/-- `softplus(log(exp(1 - m) - 1)) = 1 - m` for the EXECUTED softplus (β = 1, threshold 20): needs `m < 1` (the constant
    is a real logarithm) and `-19 ≤ m` (so that the constant is `≤ 20` and the threshold branch is not taken; any
    accepted `min_derivative ≥ 0` qualifies) -/
theorem softplus_pad (e : Float → ℝ) (m : ℝ) (hm0 : -19 ≤ m) (hm1 : m < 1) :
    (NF.realX e).softplusB 1 (Real.log (Real.exp (1 - m) - 1)) = 1 - m := by
  have hpos : 0 < Real.exp (1 - m) - 1 := by
    have : Real.exp 0 < Real.exp (1 - m) := Real.exp_lt_exp.mpr (by linarith)
    rw [Real.exp_zero] at this; linarith
  have hle : Real.log (Real.exp (1 - m) - 1) ≤ 20 := by
    have h1 : Real.exp (1 - m) - 1 ≤ Real.exp 20 := by
      have : Real.exp (1 - m) ≤ Real.exp 20 := Real.exp_le_exp.mpr (by linarith)
      linarith
    calc Real.log (Real.exp (1 - m) - 1) ≤ Real.log (Real.exp 20) := Real.log_le_log hpos h1
      _ = 20 := Real.log_exp 20
  have hsp : (NF.realX e).softplusB 1 (Real.log (Real.exp (1 - m) - 1))
      = (NF.realX e).softplus (Real.log (Real.exp (1 - m) - 1)) := by
    unfold XOps.softplus; rw [NF.realX_one]
  rw [hsp, NF.realX_softplus, if_neg (not_lt.mpr hle), Real.exp_log hpos,
    show (1:ℝ) + (Real.exp (1 - m) - 1) = Real.exp (1 - m) by ring, Real.log_exp]

/-- the first and last knot derivatives the program computes from the padded vector -/
theorem ds_first : ds e CF UD 0 = e minD + (NF.realX e).softplusB (e beta) (cstT e minD) := by
  simp [ds, dv, udT, cfgT]

theorem ds_last (hlen : ud.length + 1 = uw.length) :
    ds e CF UD uw.length = e minD + (NF.realX e).softplusB (e beta) (cstT e minD) := by
  rw [← hlen]
  simp [ds, dv, udT, cfgT, List.getD_eq_getElem?_getD]

variable (e minD beta) in
/-- `e` reads the padding constant `np.log(np.exp(1 - min_derivative) - 1)` as that real number, `min_derivative < 1`,
    and the softplus runs with `beta = 1` (`enable_identity_init = False`) -/
structure PadExact : Prop where
  hcst : e (Float.log (Float.exp (1 - minD) - 1)) = Real.log (Real.exp (1 - e minD) - 1)
  hminD1 : e minD < 1
  hbeta1 : e beta = 1

/-- **the boundary knot derivatives are exactly 1** -/
theorem knot_deriv_first_one (hv : HV) (hp : PadExact e minD beta) : ds e CF UD 0 = 1 := by
  rw [ds_first, hp.hbeta1]
  unfold cstT
  rw [hp.hcst, softplus_pad e _ (by linarith [hv.hminD]) hp.hminD1]; ring

theorem knot_deriv_last_one (hv : HV) (hp : PadExact e minD beta) : ds e CF UD uw.length = 1 := by
  rw [ds_last hv.hlend, hp.hbeta1]
  unfold cstT
  rw [hp.hcst, softplus_pad e _ (by linarith [hv.hminD]) hp.hminD1]; ring

/-- **C¹ join at the right junction**: the whole-line function is differentiable at `B` with derivative 1 -/
theorem valT_hasDerivAt_right (hv : HV) (hp : PadExact e minD beta) : HasDerivAt VT 1 (e tb) := by
  have hi := hv.inner
  have hK0 : 0 < uw.length := List.length_pos_of_ne_nil hv.hK
  have hK1 : uw.length - 1 + 1 = uw.length := by omega
  have h := val_hasDerivWithinAt_left_of hi (uw.length - 1) (by omega)
  rw [hK1, knot_deriv_last_one hv hp, xs_last hi] at h
  rw [valT_eq_ext]
  exact ext_hasDerivAt_right (boxBij_val hv) h

/-- **C¹ join at the left junction** -/
theorem valT_hasDerivAt_left (hv : HV) (hp : PadExact e minD beta) : HasDerivAt VT 1 (-e tb) := by
  have hi := hv.inner
  have hK0 : 0 < uw.length := List.length_pos_of_ne_nil hv.hK
  have h := val_hasDerivWithinAt_right_of hi 0 hK0
  rw [knot_deriv_first_one hv hp, xs_zero hi] at h
  have h' : HasDerivWithinAt (val e CF uw uh UD) 1 (Set.Ici (e (-tb))) (e (-tb)) := h
  rw [hv.hneg] at h'
  rw [valT_eq_ext]
  exact ext_hasDerivAt_left (boxBij_val hv) h'

/-- the log-abs-det the tails program returns AT the junctions is 0, the value in the tails -/
theorem ldT_junction (hv : HV) (hp : PadExact e minD beta) : LT (-e tb) = 0 ∧ LT (e tb) = 0 := by
  have hi := hv.inner
  have hK0 : 0 < uw.length := List.length_pos_of_ne_nil hv.hK
  have hB := hv.hB
  constructor
  · rw [(valT_inside (-e tb) le_rfl (by linarith)).2]
    have h := exp_ld_knot hi 0 hK0
    rw [knot_deriv_first_one hv hp, xs_zero hi] at h
    have h' : Real.exp (ld e CF uw uh UD (e (-tb))) = 1 := h
    rw [hv.hneg] at h'
    rw [← Real.exp_eq_one_iff]; exact h'
  · rw [(valT_inside (e tb) (by linarith) le_rfl).2]
    have h := exp_ld_right_end hi
    rw [knot_deriv_last_one hv hp] at h
    rw [← Real.exp_eq_one_iff]; exact h

/-- **C01 on the WHOLE real line**: with the padding constant read exactly, at EVERY real `x` (tails, junctions, interior
    knots, open bins) the tails program's value is differentiable and its derivative is `exp` of the log-abs-det the
    program returns -/
theorem valT_hasDerivAt_all (hv : HV) (hp : PadExact e minD beta) (x : ℝ) : HasDerivAt VT (Real.exp (LT x)) x := by
  rcases lt_trichotomy x (-e tb) with h | h | h
  · exact valT_hasDerivAt_outside x (Or.inl h)
  · rw [h, (ldT_junction hv hp).1, Real.exp_zero]; exact valT_hasDerivAt_left hv hp
  · rcases lt_trichotomy x (e tb) with h' | h' | h'
    · rw [(valT_inside x h.le h'.le).2, valT_eq_ext]
      refine ext_hasDerivAt_inside _ _ x _ h h' ?_
      exact val_hasDerivAt_all hv.inner x (by show e (-tb) < x; rw [hv.hneg]; exact h) h'
    · rw [h', (ldT_junction hv hp).2, Real.exp_zero]; exact valT_hasDerivAt_right hv hp
    · exact valT_hasDerivAt_outside x (Or.inr h')

/-- **C01 on the WHOLE real line, inverse direction** -/
theorem invT_hasDerivAt_all (hv : HV) (hp : PadExact e minD beta) (y : ℝ) : HasDerivAt IT (Real.exp (ILT y)) y := by
  have hf := valT_hasDerivAt_all hv hp (IT y)
  have hfg : ∀ᶠ z in nhds y, VT (IT z) = z := Filter.Eventually.of_forall (valT_invT hv)
  have := HasDerivAt.of_local_left_inverse (invT_continuous hv).continuousAt hf (Real.exp_pos _).ne' hfg
  rw [invLdT_eq_neg_ldT hv y, Real.exp_neg]; exact this

/-- the inverse is C¹ at the junctions too: derivative 1 and log-abs-det 0 at `±B` -/
theorem invT_hasDerivAt_junction (hv : HV) (hp : PadExact e minD beta) :
    HasDerivAt IT 1 (-e tb) ∧ HasDerivAt IT 1 (e tb) ∧ ILT (-e tb) = 0 ∧ ILT (e tb) = 0 := by
  have hl : ILT (-e tb) = 0 := by
    rw [invLdT_eq_neg_ldT hv, (invT_junction hv).1, (ldT_junction hv hp).1, neg_zero]
  have hr : ILT (e tb) = 0 := by
    rw [invLdT_eq_neg_ldT hv, (invT_junction hv).2, (ldT_junction hv hp).2, neg_zero]
  have h1 := invT_hasDerivAt_all hv hp (-e tb)
  have h2 := invT_hasDerivAt_all hv hp (e tb)
  rw [hl, Real.exp_zero] at h1
  rw [hr, Real.exp_zero] at h2
  exact ⟨h1, h2, hl, hr⟩

/-! ### FINDING: with `enable_identity_init=True` the junction is NOT C¹

`rational_quadratic_spline(enable_identity_init=True)` runs the softplus with `beta = log 2 / (1 - min_derivative)`, but
`unconstrained_rational_quadratic_spline` still pads with `log(exp(1 - min_derivative) - 1)`, the constant for `beta = 1`.
For every `0 < beta < 1` (i.e. `min_derivative < 1 - log 2 ≈ 0.307`, in particular the default `1e-3`) the boundary knot
derivative is then `min_d + log(1 + (exp(1 - min_d) - 1)^beta) / beta > 1` (≈ 1.295 for the default), so the derivative
jumps from 1 to that value across `±B`.  The map stays a continuous strictly increasing bijection with the right
log-abs-det on each side (all theorems above except the `PadExact` ones apply); only the C¹ join is lost. -/

theorem add_rpow_gt {c β : ℝ} (hc : 0 < c) (hβ0 : 0 < β) (hβ1 : β < 1) : (1 + c) ^ β < 1 + c ^ β := by
  have h1c : 0 < 1 + c := by linarith
  have hp : 0 < (1 + c) ^ β := Real.rpow_pos_of_pos h1c β
  have ha : (1 / (1 + c)) ^ (1:ℝ) < (1 / (1 + c)) ^ β :=
    Real.rpow_lt_rpow_of_exponent_gt (by positivity) (by rw [div_lt_one h1c]; linarith) hβ1
  have hb : (c / (1 + c)) ^ (1:ℝ) < (c / (1 + c)) ^ β :=
    Real.rpow_lt_rpow_of_exponent_gt (by positivity) (by rw [div_lt_one h1c]; linarith) hβ1
  rw [Real.rpow_one, Real.div_rpow zero_le_one h1c.le, Real.one_rpow] at ha
  rw [Real.rpow_one, Real.div_rpow hc.le h1c.le] at hb
  have hsum : 1 / (1 + c) + c / (1 + c) = 1 := by field_simp
  have : 1 < 1 / (1 + c) ^ β + c ^ β / (1 + c) ^ β := by linarith
  rw [← add_div, lt_div_iff₀ hp] at this
  linarith

/-- the boundary knot derivative exceeds 1 whenever the softplus runs with `0 < beta < 1` -/
theorem knot_deriv_gt_one_of_beta_lt_one (hv : HV)
    (hcst : e (Float.log (Float.exp (1 - minD) - 1)) = Real.log (Real.exp (1 - e minD) - 1))
    (hm1 : e minD < 1) (hb1 : e beta < 1) : 1 < ds e CF UD 0 ∧ 1 < ds e CF UD uw.length := by
  have hβ0 : 0 < e beta := hv.hbeta
  have hm0 : 0 ≤ e minD := hv.hminD
  have hc0 : 0 < Real.exp (1 - e minD) - 1 := by
    have : Real.exp 0 < Real.exp (1 - e minD) := Real.exp_lt_exp.mpr (by linarith)
    rw [Real.exp_zero] at this; linarith
  have hle : Real.log (Real.exp (1 - e minD) - 1) ≤ 20 := by
    have h1 : Real.exp (1 - e minD) - 1 ≤ Real.exp 20 := by
      have : Real.exp (1 - e minD) ≤ Real.exp 20 := Real.exp_le_exp.mpr (by linarith)
      linarith
    calc Real.log (Real.exp (1 - e minD) - 1) ≤ Real.log (Real.exp 20) := Real.log_le_log hc0 h1
      _ = 20 := Real.log_exp 20
  have hthr : ¬ (20 < e beta * Real.log (Real.exp (1 - e minD) - 1)) := by
    rcases le_or_gt 0 (Real.log (Real.exp (1 - e minD) - 1)) with h | h
    · nlinarith
    · nlinarith
  have hsp : (NF.realX e).softplusB (e beta) (Real.log (Real.exp (1 - e minD) - 1))
      = Real.log (1 + (Real.exp (1 - e minD) - 1) ^ (e beta)) / e beta := by
    unfold XOps.softplusB
    simp only [NF.realX_mul, NF.realX_lt, NF.realX_ofRat, NF.realX_div, NF.realX_log1p, NF.realX_exp]
    have hcond : ¬ (((20:ℤ):ℝ) / ((1:ℕ):ℝ) < e beta * Real.log (Real.exp (1 - e minD) - 1)) := by
      norm_num; exact not_lt.mp hthr
    rw [if_neg (by simpa using hcond), mul_comm, Real.exp_mul, Real.exp_log hc0]
  have key := add_rpow_gt hc0 hβ0 hb1
  have h1c : 1 + (Real.exp (1 - e minD) - 1) = Real.exp (1 - e minD) := by ring
  have hlog : Real.log ((1 + (Real.exp (1 - e minD) - 1)) ^ (e beta)) = e beta * (1 - e minD) := by
    rw [Real.log_rpow (by linarith), h1c, Real.log_exp]
  have hlt : e beta * (1 - e minD) < Real.log (1 + (Real.exp (1 - e minD) - 1) ^ (e beta)) := by
    rw [← hlog]; exact Real.log_lt_log (Real.rpow_pos_of_pos (by linarith) _) key
  have hfin : 1 - e minD < Real.log (1 + (Real.exp (1 - e minD) - 1) ^ (e beta)) / e beta := by
    rw [lt_div_iff₀ hβ0]; linarith
  have hval : 1 < e minD + (NF.realX e).softplusB (e beta) (cstT e minD) := by
    unfold cstT; rw [hcst, hsp]; linarith
  exact ⟨by rw [ds_first]; exact hval, by rw [ds_last hv.hlend]; exact hval⟩

/-- … hence, for `0 < beta < 1`, the whole-line map is NOT differentiable at the right junction `B` -/
theorem valT_not_differentiableAt_of_beta_lt_one (hv : HV)
    (hcst : e (Float.log (Float.exp (1 - minD) - 1)) = Real.log (Real.exp (1 - e minD) - 1))
    (hm1 : e minD < 1) (hb1 : e beta < 1) : ¬ DifferentiableAt ℝ VT (e tb) := by
  intro hdiff
  have hi := hv.inner
  have hB := hv.hB
  have hK0 : 0 < uw.length := List.length_pos_of_ne_nil hv.hK
  have hK1 : uw.length - 1 + 1 = uw.length := by omega
  have h := val_hasDerivWithinAt_left_of hi (uw.length - 1) (by omega)
  rw [hK1, xs_last hi] at h
  have hl : HasDerivWithinAt VT (ds e CF UD uw.length) (Set.Iic (e tb)) (e tb) := by
    have hmem : Set.Icc (-e tb) (e tb) ∈ nhdsWithin (e tb) (Set.Iic (e tb)) := Icc_mem_nhdsLE (by linarith)
    have hev : VT =ᶠ[nhdsWithin (e tb) (Set.Iic (e tb))] val e CF uw uh UD :=
      Filter.eventuallyEq_of_mem hmem (fun z hz => (valT_inside z hz.1 hz.2).1)
    exact h.congr_of_eventuallyEq hev (valT_inside _ (by linarith) le_rfl).1
  have hr : HasDerivWithinAt VT 1 (Set.Ici (e tb)) (e tb) := by
    have hid : HasDerivWithinAt (fun z : ℝ => z) 1 (Set.Ici (e tb)) (e tb) := (hasDerivAt_id (e tb)).hasDerivWithinAt
    refine hid.congr (fun z hz => ?_) (valT_junction hv).2
    rcases eq_or_lt_of_le (Set.mem_Ici.mp hz) with h | h
    · rw [← h]; exact (valT_junction hv).2
    · exact (valT_outside z (Or.inr h)).1
  have hD := hdiff.hasDerivAt
  have e1 := (uniqueDiffWithinAt_Iic (e tb)).eq_deriv _ hD.hasDerivWithinAt hl
  have e2 := (uniqueDiffWithinAt_Ici (e tb)).eq_deriv _ hD.hasDerivWithinAt hr
  have := (knot_deriv_gt_one_of_beta_lt_one hv hcst hm1 hb1).2
  rw [← e1, e2] at this
  exact lt_irrefl _ this

end rq


/-! ## the generic wrapper `tailsWrap` (quadratic / linear families; the cubic family inlines the same text) -/

section wrap
variable (e : Float → ℝ) (tb : Float)

/-- the box `tailsWrap` hands to the inner spline -/
def tbox : Box := ⟨-tb, tb, -tb, tb⟩

theorem tailsWrap_unfold (x : ℝ) (inner : Box → Except Err (ℝ × ℝ)) :
    tailsWrap (NF.realX e) tb x inner = if -e tb ≤ x ∧ x ≤ e tb then inner (tbox tb) else .ok (x, 0) := by
  unfold tailsWrap
  simp only [XOps.ge, NF.realX_le, NF.realX_neg, NF.realX_ofFloat, Bool.and_eq_true, decide_eq_true_eq, NF.realX_zero]
  rfl

/- an arbitrary inner program, as a function of the box and the input (`elTransform` passes
    `fun box => quadSpline o { box := box, … } uw uh inverse x`) -/
variable (P : Box → ℝ → Except Err (ℝ × ℝ))

/-- the two outputs of the wrapped program (0 on the error branch) and of the inner program on the box `[-B,B]²` -/
def wrapVal (x : ℝ) : ℝ := QuadWhole.valOf (tailsWrap (NF.realX e) tb x (fun b => P b x))
def wrapLd (x : ℝ) : ℝ := QuadWhole.ldOf (tailsWrap (NF.realX e) tb x (fun b => P b x))
def innerVal (x : ℝ) : ℝ := QuadWhole.valOf (P (tbox tb) x)
def innerLd (x : ℝ) : ℝ := QuadWhole.ldOf (P (tbox tb) x)

/-- the wrapped program IS the identity-tails extension of the inner program (no hypothesis) -/
theorem wrapVal_eq_ext : wrapVal e tb P = ext (e tb) (innerVal tb P) := by
  funext x
  unfold wrapVal ext innerVal
  rw [tailsWrap_unfold]
  by_cases h : -e tb ≤ x ∧ x ≤ e tb
  · rw [if_pos h, if_pos h]
  · rw [if_neg h, if_neg h]; rfl

theorem wrapLd_eq (x : ℝ) : wrapLd e tb P x = if -e tb ≤ x ∧ x ≤ e tb then innerLd tb P x else 0 := by
  unfold wrapLd innerLd
  rw [tailsWrap_unfold]
  by_cases h : -e tb ≤ x ∧ x ≤ e tb
  · rw [if_pos h, if_pos h]
  · rw [if_neg h, if_neg h]; rfl

/-- the hypotheses of the generic theorem: on the box `[-B,B]²` the inner program returns a value for every input of
    `[-B, B]`, and its value is a strictly increasing bijection of `[-B, B]` fixing both end-points -/
structure WrapValid : Prop where
  bij : BoxBij (e tb) (innerVal tb P)
  total : ∀ x, -e tb ≤ x → x ≤ e tb → ∃ r, P (tbox tb) x = .ok r

variable {e tb P}

/-- **C17 on the whole line** -/
theorem wrap_total (hw : WrapValid e tb P) (x : ℝ) :
    tailsWrap (NF.realX e) tb x (fun b => P b x) = .ok (wrapVal e tb P x, wrapLd e tb P x) := by
  unfold wrapVal wrapLd
  rw [tailsWrap_unfold]
  by_cases h : -e tb ≤ x ∧ x ≤ e tb
  · obtain ⟨r, hr⟩ := hw.total x h.1 h.2
    rw [if_pos h, hr]; rfl
  · rw [if_neg h]; rfl

/-- identity with zero log-det outside `[-B, B]` (no hypothesis) -/
theorem wrap_outside (x : ℝ) (h : x < -e tb ∨ e tb < x) : wrapVal e tb P x = x ∧ wrapLd e tb P x = 0 := by
  have hn : ¬ (-e tb ≤ x ∧ x ≤ e tb) := by rintro ⟨h0, h1⟩; rcases h with h | h <;> linarith
  constructor
  · rw [wrapVal_eq_ext]; exact ext_outside x h
  · rw [wrapLd_eq, if_neg hn]

/-- equal to the inner program inside `[-B, B]` (no hypothesis) -/
theorem wrap_inside (x : ℝ) (h0 : -e tb ≤ x) (h1 : x ≤ e tb) :
    wrapVal e tb P x = innerVal tb P x ∧ wrapLd e tb P x = innerLd tb P x := by
  constructor
  · rw [wrapVal_eq_ext]; exact ext_inside x h0 h1
  · rw [wrapLd_eq, if_pos ⟨h0, h1⟩]

/-- continuous at the junctions -/
theorem wrap_junction (hw : WrapValid e tb P) : wrapVal e tb P (-e tb) = -e tb ∧ wrapVal e tb P (e tb) = e tb := by
  rw [wrapVal_eq_ext]; exact ⟨ext_left hw.bij, ext_right hw.bij⟩

/-- **C09 on the whole line**: strictly increasing, continuous, a bijection of ℝ mapping the box onto itself -/
theorem wrap_strictMono (hw : WrapValid e tb P) : StrictMono (wrapVal e tb P) := by
  rw [wrapVal_eq_ext]; exact ext_strictMono hw.bij
theorem wrap_continuous (hw : WrapValid e tb P) : Continuous (wrapVal e tb P) := by
  rw [wrapVal_eq_ext]; exact ext_continuous hw.bij
theorem wrap_bijective (hw : WrapValid e tb P) : Function.Bijective (wrapVal e tb P) := by
  rw [wrapVal_eq_ext]; exact ext_bijective hw.bij
theorem wrap_bijOn_box (hw : WrapValid e tb P) :
    Set.BijOn (wrapVal e tb P) (Set.Icc (-e tb) (e tb)) (Set.Icc (-e tb) (e tb)) := by
  rw [wrapVal_eq_ext]; exact ext_bijOn_box hw.bij

/-- **C01 outside the box**: derivative `1 = exp 0` -/
theorem wrap_hasDerivAt_outside (x : ℝ) (h : x < -e tb ∨ e tb < x) :
    HasDerivAt (wrapVal e tb P) (Real.exp (wrapLd e tb P x)) x := by
  rw [(wrap_outside x h).2, Real.exp_zero, wrapVal_eq_ext]
  exact ext_hasDerivAt_outside _ _ x h

/-- **C01 strictly inside the box**, wherever the inner program satisfies it -/
theorem wrap_hasDerivAt_inside (x : ℝ) (h0 : -e tb < x) (h1 : x < e tb)
    (hd : HasDerivAt (innerVal tb P) (Real.exp (innerLd tb P x)) x) :
    HasDerivAt (wrapVal e tb P) (Real.exp (wrapLd e tb P x)) x := by
  rw [(wrap_inside x h0.le h1.le).2, wrapVal_eq_ext]
  exact ext_hasDerivAt_inside _ _ x _ h0 h1 hd

/-- the two one-sided derivatives at the left junction: 1 from the tail, `d` from the box.  If `d ≠ 1` the wrapped map
    is NOT differentiable there -/
theorem wrap_not_differentiableAt_left (hw : WrapValid e tb P) (d : ℝ) (hd1 : d ≠ 1)
    (hd : HasDerivWithinAt (innerVal tb P) d (Set.Ici (-e tb)) (-e tb)) :
    ¬ DifferentiableAt ℝ (wrapVal e tb P) (-e tb) := by
  intro hdiff
  have hB := hw.bij.hB
  have hr : HasDerivWithinAt (wrapVal e tb P) d (Set.Ici (-e tb)) (-e tb) := by
    have hmem : Set.Icc (-e tb) (e tb) ∈ nhdsWithin (-e tb) (Set.Ici (-e tb)) := Icc_mem_nhdsGE (by linarith)
    have hev : wrapVal e tb P =ᶠ[nhdsWithin (-e tb) (Set.Ici (-e tb))] innerVal tb P :=
      Filter.eventuallyEq_of_mem hmem (fun z hz => (wrap_inside z hz.1 hz.2).1)
    exact hd.congr_of_eventuallyEq hev (wrap_inside _ le_rfl (by linarith)).1
  have hl : HasDerivWithinAt (wrapVal e tb P) 1 (Set.Iic (-e tb)) (-e tb) := by
    have hid : HasDerivWithinAt (fun z : ℝ => z) 1 (Set.Iic (-e tb)) (-e tb) := (hasDerivAt_id (-e tb)).hasDerivWithinAt
    refine hid.congr (fun z hz => ?_) (wrap_junction hw).1
    rcases eq_or_lt_of_le (Set.mem_Iic.mp hz) with h | h
    · rw [h]; exact (wrap_junction hw).1
    · exact (wrap_outside z (Or.inl h)).1
  have hD := hdiff.hasDerivAt
  have e1 := (uniqueDiffWithinAt_Ici (-e tb)).eq_deriv _ hD.hasDerivWithinAt hr
  have e2 := (uniqueDiffWithinAt_Iic (-e tb)).eq_deriv _ hD.hasDerivWithinAt hl
  exact hd1 (e1.symm.trans e2)

end wrap


/-! ## instance: the executed QUADRATIC spline with linear tails (forward), `tailsWrap … (fun box => quadSpline …)`

Only continuity and monotonicity hold at the junctions: the derivative of the quadratic spline at `±B` is NOT 1 (the
padding constant of `unconstrained_quadratic_spline` does not normalise the boundary heights to 1, see
`QuadWhole.tails_boundary_height_not_one`), so the whole-line map is a strictly increasing continuous bijection of ℝ
that is in general NOT differentiable at `±B` (`quad_tails_not_differentiable_left`). -/

section quad
open QuadWhole
variable (e : Float → ℝ) (tb minW minH : Float) (uw uh : List ℝ)

/-- the configuration the wrapper builds -/
def qcfgT : QCfg := { box := tbox tb, minW := minW, minH := minH }

/-- the inner program exactly as `elTransform` passes it to `tailsWrap` (forward direction) -/
def quadP (b : Box) (x : ℝ) : Except Err (ℝ × ℝ) :=
  quadSpline (NF.realX e) { box := b, minW := minW, minH := minH } uw uh false x

local notation "QC" => qcfgT tb minW minH
local notation "QP" => quadP e minW minH uw uh

theorem innerVal_quad : innerVal tb QP = QuadWhole.val e QC uw uh := rfl
theorem innerLd_quad : innerLd tb QP = QuadWhole.ld e QC uw uh := rfl

variable {e tb minW minH uw uh}

/-- the tail bound is positive as soon as the box is non-degenerate and `e` commutes with the negation -/
theorem quad_hB (hv : QuadValidT e QC uw uh) (hneg : e (-tb) = - e tb) : 0 < e tb := by
  have h : e (-tb) < e tb := hv.hbox.hlr
  rw [hneg] at h; linarith

/-- **the hypotheses of the generic wrapper theorem hold for the quadratic tails program**: every `wrap_*` theorem
    applies (total on ℝ, identity outside, continuous at the junctions, strictly increasing bijection of ℝ mapping the
    box onto itself) -/
theorem quad_wrapValid (hv : QuadValidT e QC uw uh) (hneg : e (-tb) = - e tb) : WrapValid e tb QP := by
  have hm : StrictMonoOn (QuadWhole.val e QC uw uh) (Set.Icc (e (-tb)) (e tb)) := val_strictMonoOn_T hv
  have he : QuadWhole.val e QC uw uh (e (-tb)) = e (-tb) ∧ QuadWhole.val e QC uw uh (e tb) = e tb := val_endpoints_T hv
  have hs : Set.SurjOn (QuadWhole.val e QC uw uh) (Set.Icc (e (-tb)) (e tb)) (Set.Icc (e (-tb)) (e tb)) :=
    (val_bijOn_T hv).surjOn
  rw [hneg] at hm he hs
  refine ⟨⟨quad_hB hv hneg, hm, he.1, he.2, hs⟩, ?_⟩
  intro x h0 h1
  exact total_T hv x (by show e (-tb) ≤ x; rw [hneg]; exact h0) h1

/-- the executed quadratic tails program, restated on the whole line -/
theorem quad_tails_whole (hv : QuadValidT e QC uw uh) (hneg : e (-tb) = - e tb) :
    (∀ x, tailsWrap (NF.realX e) tb x (fun b => QP b x) = .ok (wrapVal e tb QP x, wrapLd e tb QP x)) ∧
    StrictMono (wrapVal e tb QP) ∧ Continuous (wrapVal e tb QP) ∧ Function.Bijective (wrapVal e tb QP) ∧
    Set.BijOn (wrapVal e tb QP) (Set.Icc (-e tb) (e tb)) (Set.Icc (-e tb) (e tb)) ∧
    wrapVal e tb QP (-e tb) = -e tb ∧ wrapVal e tb QP (e tb) = e tb ∧
    (∀ x, x < -e tb ∨ e tb < x → wrapVal e tb QP x = x ∧ wrapLd e tb QP x = 0) := by
  have hw := quad_wrapValid hv hneg
  exact ⟨wrap_total hw, wrap_strictMono hw, wrap_continuous hw, wrap_bijective hw, wrap_bijOn_box hw,
    (wrap_junction hw).1, (wrap_junction hw).2, fun x h => wrap_outside x h⟩

/-- the `boxLog` constant of the box `[-B,B]²` is `log 1 = 0`: the form `QuadWhole` needs, from `e (boxLog box) = 0` -/
theorem quad_hbl (hv : QuadValidT e QC uw uh) (hbl0 : e (boxLog (tbox tb)) = 0) :
    e (boxLog (QC).box) = Real.log ((e (QC).box.top - e (QC).box.bottom) / (e (QC).box.right - e (QC).box.left)) := by
  have hD : e (QC).box.right - e (QC).box.left ≠ 0 := (sub_pos.mpr hv.hbox.hlr).ne'
  have h1 : (e (QC).box.top - e (QC).box.bottom) / (e (QC).box.right - e (QC).box.left) = 1 := div_self hD
  rw [h1, Real.log_one]; exact hbl0

/-- **C01 inside every open bin (box coordinates) of the quadratic tails program** -/
theorem quad_hasDerivAt_bin (hv : QuadValidT e QC uw uh) (hneg : e (-tb) = - e tb) (hbl0 : e (boxLog (tbox tb)) = 0)
    (k : ℕ) (hk : k < uw.length) (x : ℝ) (h0 : xk e QC uw k < x) (h1 : x < xk e QC uw (k+1)) :
    HasDerivAt (wrapVal e tb QP) (Real.exp (wrapLd e tb QP x)) x := by
  have hc := core_of_validT hv
  have hB := quad_hB hv hneg
  have hWl : (Wq e QC uw).length = uw.length := Wq_length QC uw
  have hmono := ExecGlue.knots_mono (lc e (Wq e QC uw)) (Wq e QC uw).length (lc_strict hc)
  have hl0 : 0 ≤ lc e (Wq e QC uw) k := by
    rw [← lc_zero hc]; exact hmono 0 k (Nat.zero_le _) (by omega)
  have hl1 : lc e (Wq e QC uw) (k+1) ≤ 1 := by
    rw [← lc_last hc]; exact hmono (k+1) _ (by omega) le_rfl
  have hL : e (QC).box.left = -e tb := hneg
  have hR : e (QC).box.right = e tb := rfl
  unfold xk at h0 h1
  rw [hL, hR] at h0 h1
  have hx0 : -e tb < x := by nlinarith
  have hx1 : x < e tb := by nlinarith
  refine wrap_hasDerivAt_inside x hx0 hx1 ?_
  rw [innerVal_quad, innerLd_quad]
  refine val_hasDerivAt_x_T hv (quad_hbl hv hbl0) k hk x ?_ ?_
  · unfold xk; rw [hL, hR]; exact h0
  · unfold xk; rw [hL, hR]; exact h1

/-- right derivative at the LEFT end of the box of any program running the second stage of the quadratic spline: it is
    `exp` of the log-abs-det the program returns there -/
theorem quad_hasDerivWithinAt_left {c : QCfg} {Wd U : List ℝ} {P : ℝ → Except Err (ℝ × ℝ)}
    (hc : CoreValid e c Wd U) (hb : BoxValid e c) (hP : RunsRest e c Wd U P)
    (hbl : e (boxLog c.box) = Real.log ((e c.box.top - e c.box.bottom) / (e c.box.right - e c.box.left))) :
    HasDerivWithinAt (fun x => valOf (P x)) (Real.exp (ldOf (P (e c.box.left)))) (Set.Ici (e c.box.left)) (e c.box.left) := by
  have hK0 : 0 < Wd.length := List.length_pos_of_ne_nil hc.hK
  have hD : 0 < e c.box.right - e c.box.left := sub_pos.mpr hb.hlr
  have hT : 0 < e c.box.top - e c.box.bottom := sub_pos.mpr hb.hbt
  have hl1 : 0 < lc e Wd (0+1) := by have := lc_strict hc 0 hK0; rwa [lc_zero hc] at this
  have hmono := ExecGlue.knots_mono (lc e Wd) Wd.length (lc_strict hc)
  have hl1le : lc e Wd (0+1) ≤ 1 := by rw [← lc_last hc]; exact hmono (0+1) _ hK0 le_rfl
  have hbin := QuadWhole.bin_hasDerivAt hc 0 hK0 (nx e c (e c.box.left)) (by rw [nx_left, lc_zero hc])
    (by rw [nx_left]; exact hl1.le)
  have hlin : HasDerivAt (nx e c) (1 / (e c.box.right - e c.box.left)) (e c.box.left) := by
    unfold nx
    simpa using ((hasDerivAt_id (e c.box.left)).sub_const (e c.box.left)).div_const (e c.box.right - e c.box.left)
  have hcmp := ((HasDerivAt.comp (e c.box.left) hbin hlin).mul_const (e c.box.top - e c.box.bottom)).add_const (e c.box.bottom)
  have hx1 : e c.box.left < e c.box.left + (e c.box.right - e c.box.left) * lc e Wd (0+1) :=
    lt_add_of_pos_right _ (mul_pos hD hl1)
  have heq : ∀ z ∈ Set.Icc (e c.box.left) (e c.box.left + (e c.box.right - e c.box.left) * lc e Wd (0+1)),
      valOf (P z) = (binN e c Wd U 0 ∘ nx e c) z * (e c.box.top - e c.box.bottom) + e c.box.bottom := by
    intro z hz
    have hzr : z ≤ e c.box.right := by nlinarith [hz.2]
    rw [gen_val hc hb hP z hz.1 hzr]
    have hn0 : 0 ≤ nx e c z := (nx_mem hb z hz.1 hzr).1
    have hn1 : nx e c z ≤ lc e Wd (0+1) := by
      unfold nx; rw [div_le_iff₀ hD]; linarith [hz.2]
    have := ExecGlue.eqOn_bin (lc e Wd) Wd.length (binN e c Wd U) (GN e c Wd U) (idxN e c Wd) (lc_strict hc)
      (search_spec hc).1 (GN_hF c Wd U) (bin_join hc) 0 hK0 (x := nx e c z) ⟨by rw [lc_zero hc]; exact hn0, hn1⟩
    rw [this]; rfl
  have hev : (fun x => valOf (P x)) =ᶠ[nhdsWithin (e c.box.left) (Set.Ici (e c.box.left))]
      fun z => (binN e c Wd U 0 ∘ nx e c) z * (e c.box.top - e c.box.bottom) + e c.box.bottom :=
    Filter.eventuallyEq_of_mem (Icc_mem_nhdsGE hx1) heq
  refine (hcmp.hasDerivWithinAt.congr_of_eventuallyEq hev (heq _ ⟨le_rfl, hx1.le⟩)).congr_deriv ?_
  rw [gen_ld hc hb hP _ le_rfl hb.hlr.le, hbl, nx_left]
  unfold LdN
  rw [idxN_zero hc, Real.exp_add, Real.exp_log (div_pos hT hD)]
  field_simp

/-- **FINDING, formalised on the whole-line map**: for the executed quadratic tails program with two bins, zero width
    parameters and any interior height parameter `u`, the right derivative at `-B` is `(1 + minH)/2` while the left
    derivative is 1, so (unless `minH = 1`) the map is NOT differentiable at the junction.  quadratic.py's comment "Set
    boundary heights s.t. after normalization they are exactly 1" is false of the code. -/
theorem quad_tails_not_differentiable_left (u : ℝ) (hv : QuadValidT e QC [0, 0] [u]) (hneg : e (-tb) = - e tb)
    (hbl0 : e (boxLog (tbox tb)) = 0) (hmW : e minW = 0) (hmH : e minH ≠ 1) :
    ¬ DifferentiableAt ℝ (wrapVal e tb (quadP e minW minH [0, 0] [u])) (-e tb) := by
  have hw := quad_wrapValid hv hneg
  have hd := quad_hasDerivWithinAt_left (core_of_validT hv) hv.hbox (runsRest_of_validT hv) (quad_hbl hv hbl0)
  have hld : ldOf (quadSpline (NF.realX e) QC [0, 0] [u] false (e (QC).box.left))
      = Real.log ((1 + e minH) / 2) + e (boxLog (QC).box) := tails_ld_left u hv hmW
  have hb0 : e (boxLog (QC).box) = 0 := hbl0
  have hpos : 0 < (1 + e minH) / 2 := by have : 0 ≤ e minH := hv.hmH0; linarith
  rw [hld, hb0, add_zero, Real.exp_log hpos] at hd
  have hd' : HasDerivWithinAt (innerVal tb (quadP e minW minH [0, 0] [u])) ((1 + e minH) / 2)
      (Set.Ici (e (-tb))) (e (-tb)) := hd
  rw [hneg] at hd'
  refine wrap_not_differentiableAt_left hw ((1 + e minH) / 2) ?_ hd'
  intro h
  apply hmH; linarith

end quad


/-! ## instance: the executed CUBIC spline with linear tails (forward)

`elTransform` inlines the wrapper for the cubic family (three outputs); `cubicTails` is that text.  The end derivatives
of the cubic spline are free parameters (`sigmoid(udl)·3·slope₀`), so again only continuity and monotonicity hold at
the junctions. -/

section cubic
open CubicWhole

/-- the text of the tails branch of `elTransform` for the cubic family, any scalar semantics -/
def cubicTails {α : Type} (o : XOps α) (tb minW minH eps thr : Float) (uw uh : List α) (udl udr : α)
    (inverse : Bool) (x : α) : Except Err (α × α × List α) :=
  let B := o.ofFloat tb
  if o.ge x (o.neg B) && o.le x B then
    cubicSpline o { box := ⟨-tb, tb, -tb, tb⟩, minW := minW, minH := minH, eps := eps, thr := thr } uw uh udl udr inverse x
  else .ok (x, o.zero, [])

variable (e : Float → ℝ) (tb minW minH eps thr : Float) (uw uh : List ℝ) (udl udr : ℝ)

def ccfgT : CCfg := { box := tbox tb, minW := minW, minH := minH, eps := eps, thr := thr }

/-- the two outputs of the cubic tails program, forward (0 on the error branch, never taken) -/
def cubicValT (x : ℝ) : ℝ :=
  match cubicTails (NF.realX e) tb minW minH eps thr uw uh udl udr false x with
  | .ok r => r.1
  | .error _ => 0
def cubicLdT (x : ℝ) : ℝ :=
  match cubicTails (NF.realX e) tb minW minH eps thr uw uh udl udr false x with
  | .ok r => r.2.1
  | .error _ => 0

local notation "CC" => ccfgT tb minW minH eps thr
local notation "CV" => cubicValT e tb minW minH eps thr uw uh udl udr
local notation "CL" => cubicLdT e tb minW minH eps thr uw uh udl udr

theorem cubicTails_unfold (inverse : Bool) (x : ℝ) :
    cubicTails (NF.realX e) tb minW minH eps thr uw uh udl udr inverse x
      = if -e tb ≤ x ∧ x ≤ e tb then cubicSpline (NF.realX e) CC uw uh udl udr inverse x else .ok (x, 0, []) := by
  unfold cubicTails
  simp only [XOps.ge, NF.realX_le, NF.realX_neg, NF.realX_ofFloat, Bool.and_eq_true, decide_eq_true_eq, NF.realX_zero]
  rfl

theorem cubicValT_eq_ext : CV = ext (e tb) (CubicWhole.val e CC uw uh udl udr) := by
  funext x
  unfold cubicValT ext CubicWhole.val
  rw [cubicTails_unfold]
  by_cases h : -e tb ≤ x ∧ x ≤ e tb
  · rw [if_pos h, if_pos h]; rfl
  · rw [if_neg h, if_neg h]

theorem cubicLdT_eq (x : ℝ) : CL x = if -e tb ≤ x ∧ x ≤ e tb then CubicWhole.ld e CC uw uh udl udr x else 0 := by
  unfold cubicLdT CubicWhole.ld
  rw [cubicTails_unfold]
  by_cases h : -e tb ≤ x ∧ x ≤ e tb
  · rw [if_pos h, if_pos h]; rfl
  · rw [if_neg h, if_neg h]

variable {e tb minW minH eps thr uw uh udl udr}

theorem cubic_hB (hv : CubicValid e CC uw uh) (hneg : e (-tb) = - e tb) : 0 < e tb := by
  have h : e (-tb) < e tb := hv.hlr
  rw [hneg] at h; linarith

/-- the executed bounded cubic program is a strictly increasing bijection of `[-B, B]` fixing both end-points -/
theorem cubic_boxBij (hv : CubicValid e CC uw uh) (hneg : e (-tb) = - e tb) :
    BoxBij (e tb) (CubicWhole.val e CC uw uh udl udr) := by
  have hm : StrictMonoOn (CubicWhole.val e CC uw uh udl udr) (Set.Icc (e (-tb)) (e tb)) := val_strictMonoOn hv
  have he : CubicWhole.val e CC uw uh udl udr (e (-tb)) = e (-tb) ∧ CubicWhole.val e CC uw uh udl udr (e tb) = e tb :=
    val_endpoints hv
  have hs : Set.SurjOn (CubicWhole.val e CC uw uh udl udr) (Set.Icc (e (-tb)) (e tb)) (Set.Icc (e (-tb)) (e tb)) :=
    (val_bijOn hv).surjOn
  rw [hneg] at hm he hs
  exact ⟨cubic_hB hv hneg, hm, he.1, he.2, hs⟩

/-- **C17 on the whole line** -/
theorem cubic_tails_total (hv : CubicValid e CC uw uh) (hneg : e (-tb) = - e tb) (x : ℝ) :
    cubicTails (NF.realX e) tb minW minH eps thr uw uh udl udr false x = .ok (CV x, CL x, []) := by
  by_cases h : -e tb ≤ x ∧ x ≤ e tb
  · have hx0 : e (-tb) ≤ x := by rw [hneg]; exact h.1
    have := CubicWhole.exec_eq_bin (udl := udl) (udr := udr) hv x hx0 h.2
    unfold cubicValT cubicLdT; rw [cubicTails_unfold, if_pos h, this]
  · unfold cubicValT cubicLdT; rw [cubicTails_unfold, if_neg h]

theorem cubic_outside (x : ℝ) (h : x < -e tb ∨ e tb < x) : CV x = x ∧ CL x = 0 := by
  have hn : ¬ (-e tb ≤ x ∧ x ≤ e tb) := by rintro ⟨h0, h1⟩; rcases h with h | h <;> linarith
  constructor
  · rw [cubicValT_eq_ext]; exact ext_outside x h
  · rw [cubicLdT_eq, if_neg hn]

theorem cubic_inside (x : ℝ) (h0 : -e tb ≤ x) (h1 : x ≤ e tb) :
    CV x = CubicWhole.val e CC uw uh udl udr x ∧ CL x = CubicWhole.ld e CC uw uh udl udr x := by
  constructor
  · rw [cubicValT_eq_ext]; exact ext_inside x h0 h1
  · rw [cubicLdT_eq, if_pos ⟨h0, h1⟩]

/-- **C09 on the whole line** for the cubic tails program: continuous at the junctions, strictly increasing, continuous,
    a bijection of ℝ mapping the box onto itself -/
theorem cubic_tails_whole (hv : CubicValid e CC uw uh) (hneg : e (-tb) = - e tb) :
    CV (-e tb) = -e tb ∧ CV (e tb) = e tb ∧ StrictMono CV ∧ Continuous CV ∧ Function.Bijective CV ∧
    Set.BijOn CV (Set.Icc (-e tb) (e tb)) (Set.Icc (-e tb) (e tb)) := by
  have hb := cubic_boxBij (udl := udl) (udr := udr) hv hneg
  rw [cubicValT_eq_ext]
  exact ⟨ext_left hb, ext_right hb, ext_strictMono hb, ext_continuous hb, ext_bijective hb, ext_bijOn_box hb⟩

/-- **C01 everywhere except the two junctions**: in the tails and at EVERY point of the open box (knots included) -/
theorem cubic_hasDerivAt (hv : CubicValid e CC uw uh) (hneg : e (-tb) = - e tb) (hbl0 : e (boxLog (tbox tb)) = 0)
    (x : ℝ) (hxl : x ≠ -e tb) (hxr : x ≠ e tb) : HasDerivAt CV (Real.exp (CL x)) x := by
  by_cases h : -e tb ≤ x ∧ x ≤ e tb
  · have h0 : -e tb < x := lt_of_le_of_ne h.1 (Ne.symm hxl)
    have h1 : x < e tb := lt_of_le_of_ne h.2 hxr
    have hD : e (CC).box.right - e (CC).box.left ≠ 0 := (sub_pos.mpr hv.hlr).ne'
    have hbl : e (boxLog (CC).box)
        = Real.log ((e (CC).box.top - e (CC).box.bottom) / (e (CC).box.right - e (CC).box.left)) := by
      have h1 : (e (CC).box.top - e (CC).box.bottom) / (e (CC).box.right - e (CC).box.left) = 1 := div_self hD
      rw [h1, Real.log_one]; exact hbl0
    rw [(cubic_inside x h.1 h.2).2, cubicValT_eq_ext]
    refine ext_hasDerivAt_inside _ _ x _ h0 h1 ?_
    exact CubicWhole.val_hasDerivAt_all hv hbl x (by show e (-tb) < x; rw [hneg]; exact h0) h1
  · have ho : x < -e tb ∨ e tb < x := by
      by_contra hc
      exact h ⟨not_lt.mp (fun h' => hc (Or.inl h')), not_lt.mp (fun h' => hc (Or.inr h'))⟩
    rw [(cubic_outside x ho).2, Real.exp_zero, cubicValT_eq_ext]
    exact ext_hasDerivAt_outside _ _ x ho

end cubic

/-! ## what `elTransform` (the per-element dispatcher of the coupling / autoregressive layers) runs when `tails = true` -/

section dispatch
open NF.StructureExec
variable {α : Type}

theorem elTransform_rq_tails (o : XOps α) (c : ElCfg) (hk : c.kind = "rq") (ht : c.tails = true) (inverse : Bool)
    (p : List α) (x : α) :
    elTransform o c inverse p x
      = (rqSplineTails o (c.ds.getD 0 0.0) (c.ds.getD 1 0.0) (c.ds.getD 2 0.0) (c.ds.getD 3 0.0) (c.ds.getD 4 0.0)
          (rqW o c p) (rqH o c p) (rqD c p) inverse x).map (fun ab => (ab.1, ab.2, [])) := by
  unfold elTransform rqW rqH rqD rqScale
  rcases hsc : c.scaling with ⟨hid, sW, sH⟩
  simp only [hk, ht]
  rfl

theorem elTransform_quad_tails (o : XOps α) (c : ElCfg) (hk : c.kind = "quad") (ht : c.tails = true) (inverse : Bool)
    (p : List α) (x : α) :
    elTransform o c inverse p x
      = (tailsWrap o (c.ds.getD 0 0.0) x (fun box => quadSpline o { box := box, minW := c.ds.getD 1 0.0, minH := c.ds.getD 2 0.0 }
          (rqW o c p) (rqScale o c c.scaling.2.2 (p.drop c.K)) inverse x)).map (fun ab => (ab.1, ab.2, [])) := by
  unfold elTransform rqW rqScale
  rcases hsc : c.scaling with ⟨hid, sW, sH⟩
  simp only [hk, ht]
  rfl

theorem elTransform_cubic_tails (o : XOps α) (c : ElCfg) (hk : c.kind = "cubic") (ht : c.tails = true) (inverse : Bool)
    (p : List α) (x : α) :
    elTransform o c inverse p x
      = cubicTails o (c.ds.getD 0 0.0) (c.ds.getD 1 0.0) (c.ds.getD 2 0.0) (c.ds.getD 3 0.0) (c.ds.getD 4 0.0)
          (rqW o c p) (rqH o c p) (p.getD (2 * c.K) o.zero) (p.getD (2 * c.K + 1) o.zero) inverse x := by
  unfold elTransform rqW rqH rqScale cubicTails
  rcases hsc : c.scaling with ⟨hid, sW, sH⟩
  simp only [hk, ht]
  rfl

end dispatch


/-! ## non-vacuity: concrete accepted tails configurations (tail bound 1) with a concrete reading of the doubles

The reading `eW` is five-valued (`0`, `1/2`, `-1`, `2`, else `1`), enough to be exact on every expression the three
structures mention.  `PadExact.hcst` and the `boxLog` hypothesis involve `Float.log` / `Float.exp`, which are opaque to
the kernel, so (as in `QuadWhole.boxLog_example`) they cannot be discharged for a concrete double; they stay hypotheses of
the derivative theorems only. -/

section witness

def eW (f : Float) : ℝ :=
  if f == 0.0 then 0 else if f == 0.5 then 1 / 2 else if f == (-(1.0:Float)) then -1 else if f == 2.0 then 2 else 1

private theorem w1 : ((0.0:Float) == 0.0) = true := by decide +kernel
private theorem w2 : ((0.0:Float) == 0.5) = false := by decide +kernel
private theorem w3 : ((0.0:Float) == (-(1.0:Float))) = false := by decide +kernel
private theorem w4 : ((0.0:Float) == 2.0) = false := by decide +kernel
private theorem w5 : ((1.0:Float) == 0.0) = false := by decide +kernel
private theorem w6 : ((1.0:Float) == 0.5) = false := by decide +kernel
private theorem w7 : ((1.0:Float) == (-(1.0:Float))) = false := by decide +kernel
private theorem w8 : ((1.0:Float) == 2.0) = false := by decide +kernel
private theorem w9 : ((-(1.0:Float)) == 0.0) = false := by decide +kernel
private theorem w10 : ((-(1.0:Float)) == 0.5) = false := by decide +kernel
private theorem w11 : ((-(1.0:Float)) == (-(1.0:Float))) = true := by decide +kernel
private theorem w12 : ((-(1.0:Float)) == 2.0) = false := by decide +kernel
private theorem w13 : (((1.0:Float) - (-(1.0:Float))) == 0.0) = false := by decide +kernel
private theorem w14 : (((1.0:Float) - (-(1.0:Float))) == 0.5) = false := by decide +kernel
private theorem w15 : (((1.0:Float) - (-(1.0:Float))) == (-(1.0:Float))) = false := by decide +kernel
private theorem w16 : (((1.0:Float) - (-(1.0:Float))) == 2.0) = true := by decide +kernel
private theorem w17 : ((1e-6:Float) == 0.0) = false := by decide +kernel
private theorem w18 : ((1e-6:Float) == 0.5) = false := by decide +kernel
private theorem w19 : ((1e-6:Float) == (-(1.0:Float))) = false := by decide +kernel
private theorem w20 : ((1e-6:Float) == 2.0) = false := by decide +kernel
private theorem w21 : ((1e-3:Float) == 0.0) = false := by decide +kernel
private theorem w22 : ((1e-3:Float) == 0.5) = false := by decide +kernel
private theorem w23 : ((1e-3:Float) == (-(1.0:Float))) = false := by decide +kernel
private theorem w24 : ((1e-3:Float) == 2.0) = false := by decide +kernel
private theorem w25 : ((0.5:Float) == 0.0) = false := by decide +kernel
private theorem w26 : ((0.5:Float) == 0.5) = true := by decide +kernel
private theorem w27 : ((0.5:Float) == (-(1.0:Float))) = false := by decide +kernel
private theorem w28 : ((0.5:Float) == 2.0) = false := by decide +kernel
private theorem w29 : (((1:Float) - 0.0 * (1:Nat).toFloat) == 0.0) = false := by decide +kernel
private theorem w30 : (((1:Float) - 0.0 * (1:Nat).toFloat) == 0.5) = false := by decide +kernel
private theorem w31 : (((1:Float) - 0.0 * (1:Nat).toFloat) == (-(1.0:Float))) = false := by decide +kernel
private theorem w32 : (((1:Float) - 0.0 * (1:Nat).toFloat) == 2.0) = false := by decide +kernel
private theorem w33 : (((1:Float) - 0.0 * (2:Nat).toFloat) == 0.0) = false := by decide +kernel
private theorem w34 : (((1:Float) - 0.0 * (2:Nat).toFloat) == 0.5) = false := by decide +kernel
private theorem w35 : (((1:Float) - 0.0 * (2:Nat).toFloat) == (-(1.0:Float))) = false := by decide +kernel
private theorem w36 : (((1:Float) - 0.0 * (2:Nat).toFloat) == 2.0) = false := by decide +kernel
private theorem w37 : (((1:Float) - 0.0) == 0.0) = false := by decide +kernel
private theorem w38 : (((1:Float) - 0.0) == 0.5) = false := by decide +kernel
private theorem w39 : (((1:Float) - 0.0) == (-(1.0:Float))) = false := by decide +kernel
private theorem w40 : (((1:Float) - 0.0) == 2.0) = false := by decide +kernel
attribute [local simp] w1 w2 w3 w4 w5 w6 w7 w8 w9 w10 w11 w12 w13 w14 w15 w16 w17 w18 w19 w20 w21 w22 w23 w24 w25 w26 w27 w28 w29 w30 w31 w32 w33 w34 w35 w36 w37 w38 w39 w40

private theorem wg1 : ¬ ((0.0:Float) * (1:Nat).toFloat > 1.0) := by decide +kernel
private theorem wg2 : ¬ ((0.0:Float) * (2:Nat).toFloat > 1.0) := by decide +kernel

/-- RQ with linear tails: one bin, no interior derivative, tail bound 1 -/
theorem rq_valid_example : RQTailsValid eW 1.0 0.0 0.0 0.0 1.0 [0] [0] [] where
  hK := by simp
  hlenh := rfl
  hlend := rfl
  hgW := wg1
  hgH := wg1
  hmW0 := by simp [eW]
  hcW := by simp [eW]
  hmWK := by simp [eW]
  hmH0 := by simp [eW]
  hcH := by simp [eW]
  hmHK := by simp [eW]
  hB := by simp [eW]
  hneg := by simp [eW]
  hdiff := by simp [eW]; norm_num
  heps := by simp [eW]
  hminD := by simp [eW]
  hbeta := by simp [eW]

/-- the whole-line statements instantiated at the example -/
theorem rq_example_whole :
    StrictMono (valT eW 1.0 0.0 0.0 0.0 1.0 [0] [0] []) ∧ Function.Bijective (valT eW 1.0 0.0 0.0 0.0 1.0 [0] [0] []) ∧
    (∀ x, invT eW 1.0 0.0 0.0 0.0 1.0 [0] [0] [] (valT eW 1.0 0.0 0.0 0.0 1.0 [0] [0] [] x) = x) :=
  ⟨valT_strictMono rq_valid_example, valT_bijective rq_valid_example, invT_valT rq_valid_example⟩

/-- quadratic with linear tails: two bins, one interior height, tail bound 1 -/
theorem quad_valid_example : QuadWhole.QuadValidT eW (qcfgT 1.0 0.0 0.0) [0, 0] [0] where
  huh := by simp
  hlenh := rfl
  hgW := wg2
  hgH := wg2
  hmW0 := by simp [eW, qcfgT]
  hcW := by simp [eW, qcfgT]
  hmWK := by simp [eW, qcfgT]
  hmH0 := by simp [eW, qcfgT]
  hcH := by simp [eW, qcfgT]
  hmH1 := by simp [eW, qcfgT]
  h1e3 := by simp [eW]
  hhalf := by simp [eW]
  hbox := ⟨by simp [eW, qcfgT, tbox], by simp [eW, qcfgT, tbox]; norm_num,
    by simp [eW, qcfgT, tbox], by simp [eW, qcfgT, tbox]; norm_num⟩
  heps := by simp [eW, qcfgT]

theorem eW_neg : eW (-(1.0:Float)) = - eW 1.0 := by simp [eW]

theorem quad_example_whole : WrapValid eW 1.0 (quadP eW 0.0 0.0 [0, 0] [0]) :=
  quad_wrapValid quad_valid_example eW_neg

/-- cubic with linear tails: two bins, tail bound 1 -/
theorem cubic_valid_example : CubicWhole.CubicValid eW (ccfgT 1.0 0.0 0.0 1e-5 1e-3) [0, 0] [0, 0] where
  hK := by simp
  hlenh := rfl
  hgW := wg2
  hgH := wg2
  hmW0 := by simp [eW, ccfgT]
  hcW := by simp [eW, ccfgT]
  hmWK := by simp [eW, ccfgT]
  hmH0 := by simp [eW, ccfgT]
  hcH := by simp [eW, ccfgT]
  hmHK := by simp [eW, ccfgT]
  hlr := by simp [eW, ccfgT, tbox]
  hdlr := by simp [eW, ccfgT, tbox]; norm_num
  hbt := by simp [eW, ccfgT, tbox]
  hdbt := by simp [eW, ccfgT, tbox]; norm_num
  hseps := by simp [eW, ccfgT]
  hhalf := by simp [eW]

theorem cubic_example_whole (udl udr : ℝ) :
    StrictMono (cubicValT eW 1.0 0.0 0.0 1e-5 1e-3 [0, 0] [0, 0] udl udr) ∧
    Function.Bijective (cubicValT eW 1.0 0.0 0.0 1e-5 1e-3 [0, 0] [0, 0] udl udr) :=
  ⟨(cubic_tails_whole cubic_valid_example eW_neg).2.2.1, (cubic_tails_whole cubic_valid_example eW_neg).2.2.2.2.1⟩

/-! the `PadExact` hypothesis jointly with `RQTailsValid`: `Float.log` / `Float.exp` are opaque to the kernel, so the
example is conditional on the seven `Float` comparisons an evaluator confirms (the padding constant `0.5413…` is a
number and differs from `0`, `±1`, `2`, `1e-6`) -/

/-- the padding constant for `min_derivative = 0.0`, as a double -/
def kP : Float := Float.log (Float.exp (1 - (0.0:Float)) - 1)

/-- a reading exact on the padding constant as well -/
def eP (f : Float) : ℝ := if f == kP then Real.log (Real.exp 1 - 1) else eW f

theorem pad_example (hk : (kP == kP) = true) (h0 : ((0.0:Float) == kP) = false) (h1 : ((1.0:Float) == kP) = false)
    (hm1 : ((-(1.0:Float)) == kP) = false) (h2 : (((1.0:Float) - (-(1.0:Float))) == kP) = false)
    (h6 : ((1e-6:Float) == kP) = false) (hc : (((1:Float) - 0.0 * (1:Nat).toFloat) == kP) = false) :
    RQTailsValid eP 1.0 0.0 0.0 0.0 1.0 [0] [0] [] ∧ PadExact eP 0.0 1.0 := by
  have e0 : eP 0.0 = 0 := by simp [eP, eW, h0]
  have e1 : eP 1.0 = 1 := by simp [eP, eW, h1]
  refine ⟨⟨by simp, rfl, rfl, wg1, wg1, ?_, ?_, ?_, ?_, ?_, ?_, ?_, ?_, ?_, ?_, ?_, ?_⟩, ⟨?_, ?_, ?_⟩⟩
  · rw [e0]
  · simp [eP, eW, h0, hc]
  · rw [e0]; simp
  · rw [e0]
  · simp [eP, eW, h0, hc]
  · rw [e0]; simp
  · rw [e1]; norm_num
  · simp [eP, eW, h1, hm1]
  · simp [eP, eW, h1, hm1, h2]; norm_num
  · simp [eP, eW, h6]
  · rw [e0]
  · rw [e1]; norm_num
  · show eP kP = _
    rw [e0]
    simp [eP, hk]
  · rw [e0]; norm_num
  · exact e1

/-- … so, under the same seven comparisons, the executed tails program of the example is differentiable at EVERY real
    point with derivative `exp` of the returned log-abs-det -/
theorem pad_example_C1 (hk : (kP == kP) = true) (h0 : ((0.0:Float) == kP) = false) (h1 : ((1.0:Float) == kP) = false)
    (hm1 : ((-(1.0:Float)) == kP) = false) (h2 : (((1.0:Float) - (-(1.0:Float))) == kP) = false)
    (h6 : ((1e-6:Float) == kP) = false) (hc : (((1:Float) - 0.0 * (1:Nat).toFloat) == kP) = false) (x : ℝ) :
    HasDerivAt (valT eP 1.0 0.0 0.0 0.0 1.0 [0] [0] []) (Real.exp (ldT eP 1.0 0.0 0.0 0.0 1.0 [0] [0] [] x)) x :=
  valT_hasDerivAt_all (pad_example hk h0 h1 hm1 h2 h6 hc).1 (pad_example hk h0 h1 hm1 h2 h6 hc).2 x

/-- the same configuration run with `beta = 0.5` (the situation of `enable_identity_init=True`): the hypotheses of the
    finding `valT_not_differentiableAt_of_beta_lt_one` are jointly satisfiable, and the executed tails program is NOT
    differentiable at the junction `B = 1` -/
theorem beta_example_not_differentiable (hk : (kP == kP) = true) (h0 : ((0.0:Float) == kP) = false)
    (h1 : ((1.0:Float) == kP) = false) (hm1 : ((-(1.0:Float)) == kP) = false)
    (h2 : (((1.0:Float) - (-(1.0:Float))) == kP) = false) (h6 : ((1e-6:Float) == kP) = false)
    (hc : (((1:Float) - 0.0 * (1:Nat).toFloat) == kP) = false) (h5 : ((0.5:Float) == kP) = false) :
    ¬ DifferentiableAt ℝ (valT eP 1.0 0.0 0.0 0.0 0.5 [0] [0] []) (eP 1.0) := by
  have e0 : eP 0.0 = 0 := by simp [eP, eW, h0]
  have e5 : eP 0.5 = 1 / 2 := by simp [eP, eW, h5]
  have hv1 := (pad_example hk h0 h1 hm1 h2 h6 hc).1
  have hp1 := (pad_example hk h0 h1 hm1 h2 h6 hc).2
  have hv : RQTailsValid eP 1.0 0.0 0.0 0.0 0.5 [0] [0] [] :=
    ⟨hv1.hK, hv1.hlenh, hv1.hlend, hv1.hgW, hv1.hgH, hv1.hmW0, hv1.hcW, hv1.hmWK, hv1.hmH0, hv1.hcH, hv1.hmHK,
      hv1.hB, hv1.hneg, hv1.hdiff, hv1.heps, hv1.hminD, by rw [e5]; norm_num⟩
  exact valT_not_differentiableAt_of_beta_lt_one hv hp1.hcst hp1.hminD1 (by rw [e5]; norm_num)

/-- the quadratic finding at the example (conditional on the evaluation `boxLog ⟨-1,1,-1,1⟩ = 0.0` of `Float.log`) -/
theorem quad_example_not_differentiable (h : (boxLog (tbox 1.0) == 0.0) = true) :
    ¬ DifferentiableAt ℝ (wrapVal eW 1.0 (quadP eW 0.0 0.0 [0, 0] [0])) (-eW 1.0) := by
  have hbl0 : eW (boxLog (tbox 1.0)) = 0 := by unfold eW; rw [if_pos h]
  refine quad_tails_not_differentiable_left 0 quad_valid_example eW_neg hbl0 (by simp [eW]) ?_
  simp [eW]

end witness

end
end TailsWhole
