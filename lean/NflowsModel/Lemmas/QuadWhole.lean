import NflowsModel.Lemmas.SplineTotal
import NflowsModel.Lemmas.ExecGlue
import NflowsModel.Real.Bridge
import NflowsModel.Lemmas.Quad
import Mathlib.Topology.Order.IntermediateValue
/-!
# Lemmas/QuadWhole — the EXECUTED piecewise-quadratic spline (forward) as a function on the whole box, over the reals

`quadSpline (NF.realX e) c uw uh false` is the list program the driver runs at `Float`/`Float32`, instantiated at ℝ.
Both shapes of `uh` are covered:

* **bounded** (`uh.length = uw.length + 1`, bundle `QuadValid`): the branch `if uhe.length + 1 == K` is NOT taken;
* **tails** (`uh.length + 1 = uw.length`, `K ≥ 2`, bundle `QuadValidT`): the branch IS taken, the unnormalised heights are
  padded with the constant the code computes (`cstT`, shown positive), then the same second stage runs.

The program is split as guards → `padU` → `quadRest` (`quadSpline_split`, any scalar type, by unfolding only).  About
`quadRest` on positive widths summing to one and positive unnormalised heights (`CoreValid`) the file proves, on the lists
the program itself builds (floored softmax, softplus + 1e-3, trapezium areas, floor of the heights, cumsum, pinned last
knots, search, gathers, closed form, clamp):

* normalisation: heights positive, every trapezium area positive, total area EXACTLY 1 (`ars_sum`: the floor
  `minH + (1-minH)·u/area` preserves it because the widths sum to 1), so both `setLast … 1` change nothing (`blc_eq`,
  `locs_eq`);
* totality and closed form of the searched bin (`rest_eq_bin`); the clamp to `[0,1]` is the identity there (`bin_mem_unit`);
* the normalised cdf `GN` is strictly increasing on `[0,1]`, `0 ↦ 0`, `1 ↦ 1`, derivative `exp LdN` inside every open bin.

These lift to the program in box coordinates (`exec_eq_bin`, `val_strictMonoOn`, `val_endpoints`, `val_mapsTo`,
`val_hasDerivAt`, and the `_T` twins).  A finding about the tails padding is at `tails_boundary_height_not_one`.

(The per-bin statements `Properties.C01.quad_executed_logdet`, `Properties.C09.quad_pdf_pos` are re-derived here from
`Lemmas/Quad` instead of imported, so that `Properties/*` can import this file without a cycle.)
-/
open NF DualSound

namespace QuadWhole
noncomputable section
variable (e : Float → ℝ)

/-! ### list facts: `pairMeans`, `0 :: cumsum`, weighted sums -/

theorem pairMeans_length (l : List ℝ) : (pairMeans (NF.realX e) l).length = l.length - 1 := by
  induction l with
  | nil => simp [pairMeans]
  | cons a t ih =>
    cases t with
    | nil => simp [pairMeans]
    | cons b r => simp [pairMeans] at ih ⊢; omega

theorem pairMeans_getD (l : List ℝ) (k : ℕ) (h : k + 1 < l.length) :
    (pairMeans (NF.realX e) l).getD k 0 = (l.getD k 0 + l.getD (k+1) 0) / 2 := by
  induction l generalizing k with
  | nil => simp at h
  | cons a t ih =>
    cases t with
    | nil => simp at h
    | cons b r =>
      cases k with
      | zero => simp [pairMeans]
      | succ j =>
        have := ih j (by simpa using h)
        simpa [pairMeans] using this

theorem pairMeans_pos (l : List ℝ) (hl : ∀ x ∈ l, 0 < x) : ∀ y ∈ pairMeans (NF.realX e) l, 0 < y := by
  induction l with
  | nil => simp [pairMeans]
  | cons a t ih =>
    cases t with
    | nil => simp [pairMeans]
    | cons b r =>
      intro y hy
      simp only [pairMeans, List.mem_cons] at hy
      rcases hy with rfl | hy
      · have ha := hl a (by simp)
        have hb := hl b (by simp)
        simp only [NF.realX_div, NF.realX_add, NF.realX_two]
        positivity
      · exact ih (fun x hx => hl x (List.mem_cons_of_mem _ hx)) y hy

/-- the pair-mean of an affine image is the affine image of the pair-mean -/
theorem pairMeans_map_affine (a b : ℝ) (l : List ℝ) :
    pairMeans (NF.realX e) (l.map (fun u => a + b * u)) = (pairMeans (NF.realX e) l).map (fun p => a + b * p) := by
  induction l with
  | nil => simp [pairMeans]
  | cons x t ih =>
    cases t with
    | nil => simp [pairMeans]
    | cons y r =>
      simp only [List.map_cons, pairMeans] at ih ⊢
      rw [ih]
      simp only [NF.realX_div, NF.realX_add, NF.realX_two, List.cons.injEq, and_true]
      ring

theorem zipMul_pos (p w : List ℝ) (hp : ∀ x ∈ p, 0 < x) (hw : ∀ x ∈ w, 0 < x) :
    ∀ y ∈ List.zipWith (NF.realX e).mul p w, 0 < y := by
  induction p generalizing w with
  | nil => simp
  | cons a t ih =>
    cases w with
    | nil => simp
    | cons b r =>
      intro y hy
      simp only [List.zipWith_cons_cons, List.mem_cons] at hy
      rcases hy with rfl | hy
      · exact mul_pos (hp a (by simp)) (hw b (by simp))
      · exact ih r (fun x hx => hp x (List.mem_cons_of_mem _ hx)) (fun x hx => hw x (List.mem_cons_of_mem _ hx)) y hy

/-- `Σ (a + b p_k) w_k = a Σ w_k + b Σ p_k w_k` for lists of equal length -/
theorem zipMul_affine_sum (a b : ℝ) (p w : List ℝ) (hlen : p.length = w.length) :
    (List.zipWith (NF.realX e).mul (p.map (fun t => a + b * t)) w).sum
      = a * w.sum + b * (List.zipWith (NF.realX e).mul p w).sum := by
  induction p generalizing w with
  | nil =>
    cases w with
    | nil => simp
    | cons _ _ => simp at hlen
  | cons x t ih =>
    cases w with
    | nil => simp at hlen
    | cons y r =>
      have := ih r (by simpa using hlen)
      simp only [List.map_cons, List.zipWith_cons_cons, List.sum_cons, NF.realX_mul] at this ⊢
      rw [this]; ring

theorem pos_sum_pos (l : List ℝ) (hne : l ≠ []) (hl : ∀ x ∈ l, 0 < x) : 0 < l.sum := by
  cases l with
  | nil => exact absurd rfl hne
  | cons y ys =>
    simp only [List.sum_cons]
    have : 0 ≤ ys.sum := List.sum_nonneg (fun z hz => (hl z (List.mem_cons_of_mem _ hz)).le)
    linarith [hl y List.mem_cons_self]

/-- entries of `0 :: cumsum l` are the partial sums -/
theorem zcum_getD (l : List ℝ) (k : ℕ) (hk : k ≤ l.length) :
    ((0:ℝ) :: cumsumG (NF.realX e) l).getD k 0 = (l.take k).sum := by
  cases k with
  | zero => simp
  | succ j =>
    rw [List.getD_cons_succ, SplineExec.cumsumG_eq]
    have hj : j < l.length := hk
    simp [List.getD, hj]

theorem zcum_step (l : List ℝ) (k : ℕ) (hk : k < l.length) :
    ((0:ℝ) :: cumsumG (NF.realX e) l).getD (k+1) 0 = ((0:ℝ) :: cumsumG (NF.realX e) l).getD k 0 + l.getD k 0 := by
  rw [zcum_getD e l (k+1) hk, zcum_getD e l k hk.le, List.sum_take_succ l k hk]
  simp [List.getD, hk]

theorem zipMul_getD (p w : List ℝ) (k : ℕ) (hp : k < p.length) (hw : k < w.length) :
    (List.zipWith (NF.realX e).mul p w).getD k 0 = p.getD k 0 * w.getD k 0 := by
  simp [List.getD, hp, hw]

theorem clamp01_id (y : ℝ) (h0 : 0 ≤ y) (h1 : y ≤ 1) : (NF.realX e).clamp (NF.realX e).zero (NF.realX e).one y = y := by
  simp only [XOps.clamp, XOps.minA, XOps.maxA, NF.realX_lt, NF.realX_zero, NF.realX_one]
  have hn : ¬ (y < 0) := not_lt.mpr h0
  simp only [hn, decide_false, Bool.false_eq_true, if_false]
  have hn1 : ¬ (1 < y) := not_lt.mpr h1
  simp [hn1]

/-! ### the program after the (optional) tails padding of the unnormalised heights, forward direction -/

/-- the text of `quadSpline` from `area` on (forward branch), as a function of the widths, the (padded) unnormalised
    heights and the normalised input -/
def quadRest {α : Type} (o : XOps α) (c : QCfg) (widths uhe : List α) (x' : α) : Except Err (α × α) := do
  let area := sumG o (List.zipWith o.mul (pairMeans o uhe) widths)
  let heights := uhe.map (fun u => o.add (o.ofFloat c.minH) (o.mul (o.ofFloat (1 - c.minH)) (o.div u area)))
  let blc := cumsumG o (List.zipWith o.mul (pairMeans o heights) widths)
  let blc := o.zero :: setLast blc o.one
  let locs := o.zero :: setLast (cumsumG o widths) o.one
  let idx := searchsortedG o c.eps locs x'
  let loc ← getI locs idx
  let w ← getI widths idx
  let lcdf ← getI blc idx
  let hl ← getI heights idx
  let hr ← getI heights (idx + 1)
  let env := [x', loc, w, lcdf, hl, hr]
  let bl := o.ofFloat (boxLog c.box)
  let out := o.clamp o.zero o.one (evalX o env quadFwdE)
  let ld := evalX o env quadFwdLdE
  return (o.add (o.mul out (o.ofFloat (c.box.top - c.box.bottom))) (o.ofFloat c.box.bottom), o.add ld bl)

/-- **bounded case** (`uh` has `K+1` entries): the tails padding is not executed and the program is `quadRest` on the
    floored-softmax widths and `softplus(u)+1e-3` -/
theorem quadSpline_bounded {α : Type} (o : XOps α) (c : QCfg) (uw uh : List α) (x : α)
    (hg : (o.lt x (o.ofFloat c.box.left) || o.lt (o.ofFloat c.box.right) x) = false)
    (hgW : ¬ (c.minW * uw.length.toFloat > 1.0)) (hgH : ¬ (c.minH * uw.length.toFloat > 1.0))
    (hlen : uh.length + 1 ≠ uw.length) :
    quadSpline o c uw uh false x
      = quadRest o c (flooredSoftmax o c.minW uw) (uh.map (fun u => o.add (o.softplus u) (o.ofFloat 1e-3)))
          (o.div (o.sub x (o.ofFloat c.box.left)) (o.ofFloat (c.box.right - c.box.left))) := by
  have hb : (uh.length + 1 == uw.length) = false := by simpa using hlen
  unfold quadSpline quadRest
  simp only [Bool.false_eq_true, if_false, hg, hgW, hgH, List.length_map, hb]
  rfl

/-! ### the lists the program builds, and what is true of them -/

/-- what the second stage needs of the widths `Wd` and the (padded) unnormalised heights `U` -/
structure CoreValid (c : QCfg) (Wd U : List ℝ) : Prop where
  hK : Wd ≠ []
  hlenU : U.length = Wd.length + 1
  hWpos : ∀ w ∈ Wd, 0 < w
  hWsum : Wd.sum = 1
  hUpos : ∀ u ∈ U, 0 < u
  hmH0 : 0 ≤ e c.minH
  hcH : e (1 - c.minH) = 1 - e c.minH
  hmH1 : e c.minH ≤ 1
  heps : 0 < e c.eps

def area (Wd U : List ℝ) : ℝ := sumG (NF.realX e) (List.zipWith (NF.realX e).mul (pairMeans (NF.realX e) U) Wd)
def hts (c : QCfg) (Wd U : List ℝ) : List ℝ :=
  U.map (fun u => (NF.realX e).add ((NF.realX e).ofFloat c.minH)
    ((NF.realX e).mul ((NF.realX e).ofFloat (1 - c.minH)) ((NF.realX e).div u (area e Wd U))))
/-- areas of the trapezia under the normalised piecewise-linear density -/
def ars (c : QCfg) (Wd U : List ℝ) : List ℝ :=
  List.zipWith (NF.realX e).mul (pairMeans (NF.realX e) (hts e c Wd U)) Wd
def blc (c : QCfg) (Wd U : List ℝ) : List ℝ :=
  (NF.realX e).zero :: setLast (cumsumG (NF.realX e) (ars e c Wd U)) (NF.realX e).one
def locs (Wd : List ℝ) : List ℝ := (NF.realX e).zero :: setLast (cumsumG (NF.realX e) Wd) (NF.realX e).one

variable {e}
variable {c : QCfg} {Wd U : List ℝ}

theorem pm_length (hv : CoreValid e c Wd U) : (pairMeans (NF.realX e) U).length = Wd.length := by
  rw [pairMeans_length, hv.hlenU]; omega

theorem area_pos (hv : CoreValid e c Wd U) : 0 < area e Wd U := by
  unfold area
  rw [SplineExec.sumG_eq]
  apply pos_sum_pos
  · intro h
    have := congrArg List.length h
    simp only [List.length_zipWith, pm_length hv, List.length_nil, min_self] at this
    exact hv.hK (List.length_eq_zero_iff.mp this)
  · exact zipMul_pos e _ _ (pairMeans_pos e U hv.hUpos) hv.hWpos

theorem hts_eq (hv : CoreValid e c Wd U) :
    hts e c Wd U = U.map (fun u => e c.minH + ((1 - e c.minH) / area e Wd U) * u) := by
  unfold hts
  apply List.map_congr_left
  intro u _
  simp only [NF.realX_add, NF.realX_ofFloat, NF.realX_mul, NF.realX_div, hv.hcH]
  ring

theorem hts_length (hv : CoreValid e c Wd U) : (hts e c Wd U).length = Wd.length + 1 := by
  simp [hts, hv.hlenU]

/-- **normalised heights are positive** -/
theorem hts_pos (hv : CoreValid e c Wd U) : ∀ h ∈ hts e c Wd U, 0 < h := by
  intro h hh
  rw [hts_eq hv] at hh
  simp only [List.mem_map] at hh
  obtain ⟨u, hu, rfl⟩ := hh
  have hup := hv.hUpos u hu
  have ha := area_pos hv
  have hm0 := hv.hmH0
  have hm1 := hv.hmH1
  rcases eq_or_lt_of_le hm1 with h1 | h1
  · rw [h1]; simp
  · have : 0 < (1 - e c.minH) / area e Wd U * u := by
      apply mul_pos (div_pos (by linarith) ha) hup
    linarith

theorem ars_length (hv : CoreValid e c Wd U) : (ars e c Wd U).length = Wd.length := by
  simp [ars, pairMeans_length, hts_length hv]

theorem ars_pos (hv : CoreValid e c Wd U) : ∀ a ∈ ars e c Wd U, 0 < a :=
  zipMul_pos e _ _ (pairMeans_pos e _ (hts_pos hv)) hv.hWpos

/-- **the total area under the normalised piecewise-linear density is exactly 1** (over the reals): the floor
    `minH + (1-minH)·u/area` keeps the normalisation because the widths sum to one -/
theorem ars_sum (hv : CoreValid e c Wd U) : (ars e c Wd U).sum = 1 := by
  unfold ars
  rw [hts_eq hv, pairMeans_map_affine, zipMul_affine_sum e _ _ _ _ (pm_length hv), hv.hWsum]
  have ha := area_pos hv
  have : (List.zipWith (NF.realX e).mul (pairMeans (NF.realX e) U) Wd).sum = area e Wd U := by
    unfold area; rw [SplineExec.sumG_eq]
  rw [this]
  field_simp
  ring

theorem ars_ne (hv : CoreValid e c Wd U) : ars e c Wd U ≠ [] := by
  intro h
  have := ars_length hv
  rw [h] at this
  exact hv.hK (List.length_eq_zero_iff.mp this.symm)

/-- the last cumulative area is 1, so **pinning the last cdf knot to 1 changes nothing** -/
theorem blc_eq (hv : CoreValid e c Wd U) : blc e c Wd U = 0 :: cumsumG (NF.realX e) (ars e c Wd U) := by
  unfold blc
  have hl := SplineExec.cumsumG_last e (ars e c Wd U) (ars_ne hv)
  rw [ars_sum hv] at hl
  rw [NF.realX_zero, NF.realX_one, SplineExec.setLast_of_getLast _ _ hl]

theorem locs_eq (hv : CoreValid e c Wd U) : locs e Wd = 0 :: cumsumG (NF.realX e) Wd := by
  unfold locs
  have hl := SplineExec.cumsumG_last e Wd hv.hK
  rw [hv.hWsum] at hl
  rw [NF.realX_zero, NF.realX_one, SplineExec.setLast_of_getLast _ _ hl]

theorem locs_facts (hv : CoreValid e c Wd U) :
    (locs e Wd).length = Wd.length + 1 ∧ (locs e Wd).head? = some 0 ∧
    (locs e Wd).getLast? = some 1 ∧ (locs e Wd).Pairwise (· < ·) := by
  have := SplineExec.unitKnots_valid e Wd hv.hK hv.hWpos hv.hWsum
  simpa [locs] using this

theorem blc_facts (hv : CoreValid e c Wd U) :
    (blc e c Wd U).length = Wd.length + 1 ∧ (blc e c Wd U).head? = some 0 ∧
    (blc e c Wd U).getLast? = some 1 ∧ (blc e c Wd U).Pairwise (· < ·) := by
  have := SplineExec.unitKnots_valid e (ars e c Wd U) (ars_ne hv) (ars_pos hv) (ars_sum hv)
  rw [ars_length hv] at this
  simpa [blc] using this

/-! ### knots and per-bin closed forms, normalised coordinates -/

variable (e)
def lc (Wd : List ℝ) (k : ℕ) : ℝ := (locs e Wd).getD k 0
def wd (Wd : List ℝ) (k : ℕ) : ℝ := Wd.getD k 0
def bl (c : QCfg) (Wd U : List ℝ) (k : ℕ) : ℝ := (blc e c Wd U).getD k 0
def ht (c : QCfg) (Wd U : List ℝ) (k : ℕ) : ℝ := (hts e c Wd U).getD k 0

/-- the bin index the executed search returns on the normalised input `t` -/
def idxN (c : QCfg) (Wd : List ℝ) (t : ℝ) : ℕ := (searchsortedG (NF.realX e) c.eps (locs e Wd) t).toNat

def envN (c : QCfg) (Wd U : List ℝ) (k : ℕ) (t : ℝ) : ℕ → ℝ :=
  Bridge.qEnv t (lc e Wd k) (wd Wd k) (bl e c Wd U k) (ht e c Wd U k) (ht e c Wd U (k+1))

/-- closed forms of bin `k` in normalised coordinates: cdf value and log-density -/
def binN (c : QCfg) (Wd U : List ℝ) (k : ℕ) (t : ℝ) : ℝ := evalR (envN e c Wd U k t) quadFwdE
def binLdN (c : QCfg) (Wd U : List ℝ) (k : ℕ) (t : ℝ) : ℝ := evalR (envN e c Wd U k t) quadFwdLdE
variable {e}

theorem getElem_eq_getD (l : List ℝ) (i : ℕ) (h : i < l.length) : l[i] = l.getD i 0 := by
  simp [List.getD, h]

theorem pairwise_getD_lt (l : List ℝ) (hp : l.Pairwise (· < ·)) (k : ℕ) (hk : k + 1 < l.length) :
    l.getD k 0 < l.getD (k+1) 0 := by
  have h1 : k < l.length := by omega
  rw [← getElem_eq_getD l k h1, ← getElem_eq_getD l (k+1) hk]
  exact List.pairwise_iff_getElem.mp hp k (k+1) h1 hk (by omega)

theorem head_getD (l : List ℝ) (a : ℝ) (h : l.head? = some a) : l.getD 0 0 = a := by
  cases l with
  | nil => simp at h
  | cons b t => simp at h; simp [h]

theorem last_getD (l : List ℝ) (a : ℝ) (n : ℕ) (hl : l.length = n + 1) (h : l.getLast? = some a) : l.getD n 0 = a := by
  rcases List.getLast?_eq_some_iff.mp h with ⟨ys, rfl⟩
  have : ys.length = n := by simpa using hl
  subst this
  simp [List.getD]

theorem lc_strict (hv : CoreValid e c Wd U) : ∀ k < Wd.length, lc e Wd k < lc e Wd (k+1) := by
  intro k hk
  obtain ⟨hlen, _, _, hp⟩ := locs_facts hv
  exact pairwise_getD_lt _ hp k (by omega)
theorem bl_strict (hv : CoreValid e c Wd U) : ∀ k < Wd.length, bl e c Wd U k < bl e c Wd U (k+1) := by
  intro k hk
  obtain ⟨hlen, _, _, hp⟩ := blc_facts hv
  exact pairwise_getD_lt _ hp k (by omega)
theorem lc_zero (hv : CoreValid e c Wd U) : lc e Wd 0 = 0 := head_getD _ _ (locs_facts hv).2.1
theorem lc_last (hv : CoreValid e c Wd U) : lc e Wd Wd.length = 1 := last_getD _ _ _ (locs_facts hv).1 (locs_facts hv).2.2.1
theorem bl_zero (hv : CoreValid e c Wd U) : bl e c Wd U 0 = 0 := head_getD _ _ (blc_facts hv).2.1
theorem bl_last (hv : CoreValid e c Wd U) : bl e c Wd U Wd.length = 1 :=
  last_getD _ _ _ (blc_facts hv).1 (blc_facts hv).2.2.1

theorem wd_pos (hv : CoreValid e c Wd U) : ∀ k < Wd.length, 0 < wd Wd k := by
  intro k hk
  unfold wd
  rw [← getElem_eq_getD _ k hk]
  exact hv.hWpos _ (List.getElem_mem hk)

theorem ht_pos (hv : CoreValid e c Wd U) : ∀ k < Wd.length + 1, 0 < ht e c Wd U k := by
  intro k hk
  unfold ht
  have hk' : k < (hts e c Wd U).length := by rw [hts_length hv]; exact hk
  rw [← getElem_eq_getD _ k hk']
  exact hts_pos hv _ (List.getElem_mem hk')

/-- consecutive location knots differ by the bin width -/
theorem lc_step (hv : CoreValid e c Wd U) : ∀ k < Wd.length, lc e Wd (k+1) = lc e Wd k + wd Wd k := by
  intro k hk
  unfold lc wd
  rw [locs_eq hv]
  exact zcum_step e Wd k hk

/-- consecutive cdf knots differ by the area of the trapezium -/
theorem bl_step (hv : CoreValid e c Wd U) : ∀ k < Wd.length,
    bl e c Wd U (k+1) = bl e c Wd U k + (ht e c Wd U k + ht e c Wd U (k+1)) / 2 * wd Wd k := by
  intro k hk
  unfold bl
  rw [blc_eq hv, zcum_step e _ k (by rw [ars_length hv]; exact hk)]
  congr 1
  unfold ars
  rw [zipMul_getD e _ _ k (by rw [pairMeans_length, hts_length hv]; omega) hk,
    pairMeans_getD e _ k (by rw [hts_length hv]; omega)]
  rfl

/-- the executed search meets the search specification on the executed location knots -/
theorem search_spec (hv : CoreValid e c Wd U) :
    ExecGlue.SearchSpec (lc e Wd) Wd.length (idxN e c Wd) ∧
    ∀ t, 0 ≤ t → t ≤ 1 → searchsortedG (NF.realX e) c.eps (locs e Wd) t = ((idxN e c Wd t : ℕ) : Int) := by
  obtain ⟨hlen, hhead, hlast, hp⟩ := locs_facts hv
  obtain ⟨init, hsplit⟩ : ∃ init, locs e Wd = init ++ [1] := by
    rcases List.getLast?_eq_some_iff.mp hlast with ⟨ys, hys⟩
    exact ⟨ys, hys⟩
  have hinitlen : init.length = Wd.length := by
    have := congrArg List.length hsplit; simp [hlen] at this; omega
  have hK0 : 0 < Wd.length := List.length_pos_of_ne_nil hv.hK
  have hinithead : init.head? = some 0 := by
    cases init with
    | nil => simp at hinitlen; omega
    | cons a t => rw [hsplit] at hhead; simpa using hhead
  have hb : (1:ℝ) < NF.TU.bumpedLast (NF.realX e) c.eps 1 := by
    simp only [NF.TU.bumpedLast, XOps.maxA, NF.realX_add, NF.realX_ofFloat, NF.realX_lt]
    have : (NF.realX e).nextUp (1:ℝ) = 1 := rfl
    rw [this]
    have hnot : ¬ (1 + e c.eps < 1) := by linarith [hv.heps]
    simp only [hnot, decide_false, Bool.false_eq_true, if_false]
    linarith [hv.heps]
  have key : ∀ t, 0 ≤ t → t ≤ 1 →
      ∃ i : ℕ, searchsortedG (NF.realX e) c.eps (locs e Wd) t = (i : Int) ∧ i < Wd.length ∧
        lc e Wd i ≤ t ∧ (t < lc e Wd (i+1) ∨ (i + 1 = Wd.length ∧ t = 1)) := by
    intro t ht0 ht1
    obtain ⟨i, hi, hiK, lo, hi', hlo, hhi, hle, hr⟩ :=
      Properties.C20.searchsorted_spec (NF.realX e) (SplineTotal.realX_ordered' e) c.eps init 1 t
        (by rw [← hsplit]; exact hp) hb 0 hinithead ht0 ht1
    rw [← hsplit] at hi hlo hhi
    rw [hinitlen] at hiK hr
    refine ⟨i, hi, hiK, ?_, ?_⟩
    · have : lc e Wd i = lo := by
        unfold lc; rw [List.getD_eq_getElem?_getD, hlo]; rfl
      rw [this]; exact hle
    · have : lc e Wd (i+1) = hi' := by
        unfold lc; rw [List.getD_eq_getElem?_getD, hhi]; rfl
      rw [this]; exact hr
  constructor
  · intro t ht0 ht1
    rw [lc_zero hv] at ht0
    rw [lc_last hv] at ht1
    obtain ⟨i, hi, hiK, hle, hr⟩ := key t ht0 ht1
    have hidx : idxN e c Wd t = i := by unfold idxN; rw [hi]; rfl
    rw [hidx, lc_last hv]
    exact ⟨hiK, hle, hr⟩
  · intro t ht0 ht1
    obtain ⟨i, hi, _⟩ := key t ht0 ht1
    have hidx : idxN e c Wd t = i := by unfold idxN; rw [hi]; rfl
    rw [hidx, hi]

/-! ### one bin -/

theorem binN_eq (k : ℕ) (t : ℝ) :
    binN e c Wd U k t = Quad.cdf (ht e c Wd U k) (ht e c Wd U (k+1)) (wd Wd k) (bl e c Wd U k) ((t - lc e Wd k) / wd Wd k) := by
  unfold binN envN; rw [Bridge.quadFwdE_eq]

theorem binLdN_eq (k : ℕ) (t : ℝ) :
    binLdN e c Wd U k t = Real.log (Quad.pdf (ht e c Wd U k) (ht e c Wd U (k+1)) ((t - lc e Wd k) / wd Wd k)) := by
  unfold binLdN envN; rw [Bridge.quadFwdLdE_eq]

/-- the bin's cdf is strictly increasing in the relative position on `[0,1]` -/
theorem cdf_strictMonoOn {hl hr w c0 : ℝ} (hw : 0 < w) (h0 : 0 < hl) (h1 : 0 < hr) :
    StrictMonoOn (Quad.cdf hl hr w c0) (Set.Icc 0 1) := by
  intro a ha b hb hab
  have hmid : 0 < Quad.pdf hl hr ((a + b) / 2) :=
    Quad.pdf_pos h0 h1 (by linarith [ha.1, hb.1]) (by linarith [ha.2, hb.2])
  have hdiff : Quad.cdf hl hr w c0 b - Quad.cdf hl hr w c0 a = (b - a) * w * Quad.pdf hl hr ((a + b) / 2) := by
    unfold Quad.cdf Quad.pdf; ring
  have : 0 < (b - a) * w * Quad.pdf hl hr ((a + b) / 2) := mul_pos (mul_pos (sub_pos.mpr hab) hw) hmid
  linarith

theorem bin_strictMonoOn (hv : CoreValid e c Wd U) (k : ℕ) (hk : k < Wd.length) :
    StrictMonoOn (binN e c Wd U k) (Set.Icc (lc e Wd k) (lc e Wd (k+1))) := by
  have hw := wd_pos hv k hk
  have hstep := lc_step hv k hk
  have hmono := cdf_strictMonoOn (c0 := bl e c Wd U k) hw (ht_pos hv k (by omega)) (ht_pos hv (k+1) (by omega))
  intro a ha b hb hab
  rw [binN_eq, binN_eq]
  rw [hstep] at ha hb
  apply hmono
  · exact ⟨div_nonneg (by linarith [ha.1]) hw.le, by rw [div_le_one hw]; linarith [ha.2]⟩
  · exact ⟨div_nonneg (by linarith [hb.1]) hw.le, by rw [div_le_one hw]; linarith [hb.2]⟩
  · exact div_lt_div_of_pos_right (by linarith) hw

theorem bin_endpoints (hv : CoreValid e c Wd U) (k : ℕ) (hk : k < Wd.length) :
    binN e c Wd U k (lc e Wd k) = bl e c Wd U k ∧ binN e c Wd U k (lc e Wd (k+1)) = bl e c Wd U (k+1) := by
  have hw := wd_pos hv k hk
  constructor
  · rw [binN_eq, sub_self, zero_div, Quad.cdf_left]
  · rw [binN_eq, lc_step hv k hk, bl_step hv k hk]
    have : (lc e Wd k + wd Wd k - lc e Wd k) / wd Wd k = 1 := by
      rw [add_sub_cancel_left]; exact div_self hw.ne'
    rw [this, Quad.cdf_right]; ring

theorem bin_join (hv : CoreValid e c Wd U) (k : ℕ) (hk : k + 1 < Wd.length) :
    binN e c Wd U k (lc e Wd (k+1)) = binN e c Wd U (k+1) (lc e Wd (k+1)) := by
  rw [(bin_endpoints hv k (by omega)).2, (bin_endpoints hv (k+1) hk).1]

/-- on its closed bin the bin's cdf lies between the two cdf knots, hence in `[0,1]`: **the clamp is the identity** -/
theorem bin_mem_unit (hv : CoreValid e c Wd U) (k : ℕ) (hk : k < Wd.length) (t : ℝ)
    (h0 : lc e Wd k ≤ t) (h1 : t ≤ lc e Wd (k+1)) : 0 ≤ binN e c Wd U k t ∧ binN e c Wd U k t ≤ 1 := by
  have hm := (bin_strictMonoOn hv k hk).monotoneOn
  have hlk := (lc_strict hv k hk).le
  obtain ⟨he0, he1⟩ := bin_endpoints hv k hk
  have hbm := ExecGlue.knots_mono (bl e c Wd U) Wd.length (bl_strict hv)
  have hb0 : 0 ≤ bl e c Wd U k := by rw [← bl_zero hv]; exact hbm 0 k (Nat.zero_le _) hk.le
  have hb1 : bl e c Wd U (k+1) ≤ 1 := by rw [← bl_last hv]; exact hbm (k+1) Wd.length hk le_rfl
  constructor
  · have := hm ⟨le_rfl, hlk⟩ ⟨h0, h1⟩ h0
    rw [he0] at this; linarith
  · have := hm ⟨h0, h1⟩ ⟨hlk, le_rfl⟩ h1
    rw [he1] at this; linarith

theorem evalX_eq_evalR (l : List ℝ) (E : Expr) : evalX (NF.realX e) l E = evalR (envOf l 0) E := by
  unfold evalX
  rw [NF.realX_zero]
  rfl

/-- **the second stage returns the closed form of the searched bin** (no clamp: its argument is in `[0,1]`) -/
theorem rest_eq_bin (hv : CoreValid e c Wd U) (hdbt : e (c.box.top - c.box.bottom) = e c.box.top - e c.box.bottom)
    (t : ℝ) (ht0 : 0 ≤ t) (ht1 : t ≤ 1) :
    quadRest (NF.realX e) c Wd U t
      = .ok (binN e c Wd U (idxN e c Wd t) t * (e c.box.top - e c.box.bottom) + e c.box.bottom,
             binLdN e c Wd U (idxN e c Wd t) t + e (boxLog c.box)) := by
  obtain ⟨hspec, hsearch⟩ := search_spec hv
  have ht0' : lc e Wd 0 ≤ t := by rw [lc_zero hv]; exact ht0
  have ht1' : t ≤ lc e Wd Wd.length := by rw [lc_last hv]; exact ht1
  obtain ⟨hiK, hle, hr⟩ := hspec t ht0' ht1'
  set i := idxN e c Wd t with hi
  have hle1 : t ≤ lc e Wd (i+1) := by
    rcases hr with hr | ⟨hiK', htl⟩
    · exact hr.le
    · rw [hiK', htl]
  obtain ⟨hu0, hu1⟩ := bin_mem_unit hv i hiK t hle hle1
  have hloclen := (locs_facts hv).1
  have hblclen := (blc_facts hv).1
  have hhtslen := hts_length hv
  have hi1 : ((i : Int) + 1) = ((i + 1 : ℕ) : Int) := by push_cast; rfl
  have h1 : (NF.realX e).zero :: setLast (cumsumG (NF.realX e) Wd) (NF.realX e).one = locs e Wd := rfl
  have h2 : sumG (NF.realX e) (List.zipWith (NF.realX e).mul (pairMeans (NF.realX e) U) Wd) = area e Wd U := rfl
  have h3 : U.map (fun u => (NF.realX e).add ((NF.realX e).ofFloat c.minH)
      ((NF.realX e).mul ((NF.realX e).ofFloat (1 - c.minH)) ((NF.realX e).div u (area e Wd U)))) = hts e c Wd U := rfl
  have h4 : (NF.realX e).zero :: setLast (cumsumG (NF.realX e)
      (List.zipWith (NF.realX e).mul (pairMeans (NF.realX e) (hts e c Wd U)) Wd)) (NF.realX e).one = blc e c Wd U := rfl
  unfold quadRest
  simp only [h1, h2, h3, h4, hsearch t ht0 ht1]
  rw [SplineTotal.getI_ok (locs e Wd) i (by omega), SplineTotal.getI_ok Wd i hiK,
    SplineTotal.getI_ok (blc e c Wd U) i (by omega), SplineTotal.getI_ok (hts e c Wd U) i (by omega),
    hi1, SplineTotal.getI_ok (hts e c Wd U) (i+1) (by omega)]
  simp only [getElem_eq_getD, evalX_eq_evalR, bind, Except.bind, pure, Except.pure]
  have hbin : evalR (envOf [t, (locs e Wd).getD i 0, Wd.getD i 0, (blc e c Wd U).getD i 0, (hts e c Wd U).getD i 0,
      (hts e c Wd U).getD (i+1) 0] 0) quadFwdE = binN e c Wd U i t := rfl
  have hld : evalR (envOf [t, (locs e Wd).getD i 0, Wd.getD i 0, (blc e c Wd U).getD i 0, (hts e c Wd U).getD i 0,
      (hts e c Wd U).getD (i+1) 0] 0) quadFwdLdE = binLdN e c Wd U i t := rfl
  rw [hbin, hld, clamp01_id e _ hu0 hu1]
  simp only [NF.realX_add, NF.realX_mul, NF.realX_ofFloat, hdbt]

/-! ### the whole normalised cdf `GN : [0,1] → [0,1]` (search a bin, evaluate its closed form) -/

variable (e)
def GN (c : QCfg) (Wd U : List ℝ) (t : ℝ) : ℝ := binN e c Wd U (idxN e c Wd t) t
def LdN (c : QCfg) (Wd U : List ℝ) (t : ℝ) : ℝ := binLdN e c Wd U (idxN e c Wd t) t
variable {e}

theorem GN_hF (c : QCfg) (Wd U : List ℝ) :
    ∀ t, lc e Wd 0 ≤ t → t ≤ lc e Wd Wd.length → GN e c Wd U t = binN e c Wd U (idxN e c Wd t) t :=
  fun _ _ _ => rfl

theorem GN_strictMonoOn (hv : CoreValid e c Wd U) : StrictMonoOn (GN e c Wd U) (Set.Icc 0 1) := by
  have := ExecGlue.strictMonoOn_whole (lc e Wd) Wd.length (binN e c Wd U) (GN e c Wd U) (idxN e c Wd)
    (lc_strict hv) (search_spec hv).1 (GN_hF c Wd U) (bin_join hv) (bin_strictMonoOn hv)
  rw [lc_zero hv, lc_last hv] at this
  exact this

theorem GN_endpoints (hv : CoreValid e c Wd U) : GN e c Wd U 0 = 0 ∧ GN e c Wd U 1 = 1 := by
  have hK0 : 0 < Wd.length := List.length_pos_of_ne_nil hv.hK
  have hl := ExecGlue.left_value (lc e Wd) Wd.length (binN e c Wd U) (GN e c Wd U) (idxN e c Wd) hK0
    (lc_strict hv) (search_spec hv).1 (GN_hF c Wd U) (bin_join hv)
  have hr := ExecGlue.right_value (lc e Wd) Wd.length (binN e c Wd U) (GN e c Wd U) (idxN e c Wd) hK0
    (lc_strict hv) (search_spec hv).1 (GN_hF c Wd U) (bin_join hv)
  constructor
  · rw [(bin_endpoints hv 0 hK0).1, bl_zero hv, lc_zero hv] at hl
    exact hl
  · have hK1 : Wd.length - 1 + 1 = Wd.length := by omega
    have he := (bin_endpoints hv (Wd.length - 1) (by omega)).2
    rw [hK1] at he
    rw [he, bl_last hv, lc_last hv] at hr
    exact hr

/-- in an open bin the search returns that bin -/
theorem idxN_in_bin (hv : CoreValid e c Wd U) (k : ℕ) (hk : k < Wd.length) (t : ℝ)
    (h0 : lc e Wd k < t) (h1 : t < lc e Wd (k+1)) : idxN e c Wd t = k := by
  have hmono := ExecGlue.knots_mono (lc e Wd) Wd.length (lc_strict hv)
  have ht0 : lc e Wd 0 ≤ t := le_trans (hmono 0 k (Nat.zero_le _) hk.le) h0.le
  have ht1 : t ≤ lc e Wd Wd.length := le_trans h1.le (hmono (k+1) Wd.length hk le_rfl)
  obtain ⟨hiK, hle, hr⟩ := (search_spec hv).1 t ht0 ht1
  set i := idxN e c Wd t
  by_contra hne
  rcases Nat.lt_or_gt_of_ne hne with hlt | hgt
  · rcases hr with hr | ⟨hiK', hxr⟩
    · have : lc e Wd (i+1) ≤ lc e Wd k := hmono (i+1) k hlt hk.le
      linarith
    · omega
  · have : lc e Wd (k+1) ≤ lc e Wd i := hmono (k+1) i hgt hiK.le
    linarith

theorem bin_hasDerivAt (hv : CoreValid e c Wd U) (k : ℕ) (hk : k < Wd.length) (t : ℝ)
    (h0 : lc e Wd k ≤ t) (h1 : t ≤ lc e Wd (k+1)) :
    HasDerivAt (binN e c Wd U k) (Real.exp (binLdN e c Wd U k t)) t := by
  have hw := wd_pos hv k hk
  have hfun : binN e c Wd U k = fun t => Quad.cdf (ht e c Wd U k) (ht e c Wd U (k+1)) (wd Wd k) (bl e c Wd U k)
      ((t - lc e Wd k) / wd Wd k) := by
    funext z; exact binN_eq k z
  rw [lc_step hv k hk] at h1
  have ha0 : 0 ≤ (t - lc e Wd k) / wd Wd k := div_nonneg (by linarith) hw.le
  have ha1 : (t - lc e Wd k) / wd Wd k ≤ 1 := by rw [div_le_one hw]; linarith
  rw [hfun, binLdN_eq, Real.exp_log (Quad.pdf_pos (ht_pos hv k (by omega)) (ht_pos hv (k+1) (by omega)) ha0 ha1)]
  exact Quad.cdf_hasDerivAt hw

theorem GN_hasDerivAt (hv : CoreValid e c Wd U) (k : ℕ) (hk : k < Wd.length) (t : ℝ)
    (h0 : lc e Wd k < t) (h1 : t < lc e Wd (k+1)) :
    HasDerivAt (GN e c Wd U) (Real.exp (LdN e c Wd U t)) t := by
  unfold LdN
  rw [idxN_in_bin hv k hk t h0 h1]
  exact ExecGlue.hasDerivAt_in_bin (lc e Wd) Wd.length (binN e c Wd U) (GN e c Wd U) (idxN e c Wd)
    (lc_strict hv) (search_spec hv).1 (GN_hF c Wd U) (bin_join hv) k hk t _ h0 h1 (bin_hasDerivAt hv k hk t h0.le h1.le)

/-! ### from normalised coordinates to the box: any program that is `quadRest` on the normalised input -/

variable (e)
/-- the box is non-degenerate and `e` reads the two differences the code forms exactly -/
structure BoxValid (c : QCfg) : Prop where
  hlr : e c.box.left < e c.box.right
  hdlr : e (c.box.right - c.box.left) = e c.box.right - e c.box.left
  hbt : e c.box.bottom < e c.box.top
  hdbt : e (c.box.top - c.box.bottom) = e c.box.top - e c.box.bottom

/-- the normalised input the program forms -/
def nx (c : QCfg) (x : ℝ) : ℝ := (x - e c.box.left) / (e c.box.right - e c.box.left)

def valOf (r : Except Err (ℝ × ℝ)) : ℝ := match r with
  | .ok r => r.1
  | .error _ => 0
def ldOf (r : Except Err (ℝ × ℝ)) : ℝ := match r with
  | .ok r => r.2
  | .error _ => 0
variable {e}

theorem nx_mem (hb : BoxValid e c) (x : ℝ) (hx0 : e c.box.left ≤ x) (hx1 : x ≤ e c.box.right) :
    0 ≤ nx e c x ∧ nx e c x ≤ 1 := by
  have hD : 0 < e c.box.right - e c.box.left := sub_pos.mpr hb.hlr
  unfold nx
  exact ⟨div_nonneg (by linarith) hD.le, by rw [div_le_one hD]; linarith⟩

theorem nx_left (c : QCfg) : nx e c (e c.box.left) = 0 := by unfold nx; simp
theorem nx_right (hb : BoxValid e c) : nx e c (e c.box.right) = 1 := by
  unfold nx; exact div_self (sub_pos.mpr hb.hlr).ne'
theorem nx_strictMono (hb : BoxValid e c) : StrictMono (nx e c) := by
  intro a b hab
  unfold nx
  exact div_lt_div_of_pos_right (by linarith) (sub_pos.mpr hb.hlr)

section generic
variable {P : ℝ → Except Err (ℝ × ℝ)}

/-- `P` runs the second stage of the program on widths `Wd`, unnormalised heights `U` and the normalised input -/
def RunsRest (e : Float → ℝ) (c : QCfg) (Wd U : List ℝ) (P : ℝ → Except Err (ℝ × ℝ)) : Prop :=
  ∀ x, e c.box.left ≤ x → x ≤ e c.box.right → P x = quadRest (NF.realX e) c Wd U (nx e c x)

theorem gen_exec (hv : CoreValid e c Wd U) (hb : BoxValid e c) (hP : RunsRest e c Wd U P)
    (x : ℝ) (hx0 : e c.box.left ≤ x) (hx1 : x ≤ e c.box.right) :
    P x = .ok (GN e c Wd U (nx e c x) * (e c.box.top - e c.box.bottom) + e c.box.bottom,
               LdN e c Wd U (nx e c x) + e (boxLog c.box)) := by
  obtain ⟨h0, h1⟩ := nx_mem hb x hx0 hx1
  rw [hP x hx0 hx1, rest_eq_bin hv hb.hdbt _ h0 h1]
  rfl

theorem gen_val (hv : CoreValid e c Wd U) (hb : BoxValid e c) (hP : RunsRest e c Wd U P)
    (x : ℝ) (hx0 : e c.box.left ≤ x) (hx1 : x ≤ e c.box.right) :
    valOf (P x) = GN e c Wd U (nx e c x) * (e c.box.top - e c.box.bottom) + e c.box.bottom := by
  rw [gen_exec hv hb hP x hx0 hx1]; rfl

theorem gen_ld (hv : CoreValid e c Wd U) (hb : BoxValid e c) (hP : RunsRest e c Wd U P)
    (x : ℝ) (hx0 : e c.box.left ≤ x) (hx1 : x ≤ e c.box.right) :
    ldOf (P x) = LdN e c Wd U (nx e c x) + e (boxLog c.box) := by
  rw [gen_exec hv hb hP x hx0 hx1]; rfl

theorem gen_strictMonoOn (hv : CoreValid e c Wd U) (hb : BoxValid e c) (hP : RunsRest e c Wd U P) :
    StrictMonoOn (fun x => valOf (P x)) (Set.Icc (e c.box.left) (e c.box.right)) := by
  intro a ha b hb' hab
  show valOf (P a) < valOf (P b)
  rw [gen_val hv hb hP a ha.1 ha.2, gen_val hv hb hP b hb'.1 hb'.2]
  have hna := nx_mem hb a ha.1 ha.2
  have hnb := nx_mem hb b hb'.1 hb'.2
  have := GN_strictMonoOn hv ⟨hna.1, hna.2⟩ ⟨hnb.1, hnb.2⟩ (nx_strictMono hb hab)
  have hD : 0 < e c.box.top - e c.box.bottom := sub_pos.mpr hb.hbt
  nlinarith

theorem gen_endpoints (hv : CoreValid e c Wd U) (hb : BoxValid e c) (hP : RunsRest e c Wd U P) :
    valOf (P (e c.box.left)) = e c.box.bottom ∧ valOf (P (e c.box.right)) = e c.box.top := by
  have hlr := hb.hlr.le
  constructor
  · rw [gen_val hv hb hP _ le_rfl hlr, nx_left, (GN_endpoints hv).1]; ring
  · rw [gen_val hv hb hP _ hlr le_rfl, nx_right hb, (GN_endpoints hv).2]; ring

theorem gen_mapsTo (hv : CoreValid e c Wd U) (hb : BoxValid e c) (hP : RunsRest e c Wd U P) :
    Set.MapsTo (fun x => valOf (P x)) (Set.Icc (e c.box.left) (e c.box.right)) (Set.Icc (e c.box.bottom) (e c.box.top)) := by
  intro x hx
  have hm := (gen_strictMonoOn hv hb hP).monotoneOn
  obtain ⟨hl, hr⟩ := gen_endpoints hv hb hP
  have hlr := hb.hlr.le
  constructor
  · rw [← hl]; exact hm ⟨le_rfl, hlr⟩ hx hx.1
  · rw [← hr]; exact hm hx ⟨hlr, le_rfl⟩ hx.2

theorem gen_hasDerivAt (hv : CoreValid e c Wd U) (hb : BoxValid e c) (hP : RunsRest e c Wd U P)
    (hbl : e (boxLog c.box) = Real.log ((e c.box.top - e c.box.bottom) / (e c.box.right - e c.box.left)))
    (k : ℕ) (hk : k < Wd.length) (x : ℝ) (h0 : lc e Wd k < nx e c x) (h1 : nx e c x < lc e Wd (k+1)) :
    HasDerivAt (fun x => valOf (P x)) (Real.exp (ldOf (P x))) x := by
  have hmono := ExecGlue.knots_mono (lc e Wd) Wd.length (lc_strict hv)
  have hD : 0 < e c.box.right - e c.box.left := sub_pos.mpr hb.hlr
  have hT : 0 < e c.box.top - e c.box.bottom := sub_pos.mpr hb.hbt
  have hn0 : 0 < nx e c x := by
    have := hmono 0 k (Nat.zero_le _) hk.le; rw [lc_zero hv] at this; linarith
  have hn1 : nx e c x < 1 := by
    have := hmono (k+1) Wd.length hk le_rfl; rw [lc_last hv] at this; linarith
  have hxL : e c.box.left < x := by
    have : 0 < x - e c.box.left := by
      unfold nx at hn0
      rcases (div_pos_iff.mp hn0) with h | h
      · exact h.1
      · linarith [h.2]
    linarith
  have hxR : x < e c.box.right := by
    unfold nx at hn1
    rw [div_lt_one hD] at hn1; linarith
  rw [gen_ld hv hb hP x hxL.le hxR.le, hbl]
  have hG := GN_hasDerivAt hv k hk (nx e c x) h0 h1
  have hlin : HasDerivAt (nx e c) (1 / (e c.box.right - e c.box.left)) x := by
    unfold nx
    simpa using ((hasDerivAt_id x).sub_const (e c.box.left)).div_const (e c.box.right - e c.box.left)
  have hc := ((HasDerivAt.comp x hG hlin).mul_const (e c.box.top - e c.box.bottom)).add_const (e c.box.bottom)
  have hev : (fun x => valOf (P x)) =ᶠ[nhds x]
      (fun x => (GN e c Wd U ∘ nx e c) x * (e c.box.top - e c.box.bottom) + e c.box.bottom) := by
    have hmem : Set.Ioo (e c.box.left) (e c.box.right) ∈ nhds x := Ioo_mem_nhds hxL hxR
    exact Filter.eventuallyEq_of_mem hmem (fun z hz => gen_val hv hb hP z hz.1.le hz.2.le)
  refine (hc.congr_of_eventuallyEq hev).congr_deriv ?_
  have hpos : 0 < (e c.box.top - e c.box.bottom) / (e c.box.right - e c.box.left) := div_pos hT hD
  rw [Real.exp_add, Real.exp_log hpos]
  field_simp

end generic

/-! ### the executed program `quadSpline … false`, bounded case (`uh` has `K+1` entries: the tails padding branch
`if uhe.length + 1 == K` is NOT taken) -/

variable (e)
/-- an accepted bounded configuration, with the reading `e` of the Python doubles exact on the expressions the code forms -/
structure QuadValid (c : QCfg) (uw uh : List ℝ) : Prop where
  hK : uw ≠ []
  hlenh : uh.length = uw.length + 1
  hgW : ¬ (c.minW * uw.length.toFloat > 1.0)
  hgH : ¬ (c.minH * uw.length.toFloat > 1.0)
  hmW0 : 0 ≤ e c.minW
  hcW : e (1 - c.minW * uw.length.toFloat) = 1 - e c.minW * uw.length
  hmWK : e c.minW * uw.length ≤ 1
  hmH0 : 0 ≤ e c.minH
  hcH : e (1 - c.minH) = 1 - e c.minH
  hmH1 : e c.minH ≤ 1
  h1e3 : 0 ≤ e 1e-3
  hbox : BoxValid e c
  heps : 0 < e c.eps

/-- widths and unnormalised heights exactly as the program computes them -/
def Wq (c : QCfg) (uw : List ℝ) : List ℝ := flooredSoftmax (NF.realX e) c.minW uw
def Uq (uh : List ℝ) : List ℝ := uh.map (fun u => (NF.realX e).add ((NF.realX e).softplus u) ((NF.realX e).ofFloat 1e-3))

/-- what the program returns (0 on the error branch, which `exec_eq_bin` shows is not taken in the domain) -/
def val (c : QCfg) (uw uh : List ℝ) (x : ℝ) : ℝ := valOf (quadSpline (NF.realX e) c uw uh false x)
def ld (c : QCfg) (uw uh : List ℝ) (x : ℝ) : ℝ := ldOf (quadSpline (NF.realX e) c uw uh false x)
variable {e}
variable {uw uh : List ℝ}

theorem softplus_pos (u : ℝ) : 0 < (NF.realX e).softplus u := by
  rw [NF.realX_softplus]
  split
  · linarith
  · exact Real.log_pos (by linarith [Real.exp_pos u])

theorem Wq_length (c : QCfg) (uw : List ℝ) : (Wq e c uw).length = uw.length := by
  simp [Wq, SplineExec.flooredSoftmax_eq, SplineExec.softmaxG_length]

theorem core_of_valid (hv : QuadValid e c uw uh) : CoreValid e c (Wq e c uw) (Uq e uh) := by
  have h := SplineExec.flooredSoftmax_valid e c.minW uw hv.hK hv.hmW0 hv.hcW hv.hmWK
  refine ⟨?_, ?_, h.1, h.2, ?_, hv.hmH0, hv.hcH, hv.hmH1, hv.heps⟩
  · intro h'; have := h.2; unfold Wq at h'; rw [h'] at this; simp at this
  · rw [Wq_length]; simp [Uq, hv.hlenh]
  · intro u hu
    simp only [Uq, List.mem_map] at hu
    obtain ⟨a, _, rfl⟩ := hu
    have := softplus_pos (e := e) a
    simp only [NF.realX_add, NF.realX_ofFloat]
    linarith [hv.h1e3]

theorem runsRest_of_valid (hv : QuadValid e c uw uh) :
    RunsRest e c (Wq e c uw) (Uq e uh) (quadSpline (NF.realX e) c uw uh false) := by
  intro x hx0 hx1
  have hg : ((NF.realX e).lt x ((NF.realX e).ofFloat c.box.left) || (NF.realX e).lt ((NF.realX e).ofFloat c.box.right) x) = false := by
    simp only [NF.realX_lt, NF.realX_ofFloat, Bool.or_eq_false_iff, decide_eq_false_iff_not, not_lt]
    exact ⟨hx0, hx1⟩
  rw [quadSpline_bounded (NF.realX e) c uw uh x hg hv.hgW hv.hgH (by rw [hv.hlenh]; omega)]
  simp only [NF.realX_div, NF.realX_sub, NF.realX_ofFloat, hv.hbox.hdlr]
  rfl

/-- **C17, totality + closed form**: for every `x ∈ [left, right]` the executed program returns a value, and it is the
    closed form of the bin the executed search selected (rescaled to the box; log-det with the box term) -/
theorem exec_eq_bin (hv : QuadValid e c uw uh) (x : ℝ) (hx0 : e c.box.left ≤ x) (hx1 : x ≤ e c.box.right) :
    quadSpline (NF.realX e) c uw uh false x
      = .ok (binN e c (Wq e c uw) (Uq e uh) (idxN e c (Wq e c uw) (nx e c x)) (nx e c x) * (e c.box.top - e c.box.bottom)
               + e c.box.bottom,
             binLdN e c (Wq e c uw) (Uq e uh) (idxN e c (Wq e c uw) (nx e c x)) (nx e c x) + e (boxLog c.box)) :=
  gen_exec (core_of_valid hv) hv.hbox (runsRest_of_valid hv) x hx0 hx1

theorem total (hv : QuadValid e c uw uh) (x : ℝ) (hx0 : e c.box.left ≤ x) (hx1 : x ≤ e c.box.right) :
    ∃ r, quadSpline (NF.realX e) c uw uh false x = .ok r := ⟨_, exec_eq_bin hv x hx0 hx1⟩

/-- the searched index is a bin, and the normalised input lies in that (closed) bin -/
theorem idx_spec (hv : QuadValid e c uw uh) (x : ℝ) (hx0 : e c.box.left ≤ x) (hx1 : x ≤ e c.box.right) :
    idxN e c (Wq e c uw) (nx e c x) < uw.length ∧
    lc e (Wq e c uw) (idxN e c (Wq e c uw) (nx e c x)) ≤ nx e c x ∧
    nx e c x ≤ lc e (Wq e c uw) (idxN e c (Wq e c uw) (nx e c x) + 1) := by
  have hc := core_of_valid hv
  obtain ⟨h0, h1⟩ := nx_mem hv.hbox x hx0 hx1
  obtain ⟨hiK, hle, hr⟩ := (search_spec hc).1 (nx e c x) (by rw [lc_zero hc]; exact h0) (by rw [lc_last hc]; exact h1)
  rw [Wq_length] at hiK
  refine ⟨hiK, hle, ?_⟩
  rcases hr with hr | ⟨hiK', htl⟩
  · exact hr.le
  · rw [hiK', htl]

/-- **normalisation facts** the code relies on (bounded case): normalised heights positive, every trapezium area
    positive, total area exactly 1 — so `bin_left_cdf[..., -1] = 1.0` changes nothing over the reals; same for the
    location knots -/
theorem normalisation (hv : QuadValid e c uw uh) :
    (∀ h ∈ hts e c (Wq e c uw) (Uq e uh), 0 < h) ∧
    (ars e c (Wq e c uw) (Uq e uh)).sum = 1 ∧
    (cumsumG (NF.realX e) (ars e c (Wq e c uw) (Uq e uh))).getLast? = some 1 ∧
    setLast (cumsumG (NF.realX e) (ars e c (Wq e c uw) (Uq e uh))) 1 = cumsumG (NF.realX e) (ars e c (Wq e c uw) (Uq e uh)) ∧
    setLast (cumsumG (NF.realX e) (Wq e c uw)) 1 = cumsumG (NF.realX e) (Wq e c uw) := by
  have hc := core_of_valid hv
  have hl := SplineExec.cumsumG_last e _ (ars_ne hc)
  rw [ars_sum hc] at hl
  have hl' := SplineExec.cumsumG_last e _ hc.hK
  rw [hc.hWsum] at hl'
  exact ⟨hts_pos hc, ars_sum hc, hl, SplineExec.setLast_of_getLast _ _ hl, SplineExec.setLast_of_getLast _ _ hl'⟩

/-- **C09**: the executed quadratic spline is strictly increasing on the whole box -/
theorem val_strictMonoOn (hv : QuadValid e c uw uh) :
    StrictMonoOn (val e c uw uh) (Set.Icc (e c.box.left) (e c.box.right)) :=
  gen_strictMonoOn (core_of_valid hv) hv.hbox (runsRest_of_valid hv)

/-- **C09**: `left ↦ bottom`, `right ↦ top`, exactly, with no further hypothesis -/
theorem val_endpoints (hv : QuadValid e c uw uh) :
    val e c uw uh (e c.box.left) = e c.box.bottom ∧ val e c uw uh (e c.box.right) = e c.box.top :=
  gen_endpoints (core_of_valid hv) hv.hbox (runsRest_of_valid hv)

/-- **C09**: the box is mapped into the box -/
theorem val_mapsTo (hv : QuadValid e c uw uh) :
    Set.MapsTo (val e c uw uh) (Set.Icc (e c.box.left) (e c.box.right)) (Set.Icc (e c.box.bottom) (e c.box.top)) :=
  gen_mapsTo (core_of_valid hv) hv.hbox (runsRest_of_valid hv)

/-- **C01**: inside every open bin the derivative of the executed value is `exp` of the executed log-abs-det (which
    includes the `boxLog` constant: `hbl` says the `Float` computation `boxLog` is read as the real logarithm) -/
theorem val_hasDerivAt (hv : QuadValid e c uw uh)
    (hbl : e (boxLog c.box) = Real.log ((e c.box.top - e c.box.bottom) / (e c.box.right - e c.box.left)))
    (k : ℕ) (hk : k < uw.length) (x : ℝ)
    (h0 : lc e (Wq e c uw) k < nx e c x) (h1 : nx e c x < lc e (Wq e c uw) (k+1)) :
    HasDerivAt (val e c uw uh) (Real.exp (ld e c uw uh x)) x :=
  gen_hasDerivAt (core_of_valid hv) hv.hbox (runsRest_of_valid hv) hbl k (by rw [Wq_length]; exact hk) x h0 h1

/-! ### the tails case (`uh` has `K-1` entries): the branch `if uhe.length + 1 == K` IS taken; the unnormalised heights
are padded on both sides with the constant `cst` the code computes, then the same second stage runs -/

/-- the padding constant, as the program computes it from the gathered `w0 wl u0 ul` -/
def cstOf {α : Type} (o : XOps α) (widths uhe : List α) (K : ℕ) (w0 wl u0 ul : α) : α :=
  let half := o.ofFloat 0.5
  let fw := o.mul half w0
  let lw := o.mul half wl
  let inner := List.zipWith o.mul (pairMeans o uhe) ((widths.drop 1).take (K - 2))
  let numer := o.add (o.add (o.mul (o.mul half fw) u0) (o.mul (o.mul half lw) ul)) (sumG o inner)
  o.div numer (o.sub (o.sub o.one (o.mul half fw)) (o.mul half lw))

/-- the text of the (optional) padding step of `quadSpline` -/
def padU {α : Type} (o : XOps α) (widths uhe : List α) (K : ℕ) : Except Err (List α) :=
  if uhe.length + 1 == K then do
    let w0 ← getI widths 0
    let wl ← getI widths (K - 1)
    let u0 ← getI uhe 0
    let ul ← getI uhe (Int.ofNat uhe.length - 1)
    let cst := cstOf o widths uhe K w0 wl u0 ul
    pure (cst :: (uhe ++ [cst]))
  else pure uhe

/-- `quadSpline … false` = guards, then the padding step, then `quadRest` (any scalar type) -/
theorem quadSpline_split {α : Type} (o : XOps α) (c : QCfg) (uw uh : List α) (x : α)
    (hg : (o.lt x (o.ofFloat c.box.left) || o.lt (o.ofFloat c.box.right) x) = false)
    (hgW : ¬ (c.minW * uw.length.toFloat > 1.0)) (hgH : ¬ (c.minH * uw.length.toFloat > 1.0)) :
    quadSpline o c uw uh false x
      = (padU o (flooredSoftmax o c.minW uw) (uh.map (fun u => o.add (o.softplus u) (o.ofFloat 1e-3))) uw.length) >>= fun U =>
        quadRest o c (flooredSoftmax o c.minW uw) U
          (o.div (o.sub x (o.ofFloat c.box.left)) (o.ofFloat (c.box.right - c.box.left))) := by
  unfold quadSpline quadRest padU cstOf
  simp only [Bool.false_eq_true, if_false, hg, hgW, hgH]

variable (e)
/-- an accepted tails configuration (`K ≥ 2` bins, `K-1` interior heights) -/
structure QuadValidT (c : QCfg) (uw uh : List ℝ) : Prop where
  huh : uh ≠ []
  hlenh : uh.length + 1 = uw.length
  hgW : ¬ (c.minW * uw.length.toFloat > 1.0)
  hgH : ¬ (c.minH * uw.length.toFloat > 1.0)
  hmW0 : 0 ≤ e c.minW
  hcW : e (1 - c.minW * uw.length.toFloat) = 1 - e c.minW * uw.length
  hmWK : e c.minW * uw.length ≤ 1
  hmH0 : 0 ≤ e c.minH
  hcH : e (1 - c.minH) = 1 - e c.minH
  hmH1 : e c.minH ≤ 1
  h1e3 : 0 ≤ e 1e-3
  hhalf : e 0.5 = 1 / 2
  hbox : BoxValid e c
  heps : 0 < e c.eps

/-- the padding constant and the padded unnormalised heights of the tails case -/
def cstT (c : QCfg) (uw uh : List ℝ) : ℝ :=
  cstOf (NF.realX e) (Wq e c uw) (Uq e uh) uw.length ((Wq e c uw).getD 0 0) ((Wq e c uw).getD (uw.length - 1) 0)
    ((Uq e uh).getD 0 0) ((Uq e uh).getD (uh.length - 1) 0)
def Ut (c : QCfg) (uw uh : List ℝ) : List ℝ := cstT e c uw uh :: (Uq e uh ++ [cstT e c uw uh])
variable {e}

theorem mem_le_sum (l : List ℝ) (hl : ∀ x ∈ l, 0 < x) : ∀ x ∈ l, x ≤ l.sum := by
  induction l with
  | nil => simp
  | cons a t ih =>
    intro x hx
    have ht : 0 ≤ t.sum := List.sum_nonneg (fun z hz => (hl z (List.mem_cons_of_mem _ hz)).le)
    simp only [List.mem_cons] at hx
    simp only [List.sum_cons]
    rcases hx with rfl | hx
    · linarith
    · have := ih (fun z hz => hl z (List.mem_cons_of_mem _ hz)) x hx
      linarith [hl a List.mem_cons_self]

theorem Uq_pos (h1e3 : 0 ≤ e 1e-3) (uh : List ℝ) : ∀ u ∈ Uq e uh, 0 < u := by
  intro u hu
  simp only [Uq, List.mem_map] at hu
  obtain ⟨a, _, rfl⟩ := hu
  have := softplus_pos (e := e) a
  simp only [NF.realX_add, NF.realX_ofFloat]
  linarith

theorem Uq_length (uh : List ℝ) : (Uq e uh).length = uh.length := by simp [Uq]

theorem W_valid_T (hv : QuadValidT e c uw uh) :
    (∀ w ∈ Wq e c uw, 0 < w) ∧ (Wq e c uw).sum = 1 := by
  have hK : uw ≠ [] := by
    intro h; have := hv.hlenh; rw [h] at this; simp at this
  exact SplineExec.flooredSoftmax_valid e c.minW uw hK hv.hmW0 hv.hcW hv.hmWK

/-- the padding constant is positive -/
theorem cstT_pos (hv : QuadValidT e c uw uh) : 0 < cstT e c uw uh := by
  obtain ⟨hWpos, hWsum⟩ := W_valid_T hv
  have hUpos := Uq_pos hv.h1e3 uh
  have hlen := hv.hlenh
  have hul : 0 < uh.length := List.length_pos_of_ne_nil hv.huh
  have hWl : (Wq e c uw).length = uw.length := Wq_length c uw
  have hw0m : (Wq e c uw).getD 0 0 ∈ Wq e c uw := by
    rw [← getElem_eq_getD _ 0 (by omega)]; exact List.getElem_mem _
  have hwlm : (Wq e c uw).getD (uw.length - 1) 0 ∈ Wq e c uw := by
    rw [← getElem_eq_getD _ (uw.length - 1) (by omega)]; exact List.getElem_mem _
  have hu0m : (Uq e uh).getD 0 0 ∈ Uq e uh := by
    rw [← getElem_eq_getD _ 0 (by rw [Uq_length]; omega)]; exact List.getElem_mem _
  have hulm : (Uq e uh).getD (uh.length - 1) 0 ∈ Uq e uh := by
    rw [← getElem_eq_getD _ (uh.length - 1) (by rw [Uq_length]; omega)]; exact List.getElem_mem _
  have hw0 := hWpos _ hw0m
  have hwl := hWpos _ hwlm
  have hw0' := mem_le_sum _ hWpos _ hw0m
  have hwl' := mem_le_sum _ hWpos _ hwlm
  rw [hWsum] at hw0' hwl'
  have hu0 := hUpos _ hu0m
  have hul' := hUpos _ hulm
  have hinner : 0 ≤ sumG (NF.realX e) (List.zipWith (NF.realX e).mul (pairMeans (NF.realX e) (Uq e uh))
      (((Wq e c uw).drop 1).take (uw.length - 2))) := by
    rw [SplineExec.sumG_eq]
    apply List.sum_nonneg
    intro y hy
    exact (zipMul_pos e _ _ (pairMeans_pos e _ hUpos)
      (fun w hw => hWpos w (List.mem_of_mem_drop (List.mem_of_mem_take hw))) y hy).le
  unfold cstT cstOf
  simp only [NF.realX_div, NF.realX_add, NF.realX_mul, NF.realX_sub, NF.realX_one, NF.realX_ofFloat, hv.hhalf]
  apply div_pos
  · have h1 : 0 < 1 / 2 * (1 / 2 * (Wq e c uw).getD 0 0) * (Uq e uh).getD 0 0 := by positivity
    have h2 : 0 < 1 / 2 * (1 / 2 * (Wq e c uw).getD (uw.length - 1) 0) * (Uq e uh).getD (uh.length - 1) 0 := by positivity
    linarith
  · linarith

theorem padU_tails (hv : QuadValidT e c uw uh) :
    padU (NF.realX e) (Wq e c uw) (Uq e uh) uw.length = .ok (Ut e c uw uh) := by
  have hlen := hv.hlenh
  have hul : 0 < uh.length := List.length_pos_of_ne_nil hv.huh
  have hWl : (Wq e c uw).length = uw.length := Wq_length c uw
  have hUl : (Uq e uh).length = uh.length := Uq_length uh
  have hb : ((Uq e uh).length + 1 == uw.length) = true := by rw [hUl]; simpa using hlen
  have g1 : getI (Wq e c uw) 0 = .ok ((Wq e c uw).getD 0 0) := by
    have := SplineTotal.getI_ok (Wq e c uw) 0 (by omega)
    rw [getElem_eq_getD] at this
    simpa using this
  have g2 : getI (Wq e c uw) ((uw.length : Int) - 1) = .ok ((Wq e c uw).getD (uw.length - 1) 0) := by
    have := SplineTotal.getI_ok (Wq e c uw) (uw.length - 1) (by omega)
    rw [getElem_eq_getD] at this
    have hc : ((uw.length - 1 : ℕ) : Int) = (uw.length : Int) - 1 := by omega
    rw [hc] at this
    exact this
  have g3 : getI (Uq e uh) 0 = .ok ((Uq e uh).getD 0 0) := by
    have := SplineTotal.getI_ok (Uq e uh) 0 (by omega)
    rw [getElem_eq_getD] at this
    simpa using this
  have g4 : getI (Uq e uh) (Int.ofNat (Uq e uh).length - 1) = .ok ((Uq e uh).getD (uh.length - 1) 0) := by
    have := SplineTotal.getI_ok (Uq e uh) (uh.length - 1) (by omega)
    rw [getElem_eq_getD] at this
    have hc : ((uh.length - 1 : ℕ) : Int) = Int.ofNat (Uq e uh).length - 1 := by
      rw [hUl]; simp only [Int.ofNat_eq_natCast]; omega
    rw [hc] at this
    exact this
  unfold padU
  simp only [hb, if_true, g1, g2, g3, g4]
  rfl

theorem core_of_validT (hv : QuadValidT e c uw uh) : CoreValid e c (Wq e c uw) (Ut e c uw uh) := by
  obtain ⟨hWpos, hWsum⟩ := W_valid_T hv
  refine ⟨?_, ?_, hWpos, hWsum, ?_, hv.hmH0, hv.hcH, hv.hmH1, hv.heps⟩
  · intro h'; rw [h'] at hWsum; simp at hWsum
  · rw [Wq_length]; simp [Ut, Uq_length]; have := hv.hlenh; omega
  · intro u hu
    have hc := cstT_pos hv
    simp only [Ut, List.mem_cons, List.mem_append, List.not_mem_nil, or_false] at hu
    rcases hu with rfl | hu | rfl
    · exact hc
    · exact Uq_pos hv.h1e3 uh u hu
    · exact hc

theorem runsRest_of_validT (hv : QuadValidT e c uw uh) :
    RunsRest e c (Wq e c uw) (Ut e c uw uh) (quadSpline (NF.realX e) c uw uh false) := by
  intro x hx0 hx1
  have hg : ((NF.realX e).lt x ((NF.realX e).ofFloat c.box.left) || (NF.realX e).lt ((NF.realX e).ofFloat c.box.right) x) = false := by
    simp only [NF.realX_lt, NF.realX_ofFloat, Bool.or_eq_false_iff, decide_eq_false_iff_not, not_lt]
    exact ⟨hx0, hx1⟩
  have h1 : flooredSoftmax (NF.realX e) c.minW uw = Wq e c uw := rfl
  have h2 : uh.map (fun u => (NF.realX e).add ((NF.realX e).softplus u) ((NF.realX e).ofFloat 1e-3)) = Uq e uh := rfl
  rw [quadSpline_split (NF.realX e) c uw uh x hg hv.hgW hv.hgH, h1, h2, padU_tails hv]
  simp only [NF.realX_div, NF.realX_sub, NF.realX_ofFloat, hv.hbox.hdlr]
  rfl

/-- **C17, tails case**: totality + closed form of the searched bin, on the padded heights `Ut` -/
theorem exec_eq_bin_T (hv : QuadValidT e c uw uh) (x : ℝ) (hx0 : e c.box.left ≤ x) (hx1 : x ≤ e c.box.right) :
    quadSpline (NF.realX e) c uw uh false x
      = .ok (binN e c (Wq e c uw) (Ut e c uw uh) (idxN e c (Wq e c uw) (nx e c x)) (nx e c x) * (e c.box.top - e c.box.bottom)
               + e c.box.bottom,
             binLdN e c (Wq e c uw) (Ut e c uw uh) (idxN e c (Wq e c uw) (nx e c x)) (nx e c x) + e (boxLog c.box)) :=
  gen_exec (core_of_validT hv) hv.hbox (runsRest_of_validT hv) x hx0 hx1

theorem total_T (hv : QuadValidT e c uw uh) (x : ℝ) (hx0 : e c.box.left ≤ x) (hx1 : x ≤ e c.box.right) :
    ∃ r, quadSpline (NF.realX e) c uw uh false x = .ok r := ⟨_, exec_eq_bin_T hv x hx0 hx1⟩

/-- normalisation facts, tails case: padding constant and heights positive, total area exactly 1, pins are no-ops -/
theorem normalisation_T (hv : QuadValidT e c uw uh) :
    0 < cstT e c uw uh ∧
    (∀ h ∈ hts e c (Wq e c uw) (Ut e c uw uh), 0 < h) ∧
    (ars e c (Wq e c uw) (Ut e c uw uh)).sum = 1 ∧
    setLast (cumsumG (NF.realX e) (ars e c (Wq e c uw) (Ut e c uw uh))) 1 = cumsumG (NF.realX e) (ars e c (Wq e c uw) (Ut e c uw uh)) ∧
    setLast (cumsumG (NF.realX e) (Wq e c uw)) 1 = cumsumG (NF.realX e) (Wq e c uw) := by
  have hc := core_of_validT hv
  have hl := SplineExec.cumsumG_last e _ (ars_ne hc)
  rw [ars_sum hc] at hl
  have hl' := SplineExec.cumsumG_last e _ hc.hK
  rw [hc.hWsum] at hl'
  exact ⟨cstT_pos hv, hts_pos hc, ars_sum hc, SplineExec.setLast_of_getLast _ _ hl, SplineExec.setLast_of_getLast _ _ hl'⟩

theorem val_strictMonoOn_T (hv : QuadValidT e c uw uh) :
    StrictMonoOn (val e c uw uh) (Set.Icc (e c.box.left) (e c.box.right)) :=
  gen_strictMonoOn (core_of_validT hv) hv.hbox (runsRest_of_validT hv)

theorem val_endpoints_T (hv : QuadValidT e c uw uh) :
    val e c uw uh (e c.box.left) = e c.box.bottom ∧ val e c uw uh (e c.box.right) = e c.box.top :=
  gen_endpoints (core_of_validT hv) hv.hbox (runsRest_of_validT hv)

theorem val_mapsTo_T (hv : QuadValidT e c uw uh) :
    Set.MapsTo (val e c uw uh) (Set.Icc (e c.box.left) (e c.box.right)) (Set.Icc (e c.box.bottom) (e c.box.top)) :=
  gen_mapsTo (core_of_validT hv) hv.hbox (runsRest_of_validT hv)

theorem val_hasDerivAt_T (hv : QuadValidT e c uw uh)
    (hbl : e (boxLog c.box) = Real.log ((e c.box.top - e c.box.bottom) / (e c.box.right - e c.box.left)))
    (k : ℕ) (hk : k < uw.length) (x : ℝ)
    (h0 : lc e (Wq e c uw) k < nx e c x) (h1 : nx e c x < lc e (Wq e c uw) (k+1)) :
    HasDerivAt (val e c uw uh) (Real.exp (ld e c uw uh x)) x :=
  gen_hasDerivAt (core_of_validT hv) hv.hbox (runsRest_of_validT hv) hbl k (by rw [Wq_length]; exact hk) x h0 h1

/-! ### the bin knots in box coordinates -/

variable (e)
/-- the `k`-th bin knot in box coordinates -/
def xk (c : QCfg) (uw : List ℝ) (k : ℕ) : ℝ := e c.box.left + (e c.box.right - e c.box.left) * lc e (Wq e c uw) k
variable {e}

theorem nx_bin_iff (hb : BoxValid e c) (uw : List ℝ) (k : ℕ) (x : ℝ) :
    (lc e (Wq e c uw) k < nx e c x ↔ xk e c uw k < x) ∧ (nx e c x < lc e (Wq e c uw) k ↔ x < xk e c uw k) := by
  have hD : 0 < e c.box.right - e c.box.left := sub_pos.mpr hb.hlr
  unfold nx xk
  rw [lt_div_iff₀ hD, div_lt_iff₀ hD]
  constructor <;> constructor <;> intro h <;> linarith

/-- **C01 in box coordinates**: for `x` strictly between two consecutive knots `xk k < x < xk (k+1)` -/
theorem val_hasDerivAt_x (hv : QuadValid e c uw uh)
    (hbl : e (boxLog c.box) = Real.log ((e c.box.top - e c.box.bottom) / (e c.box.right - e c.box.left)))
    (k : ℕ) (hk : k < uw.length) (x : ℝ) (h0 : xk e c uw k < x) (h1 : x < xk e c uw (k+1)) :
    HasDerivAt (val e c uw uh) (Real.exp (ld e c uw uh x)) x :=
  val_hasDerivAt hv hbl k hk x ((nx_bin_iff hv.hbox uw k x).1.mpr h0) ((nx_bin_iff hv.hbox uw (k+1) x).2.mpr h1)

theorem val_hasDerivAt_x_T (hv : QuadValidT e c uw uh)
    (hbl : e (boxLog c.box) = Real.log ((e c.box.top - e c.box.bottom) / (e c.box.right - e c.box.left)))
    (k : ℕ) (hk : k < uw.length) (x : ℝ) (h0 : xk e c uw k < x) (h1 : x < xk e c uw (k+1)) :
    HasDerivAt (val e c uw uh) (Real.exp (ld e c uw uh x)) x :=
  val_hasDerivAt_T hv hbl k hk x ((nx_bin_iff hv.hbox uw k x).1.mpr h0) ((nx_bin_iff hv.hbox uw (k+1) x).2.mpr h1)

/-- the knots in box coordinates start at `left`, end at `right`, strictly increase -/
theorem xk_facts (hv : QuadValid e c uw uh) :
    xk e c uw 0 = e c.box.left ∧ xk e c uw uw.length = e c.box.right ∧ ∀ k < uw.length, xk e c uw k < xk e c uw (k+1) := by
  have hc := core_of_valid hv
  have hD : 0 < e c.box.right - e c.box.left := sub_pos.mpr hv.hbox.hlr
  refine ⟨?_, ?_, ?_⟩
  · unfold xk; rw [lc_zero hc]; ring
  · unfold xk; rw [← Wq_length (e := e) c uw, lc_last hc]; ring
  · intro k hk
    have := lc_strict hc k (by rw [Wq_length]; exact hk)
    unfold xk; nlinarith


theorem idxN_zero (hv : CoreValid e c Wd U) : idxN e c Wd 0 = 0 := by
  obtain ⟨hiK, hle, _⟩ := (search_spec hv).1 0 (by rw [lc_zero hv]) (by rw [lc_last hv]; norm_num)
  by_contra hne
  have := ExecGlue.knots_strict (lc e Wd) Wd.length (lc_strict hv) 0 (idxN e c Wd 0) (Nat.pos_of_ne_zero hne) hiK.le
  rw [lc_zero hv] at this
  linarith

/-- at the left end the executed log-density is the log of the first normalised height -/
theorem LdN_zero (hv : CoreValid e c Wd U) : LdN e c Wd U 0 = Real.log (ht e c Wd U 0) := by
  unfold LdN
  rw [idxN_zero hv, binLdN_eq, lc_zero hv]
  simp [Quad.pdf]

/-! ### FINDING (tails case): the padded boundary heights are NOT 1 after normalisation

quadratic.py says "Set boundary heights s.t. after normalization they are exactly 1" (so that the derivative would be
continuous with the identity tails).  The constant the code computes halves the end widths twice
(`first_widths = 0.5 * widths[..., 0]`, then `0.5 * first_widths`), while the trapezium rule of `unnormalized_area` weighs
the two end bins with `0.5 * widths`.  Over the reals, for two equal bins and one interior height the normalised boundary
height is `(1 + minH)/2`, not 1 (real code, float64, zero parameters, tail_bound 1, minH = 0: `exp(logabsdet)` at `x = ±1`
is 0.5, and 1.0 just outside).  Not a C01/C09 violation: the map is still a strictly increasing bijection of the box with
the right log-det; only the claimed C¹ join with the tails is false. -/

theorem tails_cst_example (hhalf : e 0.5 = 1 / 2) (s : ℝ) :
    cstOf (NF.realX e) [1/2, 1/2] [s] 2 (1/2) (1/2) s s = s / 3 := by
  simp [cstOf, pairMeans, sumG, hhalf]
  ring

theorem tails_boundary_height_example (hcH : e (1 - c.minH) = 1 - e c.minH) (s : ℝ) (hs : 0 < s) :
    (hts e c [1/2, 1/2] [s / 3, s, s / 3]).getD 0 0 = (1 + e c.minH) / 2 := by
  have ha : area e [1/2, 1/2] [s / 3, s, s / 3] = 2 * s / 3 := by
    simp [area, pairMeans, sumG]
    ring
  simp only [hts, ha, List.map_cons, List.getD_cons_zero, NF.realX_add, NF.realX_mul, NF.realX_div, NF.realX_ofFloat, hcH]
  field_simp
  ring

theorem Wq_zero2 (hmW : e c.minW = 0)
    (hcW : e (1 - c.minW * ([0,0] : List ℝ).length.toFloat) = 1 - e c.minW * ([0,0] : List ℝ).length) :
    Wq e c [0, 0] = [1/2, 1/2] := by
  unfold Wq
  rw [SplineExec.flooredSoftmax_eq, hcW, hmW, SplineExec.softmaxG_eq]
  simp [maxG]
  norm_num

/-- **on the executed tails program** (two bins, zero width parameters, any interior height parameter `u`): the first
    normalised height is `(1 + minH)/2 ≠ 1` (unless `minH = 1`) -/
theorem tails_boundary_height_not_one (u : ℝ) (hv : QuadValidT e c [0, 0] [u]) (hmW : e c.minW = 0) :
    ht e c (Wq e c [0, 0]) (Ut e c [0, 0] [u]) 0 = (1 + e c.minH) / 2 := by
  have hW := Wq_zero2 hmW hv.hcW
  have hs : 0 < (Uq e [u]).getD 0 0 := Uq_pos hv.h1e3 [u] _ (by simp [Uq])
  have hU : Uq e [u] = [(Uq e [u]).getD 0 0] := by simp [Uq]
  set s := (Uq e [u]).getD 0 0 with hsd
  have hc : cstT e c [0, 0] [u] = s / 3 := by
    unfold cstT
    rw [hW, hU]
    simp only [List.length_cons, List.length_nil, List.getD_cons_zero, List.getD_cons_succ]
    exact tails_cst_example hv.hhalf s
  unfold ht Ut
  rw [hc, hW, hU]
  exact tails_boundary_height_example hv.hcH s hs

/-- … hence the executed log-abs-det at `x = left` of that tails program is `log((1+minH)/2) + boxLog`, while the
    identity tail just outside has log-abs-det 0 -/
theorem tails_ld_left (u : ℝ) (hv : QuadValidT e c [0, 0] [u]) (hmW : e c.minW = 0) :
    ld e c [0, 0] [u] (e c.box.left) = Real.log ((1 + e c.minH) / 2) + e (boxLog c.box) := by
  have hc := core_of_validT hv
  unfold ld
  rw [gen_ld hc hv.hbox (runsRest_of_validT hv) _ le_rfl hv.hbox.hlr.le, nx_left, LdN_zero hc,
    tails_boundary_height_not_one u hv hmW]

/-! ### non-vacuity: concrete accepted configurations with a concrete reading of the doubles

(`hbl`, the reading of `boxLog`, is a hypothesis of the derivative theorems only; `Float.log` is opaque to the kernel, so
for a concrete box it can be discharged only conditionally: see `boxLog_example`.) -/

def eNV (f : Float) : ℝ := if f == 0.0 then 0 else 1
def cNV : QCfg := { box := ⟨0.0, 1.0, 0.0, 1.0⟩, minW := 0.0, minH := 0.0 }

private theorem b0 : ((0.0:Float) == 0.0) = true := by decide +kernel
private theorem b1 : ((1.0:Float) == 0.0) = false := by decide +kernel
private theorem b2 : ((1e-6:Float) == 0.0) = false := by decide +kernel
private theorem b3 : (((1:Float) - 0.0 * (1:Nat).toFloat) == 0.0) = false := by decide +kernel
private theorem b4 : (((1.0:Float) - 0.0) == 0.0) = false := by decide +kernel
private theorem b5 : (((1:Float) - 0.0) == 0.0) = false := by decide +kernel
private theorem g1 : ¬ ((0.0:Float) * (1:Nat).toFloat > 1.0) := by decide +kernel

theorem eNV_nonneg (f : Float) : 0 ≤ eNV f := by unfold eNV; split <;> norm_num

theorem valid_example : QuadValid eNV cNV [0] [0, 0] where
  hK := by simp
  hlenh := rfl
  hgW := g1
  hgH := g1
  hmW0 := by simp [eNV, cNV, b0]
  hcW := by simp [eNV, cNV, b0, b3]
  hmWK := by simp [eNV, cNV, b0]
  hmH0 := by simp [eNV, cNV, b0]
  hcH := by simp [eNV, cNV, b0, b5]
  hmH1 := by simp [eNV, cNV, b0]
  h1e3 := eNV_nonneg _
  hbox := ⟨by simp [eNV, cNV, b0, b1], by simp [eNV, cNV, b0, b1, b4], by simp [eNV, cNV, b0, b1], by simp [eNV, cNV, b0, b1, b4]⟩
  heps := by simp [eNV, cNV, b2]

def eT (f : Float) : ℝ := if f == 0.0 then 0 else if f == 0.5 then 1 / 2 else 1
private theorem t1 : ((1.0:Float) == 0.5) = false := by decide +kernel
private theorem t2 : ((1e-6:Float) == 0.5) = false := by decide +kernel
private theorem t3 : (((1:Float) - 0.0 * (2:Nat).toFloat) == 0.0) = false := by decide +kernel
private theorem t3' : (((1:Float) - 0.0 * (2:Nat).toFloat) == 0.5) = false := by decide +kernel
private theorem t4 : (((1.0:Float) - 0.0) == 0.5) = false := by decide +kernel
private theorem t5 : (((1:Float) - 0.0) == 0.5) = false := by decide +kernel
private theorem t6 : ((0.5:Float) == 0.0) = false := by decide +kernel
private theorem t7 : ((0.5:Float) == 0.5) = true := by decide +kernel
private theorem g2 : ¬ ((0.0:Float) * (2:Nat).toFloat > 1.0) := by decide +kernel
theorem eT_nonneg (f : Float) : 0 ≤ eT f := by unfold eT; split_ifs <;> norm_num

theorem valid_example_T : QuadValidT eT cNV [0, 0] [0] where
  huh := by simp
  hlenh := rfl
  hgW := g2
  hgH := g2
  hmW0 := by simp [eT, cNV, b0]
  hcW := by simp [eT, cNV, b0, t3, t3']
  hmWK := by simp [eT, cNV, b0]
  hmH0 := by simp [eT, cNV, b0]
  hcH := by simp [eT, cNV, b0, b5, t5]
  hmH1 := by simp [eT, cNV, b0]
  h1e3 := eT_nonneg _
  hhalf := by simp [eT, t6, t7]
  hbox := ⟨by simp [eT, cNV, b0, b1, t1], by simp [eT, cNV, b0, b1, b4, t1, t4], by simp [eT, cNV, b0, b1, t1], by simp [eT, cNV, b0, b1, b4, t1, t4]⟩
  heps := by simp [eT, cNV, b2, t2]

/-- the `boxLog` hypothesis of `val_hasDerivAt` for the example, given that `Float.log (1.0/1.0)` is `0.0` -/
theorem boxLog_example (h : (boxLog cNV.box == 0.0) = true) :
    eNV (boxLog cNV.box) = Real.log ((eNV cNV.box.top - eNV cNV.box.bottom) / (eNV cNV.box.right - eNV cNV.box.left)) := by
  have : eNV (boxLog cNV.box) = 0 := by simp [eNV, h]
  rw [this]
  simp [eNV, cNV, b0, b1]

/-! ### onto: the executed map is a BIJECTION of `[left,right]` onto `[bottom,top]` (intermediate values inside the bin
whose cdf knots bracket the target) -/


theorem exists_bin (ys : ℕ → ℝ) (y : ℝ) : ∀ K, 0 < K → ys 0 ≤ y → y ≤ ys K → ∃ k < K, ys k ≤ y ∧ y ≤ ys (k+1) := by
  intro K
  induction K with
  | zero => intro h; omega
  | succ n ih =>
    intro _ h0 h1
    by_cases h : ys n ≤ y
    · exact ⟨n, by omega, h, h1⟩
    · have hn : 0 < n := by
        rcases Nat.eq_zero_or_pos n with h' | h'
        · subst h'; exact absurd h0 h
        · exact h'
      obtain ⟨k, hk, hk'⟩ := ih hn h0 (le_of_not_ge h)
      exact ⟨k, by omega, hk'⟩

theorem bin_continuous (k : ℕ) : Continuous (binN e c Wd U k) := by
  have hfun : binN e c Wd U k = fun t => Quad.cdf (ht e c Wd U k) (ht e c Wd U (k+1)) (wd Wd k) (bl e c Wd U k)
      ((t - lc e Wd k) / wd Wd k) := by
    funext z; exact binN_eq k z
  rw [hfun]
  unfold Quad.cdf
  fun_prop

/-- the normalised cdf is onto `[0,1]` -/
theorem GN_surjOn (hv : CoreValid e c Wd U) : Set.SurjOn (GN e c Wd U) (Set.Icc 0 1) (Set.Icc 0 1) := by
  intro y hy
  have hK0 : 0 < Wd.length := List.length_pos_of_ne_nil hv.hK
  obtain ⟨k, hk, hy0, hy1⟩ := exists_bin (bl e c Wd U) y Wd.length hK0 (by rw [bl_zero hv]; exact hy.1) (by rw [bl_last hv]; exact hy.2)
  have hlk := (lc_strict hv k hk).le
  obtain ⟨he0, he1⟩ := bin_endpoints hv k hk
  have hivt := intermediate_value_Icc hlk (bin_continuous (e := e) (c := c) (Wd := Wd) (U := U) k).continuousOn
  rw [he0, he1] at hivt
  obtain ⟨t, ht, hval⟩ := hivt ⟨hy0, hy1⟩
  have hmono := ExecGlue.knots_mono (lc e Wd) Wd.length (lc_strict hv)
  have ht0 : 0 ≤ t := by
    have := hmono 0 k (Nat.zero_le _) hk.le; rw [lc_zero hv] at this; linarith [ht.1]
  have ht1 : t ≤ 1 := by
    have := hmono (k+1) Wd.length hk le_rfl; rw [lc_last hv] at this; linarith [ht.2]
  refine ⟨t, ⟨ht0, ht1⟩, ?_⟩
  rw [ExecGlue.eqOn_bin (lc e Wd) Wd.length (binN e c Wd U) (GN e c Wd U) (idxN e c Wd)
    (lc_strict hv) (search_spec hv).1 (GN_hF c Wd U) (bin_join hv) k hk ht]
  exact hval

section bij
variable {P : ℝ → Except Err (ℝ × ℝ)}
theorem gen_surjOn (hv : CoreValid e c Wd U) (hb : BoxValid e c) (hP : RunsRest e c Wd U P) :
    Set.SurjOn (fun x => valOf (P x)) (Set.Icc (e c.box.left) (e c.box.right)) (Set.Icc (e c.box.bottom) (e c.box.top)) := by
  intro y hy
  have hD : 0 < e c.box.right - e c.box.left := sub_pos.mpr hb.hlr
  have hT : 0 < e c.box.top - e c.box.bottom := sub_pos.mpr hb.hbt
  have hy' : (y - e c.box.bottom) / (e c.box.top - e c.box.bottom) ∈ Set.Icc (0:ℝ) 1 :=
    ⟨div_nonneg (by linarith [hy.1]) hT.le, by rw [div_le_one hT]; linarith [hy.2]⟩
  obtain ⟨t, ht, hval⟩ := GN_surjOn hv hy'
  have hx0 : e c.box.left ≤ e c.box.left + (e c.box.right - e c.box.left) * t := by nlinarith [ht.1]
  have hx1 : e c.box.left + (e c.box.right - e c.box.left) * t ≤ e c.box.right := by nlinarith [ht.2]
  refine ⟨e c.box.left + (e c.box.right - e c.box.left) * t, ⟨hx0, hx1⟩, ?_⟩
  show valOf (P _) = y
  rw [gen_val hv hb hP _ hx0 hx1]
  have hn : nx e c (e c.box.left + (e c.box.right - e c.box.left) * t) = t := by
    unfold nx; field_simp; ring
  rw [hn, hval]
  field_simp
  ring

theorem gen_bijOn (hv : CoreValid e c Wd U) (hb : BoxValid e c) (hP : RunsRest e c Wd U P) :
    Set.BijOn (fun x => valOf (P x)) (Set.Icc (e c.box.left) (e c.box.right)) (Set.Icc (e c.box.bottom) (e c.box.top)) :=
  ⟨gen_mapsTo hv hb hP, (gen_strictMonoOn hv hb hP).injOn, gen_surjOn hv hb hP⟩

end bij

/-- **C09**: the executed quadratic spline (bounded case) is a strictly increasing bijection of `[left,right]` onto `[bottom,top]` -/
theorem val_bijOn (hv : QuadValid e c uw uh) :
    Set.BijOn (val e c uw uh) (Set.Icc (e c.box.left) (e c.box.right)) (Set.Icc (e c.box.bottom) (e c.box.top)) :=
  gen_bijOn (core_of_valid hv) hv.hbox (runsRest_of_valid hv)

/-- … and in the tails case -/
theorem val_bijOn_T (hv : QuadValidT e c uw uh) :
    Set.BijOn (val e c uw uh) (Set.Icc (e c.box.left) (e c.box.right)) (Set.Icc (e c.box.bottom) (e c.box.top)) :=
  gen_bijOn (core_of_validT hv) hv.hbox (runsRest_of_validT hv)

/-! ### the executed log-abs-det is the log of a POSITIVE density (plus the box constant), everywhere in the domain -/

section dens
variable {P : ℝ → Except Err (ℝ × ℝ)}
theorem gen_ld_pos (hv : CoreValid e c Wd U) (hb : BoxValid e c) (hP : RunsRest e c Wd U P)
    (x : ℝ) (hx0 : e c.box.left ≤ x) (hx1 : x ≤ e c.box.right) :
    ∃ p : ℝ, 0 < p ∧ ldOf (P x) = Real.log p + e (boxLog c.box) := by
  obtain ⟨h0, h1⟩ := nx_mem hb x hx0 hx1
  obtain ⟨hiK, hle, hr⟩ := (search_spec hv).1 (nx e c x) (by rw [lc_zero hv]; exact h0) (by rw [lc_last hv]; exact h1)
  set i := idxN e c Wd (nx e c x) with hi
  have hle1 : nx e c x ≤ lc e Wd (i+1) := by
    rcases hr with hr | ⟨hiK', htl⟩
    · exact hr.le
    · rw [hiK', htl]
  have hw := wd_pos hv i hiK
  rw [lc_step hv i hiK] at hle1
  have ha0 : 0 ≤ (nx e c x - lc e Wd i) / wd Wd i := div_nonneg (by linarith) hw.le
  have ha1 : (nx e c x - lc e Wd i) / wd Wd i ≤ 1 := by rw [div_le_one hw]; linarith
  refine ⟨_, Quad.pdf_pos (ht_pos hv i (by omega)) (ht_pos hv (i+1) (by omega)) ha0 ha1, ?_⟩
  rw [gen_ld hv hb hP x hx0 hx1]
  unfold LdN
  rw [← hi, binLdN_eq]
end dens

theorem ld_pos (hv : QuadValid e c uw uh) (x : ℝ) (hx0 : e c.box.left ≤ x) (hx1 : x ≤ e c.box.right) :
    ∃ p : ℝ, 0 < p ∧ ld e c uw uh x = Real.log p + e (boxLog c.box) :=
  gen_ld_pos (core_of_valid hv) hv.hbox (runsRest_of_valid hv) x hx0 hx1

theorem ld_pos_T (hv : QuadValidT e c uw uh) (x : ℝ) (hx0 : e c.box.left ≤ x) (hx1 : x ≤ e c.box.right) :
    ∃ p : ℝ, 0 < p ∧ ld e c uw uh x = Real.log p + e (boxLog c.box) :=
  gen_ld_pos (core_of_validT hv) hv.hbox (runsRest_of_validT hv) x hx0 hx1

/-! ### the one shape excluded from `QuadValidT` -/

/-- tails shape with a single bin (`uh = []`): the padding step indexes the empty height vector — `IndexError`, for every
    in-domain input (the Python code raises the same on `unnorm_heights_exp[..., 0]`) -/
theorem tails_one_bin_error (w x : ℝ) (hx0 : e c.box.left ≤ x) (hx1 : x ≤ e c.box.right)
    (hgW : ¬ (c.minW * ([w] : List ℝ).length.toFloat > 1.0)) (hgH : ¬ (c.minH * ([w] : List ℝ).length.toFloat > 1.0)) :
    quadSpline (NF.realX e) c [w] [] false x = .error .indexError := by
  have hg : ((NF.realX e).lt x ((NF.realX e).ofFloat c.box.left) || (NF.realX e).lt ((NF.realX e).ofFloat c.box.right) x) = false := by
    simp only [NF.realX_lt, NF.realX_ofFloat, Bool.or_eq_false_iff, decide_eq_false_iff_not, not_lt]
    exact ⟨hx0, hx1⟩
  rw [quadSpline_split (NF.realX e) c [w] [] x hg hgW hgH]
  have hl : (flooredSoftmax (NF.realX e) c.minW [w]).length = 1 := Wq_length (e := e) c [w]
  obtain ⟨a, ha⟩ : ∃ a, flooredSoftmax (NF.realX e) c.minW [w] = [a] := by
    match h : flooredSoftmax (NF.realX e) c.minW [w], hl with
    | [a], _ => exact ⟨a, rfl⟩
  rw [ha]
  rfl
end
end QuadWhole
