import NflowsModel.Lemmas.CouplingConsequences
import Mathlib.Logic.Equiv.Fin.Basic
import Mathlib.Algebra.BigOperators.Fin
/-!
# Lemmas/CouplingJacobianImg — the Jacobian of an ITEM of the executed coupling layer on image-shaped inputs (C01)

`Lemmas/CouplingJacobian.lean` proves `ld[b] = log |det J_b|` for the executed coupling layer on 2-D inputs (`S = 1`).
This file does the same for `[B, C, S]` inputs (`S = H·W ≥ 1` pixels per channel, NCHW order): an item is the
`C·S` entries of batch element `b`, entry `k` is pixel `k % S` of channel `k / S`.

* §1 index arithmetic, `isTk`, `itemMap`, `entryElMap`, `entryElLd`.
* §2 `itemMap_apply` (entry by entry), `paramsOf_setRow_congr` (the conditioner sees identity entries only), `itemMap_eq`.
* §3 `layer_ld_entries`: `ld[b]` is the sum over the `C·S` entries of the entry log-dets of the transformed entries.
* §4 `coupling_item_det_img`, `coupling_item_abs_det_img`, **`coupling_item_logdet_img`**.
* §5 the per-entry law for the additive and affine elements, `coupling_additive_item_logdet_img`,
  `coupling_affine_item_logdet_img`.
* §6 `ParamsDiff`, `itemMap_differentiable_{additive,affine,const}`: `hL` reduced to the conditioner;
  `coupling_{additive,affine}_item_logdet_img_diffNet`, `coupling_rq_tails_item_logdet_img_const` (no hypothesis left).
* §7 `AffineNetAt`, `paramsDiff_affineNet`, `coupling_affine_item_logdet_img_affineNet`.
* §8 a concrete instance end to end (`S = 2`, mask `[0, 1]`, non-constant conditioner).
* §9 `layer_ld_channels_pixels`, `coupling_additive_item_det_one_img`.
-/
open NF DualSound

namespace NF.CouplingJacobianImg
open NF.StructureExec NF.ARWhole NF.CouplingJacobian NF.CouplingConsequences NF.FlowRowsExec

/-! ## 1. Definitions -/

/-- entry `k` of an item belongs to a transformed channel (`mask[k / S] > 0`) -/
noncomputable def isTk (e : Float → ℝ) (mask : List ℝ) (S : Nat) (k : Nat) : Bool :=
  (NF.realX e).gt (mask.getD (k / S) (NF.realX e).zero) (NF.realX e).zero

/-- item `b` of a `[B, C, S]` array as a vector of `C·S` entries (NCHW order) -/
noncomputable def itemOf (e : Float → ℝ) (mask : List ℝ) (S b : Nat) (x : Array ℝ) : Fin (mask.length * S) → ℝ :=
  rowOf (NF.realX e) (mask.length * S) b x

/-- item `b` of the executed layer (conditioner in the loop, either pass, no unconditional transform) as a map
    `ℝ^{C·S} → ℝ^{C·S}`: the batch is `x` with item `b` replaced by `v` -/
noncomputable def itemMap (e : Float → ℝ) (c : ElCfg) (mask : List ℝ) (S : Nat) (inverse : Bool)
    (net : Array ℝ → Array ℝ → Array ℝ) (B : Nat) (x ctx : Array ℝ) (b : Nat)
    (v : Fin (mask.length * S) → ℝ) : Fin (mask.length * S) → ℝ :=
  itemOf e mask S b (layer (NF.realX e) c mask S inverse none #[] net B (setRow B (mask.length * S) x b v) ctx).out

/-- the element program of entry `k` of item `b` (pixel `k % S` of channel `k / S`, the channel's position in the
    transform list is `idxOf`) -/
noncomputable def entryEl (e : Float → ℝ) (c : ElCfg) (mask : List ℝ) (S : Nat) (params : Array ℝ) (inverse : Bool)
    (b k : Nat) : ℝ → ElRes ℝ :=
  couplingEl (NF.realX e) c (transformIdx (NF.realX e) mask).length S params inverse b
    ((transformIdx (NF.realX e) mask).idxOf (k / S)) (k % S)

/-- its value (buffer semantics: an element that raises leaves the input) -/
noncomputable def entryElMap (e : Float → ℝ) (c : ElCfg) (mask : List ℝ) (S : Nat) (params : Array ℝ) (inverse : Bool)
    (b k : Nat) (τ : ℝ) : ℝ := applyEl (entryEl e c mask S params inverse b k) τ

/-- the log-det it returns (zero if it raises) -/
noncomputable def entryElLd (e : Float → ℝ) (c : ElCfg) (mask : List ℝ) (S : Nat) (params : Array ℝ) (inverse : Bool)
    (b k : Nat) (τ : ℝ) : ℝ := ldOf (NF.realX e) (entryEl e c mask S params inverse b k τ)

theorem flatIdx_item (C S b k : Nat) : flatIdx C S b (k / S) (k % S) = b * (C * S) + k := by
  unfold flatIdx
  have := Nat.div_add_mod k S
  rw [Nat.add_mul, Nat.mul_assoc, Nat.add_assoc, Nat.mul_comm (k / S) S, this]

theorem flatIdx_item' (C S b ch s : Nat) : flatIdx C S b ch s = b * (C * S) + (ch * S + s) := by
  unfold flatIdx
  rw [Nat.add_mul, Nat.mul_assoc, Nat.add_assoc]

theorem div_lt_of_item {C S k : Nat} (hk : k < C * S) : k / S < C :=
  Nat.div_lt_of_lt_mul (by rwa [Nat.mul_comm] at hk)

theorem S_pos_of_item {C S k : Nat} (hk : k < C * S) : 0 < S := by
  rcases Nat.eq_zero_or_pos S with h | h
  · subst h; simp at hk
  · exact h

theorem item_lt {C S ch s : Nat} (hch : ch < C) (hs : s < S) : ch * S + s < C * S := by
  have : (ch + 1) * S ≤ C * S := Nat.mul_le_mul_right S hch
  rw [Nat.add_mul, Nat.one_mul] at this
  omega

theorem item_div {S ch s : Nat} (hs : s < S) : (ch * S + s) / S = ch := by
  rw [Nat.mul_comm, Nat.mul_add_div (by omega), Nat.div_eq_of_lt hs, Nat.add_zero]

theorem item_mod {S ch s : Nat} (hs : s < S) : (ch * S + s) % S = s := by
  rw [Nat.mul_comm, Nat.mul_add_mod, Nat.mod_eq_of_lt hs]

theorem isTk_iff_mem (e : Float → ℝ) (mask : List ℝ) (S : Nat) {k : Nat} (hk : k < mask.length * S) :
    isTk e mask S k = true ↔ k / S ∈ transformIdx (NF.realX e) mask := by
  simp only [isTk, transformIdx, List.mem_filter, List.mem_range]
  exact ⟨fun h => ⟨div_lt_of_item hk, h⟩, fun h => h.2⟩

theorem itemOf_apply (e : Float → ℝ) (mask : List ℝ) (S b : Nat) (x : Array ℝ) (k : Fin (mask.length * S)) :
    itemOf e mask S b x k = x.getD (flatIdx mask.length S b (k.1 / S) (k.1 % S)) 0 := by
  unfold itemOf rowOf
  rw [flatIdx_one, flatIdx_item, realX_zero]

theorem setRow_item_getElem? (mask : List ℝ) (S B : Nat) (x : Array ℝ) (b : Nat) (v : Fin (mask.length * S) → ℝ)
    {b' : Nat} (hb' : b' < B) {k : Nat} (hk : k < mask.length * S) :
    (setRow B (mask.length * S) x b v)[flatIdx mask.length S b' (k / S) (k % S)]?
      = some (if b' = b then v ⟨k, hk⟩ else x.getD (b' * (mask.length * S) + k) 0) := by
  rw [flatIdx_item, setRow_getElem? B _ x b v hb' hk]

/-! ## 2. The item map entry by entry; the conditioner sees the identity entries only -/

theorem selOut_some (r : ElRes ℝ) (τ : ℝ) : selOut r (some τ) = some (applyEl (fun _ => r) τ) := by
  unfold selOut applyEl
  rcases r with er | ⟨y, l, al⟩ <;> rfl

/-- entry by entry: an identity entry returns its input, a transformed entry the element program of that entry at the
    parameters the conditioner returns for the batch -/
theorem itemMap_apply (e : Float → ℝ) (c : ElCfg) (mask : List ℝ) (S : Nat) (inverse : Bool)
    (net : Array ℝ → Array ℝ → Array ℝ) {B : Nat} (x ctx : Array ℝ) {b : Nat} (hb : b < B)
    (v : Fin (mask.length * S) → ℝ) (k : Fin (mask.length * S)) :
    itemMap e c mask S inverse net B x ctx b v k
      = if isTk e mask S k then
          entryElMap e c mask S (paramsOf (NF.realX e) mask S inverse none #[] net B
            (setRow B (mask.length * S) x b v) ctx) inverse b k (v k)
        else v k := by
  have hS := S_pos_of_item k.2
  have hs : k.1 % S < S := Nat.mod_lt _ hS
  have hch : k.1 / S < mask.length := div_lt_of_item k.2
  have hin : (setRow B (mask.length * S) x b v)[flatIdx mask.length S b (k.1 / S) (k.1 % S)]? = some (v k) := by
    rw [setRow_item_getElem? mask S B x b v hb k.2, if_pos rfl]
  unfold itemMap
  rw [itemOf_apply, Array.getD_eq_getD_getElem?]
  unfold layer
  cases hT : isTk e mask S k with
  | false =>
    have hni : k.1 / S ∉ transformIdx (NF.realX e) mask := fun h => by
      rw [(isTk_iff_mem e mask S k.2).2 h] at hT; exact Bool.noConfusion hT
    rw [coupling_identity_passthrough (NF.realX e) c mask B S _ _ inverse #[] hch hs hni, hin]
    rfl
  | true =>
    have hmem := (isTk_iff_mem e mask S k.2).1 hT
    obtain ⟨ht, hgd⟩ := idxOf_transform (NF.realX e) mask hmem
    have h := coupling_out_transformed (NF.realX e) c mask B S (setRow B (mask.length * S) x b v)
      (paramsOf (NF.realX e) mask S inverse none #[] net B (setRow B (mask.length * S) x b v) ctx) inverse none #[]
      hb ht hs
    rw [hgd, couplingUncond_none, hin, Array.getD_eq_getD_getElem?, hin] at h
    rw [h]
    simp only [Option.getD_some, if_true]
    unfold entryElMap entryEl selOut applyEl
    cases couplingEl (NF.realX e) c (transformIdx (NF.realX e) mask).length S
      (paramsOf (NF.realX e) mask S inverse none #[] net B (setRow B (mask.length * S) x b v) ctx) inverse b
      ((transformIdx (NF.realX e) mask).idxOf (k.1 / S)) (k.1 % S) (v k) <;> rfl

/-- **the conditioner sees only the identity entries** (C07): two items that agree on the entries of the identity
    channels give the same parameter array -/
theorem paramsOf_setRow_congr (e : Float → ℝ) (mask : List ℝ) (S : Nat) (inverse : Bool)
    (net : Array ℝ → Array ℝ → Array ℝ) (B : Nat) (x ctx : Array ℝ) (b : Nat) (v v' : Fin (mask.length * S) → ℝ)
    (h : ∀ k : Fin (mask.length * S), isTk e mask S k = false → v k = v' k) :
    paramsOf (NF.realX e) mask S inverse none #[] net B (setRow B (mask.length * S) x b v) ctx
      = paramsOf (NF.realX e) mask S inverse none #[] net B (setRow B (mask.length * S) x b v') ctx := by
  refine (exec_coupling_param_dependence (NF.realX e) { kind := "additive" } mask S inverse none #[] net ctx ?_).2.1
  intro b' ch s hb' hch hs
  have hlt := (identityIdx_ok (NF.realX e) mask).lt _ hch
  have hk : ch * S + s < mask.length * S := item_lt hlt hs
  have hni : ch ∉ transformIdx (NF.realX e) mask := maskDisjoint_real e mask ch hch
  have hT : isTk e mask S (ch * S + s) = false := by
    cases hT : isTk e mask S (ch * S + s) with
    | false => rfl
    | true =>
      have := (isTk_iff_mem e mask S hk).1 hT
      rw [item_div hs] at this
      exact absurd this hni
  rw [flatIdx_item', setRow_getElem? B _ x b v hb' hk, setRow_getElem? B _ x b v' hb' hk, h ⟨_, hk⟩ hT]

theorem setRow_itemOf (e : Float → ℝ) (mask : List ℝ) (S B : Nat) (x : Array ℝ) (hx : x.size = B * (mask.length * S))
    (b : Nat) : setRow B (mask.length * S) x b (itemOf e mask S b x) = x :=
  setRow_rowOf e B _ x hx b

/-- **the program computes the item map**: at item `b` of `x` itself it is item `b` of the executed output -/
theorem itemMap_self (e : Float → ℝ) (c : ElCfg) (mask : List ℝ) (S : Nat) (inverse : Bool)
    (net : Array ℝ → Array ℝ → Array ℝ) (B : Nat) (x ctx : Array ℝ) (hx : x.size = B * (mask.length * S)) (b : Nat) :
    itemMap e c mask S inverse net B x ctx b (itemOf e mask S b x)
      = itemOf e mask S b (layer (NF.realX e) c mask S inverse none #[] net B x ctx).out := by
  unfold itemMap
  rw [setRow_itemOf e mask S B x hx b]

/-- **dependency structure**: along any `v` that agrees with item `b` of `x` on the identity entries, transformed
    output `k` is the scalar element program AT THE PARAMETERS OF `x` applied to `v k` -/
theorem itemMap_eq (e : Float → ℝ) (c : ElCfg) (mask : List ℝ) (S : Nat) (inverse : Bool)
    (net : Array ℝ → Array ℝ → Array ℝ) {B : Nat} (x ctx : Array ℝ) (hx : x.size = B * (mask.length * S)) {b : Nat}
    (hb : b < B) (v : Fin (mask.length * S) → ℝ)
    (hv : ∀ k : Fin (mask.length * S), isTk e mask S k = false → v k = itemOf e mask S b x k)
    (k : Fin (mask.length * S)) :
    itemMap e c mask S inverse net B x ctx b v k
      = if isTk e mask S k then
          entryElMap e c mask S (paramsOf (NF.realX e) mask S inverse none #[] net B x ctx) inverse b k (v k)
        else v k := by
  rw [itemMap_apply e c mask S inverse net x ctx hb, paramsOf_setRow_congr e mask S inverse net B x ctx b v _ hv,
    setRow_itemOf e mask S B x hx b]

/-! ## 3. `ld[b]` as the sum over the `C·S` entries of the item -/

theorem sum_flatMap_pairs (S : Nat) (h : Nat × Nat → ℝ) (l : List Nat) :
    (List.map h (l.flatMap fun t => (List.range S).map fun s => (t, s))).sum
      = (l.map fun t => ((List.range S).map fun s => h (t, s)).sum).sum := by
  induction l with
  | nil => rfl
  | cons a l ih =>
    rw [List.flatMap_cons, List.map_append, List.sum_append, ih, List.map_cons, List.sum_cons, List.map_map]
    rfl

/-- a sum over the `C·S` entries in NCHW order is the double sum over channels and pixels -/
theorem sum_item (C S : Nat) (H : Nat → Nat → ℝ) :
    ∑ k : Fin (C * S), H (k.1 / S) (k.1 % S) = ∑ i : Fin C, ∑ s : Fin S, H i s := by
  rw [← Fintype.sum_prod_type']
  symm
  apply Fintype.sum_equiv finProdFinEquiv
  rintro ⟨i, s⟩
  have h1 : (finProdFinEquiv (i, s)).1 = s.1 + S * i.1 := rfl
  have hS : 0 < S := by have := s.2; omega
  simp only [h1]
  rw [Nat.add_mul_div_left _ _ hS, Nat.div_eq_of_lt s.2, Nat.add_mul_mod_self_left, Nat.mod_eq_of_lt s.2, Nat.zero_add]

/-- **the returned log-det of item `b`** (reals, any `S`, any conditioner, either pass): the sum over the `C·S` entries
    of the element log-dets of the entries of the transformed channels (`0` where an element raised) -/
theorem layer_ld_entries (e : Float → ℝ) (c : ElCfg) (mask : List ℝ) (S : Nat) (inverse : Bool)
    (net : Array ℝ → Array ℝ → Array ℝ) {B : Nat} (x ctx : Array ℝ) {b : Nat} (hb : b < B) :
    (layer (NF.realX e) c mask S inverse none #[] net B x ctx).ld[b]?
      = some (∑ k : Fin (mask.length * S), if isTk e mask S k then
          entryElLd e c mask S (paramsOf (NF.realX e) mask S inverse none #[] net B x ctx) inverse b k
            (itemOf e mask S b x k) else 0) := by
  unfold layer
  set params := paramsOf (NF.realX e) mask S inverse none #[] net B x ctx with hparams
  rw [coupling_ld_real_sum e c mask B S x params inverse none #[] hb, rowResults_none]
  congr 1
  set G : Nat → Nat → ℝ := fun ch s =>
    ldOf (NF.realX e) (couplingEl (NF.realX e) c (transformIdx (NF.realX e) mask).length S params inverse b
      ((transformIdx (NF.realX e) mask).idxOf ch) s (x.getD (flatIdx mask.length S b ch s) 0)) with hG
  have hlist : (List.range (transformIdx (NF.realX e) mask).length)
      = (transformIdx (NF.realX e) mask).map (fun ch => (transformIdx (NF.realX e) mask).idxOf ch) := by
    apply List.ext_getElem
    · simp
    · intro t h1 h2
      simp only [List.getElem_range, List.getElem_map]
      exact ((transformIdx_ok (NF.realX e) mask).nodup.idxOf_getElem t (by simpa using h1)).symm
  have hsum : (List.map (ldOf (NF.realX e))
      (List.map (fun ts : Nat × Nat =>
          couplingEl (NF.realX e) c (transformIdx (NF.realX e) mask).length S params inverse b ts.1 ts.2
            (x.getD (flatIdx mask.length S b ((transformIdx (NF.realX e) mask).getD ts.1 0) ts.2) (NF.realX e).zero))
        (rowIter (transformIdx (NF.realX e) mask).length S))).sum
      = ((transformIdx (NF.realX e) mask).map fun ch => ((List.range S).map (G ch)).sum).sum := by
    rw [List.map_map]
    unfold rowIter
    rw [sum_flatMap_pairs, hlist, List.map_map]
    congr 1
    apply List.map_congr_left
    intro ch hch
    obtain ⟨_, hgd⟩ := idxOf_transform (NF.realX e) mask hch
    simp only [Function.comp, hgd, hG, realX_zero]
  rw [hsum]
  unfold transformIdx
  rw [sum_map_filter_range]
  have hR : (∑ k : Fin (mask.length * S), if isTk e mask S k then
        entryElLd e c mask S params inverse b k (itemOf e mask S b x k) else 0)
      = ∑ k : Fin (mask.length * S),
          (fun ch s => if (NF.realX e).gt (mask.getD ch (NF.realX e).zero) (NF.realX e).zero then G ch s else 0)
            (k.1 / S) (k.1 % S) := by
    apply Finset.sum_congr rfl
    intro k _
    simp only [isTk, entryElLd, entryEl, itemOf_apply, hG]
  rw [hR]
  refine Eq.trans ?_ (sum_item mask.length S
    (fun ch s => if (NF.realX e).gt (mask.getD ch (NF.realX e).zero) (NF.realX e).zero then G ch s else 0)).symm
  apply Finset.sum_congr rfl
  intro i _
  rw [sum_map_range]
  split
  · rfl
  · simp

/-! ## 4. C01: the Jacobian of the item map is triangular up to the permutation "identity entries first" -/

/-- the rank function: entries of identity channels first, then the entries of the transformed channels -/
noncomputable def entryRank (e : Float → ℝ) (mask : List ℝ) (S : Nat) (k : Fin (mask.length * S)) : ℕ :=
  if isTk e mask S k then 1 else 0

/-- the determinant of the Jacobian of the item map is the product of the element derivatives of the transformed entries -/
theorem coupling_item_det_img (e : Float → ℝ) (c : ElCfg) (mask : List ℝ) (S : Nat) (inverse : Bool)
    (net : Array ℝ → Array ℝ → Array ℝ) {B : Nat} (x ctx : Array ℝ) (hx : x.size = B * (mask.length * S)) {b : Nat}
    (hb : b < B) {L : (Fin (mask.length * S) → ℝ) →L[ℝ] (Fin (mask.length * S) → ℝ)}
    (hL : HasFDerivAt (itemMap e c mask S inverse net B x ctx b) L (itemOf e mask S b x))
    (d : Fin (mask.length * S) → ℝ)
    (hdiag : ∀ k : Fin (mask.length * S), isTk e mask S k = true →
      HasDerivAt (entryElMap e c mask S (paramsOf (NF.realX e) mask S inverse none #[] net B x ctx) inverse b k) (d k)
        (itemOf e mask S b x k)) :
    LinearMap.det (L : (Fin (mask.length * S) → ℝ) →ₗ[ℝ] (Fin (mask.length * S) → ℝ))
      = ∏ k : Fin (mask.length * S), if isTk e mask S k then d k else 1 := by
  set v0 : Fin (mask.length * S) → ℝ := itemOf e mask S b x with hv0
  have hline : ∀ (j : Fin (mask.length * S)) (t : ℝ), isTk e mask S j = true →
      ∀ k : Fin (mask.length * S), isTk e mask S k = false →
        (v0 + t • (Pi.single j (1 : ℝ) : Fin (mask.length * S) → ℝ)) k = v0 k := by
    intro j t hj k hk
    have hne : k ≠ j := fun h => by rw [h, hj] at hk; exact Bool.noConfusion hk
    simp [hne]
  apply RankedDet.det_of_ranked_dependency hL (entryRank e mask S)
  · intro i j hji hr t
    have hne : i ≠ j := fun h => hji h.symm
    cases hi : isTk e mask S i with
    | false =>
      rw [itemMap_apply e c mask S inverse net x ctx hb, itemMap_apply e c mask S inverse net x ctx hb, hi]
      simp [hne]
    | true =>
      have hj : isTk e mask S j = true := by
        cases hj : isTk e mask S j with
        | true => rfl
        | false => exact absurd (by simp [entryRank, hi, hj]) hr
      rw [itemMap_eq e c mask S inverse net x ctx hx hb _ (hline j t hj) i,
        itemMap_eq e c mask S inverse net x ctx hx hb v0 (fun _ _ => rfl) i, hi]
      simp [hne]
  · intro i
    cases hi : isTk e mask S i with
    | false =>
      have hfun : (fun t : ℝ => itemMap e c mask S inverse net B x ctx b (v0 + t • Pi.single i 1) i)
          = fun t : ℝ => v0 i + t := by
        funext t
        rw [itemMap_apply e c mask S inverse net x ctx hb, hi]
        simp
      rw [hfun]
      simpa using (hasDerivAt_id (0 : ℝ)).const_add (v0 i)
    | true =>
      have hfun : (fun t : ℝ => itemMap e c mask S inverse net B x ctx b (v0 + t • Pi.single i 1) i)
          = fun t : ℝ => entryElMap e c mask S (paramsOf (NF.realX e) mask S inverse none #[] net B x ctx) inverse b i
              (v0 i + t) := by
        funext t
        rw [itemMap_eq e c mask S inverse net x ctx hx hb _ (hline i t hi) i, hi]
        simp
      rw [hfun]
      have h := hdiag i hi
      have h0 : v0 i = v0 i + 0 := by simp
      rw [h0] at h
      simpa using h.comp_const_add (v0 i) 0

/-- **C01 (executed coupling layer, image-shaped inputs)**: `∃ l, ld[b]? = some l ∧ |det L| = exp l` -/
theorem coupling_item_abs_det_img (e : Float → ℝ) (c : ElCfg) (mask : List ℝ) (S : Nat) (inverse : Bool)
    (net : Array ℝ → Array ℝ → Array ℝ) {B : Nat} (x ctx : Array ℝ) (hx : x.size = B * (mask.length * S)) {b : Nat}
    (hb : b < B) {L : (Fin (mask.length * S) → ℝ) →L[ℝ] (Fin (mask.length * S) → ℝ)}
    (hL : HasFDerivAt (itemMap e c mask S inverse net B x ctx b) L (itemOf e mask S b x))
    (hdiag : ∀ k : Fin (mask.length * S), isTk e mask S k = true →
      HasDerivAt (entryElMap e c mask S (paramsOf (NF.realX e) mask S inverse none #[] net B x ctx) inverse b k)
        (Real.exp (entryElLd e c mask S (paramsOf (NF.realX e) mask S inverse none #[] net B x ctx) inverse b k
          (itemOf e mask S b x k)))
        (itemOf e mask S b x k)) :
    ∃ l, (layer (NF.realX e) c mask S inverse none #[] net B x ctx).ld[b]? = some l ∧ |L.det| = Real.exp l := by
  refine ⟨_, layer_ld_entries e c mask S inverse net x ctx hb, ?_⟩
  rw [ContinuousLinearMap.det, coupling_item_det_img e c mask S inverse net x ctx hx hb hL _ hdiag, Real.exp_sum,
    abs_of_pos (Finset.prod_pos fun i _ => by split <;> first | exact Real.exp_pos _ | exact one_pos)]
  apply Finset.prod_congr rfl
  intro i _
  split <;> simp

/-- **C01, headline: `ld[b] = log |det J_b|` for `[B, C, S]` inputs.**  For ANY conditioner `net` (run on what the
    program hands it: the identity channels and the context), ANY mask, any `S`, either pass: if the item map
    (`C·S` entries of batch element `b`, NCHW order, the rest of the batch held fixed) has Fréchet derivative `L` at item
    `b` of `x` and every entry of a transformed channel obeys the per-element law (derivative of the element program =
    `exp` of the log-det it returns), then entry `b` of the log-abs-det the executed layer returns is `log |det L|` -/
theorem coupling_item_logdet_img (e : Float → ℝ) (c : ElCfg) (mask : List ℝ) (S : Nat) (inverse : Bool)
    (net : Array ℝ → Array ℝ → Array ℝ) {B : Nat} (x ctx : Array ℝ) (hx : x.size = B * (mask.length * S)) {b : Nat}
    (hb : b < B) {L : (Fin (mask.length * S) → ℝ) →L[ℝ] (Fin (mask.length * S) → ℝ)}
    (hL : HasFDerivAt (itemMap e c mask S inverse net B x ctx b) L (itemOf e mask S b x))
    (hdiag : ∀ k : Fin (mask.length * S), isTk e mask S k = true →
      HasDerivAt (entryElMap e c mask S (paramsOf (NF.realX e) mask S inverse none #[] net B x ctx) inverse b k)
        (Real.exp (entryElLd e c mask S (paramsOf (NF.realX e) mask S inverse none #[] net B x ctx) inverse b k
          (itemOf e mask S b x k)))
        (itemOf e mask S b x k)) :
    (layer (NF.realX e) c mask S inverse none #[] net B x ctx).ld[b]?
      = some (Real.log |LinearMap.det (L : (Fin (mask.length * S) → ℝ) →ₗ[ℝ] (Fin (mask.length * S) → ℝ))|) := by
  obtain ⟨l, hl, hdet⟩ := coupling_item_abs_det_img e c mask S inverse net x ctx hx hb hL hdiag
  rw [hl]
  rw [ContinuousLinearMap.det] at hdet
  rw [hdet, Real.log_exp]

/-! ## 5. The per-entry law discharged: additive, affine, RQ with linear tails (any `S`, either pass) -/

/-- an element that is `τ ↦ τ * scale + shift` with log-det `log scale`, `scale > 0`, obeys the law everywhere -/
theorem entryLaw_of_affine_form {e : Float → ℝ} {c : ElCfg} {mask : List ℝ} {S : Nat} {params : Array ℝ}
    {inverse : Bool} {b k : Nat} {scale shift : ℝ} (hs : 0 < scale)
    (h : ∀ τ, entryEl e c mask S params inverse b k τ = .ok (τ * scale + shift, Real.log scale, [])) (x : ℝ) :
    HasDerivAt (entryElMap e c mask S params inverse b k) (Real.exp (entryElLd e c mask S params inverse b k x)) x := by
  have hf : entryElMap e c mask S params inverse b k = fun τ => τ * scale + shift := by
    funext τ; simp [entryElMap, applyEl, h]
  have hl : entryElLd e c mask S params inverse b k x = Real.log scale := by simp [entryElLd, ldOf, h]
  rw [hf, hl, Real.exp_log hs]
  simpa using ((hasDerivAt_id x).mul_const scale).add_const shift

/-- an element that is `τ ↦ (τ - shift) / scale` with log-det `- log scale`, `scale > 0`, obeys the law everywhere -/
theorem entryLaw_of_affine_form_inv {e : Float → ℝ} {c : ElCfg} {mask : List ℝ} {S : Nat} {params : Array ℝ}
    {inverse : Bool} {b k : Nat} {scale shift : ℝ} (hs : 0 < scale)
    (h : ∀ τ, entryEl e c mask S params inverse b k τ = .ok ((τ - shift) / scale, -Real.log scale, [])) (x : ℝ) :
    HasDerivAt (entryElMap e c mask S params inverse b k) (Real.exp (entryElLd e c mask S params inverse b k x)) x := by
  have hf : entryElMap e c mask S params inverse b k = fun τ => (τ - shift) / scale := by
    funext τ; simp [entryElMap, applyEl, h]
  have hl : entryElLd e c mask S params inverse b k x = -Real.log scale := by simp [entryElLd, ldOf, h]
  rw [hf, hl, Real.exp_neg, Real.exp_log hs]
  simpa using ((hasDerivAt_id x).sub_const shift).div_const scale

/-- additive coupling: the law holds for every parameter array at every real, every entry, both directions -/
theorem entryElMap_additive_hasDerivAt (e : Float → ℝ) (c : ElCfg) (hk : c.kind = "additive") (mask : List ℝ) (S : Nat)
    (params : Array ℝ) (inverse : Bool) (b k : Nat) (x : ℝ) :
    HasDerivAt (entryElMap e c mask S params inverse b k) (Real.exp (entryElLd e c mask S params inverse b k x)) x := by
  have hk1 : (c.kind == "affine") = false := by rw [hk]; decide
  have hk2 : (c.kind == "additive") = true := by rw [hk]; decide
  cases inverse
  · refine entryLaw_of_affine_form (scale := 1)
      (shift := params.getD ((b * (transformIdx (NF.realX e) mask).length
        + (transformIdx (NF.realX e) mask).idxOf (k / S)) * S + k % S) 0) one_pos (fun τ => ?_) x
    simp only [entryEl, couplingEl, hk1, hk2, Bool.false_eq_true, if_false, if_true, scaleShiftT, Except.map, realX_add,
      realX_mul, realX_log, realX_one, realX_zero]
  · refine entryLaw_of_affine_form_inv (scale := 1)
      (shift := params.getD ((b * (transformIdx (NF.realX e) mask).length
        + (transformIdx (NF.realX e) mask).idxOf (k / S)) * S + k % S) 0) one_pos (fun τ => ?_) x
    simp only [entryEl, couplingEl, hk1, hk2, Bool.false_eq_true, if_false, if_true, scaleShiftT, Except.map, realX_sub,
      realX_div, realX_neg, realX_log, realX_one, realX_zero]

/-- affine coupling (both scale activations, both directions): the law holds for every parameter array at every real,
    every entry, as soon as the constant `1e-3` is read as a non-negative real -/
theorem entryElMap_affine_hasDerivAt (e : Float → ℝ) (he : 0 ≤ e 1e-3) (c : ElCfg) (hk : c.kind = "affine")
    (mask : List ℝ) (S : Nat) (params : Array ℝ) (inverse : Bool) (b k : Nat) (x : ℝ) :
    HasDerivAt (entryElMap e c mask S params inverse b k) (Real.exp (entryElLd e c mask S params inverse b k x)) x := by
  have hk1 : (c.kind == "affine") = true := by rw [hk]; decide
  cases inverse
  · refine entryLaw_of_affine_form
      (scale := affScale e c.act (params.getD ((b * (2 * (transformIdx (NF.realX e) mask).length)
        + ((transformIdx (NF.realX e) mask).length + (transformIdx (NF.realX e) mask).idxOf (k / S))) * S + k % S)
        (NF.realX e).zero))
      (shift := params.getD ((b * (2 * (transformIdx (NF.realX e) mask).length)
        + (transformIdx (NF.realX e) mask).idxOf (k / S)) * S + k % S) (NF.realX e).zero)
      (affineScale_pos e he c.act _) (fun τ => ?_) x
    simp only [entryEl, couplingEl, hk1, if_true, Bool.false_eq_true, if_false, scaleShiftT, Except.map]
    rfl
  · refine entryLaw_of_affine_form_inv
      (scale := affScale e c.act (params.getD ((b * (2 * (transformIdx (NF.realX e) mask).length)
        + ((transformIdx (NF.realX e) mask).length + (transformIdx (NF.realX e) mask).idxOf (k / S))) * S + k % S)
        (NF.realX e).zero))
      (shift := params.getD ((b * (2 * (transformIdx (NF.realX e) mask).length)
        + (transformIdx (NF.realX e) mask).idxOf (k / S)) * S + k % S) (NF.realX e).zero)
      (affineScale_pos e he c.act _) (fun τ => ?_) x
    simp only [entryEl, couplingEl, hk1, if_true, scaleShiftT, Except.map]
    rfl

/-- the RQ element with linear tails never raises: the buffer semantics `applyEl` is `outOf` -/
theorem entryElMap_rq_tails (e : Float → ℝ) (c : ElCfg) (hc : RQTailsCfgValid e c) (mask : List ℝ) (S : Nat)
    (params : Array ℝ) (inverse : Bool) (b k : Nat) :
    entryElMap e c mask S params inverse b k
      = fun z => outOf (NF.realX e) (entryEl e c mask S params inverse b k z) := by
  have hk1 : c.kind ≠ "affine" := by rw [hc.hk]; decide
  have hk2 : c.kind ≠ "additive" := by rw [hc.hk]; decide
  funext z
  have hv := rqTailsSliceValid_of_cfg hc (condSlice (NF.realX e) c.mult (transformIdx (NF.realX e) mask).length S params b
    ((transformIdx (NF.realX e) mask).idxOf (k / S)) (k % S)) (by rw [condSlice_length, mult_rq_tails hc.hk hc.ht])
  unfold entryElMap entryEl applyEl
  rw [couplingEl_spline (NF.realX e) c S params inverse hk1 hk2]
  cases inverse
  · rw [(rqTails_el_total e c hc.hk hc.ht _ hv z).1]; rfl
  · rw [(rqTails_el_total e c hc.hk hc.ht _ hv z).2]; rfl

/-- RQ coupling with linear tails: the law holds for every parameter array at EVERY real (knots included), every entry,
    both directions -/
theorem entryElMap_rq_tails_hasDerivAt (e : Float → ℝ) (c : ElCfg) (hc : RQTailsCfgValid e c)
    (hp : TailsWhole.PadExact e (tMD c) (tBe c)) (mask : List ℝ) (S : Nat) (params : Array ℝ) (inverse : Bool)
    (b k : Nat) (x : ℝ) :
    HasDerivAt (entryElMap e c mask S params inverse b k) (Real.exp (entryElLd e c mask S params inverse b k x)) x := by
  rw [entryElMap_rq_tails e c hc]
  exact couplingEl_rq_tails_hasDerivAt e c hc hp _ S params inverse b _ _ x

/-- **C01, additive coupling on `[B, C, S]` inputs, either pass**: `ld[b] = log |det J_b|` (both are `0`), whatever the
    conditioner; only differentiability of the item map (`hL`) is left -/
theorem coupling_additive_item_logdet_img (e : Float → ℝ) (c : ElCfg) (hk : c.kind = "additive") (mask : List ℝ)
    (S : Nat) (inverse : Bool) (net : Array ℝ → Array ℝ → Array ℝ) {B : Nat} (x ctx : Array ℝ)
    (hx : x.size = B * (mask.length * S)) {b : Nat} (hb : b < B)
    {L : (Fin (mask.length * S) → ℝ) →L[ℝ] (Fin (mask.length * S) → ℝ)}
    (hL : HasFDerivAt (itemMap e c mask S inverse net B x ctx b) L (itemOf e mask S b x)) :
    (layer (NF.realX e) c mask S inverse none #[] net B x ctx).ld[b]?
      = some (Real.log |LinearMap.det (L : (Fin (mask.length * S) → ℝ) →ₗ[ℝ] (Fin (mask.length * S) → ℝ))|) :=
  coupling_item_logdet_img e c mask S inverse net x ctx hx hb hL
    fun k _ => entryElMap_additive_hasDerivAt e c hk mask S _ inverse b k _

/-- **C01, affine coupling on `[B, C, S]` inputs, either pass** -/
theorem coupling_affine_item_logdet_img (e : Float → ℝ) (he : 0 ≤ e 1e-3) (c : ElCfg) (hk : c.kind = "affine")
    (mask : List ℝ) (S : Nat) (inverse : Bool) (net : Array ℝ → Array ℝ → Array ℝ) {B : Nat} (x ctx : Array ℝ)
    (hx : x.size = B * (mask.length * S)) {b : Nat} (hb : b < B)
    {L : (Fin (mask.length * S) → ℝ) →L[ℝ] (Fin (mask.length * S) → ℝ)}
    (hL : HasFDerivAt (itemMap e c mask S inverse net B x ctx b) L (itemOf e mask S b x)) :
    (layer (NF.realX e) c mask S inverse none #[] net B x ctx).ld[b]?
      = some (Real.log |LinearMap.det (L : (Fin (mask.length * S) → ℝ) →ₗ[ℝ] (Fin (mask.length * S) → ℝ))|) :=
  coupling_item_logdet_img e c mask S inverse net x ctx hx hb hL
    fun k _ => entryElMap_affine_hasDerivAt e he c hk mask S _ inverse b k _

/-- **C01, RQ coupling with linear tails on `[B, C, S]` inputs, either pass, at EVERY real item** -/
theorem coupling_rq_tails_item_logdet_img (e : Float → ℝ) (c : ElCfg) (hc : RQTailsCfgValid e c)
    (hp : TailsWhole.PadExact e (tMD c) (tBe c)) (mask : List ℝ) (S : Nat) (inverse : Bool)
    (net : Array ℝ → Array ℝ → Array ℝ) {B : Nat} (x ctx : Array ℝ) (hx : x.size = B * (mask.length * S)) {b : Nat}
    (hb : b < B) {L : (Fin (mask.length * S) → ℝ) →L[ℝ] (Fin (mask.length * S) → ℝ)}
    (hL : HasFDerivAt (itemMap e c mask S inverse net B x ctx b) L (itemOf e mask S b x)) :
    (layer (NF.realX e) c mask S inverse none #[] net B x ctx).ld[b]?
      = some (Real.log |LinearMap.det (L : (Fin (mask.length * S) → ℝ) →ₗ[ℝ] (Fin (mask.length * S) → ℝ))|) :=
  coupling_item_logdet_img e c mask S inverse net x ctx hx hb hL
    fun k _ => entryElMap_rq_tails_hasDerivAt e c hc hp mask S _ inverse b k _

/-! ## 6. The differentiability hypothesis `hL` reduces to the conditioner (additive / affine), and is satisfiable -/

/-- every entry of the parameter array the conditioner returns (run, as the program does, on what `condInOf` hands it for
    the batch with item `b` replaced by `v`) is a differentiable function of the item `v` -/
def ParamsDiff (e : Float → ℝ) (mask : List ℝ) (S : Nat) (inverse : Bool) (net : Array ℝ → Array ℝ → Array ℝ)
    (B : Nat) (x ctx : Array ℝ) (b : Nat) : Prop :=
  ∀ j, Differentiable ℝ fun v : Fin (mask.length * S) → ℝ =>
    (paramsOf (NF.realX e) mask S inverse none #[] net B (setRow B (mask.length * S) x b v) ctx).getD j 0

/-- a conditioner that ignores its input (zero last-layer weights, arbitrary biases) is `ParamsDiff` -/
theorem paramsDiff_const (e : Float → ℝ) (mask : List ℝ) (S : Nat) (inverse : Bool) (params : Array ℝ)
    (B : Nat) (x ctx : Array ℝ) (b : Nat) : ParamsDiff e mask S inverse (fun _ _ => params) B x ctx b := by
  intro j
  unfold paramsOf
  exact differentiable_const _

theorem entryElMap_additive (e : Float → ℝ) (c : ElCfg) (hk : c.kind = "additive") (mask : List ℝ) (S : Nat)
    (params : Array ℝ) (b k : Nat) (τ : ℝ) :
    entryElMap e c mask S params false b k τ
      = τ * 1 + params.getD ((b * (transformIdx (NF.realX e) mask).length
          + (transformIdx (NF.realX e) mask).idxOf (k / S)) * S + k % S) 0 := by
  have hk1 : (c.kind == "affine") = false := by rw [hk]; decide
  have hk2 : (c.kind == "additive") = true := by rw [hk]; decide
  simp only [entryElMap, applyEl, entryEl, couplingEl, hk1, hk2, Bool.false_eq_true, if_false, if_true, scaleShiftT,
    Except.map, realX_add, realX_mul, realX_one, realX_zero]

theorem entryElMap_additive_inv (e : Float → ℝ) (c : ElCfg) (hk : c.kind = "additive") (mask : List ℝ) (S : Nat)
    (params : Array ℝ) (b k : Nat) (τ : ℝ) :
    entryElMap e c mask S params true b k τ
      = (τ - params.getD ((b * (transformIdx (NF.realX e) mask).length
          + (transformIdx (NF.realX e) mask).idxOf (k / S)) * S + k % S) 0) / 1 := by
  have hk1 : (c.kind == "affine") = false := by rw [hk]; decide
  have hk2 : (c.kind == "additive") = true := by rw [hk]; decide
  simp only [entryElMap, applyEl, entryEl, couplingEl, hk1, hk2, Bool.false_eq_true, if_false, if_true, scaleShiftT,
    Except.map, realX_sub, realX_div, realX_one, realX_zero]

/-- **additive coupling (NICE), image-shaped inputs: the item map is differentiable as soon as the conditioner is
    entry-wise differentiable** — any mask, any `S`, either pass -/
theorem itemMap_differentiable_additive (e : Float → ℝ) (c : ElCfg) (hk : c.kind = "additive") (mask : List ℝ) (S : Nat)
    (inverse : Bool) (net : Array ℝ → Array ℝ → Array ℝ) {B : Nat} (x ctx : Array ℝ) {b : Nat} (hb : b < B)
    (hnet : ParamsDiff e mask S inverse net B x ctx b) :
    Differentiable ℝ (itemMap e c mask S inverse net B x ctx b) := by
  rw [differentiable_pi]
  intro k
  have hfun : (fun v => itemMap e c mask S inverse net B x ctx b v k)
      = fun v => if isTk e mask S k then
          entryElMap e c mask S (paramsOf (NF.realX e) mask S inverse none #[] net B
            (setRow B (mask.length * S) x b v) ctx) inverse b k (v k)
        else v k := by
    funext v
    exact itemMap_apply e c mask S inverse net x ctx hb v k
  rw [hfun]
  cases hi : isTk e mask S k with
  | false => simpa using differentiable_apply k
  | true =>
    simp only [if_true]
    cases inverse
    · simp only [entryElMap_additive e c hk]
      exact ((differentiable_apply k).mul_const 1).add (hnet _)
    · simp only [entryElMap_additive_inv e c hk]
      have hk' : Differentiable ℝ (fun v : Fin (mask.length * S) → ℝ => v k) := differentiable_apply k
      have h2 : Differentiable ℝ (fun v : Fin (mask.length * S) → ℝ => v k
          - (paramsOf (NF.realX e) mask S true none #[] net B (setRow B (mask.length * S) x b v) ctx).getD
            ((b * (transformIdx (NF.realX e) mask).length
              + (transformIdx (NF.realX e) mask).idxOf (k.1 / S)) * S + k.1 % S) 0) := hk'.sub (hnet _)
      simp only [div_one]
      exact h2

/-- **C01, additive coupling on `[B, C, S]` inputs with ANY entry-wise differentiable conditioner, no hypothesis left**:
    `ld[b] = log |det (D itemMap)|` -/
theorem coupling_additive_item_logdet_img_diffNet (e : Float → ℝ) (c : ElCfg) (hk : c.kind = "additive")
    (mask : List ℝ) (S : Nat) (inverse : Bool) (net : Array ℝ → Array ℝ → Array ℝ) {B : Nat} (x ctx : Array ℝ)
    (hx : x.size = B * (mask.length * S)) {b : Nat} (hb : b < B) (hnet : ParamsDiff e mask S inverse net B x ctx b) :
    (layer (NF.realX e) c mask S inverse none #[] net B x ctx).ld[b]?
      = some (Real.log |LinearMap.det
          (fderiv ℝ (itemMap e c mask S inverse net B x ctx b) (itemOf e mask S b x)
            : (Fin (mask.length * S) → ℝ) →ₗ[ℝ] (Fin (mask.length * S) → ℝ))|) :=
  coupling_additive_item_logdet_img e c hk mask S inverse net x ctx hx hb
    ((itemMap_differentiable_additive e c hk mask S inverse net x ctx hb hnet) _).hasFDerivAt

theorem entryElMap_affine (e : Float → ℝ) (c : ElCfg) (hk : c.kind = "affine") (mask : List ℝ) (S : Nat)
    (params : Array ℝ) (b k : Nat) (τ : ℝ) :
    entryElMap e c mask S params false b k τ
      = τ * affScale e c.act (params.getD ((b * (2 * (transformIdx (NF.realX e) mask).length)
            + ((transformIdx (NF.realX e) mask).length + (transformIdx (NF.realX e) mask).idxOf (k / S))) * S + k % S) 0)
        + params.getD ((b * (2 * (transformIdx (NF.realX e) mask).length)
            + (transformIdx (NF.realX e) mask).idxOf (k / S)) * S + k % S) 0 := by
  have hk1 : (c.kind == "affine") = true := by rw [hk]; decide
  rw [← realX_zero e]
  simp only [entryElMap, applyEl, entryEl, couplingEl, hk1, if_true, Bool.false_eq_true, if_false, scaleShiftT, Except.map]
  rfl

theorem entryElMap_affine_inv (e : Float → ℝ) (c : ElCfg) (hk : c.kind = "affine") (mask : List ℝ) (S : Nat)
    (params : Array ℝ) (b k : Nat) (τ : ℝ) :
    entryElMap e c mask S params true b k τ
      = (τ - params.getD ((b * (2 * (transformIdx (NF.realX e) mask).length)
            + (transformIdx (NF.realX e) mask).idxOf (k / S)) * S + k % S) 0)
        / affScale e c.act (params.getD ((b * (2 * (transformIdx (NF.realX e) mask).length)
            + ((transformIdx (NF.realX e) mask).length + (transformIdx (NF.realX e) mask).idxOf (k / S))) * S + k % S) 0) := by
  have hk1 : (c.kind == "affine") = true := by rw [hk]; decide
  rw [← realX_zero e]
  simp only [entryElMap, applyEl, entryEl, couplingEl, hk1, if_true, scaleShiftT, Except.map]
  rfl

/-- **affine coupling (RealNVP, default scale activation), image-shaped inputs: the item map is differentiable as soon as
    the conditioner is entry-wise differentiable** — any mask, any `S`, either pass -/
theorem itemMap_differentiable_affine (e : Float → ℝ) (he : 0 ≤ e 1e-3) (c : ElCfg) (hk : c.kind = "affine")
    (hact : (c.act == "general") = false) (mask : List ℝ) (S : Nat)
    (inverse : Bool) (net : Array ℝ → Array ℝ → Array ℝ) {B : Nat} (x ctx : Array ℝ) {b : Nat} (hb : b < B)
    (hnet : ParamsDiff e mask S inverse net B x ctx b) :
    Differentiable ℝ (itemMap e c mask S inverse net B x ctx b) := by
  rw [differentiable_pi]
  intro k
  have hfun : (fun v => itemMap e c mask S inverse net B x ctx b v k)
      = fun v => if isTk e mask S k then
          entryElMap e c mask S (paramsOf (NF.realX e) mask S inverse none #[] net B
            (setRow B (mask.length * S) x b v) ctx) inverse b k (v k)
        else v k := by
    funext v
    exact itemMap_apply e c mask S inverse net x ctx hb v k
  rw [hfun]
  cases hi : isTk e mask S k with
  | false => simpa using differentiable_apply k
  | true =>
    simp only [if_true]
    cases inverse
    · simp only [entryElMap_affine e c hk]
      exact ((differentiable_apply k).mul ((affScale_differentiable e hact).comp (hnet _))).add (hnet _)
    · simp only [entryElMap_affine_inv e c hk]
      have hk' : Differentiable ℝ (fun v : Fin (mask.length * S) → ℝ => v k) := differentiable_apply k
      have h1 : Differentiable ℝ (fun v : Fin (mask.length * S) → ℝ => affScale e c.act
          ((paramsOf (NF.realX e) mask S true none #[] net B (setRow B (mask.length * S) x b v) ctx).getD
            ((b * (2 * (transformIdx (NF.realX e) mask).length)
              + ((transformIdx (NF.realX e) mask).length + (transformIdx (NF.realX e) mask).idxOf (k.1 / S))) * S
              + k.1 % S) 0)) :=
        (affScale_differentiable e hact).comp (hnet _)
      have h2 : Differentiable ℝ (fun v : Fin (mask.length * S) → ℝ => v k
          - (paramsOf (NF.realX e) mask S true none #[] net B (setRow B (mask.length * S) x b v) ctx).getD
            ((b * (2 * (transformIdx (NF.realX e) mask).length)
              + (transformIdx (NF.realX e) mask).idxOf (k.1 / S)) * S + k.1 % S) 0) := hk'.sub (hnet _)
      have hne : ∀ v : Fin (mask.length * S) → ℝ, affScale e c.act
          ((paramsOf (NF.realX e) mask S true none #[] net B (setRow B (mask.length * S) x b v) ctx).getD
            ((b * (2 * (transformIdx (NF.realX e) mask).length)
              + ((transformIdx (NF.realX e) mask).length + (transformIdx (NF.realX e) mask).idxOf (k.1 / S))) * S
              + k.1 % S) 0) ≠ 0 := fun v => (affineScale_pos e he c.act _).ne'
      simp only [div_eq_mul_inv]
      exact h2.mul (h1.inv hne)

/-- **C01, affine coupling (default scale activation) on `[B, C, S]` inputs with ANY entry-wise differentiable
    conditioner, no hypothesis left**: `ld[b] = log |det (D itemMap)|` -/
theorem coupling_affine_item_logdet_img_diffNet (e : Float → ℝ) (he : 0 ≤ e 1e-3) (c : ElCfg) (hk : c.kind = "affine")
    (hact : (c.act == "general") = false) (mask : List ℝ) (S : Nat) (inverse : Bool)
    (net : Array ℝ → Array ℝ → Array ℝ) {B : Nat} (x ctx : Array ℝ)
    (hx : x.size = B * (mask.length * S)) {b : Nat} (hb : b < B) (hnet : ParamsDiff e mask S inverse net B x ctx b) :
    (layer (NF.realX e) c mask S inverse none #[] net B x ctx).ld[b]?
      = some (Real.log |LinearMap.det
          (fderiv ℝ (itemMap e c mask S inverse net B x ctx b) (itemOf e mask S b x)
            : (Fin (mask.length * S) → ℝ) →ₗ[ℝ] (Fin (mask.length * S) → ℝ))|) :=
  coupling_affine_item_logdet_img e he c hk mask S inverse net x ctx hx hb
    ((itemMap_differentiable_affine e he c hk hact mask S inverse net x ctx hb hnet) _).hasFDerivAt

/-- every family with the law everywhere (RQ with linear tails included), constant conditioner: the item map is
    differentiable -/
theorem itemMap_differentiable_const (e : Float → ℝ) (c : ElCfg) (mask : List ℝ) (S : Nat) (inverse : Bool)
    (params : Array ℝ) {B : Nat} (x ctx : Array ℝ) {b : Nat} (hb : b < B)
    (hlaw : ∀ k τ, HasDerivAt (entryElMap e c mask S params inverse b k)
      (Real.exp (entryElLd e c mask S params inverse b k τ)) τ) :
    Differentiable ℝ (itemMap e c mask S inverse (fun _ _ => params) B x ctx b) := by
  rw [differentiable_pi]
  intro k
  have hfun : (fun v => itemMap e c mask S inverse (fun _ _ => params) B x ctx b v k)
      = fun v => if isTk e mask S k then entryElMap e c mask S params inverse b k (v k) else v k := by
    funext v
    exact itemMap_apply e c mask S inverse (fun _ _ => params) x ctx hb v k
  rw [hfun]
  cases hi : isTk e mask S k with
  | false => simpa using differentiable_apply k
  | true =>
    simp only [if_true]
    have h1 : Differentiable ℝ (entryElMap e c mask S params inverse b k) := fun τ => (hlaw k τ).differentiableAt
    exact h1.comp (differentiable_apply k)

/-- **C01, RQ coupling with linear tails on `[B, C, S]` inputs, constant conditioner, no hypothesis left** -/
theorem coupling_rq_tails_item_logdet_img_const (e : Float → ℝ) (c : ElCfg) (hc : RQTailsCfgValid e c)
    (hp : TailsWhole.PadExact e (tMD c) (tBe c)) (mask : List ℝ) (S : Nat) (inverse : Bool) (params : Array ℝ)
    {B : Nat} (x ctx : Array ℝ) (hx : x.size = B * (mask.length * S)) {b : Nat} (hb : b < B) :
    (layer (NF.realX e) c mask S inverse none #[] (fun _ _ => params) B x ctx).ld[b]?
      = some (Real.log |LinearMap.det
          (fderiv ℝ (itemMap e c mask S inverse (fun _ _ => params) B x ctx b) (itemOf e mask S b x)
            : (Fin (mask.length * S) → ℝ) →ₗ[ℝ] (Fin (mask.length * S) → ℝ))|) :=
  coupling_rq_tails_item_logdet_img e c hc hp mask S inverse _ x ctx hx hb
    ((itemMap_differentiable_const e c mask S inverse params x ctx hb
      (fun k τ => entryElMap_rq_tails_hasDerivAt e c hc hp mask S params inverse b k τ)) _).hasFDerivAt

/-! ## 7. Non-constant conditioners: every AFFINE conditioner (e.g. a convolution plus bias) is `ParamsDiff` -/

theorem setRow_getD_differentiable (B n : Nat) (x : Array ℝ) (b m : Nat) :
    Differentiable ℝ fun v : Fin n → ℝ => (setRow B n x b v).getD m 0 := by
  by_cases hm : m < B * n
  · have h : (fun v : Fin n → ℝ => (setRow B n x b v).getD m 0)
        = fun v => if m / n = b then (if h : m % n < n then v ⟨m % n, h⟩ else 0) else x.getD m 0 := by
      funext v
      have hsz : m < (setRow B n x b v).size := by rw [setRow_size]; exact hm
      rw [getD_of_lt hsz]
      simp only [setRow, Array.getElem_ofFn]
    rw [h]
    by_cases h1 : m / n = b
    · simp only [h1, if_true]
      by_cases h2 : m % n < n
      · simp only [h2, dite_true]
        have : Differentiable ℝ (fun v : Fin n → ℝ => v ⟨m % n, h2⟩) := differentiable_apply _
        exact this
      · simp only [h2, dite_false]
        exact differentiable_const _
    · simp only [h1, if_false]
      exact differentiable_const _
  · have h : (fun v : Fin n → ℝ => (setRow B n x b v).getD m 0) = fun _ => 0 := by
      funext v
      have hsz : ¬ m < (setRow B n x b v).size := by rw [setRow_size]; exact hm
      simp [Array.getD, hsz]
    rw [h]
    exact differentiable_const _

/-- `gatherCh` reads the entries of a fixed list of flat positions -/
theorem gatherCh_eq_map (x : Array ℝ) (B C S : Nat) (idx : List Nat) (d : ℝ) :
    gatherCh x B C S idx d
      = (((List.range B).flatMap fun b => idx.flatMap fun ch => (List.range S).map fun s => flatIdx C S b ch s).map
          fun m => x.getD m d).toArray := by
  unfold gatherCh
  congr 1
  simp only [List.map_flatMap, List.map_map]
  rfl

/-- every entry of what the conditioner is handed is a differentiable (coordinate or constant) function of the item -/
theorem condInOf_entry_differentiable (e : Float → ℝ) (mask : List ℝ) (S : Nat) (inverse : Bool) (B : Nat)
    (x : Array ℝ) (b j : Nat) :
    Differentiable ℝ fun v : Fin (mask.length * S) → ℝ =>
      (condInOf (NF.realX e) mask S inverse none #[] B (setRow B (mask.length * S) x b v)).getD j 0 := by
  have h : ∀ x' : Array ℝ, condInOf (NF.realX e) mask S inverse none #[] B x'
      = gatherCh x' B mask.length S (identityIdx (NF.realX e) mask) 0 := by
    intro x'
    unfold condInOf
    rw [couplingUncond_none, realX_zero]
    simp
  simp only [h, gatherCh_eq_map]
  exact listArray_getD_differentiable _ (fun m v => (setRow B (mask.length * S) x b v).getD m 0)
    (fun m => setRow_getD_differentiable B _ x b m) j

/-- the conditioner is affine in (the first `n` entries of) its input, at this context: `net z ctx = A z + β` -/
def AffineNetAt (n : ℕ) (net : Array ℝ → Array ℝ → Array ℝ) (ctx : Array ℝ) : Prop :=
  ∃ (A : ℕ → ℕ → ℝ) (β : ℕ → ℝ), ∀ (z : Array ℝ) (k : ℕ),
    (net z ctx).getD k 0 = (∑ j ∈ Finset.range n, A k j * z.getD j 0) + β k

/-- **every affine conditioner is `ParamsDiff`**, any mask, any `S`, either pass -/
theorem paramsDiff_affineNet (e : Float → ℝ) (mask : List ℝ) (S : Nat) (inverse : Bool) {n : ℕ}
    {net : Array ℝ → Array ℝ → Array ℝ} (B : Nat) (x ctx : Array ℝ) (b : Nat) (hnet : AffineNetAt n net ctx) :
    ParamsDiff e mask S inverse net B x ctx b := by
  intro k
  obtain ⟨A, β, h⟩ := hnet
  unfold paramsOf
  simp only [h]
  exact (Differentiable.fun_sum fun j _ =>
    (condInOf_entry_differentiable e mask S inverse B x b j).const_mul (A k j)).add (differentiable_const _)

/-- **C01, affine coupling (RealNVP) on `[B, C, S]` inputs with ANY affine conditioner: no hypothesis left** -/
theorem coupling_affine_item_logdet_img_affineNet (e : Float → ℝ) (he : 0 ≤ e 1e-3) (c : ElCfg) (hk : c.kind = "affine")
    (hact : (c.act == "general") = false) (mask : List ℝ) (S : Nat) (inverse : Bool) {n : ℕ}
    {net : Array ℝ → Array ℝ → Array ℝ} {B : Nat} (x ctx : Array ℝ)
    (hx : x.size = B * (mask.length * S)) {b : Nat} (hb : b < B) (hnet : AffineNetAt n net ctx) :
    (layer (NF.realX e) c mask S inverse none #[] net B x ctx).ld[b]?
      = some (Real.log |LinearMap.det
          (fderiv ℝ (itemMap e c mask S inverse net B x ctx b) (itemOf e mask S b x)
            : (Fin (mask.length * S) → ℝ) →ₗ[ℝ] (Fin (mask.length * S) → ℝ))|) :=
  coupling_affine_item_logdet_img_diffNet e he c hk hact mask S inverse net x ctx hx hb
    (paramsDiff_affineNet e mask S inverse B x ctx b hnet)

/-! ## 8. Concrete instances -/

/-- mask `[0, 1]`, `S = 2` (a `[B, 2, 2]` input): entries 0, 1 (channel 0) are identity entries, 2, 3 are transformed -/
example (e : Float → ℝ) : isTk e [0, 1] 2 0 = false ∧ isTk e [0, 1] 2 1 = false ∧ isTk e [0, 1] 2 2 = true
    ∧ isTk e [0, 1] 2 3 = true := by
  simp [isTk, XOps.gt, realX_lt, realX_zero]

/-- a non-constant conditioner for mask `[0, 1]`, `S = 2`, affine family, `B = 1`: the parameters `[1, 2, 2]`
    (shift, unconstrained scale for the two pixels of channel 1) from the identity split `z = [x₀₀, x₀₁]` -/
noncomputable def toyNet : Array ℝ → Array ℝ → Array ℝ := fun z ctx =>
  Array.ofFn fun k : Fin 4 => (∑ j ∈ Finset.range 2, (if (k.1 + j) % 2 = 0 then 1 else 2) * z.getD j 0) + ctx.getD k.1 0

theorem toyNet_affine (ctx : Array ℝ) : AffineNetAt 2 toyNet ctx := by
  refine ⟨fun k j => if k < 4 then (if (k + j) % 2 = 0 then 1 else 2) else 0,
    fun k => if k < 4 then ctx.getD k 0 else 0, ?_⟩
  intro z k
  by_cases hk : k < 4
  · simp [toyNet, Array.getD, hk]
  · simp [toyNet, Array.getD, hk]

/-- **end to end, `S = 2`, two channels**: RealNVP coupling layer with mask `[0, 1]` on a `[1, 2, 2]` input, the
    non-constant conditioner `toyNet`, either pass, ANY input and context: the returned log-abs-det is `log |det|` of the
    4 × 4 Jacobian of the executed item map -/
example (e : Float → ℝ) (he : 0 ≤ e 1e-3) (inverse : Bool) (x ctx : Array ℝ) (hx : x.size = 4) :
    (layer (NF.realX e) { kind := "affine" } [0, 1] 2 inverse none #[] toyNet 1 x ctx).ld[0]?
      = some (Real.log |LinearMap.det
          (fderiv ℝ (itemMap e { kind := "affine" } [0, 1] 2 inverse toyNet 1 x ctx 0) (itemOf e [0, 1] 2 0 x)
            : (Fin ([0, 1].length * 2) → ℝ) →ₗ[ℝ] (Fin ([0, 1].length * 2) → ℝ))|) :=
  coupling_affine_item_logdet_img_affineNet e he { kind := "affine" } rfl (by decide) [0, 1] 2 inverse x ctx
    (by rw [hx]; rfl) (by decide) (toyNet_affine ctx)

/-! ## 9. Two corollaries: the channel × pixel form of `ld[b]`; the additive layer is volume preserving -/

/-- `layer_ld_entries` as the double sum the implementation forms (`sum_except_batch` over channels and pixels): over
    the transformed channels `i` and the `S` pixels `s` of the element log-dets — element `(b, i, s)` is run on input
    entry `x[b, i, s]` with the parameter slice of pixel `s` of the channel's position `idxOf i` in the transform list -/
theorem layer_ld_channels_pixels (e : Float → ℝ) (c : ElCfg) (mask : List ℝ) (S : Nat) (inverse : Bool)
    (net : Array ℝ → Array ℝ → Array ℝ) {B : Nat} (x ctx : Array ℝ) {b : Nat} (hb : b < B) :
    (layer (NF.realX e) c mask S inverse none #[] net B x ctx).ld[b]?
      = some (∑ i : Fin mask.length, ∑ s : Fin S, if isT (NF.realX e) mask i then
          ldOf (NF.realX e) (couplingEl (NF.realX e) c (transformIdx (NF.realX e) mask).length S
            (paramsOf (NF.realX e) mask S inverse none #[] net B x ctx) inverse b
            ((transformIdx (NF.realX e) mask).idxOf i.1) s.1 (x.getD (flatIdx mask.length S b i.1 s.1) 0))
          else 0) := by
  rw [layer_ld_entries e c mask S inverse net x ctx hb]
  congr 1
  refine Eq.trans ?_ (sum_item mask.length S (fun ch s =>
    if (NF.realX e).gt (mask.getD ch (NF.realX e).zero) (NF.realX e).zero then
      ldOf (NF.realX e) (couplingEl (NF.realX e) c (transformIdx (NF.realX e) mask).length S
        (paramsOf (NF.realX e) mask S inverse none #[] net B x ctx) inverse b
        ((transformIdx (NF.realX e) mask).idxOf ch) s (x.getD (flatIdx mask.length S b ch s) 0))
    else 0))
  apply Finset.sum_congr rfl
  intro k _
  simp only [isTk, entryElLd, entryEl, itemOf_apply]

theorem hasDerivAt_mul_one_add (sh y : ℝ) : HasDerivAt (fun τ : ℝ => τ * 1 + sh) 1 y := by
  simpa using ((hasDerivAt_id y).mul_const (1 : ℝ)).add_const sh

theorem hasDerivAt_sub_div_one (sh y : ℝ) : HasDerivAt (fun τ : ℝ => (τ - sh) / 1) 1 y := by
  simpa using ((hasDerivAt_id y).sub_const sh).div_const (1 : ℝ)

/-- **additive coupling on `[B, C, S]` inputs is volume preserving**: the Jacobian determinant of the item map is `1`,
    any conditioner, any mask, either pass -/
theorem coupling_additive_item_det_one_img (e : Float → ℝ) (c : ElCfg) (hk : c.kind = "additive") (mask : List ℝ)
    (S : Nat) (inverse : Bool) (net : Array ℝ → Array ℝ → Array ℝ) {B : Nat} (x ctx : Array ℝ)
    (hx : x.size = B * (mask.length * S)) {b : Nat} (hb : b < B)
    {L : (Fin (mask.length * S) → ℝ) →L[ℝ] (Fin (mask.length * S) → ℝ)}
    (hL : HasFDerivAt (itemMap e c mask S inverse net B x ctx b) L (itemOf e mask S b x)) :
    LinearMap.det (L : (Fin (mask.length * S) → ℝ) →ₗ[ℝ] (Fin (mask.length * S) → ℝ)) = 1 := by
  have hd : ∀ k : Fin (mask.length * S),
      HasDerivAt (entryElMap e c mask S (paramsOf (NF.realX e) mask S inverse none #[] net B x ctx) inverse b k) 1
        (itemOf e mask S b x k) := by
    intro k
    cases inverse
    · rw [funext (entryElMap_additive e c hk mask S _ b k)]
      exact hasDerivAt_mul_one_add _ _
    · rw [funext (entryElMap_additive_inv e c hk mask S _ b k)]
      exact hasDerivAt_sub_div_one _ _
  rw [coupling_item_det_img e c mask S inverse net x ctx hx hb hL (fun _ => 1) (fun k _ => hd k)]
  simp

end NF.CouplingJacobianImg
