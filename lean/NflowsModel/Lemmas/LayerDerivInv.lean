import NflowsModel.Lemmas.LayerDerivMore
import NflowsModel.Lemmas.StructureExecRQ
import NflowsModel.Lemmas.QuadInverseWhole
import NflowsModel.Lemmas.CubicInverseWhole
import Mathlib.Analysis.Calculus.FDeriv.Comp
import Mathlib.LinearAlgebra.Determinant
/-!
# Lemmas/LayerDerivInv — C01 / C02 inside the executed coupling layer, INVERSE pass

Continues `Lemmas/LayerDerivMore.lean` (same generic step `ElLawAt` / `couplingEl_law`, same statement form
`ld[b]? = some (log |det L|)`, `L` the Fréchet derivative of the executed row map as a hypothesis).

* §1 bounded RQ element, both directions: `rq_elLawAt`, `rq_inv_elLawAt` (`RQWhole`, `RQInverseWhole`).
* §2 bounded quadratic element, inverse: the `yk` end-point facts `quad_yk_facts(_core)`, `quad_inv_elLawAt`.
* §3 bounded cubic element, inverse, under the branch conditions of `CubicInverseWhole.inv_hasDerivAt_all`
  (`InvConsts`, `SliceExact`): `cubic_inv_elLawAt`.
* §4 coupling headlines: `coupling_rq_logdet_is_jacobian`, `coupling_rq_inverse_logdet_is_jacobian`,
  `coupling_rq_tails_logdet_is_jacobian` / `coupling_rq_tails_inverse_logdet_is_jacobian`,
  `coupling_quadratic_inverse_logdet_is_jacobian`, `coupling_cubic_inverse_logdet_is_jacobian`.
* §5 consistency (C02's log-det sentence from C01 in both directions + round trip, chain rule):
  `logdet_eq_neg_of_roundtrip`, `idSplit_roundtrip`, `couplingRowMap_roundtrip`,
  `coupling_inverse_logdet_eq_neg_forward` (any family), `coupling_rq_inverse_logdet_eq_neg_forward`,
  `coupling_linear_inverse_logdet_eq_neg_forward`.
* §6 non-vacuity `example`s for every headline.
-/
open NF DualSound

namespace NF.LayerDerivInv
open NF.StructureExec NF.CouplingJacobian NF.ARWhole NF.LayerDerivMore

/-! ## 1. Bounded rational-quadratic element: both directions -/

/-- **bounded RQ element, forward, strictly inside an input bin** (`RQWhole.val_hasDerivAt`) -/
theorem rq_elLawAt (e : Float → ℝ) (c : ElCfg) (hk : c.kind = "rq") (ht : c.tails = false) (p : List ℝ)
    (hv : RQWhole.RQValid e (rqCfgOf c) (rqW (NF.realX e) c p) (rqH (NF.realX e) c p) (rqD c p))
    (k : ℕ) (hkK : k < (rqW (NF.realX e) c p).length) (x : ℝ)
    (h0 : RQWhole.xs e (rqCfgOf c) (rqW (NF.realX e) c p) k < x)
    (h1 : x < RQWhole.xs e (rqCfgOf c) (rqW (NF.realX e) c p) (k + 1)) :
    ElLawAt (elTransform (NF.realX e) c false p) x := by
  refine ⟨RQWhole.val e (rqCfgOf c) (rqW (NF.realX e) c p) (rqH (NF.realX e) c p) (rqD c p),
    RQWhole.ld e (rqCfgOf c) (rqW (NF.realX e) c p) (rqH (NF.realX e) c p) (rqD c p), ?_,
    RQWhole.val_hasDerivAt hv k hkK x h0 h1⟩
  have hL := (RQInverseWhole.knot_mem_x hv k hkK.le).1
  have hR := (RQInverseWhole.knot_mem_x hv (k + 1) hkK).2
  refine Filter.eventually_of_mem (Ioo_mem_nhds h0 h1) (fun s hs => ⟨[], ?_⟩)
  have hs0 : e (rqCfgOf c).box.left ≤ s := by linarith [hs.1]
  have hs1 : s ≤ e (rqCfgOf c).box.right := by linarith [hs.2]
  rw [elTransform_rq _ c hk ht, RQWhole.val_eq hv s hs0 hs1, RQWhole.ld_eq hv s hs0 hs1,
    RQWhole.exec_eq_bin hv s hs0 hs1]
  rfl

/-- **bounded RQ element, INVERSE, strictly inside an output bin** (`RQInverseWhole.inv_hasDerivAt`) -/
theorem rq_inv_elLawAt (e : Float → ℝ) (c : ElCfg) (hk : c.kind = "rq") (ht : c.tails = false) (p : List ℝ)
    (hv : RQWhole.RQValid e (rqCfgOf c) (rqW (NF.realX e) c p) (rqH (NF.realX e) c p) (rqD c p))
    (k : ℕ) (hkK : k < (rqW (NF.realX e) c p).length) (y : ℝ)
    (h0 : RQWhole.ys e (rqCfgOf c) (rqH (NF.realX e) c p) k < y)
    (h1 : y < RQWhole.ys e (rqCfgOf c) (rqH (NF.realX e) c p) (k + 1)) :
    ElLawAt (elTransform (NF.realX e) c true p) y := by
  refine ⟨RQInverseWhole.inv e (rqCfgOf c) (rqW (NF.realX e) c p) (rqH (NF.realX e) c p) (rqD c p),
    RQInverseWhole.invLd e (rqCfgOf c) (rqW (NF.realX e) c p) (rqH (NF.realX e) c p) (rqD c p), ?_,
    RQInverseWhole.inv_hasDerivAt hv k hkK y h0 h1⟩
  have hL := (RQInverseWhole.knot_mem_y hv k hkK.le).1
  have hR := (RQInverseWhole.knot_mem_y hv (k + 1) hkK).2
  refine Filter.eventually_of_mem (Ioo_mem_nhds h0 h1) (fun s hs => ⟨[], ?_⟩)
  rw [elTransform_rq _ c hk ht,
    RQInverseWhole.exec_ok hv s (by linarith [hs.1]) (by linarith [hs.2])]
  rfl


/-! ## 2. Bounded piecewise-quadratic element, INVERSE: the `yk` end-point facts and the element law -/

/-- the cdf knots in box coordinates start at `bottom`, end at `top`, and are strictly increasing (the end-point facts
    `QuadInverseWhole` does not state) -/
theorem quad_yk_facts_core {e : Float → ℝ} {c : QCfg} {Wd U : List ℝ} (hv : QuadWhole.CoreValid e c Wd U)
    (hb : QuadWhole.BoxValid e c) :
    QuadInverseWhole.yk e c Wd U 0 = e c.box.bottom ∧ QuadInverseWhole.yk e c Wd U Wd.length = e c.box.top ∧
    ∀ k < Wd.length, QuadInverseWhole.yk e c Wd U k < QuadInverseWhole.yk e c Wd U (k + 1) := by
  have hD : 0 < e c.box.top - e c.box.bottom := sub_pos.mpr hb.hbt
  refine ⟨?_, ?_, fun k hk => ?_⟩
  · unfold QuadInverseWhole.yk; rw [QuadWhole.bl_zero hv]; ring
  · unfold QuadInverseWhole.yk; rw [QuadWhole.bl_last hv]; ring
  · unfold QuadInverseWhole.yk
    have := mul_lt_mul_of_pos_left (QuadWhole.bl_strict hv k hk) hD
    linarith

theorem quad_yk_facts {e : Float → ℝ} {c : QCfg} {uw uh : List ℝ} (hv : QuadWhole.QuadValid e c uw uh) :
    QuadInverseWhole.yk e c (QuadWhole.Wq e c uw) (QuadWhole.Uq e uh) 0 = e c.box.bottom ∧
    QuadInverseWhole.yk e c (QuadWhole.Wq e c uw) (QuadWhole.Uq e uh) uw.length = e c.box.top ∧
    ∀ k < uw.length, QuadInverseWhole.yk e c (QuadWhole.Wq e c uw) (QuadWhole.Uq e uh) k
      < QuadInverseWhole.yk e c (QuadWhole.Wq e c uw) (QuadWhole.Uq e uh) (k + 1) := by
  have := quad_yk_facts_core (QuadWhole.core_of_valid hv) hv.hbox
  rwa [QuadWhole.Wq_length] at this

/-- the `k`-th output (cdf) knot of the bounded quadratic element with parameter vector `p`, in box coordinates -/
noncomputable abbrev quadYk (e : Float → ℝ) (c : ElCfg) (p : List ℝ) (k : ℕ) : ℝ :=
  QuadInverseWhole.yk e (quadCfgOf c) (QuadWhole.Wq e (quadCfgOf c) (quadW (NF.realX e) c p))
    (QuadWhole.Uq e (quadH (NF.realX e) c p)) k

/-- **bounded piecewise-quadratic element, INVERSE, strictly inside an output bin** (`QuadInverseWhole.inv_hasDerivAt_y`) -/
theorem quad_inv_elLawAt (e : Float → ℝ) (c : ElCfg) (hk : c.kind = "quad") (ht : c.tails = false) (p : List ℝ)
    (hv : QuadWhole.QuadValid e (quadCfgOf c) (quadW (NF.realX e) c p) (quadH (NF.realX e) c p))
    (hbl : e (boxLog (quadCfgOf c).box) = Real.log ((e (quadCfgOf c).box.top - e (quadCfgOf c).box.bottom)
      / (e (quadCfgOf c).box.right - e (quadCfgOf c).box.left)))
    (k : ℕ) (hkK : k < (quadW (NF.realX e) c p).length) (y : ℝ)
    (h0 : quadYk e c p k < y) (h1 : y < quadYk e c p (k + 1)) :
    ElLawAt (elTransform (NF.realX e) c true p) y := by
  refine ⟨QuadInverseWhole.inv e (quadCfgOf c) (quadW (NF.realX e) c p) (quadH (NF.realX e) c p),
    QuadInverseWhole.invLd e (quadCfgOf c) (quadW (NF.realX e) c p) (quadH (NF.realX e) c p), ?_,
    QuadInverseWhole.inv_hasDerivAt_y hv hbl k hkK y h0 h1⟩
  obtain ⟨hy0, hyK, hstep⟩ := quad_yk_facts hv
  have hmono := ExecGlue.knots_mono (quadYk e c p) _ hstep
  have hL := hmono 0 k (Nat.zero_le _) hkK.le
  have hR := hmono (k + 1) _ hkK le_rfl
  unfold quadYk at hL hR h0 h1
  rw [hy0] at hL
  rw [hyK] at hR
  refine Filter.eventually_of_mem (Ioo_mem_nhds h0 h1) (fun s hs => ⟨[], ?_⟩)
  rw [elTransform_quad _ c hk ht,
    QuadInverseWhole.exec_ok hv s (by linarith [hs.1]) (by linarith [hs.2])]
  rfl

/-! ## 3. Bounded piecewise-cubic element, INVERSE

The executed cubic inverse is NOT an inverse of the forward program in general (`Properties/C17W`
`cubic_inverse_cardano_log_zero`, `CubicInverseWhole.round_trip_counterexample`: a bin taking the approximate quadratic
fallback `|a|·w³ < thr·h` with `a ≠ 0`); the law is proved under the hypotheses of the whole-program theorem
`CubicInverseWhole.inv_hasDerivAt_all`: the literals of the root formulas are read exactly (`InvConsts`) and no bin of the
slice takes the approximate fallback (`CubicLayers.SliceExact`). -/

/-- **bounded piecewise-cubic element, INVERSE, at every point of the OPEN output box** (y-knots included) -/
theorem cubic_inv_elLawAt (e : Float → ℝ) (c : ElCfg) (hk : c.kind = "cubic") (ht : c.tails = false) (p : List ℝ)
    (hv : CubicLayers.SliceValid e c (CubicLayers.cubicCfgOf c) p)
    (hc : CubicInverseWhole.InvConsts e (CubicLayers.cubicCfgOf c))
    (hall : CubicLayers.SliceExact e c (CubicLayers.cubicCfgOf c) p)
    (hbl : e (boxLog (CubicLayers.cubicCfgOf c).box)
      = Real.log ((e (CubicLayers.cubicCfgOf c).box.top - e (CubicLayers.cubicCfgOf c).box.bottom)
      / (e (CubicLayers.cubicCfgOf c).box.right - e (CubicLayers.cubicCfgOf c).box.left)))
    (y : ℝ) (h0 : e (CubicLayers.cubicCfgOf c).box.bottom < y) (h1 : y < e (CubicLayers.cubicCfgOf c).box.top) :
    ElLawAt (elTransform (NF.realX e) c true p) y := by
  refine ⟨CubicInverseWhole.inv e (CubicLayers.cubicCfgOf c) (rqW (NF.realX e) c p) (rqH (NF.realX e) c p)
      (CubicLayers.cubicL (NF.realX e) c p) (CubicLayers.cubicR (NF.realX e) c p),
    CubicInverseWhole.invLd e (CubicLayers.cubicCfgOf c) (rqW (NF.realX e) c p) (rqH (NF.realX e) c p)
      (CubicLayers.cubicL (NF.realX e) c p) (CubicLayers.cubicR (NF.realX e) c p), ?_,
    CubicInverseWhole.inv_hasDerivAt_all hv hc hall hbl y h0 h1⟩
  refine Filter.eventually_of_mem (Ioo_mem_nhds h0 h1) (fun s hs =>
    ⟨CubicInverseWhole.invAlts e (CubicLayers.cubicCfgOf c) (rqW (NF.realX e) c p) (rqH (NF.realX e) c p)
      (CubicLayers.cubicL (NF.realX e) c p) (CubicLayers.cubicR (NF.realX e) c p) s, ?_⟩)
  rw [CubicLayers.elTransform_cubic _ c hk ht]
  exact CubicLayers.inv_eq hv s hs.1.le hs.2.le

/-! ## 4. The executed COUPLING layer: bounded RQ (both passes), and the INVERSE pass of the RQ-with-tails, quadratic and
cubic families.  Statement form of `LayerDerivMore.coupling_*_logdet_is_jacobian`. -/

section coupling
variable (e : Float → ℝ) (c : ElCfg) (mask : List ℝ) (B : Nat) (net : Array ℝ → Array ℝ) (x : Array ℝ)

/-- **C01, bounded RQ coupling layer** (`PiecewiseRationalQuadraticCouplingTransform`, no tails), FORWARD pass: every
    transformed entry of row `b` strictly inside an input bin of its own spline -/
theorem coupling_rq_logdet_is_jacobian (hk : c.kind = "rq") (ht : c.tails = false)
    (hx : x.size = B * mask.length) {b : Nat} (hb : b < B)
    (hv : RQParamsValid e c (nT e mask) 1 (cParams e mask B net x) B)
    (hbin : ∀ i, isT (NF.realX e) mask i = true → ∃ k,
      k < (rqW (NF.realX e) c (chanSlice e c mask (cParams e mask B net x) b i)).length ∧
      RQWhole.xs e (rqCfgOf c) (rqW (NF.realX e) c (chanSlice e c mask (cParams e mask B net x) b i)) k
        < rowOf (NF.realX e) mask.length b x i ∧
      rowOf (NF.realX e) mask.length b x i
        < RQWhole.xs e (rqCfgOf c) (rqW (NF.realX e) c (chanSlice e c mask (cParams e mask B net x) b i)) (k + 1))
    {L : (Fin mask.length → ℝ) →L[ℝ] (Fin mask.length → ℝ)}
    (hL : HasFDerivAt (couplingRowMap e c mask B net false x b) L (rowOf (NF.realX e) mask.length b x)) :
    (couplingRun (NF.realX e) c mask B net false x).ld[b]?
      = some (Real.log |LinearMap.det (L : (Fin mask.length → ℝ) →ₗ[ℝ] (Fin mask.length → ℝ))|) := by
  have hk1 : c.kind ≠ "affine" := by rw [hk]; decide
  have hk2 : c.kind ≠ "additive" := by rw [hk]; decide
  refine coupling_row_logdet e c mask B net false x hx hb hL (fun i hi => ?_)
  obtain ⟨k, hkK, h0, h1⟩ := hbin i hi
  exact couplingEl_law e c hk1 hk2 mask _ false b i _
    (rq_elLawAt e c hk ht _ (hv b _ 0 hb (tpos_lt e mask i hi) Nat.one_pos) k hkK _ h0 h1)

/-- **C01 / C02, bounded RQ coupling layer, INVERSE pass**: every transformed entry of row `b` strictly inside an OUTPUT
    bin (`ys k < y_i < ys (k+1)`) of its own spline; the returned `ld[b]` is `log |det|` of the Fréchet derivative of the
    executed inverse row map -/
theorem coupling_rq_inverse_logdet_is_jacobian (hk : c.kind = "rq") (ht : c.tails = false)
    (hx : x.size = B * mask.length) {b : Nat} (hb : b < B)
    (hv : RQParamsValid e c (nT e mask) 1 (cParams e mask B net x) B)
    (hbin : ∀ i, isT (NF.realX e) mask i = true → ∃ k,
      k < (rqW (NF.realX e) c (chanSlice e c mask (cParams e mask B net x) b i)).length ∧
      RQWhole.ys e (rqCfgOf c) (rqH (NF.realX e) c (chanSlice e c mask (cParams e mask B net x) b i)) k
        < rowOf (NF.realX e) mask.length b x i ∧
      rowOf (NF.realX e) mask.length b x i
        < RQWhole.ys e (rqCfgOf c) (rqH (NF.realX e) c (chanSlice e c mask (cParams e mask B net x) b i)) (k + 1))
    {L : (Fin mask.length → ℝ) →L[ℝ] (Fin mask.length → ℝ)}
    (hL : HasFDerivAt (couplingRowMap e c mask B net true x b) L (rowOf (NF.realX e) mask.length b x)) :
    (couplingRun (NF.realX e) c mask B net true x).ld[b]?
      = some (Real.log |LinearMap.det (L : (Fin mask.length → ℝ) →ₗ[ℝ] (Fin mask.length → ℝ))|) := by
  have hk1 : c.kind ≠ "affine" := by rw [hk]; decide
  have hk2 : c.kind ≠ "additive" := by rw [hk]; decide
  refine coupling_row_logdet e c mask B net true x hx hb hL (fun i hi => ?_)
  obtain ⟨k, hkK, h0, h1⟩ := hbin i hi
  exact couplingEl_law e c hk1 hk2 mask _ true b i _
    (rq_inv_elLawAt e c hk ht _ (hv b _ 0 hb (tpos_lt e mask i hi) Nat.one_pos) k hkK _ h0 h1)

/-- **C01 / C02, RQ coupling layer with linear tails, INVERSE pass** (and the forward pass: `inverse` is a parameter), at
    EVERY real input row, ANY conditioner: `log` form of `CouplingJacobian.coupling_rq_tails_row_abs_det` -/
theorem coupling_rq_tails_logdet_is_jacobian (hc : RQTailsCfgValid e c)
    (hp : TailsWhole.PadExact e (tMD c) (tBe c)) (inverse : Bool)
    (hx : x.size = B * mask.length) {b : Nat} (hb : b < B)
    {L : (Fin mask.length → ℝ) →L[ℝ] (Fin mask.length → ℝ)}
    (hL : HasFDerivAt (couplingRowMap e c mask B net inverse x b) L (rowOf (NF.realX e) mask.length b x)) :
    (couplingRun (NF.realX e) c mask B net inverse x).ld[b]?
      = some (Real.log |LinearMap.det (L : (Fin mask.length → ℝ) →ₗ[ℝ] (Fin mask.length → ℝ))|) :=
  coupling_row_logdet e c mask B net inverse x hx hb hL
    (fun i _ => couplingElMap_rq_tails_hasDerivAt e c hc hp mask _ inverse b i _)

theorem coupling_rq_tails_inverse_logdet_is_jacobian (hc : RQTailsCfgValid e c)
    (hp : TailsWhole.PadExact e (tMD c) (tBe c))
    (hx : x.size = B * mask.length) {b : Nat} (hb : b < B)
    {L : (Fin mask.length → ℝ) →L[ℝ] (Fin mask.length → ℝ)}
    (hL : HasFDerivAt (couplingRowMap e c mask B net true x b) L (rowOf (NF.realX e) mask.length b x)) :
    (couplingRun (NF.realX e) c mask B net true x).ld[b]?
      = some (Real.log |LinearMap.det (L : (Fin mask.length → ℝ) →ₗ[ℝ] (Fin mask.length → ℝ))|) :=
  coupling_rq_tails_logdet_is_jacobian e c mask B net x hc hp true hx hb hL

/-- **C01 / C02, bounded piecewise-QUADRATIC coupling layer, INVERSE pass**: every transformed entry of row `b` strictly
    inside an OUTPUT (cdf) bin `quadYk k < y_i < quadYk (k+1)` of its own spline -/
theorem coupling_quadratic_inverse_logdet_is_jacobian (hk : c.kind = "quad") (ht : c.tails = false)
    (hbl : e (boxLog (quadCfgOf c).box) = Real.log ((e (quadCfgOf c).box.top - e (quadCfgOf c).box.bottom)
      / (e (quadCfgOf c).box.right - e (quadCfgOf c).box.left)))
    (hx : x.size = B * mask.length) {b : Nat} (hb : b < B)
    (hv : QuadParamsValid e c (nT e mask) 1 (cParams e mask B net x) B)
    (hbin : ∀ i, isT (NF.realX e) mask i = true → ∃ k,
      k < (quadW (NF.realX e) c (chanSlice e c mask (cParams e mask B net x) b i)).length ∧
      quadYk e c (chanSlice e c mask (cParams e mask B net x) b i) k < rowOf (NF.realX e) mask.length b x i ∧
      rowOf (NF.realX e) mask.length b x i < quadYk e c (chanSlice e c mask (cParams e mask B net x) b i) (k + 1))
    {L : (Fin mask.length → ℝ) →L[ℝ] (Fin mask.length → ℝ)}
    (hL : HasFDerivAt (couplingRowMap e c mask B net true x b) L (rowOf (NF.realX e) mask.length b x)) :
    (couplingRun (NF.realX e) c mask B net true x).ld[b]?
      = some (Real.log |LinearMap.det (L : (Fin mask.length → ℝ) →ₗ[ℝ] (Fin mask.length → ℝ))|) := by
  have hk1 : c.kind ≠ "affine" := by rw [hk]; decide
  have hk2 : c.kind ≠ "additive" := by rw [hk]; decide
  refine coupling_row_logdet e c mask B net true x hx hb hL (fun i hi => ?_)
  obtain ⟨k, hkK, h0, h1⟩ := hbin i hi
  exact couplingEl_law e c hk1 hk2 mask _ true b i _
    (quad_inv_elLawAt e c hk ht _ (hv b _ 0 hb (tpos_lt e mask i hi) Nat.one_pos) hbl k hkK _ h0 h1)

/-- **C01 / C02, bounded piecewise-CUBIC coupling layer, INVERSE pass**, under the branch conditions of the whole-program
    inverse theorem: the literals of the root formulas are read exactly (`InvConsts`) and no bin of any slice takes the
    approximate quadratic fallback (`CubicLayers.CubicParamsExact`); every transformed entry of row `b` in the OPEN output
    box `(bottom, top)` (y-knots allowed) -/
theorem coupling_cubic_inverse_logdet_is_jacobian (hk : c.kind = "cubic") (ht : c.tails = false)
    (hc : CubicInverseWhole.InvConsts e (CubicLayers.cubicCfgOf c))
    (hbl : e (boxLog (CubicLayers.cubicCfgOf c).box)
      = Real.log ((e (CubicLayers.cubicCfgOf c).box.top - e (CubicLayers.cubicCfgOf c).box.bottom)
      / (e (CubicLayers.cubicCfgOf c).box.right - e (CubicLayers.cubicCfgOf c).box.left)))
    (hx : x.size = B * mask.length) {b : Nat} (hb : b < B)
    (hv : CubicLayers.CubicParamsExact e c (nT e mask) 1 (cParams e mask B net x) B)
    (hbox : ∀ i, isT (NF.realX e) mask i = true →
      e (CubicLayers.cubicCfgOf c).box.bottom < rowOf (NF.realX e) mask.length b x i ∧
      rowOf (NF.realX e) mask.length b x i < e (CubicLayers.cubicCfgOf c).box.top)
    {L : (Fin mask.length → ℝ) →L[ℝ] (Fin mask.length → ℝ)}
    (hL : HasFDerivAt (couplingRowMap e c mask B net true x b) L (rowOf (NF.realX e) mask.length b x)) :
    (couplingRun (NF.realX e) c mask B net true x).ld[b]?
      = some (Real.log |LinearMap.det (L : (Fin mask.length → ℝ) →ₗ[ℝ] (Fin mask.length → ℝ))|) := by
  obtain ⟨hk1, hk2⟩ := CubicLayers.cubic_kind_ne hk
  refine coupling_row_logdet e c mask B net true x hx hb hL (fun i hi => ?_)
  obtain ⟨h0, h1⟩ := hbox i hi
  obtain ⟨hv1, hv2⟩ := hv b _ 0 hb (tpos_lt e mask i hi) Nat.one_pos
  exact couplingEl_law e c hk1 hk2 mask _ true b i _ (cubic_inv_elLawAt e c hk ht _ hv1 hc hv2 hbl _ h0 h1)

end coupling

/-! ## 5. Consistency (the last sentence of C02 at the layer level): the inverse pass's log-det at `y` is minus the forward
pass's log-det at `inverse(y)`, AS A CONSEQUENCE of the two Jacobian statements and the round trip (chain rule) -/

/-- chain rule: if `f ∘ g = id` near `y`, the log-abs-dets of the two Fréchet derivatives are opposite -/
theorem logdet_eq_neg_of_roundtrip {n : ℕ} (f g : (Fin n → ℝ) → (Fin n → ℝ)) (y : Fin n → ℝ)
    {Lg Lf : (Fin n → ℝ) →L[ℝ] (Fin n → ℝ)} (hg : HasFDerivAt g Lg y) (hf : HasFDerivAt f Lf (g y))
    (hfg : ∀ᶠ v in nhds y, f (g v) = v) :
    Real.log |LinearMap.det (Lg : (Fin n → ℝ) →ₗ[ℝ] (Fin n → ℝ))|
      = - Real.log |LinearMap.det (Lf : (Fin n → ℝ) →ₗ[ℝ] (Fin n → ℝ))| := by
  have hcomp : HasFDerivAt (f ∘ g) (Lf.comp Lg) y := hf.comp y hg
  have hid : HasFDerivAt (f ∘ g) (ContinuousLinearMap.id ℝ (Fin n → ℝ)) y :=
    (hasFDerivAt_id y).congr_of_eventuallyEq (by filter_upwards [hfg] with v hv; simpa using hv)
  have heq : Lf.comp Lg = ContinuousLinearMap.id ℝ (Fin n → ℝ) := hcomp.unique hid
  have hdet : LinearMap.det (Lf : (Fin n → ℝ) →ₗ[ℝ] (Fin n → ℝ)) * LinearMap.det (Lg : (Fin n → ℝ) →ₗ[ℝ] (Fin n → ℝ)) = 1 := by
    rw [← LinearMap.det_comp]
    have h2 : ((Lf : (Fin n → ℝ) →ₗ[ℝ] (Fin n → ℝ)) ∘ₗ (Lg : (Fin n → ℝ) →ₗ[ℝ] (Fin n → ℝ)))
        = ((Lf.comp Lg : (Fin n → ℝ) →L[ℝ] (Fin n → ℝ)) : (Fin n → ℝ) →ₗ[ℝ] (Fin n → ℝ)) := rfl
    rw [h2, heq]
    exact LinearMap.det_id
  have hf0 : LinearMap.det (Lf : (Fin n → ℝ) →ₗ[ℝ] (Fin n → ℝ)) ≠ 0 := left_ne_zero_of_mul_eq_one hdet
  have hg0 : LinearMap.det (Lg : (Fin n → ℝ) →ₗ[ℝ] (Fin n → ℝ)) ≠ 0 := right_ne_zero_of_mul_eq_one hdet
  have := congrArg (fun t => Real.log |t|) hdet
  simp only [abs_mul, abs_one, Real.log_one] at this
  rw [Real.log_mul (abs_ne_zero.mpr hf0) (abs_ne_zero.mpr hg0)] at this
  linarith

section consistency
variable (e : Float → ℝ) (c : ElCfg) (mask : List ℝ) (B : Nat) (net : Array ℝ → Array ℝ) (y : Array ℝ)

/-- an identity channel of the output of either executed pass is the input entry -/
theorem out_identity_entry (inverse : Bool) (hy : y.size = B * mask.length) {b' : Nat} (hb' : b' < B)
    (i : Fin mask.length) (hi : isT (NF.realX e) mask i = false) :
    (couplingRun (NF.realX e) c mask B net inverse y).out.getD (b' * mask.length + i.1) 0
      = y.getD (b' * mask.length + i.1) 0 := by
  have h := coupling_row_pointwise (NF.realX e) c mask B y (net (idSplit (NF.realX e) mask B y)) #[] inverse hb'
    (by rw [hy]) i
  rw [hi] at h
  unfold couplingRun
  simpa [rowOf, flatIdx_one] using h

/-- **the conditioner sees the same array on the way back**: for any row `v`, the identity split of
    `(inverse y).out` with row `b` replaced by the inverse row map at `v` is the identity split of `y` with row `b`
    replaced by `v` -/
theorem idSplit_roundtrip (hy : y.size = B * mask.length) {b : Nat} (hb : b < B) (v : Fin mask.length → ℝ) :
    idSplit (NF.realX e) mask B (setRow B mask.length (couplingRun (NF.realX e) c mask B net true y).out b
        (couplingRowMap e c mask B net true y b v))
      = idSplit (NF.realX e) mask B (setRow B mask.length y b v) := by
  unfold idSplit
  apply gatherCh_congr
  intro b' ch s hb' hch hs
  have hs0 : s = 0 := by omega
  subst hs0
  have hlt := (identityIdx_ok (NF.realX e) mask).lt _ hch
  have hnT := not_isT_of_mem_identityIdx e mask hch hlt
  rw [flatIdx_one, setRow_getElem? _ _ _ b _ hb' hlt, setRow_getElem? _ _ y b v hb' hlt]
  by_cases hbb : b' = b
  · rw [if_pos hbb, if_pos hbb, couplingRowMap_apply e c mask B net true y hb v ⟨ch, hlt⟩, hnT]
    rfl
  · rw [if_neg hbb, if_neg hbb]
    exact congrArg some (out_identity_entry e c mask B net y true hy hb' ⟨ch, hlt⟩ hnT)

/-- **row-level round trip from the element-level one**: if, at the parameters the conditioner returns for the batch with
    row `b` replaced by `v`, every transformed element satisfies `forward (inverse (v i)) = v i`, then the forward row map
    based at `x = (inverse y).out` undoes the inverse row map based at `y`, at `v` -/
theorem couplingRowMap_roundtrip (hy : y.size = B * mask.length) {b : Nat} (hb : b < B) (v : Fin mask.length → ℝ)
    (hel : ∀ i, isT (NF.realX e) mask i = true →
      couplingElMap e c mask (net (idSplit (NF.realX e) mask B (setRow B mask.length y b v))) false b i
        (couplingElMap e c mask (net (idSplit (NF.realX e) mask B (setRow B mask.length y b v))) true b i (v i)) = v i) :
    couplingRowMap e c mask B net false (couplingRun (NF.realX e) c mask B net true y).out b
      (couplingRowMap e c mask B net true y b v) = v := by
  funext i
  rw [couplingRowMap_apply e c mask B net false _ hb, idSplit_roundtrip e c mask B net y hy hb v,
    couplingRowMap_apply e c mask B net true y hb v i]
  by_cases hi : isT (NF.realX e) mask i = true
  · rw [if_pos hi, if_pos hi]; exact hel i hi
  · rw [if_neg hi, if_neg hi]

/-- **C02's log-det sentence from C01 in both directions + the round trip (chain rule)**, any element family: let
    `x = (inverse y).out`.  If the inverse pass's `ld[b]` is `log |det Li|` (`Li` the Fréchet derivative of the inverse row
    map at row `b` of `y`), the forward pass's `ld[b]` at `x` is `log |det Lf|` (`Lf` the Fréchet derivative of the forward
    row map at row `b` of `x`) — the conclusions of the `*_logdet_is_jacobian` headlines — and for rows `v` near row `b` of
    `y` every transformed element round-trips at the conditioner's parameters, then
    `inverse(y).ld[b] = − forward(inverse(y).out).ld[b]`. -/
theorem coupling_inverse_logdet_eq_neg_forward (hy : y.size = B * mask.length) {b : Nat} (hb : b < B)
    {Li Lf : (Fin mask.length → ℝ) →L[ℝ] (Fin mask.length → ℝ)}
    (hLi : HasFDerivAt (couplingRowMap e c mask B net true y b) Li (rowOf (NF.realX e) mask.length b y))
    (hLf : HasFDerivAt (couplingRowMap e c mask B net false (couplingRun (NF.realX e) c mask B net true y).out b) Lf
      (rowOf (NF.realX e) mask.length b (couplingRun (NF.realX e) c mask B net true y).out))
    (hinv : (couplingRun (NF.realX e) c mask B net true y).ld[b]?
      = some (Real.log |LinearMap.det (Li : (Fin mask.length → ℝ) →ₗ[ℝ] (Fin mask.length → ℝ))|))
    (hfwd : (couplingRun (NF.realX e) c mask B net false (couplingRun (NF.realX e) c mask B net true y).out).ld[b]?
      = some (Real.log |LinearMap.det (Lf : (Fin mask.length → ℝ) →ₗ[ℝ] (Fin mask.length → ℝ))|))
    (hel : ∀ᶠ v in nhds (rowOf (NF.realX e) mask.length b y), ∀ i, isT (NF.realX e) mask i = true →
      couplingElMap e c mask (net (idSplit (NF.realX e) mask B (setRow B mask.length y b v))) false b i
        (couplingElMap e c mask (net (idSplit (NF.realX e) mask B (setRow B mask.length y b v))) true b i (v i)) = v i) :
    (couplingRun (NF.realX e) c mask B net true y).ld[b]?
      = ((couplingRun (NF.realX e) c mask B net false (couplingRun (NF.realX e) c mask B net true y).out).ld[b]?).map
          (fun l => -l) := by
  rw [hinv, hfwd, Option.map_some]
  congr 1
  have hgy : couplingRowMap e c mask B net true y b (rowOf (NF.realX e) mask.length b y)
      = rowOf (NF.realX e) mask.length b (couplingRun (NF.realX e) c mask B net true y).out :=
    couplingRowMap_self e c mask B net true y hy b
  rw [← hgy] at hLf
  refine logdet_eq_neg_of_roundtrip _ _ _ hLi hLf ?_
  filter_upwards [hel] with v hv
  exact couplingRowMap_roundtrip e c mask B net y hy hb v hv

/-! ### the bounded RQ instance: every hypothesis of `coupling_inverse_logdet_eq_neg_forward` is DERIVED -/

/-- the bounded RQ element map of a transformed channel, inverse direction, on `[bottom, top]` -/
theorem rq_couplingElMap_inv (hk : c.kind = "rq") (ht : c.tails = false) (params : Array ℝ) (b : Nat)
    (i : Fin mask.length)
    (hv : RQWhole.RQValid e (rqCfgOf c) (rqW (NF.realX e) c (chanSlice e c mask params b i))
      (rqH (NF.realX e) c (chanSlice e c mask params b i)) (rqD c (chanSlice e c mask params b i)))
    (s : ℝ) (h0 : e (rqCfgOf c).box.bottom ≤ s) (h1 : s ≤ e (rqCfgOf c).box.top) :
    couplingElMap e c mask params true b i s
      = RQInverseWhole.inv e (rqCfgOf c) (rqW (NF.realX e) c (chanSlice e c mask params b i))
          (rqH (NF.realX e) c (chanSlice e c mask params b i)) (rqD c (chanSlice e c mask params b i)) s := by
  have hk1 : c.kind ≠ "affine" := by rw [hk]; decide
  have hk2 : c.kind ≠ "additive" := by rw [hk]; decide
  unfold couplingElMap StructureExec.applyEl
  rw [chanEl_spline (NF.realX e) c mask params b i hk1 hk2, elTransform_rq _ c hk ht,
    RQInverseWhole.exec_ok hv s h0 h1]
  rfl

/-- … forward direction, on `[left, right]` -/
theorem rq_couplingElMap_fwd (hk : c.kind = "rq") (ht : c.tails = false) (params : Array ℝ) (b : Nat)
    (i : Fin mask.length)
    (hv : RQWhole.RQValid e (rqCfgOf c) (rqW (NF.realX e) c (chanSlice e c mask params b i))
      (rqH (NF.realX e) c (chanSlice e c mask params b i)) (rqD c (chanSlice e c mask params b i)))
    (s : ℝ) (h0 : e (rqCfgOf c).box.left ≤ s) (h1 : s ≤ e (rqCfgOf c).box.right) :
    couplingElMap e c mask params false b i s
      = RQWhole.val e (rqCfgOf c) (rqW (NF.realX e) c (chanSlice e c mask params b i))
          (rqH (NF.realX e) c (chanSlice e c mask params b i)) (rqD c (chanSlice e c mask params b i)) s := by
  have hk1 : c.kind ≠ "affine" := by rw [hk]; decide
  have hk2 : c.kind ≠ "additive" := by rw [hk]; decide
  unfold couplingElMap StructureExec.applyEl
  rw [chanEl_spline (NF.realX e) c mask params b i hk1 hk2, elTransform_rq _ c hk ht,
    RQWhole.val_eq hv s h0 h1, RQWhole.exec_eq_bin hv s h0 h1]
  rfl

/-- **C02's log-det sentence for the bounded RQ coupling layer, derived from C01 in both directions and the round trip.**
    If the conditioner's output is an accepted configuration for every replacement `v` of row `b` (`RQValid` constrains
    the constants and the LENGTHS of the slices only) and every transformed entry of row `b` of `y` lies strictly inside an
    output bin of its own spline, then — `Li`, `Lf` the Fréchet derivatives of the executed inverse row map at `y` and of
    the executed forward row map at `x = inverse(y).out` —
    `inverse(y).ld[b] = log |det Li| = − log |det Lf| = − forward(x).ld[b]`. -/
theorem coupling_rq_inverse_logdet_eq_neg_forward (hk : c.kind = "rq") (ht : c.tails = false)
    (hy : y.size = B * mask.length) {b : Nat} (hb : b < B)
    (hvn : ∀ v, RQParamsValid e c (nT e mask) 1
      (net (idSplit (NF.realX e) mask B (setRow B mask.length y b v))) B)
    (hbin : ∀ i, isT (NF.realX e) mask i = true → ∃ k,
      k < (rqW (NF.realX e) c (chanSlice e c mask (cParams e mask B net y) b i)).length ∧
      RQWhole.ys e (rqCfgOf c) (rqH (NF.realX e) c (chanSlice e c mask (cParams e mask B net y) b i)) k
        < rowOf (NF.realX e) mask.length b y i ∧
      rowOf (NF.realX e) mask.length b y i
        < RQWhole.ys e (rqCfgOf c) (rqH (NF.realX e) c (chanSlice e c mask (cParams e mask B net y) b i)) (k + 1))
    {Li Lf : (Fin mask.length → ℝ) →L[ℝ] (Fin mask.length → ℝ)}
    (hLi : HasFDerivAt (couplingRowMap e c mask B net true y b) Li (rowOf (NF.realX e) mask.length b y))
    (hLf : HasFDerivAt (couplingRowMap e c mask B net false (couplingRun (NF.realX e) c mask B net true y).out b) Lf
      (rowOf (NF.realX e) mask.length b (couplingRun (NF.realX e) c mask B net true y).out)) :
    (couplingRun (NF.realX e) c mask B net true y).ld[b]?
        = some (Real.log |LinearMap.det (Li : (Fin mask.length → ℝ) →ₗ[ℝ] (Fin mask.length → ℝ))|) ∧
    (couplingRun (NF.realX e) c mask B net false (couplingRun (NF.realX e) c mask B net true y).out).ld[b]?
        = some (Real.log |LinearMap.det (Lf : (Fin mask.length → ℝ) →ₗ[ℝ] (Fin mask.length → ℝ))|) ∧
    (couplingRun (NF.realX e) c mask B net true y).ld[b]?
      = ((couplingRun (NF.realX e) c mask B net false (couplingRun (NF.realX e) c mask B net true y).out).ld[b]?).map
          (fun l => -l) := by
  have hv : RQParamsValid e c (nT e mask) 1 (cParams e mask B net y) B := by
    have := hvn (rowOf (NF.realX e) mask.length b y)
    rwa [setRow_rowOf e B _ y hy b] at this
  have hxs : (couplingRun (NF.realX e) c mask B net true y).out.size = B * mask.length := by
    unfold couplingRun; rw [coupling_out_size, hy]
  have hPx : cParams e mask B net (couplingRun (NF.realX e) c mask B net true y).out = cParams e mask B net y := by
    unfold cParams couplingRun
    rw [idSplit_out e c mask B y _ _ true]
  have hinv := coupling_rq_inverse_logdet_is_jacobian e c mask B net y hk ht hy hb hv hbin hLi
  -- the entries of row `b` of `x` are the executed inverses of the entries of row `b` of `y`
  have hrow : ∀ i, isT (NF.realX e) mask i = true →
      rowOf (NF.realX e) mask.length b (couplingRun (NF.realX e) c mask B net true y).out i
        = couplingElMap e c mask (cParams e mask B net y) true b i (rowOf (NF.realX e) mask.length b y i) := by
    intro i hi
    rw [← couplingRowMap_self e c mask B net true y hy b,
      couplingRowMap_eq e c mask B net true y hy hb _ (fun _ _ => rfl) i, if_pos hi]
  have hfwd := coupling_rq_logdet_is_jacobian e c mask B net _ hk ht hxs hb (by rw [hPx]; exact hv)
    (fun i hi => by
      obtain ⟨k, hkK, h0, h1⟩ := hbin i hi
      have hvi := hv b _ 0 hb (tpos_lt e mask i hi) Nat.one_pos
      have hy0 := lt_of_le_of_lt (RQInverseWhole.knot_mem_y hvi k hkK.le).1 h0
      have hy1 := lt_of_lt_of_le h1 (RQInverseWhole.knot_mem_y hvi (k + 1) hkK).2
      have hsm := RQInverseWhole.inv_strictMonoOn hvi
      rw [hPx, hrow i hi, rq_couplingElMap_inv e c mask hk ht _ b i hvi _ hy0.le hy1.le]
      refine ⟨k, hkK, ?_, ?_⟩
      · rw [← RQInverseWhole.inv_knot hvi k hkK.le]
        exact hsm (RQInverseWhole.knot_mem_y hvi k hkK.le) ⟨hy0.le, hy1.le⟩ h0
      · rw [← RQInverseWhole.inv_knot hvi (k + 1) hkK]
        exact hsm ⟨hy0.le, hy1.le⟩ (RQInverseWhole.knot_mem_y hvi (k + 1) hkK) h1) hLf
  refine ⟨hinv, hfwd, coupling_inverse_logdet_eq_neg_forward e c mask B net y hy hb hLi hLf hinv hfwd ?_⟩
  -- near row `b` of `y` every transformed entry stays strictly inside the output box
  have hopen : ∀ᶠ v in nhds (rowOf (NF.realX e) mask.length b y), ∀ i, isT (NF.realX e) mask i = true →
      e (rqCfgOf c).box.bottom < v i ∧ v i < e (rqCfgOf c).box.top := by
    rw [Filter.eventually_all]
    intro i
    by_cases hi : isT (NF.realX e) mask i = true
    · obtain ⟨k, hkK, h0, h1⟩ := hbin i hi
      have hvi := hv b _ 0 hb (tpos_lt e mask i hi) Nat.one_pos
      have hy0 := lt_of_le_of_lt (RQInverseWhole.knot_mem_y hvi k hkK.le).1 h0
      have hy1 := lt_of_lt_of_le h1 (RQInverseWhole.knot_mem_y hvi (k + 1) hkK).2
      have := (continuous_apply i).continuousAt.eventually (Ioo_mem_nhds hy0 hy1)
      filter_upwards [this] with v hv' _
      exact hv'
    · exact Filter.Eventually.of_forall (fun v h => absurd h hi)
  filter_upwards [hopen] with v hv' i hi
  obtain ⟨h0, h1⟩ := hv' i hi
  have hvi := hvn v b _ 0 hb (tpos_lt e mask i hi) Nat.one_pos
  have hm := RQInverseWhole.inv_mapsTo hvi ⟨h0.le, h1.le⟩
  rw [rq_couplingElMap_inv e c mask hk ht _ b i hvi _ h0.le h1.le,
    rq_couplingElMap_fwd e c mask hk ht _ b i hvi _ hm.1 hm.2]
  exact RQInverseWhole.val_inv hvi _ h0.le h1.le

/-! ### the bounded piecewise-LINEAR instance -/

/-- the executed linear inverse sends the `j`-th output knot to the `j`-th input knot -/
theorem lin_inv_knot {e : Float → ℝ} {box : Box} {eps : Float} {up : List ℝ} (hv : LinWhole.LinValid e box eps up)
    (j : ℕ) (hj : j ≤ up.length) :
    LinWhole.inv e box eps up (LinWhole.yk e box up j) = LinWhole.xk e box up.length j := by
  obtain ⟨hx0, hxK, hxs, _⟩ := LinWhole.knots_facts hv
  have hmono := ExecGlue.knots_mono (LinWhole.xk e box up.length) up.length hxs
  have h0 : e box.left ≤ LinWhole.xk e box up.length j := by rw [← hx0]; exact hmono 0 j (Nat.zero_le _) hj
  have h1 : LinWhole.xk e box up.length j ≤ e box.right := by rw [← hxK]; exact hmono j _ hj le_rfl
  have hk : LinWhole.val e box eps up (LinWhole.xk e box up.length j) = LinWhole.yk e box up j :=
    LinWhole.val_knot hv j hj
  rw [← hk]
  exact LinWhole.inv_val hv _ h0 h1

theorem lin_couplingElMap_inv (hk : c.kind = "lin") (ht : c.tails = false) (params : Array ℝ) (b : Nat)
    (i : Fin mask.length) (hv : LinWhole.LinValid e (linBoxOf c) 1e-6 (chanSlice e c mask params b i))
    (s : ℝ) (h0 : e (linBoxOf c).bottom ≤ s) (h1 : s ≤ e (linBoxOf c).top) :
    couplingElMap e c mask params true b i s = LinWhole.inv e (linBoxOf c) 1e-6 (chanSlice e c mask params b i) s := by
  have hk1 : c.kind ≠ "affine" := by rw [hk]; decide
  have hk2 : c.kind ≠ "additive" := by rw [hk]; decide
  unfold couplingElMap StructureExec.applyEl
  rw [chanEl_spline (NF.realX e) c mask params b i hk1 hk2, LinTails.elTransform_lin _ c hk ht]
  have := LinWhole.inv_exec_ok hv s h0 h1
  unfold linBoxOf at this
  rw [this]
  rfl

theorem lin_couplingElMap_fwd (hk : c.kind = "lin") (ht : c.tails = false) (params : Array ℝ) (b : Nat)
    (i : Fin mask.length) (hv : LinWhole.LinValid e (linBoxOf c) 1e-6 (chanSlice e c mask params b i))
    (s : ℝ) (h0 : e (linBoxOf c).left ≤ s) (h1 : s ≤ e (linBoxOf c).right) :
    couplingElMap e c mask params false b i s = LinWhole.val e (linBoxOf c) 1e-6 (chanSlice e c mask params b i) s := by
  have hk1 : c.kind ≠ "affine" := by rw [hk]; decide
  have hk2 : c.kind ≠ "additive" := by rw [hk]; decide
  unfold couplingElMap StructureExec.applyEl
  rw [chanEl_spline (NF.realX e) c mask params b i hk1 hk2, LinTails.elTransform_lin _ c hk ht]
  have := LinWhole.exec_ok hv s h0 h1
  unfold linBoxOf at this
  rw [this]
  rfl

/-- **C02's log-det sentence for the bounded piecewise-LINEAR coupling layer, derived from C01 in both directions and the
    round trip**: same statement as `coupling_rq_inverse_logdet_eq_neg_forward`; every transformed entry of row `b` of `y`
    strictly inside an OUTPUT bin of its own spline -/
theorem coupling_linear_inverse_logdet_eq_neg_forward (hk : c.kind = "lin") (ht : c.tails = false)
    (hbl : e (boxLog (linBoxOf c)) = Real.log ((e (linBoxOf c).top - e (linBoxOf c).bottom)
      / (e (linBoxOf c).right - e (linBoxOf c).left)))
    (hy : y.size = B * mask.length) {b : Nat} (hb : b < B)
    (hvn : ∀ v, LinTails.LinParamsValid e c (nT e mask) 1
      (net (idSplit (NF.realX e) mask B (setRow B mask.length y b v))) B)
    (hbin : ∀ i, isT (NF.realX e) mask i = true → ∃ k, k < c.K ∧
      LinWhole.yk e (linBoxOf c) (chanSlice e c mask (cParams e mask B net y) b i) k < rowOf (NF.realX e) mask.length b y i ∧
      rowOf (NF.realX e) mask.length b y i < LinWhole.yk e (linBoxOf c) (chanSlice e c mask (cParams e mask B net y) b i) (k + 1))
    {Li Lf : (Fin mask.length → ℝ) →L[ℝ] (Fin mask.length → ℝ)}
    (hLi : HasFDerivAt (couplingRowMap e c mask B net true y b) Li (rowOf (NF.realX e) mask.length b y))
    (hLf : HasFDerivAt (couplingRowMap e c mask B net false (couplingRun (NF.realX e) c mask B net true y).out b) Lf
      (rowOf (NF.realX e) mask.length b (couplingRun (NF.realX e) c mask B net true y).out)) :
    (couplingRun (NF.realX e) c mask B net true y).ld[b]?
        = some (Real.log |LinearMap.det (Li : (Fin mask.length → ℝ) →ₗ[ℝ] (Fin mask.length → ℝ))|) ∧
    (couplingRun (NF.realX e) c mask B net false (couplingRun (NF.realX e) c mask B net true y).out).ld[b]?
        = some (Real.log |LinearMap.det (Lf : (Fin mask.length → ℝ) →ₗ[ℝ] (Fin mask.length → ℝ))|) ∧
    (couplingRun (NF.realX e) c mask B net true y).ld[b]?
      = ((couplingRun (NF.realX e) c mask B net false (couplingRun (NF.realX e) c mask B net true y).out).ld[b]?).map
          (fun l => -l) := by
  have hm : c.mult = c.K := by simp [ElCfg.mult, hk]
  have hlen : ∀ params : Array ℝ, ∀ i : Fin mask.length, (chanSlice e c mask params b i).length = c.K := by
    intro params i; rw [condSlice_length, hm]
  have hv : LinTails.LinParamsValid e c (nT e mask) 1 (cParams e mask B net y) B := by
    have := hvn (rowOf (NF.realX e) mask.length b y)
    rwa [setRow_rowOf e B _ y hy b] at this
  have hxs : (couplingRun (NF.realX e) c mask B net true y).out.size = B * mask.length := by
    unfold couplingRun; rw [coupling_out_size, hy]
  have hPx : cParams e mask B net (couplingRun (NF.realX e) c mask B net true y).out = cParams e mask B net y := by
    unfold cParams couplingRun
    rw [idSplit_out e c mask B y _ _ true]
  have hinv := coupling_linear_inverse_logdet_is_jacobian e c mask B net y hk ht hbl hy hb hv hbin hLi
  have hrow : ∀ i, isT (NF.realX e) mask i = true →
      rowOf (NF.realX e) mask.length b (couplingRun (NF.realX e) c mask B net true y).out i
        = couplingElMap e c mask (cParams e mask B net y) true b i (rowOf (NF.realX e) mask.length b y i) := by
    intro i hi
    rw [← couplingRowMap_self e c mask B net true y hy b,
      couplingRowMap_eq e c mask B net true y hy hb _ (fun _ _ => rfl) i, if_pos hi]
  -- position of `y_i` in the output box, from its bin
  have hbox : ∀ i, isT (NF.realX e) mask i = true →
      e (linBoxOf c).bottom < rowOf (NF.realX e) mask.length b y i ∧ rowOf (NF.realX e) mask.length b y i < e (linBoxOf c).top := by
    intro i hi
    obtain ⟨k, hkK, h0, h1⟩ := hbin i hi
    have hvi : LinWhole.LinValid e (linBoxOf c) 1e-6 (chanSlice e c mask (cParams e mask B net y) b i) :=
      (hv b _ 0 hb (tpos_lt e mask i hi) Nat.one_pos).1
    obtain ⟨_, _, _, hy0, hyK, hys, _⟩ := LinWhole.knots_facts hvi
    have hmono := ExecGlue.knots_mono (LinWhole.yk e (linBoxOf c) _) _ hys
    have hkK' : k < (chanSlice e c mask (cParams e mask B net y) b i).length := by rw [hlen]; exact hkK
    have hL := hmono 0 k (Nat.zero_le _) hkK'.le
    have hR := hmono (k + 1) _ hkK' le_rfl
    rw [hy0] at hL
    rw [hyK] at hR
    exact ⟨lt_of_le_of_lt hL h0, lt_of_lt_of_le h1 hR⟩
  have hfwd := coupling_linear_logdet_is_jacobian e c mask B net _ hk ht hbl hxs hb (by rw [hPx]; exact hv)
    (fun i hi => by
      obtain ⟨k, hkK, h0, h1⟩ := hbin i hi
      have hvi : LinWhole.LinValid e (linBoxOf c) 1e-6 (chanSlice e c mask (cParams e mask B net y) b i) :=
        (hv b _ 0 hb (tpos_lt e mask i hi) Nat.one_pos).1
      obtain ⟨hy0, hy1⟩ := hbox i hi
      obtain ⟨_, _, _, hyk0, hykK, hys, _⟩ := LinWhole.knots_facts hvi
      have hmono := ExecGlue.knots_mono (LinWhole.yk e (linBoxOf c) _) _ hys
      have hkK' : k < (chanSlice e c mask (cParams e mask B net y) b i).length := by rw [hlen]; exact hkK
      have hmem : ∀ j, j ≤ (chanSlice e c mask (cParams e mask B net y) b i).length →
          LinWhole.yk e (linBoxOf c) (chanSlice e c mask (cParams e mask B net y) b i) j
            ∈ Set.Icc (e (linBoxOf c).bottom) (e (linBoxOf c).top) := by
        intro j hj
        constructor
        · rw [← hyk0]; exact hmono 0 j (Nat.zero_le _) hj
        · rw [← hykK]; exact hmono j _ hj le_rfl
      have hsm := LinWhole.inv_strictMonoOn hvi
      rw [hrow i hi, lin_couplingElMap_inv e c mask hk ht _ b i hvi _ hy0.le hy1.le]
      refine ⟨k, hkK, ?_, ?_⟩
      · have := lin_inv_knot hvi k hkK'.le
        rw [hlen] at this
        rw [← this]
        exact hsm (hmem k hkK'.le) ⟨hy0.le, hy1.le⟩ h0
      · have := lin_inv_knot hvi (k + 1) hkK'
        rw [hlen] at this
        rw [← this]
        exact hsm ⟨hy0.le, hy1.le⟩ (hmem (k + 1) hkK') h1) hLf
  refine ⟨hinv, hfwd, coupling_inverse_logdet_eq_neg_forward e c mask B net y hy hb hLi hLf hinv hfwd ?_⟩
  have hopen : ∀ᶠ v in nhds (rowOf (NF.realX e) mask.length b y), ∀ i, isT (NF.realX e) mask i = true →
      e (linBoxOf c).bottom < v i ∧ v i < e (linBoxOf c).top := by
    rw [Filter.eventually_all]
    intro i
    by_cases hi : isT (NF.realX e) mask i = true
    · obtain ⟨hy0, hy1⟩ := hbox i hi
      have := (continuous_apply i).continuousAt.eventually (Ioo_mem_nhds hy0 hy1)
      filter_upwards [this] with v hv' _
      exact hv'
    · exact Filter.Eventually.of_forall (fun v h => absurd h hi)
  filter_upwards [hopen] with v hv' i hi
  obtain ⟨h0, h1⟩ := hv' i hi
  have hvi : LinWhole.LinValid e (linBoxOf c) 1e-6 (chanSlice e c mask
      (net (idSplit (NF.realX e) mask B (setRow B mask.length y b v))) b i) :=
    (hvn v b _ 0 hb (tpos_lt e mask i hi) Nat.one_pos).1
  have hmp := LinWhole.inv_mapsTo hvi ⟨h0.le, h1.le⟩
  rw [lin_couplingElMap_inv e c mask hk ht _ b i hvi _ h0.le h1.le,
    lin_couplingElMap_fwd e c mask hk ht _ b i hvi _ hmp.1 hmp.2]
  exact LinWhole.val_inv hvi _ h0.le h1.le

end consistency

/-! ## 6. Non-vacuity: the hypothesis bundles of the headlines are satisfiable

Same witnesses as `LayerDerivMore` §6 / the `*Whole` files: unit box, one bin (cubic: two bins), two-valued readings,
conditioner returning the empty array where the validity bundle depends on the conditioner output.  `Float.log` is opaque
to the kernel, so the `boxLog` reading is granted as a `Float` equality an evaluator confirms.  What is left is a hypothesis
on the DATA only (entries in `(0, 1)`) and Fréchet differentiability of the row map. -/

section witness

private theorem w00 : ((0.0:Float) == 0.0) = true := by decide +kernel
private theorem w10 : ((1.0:Float) == 0.0) = false := by decide +kernel

theorem rq_slice_example (mask : List ℝ) (B : Nat) (x : Array ℝ) (b : Nat) (i : Fin mask.length) :
    chanSlice RQWhole.eNV cW mask (cParams RQWhole.eNV mask B (fun _ => #[]) x) b i = [0, 0, 0, 0] := by
  have hm : cW.mult = 4 := by decide
  unfold chanSlice cParams
  rw [hm]
  simp [condSlice, List.range_succ]

theorem rq_parts_example : rqW (NF.realX RQWhole.eNV) cW [0, 0, 0, 0] = [0] ∧ rqH (NF.realX RQWhole.eNV) cW [0, 0, 0, 0] = [0] :=
  ⟨by simp [rqW, rqScale, cW], by simp [rqH, rqScale, cW]⟩

/-- bounded RQ coupling, FORWARD pass: one bin, conditioner returning the empty array, entries in `(0, 1)` -/
example (mask : List ℝ) (B : Nat) (x : Array ℝ) (hx : x.size = B * mask.length) {b : Nat} (hb : b < B)
    (hin : ∀ i, isT (NF.realX RQWhole.eNV) mask i = true →
      0 < rowOf (NF.realX RQWhole.eNV) mask.length b x i ∧ rowOf (NF.realX RQWhole.eNV) mask.length b x i < 1)
    {L : (Fin mask.length → ℝ) →L[ℝ] (Fin mask.length → ℝ)}
    (hL : HasFDerivAt (couplingRowMap RQWhole.eNV cW mask B (fun _ => #[]) false x b) L
      (rowOf (NF.realX RQWhole.eNV) mask.length b x)) :
    (couplingRun (NF.realX RQWhole.eNV) cW mask B (fun _ => #[]) false x).ld[b]?
      = some (Real.log |LinearMap.det (L : (Fin mask.length → ℝ) →ₗ[ℝ] (Fin mask.length → ℝ))|) := by
  refine coupling_rq_logdet_is_jacobian RQWhole.eNV cW mask B (fun _ => #[]) x rfl rfl hx hb
    (rqParamsValid_example _ 1 B) (fun i hi => ?_) hL
  have e0 : RQWhole.eNV RQWhole.cNV.box.left = 0 := by simp [RQWhole.eNV, RQWhole.cNV, w00]
  have e1 : RQWhole.eNV RQWhole.cNV.box.right = 1 := by simp [RQWhole.eNV, RQWhole.cNV, w10]
  have hK : RQWhole.xs RQWhole.eNV RQWhole.cNV [0] (0 + 1) = RQWhole.eNV RQWhole.cNV.box.right :=
    RQWhole.xs_last RQWhole.valid_example
  rw [rq_slice_example, rq_parts_example.1, show rqCfgOf cW = RQWhole.cNV from rfl]
  refine ⟨0, by simp, ?_, ?_⟩
  · rw [RQWhole.xs_zero RQWhole.valid_example, e0]; exact (hin i hi).1
  · rw [hK, e1]; exact (hin i hi).2

/-- bounded RQ coupling, INVERSE pass: one bin, conditioner returning the empty array, entries in `(0, 1)` -/
example (mask : List ℝ) (B : Nat) (x : Array ℝ) (hx : x.size = B * mask.length) {b : Nat} (hb : b < B)
    (hin : ∀ i, isT (NF.realX RQWhole.eNV) mask i = true →
      0 < rowOf (NF.realX RQWhole.eNV) mask.length b x i ∧ rowOf (NF.realX RQWhole.eNV) mask.length b x i < 1)
    {L : (Fin mask.length → ℝ) →L[ℝ] (Fin mask.length → ℝ)}
    (hL : HasFDerivAt (couplingRowMap RQWhole.eNV cW mask B (fun _ => #[]) true x b) L
      (rowOf (NF.realX RQWhole.eNV) mask.length b x)) :
    (couplingRun (NF.realX RQWhole.eNV) cW mask B (fun _ => #[]) true x).ld[b]?
      = some (Real.log |LinearMap.det (L : (Fin mask.length → ℝ) →ₗ[ℝ] (Fin mask.length → ℝ))|) := by
  refine coupling_rq_inverse_logdet_is_jacobian RQWhole.eNV cW mask B (fun _ => #[]) x rfl rfl hx hb
    (rqParamsValid_example _ 1 B) (fun i hi => ?_) hL
  have e0 : RQWhole.eNV RQWhole.cNV.box.bottom = 0 := by simp [RQWhole.eNV, RQWhole.cNV, w00]
  have e1 : RQWhole.eNV RQWhole.cNV.box.top = 1 := by simp [RQWhole.eNV, RQWhole.cNV, w10]
  have hK : RQWhole.ys RQWhole.eNV RQWhole.cNV [0] (0 + 1) = RQWhole.eNV RQWhole.cNV.box.top :=
    RQWhole.ys_last RQWhole.valid_example
  rw [rq_slice_example, rq_parts_example.1, rq_parts_example.2, show rqCfgOf cW = RQWhole.cNV from rfl]
  refine ⟨0, by simp, ?_, ?_⟩
  · rw [RQWhole.ys_zero RQWhole.valid_example, e0]; exact (hin i hi).1
  · rw [hK, e1]; exact (hin i hi).2

/-- the consistency corollary for the bounded RQ coupling layer: one bin, conditioner returning the empty array, the
    transformed entries of row `b` of `y` in `(0, 1)`; only the two differentiability hypotheses are left -/
example (mask : List ℝ) (B : Nat) (y : Array ℝ) (hy : y.size = B * mask.length) {b : Nat} (hb : b < B)
    (hin : ∀ i, isT (NF.realX RQWhole.eNV) mask i = true →
      0 < rowOf (NF.realX RQWhole.eNV) mask.length b y i ∧ rowOf (NF.realX RQWhole.eNV) mask.length b y i < 1)
    {Li Lf : (Fin mask.length → ℝ) →L[ℝ] (Fin mask.length → ℝ)}
    (hLi : HasFDerivAt (couplingRowMap RQWhole.eNV cW mask B (fun _ => #[]) true y b) Li
      (rowOf (NF.realX RQWhole.eNV) mask.length b y))
    (hLf : HasFDerivAt (couplingRowMap RQWhole.eNV cW mask B (fun _ => #[]) false
        (couplingRun (NF.realX RQWhole.eNV) cW mask B (fun _ => #[]) true y).out b) Lf
      (rowOf (NF.realX RQWhole.eNV) mask.length b (couplingRun (NF.realX RQWhole.eNV) cW mask B (fun _ => #[]) true y).out)) :
    (couplingRun (NF.realX RQWhole.eNV) cW mask B (fun _ => #[]) true y).ld[b]?
      = ((couplingRun (NF.realX RQWhole.eNV) cW mask B (fun _ => #[]) false
          (couplingRun (NF.realX RQWhole.eNV) cW mask B (fun _ => #[]) true y).out).ld[b]?).map (fun l => -l) := by
  refine (coupling_rq_inverse_logdet_eq_neg_forward RQWhole.eNV cW mask B (fun _ => #[]) y rfl rfl hy hb
    (fun _ => rqParamsValid_example _ 1 B) (fun i hi => ?_) hLi hLf).2.2
  have e0 : RQWhole.eNV RQWhole.cNV.box.bottom = 0 := by simp [RQWhole.eNV, RQWhole.cNV, w00]
  have e1 : RQWhole.eNV RQWhole.cNV.box.top = 1 := by simp [RQWhole.eNV, RQWhole.cNV, w10]
  have hK : RQWhole.ys RQWhole.eNV RQWhole.cNV [0] (0 + 1) = RQWhole.eNV RQWhole.cNV.box.top :=
    RQWhole.ys_last RQWhole.valid_example
  rw [rq_slice_example, rq_parts_example.1, rq_parts_example.2, show rqCfgOf cW = RQWhole.cNV from rfl]
  refine ⟨0, by simp, ?_, ?_⟩
  · rw [RQWhole.ys_zero RQWhole.valid_example, e0]; exact (hin i hi).1
  · rw [hK, e1]; exact (hin i hi).2

/-- the consistency corollary for the bounded LINEAR coupling layer: `LayerDerivMore.cLi` (one bin), ANY conditioner, the
    transformed entries of row `b` of `y` in `(0, 1)` -/
example (h1 : (Float.log (1.0 / (1:ℕ).toFloat) == 0.0) = true) (h2 : (boxLog ⟨0.0, 1.0, 0.0, 1.0⟩ == 0.0) = true)
    (mask : List ℝ) (B : Nat) (net : Array ℝ → Array ℝ) (y : Array ℝ) (hy : y.size = B * mask.length) {b : Nat} (hb : b < B)
    (hin : ∀ i, isT (NF.realX RQWhole.eNV) mask i = true →
      0 < rowOf (NF.realX RQWhole.eNV) mask.length b y i ∧ rowOf (NF.realX RQWhole.eNV) mask.length b y i < 1)
    {Li Lf : (Fin mask.length → ℝ) →L[ℝ] (Fin mask.length → ℝ)}
    (hLi : HasFDerivAt (couplingRowMap RQWhole.eNV cLi mask B net true y b) Li
      (rowOf (NF.realX RQWhole.eNV) mask.length b y))
    (hLf : HasFDerivAt (couplingRowMap RQWhole.eNV cLi mask B net false
        (couplingRun (NF.realX RQWhole.eNV) cLi mask B net true y).out b) Lf
      (rowOf (NF.realX RQWhole.eNV) mask.length b (couplingRun (NF.realX RQWhole.eNV) cLi mask B net true y).out)) :
    (couplingRun (NF.realX RQWhole.eNV) cLi mask B net true y).ld[b]?
      = ((couplingRun (NF.realX RQWhole.eNV) cLi mask B net false
          (couplingRun (NF.realX RQWhole.eNV) cLi mask B net true y).out).ld[b]?).map (fun l => -l) := by
  obtain ⟨hv, hbl⟩ := lin_bundle_example h1 h2 (nT RQWhole.eNV mask) 1 (cParams RQWhole.eNV mask B net y) B
  refine (coupling_linear_inverse_logdet_eq_neg_forward RQWhole.eNV cLi mask B net y rfl rfl hbl hy hb
    (fun _ => (lin_bundle_example h1 h2 _ 1 _ B).1) (fun i hi => ?_) hLi hLf).2.2
  have hv1 : LinWhole.LinValid RQWhole.eNV (linBoxOf cLi) 1e-6
      (chanSlice RQWhole.eNV cLi mask (cParams RQWhole.eNV mask B net y) b i) :=
    (hv b _ 0 hb (tpos_lt RQWhole.eNV mask i hi) Nat.one_pos).1
  have hlen : (chanSlice RQWhole.eNV cLi mask (cParams RQWhole.eNV mask B net y) b i).length = 1 := by
    rw [condSlice_length]; decide
  obtain ⟨_, _, _, hy0, hyK, _⟩ := LinWhole.knots_facts hv1
  rw [hlen] at hyK
  have e0 : RQWhole.eNV (linBoxOf cLi).bottom = 0 := by rw [linBoxOf_cLi]; simp [RQWhole.eNV, w00]
  have e1 : RQWhole.eNV (linBoxOf cLi).top = 1 := by rw [linBoxOf_cLi]; simp [RQWhole.eNV, w10]
  refine ⟨0, by decide, ?_, ?_⟩
  · rw [hy0, e0]; exact (hin i hi).1
  · rw [hyK, e1]; exact (hin i hi).2

/-- RQ coupling with linear tails, INVERSE pass: `CouplingJacobian.cC1` (one bin, tail bound 1), ANY conditioner, EVERY
    real row (the seven `Float` comparisons of `pad_cfg_example_coupling` are what an evaluator confirms) -/
example (hk : (TailsWhole.kP == TailsWhole.kP) = true) (h0 : ((0.0:Float) == TailsWhole.kP) = false)
    (h1 : ((1.0:Float) == TailsWhole.kP) = false) (hm1 : ((-(1.0:Float)) == TailsWhole.kP) = false)
    (h2 : (((1.0:Float) - (-(1.0:Float))) == TailsWhole.kP) = false) (h6 : ((1e-6:Float) == TailsWhole.kP) = false)
    (hcc : (((1:Float) - 0.0 * (1:Nat).toFloat) == TailsWhole.kP) = false)
    (mask : List ℝ) (B : Nat) (net : Array ℝ → Array ℝ) (x : Array ℝ) (hx : x.size = B * mask.length) {b : Nat} (hb : b < B)
    {L : (Fin mask.length → ℝ) →L[ℝ] (Fin mask.length → ℝ)}
    (hL : HasFDerivAt (couplingRowMap TailsWhole.eP cC1 mask B net true x b) L
      (rowOf (NF.realX TailsWhole.eP) mask.length b x)) :
    (couplingRun (NF.realX TailsWhole.eP) cC1 mask B net true x).ld[b]?
      = some (Real.log |LinearMap.det (L : (Fin mask.length → ℝ) →ₗ[ℝ] (Fin mask.length → ℝ))|) := by
  obtain ⟨hc, hp⟩ := pad_cfg_example_coupling hk h0 h1 hm1 h2 h6 hcc
  exact coupling_rq_tails_inverse_logdet_is_jacobian TailsWhole.eP cC1 mask B net x hc hp hx hb hL

/-- bounded quadratic coupling, INVERSE pass: `StructureExec.cQ` (one bin), conditioner returning the empty array -/
example (hlog : (boxLog QuadWhole.cNV.box == 0.0) = true) (mask : List ℝ) (B : Nat) (x : Array ℝ)
    (hx : x.size = B * mask.length) {b : Nat} (hb : b < B)
    (hin : ∀ i, isT (NF.realX QuadWhole.eNV) mask i = true →
      0 < rowOf (NF.realX QuadWhole.eNV) mask.length b x i ∧ rowOf (NF.realX QuadWhole.eNV) mask.length b x i < 1)
    {L : (Fin mask.length → ℝ) →L[ℝ] (Fin mask.length → ℝ)}
    (hL : HasFDerivAt (couplingRowMap QuadWhole.eNV cQ mask B (fun _ => #[]) true x b) L
      (rowOf (NF.realX QuadWhole.eNV) mask.length b x)) :
    (couplingRun (NF.realX QuadWhole.eNV) cQ mask B (fun _ => #[]) true x).ld[b]?
      = some (Real.log |LinearMap.det (L : (Fin mask.length → ℝ) →ₗ[ℝ] (Fin mask.length → ℝ))|) := by
  refine coupling_quadratic_inverse_logdet_is_jacobian QuadWhole.eNV cQ mask B (fun _ => #[]) x rfl rfl
    (QuadWhole.boxLog_example hlog) hx hb (quadParamsValid_example _ 1 B) (fun i hi => ?_) hL
  have hs : chanSlice QuadWhole.eNV cQ mask (cParams QuadWhole.eNV mask B (fun _ => #[]) x) b i = [0, 0, 0] := by
    have hm : cQ.mult = 3 := by decide
    unfold chanSlice cParams
    rw [hm]
    simp [condSlice, List.range_succ]
  have hw : quadW (NF.realX QuadWhole.eNV) cQ [0, 0, 0] = [0] := by simp [quadW, quadScale, cQ]
  have hh : quadH (NF.realX QuadWhole.eNV) cQ [0, 0, 0] = [0, 0] := by simp [quadH, quadScale, cQ]
  obtain ⟨f0, fK, _⟩ := quad_yk_facts QuadWhole.valid_example
  have e0 : QuadWhole.eNV QuadWhole.cNV.box.bottom = 0 := by simp [QuadWhole.eNV, QuadWhole.cNV, w00]
  have e1 : QuadWhole.eNV QuadWhole.cNV.box.top = 1 := by simp [QuadWhole.eNV, QuadWhole.cNV, w10]
  unfold quadYk
  rw [hs, hw, hh, show quadCfgOf cQ = QuadWhole.cNV from rfl]
  refine ⟨0, by simp, ?_, ?_⟩
  · rw [f0, e0]; exact (hin i hi).1
  · have : QuadInverseWhole.yk QuadWhole.eNV QuadWhole.cNV (QuadWhole.Wq QuadWhole.eNV QuadWhole.cNV [0])
        (QuadWhole.Uq QuadWhole.eNV [0, 0]) (0 + 1) = 1 := by rw [← e1, ← fK]; rfl
    rw [this]; exact (hin i hi).2

private theorem kI0 : CubicInverseWhole.codeI 0.0 = 0 := by decide +kernel
private theorem kI1 : CubicInverseWhole.codeI 1.0 = 8 := by decide +kernel

/-- bounded cubic coupling, INVERSE pass: `CubicLayers.cC` (two bins), the reading `CubicInverseWhole.eI`, conditioner
    returning the empty array (every slice exact: `CubicLayers.cubicParamsExact_example`), entries in `(0, 1)` -/
example (hlog : (boxLog CubicWhole.cNV.box == 0.0) = true) (mask : List ℝ) (B : Nat) (x : Array ℝ)
    (hx : x.size = B * mask.length) {b : Nat} (hb : b < B)
    (hin : ∀ i, isT (NF.realX CubicInverseWhole.eI) mask i = true →
      0 < rowOf (NF.realX CubicInverseWhole.eI) mask.length b x i ∧
      rowOf (NF.realX CubicInverseWhole.eI) mask.length b x i < 1)
    {L : (Fin mask.length → ℝ) →L[ℝ] (Fin mask.length → ℝ)}
    (hL : HasFDerivAt (couplingRowMap CubicInverseWhole.eI CubicLayers.cC mask B (fun _ => #[]) true x b) L
      (rowOf (NF.realX CubicInverseWhole.eI) mask.length b x)) :
    (couplingRun (NF.realX CubicInverseWhole.eI) CubicLayers.cC mask B (fun _ => #[]) true x).ld[b]?
      = some (Real.log |LinearMap.det (L : (Fin mask.length → ℝ) →ₗ[ℝ] (Fin mask.length → ℝ))|) := by
  have e0 : CubicInverseWhole.eI CubicWhole.cNV.box.bottom = 0 := CubicInverseWhole.ex_bottom
  have e1 : CubicInverseWhole.eI CubicWhole.cNV.box.top = 1 := CubicInverseWhole.ex_top
  have eL : CubicInverseWhole.eI CubicWhole.cNV.box.left = 0 := by
    simp [CubicInverseWhole.eI, CubicWhole.cNV, kI0, CubicInverseWhole.tableI]
  have eR : CubicInverseWhole.eI CubicWhole.cNV.box.right = 1 := by
    simp [CubicInverseWhole.eI, CubicWhole.cNV, kI1, CubicInverseWhole.tableI]
  have hb0 : CubicInverseWhole.eI (boxLog CubicWhole.cNV.box) = 0 := by
    unfold CubicInverseWhole.eI CubicInverseWhole.codeI; rw [if_pos hlog]; rfl
  refine coupling_cubic_inverse_logdet_is_jacobian CubicInverseWhole.eI CubicLayers.cC mask B (fun _ => #[]) x rfl rfl
    CubicInverseWhole.consts_example ?_ hx hb (CubicLayers.cubicParamsExact_example _ 1 B) (fun i hi => ?_) hL
  · rw [CubicLayers.cubicCfgOf_cC, hb0, e0, e1, eL, eR]; simp
  · rw [CubicLayers.cubicCfgOf_cC, e0, e1]; exact hin i hi

end witness

end NF.LayerDerivInv
