import NflowsModel.Properties.C03ND
import NflowsModel.Lemmas.FlowMore
import NflowsModel.Lemmas.LinearJacobian
import NflowsModel.Lemmas.NaiveGauss
import NflowsModel.Lemmas.LogdetExecNorm
/-!
# Lemmas/FlowGlowNormalised — C03 for Glow-style flows: `k × [ActNorm, linear, coupling]` over a normalised base

`Properties/C03ND.lean` consumes CLOSED inductive types of executed layers (`FlowWholeND.ExecLayer` ⊂ `CouplingJacobian.ExecLayer2`
⊂ `MadeSmooth.ExecLayer3`): RQ-CDF, permutation, LU / QR / SVD, autoregressive, coupling.  ActNorm, BatchNorm (evaluation mode),
the Householder sequence and `NaiveLinear` are not among them.  This file adds the next level, `GlowLayer`:

* §1 `ExecLinear n`: ANY executed pass `F` of the linear family certified by `LinearJacobian.PassIs n F g (affine M b) M`
  (row-wise, row map `x ↦ M x + b`, derivative `jac M`, `det M ≠ 0`, every returned log-det entry `= log |det (jac M)|`), with
  instances `execLinear_lu`, `execLinear_qr`, `execLinear_svd`, `execLinear_hh`, `execLinear_naive`; `ExecLinear.run` RUNS the
  executed pass on a one-row batch, `ExecLinear.run_eq`: it is the part `FlowWholeND.affineDiffeo M b _`.
* §2 the executed ActNorm machine `actStep` on an initialised state and the executed BatchNorm machine `bnStep` in evaluation
  mode, on a one-row 2-D batch: `actPart`, `bnPart` (products of 1-D parts), `actRun_eq`, `bnRun_eq`.
* §3 `GlowLayer e n` = `ExecLayer3 e n` + `lin` + `actnorm` + `bnEval`; `GlowLayer.run` (every layer RUN by its executed
  program), `GlowLayer.part`, `GlowLayer.run_eq`, `runAllG`, `executed_pipelineG_normalised` (executed `StandardNormal` row),
  `executed_pipelineG_normalised_any_base` (ANY normalised base log-density), `…_diag`; the named instances
  `execLayer_lu`, `execLayer_qr`, `execLayer_svd`, `execLayer_hh`, `execLayer_naive`, `execLayer_actnorm`, `execLayer_bnEval`,
  `execLayer_perm`, `execLayer_coupling`.
* §4 `GlowBlock`, `glowLayers`, headlines **`glow_flow_is_normalised`**, `glow_flow_is_normalised_any_base`,
  `glow_flow_is_normalised_flowLogProb0` (the `FlowMore.flow_normalised_any_base` form), and — with the differentiability of
  the coupling row map DISCHARGED for additive / affine coupling with any entry-wise differentiable conditioner that takes a
  context as an arbitrary parameter — `GlowSpec`, **`glow_flow_smooth_conditioner_is_normalised`**.
* §5 a concrete 2-D one-block instance with explicit numbers.
-/
open MeasureTheory NF NF.Norm Properties.C03 NF.LF LinearBridge DualSound LinearFresh

namespace FlowGlowNormalised

noncomputable section

/-! ## 1. The executed linear family, generically -/

/-- an executed pass of the linear family on `[B, n]` batches (`F X = (outputs, logabsdets)`) certified by `PassIs`:
    row map `x ↦ M x + b`, derivative `jac M`, non-singular, returned entries `log |det (jac M)|` -/
structure ExecLinear (n : ℕ) where
  F : List (List ℝ) → List (List ℝ) × List ℝ
  g : List ℝ → List ℝ
  M : Matrix (Fin n) (Fin n) ℝ
  b : Fin n → ℝ
  h : LinearJacobian.PassIs n F g (LinearJacobian.affine M b) M

theorem vecFn_ofFn {n : ℕ} (v : Fin n → ℝ) : vecFn n (List.ofFn v) = v := by
  funext i
  simp [vecFn, List.getD_eq_getElem?_getD]

theorem ofFn_getD_fin {n : ℕ} (w : Fin n → ℝ) : (fun i : Fin n => (List.ofFn w).getD i 0) = w := by
  funext i
  simp [List.getD_eq_getElem?_getD]

theorem headD_of_getElem? {β : Type} (l : List β) (a d : β) (h : l[0]? = some a) : l.headD d = a := by
  cases l with
  | nil => simp at h
  | cons x xs => simpa using h

/-- RUN the executed pass on the one-row batch `[v]`: `(output row, returned log-abs-det)` -/
def ExecLinear.run {n : ℕ} (L : ExecLinear n) (v : Fin n → ℝ) : (Fin n → ℝ) × ℝ :=
  (fun i => ((L.F [List.ofFn v]).1.headD []).getD i 0, (L.F [List.ofFn v]).2.headD 0)

/-- the n-D part: `x ↦ M x + b`, `ld = log |det M|` -/
def ExecLinear.part {n : ℕ} (L : ExecLinear n) : DiffeoN n :=
  FlowWholeND.affineDiffeo L.M L.b L.h.det_ne_zero

/-- the part has the derivative `jac M` of `PassIs` and is bijective with `|det| = exp ld` (fields of `DiffeoN`) -/
theorem ExecLinear.part_T' {n : ℕ} (L : ExecLinear n) (x : Fin n → ℝ) : L.part.T' x = LinearJacobian.jac L.M := rfl

theorem ExecLinear.run_eq {n : ℕ} (L : ExecLinear n) (v : Fin n → ℝ) : L.run v = (L.part.T v, L.part.ld v) := by
  obtain ⟨h1, _, h3⟩ := L.h.entry [List.ofFn v] 0 (by simp) (by simp)
  simp only [List.getElem_cons_zero, vecFn_ofFn] at h1
  have e1 := headD_of_getElem? _ _ [] h1
  have e2 := headD_of_getElem? _ _ 0 h3
  unfold ExecLinear.run
  rw [e1, e2, ofFn_getD_fin]
  rfl

/-- C12: on ANY batch, output row `i` and log-det entry `i` of the executed pass are what `run` returns on row `i` alone -/
theorem ExecLinear.batch_row {n : ℕ} (L : ExecLinear n) (X : List (List ℝ)) (i : ℕ) (hi : i < X.length)
    (hlen : (X[i]).length = n) :
    (L.F X).1[i]? = some (List.ofFn (L.run (vecFn n X[i])).1) ∧ (L.F X).2[i]? = some (L.run (vecFn n X[i])).2 := by
  obtain ⟨h1, _, h3⟩ := L.h.entry X i hi hlen
  rw [L.run_eq]
  exact ⟨h1, h3⟩

/-- `LULinear` -/
def execLinear_lu (p : LUParams ℝ) (hlen : p.udiag.length = p.n) (heps : 0 ≤ p.eps) (hb : p.bias.length = p.n) :
    ExecLinear p.n :=
  ⟨luForwardLd realOps p, LogdetExec.luRow realOps p, luW p, vecFn p.n p.bias,
    LinearJacobian.lu_logdet_is_log_abs_det_fderiv p hlen heps hb⟩

/-- `QRLinear`, no q-vector zero -/
def execLinear_qr (p : QRParams ℝ) (vs : List (Fin p.n → ℝ)) (hq : p.qs = vs.map List.ofFn)
    (hv : ∀ v ∈ vs, v ⬝ᵥ v ≠ 0) (hl : p.logDiag.length = p.n) (hb : p.bias.length = p.n) : ExecLinear p.n :=
  ⟨qrForwardLd realOps p, LinearJacobian.qrRow realOps p, qrW p vs, vecFn p.n p.bias,
    LinearJacobian.qr_logdet_is_log_abs_det_fderiv p vs hq hv hl hb⟩

/-- `SVDLinear`, no q-vector zero -/
def execLinear_svd (p : SVDParams ℝ) (vs1 vs2 : List (Fin p.n → ℝ)) (h1 : p.qs1 = vs1.map List.ofFn)
    (h2 : p.qs2 = vs2.map List.ofFn) (hv1 : ∀ v ∈ vs1, v ⬝ᵥ v ≠ 0) (hv2 : ∀ v ∈ vs2, v ⬝ᵥ v ≠ 0)
    (hl : p.udiag.length = p.n) (heps : 0 ≤ p.eps) (hb : p.bias.length = p.n) : ExecLinear p.n :=
  ⟨svdForwardLd realOps p, LinearJacobian.svdRow realOps p, svdW p vs1 vs2, vecFn p.n p.bias,
    LinearJacobian.svd_logdet_is_log_abs_det_fderiv p vs1 vs2 h1 h2 hv1 hv2 hl heps hb⟩

/-- `HouseholderSequence`, no q-vector zero (`x ↦ Q x`, returned log-det `0`) -/
def execLinear_hh {n : ℕ} (vs : List (Fin n → ℝ)) (hv : ∀ v ∈ vs, v ⬝ᵥ v ≠ 0) : ExecLinear n :=
  ⟨hhForwardLd realOps (vs.map List.ofFn), hhSeq realOps (vs.map List.ofFn), LinearFamily.Q vs, 0,
    LinearJacobian.hh_logdet_is_log_abs_det_fderiv vs hv⟩

/-- `NaiveLinear` with a non-singular weight (the log-det is the one the executed elimination returns) -/
def execLinear_naive {n : ℕ} (W : Matrix (Fin n) (Fin n) ℝ) (hW : W.det ≠ 0) (b : List ℝ) (hb : b.length = n) :
    ExecLinear n :=
  ⟨NaiveGauss.naiveForwardLd realOps n (ofMat W) b, LinearJacobian.naiveRow realOps (ofMat W) b, W, vecFn n b,
    NaiveGauss.naive_logdet_is_log_abs_det_fderiv W hW b hb⟩

/-! ## 2. The executed ActNorm (initialised) and BatchNorm (evaluation mode) machines on a one-row batch -/

/-- read `(first output row, first log-abs-det)` off what a machine step returns on a 2-D batch -/
def resRow : Res ℝ → List ℝ × ℝ
  | some (.ok (.d2 out, ld)) => (out.headD [], ld.headD 0)
  | _ => ([], 0)

variable (e : Float → ℝ)

/-- RUN the executed ActNorm machine (`actStep … (.fwd …)`) from the state `s` on the one-row batch `[v]` -/
def actRun {n : ℕ} (s : ActSt ℝ) (v : Fin n → ℝ) : (Fin n → ℝ) × ℝ :=
  let r := resRow (actStep (NF.realX e) n s (.fwd (.d2 [List.ofFn v]))).2
  (fun i => r.1.getD i 0, r.2)

/-- RUN the executed BatchNorm machine (`bnStep … (.fwd …)`) from the state `s` on the one-row batch `[v]` -/
def bnRun {n : ℕ} (cfg : BNCfg ℝ) (s : BNSt ℝ) (v : Fin n → ℝ) : (Fin n → ℝ) × ℝ :=
  let r := resRow (bnStep (NF.realX e) cfg n s (.fwd (.d2 [List.ofFn v]))).2
  (fun i => r.1.getD i 0, r.2)

/-- feature `j` of ActNorm as a 1-D part: `x ↦ exp(log_scale_j) x + shift_j`, `ld = log_scale_j` -/
def actD1 (ls sh : List ℝ) (j : ℕ) : Diffeo1 where
  f := LogdetExec.actEl ls sh j
  ld := fun _ => ls.getD j 0
  bij := Function.bijective_iff_has_inverse.2
    ⟨LogdetExec.actElInv ls sh j, LogdetExec.actElInv_actEl ls sh j, LogdetExec.actEl_actElInv ls sh j⟩
  deriv := LogdetExec.actEl_hasDerivAt ls sh j

/-- ActNorm on `[B, n]` inputs as an n-D part -/
def actPart (n : ℕ) (ls sh : List ℝ) : DiffeoN n := FlowWholeND.piDiffeo fun j : Fin n => actD1 ls sh j

theorem actPart_T (n : ℕ) (ls sh : List ℝ) (v : Fin n → ℝ) : (actPart n ls sh).T v = LogdetExec.actRowMap ls sh v := rfl

theorem actPart_ld (n : ℕ) (ls sh : List ℝ) (hF : ls.length = n) (v : Fin n → ℝ) : (actPart n ls sh).ld v = ls.sum := by
  show ∑ j : Fin n, ls.getD j 0 = ls.sum
  exact LogdetExec.sum_fin_getD ls n hF

/-- **the executed initialised ActNorm forward step IS `actPart`** (state unchanged: `actStep_initialised_state`) -/
theorem actRun_eq {n : ℕ} (s : ActSt ℝ) (hinit : s.initialized = true) (hF : s.logScale.length = n) (v : Fin n → ℝ) :
    actRun e s v = ((actPart n s.logScale s.shift).T v, (actPart n s.logScale s.shift).ld v) := by
  have h1 := LogdetExec.actApply_d2_enc e s.logScale s.shift [v]
  simp only [List.map_cons, List.map_nil, LogdetExec.encRow] at h1
  have h2 : (actLogdet (NF.realX e) s.logScale (.d2 [List.ofFn v]) false).headD 0 = s.logScale.sum :=
    headD_of_getElem? _ _ 0 (LogdetExec.actLogdet_d2_getElem? e s.logScale [List.ofFn v] (i := 0) (by simp))
  rw [actPart_T, actPart_ld n _ _ hF]
  unfold actRun
  simp only [actStep, Batch.valid24, hinit, Bool.not_true, Bool.and_false, Bool.false_eq_true, if_false, h1, resRow,
    List.headD_cons, h2, ofFn_getD_fin]

theorem actStep_initialised_state {n : ℕ} (s : ActSt ℝ) (hinit : s.initialized = true) (b : Batch ℝ) :
    (actStep (NF.realX e) n s (.fwd b)).1 = s := by
  simp only [actStep, hinit, Bool.not_true, Bool.and_false, Bool.false_eq_true, if_false]
  split_ifs <;> rfl

/-- C12 for the executed ActNorm machine: on ANY batch of `n`-rows the initialised forward step leaves the state alone and
    returns, row by row, what `actRun` returns on that row alone -/
theorem actStep_batch {n : ℕ} (s : ActSt ℝ) (hinit : s.initialized = true) (hF : s.logScale.length = n)
    (xs : List (Fin n → ℝ)) :
    actStep (NF.realX e) n s (.fwd (.d2 (xs.map List.ofFn))) =
      (s, some (.ok (.d2 (xs.map fun x => List.ofFn (actRun e s x).1), xs.map fun x => (actRun e s x).2))) := by
  have h1 : actApply (NF.realX e) n s.logScale s.shift (.d2 (xs.map List.ofFn))
      = .d2 (xs.map fun x => List.ofFn (LogdetExec.actRowMap s.logScale s.shift x)) :=
    LogdetExec.actApply_d2_enc e s.logScale s.shift xs
  have h2 := LogdetExec.actLogdet_d2 e s.logScale (xs.map List.ofFn)
  simp only [actRun_eq e s hinit hF, actPart_T, actPart_ld n _ _ hF]
  simp only [actStep, Batch.valid24, hinit, Bool.not_true, Bool.and_false, Bool.false_eq_true, if_false, h1, h2,
    List.length_map, List.map_const']

/-- feature `j` of BatchNorm with statistics `mean`, `var` as a 1-D part -/
def bnD1 (cfg : BNCfg ℝ) (mean var uw bias : List ℝ) (j : ℕ) (hw : 0 < bnWeight (NF.realX e) cfg uw j)
    (hv : 0 < var.getD j 0 + cfg.eps) : Diffeo1 where
  f := LogdetExec.bnEl e cfg mean var uw bias j
  ld := fun _ => Real.log (bnWeight (NF.realX e) cfg uw j) - 1 / 2 * Real.log (var.getD j 0 + cfg.eps)
  bij := Function.bijective_iff_has_inverse.2
    ⟨LogdetExec.bnElInv e cfg mean var uw bias j, LogdetExec.bnElInv_bnEl e cfg mean var uw bias j hw.ne' hv,
      LogdetExec.bnEl_bnElInv e cfg mean var uw bias j hw.ne' hv⟩
  deriv := by
    intro x
    have h := LogdetExec.bnEl_hasDerivAt e cfg mean var uw bias j x
    have hpos : 0 < bnWeight (NF.realX e) cfg uw j / Real.sqrt (var.getD j 0 + cfg.eps) :=
      div_pos hw (Real.sqrt_pos.mpr hv)
    rw [← LogdetExec.log_abs_slope hw.ne' hv, abs_of_pos hpos, Real.exp_log hpos]
    exact h

/-- BatchNorm (given statistics) on `[B, n]` inputs as an n-D part -/
def bnPart (n : ℕ) (cfg : BNCfg ℝ) (heps : 0 ≤ cfg.eps) (mean var uw bias : List ℝ)
    (hv : ∀ j < n, 0 < var.getD j 0 + cfg.eps) : DiffeoN n :=
  FlowWholeND.piDiffeo fun j : Fin n =>
    bnD1 e cfg mean var uw bias j (LogdetExec.bnWeight_pos e cfg heps uw j) (hv j j.2)

/-- **the executed evaluation-mode BatchNorm forward step IS `bnPart` of the running statistics** (state unchanged) -/
theorem bnRun_eq {n : ℕ} (cfg : BNCfg ℝ) (heps : 0 ≤ cfg.eps) (s : BNSt ℝ) (hs : s.training = false)
    (hv : ∀ j < n, 0 < s.runVar.getD j 0 + cfg.eps) (v : Fin n → ℝ) :
    bnRun e cfg s v = ((bnPart e n cfg heps s.runMean s.runVar s.uweight s.bias hv).T v,
      (bnPart e n cfg heps s.runMean s.runVar s.uweight s.bias hv).ld v) := by
  have h1 := LogdetExec.bnNormalise_enc e cfg s.runMean s.runVar s.uweight s.bias [v]
  simp only [List.map_cons, List.map_nil, LogdetExec.encRow] at h1
  have h2 := LogdetExec.bnLogdet_fwd e cfg n s.runVar s.uweight 1
  unfold bnRun
  simp only [bnStep, hs, Bool.false_eq_true, if_false, h1, resRow, List.headD_cons, List.length_singleton, h2,
    List.replicate_one, ofFn_getD_fin]
  rfl

theorem bnStep_eval_state {n : ℕ} (cfg : BNCfg ℝ) (s : BNSt ℝ) (hs : s.training = false) (rows : List (List ℝ)) :
    (bnStep (NF.realX e) cfg n s (.fwd (.d2 rows))).1 = s := by
  simp [bnStep, hs]

/-- C12 for the executed BatchNorm machine in evaluation mode: on ANY batch of `n`-rows, row by row what `bnRun` returns -/
theorem bnStep_batch {n : ℕ} (cfg : BNCfg ℝ) (heps : 0 ≤ cfg.eps) (s : BNSt ℝ) (hs : s.training = false)
    (hv : ∀ j < n, 0 < s.runVar.getD j 0 + cfg.eps) (xs : List (Fin n → ℝ)) :
    bnStep (NF.realX e) cfg n s (.fwd (.d2 (xs.map List.ofFn))) =
      (s, some (.ok (.d2 (xs.map fun x => List.ofFn (bnRun e cfg s x).1), xs.map fun x => (bnRun e cfg s x).2))) := by
  have h1 : bnNormalise (NF.realX e) cfg n s.runMean s.runVar s.uweight s.bias (xs.map List.ofFn)
      = xs.map fun x => List.ofFn (LogdetExec.bnRowMap e cfg s.runMean s.runVar s.uweight s.bias x) :=
    LogdetExec.bnNormalise_enc e cfg s.runMean s.runVar s.uweight s.bias xs
  have h2 := LogdetExec.bnLogdet_fwd e cfg n s.runVar s.uweight xs.length
  simp only [bnRun_eq e cfg heps s hs hv]
  simp only [bnStep, hs, Bool.false_eq_true, if_false, h1, List.length_map]
  rw [h2, ← List.map_const']
  rfl

/-! ## 3. Pipelines that also contain ActNorm / BatchNorm / Householder / NaiveLinear layers -/

/-- a layer on `[B, n]` inputs: everything `MadeSmooth.ExecLayer3` offers (RQ-CDF, permutation, LU / QR / SVD, RQ and affine
    autoregressive, coupling) plus every certified executed linear pass, the initialised ActNorm and the evaluation-mode
    BatchNorm -/
inductive GlowLayer (e : Float → ℝ) (n : ℕ) where
  | base (L : NF.MadeSmooth.ExecLayer3 e n)
  /-- `LULinear`, `QRLinear`, `SVDLinear`, `HouseholderSequence`, `NaiveLinear`: `execLinear_*` -/
  | lin (L : ExecLinear n)
  /-- `ActNorm(n)` whose buffer `initialized` is set; `log_scale` has `n` entries (forced:
      `LogdetExec.actLogdet_length_hypothesis_forced`) -/
  | actnorm (s : ActSt ℝ) (hinit : s.initialized = true) (hF : s.logScale.length = n)
  /-- `BatchNorm(n, eps)` in evaluation mode, `0 ≤ eps`, `0 < running_var_j + eps` (forced:
      `LogdetExec.log_abs_slope_fails_at_zero`) -/
  | bnEval (cfg : BNCfg ℝ) (heps : 0 ≤ cfg.eps) (s : BNSt ℝ) (hs : s.training = false)
      (hv : ∀ j < n, 0 < s.runVar.getD j 0 + cfg.eps)

variable {e}

/-- RUN one layer on the row `v` with the executed programs: `(output row, log-abs-det)` -/
def GlowLayer.run {n : ℕ} : GlowLayer e n → (Fin n → ℝ) → (Fin n → ℝ) × ℝ
  | .base L, v => L.run v
  | .lin L, v => L.run v
  | .actnorm s _ _, v => actRun e s v
  | .bnEval cfg _ s _ _, v => bnRun e cfg s v

/-- the n-D part a layer is: a differentiable bijection of `ℝⁿ` with `|det| = exp ld` -/
def GlowLayer.part {n : ℕ} : GlowLayer e n → DiffeoN n
  | .base L => L.part
  | .lin L => L.part
  | .actnorm s _ _ => actPart n s.logScale s.shift
  | .bnEval cfg heps s _ hv => bnPart e n cfg heps s.runMean s.runVar s.uweight s.bias hv

/-- **running a layer with the executed programs = applying its part** -/
theorem GlowLayer.run_eq {n : ℕ} (L : GlowLayer e n) (v : Fin n → ℝ) : L.run v = (L.part.T v, L.part.ld v) := by
  cases L with
  | base L => exact NF.MadeSmooth.ExecLayer3.run_eq L v
  | lin L => exact ExecLinear.run_eq L v
  | actnorm s hinit hF => exact actRun_eq e s hinit hF v
  | bnEval cfg heps s hs hv => exact bnRun_eq e cfg heps s hs hv v

/-- what `ExecLayer` means for every layer: bijective, differentiable everywhere, `|det J| = exp (returned log-det)` -/
theorem GlowLayer.is_diffeo {n : ℕ} (L : GlowLayer e n) :
    Function.Bijective (fun v => (L.run v).1) ∧
    ∀ v, HasFDerivAt (fun v => (L.run v).1) (L.part.T' v) v ∧ |(L.part.T' v).det| = Real.exp (L.run v).2 := by
  have h : (fun v => (L.run v).1) = L.part.T := by funext v; rw [L.run_eq]
  rw [h]
  refine ⟨L.part.bij, fun v => ⟨L.part.deriv v, ?_⟩⟩
  rw [L.run_eq]
  exact L.part.ld_eq v

/-- RUN a list of layers in the order given, accumulating the log-abs-dets (`CompositeTransform._cascade`) -/
def runAllG {n : ℕ} : List (GlowLayer e n) → (Fin n → ℝ) → (Fin n → ℝ) × ℝ
  | [], v => (v, 0)
  | L :: rest, v => ((runAllG rest (L.run v).1).1, (L.run v).2 + (runAllG rest (L.run v).1).2)

theorem runAllG_eq {n : ℕ} (Ls : List (GlowLayer e n)) (v : Fin n → ℝ) :
    runAllG Ls v = ((progN (Ls.map GlowLayer.part)).T v, (progN (Ls.map GlowLayer.part)).ld v) := by
  induction Ls generalizing v with
  | nil => rfl
  | cons L rest ih =>
    simp only [runAllG, List.map_cons, GlowLayer.run_eq L v, ih]
    rfl

/-- **any pipeline of `GlowLayer`s over ANY normalised base log-density** -/
theorem executed_pipelineG_normalised_any_base {n : ℕ} (Ls : List (GlowLayer e n)) (blp : (Fin n → ℝ) → ℝ)
    (hbase : ∫ z, Real.exp (blp z) = 1) :
    ∫ x : Fin n → ℝ, Real.exp (blp (runAllG Ls x).1 + (runAllG Ls x).2) = 1 := by
  simp_rw [runAllG_eq Ls]
  exact FlowWholeND.flow_logprob_normalised_progN _ blp hbase

/-- … over the executed `StandardNormal` row -/
theorem executed_pipelineG_normalised {n : ℕ} (Ls : List (GlowLayer e n)) :
    ∫ x : Fin n → ℝ, Real.exp (NF.Density.stdNormalRow (NF.realX e) n (List.ofFn (runAllG Ls x).1) + (runAllG Ls x).2) = 1 :=
  executed_pipelineG_normalised_any_base Ls (fun z => NF.Density.stdNormalRow (NF.realX e) n (List.ofFn z))
    (Properties.C05.stdNormal_normalised e n)

/-- … over the executed `DiagonalNormal` / `ConditionalDiagonalNormal` row (any means and log-stds of length `n`) -/
theorem executed_pipelineG_normalised_diag {n : ℕ} (means logStds : List ℝ) (hm : means.length = n)
    (hl : logStds.length = n) (Ls : List (GlowLayer e n)) :
    ∫ x : Fin n → ℝ, Real.exp (NF.Density.diagNormalRow (NF.realX e) n means logStds (List.ofFn (runAllG Ls x).1)
        + (runAllG Ls x).2) = 1 :=
  executed_pipelineG_normalised_any_base Ls
    (fun z => NF.Density.diagNormalRow (NF.realX e) n means logStds (List.ofFn z))
    (Properties.C05.condNormal_row_normalised e means logStds hm hl)

/-- … in the form of `FlowMore.flow_normalised_any_base`: the model flow `progFlow` of the parts over the base `blp` is a
    `DiffeoFlow`, its `flowLogProb0` is what `runAllG` computes, and it integrates to one -/
theorem executed_pipelineG_flowLogProb0 {n : ℕ} (Ls : List (GlowLayer e n)) (blp : (Fin n → ℝ) → ℝ)
    (hbase : ∫ z, Real.exp (blp z) = 1) :
    FlowMore.DiffeoFlow (FlowMore.progFlow (Ls.map GlowLayer.part) blp) (progN (Ls.map GlowLayer.part)).T' ∧
    (∀ x, NF.FlowPairing.flowLogProb0 (FlowMore.progFlow (Ls.map GlowLayer.part) blp) x
        = blp (runAllG Ls x).1 + (runAllG Ls x).2) ∧
    ∫ x, Real.exp (NF.FlowPairing.flowLogProb0 (FlowMore.progFlow (Ls.map GlowLayer.part) blp) x) = 1 :=
  ⟨FlowMore.progFlow_diffeoFlow _ blp, fun x => by rw [runAllG_eq Ls]; rfl,
    FlowMore.flow_normalised_any_base _ _ (FlowMore.progFlow_diffeoFlow _ blp) hbase⟩

/-! ### the named instances -/

def execLayer_lu (e : Float → ℝ) (p : LUParams ℝ) (hlen : p.udiag.length = p.n) (heps : 0 ≤ p.eps)
    (hb : p.bias.length = p.n) : GlowLayer e p.n := .lin (execLinear_lu p hlen heps hb)

def execLayer_qr (e : Float → ℝ) (p : QRParams ℝ) (vs : List (Fin p.n → ℝ)) (hq : p.qs = vs.map List.ofFn)
    (hv : ∀ v ∈ vs, v ⬝ᵥ v ≠ 0) (hl : p.logDiag.length = p.n) (hb : p.bias.length = p.n) : GlowLayer e p.n :=
  .lin (execLinear_qr p vs hq hv hl hb)

def execLayer_svd (e : Float → ℝ) (p : SVDParams ℝ) (vs1 vs2 : List (Fin p.n → ℝ)) (h1 : p.qs1 = vs1.map List.ofFn)
    (h2 : p.qs2 = vs2.map List.ofFn) (hv1 : ∀ v ∈ vs1, v ⬝ᵥ v ≠ 0) (hv2 : ∀ v ∈ vs2, v ⬝ᵥ v ≠ 0)
    (hl : p.udiag.length = p.n) (heps : 0 ≤ p.eps) (hb : p.bias.length = p.n) : GlowLayer e p.n :=
  .lin (execLinear_svd p vs1 vs2 h1 h2 hv1 hv2 hl heps hb)

def execLayer_hh (e : Float → ℝ) {n : ℕ} (vs : List (Fin n → ℝ)) (hv : ∀ v ∈ vs, v ⬝ᵥ v ≠ 0) : GlowLayer e n :=
  .lin (execLinear_hh vs hv)

def execLayer_naive (e : Float → ℝ) {n : ℕ} (W : Matrix (Fin n) (Fin n) ℝ) (hW : W.det ≠ 0) (b : List ℝ)
    (hb : b.length = n) : GlowLayer e n := .lin (execLinear_naive W hW b hb)

def execLayer_actnorm (e : Float → ℝ) {n : ℕ} (s : ActSt ℝ) (hinit : s.initialized = true)
    (hF : s.logScale.length = n) : GlowLayer e n := .actnorm s hinit hF

def execLayer_bnEval (e : Float → ℝ) {n : ℕ} (cfg : BNCfg ℝ) (heps : 0 ≤ cfg.eps) (s : BNSt ℝ)
    (hs : s.training = false) (hv : ∀ j < n, 0 < s.runVar.getD j 0 + cfg.eps) : GlowLayer e n :=
  .bnEval cfg heps s hs hv

/-- feature permutations (`Permutation`, `ReversePermutation`, `RandomPermutation`): already an `ExecLayer` -/
def execLayer_perm (e : Float → ℝ) {n : ℕ} (σ : Equiv.Perm (Fin n)) : GlowLayer e n := .base (.base (.base (.perm σ)))

/-- the executed coupling layer (RQ linear tails / additive / affine, any mask) under `CouplingRowHyp` -/
def execLayer_coupling {n : ℕ} (c : ElCfg) (mask : List ℝ) (net : Array ℝ → Array ℝ)
    (h : NF.CouplingJacobian.CouplingRowHyp e c mask net n) : GlowLayer e n := .base (.base (.coupling c mask net h))

/-- the linear instances in the terms of the task: bijective affine row map with derivative `jac M` and
    `|det (jac M)| = exp (returned log-det)`; and the executed outputs ARE that map -/
theorem execLinear_spec {n : ℕ} (L : ExecLinear n) :
    Function.Bijective (LinearJacobian.affine L.M L.b) ∧
    (∀ x, HasFDerivAt (LinearJacobian.affine L.M L.b) (LinearJacobian.jac L.M) x) ∧
    ∀ v, (L.run v).1 = LinearJacobian.affine L.M L.b v ∧ |(LinearJacobian.jac L.M).det| = Real.exp (L.run v).2 := by
  refine ⟨L.part.bij, L.h.hasFDerivAt, fun v => ?_⟩
  rw [L.run_eq]
  exact ⟨rfl, L.part.ld_eq v⟩

/-! ## 4. Glow: `k` blocks `[ActNorm, linear, coupling]` -/

/-- one Glow step on `[B, n]` inputs: an initialised ActNorm, any executed linear layer of §1 (`execLinear_lu` in Glow proper),
    an executed coupling layer (additive / affine / RQ with linear tails) whose row map is differentiable -/
structure GlowBlock (e : Float → ℝ) (n : ℕ) where
  act : ActSt ℝ
  hinit : act.initialized = true
  hF : act.logScale.length = n
  lin : ExecLinear n
  c : ElCfg
  mask : List ℝ
  net : Array ℝ → Array ℝ
  hcpl : NF.CouplingJacobian.CouplingRowHyp e c mask net n

/-- the three executed layers of a block, in the order they are applied -/
def GlowBlock.layers {n : ℕ} (b : GlowBlock e n) : List (GlowLayer e n) :=
  [.actnorm b.act b.hinit b.hF, .lin b.lin, execLayer_coupling b.c b.mask b.net b.hcpl]

/-- the `3k` layers of `k` blocks -/
def glowLayers {n : ℕ} (bs : List (GlowBlock e n)) : List (GlowLayer e n) := bs.flatMap GlowBlock.layers

theorem glowLayers_length {n : ℕ} (bs : List (GlowBlock e n)) : (glowLayers bs).length = 3 * bs.length := by
  induction bs with
  | nil => rfl
  | cons b rest ih =>
    simp only [glowLayers, List.flatMap_cons, List.length_append, List.length_cons] at ih ⊢
    rw [ih]
    simp [GlowBlock.layers]
    omega

/-- **C03 for Glow-style flows**: `Flow(CompositeTransform(k × [ActNorm, linear, coupling]), StandardNormal([n])).log_prob`,
    every layer RUN by its executed program and the base by the executed `stdNormalRow`: `∫ exp(log_prob) = 1`, for every
    number of blocks, every dimension, every parameter value satisfying the side conditions carried by `GlowBlock` -/
theorem glow_flow_is_normalised {n : ℕ} (bs : List (GlowBlock e n)) :
    ∫ x : Fin n → ℝ, Real.exp (NF.Density.stdNormalRow (NF.realX e) n (List.ofFn (runAllG (glowLayers bs) x).1)
        + (runAllG (glowLayers bs) x).2) = 1 :=
  executed_pipelineG_normalised _

/-- … over ANY normalised base log-density -/
theorem glow_flow_is_normalised_any_base {n : ℕ} (bs : List (GlowBlock e n)) (blp : (Fin n → ℝ) → ℝ)
    (hbase : ∫ z, Real.exp (blp z) = 1) :
    ∫ x : Fin n → ℝ, Real.exp (blp (runAllG (glowLayers bs) x).1 + (runAllG (glowLayers bs) x).2) = 1 :=
  executed_pipelineG_normalised_any_base _ blp hbase

/-- … in the `FlowMore.flow_normalised_any_base` form -/
theorem glow_flow_is_normalised_flowLogProb0 {n : ℕ} (bs : List (GlowBlock e n)) (blp : (Fin n → ℝ) → ℝ)
    (hbase : ∫ z, Real.exp (blp z) = 1) :
    ∫ x, Real.exp (NF.FlowPairing.flowLogProb0 (FlowMore.progFlow ((glowLayers bs).map GlowLayer.part) blp) x) = 1 :=
  (executed_pipelineG_flowLogProb0 _ blp hbase).2.2

/-! ### smooth conditioners with a context: nothing left to assume about the coupling -/

/-- the parameters of one Glow step whose coupling is ADDITIVE or AFFINE (default scale activation) with a conditioner
    `net ctx` that depends on a context value `ctx : Ctx` in an arbitrary way and is entry-wise differentiable in the input row
    for every context (`CouplingJacobian.DiffNet`: affine conditioners `affineNet_diffNet`, perceptrons / MADE-style networks with
    smooth activations, `Lemmas/MadeSmooth`) -/
structure GlowSpec (e : Float → ℝ) (n : ℕ) (Ctx : Type) where
  act : ActSt ℝ
  hinit : act.initialized = true
  hF : act.logScale.length = n
  lin : ExecLinear n
  c : ElCfg
  mask : List ℝ
  hm : mask.length = n
  net : Ctx → Array ℝ → Array ℝ
  hkind : c.kind = "additive" ∨ (c.kind = "affine" ∧ (c.act == "general") = false ∧ 0 ≤ e 1e-3)
  hnet : ∀ ctx, NF.CouplingJacobian.DiffNet e mask n (net ctx)

theorem GlowSpec.couplingRowHyp {n : ℕ} {Ctx : Type} (sp : GlowSpec e n Ctx) (ctx : Ctx) :
    NF.CouplingJacobian.CouplingRowHyp e sp.c sp.mask (sp.net ctx) n := by
  rcases sp.hkind with hk | ⟨hk, hact, he⟩
  · exact NF.CouplingJacobian.couplingRowHyp_additive_diffNet e hk sp.hm (sp.hnet ctx)
  · exact NF.CouplingJacobian.couplingRowHyp_affine_diffNet he hk hact sp.hm (sp.hnet ctx)

/-- the block at the context value `ctx` -/
def GlowSpec.block {n : ℕ} {Ctx : Type} (sp : GlowSpec e n Ctx) (ctx : Ctx) : GlowBlock e n :=
  { act := sp.act, hinit := sp.hinit, hF := sp.hF, lin := sp.lin, c := sp.c, mask := sp.mask, net := sp.net ctx,
    hcpl := sp.couplingRowHyp ctx }

/-- **C03 for conditional Glow-style flows with smooth conditioners**: for every list of `GlowSpec`s (any number `k` of
    blocks), every context value and every normalised base log-density (which may itself depend on the context), the executed
    `x ↦ exp(log_prob(x | ctx))` integrates to one — no differentiability hypothesis is left on the row maps -/
theorem glow_flow_smooth_conditioner_is_normalised {n : ℕ} {Ctx : Type} (sps : List (GlowSpec e n Ctx)) (ctx : Ctx)
    (blp : Ctx → (Fin n → ℝ) → ℝ) (hbase : ∀ ctx, ∫ z, Real.exp (blp ctx z) = 1) :
    (∫ x : Fin n → ℝ, Real.exp (NF.Density.stdNormalRow (NF.realX e) n
        (List.ofFn (runAllG (glowLayers (sps.map fun sp => sp.block ctx)) x).1)
        + (runAllG (glowLayers (sps.map fun sp => sp.block ctx)) x).2) = 1) ∧
    ∫ x : Fin n → ℝ, Real.exp (blp ctx (runAllG (glowLayers (sps.map fun sp => sp.block ctx)) x).1
        + (runAllG (glowLayers (sps.map fun sp => sp.block ctx)) x).2) = 1 :=
  ⟨glow_flow_is_normalised _, glow_flow_is_normalised_any_base _ (blp ctx) (hbase ctx)⟩

/-! ## 5. A concrete 2-D one-block instance -/

/-- an initialised ActNorm: `log_scale = [1/2, -1]`, `shift = [3, 0]` -/
def exAct : ActSt ℝ := { training := false, initialized := true, logScale := [1 / 2, -1], shift := [3, 0], initCount := 1 }

/-- one block `[ActNorm, LULinear (LinearJacobian.pLU), additive coupling]`, mask `[0, 1]`, whose conditioner is the affine map
    `z ↦ [3 z₀ + ctx]` of the identity feature and a real context: every hypothesis is satisfiable, for every `e` -/
def exSpec (e : Float → ℝ) : GlowSpec e 2 ℝ :=
  { act := exAct, hinit := rfl, hF := rfl,
    lin := execLinear_lu LinearJacobian.pLU rfl LinearJacobian.pLU_eps rfl,
    c := { kind := "additive" }, mask := [0, 1], hm := rfl,
    net := fun ctx z => Array.ofFn fun _ : Fin 1 => (∑ j ∈ Finset.range 1, (3 : ℝ) * z.getD j 0) + ctx,
    hkind := Or.inl rfl,
    hnet := fun ctx => NF.CouplingJacobian.affineNet_diffNet e [0, 1] 2
      (NF.CouplingJacobian.affineNet_ofFn 1 1 (fun _ _ => 3) (fun _ => ctx)) }

example (e : Float → ℝ) (ctx : ℝ) :
    ∫ x : Fin 2 → ℝ, Real.exp (NF.Density.stdNormalRow (NF.realX e) 2
        (List.ofFn (runAllG (glowLayers [(exSpec e).block ctx]) x).1)
        + (runAllG (glowLayers [(exSpec e).block ctx]) x).2) = 1 :=
  glow_flow_is_normalised _

/-- the same block followed by a Householder reflection, a `NaiveLinear` needing a row swap, an evaluation-mode BatchNorm and
    a permutation, over the executed standard normal -/
example (e : Float → ℝ) (ctx : ℝ) :
    ∃ Ls : List (GlowLayer e 2), Ls.length = 7 ∧
      ∫ x : Fin 2 → ℝ, Real.exp (NF.Density.stdNormalRow (NF.realX e) 2 (List.ofFn (runAllG Ls x).1)
        + (runAllG Ls x).2) = 1 :=
  ⟨glowLayers [(exSpec e).block ctx] ++
    [execLayer_hh e [![1, 2]] LinearJacobian.v12_ne,
     execLayer_naive e !![0, 2; 1, 1] (by rw [NaiveGauss.det_ex2]; norm_num) [1, -1] rfl,
     execLayer_bnEval e { eps := 1 / 100000, momentum := 1 / 10 } (by norm_num)
       { training := false, runMean := [0, 1], runVar := [1, 2], uweight := [0, 3], bias := [1, 1], updates := 0 } rfl
       (by
         intro j hj
         have : j = 0 ∨ j = 1 := by omega
         rcases this with rfl | rfl <;> norm_num),
     execLayer_perm e (Equiv.swap 0 1)],
   rfl, executed_pipelineG_normalised _⟩

/-- the parameters of a RealNVP-style Glow step (affine coupling, default scale activation, mask `mask`) whose conditioner is
    ANY one-hidden-layer perceptron with a differentiable activation reading the identity features `z` AND a context vector
    `ctx : Fin q → ℝ` (hidden pre-activation `b1 r + Σ_j A1 r j · z_j + Σ_t Ac r t · ctx_t`) -/
def GlowSpec.ofMlp (he : 0 ≤ e 1e-3) {n nz h m q : ℕ} (act : ActSt ℝ) (hinit : act.initialized = true)
    (hF : act.logScale.length = n) (lin : ExecLinear n) (mask : List ℝ) (hm : mask.length = n)
    (σ : ℝ → ℝ) (hσ : Differentiable ℝ σ) (A1 : Fin h → Fin nz → ℝ) (Ac : Fin h → Fin q → ℝ) (b1 : Fin h → ℝ)
    (A2 : Fin m → Fin h → ℝ) (b2 : Fin m → ℝ) : GlowSpec e n (Fin q → ℝ) :=
  { act := act, hinit := hinit, hF := hF, lin := lin, c := { kind := "affine" }, mask := mask, hm := hm,
    net := fun ctx z => Array.ofFn fun k : Fin m =>
      NF.MadeSmooth.mlp σ A1 (fun r => b1 r + ∑ t, Ac r t * ctx t) A2 b2 k (fun j => z.getD j 0),
    hkind := Or.inr ⟨rfl, by decide, he⟩,
    hnet := fun ctx => NF.MadeSmooth.diffNet_of_entries e mask n m nz _
      (NF.MadeSmooth.mlp_differentiable σ hσ A1 _ A2 b2) }

/-- `k` RealNVP-style Glow steps `[ActNorm, LULinear, AffineCoupling(tanh perceptron of (z, ctx))]` in 2-D over the executed
    standard normal: for every `k`, every context of every dimension `q`, every hidden width and weight — normalised; the only
    hypothesis is that the constant `1e-3` is read as a non-negative real -/
example (e : Float → ℝ) (he : 0 ≤ e 1e-3) (k : ℕ) {h q : ℕ} (A1 : Fin h → Fin 1 → ℝ) (Ac : Fin h → Fin q → ℝ)
    (b1 : Fin h → ℝ) (A2 : Fin 2 → Fin h → ℝ) (b2 : Fin 2 → ℝ) (ctx : Fin q → ℝ) :
    let sp : GlowSpec e 2 (Fin q → ℝ) := GlowSpec.ofMlp he exAct rfl rfl
      (execLinear_lu LinearJacobian.pLU rfl LinearJacobian.pLU_eps rfl) [0, 1] rfl Real.tanh
      NF.MadeSmooth.tanh_differentiable A1 Ac b1 A2 b2
    ∫ x : Fin 2 → ℝ, Real.exp (NF.Density.stdNormalRow (NF.realX e) 2
        (List.ofFn (runAllG (glowLayers ((List.replicate k sp).map fun sp => sp.block ctx)) x).1)
        + (runAllG (glowLayers ((List.replicate k sp).map fun sp => sp.block ctx)) x).2) = 1 :=
  (glow_flow_smooth_conditioner_is_normalised _ ctx (fun _ z => NF.Density.stdNormalRow (NF.realX e) 2 (List.ofFn z))
    (fun _ => Properties.C05.stdNormal_normalised e 2)).1

end

end FlowGlowNormalised
