import NflowsModel.Lemmas.DualXWrap
import NflowsModel.Lemmas.DualXQuadInv
import NflowsModel.Lemmas.DualXLinInv
import NflowsModel.Lemmas.DualXCubic
import NflowsModel.Lemmas.DualXTails
import NflowsModel.Lemmas.DualXCubicInv
/-!
# Lemmas/DualXMore — dual-number (forward-mode AD) soundness of the remaining EXECUTED spline programs (C16), input direction

Seed `(x, 1)` on the input, every parameter with zero tangent (`ι a = (a, 0)`); `o := dualX (NF.realX e)`.
Collected here (by import) and completed:

* `Lemmas/DualXCubic.lean` — `DualXCubic.cubicSpline_dual` (executed cubic FORWARD program, strictly inside a bin:
  `((val x, exp (ld x)), (ld x, l'), [])` with both tangents the derivatives), `cubicSpline_dual_all` / `cubicSpline_dual_knot`
  (every point of the open box, interior knots included: the value tangent is still the derivative, the spline is C¹),
  `cubicSpline_dual_core` / `cubicSpline_dualRes` (no hypothesis on the `boxLog` reading);
* `Lemmas/DualXQuadInv.lean` — `DualXQuadInv.quadSpline_dual_inv`, `quadSpline_dual_inv_T` (executed quadratic INVERSE program,
  both shapes; the radicand is strictly positive on the whole closed bin), `quadSpline_dualRes_inv(_T)`;
* `Lemmas/DualXLinInv.lean` — `DualXLinInv.linSpline_dual_inv` (executed linear INVERSE program; `l' = 0`),
  `linSpline_dualRes_inv`, `linSpline_dual_inv_right` (at a cdf knot: the right-hand derivative);
* `Lemmas/DualXTails.lean` — `DualXTails.rqSplineTails_dual_outside(_inv)`, `rqSplineTails_dual_bin(_inv)`,
  `rqSplineTails_dual_all(_inv)` (every real that is not a knot; `±B` are the first / last knot), and under `PadExact`
  `rqSplineTails_dual_value_all(_inv)` (value tangent right at EVERY real, knots and junctions included);
* `Lemmas/DualXWrap.lean` — the generic wrapper `tailsWrap` on dual numbers (`tailsWrap_dualRes_outside`,
  `tailsWrap_dualRes_inside`), `quad_tails_dualRes`, `quad_tails_dual`, `lin_tails_dualRes` (forward);
* here: `quad_tails_dualRes_inv`, `lin_tails_dualRes_inv` (the quadratic / linear tails programs, INVERSE direction),
  `cubicTails_dual_outside`, `cubicTails_dual_bin_core`, `cubicTails_dual_bin`, `cubicTails_dual_inside`, `cubicTails_dual_all`
  (the inlined cubic tails wrapper `TailsWhole.cubicTails`, forward: every real except the two junctions `±B`);
* `Lemmas/DualXCubicInv.lean` — the cubic INVERSE: the dual cube root `cbrtG` away from / at `0` and the witness configuration
  of `NF.WellDefined.cubic_inverse_cardano_log_zero`.
-/
open NF DualSound DualX Filter Topology

namespace DualXMore
open TailsWhole
noncomputable section

/-! ### the inlined cubic tails wrapper `TailsWhole.cubicTails` on dual numbers -/

section cubicTails
variable (e : Float → ℝ) (tb minW minH eps thr : Float)

/-- the guard of the dual cubic tails wrapper only sees the value component of the input -/
theorem cubicTails_dual_unfold (uw' uh' : List (ℝ × ℝ)) (udl' udr' dx : ℝ × ℝ) (inverse : Bool) :
    cubicTails (dualX (NF.realX e)) tb minW minH eps thr uw' uh' udl' udr' inverse dx
      = if -e tb ≤ dx.1 ∧ dx.1 ≤ e tb then
          cubicSpline (dualX (NF.realX e)) (ccfgT tb minW minH eps thr) uw' uh' udl' udr' inverse dx
        else .ok (dx, (0, 0), []) := by
  unfold cubicTails
  simp only [XOps.ge, d_le, d_neg, d_ofFloat, d_zero, Bool.and_eq_true, decide_eq_true_eq]
  rfl

variable {e tb minW minH eps thr}
variable {uw uh : List ℝ} {udl udr : ℝ}

/-- **outside the box** the dual cubic tails run (forward) returns `((x, 1), (0, 0), [])`: value `x` with derivative `1`,
    log-det `0` with derivative `0` — the derivatives of the two outputs of the real executed tails program -/
theorem cubicTails_dual_outside (uw' uh' : List (ℝ × ℝ)) (udl' udr' : ℝ × ℝ) (inverse : Bool) (x : ℝ)
    (h : x < -e tb ∨ e tb < x) :
    cubicTails (dualX (NF.realX e)) tb minW minH eps thr uw' uh' udl' udr' inverse (x, 1) = .ok ((x, 1), (0, 0), []) ∧
    HasDerivAt (cubicValT e tb minW minH eps thr uw uh udl udr) 1 x ∧
    HasDerivAt (cubicLdT e tb minW minH eps thr uw uh udl udr) 0 x := by
  have hn : ¬ (-e tb ≤ x ∧ x ≤ e tb) := by rintro ⟨h0, h1⟩; rcases h with h | h <;> linarith
  refine ⟨by rw [cubicTails_dual_unfold, if_neg hn], ?_, ?_⟩
  · rw [cubicValT_eq_ext]; exact ext_hasDerivAt_outside _ _ x h
  · have hopen : ∀ᶠ s in 𝓝 x, s < -e tb ∨ e tb < s := by
      rcases h with h | h
      · filter_upwards [Iio_mem_nhds h] with s hs using Or.inl hs
      · filter_upwards [Ioi_mem_nhds h] with s hs using Or.inr hs
    refine (hasDerivAt_const x (0:ℝ)).congr_of_eventuallyEq ?_
    filter_upwards [hopen] with s hs
    exact (cubic_outside s hs).2

local notation "CC" => ccfgT tb minW minH eps thr
local notation "CV" => cubicValT e tb minW minH eps thr uw uh udl udr
local notation "CL" => cubicLdT e tb minW minH eps thr uw uh udl udr

/-- the `boxLog` constant of the square box `[-B,B]²` reads `log 1 = 0` -/
theorem cubic_hbl (hv : CubicWhole.CubicValid e CC uw uh) (hbl0 : e (boxLog (tbox tb)) = 0) :
    e (boxLog (CC).box) = Real.log ((e (CC).box.top - e (CC).box.bottom) / (e (CC).box.right - e (CC).box.left)) := by
  have hD : e (CC).box.right - e (CC).box.left ≠ 0 := (sub_pos.mpr hv.hlr).ne'
  have h1 : (e (CC).box.top - e (CC).box.bottom) / (e (CC).box.right - e (CC).box.left) = 1 := div_self hD
  rw [h1, Real.log_one]; exact hbl0

/-- **strictly inside the box, interior knots included**: the dual cubic tails run (forward) returns the real outputs with the
    value tangent `exp (log-det)`, which IS the derivative of the executed tails program there (the spline is C¹ at knots) -/
theorem cubicTails_dual_inside (hv : CubicWhole.CubicValid e CC uw uh) (hneg : e (-tb) = - e tb)
    (hbl0 : e (boxLog (tbox tb)) = 0) (x : ℝ) (h0 : -e tb < x) (h1 : x < e tb) :
    ∃ l' : ℝ, cubicTails (dualX (NF.realX e)) tb minW minH eps thr (uw.map ι) (uh.map ι) (ι udl) (ι udr) false (x, 1)
        = .ok ((CV x, Real.exp (CL x)), (CL x, l'), []) ∧
      HasDerivAt CV (Real.exp (CL x)) x := by
  obtain ⟨l', hr, _⟩ := DualXCubic.cubicSpline_dual_all (udl := udl) (udr := udr) hv (cubic_hbl hv hbl0) x
    (by show e (-tb) < x; rw [hneg]; exact h0) h1
  refine ⟨l', ?_, cubic_hasDerivAt hv hneg hbl0 x (ne_of_gt h0) (ne_of_lt h1)⟩
  rw [cubicTails_dual_unfold, if_pos ⟨h0.le, h1.le⟩, hr, (cubic_inside x h0.le h1.le).1, (cubic_inside x h0.le h1.le).2]

/-- a point strictly inside a bin of the tails box is strictly inside `(-B, B)` -/
theorem cubic_bin_mem (hv : CubicWhole.CubicValid e CC uw uh) (hneg : e (-tb) = - e tb)
    (k : ℕ) (hk : k < uw.length) (x : ℝ)
    (h0 : CubicWhole.xk e CC uw k < x) (h1 : x < CubicWhole.xk e CC uw (k+1)) : -e tb < x ∧ x < e tb := by
  have hB := cubic_hB hv hneg
  have hmono := ExecGlue.knots_mono (CubicWhole.cws e CC uw) uw.length (CubicWhole.cws_strict hv)
  have hl0 : 0 ≤ CubicWhole.cws e CC uw k := by
    rw [← CubicWhole.cws_zero hv]; exact hmono 0 k (Nat.zero_le _) hk.le
  have hl1 : CubicWhole.cws e CC uw (k+1) ≤ 1 := by
    rw [← CubicWhole.cws_last hv]; exact hmono (k+1) _ hk le_rfl
  have hL : e (CC).box.left = -e tb := hneg
  have hR : e (CC).box.right = e tb := rfl
  unfold CubicWhole.xk at h0 h1
  rw [hL, hR] at h0 h1
  constructor <;> nlinarith

/-- **strictly inside a bin, no hypothesis on the `boxLog` reading**: the dual run succeeds, its value components are the two
    outputs of the real executed tails program and its tangent components are their derivatives -/
theorem cubicTails_dual_bin_core (hv : CubicWhole.CubicValid e CC uw uh) (hneg : e (-tb) = - e tb)
    (k : ℕ) (hk : k < uw.length) (x : ℝ)
    (h0 : CubicWhole.xk e CC uw k < x) (h1 : x < CubicWhole.xk e CC uw (k+1)) :
    ∃ dy dl : ℝ × ℝ,
      cubicTails (dualX (NF.realX e)) tb minW minH eps thr (uw.map ι) (uh.map ι) (ι udl) (ι udr) false (x, 1)
        = .ok (dy, dl, []) ∧ IsDual CV x dy ∧ IsDual CL x dl := by
  obtain ⟨hx0, hx1⟩ := cubic_bin_mem hv hneg k hk x h0 h1
  obtain ⟨dy, dl, hr, hy, hl⟩ := DualXCubic.cubicSpline_dual_core (udl := udl) (udr := udr) hv k hk x h0 h1
  refine ⟨dy, dl, by rw [cubicTails_dual_unfold, if_pos ⟨hx0.le, hx1.le⟩, hr], hy.congr ?_, hl.congr ?_⟩
  · filter_upwards [Ioo_mem_nhds hx0 hx1] with s hs
    exact (cubic_inside s hs.1.le hs.2.le).1.symm
  · filter_upwards [Ioo_mem_nhds hx0 hx1] with s hs
    exact (cubic_inside s hs.1.le hs.2.le).2.symm

/-- **strictly inside a bin** the value tangent is `exp (log-det)` and the log-det tangent is the derivative of the log-det of
    the executed tails program -/
theorem cubicTails_dual_bin (hv : CubicWhole.CubicValid e CC uw uh) (hneg : e (-tb) = - e tb)
    (hbl0 : e (boxLog (tbox tb)) = 0) (k : ℕ) (hk : k < uw.length) (x : ℝ)
    (h0 : CubicWhole.xk e CC uw k < x) (h1 : x < CubicWhole.xk e CC uw (k+1)) :
    ∃ l' : ℝ, cubicTails (dualX (NF.realX e)) tb minW minH eps thr (uw.map ι) (uh.map ι) (ι udl) (ι udr) false (x, 1)
        = .ok ((CV x, Real.exp (CL x)), (CL x, l'), []) ∧
      HasDerivAt CV (Real.exp (CL x)) x ∧ HasDerivAt CL l' x := by
  obtain ⟨hx0, hx1⟩ := cubic_bin_mem hv hneg k hk x h0 h1
  obtain ⟨dy, dl, hr, hy, hl⟩ := cubicTails_dual_bin_core (udl := udl) (udr := udr) hv hneg k hk x h0 h1
  have hder := cubic_hasDerivAt (udl := udl) (udr := udr) hv hneg hbl0 x (ne_of_gt hx0) (ne_of_lt hx1)
  refine ⟨dl.2, ?_, hder, hl.2⟩
  rw [hr]
  congr 1
  exact Prod.ext (Prod.ext hy.1 (hy.2.unique hder)) (Prod.ext (Prod.ext hl.1 rfl) rfl)

/-- **the executed cubic tails program on dual numbers (forward), every real `x` except the two junctions `±B`**: the dual run
    returns `((value, exp (log-det)), (log-det, l'), [])` and `exp (log-det)` is the derivative of the value -/
theorem cubicTails_dual_all (hv : CubicWhole.CubicValid e CC uw uh) (hneg : e (-tb) = - e tb)
    (hbl0 : e (boxLog (tbox tb)) = 0) (x : ℝ) (hxl : x ≠ -e tb) (hxr : x ≠ e tb) :
    ∃ l' : ℝ, cubicTails (dualX (NF.realX e)) tb minW minH eps thr (uw.map ι) (uh.map ι) (ι udl) (ι udr) false (x, 1)
        = .ok ((CV x, Real.exp (CL x)), (CL x, l'), []) ∧
      HasDerivAt CV (Real.exp (CL x)) x := by
  by_cases h : -e tb ≤ x ∧ x ≤ e tb
  · exact cubicTails_dual_inside hv hneg hbl0 x (lt_of_le_of_ne h.1 (Ne.symm hxl)) (lt_of_le_of_ne h.2 hxr)
  · have ho : x < -e tb ∨ e tb < x := by
      by_contra hc
      exact h ⟨not_lt.mp (fun h' => hc (Or.inl h')), not_lt.mp (fun h' => hc (Or.inr h'))⟩
    refine ⟨0, ?_, cubic_hasDerivAt hv hneg hbl0 x hxl hxr⟩
    rw [(cubicTails_dual_outside (uw := uw) (uh := uh) (udl := udl) (udr := udr) _ _ _ _ false x ho).1,
      (cubic_outside x ho).1, (cubic_outside x ho).2, Real.exp_zero]

end cubicTails

/-! ### the executed QUADRATIC / LINEAR splines with linear tails, INVERSE direction, on dual numbers -/

section quadInv
open QuadWhole QuadInverseWhole DualXWrap
variable {e : Float → ℝ} {tb minW minH : Float} {uw uh : List ℝ}

local notation "QC" => qcfgT tb minW minH

/-- the inner inverse program exactly as `elTransform` passes it to `tailsWrap` (real / dual, seed `(y, 1)`) -/
def quadPI (e : Float → ℝ) (minW minH : Float) (uw uh : List ℝ) (b : Box) (y : ℝ) : Except Err (ℝ × ℝ) :=
  quadSpline (NF.realX e) { box := b, minW := minW, minH := minH } uw uh true y
def quadPID (e : Float → ℝ) (minW minH : Float) (uw uh : List ℝ) (y : ℝ) (b : Box) : Except Err ((ℝ × ℝ) × (ℝ × ℝ)) :=
  quadSpline (dualX (NF.realX e)) { box := b, minW := minW, minH := minH } (uw.map ι) (uh.map ι) true (y, 1)

/-- a point strictly inside a cdf-bin of the tails box is strictly inside `(-B, B)` -/
theorem quad_ybin_mem (hv : QuadValidT e QC uw uh) (hneg : e (-tb) = - e tb)
    (k : ℕ) (hk : k < uw.length) (y : ℝ)
    (h0 : yk e QC (Wq e QC uw) (Ut e QC uw uh) k < y) (h1 : y < yk e QC (Wq e QC uw) (Ut e QC uw uh) (k+1)) :
    -e tb < y ∧ y < e tb := by
  have hc := core_of_validT hv
  have hB := quad_hB hv hneg
  have hWl : (Wq e QC uw).length = uw.length := Wq_length QC uw
  have hmono := ExecGlue.knots_mono (bl e QC (Wq e QC uw) (Ut e QC uw uh)) (Wq e QC uw).length (bl_strict hc)
  have hl0 : 0 ≤ bl e QC (Wq e QC uw) (Ut e QC uw uh) k := by
    rw [← bl_zero hc]; exact hmono 0 k (Nat.zero_le _) (by omega)
  have hl1 : bl e QC (Wq e QC uw) (Ut e QC uw uh) (k+1) ≤ 1 := by
    rw [← bl_last hc]; exact hmono (k+1) _ (by omega) le_rfl
  have hL : e (QC).box.bottom = -e tb := hneg
  have hR : e (QC).box.top = e tb := rfl
  unfold yk at h0 h1
  rw [hL, hR] at h0 h1
  constructor <;> nlinarith

/-- **the executed quadratic tails program on dual numbers, INVERSE direction**: outside `[-B, B]` and strictly inside every
    cdf-bin the dual run returns (value, derivative) of the two outputs of the real executed tails program -/
theorem quad_tails_dualRes_inv (hv : QuadValidT e QC uw uh) (hneg : e (-tb) = - e tb) (y : ℝ)
    (hy : (y < -e tb ∨ e tb < y) ∨ ∃ k, k < uw.length ∧ yk e QC (Wq e QC uw) (Ut e QC uw uh) k < y ∧
      y < yk e QC (Wq e QC uw) (Ut e QC uw uh) (k+1)) :
    DualRes (fun s => tailsWrap (NF.realX e) tb s (fun b => quadPI e minW minH uw uh b s)) y
      (tailsWrap (dualX (NF.realX e)) tb (y, 1) (quadPID e minW minH uw uh y)) := by
  rcases hy with ho | ⟨k, hk, h0, h1⟩
  · exact tailsWrap_dualRes_outside (quadPI e minW minH uw uh) _ y ho
  · obtain ⟨hy0, hy1⟩ := quad_ybin_mem hv hneg k hk y h0 h1
    exact tailsWrap_dualRes_inside (quadPI e minW minH uw uh) _ y hy0 hy1
      (DualXQuadInv.quadSpline_dualRes_inv_T hv k hk y h0 h1)

end quadInv

section linInv
open LinWhole LinTails DualXWrap
variable {e : Float → ℝ} {tb eps : Float} {up : List ℝ}

/-- the dual inner inverse program, seeded `(y, 1)`, parameters with zero tangent -/
def linPID (e : Float → ℝ) (eps : Float) (up : List ℝ) (y : ℝ) (b : Box) : Except Err ((ℝ × ℝ) × (ℝ × ℝ)) :=
  linSpline (dualX (NF.realX e)) b eps (up.map ι) true (y, 1)

/-- **the executed linear tails program on dual numbers, INVERSE direction**: outside `[-B, B]` and strictly inside every
    cdf-bin the dual run returns (value, derivative) of the two outputs of the real executed tails program -/
theorem lin_tails_dualRes_inv (hv : LinValid e (tbox tb) eps up) (hneg : e (-tb) = - e tb) (y : ℝ)
    (hy : (y < -e tb ∨ e tb < y) ∨
      ∃ k, k < up.length ∧ yk e (tbox tb) up k < y ∧ y < yk e (tbox tb) up (k+1)) :
    DualRes (fun s => tailsWrap (NF.realX e) tb s (fun b => linPI e eps up b s)) y
      (tailsWrap (dualX (NF.realX e)) tb (y, 1) (linPID e eps up y)) := by
  rcases hy with ho | ⟨k, hk, h0, h1⟩
  · exact tailsWrap_dualRes_outside (linPI e eps up) _ y ho
  · have hy0 : -e tb < y := lt_of_le_of_lt (yk_mem hv hneg k hk.le).1 h0
    have hy1 : y < e tb := lt_of_lt_of_le h1 (yk_mem hv hneg (k+1) hk).2
    exact tailsWrap_dualRes_inside (linPI e eps up) _ y hy0 hy1 (DualXLinInv.linSpline_dualRes_inv hv k hk y h0 h1)

end linInv

/-! ### non-vacuity of the inverse tails statements -/

theorem quad_tails_dual_inv_example :
    (∀ y : ℝ, ((y < -eW 1.0 ∨ eW 1.0 < y) ∨ ∃ k, k < 2 ∧
        QuadInverseWhole.yk eW (qcfgT 1.0 0.0 0.0) (QuadWhole.Wq eW (qcfgT 1.0 0.0 0.0) [0, 0])
          (QuadWhole.Ut eW (qcfgT 1.0 0.0 0.0) [0, 0] [0]) k < y ∧
        y < QuadInverseWhole.yk eW (qcfgT 1.0 0.0 0.0) (QuadWhole.Wq eW (qcfgT 1.0 0.0 0.0) [0, 0])
          (QuadWhole.Ut eW (qcfgT 1.0 0.0 0.0) [0, 0] [0]) (k+1)) →
      DualRes (fun s => tailsWrap (NF.realX eW) 1.0 s (fun b => quadPI eW 0.0 0.0 [0, 0] [0] b s)) y
        (tailsWrap (dualX (NF.realX eW)) 1.0 (y, 1) (quadPID eW 0.0 0.0 [0, 0] [0] y))) ∧
    ∀ k < 2, QuadInverseWhole.yk eW (qcfgT 1.0 0.0 0.0) (QuadWhole.Wq eW (qcfgT 1.0 0.0 0.0) [0, 0])
          (QuadWhole.Ut eW (qcfgT 1.0 0.0 0.0) [0, 0] [0]) k
        < QuadInverseWhole.yk eW (qcfgT 1.0 0.0 0.0) (QuadWhole.Wq eW (qcfgT 1.0 0.0 0.0) [0, 0])
          (QuadWhole.Ut eW (qcfgT 1.0 0.0 0.0) [0, 0] [0]) (k+1) := by
  have hv := quad_valid_example
  refine ⟨fun y hy => quad_tails_dualRes_inv hv eW_neg y hy, fun k hk => ?_⟩
  have hc := QuadWhole.core_of_validT hv
  have := QuadWhole.bl_strict hc k (by rw [QuadWhole.Wq_length]; exact hk)
  have hD : 0 < eW (qcfgT 1.0 0.0 0.0).box.top - eW (qcfgT 1.0 0.0 0.0).box.bottom := sub_pos.mpr hv.hbox.hbt
  unfold QuadInverseWhole.yk
  nlinarith

theorem lin_tails_dual_inv_example :
    (∀ y : ℝ, ((y < -NF.StructureExec.eTT 1.0 ∨ NF.StructureExec.eTT 1.0 < y) ∨ ∃ k, k < 3 ∧
        LinWhole.yk NF.StructureExec.eTT (tbox 1.0) [0, 1, -1] k < y ∧
        y < LinWhole.yk NF.StructureExec.eTT (tbox 1.0) [0, 1, -1] (k+1)) →
      DualRes (fun s => tailsWrap (NF.realX NF.StructureExec.eTT) 1.0 s
          (fun b => LinTails.linPI NF.StructureExec.eTT 1e-6 [0, 1, -1] b s)) y
        (tailsWrap (dualX (NF.realX NF.StructureExec.eTT)) 1.0 (y, 1) (linPID NF.StructureExec.eTT 1e-6 [0, 1, -1] y))) ∧
    ∀ k < 3, LinWhole.yk NF.StructureExec.eTT (tbox 1.0) [0, 1, -1] k
      < LinWhole.yk NF.StructureExec.eTT (tbox 1.0) [0, 1, -1] (k+1) := by
  have hv := LinTails.valid_tails_box [0, 1, -1] (by simp)
  refine ⟨fun y hy => lin_tails_dualRes_inv hv NF.StructureExec.eTT_neg y hy, fun k hk => ?_⟩
  obtain ⟨_, _, _, _, _, hys, _⟩ := LinWhole.knots_facts hv
  exact hys k hk

/-! ### non-vacuity of the cubic tails statements (`TailsWhole.cubic_valid_example`: two bins, tail bound `1.0`) -/

/-- every `x` strictly inside either bin (no hypothesis); both bins are non-empty; every `x` outside `[-B, B]` -/
theorem cubic_tails_dual_example (udl udr : ℝ) :
    (∀ k < 2, ∀ x : ℝ, CubicWhole.xk eW (ccfgT 1.0 0.0 0.0 1e-5 1e-3) [0, 0] k < x →
        x < CubicWhole.xk eW (ccfgT 1.0 0.0 0.0 1e-5 1e-3) [0, 0] (k+1) →
      ∃ dy dl : ℝ × ℝ,
        cubicTails (dualX (NF.realX eW)) 1.0 0.0 0.0 1e-5 1e-3 [ι 0, ι 0] [ι 0, ι 0] (ι udl) (ι udr) false (x, 1)
          = .ok (dy, dl, []) ∧
        IsDual (cubicValT eW 1.0 0.0 0.0 1e-5 1e-3 [0, 0] [0, 0] udl udr) x dy ∧
        IsDual (cubicLdT eW 1.0 0.0 0.0 1e-5 1e-3 [0, 0] [0, 0] udl udr) x dl) ∧
    (∀ k < 2, CubicWhole.xk eW (ccfgT 1.0 0.0 0.0 1e-5 1e-3) [0, 0] k
        < CubicWhole.xk eW (ccfgT 1.0 0.0 0.0 1e-5 1e-3) [0, 0] (k+1)) ∧
    (∀ x : ℝ, (x < -eW 1.0 ∨ eW 1.0 < x) →
      cubicTails (dualX (NF.realX eW)) 1.0 0.0 0.0 1e-5 1e-3 [ι 0, ι 0] [ι 0, ι 0] (ι udl) (ι udr) false (x, 1)
        = .ok ((x, 1), (0, 0), [])) := by
  have hv := cubic_valid_example
  refine ⟨fun k hk x h0 h1 => cubicTails_dual_bin_core hv eW_neg k hk x h0 h1, fun k hk => ?_, fun x hx => ?_⟩
  · have := CubicWhole.cws_strict hv k hk
    have hD : 0 < eW (ccfgT 1.0 0.0 0.0 1e-5 1e-3).box.right - eW (ccfgT 1.0 0.0 0.0 1e-5 1e-3).box.left :=
      sub_pos.mpr hv.hlr
    unfold CubicWhole.xk
    nlinarith
  · exact (cubicTails_dual_outside (e := eW) (uw := [0, 0]) (uh := [0, 0]) (udl := udl) (udr := udr) _ _ _ _ false x hx).1

/-- the headline form at every real `x ≠ ±B` (interior knot included), given the IEEE fact that `boxLog` of the square box is
    `0.0` (`Float.log` is opaque to the kernel) -/
theorem cubic_tails_dual_example' (hlog : (boxLog (tbox 1.0) == 0.0) = true) (udl udr : ℝ) (x : ℝ)
    (hxl : x ≠ -eW 1.0) (hxr : x ≠ eW 1.0) :
    ∃ l' : ℝ, cubicTails (dualX (NF.realX eW)) 1.0 0.0 0.0 1e-5 1e-3 [ι 0, ι 0] [ι 0, ι 0] (ι udl) (ι udr) false (x, 1)
        = .ok ((cubicValT eW 1.0 0.0 0.0 1e-5 1e-3 [0, 0] [0, 0] udl udr x,
                Real.exp (cubicLdT eW 1.0 0.0 0.0 1e-5 1e-3 [0, 0] [0, 0] udl udr x)),
               (cubicLdT eW 1.0 0.0 0.0 1e-5 1e-3 [0, 0] [0, 0] udl udr x, l'), []) ∧
      HasDerivAt (cubicValT eW 1.0 0.0 0.0 1e-5 1e-3 [0, 0] [0, 0] udl udr)
        (Real.exp (cubicLdT eW 1.0 0.0 0.0 1e-5 1e-3 [0, 0] [0, 0] udl udr x)) x := by
  have hbl0 : eW (boxLog (tbox 1.0)) = 0 := by simp [eW, hlog]
  exact cubicTails_dual_all cubic_valid_example eW_neg hbl0 x hxl hxr

end
end DualXMore
