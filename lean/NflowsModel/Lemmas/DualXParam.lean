import NflowsModel.Lemmas.DualXSpline
/-!
# Lemmas/DualXParam — PARAMETER-direction soundness of the executed RQ spline run on dual numbers (C16)

`IsDualL F t ds`: the dual list `ds` is, entry by entry, (value, derivative) at `t` of the curve of real lists `F`.
The knot pipeline of `Core/Spline.lean` (softmax with its branching max-shift, floor, cumsum, pinned ends, differences,
softplus derivatives) maps `IsDualL` inputs to `IsDualL` outputs of the SAME program at `NF.realX e`
(`IsDualL.line`, `softmaxG_dualL`, `knots_dualL`, `derivs_dualL`; concrete tie case: `softmax_tie_example`).
Helpers for the whole-program statement: `evalD_curve`, `RQValid.transfer`, `rqSpline_dualG_exec` (control flow of the dual
run with arbitrary tangents: same bin as the real run, bin terms evaluated on the gathered dual knot entries).
-/
open NF DualSound DualX Filter Topology

namespace DualXParam
noncomputable section

variable (e : Float → ℝ)


/-- list-level duality: same length at every curve parameter, entry `k` of `ds` is (value, derivative) of entry `k` of `F` -/
def IsDualL (F : ℝ → List ℝ) (t : ℝ) (ds : List (ℝ × ℝ)) : Prop :=
  (∀ s, (F s).length = ds.length) ∧ ∀ k, k < ds.length → IsDual (fun s => (F s).getD k 0) t (ds.getD k 0)

variable {e}
variable {F G : ℝ → List ℝ} {f g : ℝ → ℝ} {t : ℝ} {d : ℝ × ℝ} {ds es : List (ℝ × ℝ)}

theorem IsDualL.length (h : IsDualL F t ds) (s : ℝ) : (F s).length = ds.length := h.1 s

theorem IsDualL.getD (h : IsDualL F t ds) (k : ℕ) (hk : k < ds.length) :
    IsDual (fun s => (F s).getD k 0) t (ds.getD k 0) := h.2 k hk

theorem IsDualL.nil (t : ℝ) : IsDualL (fun _ => []) t [] :=
  ⟨fun _ => rfl, fun _ hk => absurd hk (Nat.not_lt_zero _)⟩

theorem IsDualL.cons (hf : IsDual f t d) (hG : IsDualL G t ds) : IsDualL (fun s => f s :: G s) t (d :: ds) := by
  refine ⟨fun s => by simp [hG.1 s], fun k hk => ?_⟩
  cases k with
  | zero => simpa using hf
  | succ k =>
    have := hG.2 k (by simpa using hk)
    simpa using this

theorem IsDualL.congr_fun (h : IsDualL F t ds) (hFG : ∀ s, F s = G s) : IsDualL G t ds := by
  have : F = G := funext hFG
  subst this; exact h

theorem IsDualL.eq_nil (h : IsDualL F t []) : F = fun _ => [] := by
  funext s; exact List.length_eq_zero_iff.mp (h.1 s)

theorem IsDualL.uncons (h : IsDualL F t (d :: ds)) :
    ∃ f G, F = (fun s => f s :: G s) ∧ IsDual f t d ∧ IsDualL G t ds := by
  refine ⟨fun s => (F s).getD 0 0, fun s => (F s).tail, ?_, ?_, ?_⟩
  · funext s
    have := h.1 s
    cases hF : F s with
    | nil => rw [hF] at this; simp at this
    | cons a r => simp [hF]
  · simpa using h.2 0 (by simp)
  · refine ⟨fun s => by simp [h.1 s], fun k hk => ?_⟩
    have := h.2 (k+1) (by simpa using hk)
    refine (IsDual.congr_fun this (fun s => ?_))
    show (F s).getD (k+1) 0 = (F s).tail.getD k 0
    generalize F s = l
    cases l <;> simp

/-- seeding: the straight line `us + s·dir` of parameters, at `s = 0`, is the dual list `zip us dir` -/
def lineL (us dir : List ℝ) (s : ℝ) : List ℝ := List.zipWith (fun u d => u + s * d) us dir

theorem IsDualL.lineL : ∀ (us dir : List ℝ), IsDualL (lineL us dir) 0 (List.zip us dir)
  | [], _ => by
    refine (IsDualL.nil 0).congr_fun (fun s => ?_); simp [DualXParam.lineL]
  | _ :: _, [] => by
    refine (IsDualL.nil 0).congr_fun (fun s => ?_); simp [DualXParam.lineL]
  | u :: us, d :: dir => by
    have h1 : IsDual (fun s => u + s * d) 0 (u, d) :=
      ⟨by simp, by simpa using ((hasDerivAt_id (0:ℝ)).mul_const d).const_add u⟩
    exact (IsDualL.cons h1 (IsDualL.lineL us dir)).congr_fun (fun s => by simp [DualXParam.lineL])

/-- **seeding lemma**: the straight line of parameters `us + s·dir` at `s = 0` is the dual list `zip us dir` (the length
    hypothesis is not needed for the statement: both sides truncate to the shorter list) -/
theorem IsDualL.line (us dir : List ℝ) (_h : us.length = dir.length) :
    IsDualL (fun s => List.zipWith (fun u d => u + s * d) us dir) 0 (List.zip us dir) :=
  IsDualL.lineL us dir

theorem zipWith_fst : ∀ (us dir : List ℝ), us.length ≤ dir.length → List.zipWith (fun u _ => u) us dir = us
  | [], _, _ => by simp
  | u :: us, [], h => by simp at h
  | u :: us, d :: dir, h => by
    simp only [List.zipWith_cons_cons]
    rw [zipWith_fst us dir (by simpa using h)]

theorem lineL_zero (us dir : List ℝ) (h : us.length ≤ dir.length) : lineL us dir 0 = us := by
  simp only [lineL, zero_mul, add_zero]
  exact zipWith_fst us dir h

theorem lineL_length (us dir : List ℝ) (h : us.length = dir.length) (s : ℝ) : (lineL us dir s).length = us.length := by
  simp [lineL, h]

/-! ## list operations -/

theorem IsDualL.map {gR : ℝ → ℝ → ℝ} {gD : ℝ × ℝ → ℝ × ℝ} :
    ∀ {ds : List (ℝ × ℝ)} {F : ℝ → List ℝ}, IsDualL F t ds →
      (∀ f d, d ∈ ds → IsDual f t d → IsDual (fun s => gR s (f s)) t (gD d)) →
      IsDualL (fun s => (F s).map (gR s)) t (ds.map gD)
  | [], F, h, _ => by
    rw [h.eq_nil]; exact IsDualL.nil t
  | d :: ds, F, h, hg => by
    obtain ⟨f, G, rfl, hf, hG⟩ := h.uncons
    exact IsDualL.cons (hg f d (by simp) hf) (IsDualL.map hG (fun f' d' hd' => hg f' d' (by simp [hd'])))

theorem IsDualL.append : ∀ {ds : List (ℝ × ℝ)} {F : ℝ → List ℝ}, IsDualL F t ds → IsDualL G t es →
    IsDualL (fun s => F s ++ G s) t (ds ++ es)
  | [], F, h, hG => by
    rw [h.eq_nil]; exact hG
  | d :: ds, F, h, hG => by
    obtain ⟨f, F', rfl, hf, hF'⟩ := h.uncons
    exact IsDualL.cons hf (IsDualL.append hF' hG)

theorem IsDualL.reverse : ∀ {ds : List (ℝ × ℝ)} {F : ℝ → List ℝ}, IsDualL F t ds →
    IsDualL (fun s => (F s).reverse) t ds.reverse
  | [], F, h => by
    rw [h.eq_nil]; exact IsDualL.nil t
  | d :: ds, F, h => by
    obtain ⟨f, F', rfl, hf, hF'⟩ := h.uncons
    simp only [List.reverse_cons]
    exact IsDualL.append (IsDualL.reverse hF') (IsDualL.cons hf (IsDualL.nil t))

variable (e)

theorem foldl_add_dual : ∀ {ds : List (ℝ × ℝ)} {F : ℝ → List ℝ} {a : ℝ → ℝ} {da : ℝ × ℝ}, IsDual a t da → IsDualL F t ds →
    IsDual (fun s => (F s).foldl (NF.realX e).add (a s)) t (ds.foldl (dualX (NF.realX e)).add da)
  | [], F, a, da, ha, h => by
    rw [h.eq_nil]; exact ha
  | d :: ds, F, a, da, ha, h => by
    obtain ⟨f, F', rfl, hf, hF'⟩ := h.uncons
    exact foldl_add_dual (a := fun s => (NF.realX e).add (a s) (f s)) (da := (dualX (NF.realX e)).add da d)
      (IsDual.add e ha hf) hF'

/-- `sumG` -/
theorem sumG_dual (h : IsDualL F t ds) : IsDual (fun s => sumG (NF.realX e) (F s)) t (sumG (dualX (NF.realX e)) ds) :=
  foldl_add_dual e (IsDual.zero e t) h

/-! ## softmax: sound at EVERY point, ties of the maximum included (shift invariance) -/

omit e in
/-- softmax does not depend on the shift -/
theorem softmax_shift (xs : List ℝ) (m μ : ℝ) :
    xs.map (fun x => Real.exp (x - μ) / (xs.map (fun y => Real.exp (y - μ))).sum)
      = xs.map (fun x => Real.exp (x - m) / (xs.map (fun y => Real.exp (y - m))).sum) := by
  have hsum : (xs.map (fun y => Real.exp (y - μ))).sum = Real.exp (m - μ) * (xs.map (fun y => Real.exp (y - m))).sum := by
    rw [← List.sum_map_mul_left]
    congr 1
    apply List.map_congr_left
    intro y _
    rw [← Real.exp_add]; congr 1; ring
  apply List.map_congr_left
  intro x _
  rw [hsum, show x - μ = (m - μ) + (x - m) by ring, Real.exp_add, mul_div_mul_left _ _ (Real.exp_pos _).ne']

omit e in
/-- every pair is (value, derivative) of an affine curve -/
theorem isDual_affine (M : ℝ × ℝ) (t : ℝ) : IsDual (fun s => M.1 + (s - t) * M.2) t M := by
  refine ⟨by simp, ?_⟩
  simpa using (((hasDerivAt_id t).sub_const t).mul_const M.2).const_add M.1

/-- the real executed softmax, written with an ARBITRARY shift `μ` instead of the executed `maxG` -/
theorem softmaxG_any_shift (xs : List ℝ) (μ : ℝ) :
    (xs.map (fun x => (NF.realX e).exp ((NF.realX e).sub x μ))).map
        (fun y => (NF.realX e).div y (sumG (NF.realX e) (xs.map (fun x => (NF.realX e).exp ((NF.realX e).sub x μ)))))
      = softmaxG (NF.realX e) xs := by
  rw [SplineExec.softmaxG_eq, ← softmax_shift xs (maxG (NF.realX e) xs) μ, SplineExec.sumG_eq, List.map_map]
  rfl

/-- **softmax on dual lists is sound along any differentiable curve of logits, at every point** — the tangent of the
    (branching) max-shift cancels -/
theorem softmaxG_dualL (h : IsDualL F t ds) :
    IsDualL (fun s => softmaxG (NF.realX e) (F s)) t (softmaxG (dualX (NF.realX e)) ds) := by
  -- the affine curve carrying the dual max as (value, tangent)
  have hμ := isDual_affine (maxG (dualX (NF.realX e)) ds) t
  set M := maxG (dualX (NF.realX e)) ds with hM
  set μ : ℝ → ℝ := fun s => M.1 + (s - t) * M.2 with hμdef
  have hes : IsDualL (fun s => (F s).map (fun x => (NF.realX e).exp ((NF.realX e).sub x (μ s)))) t
      (ds.map (fun x => (dualX (NF.realX e)).exp ((dualX (NF.realX e)).sub x M))) :=
    h.map (gR := fun s x => (NF.realX e).exp ((NF.realX e).sub x (μ s))) (fun f d _ hf => IsDual.exp e (IsDual.sub e hf hμ))
  have hS := sumG_dual e hes
  have hfin := hes.map (gR := fun s y => (NF.realX e).div y
      (sumG (NF.realX e) ((F s).map (fun x => (NF.realX e).exp ((NF.realX e).sub x (μ s))))))
    (gD := fun y => (dualX (NF.realX e)).div y
      (sumG (dualX (NF.realX e)) (ds.map (fun x => (dualX (NF.realX e)).exp ((dualX (NF.realX e)).sub x M)))))
    (fun f d hd hf => IsDual.div e hf hS (by
      rw [hS.1]
      beta_reduce
      rw [SplineExec.sumG_eq]
      have hne : F t ≠ [] := by
        intro h0
        have := h.1 t
        rw [h0] at this
        have hds : ds = [] := List.length_eq_zero_iff.mp this.symm
        rw [hds] at hd; simp at hd
      exact (SplineExec.sum_exp_pos (F t) (μ t) hne).ne'))
  exact hfin.congr_fun (fun s => softmaxG_any_shift e (F s) (μ s))

/-- `flooredSoftmax` -/
theorem flooredSoftmax_dualL (m : Float) (h : IsDualL F t ds) :
    IsDualL (fun s => flooredSoftmax (NF.realX e) m (F s)) t (flooredSoftmax (dualX (NF.realX e)) m ds) := by
  have h1 := (softmaxG_dualL e h).map
    (gR := fun _ x => (NF.realX e).add ((NF.realX e).ofFloat m) ((NF.realX e).mul ((NF.realX e).ofFloat (1 - m * ds.length.toFloat)) x))
    (gD := fun x => (dualX (NF.realX e)).add ((dualX (NF.realX e)).ofFloat m)
      ((dualX (NF.realX e)).mul ((dualX (NF.realX e)).ofFloat (1 - m * ds.length.toFloat)) x))
    (fun f d _ hf => IsDual.add e (IsDual.ofFloat e m t) (IsDual.mul e (IsDual.ofFloat e _ t) hf))
  refine h1.congr_fun (fun s => ?_)
  simp only [flooredSoftmax, h.1 s]

/-! ## cumsum, pinned ends, differences -/

theorem cumsum_foldl_dual : ∀ {ds : List (ℝ × ℝ)} {F : ℝ → List ℝ} {a : ℝ → ℝ} {da : ℝ × ℝ} {A : ℝ → List ℝ} {dA : List (ℝ × ℝ)},
    IsDual a t da → IsDualL A t dA → IsDualL F t ds →
    IsDualL (fun s => ((F s).foldl (fun (st : ℝ × List ℝ) x => ((NF.realX e).add st.1 x, (NF.realX e).add st.1 x :: st.2)) (a s, A s)).2) t
      (ds.foldl (fun (st : (ℝ × ℝ) × List (ℝ × ℝ)) x => ((dualX (NF.realX e)).add st.1 x, (dualX (NF.realX e)).add st.1 x :: st.2)) (da, dA)).2
  | [], F, a, da, A, dA, ha, hA, h => by
    rw [h.eq_nil]; exact hA
  | d :: ds, F, a, da, A, dA, ha, hA, h => by
    obtain ⟨f, F', rfl, hf, hF'⟩ := h.uncons
    have ha' := IsDual.add e ha hf
    exact cumsum_foldl_dual (a := fun s => (NF.realX e).add (a s) (f s)) (da := (dualX (NF.realX e)).add da d)
      (A := fun s => (NF.realX e).add (a s) (f s) :: A s) (dA := (dualX (NF.realX e)).add da d :: dA)
      ha' (IsDualL.cons ha' hA) hF'

/-- `cumsumG` -/
theorem cumsumG_dualL (h : IsDualL F t ds) :
    IsDualL (fun s => cumsumG (NF.realX e) (F s)) t (cumsumG (dualX (NF.realX e)) ds) :=
  IsDualL.reverse (cumsum_foldl_dual e (IsDual.zero e t) (IsDualL.nil t) h)

omit e in
/-- `setFirst` with any `IsDual` replacement -/
theorem setFirst_dualL {v : ℝ → ℝ} {dv : ℝ × ℝ} (hv : IsDual v t dv) (h : IsDualL F t ds) :
    IsDualL (fun s => setFirst (F s) (v s)) t (setFirst ds dv) := by
  cases ds with
  | nil => rw [h.eq_nil]; exact IsDualL.nil t
  | cons d ds =>
    obtain ⟨f, F', rfl, _, hF'⟩ := h.uncons
    exact IsDualL.cons hv hF'

omit e in
theorem setLast_eq {α : Type} (xs : List α) (v : α) : setLast xs v = (setFirst xs.reverse v).reverse := by
  unfold setLast setFirst
  cases xs.reverse <;> rfl

omit e in
/-- `setLast` with any `IsDual` replacement -/
theorem setLast_dualL {v : ℝ → ℝ} {dv : ℝ × ℝ} (hv : IsDual v t dv) (h : IsDualL F t ds) :
    IsDualL (fun s => setLast (F s) (v s)) t (setLast ds dv) := by
  rw [setLast_eq]
  exact (IsDualL.reverse (setFirst_dualL hv (IsDualL.reverse h))).congr_fun (fun s => (setLast_eq _ _).symm)

/-- `diffsG` -/
theorem diffsG_dualL : ∀ {ds : List (ℝ × ℝ)} {F : ℝ → List ℝ}, IsDualL F t ds →
    IsDualL (fun s => diffsG (NF.realX e) (F s)) t (diffsG (dualX (NF.realX e)) ds)
  | [], F, h => by
    rw [h.eq_nil]; exact IsDualL.nil t
  | [d], F, h => by
    obtain ⟨f, F', rfl, _, hF'⟩ := h.uncons
    rw [hF'.eq_nil]; exact IsDualL.nil t
  | d :: d' :: ds, F, h => by
    obtain ⟨f, F', rfl, hf, hF'⟩ := h.uncons
    have ih := diffsG_dualL hF'
    obtain ⟨f', F'', rfl, hf', hF''⟩ := hF'.uncons
    exact IsDualL.cons (IsDual.sub e hf' hf) ih

/-- **`rqKnots` (knots and widths) on dual lists** -/
theorem rqKnots_dualL (lo hi : Float) (h : IsDualL F t ds) :
    IsDualL (fun s => (rqKnots (NF.realX e) lo hi (F s)).1) t (rqKnots (dualX (NF.realX e)) lo hi ds).1 ∧
    IsDualL (fun s => (rqKnots (NF.realX e) lo hi (F s)).2) t (rqKnots (dualX (NF.realX e)) lo hi ds).2 := by
  have h0 : IsDualL (fun s => (NF.realX e).zero :: cumsumG (NF.realX e) (F s)) t
      ((dualX (NF.realX e)).zero :: cumsumG (dualX (NF.realX e)) ds) :=
    IsDualL.cons (IsDual.zero e t) (cumsumG_dualL e h)
  have h1 := h0.map
    (gR := fun _ c => (NF.realX e).add ((NF.realX e).mul ((NF.realX e).ofFloat (hi - lo)) c) ((NF.realX e).ofFloat lo))
    (gD := fun c => (dualX (NF.realX e)).add ((dualX (NF.realX e)).mul ((dualX (NF.realX e)).ofFloat (hi - lo)) c)
      ((dualX (NF.realX e)).ofFloat lo))
    (fun f d _ hf => IsDual.add e (IsDual.mul e (IsDual.ofFloat e _ t) hf) (IsDual.ofFloat e lo t))
  have h2 := setLast_dualL (IsDual.ofFloat e hi t) (setFirst_dualL (IsDual.ofFloat e lo t) h1)
  exact ⟨h2, diffsG_dualL e h2⟩

/-- the composite the spline runs: `rqKnots lo hi (flooredSoftmax m ·)` -/
theorem knots_dualL (m lo hi : Float) (h : IsDualL F t ds) (_hne : ds ≠ []) :
    IsDualL (fun s => (rqKnots (NF.realX e) lo hi (flooredSoftmax (NF.realX e) m (F s))).1) t
      (rqKnots (dualX (NF.realX e)) lo hi (flooredSoftmax (dualX (NF.realX e)) m ds)).1 ∧
    IsDualL (fun s => (rqKnots (NF.realX e) lo hi (flooredSoftmax (NF.realX e) m (F s))).2) t
      (rqKnots (dualX (NF.realX e)) lo hi (flooredSoftmax (dualX (NF.realX e)) m ds)).2 :=
  rqKnots_dualL e lo hi (flooredSoftmax_dualL e m h)

/-- the knot derivatives `minD + softplus_β(u)`; side condition: no entry sits on the softplus threshold `β u = 20` -/
theorem derivs_dualL_mem (minD beta : Float) (h : IsDualL F t ds) (hb : 0 < e beta) (hthr : ∀ d ∈ ds, e beta * d.1 ≠ 20) :
    IsDualL (fun s => (F s).map (fun u => (NF.realX e).add ((NF.realX e).ofFloat minD)
        ((NF.realX e).softplusB ((NF.realX e).ofFloat beta) u))) t
      (ds.map (fun u => (dualX (NF.realX e)).add ((dualX (NF.realX e)).ofFloat minD)
        ((dualX (NF.realX e)).softplusB ((dualX (NF.realX e)).ofFloat beta) u))) :=
  h.map (gR := fun _ u => (NF.realX e).add ((NF.realX e).ofFloat minD) ((NF.realX e).softplusB ((NF.realX e).ofFloat beta) u))
    (fun f d hd hf => IsDual.add e (IsDual.ofFloat e minD t)
      (IsDual.softplusB e (IsDual.ofFloat e beta t) hf (by rw [d_ofFloat]; exact hthr d hd)
        (fun _ => by rw [d_ofFloat]; exact hb.ne')))

/-- the same with the side condition stated by index -/
theorem derivs_dualL (minD beta : Float) (h : IsDualL F t ds) (hb : 0 < e beta)
    (hthr : ∀ k < ds.length, e beta * (ds.getD k 0).1 ≠ 20) :
    IsDualL (fun s => (F s).map (fun u => (NF.realX e).add ((NF.realX e).ofFloat minD)
        ((NF.realX e).softplusB ((NF.realX e).ofFloat beta) u))) t
      (ds.map (fun u => (dualX (NF.realX e)).add ((dualX (NF.realX e)).ofFloat minD)
        ((dualX (NF.realX e)).softplusB ((dualX (NF.realX e)).ofFloat beta) u))) :=
  derivs_dualL_mem e minD beta h hb (fun d hd => by
    obtain ⟨k, hk, rfl⟩ := List.mem_iff_getElem.mp hd
    have := hthr k hk
    rwa [List.getD_eq_getElem?_getD, List.getElem?_eq_getElem hk] at this)

/-! ### non-vacuity: the tie case of the max-shift, concretely -/

/-- two EQUAL logits moved along an arbitrary direction `(a, b)`: the dual `maxG` picks the first entry with tangent `a`
    (the real max `s ↦ max (s a) (s b)` has a kink at `s = 0` when `a ≠ b`), yet the dual softmax returns the true
    derivatives `±(a - b)/4` of the executed real softmax entries -/
theorem softmax_tie_example (a b : ℝ) :
    softmaxG (dualX (NF.realX e)) [(0, a), (0, b)] = [(1/2, (a - b)/4), (1/2, (b - a)/4)] ∧
    HasDerivAt (fun s => (softmaxG (NF.realX e) [0 + s * a, 0 + s * b]).getD 0 0) ((a - b)/4) 0 ∧
    HasDerivAt (fun s => (softmaxG (NF.realX e) [0 + s * a, 0 + s * b]).getD 1 0) ((b - a)/4) 0 := by
  have hval : softmaxG (dualX (NF.realX e)) [(0, a), (0, b)] = [(1/2, (a - b)/4), (1/2, (b - a)/4)] := by
    simp only [softmaxG, maxG, sumG, List.foldl_cons, List.foldl_nil, List.map_cons, List.map_nil, d_lt, lt_irrefl,
      decide_false, Bool.false_eq_true, if_false, d_sub, d_exp, d_add, d_div, d_zero, sub_self, Real.exp_zero]
    refine congrArg₂ List.cons (Prod.ext ?_ ?_) (congrArg₂ List.cons (Prod.ext ?_ ?_) rfl) <;> first | (norm_num; done) | (norm_num; ring)
  have h := softmaxG_dualL e (IsDualL.line [0, 0] [a, b] rfl)
  rw [show List.zip [(0:ℝ), 0] [a, b] = [(0, a), (0, b)] from rfl, hval] at h
  exact ⟨hval, (h.getD 0 (by simp)).2, (h.getD 1 (by simp)).2⟩

open RQWhole in
/-- `knots_dualL` on the accepted one-bin configuration `RQWhole.valid_example`, arbitrary direction -/
theorem knots_dualL_example (a : ℝ) :
    IsDualL (fun s => cw eNV cNV (List.zipWith (fun u d => u + s * d) [0] [a])) 0
      (rqKnots (dualX (NF.realX eNV)) cNV.box.left cNV.box.right (flooredSoftmax (dualX (NF.realX eNV)) cNV.minW [(0, a)])).1 :=
  (knots_dualL eNV cNV.minW cNV.box.left cNV.box.right (IsDualL.line [0] [a] rfl) (by simp)).1

/-! ## Part B: the whole executed program along a curve of parameters (and of the input) -/

omit e in
/-- forward-mode AD of an `Expr` term along ANY differentiable curve of environments -/
theorem evalD_curve_aux (f : ℕ → ℝ → ℝ) (d : ℕ → ℝ × ℝ) (t : ℝ) (hfd : ∀ i, IsDual (f i) t (d i)) (E : Expr)
    (hs : Smooth (fun i => f i t) E) :
    (evalD d E).1 = evalR (fun i => f i t) E ∧ HasDerivAt (fun s => evalR (fun i => f i s) E) (evalD d E).2 t := by
  induction E with
  | var i => exact hfd i
  | lit n d =>
    refine ⟨rfl, ?_⟩
    simp only [evalR_lit, evalD_lit]
    simpa using hasDerivAt_const t ((n:ℝ)/(d:ℝ))
  | add a b iha ihb =>
    obtain ⟨ha, hb⟩ := hs
    obtain ⟨va, da⟩ := iha ha; obtain ⟨vb, db⟩ := ihb hb
    simp only [evalR_add, evalD_add]
    exact ⟨by rw [va, vb], da.add db⟩
  | sub a b iha ihb =>
    obtain ⟨ha, hb⟩ := hs
    obtain ⟨va, da⟩ := iha ha; obtain ⟨vb, db⟩ := ihb hb
    simp only [evalR_sub, evalD_sub]
    exact ⟨by rw [va, vb], da.sub db⟩
  | mul a b iha ihb =>
    obtain ⟨ha, hb⟩ := hs
    obtain ⟨va, da⟩ := iha ha; obtain ⟨vb, db⟩ := ihb hb
    simp only [evalR_mul, evalD_mul]
    refine ⟨by rw [va, vb], ?_⟩
    rw [va, vb]; exact da.mul db
  | div a b iha ihb =>
    obtain ⟨ha, hb, hne⟩ := hs
    obtain ⟨va, da⟩ := iha ha; obtain ⟨vb, db⟩ := ihb hb
    simp only [evalR_div, evalD_div]
    refine ⟨by rw [va, vb], ?_⟩
    rw [va, vb]
    exact (da.div db hne).congr_deriv (by rw [sq])
  | neg a iha =>
    obtain ⟨va, da⟩ := iha hs
    simp only [evalR_neg, evalD_neg]
    exact ⟨by rw [va], da.neg⟩
  | exp a iha =>
    obtain ⟨va, da⟩ := iha hs
    simp only [evalR_exp, evalD_exp]
    refine ⟨by rw [va], ?_⟩
    rw [va, mul_comm]; exact da.exp
  | log a iha =>
    obtain ⟨ha, hne⟩ := hs
    obtain ⟨va, da⟩ := iha ha
    simp only [evalR_log, evalD_log]
    refine ⟨by rw [va], ?_⟩
    rw [va]; exact da.log hne
  | sqrt a iha =>
    obtain ⟨ha, hne⟩ := hs
    obtain ⟨va, da⟩ := iha ha
    simp only [evalR_sqrt, evalD_sqrt]
    refine ⟨by rw [va], ?_⟩
    rw [va]
    exact (da.sqrt hne).congr_deriv (by norm_num)
  | ifLt a b u v iha ihb iht ihe =>
    obtain ⟨ha, hb, hne, hst, hse⟩ := hs
    obtain ⟨va, da⟩ := iha ha; obtain ⟨vb, db⟩ := ihb hb
    rw [evalR_ifLt, evalD_ifLt, va, vb]
    have hca := da.continuousAt
    have hcb := db.continuousAt
    by_cases hlt : evalR (fun i => f i t) a < evalR (fun i => f i t) b
    · obtain ⟨vt, dt⟩ := iht (hst hlt)
      simp only [hlt, if_true]
      refine ⟨vt, dt.congr_of_eventuallyEq ?_⟩
      have := (hca.prodMk hcb).eventually (isOpen_lt continuous_fst continuous_snd |>.mem_nhds hlt)
      filter_upwards [this] with s hs'
      rw [evalR_ifLt]; simp only [if_pos hs']
    · obtain ⟨ve, de⟩ := ihe (hse hlt)
      simp only [hlt, if_false]
      refine ⟨ve, de.congr_of_eventuallyEq ?_⟩
      have hgt : evalR (fun i => f i t) b < evalR (fun i => f i t) a := lt_of_le_of_ne (not_lt.mp hlt) (Ne.symm hne)
      have := (hcb.prodMk hca).eventually (isOpen_lt continuous_fst continuous_snd |>.mem_nhds hgt)
      filter_upwards [this] with s hs'
      rw [evalR_ifLt]; simp only [if_neg (not_lt.mpr hs'.le)]

omit e in
theorem evalD_curve (f : ℕ → ℝ → ℝ) (d : ℕ → ℝ × ℝ) (t : ℝ) (hfd : ∀ i, IsDual (f i) t (d i)) (E : Expr)
    (hs : Smooth (fun i => f i t) E) : IsDual (fun s => evalR (fun i => f i s) E) t (evalD d E) :=
  evalD_curve_aux f d t hfd E hs

omit e in
/-- the value components of an `IsDualL` list are the real list at `t` -/
theorem IsDualL.map_fst : ∀ {ds : List (ℝ × ℝ)} {F : ℝ → List ℝ}, IsDualL F t ds → ds.map Prod.fst = F t
  | [], F, h => by rw [h.eq_nil]; rfl
  | d :: ds, F, h => by
    obtain ⟨f, F', rfl, hf, hF'⟩ := h.uncons
    simp only [List.map_cons, hf.1, IsDualL.map_fst hF']

open RQWhole

variable {e}
variable {c : RQCfg} {uw uh ud : List ℝ}

/-- `RQValid` depends on the parameter lists only through their lengths -/
theorem RQValid.transfer (hv : RQValid e c uw uh ud) {uw2 uh2 ud2 : List ℝ} (h1 : uw2.length = uw.length)
    (h2 : uh2.length = uh.length) (h3 : ud2.length = ud.length) : RQValid e c uw2 uh2 ud2 where
  hK := by intro h; rw [h] at h1; exact hv.hK (List.length_eq_zero_iff.mp h1.symm)
  hlenh := by rw [h2, h1]; exact hv.hlenh
  hlend := by rw [h3, h1]; exact hv.hlend
  hgW := by rw [h1]; exact hv.hgW
  hgH := by rw [h1]; exact hv.hgH
  hmW0 := hv.hmW0
  hcW := by rw [h1]; exact hv.hcW
  hmWK := by rw [h1]; exact hv.hmWK
  hmH0 := hv.hmH0
  hcH := by rw [h2]; exact hv.hcH
  hmHK := by rw [h2]; exact hv.hmHK
  hlr := hv.hlr
  hdlr := hv.hdlr
  hbt := hv.hbt
  hdbt := hv.hdbt
  heps := hv.heps
  hminD := hv.hminD
  hbeta := hv.hbeta

variable (e)

/-- the dual x-knots / widths, y-knots / heights, knot derivatives as the dual program computes them -/
def dKW (c : RQCfg) (dw : List (ℝ × ℝ)) : List (ℝ × ℝ) × List (ℝ × ℝ) :=
  rqKnots (dualX (NF.realX e)) c.box.left c.box.right (flooredSoftmax (dualX (NF.realX e)) c.minW dw)
def dKH (c : RQCfg) (dh : List (ℝ × ℝ)) : List (ℝ × ℝ) × List (ℝ × ℝ) :=
  rqKnots (dualX (NF.realX e)) c.box.bottom c.box.top (flooredSoftmax (dualX (NF.realX e)) c.minH dh)
def dDV (c : RQCfg) (dd : List (ℝ × ℝ)) : List (ℝ × ℝ) :=
  dd.map (fun u => (dualX (NF.realX e)).add ((dualX (NF.realX e)).ofFloat c.minD)
    ((dualX (NF.realX e)).softplusB ((dualX (NF.realX e)).ofFloat c.beta) u))

/-- the dual environment gathered for bin `i` -/
def gathered (c : RQCfg) (dw dh dd : List (ℝ × ℝ)) (i : ℕ) (dx : ℝ × ℝ) : List (ℝ × ℝ) :=
  [dx, (dKW e c dw).1.getD i 0, (dKW e c dw).2.getD i 0, (dKH e c dh).1.getD i 0, (dKH e c dh).2.getD i 0,
    (dDV e c dd).getD i 0, (dDV e c dd).getD (i+1) 0]

theorem dKW_fst (c : RQCfg) (dw : List (ℝ × ℝ)) :
    (dKW e c dw).1.map Prod.fst = cw e c (dw.map Prod.fst) ∧
    (dKW e c dw).2.map Prod.fst = diffsG (NF.realX e) (cw e c (dw.map Prod.fst)) := by
  have h1 := (fst_hom e).rqKnots c.box.left c.box.right (flooredSoftmax (dualX (NF.realX e)) c.minW dw)
  rw [(fst_hom e).flooredSoftmax] at h1
  exact ⟨congrArg Prod.fst h1, congrArg Prod.snd h1⟩

theorem dKH_fst (c : RQCfg) (dh : List (ℝ × ℝ)) :
    (dKH e c dh).1.map Prod.fst = ch e c (dh.map Prod.fst) ∧
    (dKH e c dh).2.map Prod.fst = diffsG (NF.realX e) (ch e c (dh.map Prod.fst)) := by
  have h1 := (fst_hom e).rqKnots c.box.bottom c.box.top (flooredSoftmax (dualX (NF.realX e)) c.minH dh)
  rw [(fst_hom e).flooredSoftmax] at h1
  exact ⟨congrArg Prod.fst h1, congrArg Prod.snd h1⟩

omit e in
theorem getI_ok_getD {α : Type} (l : List α) (i : ℕ) (h : i < l.length) (d : α) : getI l (i : Int) = .ok (l.getD i d) := by
  rw [SplineTotal.getI_ok l i h, List.getD_eq_getElem?_getD, List.getElem?_eq_getElem h]; rfl

variable {e}

/-- **control flow of the dual program with ARBITRARY tangents on parameters and input**: domain check, search and
    gathers see only value components, so the run selects the bin the real program selects and evaluates that bin's
    terms on the gathered dual knot entries -/
theorem rqSpline_dualG_exec (dw dh dd : List (ℝ × ℝ))
    (hv : RQValid e c (dw.map Prod.fst) (dh.map Prod.fst) (dd.map Prod.fst)) (dx : ℝ × ℝ)
    (hx0 : e c.box.left ≤ dx.1) (hx1 : dx.1 ≤ e c.box.right) :
    rqSpline (dualX (NF.realX e)) c dw dh dd false dx
      = .ok (evalX (dualX (NF.realX e)) (gathered e c dw dh dd (idx e c (dw.map Prod.fst) dx.1) dx) rqFwdE,
             evalX (dualX (NF.realX e)) (gathered e c dw dh dd (idx e c (dw.map Prod.fst) dx.1) dx) rqFwdLdE) := by
  obtain ⟨hspec, hsearch⟩ := search_spec hv
  obtain ⟨hiK, _, _⟩ := hspec dx.1 (by rw [xs_zero hv]; exact hx0) (by rw [xs_last hv]; exact hx1)
  set i := idx e c (dw.map Prod.fst) dx.1 with hi
  have hcwlen := (cw_facts hv).1
  have hchlen := (ch_facts hv).1
  simp only [List.length_map] at hiK hcwlen hchlen
  have hl1 : (dKW e c dw).1.length = dw.length + 1 := by
    have := congrArg List.length (dKW_fst e c dw).1; rw [List.length_map, hcwlen] at this; exact this
  have hl2 : (dKW e c dw).2.length = dw.length := by
    have := congrArg List.length (dKW_fst e c dw).2
    rw [List.length_map, SplineTotal.diffsG_length, hcwlen] at this; omega
  have hl3 : (dKH e c dh).1.length = dw.length + 1 := by
    have := congrArg List.length (dKH_fst e c dh).1; rw [List.length_map, hchlen] at this; exact this
  have hl4 : (dKH e c dh).2.length = dw.length := by
    have := congrArg List.length (dKH_fst e c dh).2
    rw [List.length_map, SplineTotal.diffsG_length, hchlen] at this; omega
  have hl5 : (dDV e c dd).length = dw.length + 1 := by
    have := hv.hlend; simp only [List.length_map] at this; simp [dDV, this]
  have hg1 : ((dualX (NF.realX e)).lt dx ((dualX (NF.realX e)).ofFloat c.box.left)
      || (dualX (NF.realX e)).lt ((dualX (NF.realX e)).ofFloat c.box.right) dx) = false := by
    simp only [d_lt, d_ofFloat, Bool.or_eq_false_iff, decide_eq_false_iff_not, not_lt]
    exact ⟨hx0, hx1⟩
  have hgW := hv.hgW
  have hgH := hv.hgH
  rw [List.length_map] at hgW hgH
  have hk1 : rqKnots (dualX (NF.realX e)) c.box.left c.box.right (flooredSoftmax (dualX (NF.realX e)) c.minW dw)
      = ((dKW e c dw).1, (dKW e c dw).2) := rfl
  have hk2 : rqKnots (dualX (NF.realX e)) c.box.bottom c.box.top (flooredSoftmax (dualX (NF.realX e)) c.minH dh)
      = ((dKH e c dh).1, (dKH e c dh).2) := rfl
  have hdv : dd.map (fun u => (dualX (NF.realX e)).add ((dualX (NF.realX e)).ofFloat c.minD)
        ((dualX (NF.realX e)).softplusB ((dualX (NF.realX e)).ofFloat c.beta) u)) = dDV e c dd := rfl
  have hs : searchsortedG (dualX (NF.realX e)) c.eps (dKW e c dw).1 dx = ((i : ℕ) : Int) := by
    rw [(fst_hom e).searchsortedG, (dKW_fst e c dw).1]
    exact hsearch dx.1 hx0 hx1
  have hi1 : ((i : Int) + 1) = ((i + 1 : ℕ) : Int) := by push_cast; rfl
  unfold rqSpline
  simp only [Bool.false_eq_true, if_false, hg1, hgW, hgH, hk1, hk2, hs, hdv]
  rw [getI_ok_getD _ i (by omega) 0, getI_ok_getD _ i (by omega) 0, getI_ok_getD _ i (by omega) 0,
    getI_ok_getD _ i (by omega) 0, hi1, getI_ok_getD _ i (by omega) 0, getI_ok_getD _ (i+1) (by omega) 0]
  rfl

end
end DualXParam
