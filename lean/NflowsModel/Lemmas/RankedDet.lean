import Mathlib.Analysis.Calculus.FDeriv.Basic
import Mathlib.Analysis.Calculus.Deriv.Basic
import Mathlib.Analysis.Calculus.Deriv.Comp
import Mathlib.Analysis.Calculus.Deriv.Prod
import Mathlib.Analysis.Calculus.Deriv.Mul
import Mathlib.Analysis.Calculus.Deriv.Add
import Mathlib.LinearAlgebra.Matrix.Block
import Mathlib.LinearAlgebra.Matrix.ToLin
import Mathlib.LinearAlgebra.Determinant
import Mathlib.Analysis.Calculus.FDeriv.Pi
import Mathlib.Tactic

namespace RankedDet


open Matrix

variable {n : ℕ}

/-- Directional derivative of coordinate `i` of `F` along basis vector `j`. -/
theorem coord_line_deriv {F : (Fin n → ℝ) → (Fin n → ℝ)} {L : (Fin n → ℝ) →L[ℝ] (Fin n → ℝ)}
    {x : Fin n → ℝ} (hF : HasFDerivAt F L x) (i j : Fin n) :
    HasDerivAt (fun t : ℝ => F (x + t • Pi.single j 1) i) (L (Pi.single j 1) i) 0 := by
  have h1 : HasDerivAt (fun t : ℝ => x + t • (Pi.single j (1:ℝ) : Fin n → ℝ)) (Pi.single j 1) 0 := by
    simpa using ((hasDerivAt_id (0:ℝ)).smul_const (Pi.single j (1:ℝ) : Fin n → ℝ)).const_add x
  have hx : x + (0:ℝ) • (Pi.single j (1:ℝ) : Fin n → ℝ) = x := by simp
  have h2 : HasFDerivAt F L (x + (0:ℝ) • (Pi.single j (1:ℝ) : Fin n → ℝ)) := by rw [hx]; exact hF
  have h3 := h2.comp_hasDerivAt (0:ℝ) h1
  have h4 := (hasDerivAt_pi.mp h3) i
  simpa using h4

/-- If `F i` does not change when coordinate `j` changes, the `(i,j)` Jacobian entry vanishes. -/
theorem entry_zero_of_indep {F : (Fin n → ℝ) → (Fin n → ℝ)} {L : (Fin n → ℝ) →L[ℝ] (Fin n → ℝ)}
    {x : Fin n → ℝ} (hF : HasFDerivAt F L x) (i j : Fin n)
    (hind : ∀ t : ℝ, F (x + t • Pi.single j 1) i = F x i) :
    L (Pi.single j 1) i = 0 := by
  have h := coord_line_deriv hF i j
  have hc : HasDerivAt (fun t : ℝ => F (x + t • Pi.single j 1) i) 0 0 := by
    have : (fun t : ℝ => F (x + t • Pi.single j 1) i) = fun _ => F x i := funext hind
    rw [this]; exact hasDerivAt_const _ _
  exact h.unique hc

/-- Triangular-dependency determinant. `r` ranks coordinates; `F i` depends only on `i` itself
and coordinates of strictly smaller rank; `d i` is the own-coordinate partial derivative. -/
theorem det_of_ranked_dependency {F : (Fin n → ℝ) → (Fin n → ℝ)}
    {L : (Fin n → ℝ) →L[ℝ] (Fin n → ℝ)} {x : Fin n → ℝ} (hF : HasFDerivAt F L x)
    (r : Fin n → ℕ) (d : Fin n → ℝ)
    (hind : ∀ i j, j ≠ i → ¬ (r j < r i) → ∀ t : ℝ, F (x + t • Pi.single j 1) i = F x i)
    (hdiag : ∀ i, HasDerivAt (fun t : ℝ => F (x + t • Pi.single i 1) i) (d i) 0) :
    LinearMap.det (L : (Fin n → ℝ) →ₗ[ℝ] (Fin n → ℝ)) = ∏ i, d i := by
  classical
  set M : Matrix (Fin n) (Fin n) ℝ := LinearMap.toMatrix' (L : (Fin n → ℝ) →ₗ[ℝ] (Fin n → ℝ)) with hM
  have hentry : ∀ i j, M i j = L (Pi.single j 1) i := by
    intro i j; simp [hM, LinearMap.toMatrix'_apply]
  have hzero : ∀ i j, j ≠ i → ¬ (r j < r i) → M i j = 0 := by
    intro i j hji hr
    rw [hentry]; exact entry_zero_of_indep hF i j (hind i j hji hr)
  have hdiagM : ∀ i, M i i = d i := by
    intro i; rw [hentry]; exact (coord_line_deriv hF i i).unique (hdiag i)
  -- key (rank, index), lexicographic, reversed: smaller keys are *columns* that may be non-zero
  let b : Fin n → (ℕ ×ₗ Fin n)ᵒᵈ := fun i => OrderDual.toDual (toLex (r i, i))
  have hb : Function.Injective b := by
    intro i j h
    have := congrArg (fun p => (ofLex (OrderDual.ofDual p)).2) h
    simpa [b] using this
  have hBT : M.BlockTriangular b := by
    intro i j hij
    -- hij : b j < b i  ↔  (r i, i) <lex (r j, j)
    have h1 : toLex (r i, i) < toLex (r j, j) := by simpa [b] using hij
    have hne : j ≠ i := by rintro rfl; exact lt_irrefl _ h1
    apply hzero i j hne
    intro hr
    have : toLex (r j, j) < toLex (r i, i) := by
      rw [Prod.Lex.toLex_lt_toLex]; exact Or.inl hr
    exact lt_asymm h1 this
  have hblock : ∀ i, (M.toSquareBlock b (b i)).det = M i i := by
    intro i
    letI : Unique { a // b a = b i } := ⟨⟨⟨i, rfl⟩⟩, fun j => Subtype.ext (hb j.property)⟩
    exact (det_unique _).trans rfl
  rw [← LinearMap.det_toMatrix' (L : (Fin n → ℝ) →ₗ[ℝ] (Fin n → ℝ)), ← hM, hBT.det,
    Finset.prod_image (fun i _ j _ h => hb h)]
  exact Finset.prod_congr rfl (fun i _ => (hblock i).trans (hdiagM i))


end RankedDet
