import NflowsModel.Lemmas.NonlinExec
import NflowsModel.Lemmas.NonlinExecLT
import Mathlib.Tactic
/-!
# Lemmas/WellDefinedNonlin — "accepted ⇒ well defined" for the executed element-wise inverses

External audit, C17 finding 2: over ℝ `.ok` does not exclude `log 0`, `x / 0`, `tan (π/2)` (Mathlib totalises them), and
there was no theorem saying that an ACCEPTED element of `Exp` / `Tanh` / `Sigmoid` (= `Logit` forward) / `CauchyCDF`
inverse forms only in-domain operands.  Here, for each executed inverse of `Core/Nonlin.lean` at `NF.realX e`: if the
program accepts the element (`∃ r, … = .ok r`), it returns the stated closed form AND every logarithm argument it forms is
`> 0`, every divisor `≠ 0`, and the tangent is evaluated away from its poles.

| program (Core/Nonlin.lean)   | operation                              | conjunct                               |
|------------------------------|----------------------------------------|----------------------------------------|
| `expT … true` :13-14         | `log x`                                | `0 < y`                                |
| `tanhT … true` :23-24        | `(1+x) / (1-x)`                        | `1 - y ≠ 0`                            |
|                              | `log ((1+x)/(1-x))`                    | `0 < (1 + y) / (1 - y)`                |
|                              | `log (1 - x*x)`                        | `0 < 1 - y * y`                        |
| `sigmoidT … true` :69-72     | `log xc`                               | `0 < xc`                               |
|                              | `log1p (-xc)` = `log (1 + (-xc))`      | `0 < 1 + -xc`                          |
|                              | `1 / T`                                | `T ≠ 0`                                |
|                              | `log T`                                | `0 < T`                                |
|                              | the two `softplus` (`log1p (exp _)`)   | `0 < 1 + exp _` (always)               |
| `cauchyT … true` :84-85      | `tan (π̂ (x - ½))`                     | `cos (…) ≠ 0`  (needs `π̂ < π`)        |
|                              | `log (1 + y*y)`                        | `0 < 1 + y * y`                        |
| `cauchyT … false` :87-88     | `log (1 + x*x)`                        | `0 < 1 + x * x`                        |
| `sigmoidT … false` :74-75    | `log T`, `sigmoid`'s `1 / (1+exp(-z))` | `0 < T`, `1 + exp (-z) ≠ 0`            |

`Sigmoid` needs `0 < T` (the temperature; the constructor initialises it to `1`, a learnable temperature may leave the
domain: hypothesis) and the clamp bounds `0 < ε̂ ≤ 1 - ε̂ < 1` (`NonlinExec.SigmoidClamp`).
**CauchyCDF inverse at the accepted end points `x = 0`, `x = 1` is well defined only because the double `π̂` is below `π`**
(`cauchy_inverse_well_defined` takes `e π̂ < π`; `cauchy_inverse_pole_ideal`: under the ideal reading `e π̂ = π` the accepted
input `0` evaluates the tangent AT its pole).
-/
open NF NonlinExec

namespace NF.WellDefined.Nonlin
variable (e : Float → ℝ)

/-- `Exp.inverse`: an accepted element is positive — the logarithm argument is in its domain -/
theorem exp_inverse_well_defined (y : ℝ) (h : ∃ r, expT (NF.realX e) true y = .ok r) :
    expT (NF.realX e) true y = .ok (Real.log y, -Real.log y) ∧ 0 < y := by
  have hy : 0 < y := (expT_inv_ok_iff e y).1 h
  exact ⟨expT_inv_run e hy, hy⟩

/-- `Tanh.inverse`: an accepted element lies in `(-1, 1)`; the divisor and both logarithm arguments are in domain -/
theorem tanh_inverse_well_defined (h05 : e 0.5 = 1 / 2) (y : ℝ) (h : ∃ r, tanhT (NF.realX e) true y = .ok r) :
    tanhT (NF.realX e) true y = .ok (1 / 2 * Real.log ((1 + y) / (1 - y)), -Real.log (1 - y * y)) ∧
    1 - y ≠ 0 ∧ 0 < (1 + y) / (1 - y) ∧ 0 < 1 - y * y := by
  have hdom : -1 < y ∧ y < 1 := by
    by_contra hc
    have : y ≤ -1 ∨ 1 ≤ y := by
      by_cases h1 : -1 < y
      · right; exact not_lt.mp (fun h2 => hc ⟨h1, h2⟩)
      · left; exact not_lt.mp h1
    obtain ⟨r, hr⟩ := h
    rw [(tanhT_inv_error_iff e y).2 this] at hr
    cases hr
  obtain ⟨h1, h2⟩ := hdom
  have hrun := tanhT_inv_run e h05 h1 h2
  unfold artanh at hrun
  refine ⟨hrun, by linarith, div_pos (by linarith) (by linarith), by nlinarith⟩

/-- the clamped argument of `Sigmoid.inverse` stays strictly inside `(0, 1)` -/
theorem clamp_mem_Ioo {eps : Float} (hc : SigmoidClamp e eps) (y : ℝ) :
    0 < DualX.clampR (e eps) (e (1 - eps)) y ∧ DualX.clampR (e eps) (e (1 - eps)) y < 1 := by
  unfold DualX.clampR
  constructor
  · exact lt_min (lt_of_lt_of_le hc.hlo (le_max_right _ _)) (lt_of_lt_of_le hc.hlo hc.hle)
  · exact lt_of_le_of_lt (min_le_right _ _) hc.hhi

/-- `Sigmoid.inverse` (= `Logit.forward`): an accepted element lies in the CLOSED `[0, 1]`; the clamp keeps the argument of
    `log` and of `log1p (-·)` in `(0, 1)`; `1 / T` and `log T` need `0 < T` -/
theorem sigmoid_inverse_well_defined {eps : Float} (hc : SigmoidClamp e eps) {T : ℝ} (hT : 0 < T) (y : ℝ)
    (h : ∃ r, sigmoidT (NF.realX e) T eps true y = .ok r) :
    (0 ≤ y ∧ y ≤ 1) ∧
    sigmoidT (NF.realX e) T eps true y
      = .ok (1 / T * (Real.log (DualX.clampR (e eps) (e (1 - eps)) y) - Real.log (1 - DualX.clampR (e eps) (e (1 - eps)) y)),
             -sigLd T (T * (1 / T * logit (DualX.clampR (e eps) (e (1 - eps)) y)))) ∧
    0 < DualX.clampR (e eps) (e (1 - eps)) y ∧ 0 < 1 + -DualX.clampR (e eps) (e (1 - eps)) y ∧ T ≠ 0 ∧ 0 < T ∧
    ∀ z : ℝ, 0 < 1 + Real.exp z := by
  have hdom : 0 ≤ y ∧ y ≤ 1 := by
    by_contra hcon
    have : y < 0 ∨ 1 < y := by
      by_cases h0 : 0 ≤ y
      · right; exact not_le.mp (fun h1 => hcon ⟨h0, h1⟩)
      · left; exact not_le.mp h0
    obtain ⟨r, hr⟩ := h
    rw [(sigmoidT_inv_error_iff e T eps y).2 this] at hr
    cases hr
  have hm := clamp_mem_Ioo e hc y
  refine ⟨hdom, ?_, hm.1, by linarith [hm.2], hT.ne', hT, fun z => by positivity⟩
  have := sigmoidT_inv_run e T eps hdom.1 hdom.2
  unfold logit at this ⊢
  exact this

/-- `CauchyCDF.inverse`: an accepted element lies in the CLOSED `[0, 1]`; the tangent is evaluated strictly inside
    `(-π/2, π/2)` — INCLUDING the end points — because the double `π̂` is below `π`; the logarithm argument is `≥ 1` -/
theorem cauchy_inverse_well_defined (hpi0 : 0 < e 3.141592653589793) (hpi : e 3.141592653589793 < Real.pi)
    (hhalf : e 0.5 = 1 / 2) (x : ℝ) (h : ∃ r, cauchyT (NF.realX e) true x = .ok r) :
    (0 ≤ x ∧ x ≤ 1) ∧
    cauchyT (NF.realX e) true x
      = .ok (Real.tan (e 3.141592653589793 * (x - e 0.5)),
             -(e (-(Float.log 3.141592653589793))
                - Real.log (1 + Real.tan (e 3.141592653589793 * (x - e 0.5))
                              * Real.tan (e 3.141592653589793 * (x - e 0.5))))) ∧
    Real.cos (e 3.141592653589793 * (x - e 0.5)) ≠ 0 ∧
    0 < 1 + Real.tan (e 3.141592653589793 * (x - e 0.5)) * Real.tan (e 3.141592653589793 * (x - e 0.5)) := by
  have hdom : 0 ≤ x ∧ x ≤ 1 := by
    by_contra hcon
    have : x < 0 ∨ 1 < x := by
      by_cases h0 : 0 ≤ x
      · right; exact not_le.mp (fun h1 => hcon ⟨h0, h1⟩)
      · left; exact not_le.mp h0
    obtain ⟨r, hr⟩ := h
    rw [(NonlinExec.cauchyT_inv_error_iff e x).2 this] at hr
    cases hr
  refine ⟨hdom, NonlinExec.cauchyT_inv_run e x hdom.1 hdom.2, ?_, by nlinarith [mul_self_nonneg (Real.tan (e 3.141592653589793 * (x - e 0.5)))]⟩
  rw [hhalf]
  refine (Real.cos_pos_of_mem_Ioo ⟨?_, ?_⟩).ne'
  · nlinarith [hdom.1, hdom.2]
  · nlinarith [hdom.1, hdom.2]

/-- the contrast: under the IDEAL reading `e π̂ = π` the accepted input `0` evaluates the tangent at its pole
    (`cos = 0`; Mathlib's `Real.tan` returns the junk value `0` there) — the well-definedness above is a property of the
    double constant, not of the formula -/
theorem cauchy_inverse_pole_ideal (hpi : e 3.141592653589793 = Real.pi) (hhalf : e 0.5 = 1 / 2) :
    (∃ r, cauchyT (NF.realX e) true 0 = .ok r) ∧ Real.cos (e 3.141592653589793 * (0 - e 0.5)) = 0 := by
  refine ⟨⟨_, NonlinExec.cauchyT_inv_run e 0 le_rfl zero_le_one⟩, ?_⟩
  rw [hpi, hhalf]
  have : Real.pi * (0 - 1 / 2) = -(Real.pi / 2) := by ring
  rw [this, Real.cos_neg, Real.cos_pi_div_two]

/-- `CauchyCDF.forward` accepts everything; its logarithm argument is `≥ 1` -/
theorem cauchy_forward_well_defined (x : ℝ) :
    cauchyT (NF.realX e) false x
      = .ok (e (1 / 3.141592653589793) * Real.arctan x + e 0.5,
             e (-(Float.log 3.141592653589793)) - Real.log (1 + x * x)) ∧ 0 < 1 + x * x :=
  ⟨NonlinExec.cauchyT_fwd_run e x, by nlinarith [mul_self_nonneg x]⟩

/-- `Sigmoid.forward` accepts everything; `log T` needs a positive temperature, the divisor of the sigmoid is `> 1` -/
theorem sigmoid_forward_well_defined {T : ℝ} (hT : 0 < T) (eps : Float) (x : ℝ) :
    (∃ r, sigmoidT (NF.realX e) T eps false x = .ok r) ∧ 0 < T ∧ 1 + Real.exp (-(T * x)) ≠ 0 ∧ ∀ z : ℝ, 0 < 1 + Real.exp z :=
  ⟨⟨_, rfl⟩, hT, by positivity, fun z => by positivity⟩

/-! non-vacuity: the hypotheses on `e` are satisfiable (an `e` that reads the three doubles as `3`, `1/2`, and anything
else as `0` satisfies `0 < e π̂ < π`, `e 0.5 = 1/2`), and `1/2` is an accepted input -/
example : ∃ e : Float → ℝ, 0 < e 3.141592653589793 ∧ e 3.141592653589793 < Real.pi ∧ e 0.5 = 1 / 2 ∧
    ∃ r, cauchyT (NF.realX e) true (1 / 2) = .ok r := by
  refine ⟨fun f => if f == 0.5 then 1 / 2 else 3, ?_, ?_, ?_, ?_⟩
  · have : ((3.141592653589793 : Float) == 0.5) = false := by decide +kernel
    simp [this]
  · have : ((3.141592653589793 : Float) == 0.5) = false := by decide +kernel
    simp only [this]
    exact Real.pi_gt_three
  · have : ((0.5 : Float) == 0.5) = true := by decide +kernel
    simp [this]
  · exact ⟨_, NonlinExec.cauchyT_inv_run _ (1 / 2) (by norm_num) (by norm_num)⟩

end NF.WellDefined.Nonlin
