import NflowsModel.Core.Dual
import NflowsModel.Core.Nonlin
import NflowsModel.Real.RealX
import NflowsModel.Lemmas.DualSound
import Mathlib.Analysis.SpecialFunctions.Trigonometric.DerivHyp
import Mathlib.Analysis.SpecialFunctions.Trigonometric.ArctanDeriv
import Mathlib.Analysis.SpecialFunctions.Trigonometric.Deriv
import Mathlib.Analysis.SpecialFunctions.Complex.LogDeriv
import Mathlib.Analysis.Calculus.Deriv.Abs
import Mathlib.Tactic
/-!
# Lemmas/DualX — soundness of the dual-number instance `NF.dualX (NF.realX e)` (C16)

`NF.dualX o : XOps (α × α)` (Core/Dual) is what the driver runs (precision tag `d64`) when the harness compares
gradients with `torch.autograd`.  Here `o := NF.realX e`:

* `IsDual f t d` — the pair `d` is (value, derivative) of `f : ℝ → ℝ` at `t`;
* every field of `XOps` and every derived operation of `Core/XOps.lean` maps `IsDual` inputs to an `IsDual` output of the
  SAME operation of `NF.realX e` composed with the input functions (`IsDual.add … IsDual.clamp`), under exactly the
  side conditions where the real operation is differentiable;
* the statements are directional: the inputs may be any differentiable functions of the parameter `t`, so seeding the
  tangent on the input gives `∂/∂x`, on a parameter `∂/∂parameter`.

The model functions of `Core/Nonlin.lean` are treated in `Lemmas/DualXNonlin.lean`.
-/
open NF DualSound Filter Topology

namespace DualX
noncomputable section

variable (e : Float → ℝ)

/-! ## rfl-level description of the dual record over the reals -/

@[simp] theorem d_add (a b : ℝ × ℝ) : (dualX (realX e)).add a b = (a.1 + b.1, a.2 + b.2) := rfl
@[simp] theorem d_sub (a b : ℝ × ℝ) : (dualX (realX e)).sub a b = (a.1 - b.1, a.2 - b.2) := rfl
@[simp] theorem d_mul (a b : ℝ × ℝ) : (dualX (realX e)).mul a b = (a.1 * b.1, a.2 * b.1 + a.1 * b.2) := rfl
@[simp] theorem d_div (a b : ℝ × ℝ) :
    (dualX (realX e)).div a b = (a.1 / b.1, (a.2 * b.1 - a.1 * b.2) / (b.1 * b.1)) := rfl
@[simp] theorem d_neg (a : ℝ × ℝ) : (dualX (realX e)).neg a = (-a.1, -a.2) := rfl
@[simp] theorem d_exp (a : ℝ × ℝ) : (dualX (realX e)).exp a = (Real.exp a.1, a.2 * Real.exp a.1) := rfl
@[simp] theorem d_log (a : ℝ × ℝ) : (dualX (realX e)).log a = (Real.log a.1, a.2 / a.1) := rfl
theorem d_sqrt (a : ℝ × ℝ) :
    (dualX (realX e)).sqrt a = (Real.sqrt a.1, a.2 / (2 * Real.sqrt a.1)) := by
  show (Real.sqrt a.1, a.2 / (((2:ℤ):ℝ)/((1:ℕ):ℝ) * Real.sqrt a.1)) = _
  norm_num
theorem d_ofRat (n : Int) (d : Nat) : (dualX (realX e)).ofRat n d = ((n:ℝ) / (d:ℝ), 0) := by
  show ((n:ℝ) / (d:ℝ), ((0:ℤ):ℝ)/((1:ℕ):ℝ)) = _
  norm_num
@[simp] theorem d_lt (a b : ℝ × ℝ) : (dualX (realX e)).lt a b = decide (a.1 < b.1) := rfl
@[simp] theorem d_le (a b : ℝ × ℝ) : (dualX (realX e)).le a b = decide (a.1 ≤ b.1) := rfl
theorem d_ofFloat (x : Float) : (dualX (realX e)).ofFloat x = (e x, 0) := by
  show (e x, (realX e).zero) = _
  rw [realX_zero]
theorem d_tanh (a : ℝ × ℝ) :
    (dualX (realX e)).tanh a = (Real.tanh a.1, a.2 * (1 - Real.tanh a.1 * Real.tanh a.1)) := by
  show (Real.tanh a.1, a.2 * ((realX e).one - Real.tanh a.1 * Real.tanh a.1)) = _
  rw [realX_one]
theorem d_atan (a : ℝ × ℝ) : (dualX (realX e)).atan a = (Real.arctan a.1, a.2 / (1 + a.1 * a.1)) := by
  show (Real.arctan a.1, a.2 / ((realX e).one + a.1 * a.1)) = _
  rw [realX_one]
theorem d_tan (a : ℝ × ℝ) :
    (dualX (realX e)).tan a = (Real.tan a.1, a.2 * (1 + Real.tan a.1 * Real.tan a.1)) := by
  show (Real.tan a.1, a.2 * ((realX e).one + Real.tan a.1 * Real.tan a.1)) = _
  rw [realX_one]
@[simp] theorem d_cos (a : ℝ × ℝ) : (dualX (realX e)).cos a = (Real.cos a.1, -(a.2 * Real.sin a.1)) := rfl
@[simp] theorem d_sin (a : ℝ × ℝ) : (dualX (realX e)).sin a = (Real.sin a.1, a.2 * Real.cos a.1) := rfl
@[simp] theorem d_atan2 (y x : ℝ × ℝ) : (dualX (realX e)).atan2 y x =
    (Complex.arg ⟨x.1, y.1⟩, (x.1 * y.2 - y.1 * x.2) / (x.1 * x.1 + y.1 * y.1)) := rfl
@[simp] theorem d_abs (a : ℝ × ℝ) : (dualX (realX e)).abs a = (|a.1|, (realX e).sign a.1 * a.2) := rfl
theorem d_floor (a : ℝ × ℝ) : (dualX (realX e)).floor a = ((⌊a.1⌋ : ℝ), 0) := by
  show ((⌊a.1⌋ : ℝ), (realX e).zero) = _
  rw [realX_zero]
@[simp] theorem d_nextUp (a : ℝ × ℝ) : (dualX (realX e)).nextUp a = a := rfl

@[simp] theorem realX_tanh (a : ℝ) : (realX e).tanh a = Real.tanh a := rfl
@[simp] theorem realX_tan (a : ℝ) : (realX e).tan a = Real.tan a := rfl
@[simp] theorem realX_cos (a : ℝ) : (realX e).cos a = Real.cos a := rfl
@[simp] theorem realX_sin (a : ℝ) : (realX e).sin a = Real.sin a := rfl
@[simp] theorem realX_atan2 (y x : ℝ) : (realX e).atan2 y x = Complex.arg ⟨x, y⟩ := rfl
@[simp] theorem realX_floor (a : ℝ) : (realX e).floor a = (⌊a⌋ : ℝ) := rfl
@[simp] theorem realX_nextUp (a : ℝ) : (realX e).nextUp a = a := rfl

theorem realX_sign (x : ℝ) : (realX e).sign x = if 0 < x then 1 else if x < 0 then -1 else 0 := by
  unfold XOps.sign
  simp only [realX_lt, realX_zero, realX_one, realX_neg, decide_eq_true_eq]

/-! ## `IsDual` -/

/-- `d` is the (value, derivative) pair of `f` at `t` -/
def IsDual (f : ℝ → ℝ) (t : ℝ) (d : ℝ × ℝ) : Prop := d.1 = f t ∧ HasDerivAt f d.2 t

variable {e}
variable {f g u v : ℝ → ℝ} {t : ℝ} {a b du dv : ℝ × ℝ}

theorem IsDual.val (h : IsDual f t a) : a.1 = f t := h.1
theorem IsDual.deriv (h : IsDual f t a) : HasDerivAt f a.2 t := h.2

theorem IsDual.congr (h : IsDual f t a) (hfg : f =ᶠ[𝓝 t] g) : IsDual g t a :=
  ⟨h.1.trans hfg.self_of_nhds, h.2.congr_of_eventuallyEq hfg.symm⟩

theorem IsDual.congr_fun (h : IsDual f t a) (hfg : ∀ s, f s = g s) : IsDual g t a :=
  h.congr (Eventually.of_forall hfg)

/-- seeding: the differentiated variable itself -/
theorem IsDual.id (t : ℝ) : IsDual (fun s => s) t (t, 1) := ⟨rfl, hasDerivAt_id t⟩
/-- seeding: a quantity that does not depend on the differentiated variable -/
theorem IsDual.const (c t : ℝ) : IsDual (fun _ => c) t (c, 0) := ⟨rfl, hasDerivAt_const t c⟩

variable (e)

/-! ### constants -/

theorem IsDual.ofFloat (x : Float) (t : ℝ) :
    IsDual (fun _ => (realX e).ofFloat x) t ((dualX (realX e)).ofFloat x) := by
  rw [d_ofFloat]; exact IsDual.const _ _
theorem IsDual.ofRat (n : Int) (d : Nat) (t : ℝ) :
    IsDual (fun _ => (realX e).ofRat n d) t ((dualX (realX e)).ofRat n d) := by
  rw [d_ofRat]; exact IsDual.const _ _
theorem IsDual.zero (t : ℝ) : IsDual (fun _ => (realX e).zero) t (dualX (realX e)).zero := IsDual.ofRat e 0 1 t
theorem IsDual.one (t : ℝ) : IsDual (fun _ => (realX e).one) t (dualX (realX e)).one := IsDual.ofRat e 1 1 t
theorem IsDual.two (t : ℝ) : IsDual (fun _ => (realX e).two) t (dualX (realX e)).two := IsDual.ofRat e 2 1 t
theorem IsDual.ofNat (n : Nat) (t : ℝ) :
    IsDual (fun _ => (realX e).ofNat n) t ((dualX (realX e)).ofNat n) := IsDual.ofRat e n 1 t

@[simp] theorem d_zero : (dualX (realX e)).zero = (0, 0) := by
  show (dualX (realX e)).ofRat 0 1 = _; rw [d_ofRat]; norm_num
@[simp] theorem d_one : (dualX (realX e)).one = (1, 0) := by
  show (dualX (realX e)).ofRat 1 1 = _; rw [d_ofRat]; norm_num
@[simp] theorem d_two : (dualX (realX e)).two = (2, 0) := by
  show (dualX (realX e)).ofRat 2 1 = _; rw [d_ofRat]; norm_num

/-! ### the fields of `Ops` (also proved on `Expr` terms by `DualSound.evalDual_sound`) -/

theorem IsDual.add (ha : IsDual f t a) (hb : IsDual g t b) :
    IsDual (fun s => (realX e).add (f s) (g s)) t ((dualX (realX e)).add a b) :=
  ⟨by show a.1 + b.1 = f t + g t; rw [ha.1, hb.1], ha.2.add hb.2⟩

theorem IsDual.sub (ha : IsDual f t a) (hb : IsDual g t b) :
    IsDual (fun s => (realX e).sub (f s) (g s)) t ((dualX (realX e)).sub a b) :=
  ⟨by show a.1 - b.1 = f t - g t; rw [ha.1, hb.1], ha.2.sub hb.2⟩

theorem IsDual.mul (ha : IsDual f t a) (hb : IsDual g t b) :
    IsDual (fun s => (realX e).mul (f s) (g s)) t ((dualX (realX e)).mul a b) := by
  refine ⟨by show a.1 * b.1 = f t * g t; rw [ha.1, hb.1], ?_⟩
  show HasDerivAt (fun s => f s * g s) (a.2 * b.1 + a.1 * b.2) t
  rw [ha.1, hb.1]; exact ha.2.mul hb.2

/-- side condition: the denominator does not vanish -/
theorem IsDual.div (ha : IsDual f t a) (hb : IsDual g t b) (h0 : b.1 ≠ 0) :
    IsDual (fun s => (realX e).div (f s) (g s)) t ((dualX (realX e)).div a b) := by
  refine ⟨by show a.1 / b.1 = f t / g t; rw [ha.1, hb.1], ?_⟩
  show HasDerivAt (fun s => f s / g s) ((a.2 * b.1 - a.1 * b.2) / (b.1 * b.1)) t
  rw [hb.1] at h0
  rw [ha.1, hb.1, ← sq]; exact ha.2.div hb.2 h0

theorem IsDual.neg (ha : IsDual f t a) :
    IsDual (fun s => (realX e).neg (f s)) t ((dualX (realX e)).neg a) :=
  ⟨by show -a.1 = -f t; rw [ha.1], ha.2.neg⟩

theorem IsDual.exp (ha : IsDual f t a) :
    IsDual (fun s => (realX e).exp (f s)) t ((dualX (realX e)).exp a) := by
  refine ⟨by show Real.exp a.1 = Real.exp (f t); rw [ha.1], ?_⟩
  show HasDerivAt (fun s => Real.exp (f s)) (a.2 * Real.exp a.1) t
  rw [ha.1, mul_comm]; exact ha.2.exp

/-- side condition: the argument is not `0` (`Real.log` is `log |x|`, differentiable away from 0) -/
theorem IsDual.log (ha : IsDual f t a) (h0 : a.1 ≠ 0) :
    IsDual (fun s => (realX e).log (f s)) t ((dualX (realX e)).log a) := by
  refine ⟨by show Real.log a.1 = Real.log (f t); rw [ha.1], ?_⟩
  show HasDerivAt (fun s => Real.log (f s)) (a.2 / a.1) t
  rw [ha.1] at h0 ⊢; exact ha.2.log h0

/-- side condition: the argument is not `0` -/
theorem IsDual.sqrt (ha : IsDual f t a) (h0 : a.1 ≠ 0) :
    IsDual (fun s => (realX e).sqrt (f s)) t ((dualX (realX e)).sqrt a) := by
  rw [d_sqrt]
  refine ⟨by show Real.sqrt a.1 = Real.sqrt (f t); rw [ha.1], ?_⟩
  show HasDerivAt (fun s => Real.sqrt (f s)) (a.2 / (2 * Real.sqrt a.1)) t
  rw [ha.1] at h0 ⊢; exact ha.2.sqrt h0

/-! ### the extra fields of `XOps` -/

theorem hasDerivAt_tanh (x : ℝ) : HasDerivAt Real.tanh (1 - Real.tanh x * Real.tanh x) x := by
  have hc := (Real.cosh_pos x).ne'
  have h := (Real.hasDerivAt_sinh x).div (Real.hasDerivAt_cosh x) hc
  have e' : Real.sinh / Real.cosh = Real.tanh := by
    funext y; simp [Real.tanh_eq_sinh_div_cosh]
  rw [e'] at h
  refine h.congr_deriv ?_
  rw [Real.tanh_eq_sinh_div_cosh]
  field_simp

theorem IsDual.tanh (ha : IsDual f t a) :
    IsDual (fun s => (realX e).tanh (f s)) t ((dualX (realX e)).tanh a) := by
  rw [d_tanh]
  refine ⟨by show Real.tanh a.1 = Real.tanh (f t); rw [ha.1], ?_⟩
  show HasDerivAt (fun s => Real.tanh (f s)) (a.2 * (1 - Real.tanh a.1 * Real.tanh a.1)) t
  rw [ha.1, mul_comm]
  exact (hasDerivAt_tanh (f t)).comp t ha.2

theorem IsDual.atan (ha : IsDual f t a) :
    IsDual (fun s => (realX e).atan (f s)) t ((dualX (realX e)).atan a) := by
  rw [d_atan]
  refine ⟨by show Real.arctan a.1 = Real.arctan (f t); rw [ha.1], ?_⟩
  show HasDerivAt (fun s => Real.arctan (f s)) (a.2 / (1 + a.1 * a.1)) t
  rw [ha.1]
  exact ha.2.arctan.congr_deriv (by rw [sq]; ring)

/-- side condition: `cos` of the argument is not `0` (the poles of `tan`) -/
theorem IsDual.tan (ha : IsDual f t a) (h0 : Real.cos a.1 ≠ 0) :
    IsDual (fun s => (realX e).tan (f s)) t ((dualX (realX e)).tan a) := by
  rw [d_tan]
  refine ⟨by show Real.tan a.1 = Real.tan (f t); rw [ha.1], ?_⟩
  show HasDerivAt (fun s => Real.tan (f s)) (a.2 * (1 + Real.tan a.1 * Real.tan a.1)) t
  rw [ha.1] at h0 ⊢
  refine ((Real.hasDerivAt_tan h0).comp t ha.2).congr_deriv ?_
  rw [Real.tan_eq_sin_div_cos]
  have := Real.sin_sq_add_cos_sq (f t)
  field_simp
  linear_combination (-a.2) * this

theorem IsDual.cos (ha : IsDual f t a) :
    IsDual (fun s => (realX e).cos (f s)) t ((dualX (realX e)).cos a) := by
  refine ⟨by show Real.cos a.1 = Real.cos (f t); rw [ha.1], ?_⟩
  show HasDerivAt (fun s => Real.cos (f s)) (-(a.2 * Real.sin a.1)) t
  rw [ha.1]
  exact ha.2.cos.congr_deriv (by ring)

theorem IsDual.sin (ha : IsDual f t a) :
    IsDual (fun s => (realX e).sin (f s)) t ((dualX (realX e)).sin a) := by
  refine ⟨by show Real.sin a.1 = Real.sin (f t); rw [ha.1], ?_⟩
  show HasDerivAt (fun s => Real.sin (f s)) (a.2 * Real.cos a.1) t
  rw [ha.1]
  exact ha.2.sin.congr_deriv (by ring)

/-- side condition: the argument is not `0` (the kink of `|·|`; there the rule returns tangent `0`, torch's convention) -/
theorem IsDual.abs (ha : IsDual f t a) (h0 : a.1 ≠ 0) :
    IsDual (fun s => (realX e).abs (f s)) t ((dualX (realX e)).abs a) := by
  refine ⟨by show |a.1| = |f t|; rw [ha.1], ?_⟩
  show HasDerivAt (fun s => |f s|) ((realX e).sign a.1 * a.2) t
  rw [realX_sign, ha.1] at *
  rcases lt_or_gt_of_ne h0 with h | h
  · rw [if_neg (not_lt.mpr h.le), if_pos h]
    exact ((hasDerivAt_abs_neg h).comp t ha.2).congr_deriv (by ring)
  · rw [if_pos h]
    exact ((hasDerivAt_abs_pos h).comp t ha.2).congr_deriv (by ring)

/-- side condition: the argument is not an integer (the jumps of `floor`) -/
theorem IsDual.floor (ha : IsDual f t a) (h0 : ∀ n : ℤ, a.1 ≠ n) :
    IsDual (fun s => (realX e).floor (f s)) t ((dualX (realX e)).floor a) := by
  rw [d_floor]
  refine ⟨by show ((⌊a.1⌋ : ℤ) : ℝ) = ((⌊f t⌋ : ℤ) : ℝ); rw [ha.1], ?_⟩
  show HasDerivAt (fun s => ((⌊f s⌋ : ℤ) : ℝ)) 0 t
  rw [ha.1] at h0
  have hlo : ((⌊f t⌋ : ℤ) : ℝ) < f t := lt_of_le_of_ne (Int.floor_le _) (Ne.symm (h0 _))
  have hhi : f t < ((⌊f t⌋ : ℤ) : ℝ) + 1 := Int.lt_floor_add_one _
  have hc := ha.2.continuousAt
  have h1 : ∀ᶠ s in 𝓝 t, ((⌊f t⌋ : ℤ) : ℝ) < f s := hc.eventually (Ioi_mem_nhds hlo)
  have h2 : ∀ᶠ s in 𝓝 t, f s < ((⌊f t⌋ : ℤ) : ℝ) + 1 := hc.eventually (Iio_mem_nhds hhi)
  refine (hasDerivAt_const t (((⌊f t⌋ : ℤ) : ℝ))).congr_of_eventuallyEq ?_
  filter_upwards [h1, h2] with s hs1 hs2
  have : ⌊f s⌋ = ⌊f t⌋ := Int.floor_eq_iff.mpr ⟨hs1.le, hs2⟩
  rw [this]

theorem IsDual.nextUp (ha : IsDual f t a) :
    IsDual (fun s => (realX e).nextUp (f s)) t ((dualX (realX e)).nextUp a) := ha

/-- `atan2 y x = arg (x + i y)`; side condition: `(x, y)` is off the branch cut `{x ≤ 0, y = 0}` -/
theorem IsDual.atan2 (hy : IsDual f t a) (hx : IsDual g t b) (h0 : 0 < b.1 ∨ a.1 ≠ 0) :
    IsDual (fun s => (realX e).atan2 (f s) (g s)) t ((dualX (realX e)).atan2 a b) := by
  refine ⟨by show Complex.arg ⟨b.1, a.1⟩ = Complex.arg ⟨g t, f t⟩; rw [hy.1, hx.1], ?_⟩
  show HasDerivAt (fun s => Complex.arg ⟨g s, f s⟩) ((b.1 * a.2 - a.1 * b.2) / (b.1 * b.1 + a.1 * a.1)) t
  rw [hy.1, hx.1] at *
  -- the curve `γ s = g s + i f s` in ℂ
  have hγ : HasDerivAt (fun s => ((g s : ℂ) + (f s : ℂ) * Complex.I)) ((b.2 : ℂ) + (a.2 : ℂ) * Complex.I) t :=
    (hx.2.ofReal_comp).add ((hy.2.ofReal_comp).mul_const Complex.I)
  have hmem : ((g t : ℂ) + (f t : ℂ) * Complex.I) ∈ Complex.slitPlane := by
    rw [Complex.mem_slitPlane_iff]
    simpa using h0
  have hlog := hγ.clog_real hmem
  have him := (Complex.imCLM.hasFDerivAt.comp_hasDerivAt t hlog)
  have hfun : (fun s => Complex.arg ⟨g s, f s⟩) = (⇑Complex.imCLM ∘ fun s => Complex.log ((g s : ℂ) + (f s : ℂ) * Complex.I)) := by
    funext s
    simp only [Function.comp, Complex.imCLM_apply, Complex.log_im]
    congr 1
    apply Complex.ext <;> simp
  rw [hfun]
  refine him.congr_deriv ?_
  have hne : g t * g t + f t * f t ≠ 0 := by
    rcases h0 with h | h
    · nlinarith [mul_self_nonneg (f t), mul_pos h h]
    · nlinarith [mul_self_nonneg (g t), mul_self_pos.mpr h]
  simp only [Complex.imCLM_apply, Complex.div_im, Complex.add_re, Complex.add_im, Complex.ofReal_re, Complex.ofReal_im,
    Complex.mul_re, Complex.mul_im, Complex.I_re, Complex.I_im, mul_zero, mul_one, sub_zero, zero_add, add_zero,
    Complex.normSq_apply]
  field_simp

/-! ### branching on a comparison of value components -/

/-- `if a < b then … else …`: side condition `a ≠ b` (away from the tie) -/
theorem IsDual.ite_lt (ha : IsDual f t a) (hb : IsDual g t b) (hne : a.1 ≠ b.1)
    (hu : a.1 < b.1 → IsDual u t du) (hv : b.1 < a.1 → IsDual v t dv) :
    IsDual (fun s => if (realX e).lt (f s) (g s) then u s else v s) t
      (if (dualX (realX e)).lt a b then du else dv) := by
  simp only [d_lt, realX_lt, decide_eq_true_eq]
  have hca := ha.2.continuousAt
  have hcb := hb.2.continuousAt
  rcases lt_or_gt_of_ne hne with h | h
  · rw [if_pos h]
    refine (hu h).congr ?_
    rw [ha.1, hb.1] at h
    have := (hca.prodMk hcb).eventually (isOpen_lt continuous_fst continuous_snd |>.mem_nhds h)
    filter_upwards [this] with s hs
    simp only [if_pos hs]
  · rw [if_neg (not_lt.mpr h.le)]
    refine (hv h).congr ?_
    rw [ha.1, hb.1] at h
    have := (hcb.prodMk hca).eventually (isOpen_lt continuous_fst continuous_snd |>.mem_nhds h)
    filter_upwards [this] with s hs
    simp only [if_neg (not_lt.mpr (le_of_lt hs))]

/-! ## derived operations of `Core/XOps.lean` -/

theorem IsDual.sq (ha : IsDual f t a) :
    IsDual (fun s => (realX e).sq (f s)) t ((dualX (realX e)).sq a) := IsDual.mul e ha ha

theorem IsDual.sigmoid (ha : IsDual f t a) :
    IsDual (fun s => (realX e).sigmoid (f s)) t ((dualX (realX e)).sigmoid a) :=
  IsDual.div e (IsDual.one e t) (IsDual.add e (IsDual.one e t) (IsDual.exp e (IsDual.neg e ha)))
    (by simp only [d_add, d_one, d_exp, d_neg]; positivity)

theorem d_sigmoid_val (a : ℝ × ℝ) : ((dualX (realX e)).sigmoid a).1 = (realX e).sigmoid a.1 := by
  simp only [XOps.sigmoid, d_div, d_add, d_one, d_exp, d_neg, realX_div, realX_add, realX_one, realX_exp, realX_neg]

theorem d_sigmoid_pos (a : ℝ × ℝ) : 0 < ((dualX (realX e)).sigmoid a).1 := by
  rw [d_sigmoid_val, realX_sigmoid]; positivity

theorem log1p_else_eq (y : ℝ) :
    (realX e).div ((realX e).mul ((realX e).log ((realX e).add (realX e).one y)) y)
      ((realX e).sub ((realX e).add (realX e).one y) (realX e).one) = (realX e).log1p y := by
  rw [realX_log1p]
  simp only [realX_div, realX_mul, realX_log, realX_add, realX_one, realX_sub]
  by_cases h : y = 0
  · subst h; simp
  · have : (1:ℝ) + y - 1 = y := by ring
    rw [this]; field_simp

/-- `log1p` (compensated form): side condition `1 + x ≠ 0`.  At `x = 0` the code returns `x` itself, whose tangent `x'` is
    the derivative of `log (1 + x)` there. -/
theorem IsDual.log1p (ha : IsDual f t a) (h0 : 1 + a.1 ≠ 0) :
    IsDual (fun s => (realX e).log1p (f s)) t ((dualX (realX e)).log1p a) := by
  by_cases hz : a.1 = 0
  · have hd : (dualX (realX e)).log1p a = a := by
      unfold XOps.log1p
      simp only [d_add, d_one, d_le, hz, add_zero, le_refl, decide_true, Bool.and_self, if_true]
    rw [hd]
    have hf : f t = 0 := by rw [← ha.1, hz]
    refine ⟨?_, ?_⟩
    · show a.1 = (realX e).log1p (f t)
      rw [realX_log1p, hf, hz]; simp
    · have h := (ha.2.const_add 1).log (by rw [hf]; norm_num)
      rw [hf, add_zero, div_one] at h
      refine h.congr_of_eventuallyEq (Eventually.of_forall fun s => ?_)
      show (realX e).log1p (f s) = Real.log (1 + f s)
      rw [realX_log1p]
  · have hd : (dualX (realX e)).log1p a =
        (dualX (realX e)).div ((dualX (realX e)).mul ((dualX (realX e)).log ((dualX (realX e)).add (dualX (realX e)).one a)) a)
          ((dualX (realX e)).sub ((dualX (realX e)).add (dualX (realX e)).one a) (dualX (realX e)).one) := by
      unfold XOps.log1p
      have hc : ¬ ((1:ℝ) + a.1 ≤ 1 ∧ 1 ≤ 1 + a.1) := by
        rintro ⟨h1, h2⟩; exact hz (by linarith)
      have : (decide ((1:ℝ) + a.1 ≤ 1) && decide ((1:ℝ) ≤ 1 + a.1)) = false := by simpa using hc
      simp only [d_add, d_one, d_le, this, Bool.false_eq_true, if_false]
    rw [hd]
    have hu := IsDual.add e (IsDual.one e t) ha
    refine (IsDual.div e (IsDual.mul e (IsDual.log e hu ?_) ha) (IsDual.sub e hu (IsDual.one e t)) ?_).congr_fun
      (fun s => log1p_else_eq e (f s))
    · simpa only [d_add, d_one] using h0
    · simp only [d_add, d_one, d_sub]
      intro h; exact hz (by linarith)

theorem d_log1p_val (a : ℝ × ℝ) : ((dualX (realX e)).log1p a).1 = (realX e).log1p a.1 := by
  unfold XOps.log1p
  simp only [d_add, d_one, d_le, realX_add, realX_one, realX_le]
  split_ifs
  · rfl
  · simp only [d_div, d_mul, d_log, d_sub, realX_div, realX_mul, realX_log, realX_sub]

/-- `F.softplus(x, beta, threshold = 20)`: side conditions `β x ≠ 20` (the threshold, where the two branches of the code
    differ by `log1p (e^{20}) / β − x ≠ 0`, a jump) and `β ≠ 0` below it -/
theorem IsDual.softplusB {β : ℝ → ℝ} {bd : ℝ × ℝ} (hβ : IsDual β t bd) (ha : IsDual f t a)
    (hthr : bd.1 * a.1 ≠ 20) (hb0 : bd.1 * a.1 < 20 → bd.1 ≠ 0) :
    IsDual (fun s => (realX e).softplusB (β s) (f s)) t ((dualX (realX e)).softplusB bd a) := by
  have hbx := IsDual.mul e hβ ha
  refine IsDual.ite_lt e (IsDual.ofRat e 20 1 t) hbx ?_ (fun _ => ha) (fun h => ?_)
  · rw [d_ofRat]; simp only [d_mul]; norm_num; exact Ne.symm hthr
  · refine IsDual.div e (IsDual.log1p e (IsDual.exp e hbx) ?_) hβ (hb0 ?_)
    · simp only [d_exp, d_mul]; positivity
    · rw [d_ofRat] at h; simp only [d_mul] at h; norm_num at h; exact h

/-- `F.softplus(x)`: side condition `x ≠ 20` -/
theorem IsDual.softplus (ha : IsDual f t a) (hthr : a.1 ≠ 20) :
    IsDual (fun s => (realX e).softplus (f s)) t ((dualX (realX e)).softplus a) :=
  IsDual.softplusB e (IsDual.one e t) ha (by rw [d_one]; simpa using hthr) (fun _ => by rw [d_one]; norm_num)

/-- `min`, away from the tie (at a tie the code returns its FIRST argument with that argument's tangent) -/
theorem IsDual.minA (ha : IsDual f t a) (hb : IsDual g t b) (hne : a.1 ≠ b.1) :
    IsDual (fun s => (realX e).minA (f s) (g s)) t ((dualX (realX e)).minA a b) :=
  IsDual.ite_lt e hb ha (Ne.symm hne) (fun _ => hb) (fun _ => ha)

/-- `max`, away from the tie (at a tie the code returns its FIRST argument with that argument's tangent) -/
theorem IsDual.maxA (ha : IsDual f t a) (hb : IsDual g t b) (hne : a.1 ≠ b.1) :
    IsDual (fun s => (realX e).maxA (f s) (g s)) t ((dualX (realX e)).maxA a b) :=
  IsDual.ite_lt e ha hb hne (fun _ => hb) (fun _ => ha)

theorem d_minA_val (a b : ℝ × ℝ) : ((dualX (realX e)).minA a b).1 = min a.1 b.1 := by
  unfold XOps.minA
  simp only [d_lt, decide_eq_true_eq]
  split_ifs with h
  · exact (min_eq_right h.le).symm
  · exact (min_eq_left (not_lt.mp h)).symm

theorem d_maxA_val (a b : ℝ × ℝ) : ((dualX (realX e)).maxA a b).1 = max a.1 b.1 := by
  unfold XOps.maxA
  simp only [d_lt, decide_eq_true_eq]
  split_ifs with h
  · exact (max_eq_right h.le).symm
  · exact (max_eq_left (not_lt.mp h)).symm

/-- `clamp lo hi x = min (max x lo) hi`, away from the two ties `x = lo` and `max x lo = hi`.  (At the ties the rule
    passes the tangent of `x` through — see `clamp_at_lo`, `clamp_at_hi`; `torch.clamp` with scalar bounds returns
    gradient `0` there, with tensor bounds `½`: a convention at a kink, excluded here.) -/
theorem IsDual.clamp {lo hi : ℝ → ℝ} {dlo dhi : ℝ × ℝ} (hlo : IsDual lo t dlo) (hhi : IsDual hi t dhi) (ha : IsDual f t a)
    (h1 : a.1 ≠ dlo.1) (h2 : max a.1 dlo.1 ≠ dhi.1) :
    IsDual (fun s => (realX e).clamp (lo s) (hi s) (f s)) t ((dualX (realX e)).clamp dlo dhi a) :=
  IsDual.minA e (IsDual.maxA e ha hlo h1) hhi (by rw [d_maxA_val]; exact h2)

/-- `sign`, away from `0`: locally constant -/
theorem IsDual.sign (ha : IsDual f t a) (h0 : a.1 ≠ 0) :
    IsDual (fun s => (realX e).sign (f s)) t ((dualX (realX e)).sign a) :=
  IsDual.ite_lt e (IsDual.zero e t) ha (by rw [d_zero]; exact Ne.symm h0) (fun _ => IsDual.one e t)
    (fun _ => IsDual.ite_lt e ha (IsDual.zero e t) (by rw [d_zero]; exact h0)
      (fun _ => IsDual.neg e (IsDual.one e t)) (fun _ => IsDual.zero e t))

/-- the value component of every dual operation is the real operation on value components -/
theorem d_val_table (a b : ℝ × ℝ) :
    ((dualX (realX e)).add a b).1 = (realX e).add a.1 b.1 ∧ ((dualX (realX e)).sub a b).1 = (realX e).sub a.1 b.1 ∧
    ((dualX (realX e)).mul a b).1 = (realX e).mul a.1 b.1 ∧ ((dualX (realX e)).div a b).1 = (realX e).div a.1 b.1 ∧
    ((dualX (realX e)).neg a).1 = (realX e).neg a.1 ∧ ((dualX (realX e)).exp a).1 = (realX e).exp a.1 ∧
    ((dualX (realX e)).log a).1 = (realX e).log a.1 ∧ ((dualX (realX e)).sqrt a).1 = (realX e).sqrt a.1 ∧
    ((dualX (realX e)).tanh a).1 = (realX e).tanh a.1 ∧ ((dualX (realX e)).atan a).1 = (realX e).atan a.1 ∧
    ((dualX (realX e)).tan a).1 = (realX e).tan a.1 ∧ ((dualX (realX e)).cos a).1 = (realX e).cos a.1 ∧
    ((dualX (realX e)).sin a).1 = (realX e).sin a.1 ∧ ((dualX (realX e)).atan2 a b).1 = (realX e).atan2 a.1 b.1 ∧
    ((dualX (realX e)).abs a).1 = (realX e).abs a.1 ∧ ((dualX (realX e)).floor a).1 = (realX e).floor a.1 ∧
    ((dualX (realX e)).nextUp a).1 = (realX e).nextUp a.1 ∧
    (dualX (realX e)).lt a b = (realX e).lt a.1 b.1 ∧ (dualX (realX e)).le a b = (realX e).le a.1 b.1 :=
  ⟨rfl, rfl, rfl, rfl, rfl, rfl, rfl, rfl, rfl, rfl, rfl, rfl, rfl, rfl, rfl, rfl, rfl, rfl, rfl⟩

/-! ### what the rules return AT the kinks (conventions; the `IsDual` lemmas above exclude these points) -/

/-- at the lower tie `x = lo < hi` the dual `clamp` passes the tangent of `x` through -/
theorem clamp_at_lo (lo hi x' : ℝ) (h : lo < hi) :
    (dualX (realX e)).clamp (lo, 0) (hi, 0) (lo, x') = (lo, x') := by
  unfold XOps.clamp XOps.minA XOps.maxA
  simp only [d_lt, lt_irrefl, decide_false, Bool.false_eq_true, if_false, decide_eq_true_eq, if_neg (not_lt.mpr h.le)]

/-- at the upper tie `lo < x = hi` the dual `clamp` passes the tangent of `x` through -/
theorem clamp_at_hi (lo hi x' : ℝ) (h : lo < hi) :
    (dualX (realX e)).clamp (lo, 0) (hi, 0) (hi, x') = (hi, x') := by
  unfold XOps.clamp XOps.minA XOps.maxA
  simp only [d_lt, decide_eq_true_eq, if_neg (not_lt.mpr h.le), lt_irrefl, if_false]

/-- at a tie `min`/`max` return their FIRST argument with its tangent (two-tensor `torch.min` splits the gradient ½/½) -/
theorem minA_at_tie (v a' b' : ℝ) : (dualX (realX e)).minA (v, a') (v, b') = (v, a') := by
  unfold XOps.minA
  simp only [d_lt, lt_irrefl, decide_false, Bool.false_eq_true, if_false]
theorem maxA_at_tie (v a' b' : ℝ) : (dualX (realX e)).maxA (v, a') (v, b') = (v, a') := by
  unfold XOps.maxA
  simp only [d_lt, lt_irrefl, decide_false, Bool.false_eq_true, if_false]

/-- `|·|` at `0`: tangent `0` (torch's `sgn(0) = 0`) -/
theorem abs_at_zero (x' : ℝ) : (dualX (realX e)).abs (0, x') = (0, 0) := by
  rw [d_abs, realX_sign]; simp

end
end DualX
