import NflowsModel.Lemmas.DualXFlowStages
import NflowsModel.Lemmas.DualXTails
import NflowsModel.Lemmas.StructureExecRQTails
import Mathlib.Tactic
/-!
# Lemmas/DualXFlowSpline — coupling layers whose element is sound only on a set, as stages of a flow on dual numbers (C16)

* `tRow_dual_on`, `couplingStage_on_key`, `dualSoundOn_couplingStage_of_el`: the `On` analogue of
  `DualXFlowStages.dualSound_couplingStage_of_el`: the executed forward `couplingStage` with a dual-sound conditioner and an
  element family that is dual sound (and never raising) for the elements satisfying `Q` is a `DualSoundStageOn` the set
  `CouplingAdm` of dual inputs all of whose executed elements (row `b < B`, transform position, spatial position; parameters =
  the dual conditioner output) satisfy `Q`; on that set the dual stage is accepted (`couplingStage_on_key`).
* `tails_unfold_dualP`, `rqSplineTails_dual_param_curve`: the executed RQ spline WITH LINEAR TAILS on dual numbers, every
  unnormalised parameter and the input moving along any curve differentiable at `t` (input in a tail or strictly inside a bin;
  no PADDED unnormalised derivative on the softplus threshold) — the parameter-direction form `Lemmas/DualXTails.lean` lacks.
* `elTransform_rqTails_dual`, `couplingEl_rqTails_rel`, `dualSound_couplingStage_rqTails`: the element of the coupling layer
  (`kind = "rq"`, `tails = true`) and the layer as a `DualSoundStageOn (CouplingAdm … (TailsQ e c S))`.
* `flowLogProbExec_dual_on`, `flow_logprob_dual_sound_on`: `Flow.log_prob` over a cascade of `DualSoundStageOn` stages,
  acceptance at EVERY `s` (the `On` form of `flow_logprob_dual_sound` / `flow_logprob_dual_sound_near`).
* `flow_rq_coupling_logprob_dual_sound`: the flow `[ActNorm, LULinear, RQ-tails coupling]` with the conditioner `affNet`.
* `netEx`, `couplingAdm_example` and the closing `example`: width 2, mask `(0, 1)`, `K = 2`, explicit numbers.
-/
open NF DualSound DualX DualXLU Filter Topology NF.Density NF.FlowRowsExec NF.StageMore NF.Norm LinearFresh
  NF.RowIndependenceMore NonlinExec DualXFlow DualXFlowStages

namespace DualXFlowSpline
noncomputable section

variable {e : Float → ℝ} {t : ℝ}

/-- the admissible dual inputs of a coupling stage: every executed element `(b, tp, sp)` — input entry read from `dX`,
    parameters the dual conditioner output — satisfies the element predicate `Q Ft b tp sp dP dx` -/
def CouplingAdm (e : Float → ℝ) (dmask : List (ℝ × ℝ)) (S : ℕ)
    (netD : ℕ → Array (ℝ × ℝ) → Array (ℝ × ℝ) → Array (ℝ × ℝ))
    (Q : ℕ → ℕ → ℕ → ℕ → Array (ℝ × ℝ) → ℝ × ℝ → Prop) (B : ℕ) (dX dc : Array (ℝ × ℝ)) : Prop :=
  ∀ b ∈ List.range B, ∀ p ∈ rowIter (transformIdx (DX e) dmask).length S,
    Q (transformIdx (DX e) dmask).length b p.1 p.2
      (netD B (gatherCh dX B dmask.length S (identityIdx (DX e) dmask) (DX e).zero) dc)
      (dX.getD (flatIdx dmask.length S b ((transformIdx (DX e) dmask).getD p.1 0) p.2) (DX e).zero)

theorem tRow_dual_on (C S : ℕ) (idx : List ℕ) {X : ℝ → Array ℝ} {dX : Array (ℝ × ℝ)} (b : ℕ)
    (elR : ℝ → ℕ → ℕ → ℝ → ElRes ℝ) (elD : ℕ → ℕ → ℝ × ℝ → ElRes (ℝ × ℝ))
    (hel : ∀ p ∈ rowIter idx.length S,
      RelEl t (fun s => elR s p.1 p.2 ((X s).getD (flatIdx C S b (idx.getD p.1 0) p.2) (RX e).zero))
        (elD p.1 p.2 (dX.getD (flatIdx C S b (idx.getD p.1 0) p.2) (DX e).zero))) :
    DL (RelUpd t) (fun s => tRow (RX e) C S idx (X s) (elR s) b) (tRow (DX e) C S idx dX elD b) := by
  unfold tRow
  refine DL.ofMap _ _ _ ?_
  rintro ⟨tp, sp⟩ hm
  exact ⟨fun _ => rfl, hel (tp, sp) hm⟩

variable (e) in
/-- on the admissible set the dual coupling stage IS accepted, the real stage is accepted at every `s`, and the dual outputs are
    (value, derivative at `t`) of the real outputs -/
theorem couplingStage_on_key (c : ElCfg) (dmask : List (ℝ × ℝ)) (S : ℕ)
    (Q : ℕ → ℕ → ℕ → ℕ → Array (ℝ × ℝ) → ℝ × ℝ → Prop)
    (hel : ∀ (Ft b tp sp : ℕ) (P : ℝ → Array ℝ) (dP : Array (ℝ × ℝ)) (fx : ℝ → ℝ) (dx : ℝ × ℝ), DA t P dP → IsDual fx t dx →
      Q Ft b tp sp dP dx →
      RelEl t (fun s => couplingEl (RX e) c Ft S (P s) false b tp sp (fx s)) (couplingEl (DX e) c Ft S dP false b tp sp dx))
    {netR : ℝ → ℕ → Array ℝ → Array ℝ → Array ℝ} {netD : ℕ → Array (ℝ × ℝ) → Array (ℝ × ℝ) → Array (ℝ × ℝ)}
    (hnet : DualSoundNet t netR netD)
    (B : ℕ) (X c' : ℝ → Array ℝ) (dX dc : Array (ℝ × ℝ)) (hadm : CouplingAdm e dmask S netD Q B dX dc)
    (hX : DA t X dX) (hc : DA t c' dc) :
    ∃ (Y : ℝ → Array ℝ) (L : ℝ → List ℝ) (dY : Array (ℝ × ℝ)) (dL : List (ℝ × ℝ)),
      couplingStage (dualX (NF.realX e)) c dmask S false none #[] netD B dX dc = .ok (dY, dL) ∧
      (∀ s, couplingStage (NF.realX e) c (dmask.map Prod.fst) S false none #[] (netR s) B (X s) (c' s) = .ok (Y s, L s)) ∧
      DA t Y dY ∧ DV t L dL := by
  have hlen : (dmask.map Prod.fst).length = dmask.length := List.length_map _
  have hI := identityIdx_dual (e := e) dmask
  have hT := DualXCoupling.transformIdx_dual (e := e) dmask
  have hG := gatherCh_dual (e := e) B dmask.length S (identityIdx (DX e) dmask) hX
  have hP := hnet.sound B _ c' _ dc hG hc
  have hrows : ∀ b ∈ List.range B, DL (RelUpd t)
      (fun s => condRow (RX e) c dmask.length S (transformIdx (DX e) dmask) (X s)
        (netR s B (gatherCh (X s) B dmask.length S (identityIdx (DX e) dmask) (RX e).zero) (c' s)) false b)
      (condRow (DX e) c dmask.length S (transformIdx (DX e) dmask) dX
        (netD B (gatherCh dX B dmask.length S (identityIdx (DX e) dmask) (DX e).zero) dc) false b) := fun b hb => by
    unfold condRow
    exact tRow_dual_on _ _ _ b _ _
      (fun p hp => hel _ b p.1 p.2 _ _ _ _ hP (entryA_dual hX _) (hadm b hb p hp))
  have hall := DL.ofFlatMap (List.range B) _ _ hrows
  obtain ⟨hE1, hE2⟩ := firstErr_none_of_rel (DL.snd hall)
  refine ⟨_, _, _, _, ?_, fun s => ?_, applyUpd_dual hall hX,
    DL.ofMap (List.range B) _ _ (fun b hb => ldFold_dual (e := e) (DL.snd (hrows b hb)))⟩
  · rw [couplingStage_none_fwd]
    exact ofT_mk_none hE1
  · rw [couplingStage_none_fwd]
    simp only [hlen, ← hI, ← hT]
    exact ofT_mk_none (hE2 s)

variable (e) in
/-- **the `On` analogue of `dualSound_couplingStage_of_el`** -/
theorem dualSoundOn_couplingStage_of_el (c : ElCfg) (dmask : List (ℝ × ℝ)) (S : ℕ)
    (Q : ℕ → ℕ → ℕ → ℕ → Array (ℝ × ℝ) → ℝ × ℝ → Prop)
    (hel : ∀ (Ft b tp sp : ℕ) (P : ℝ → Array ℝ) (dP : Array (ℝ × ℝ)) (fx : ℝ → ℝ) (dx : ℝ × ℝ), DA t P dP → IsDual fx t dx →
      Q Ft b tp sp dP dx →
      RelEl t (fun s => couplingEl (RX e) c Ft S (P s) false b tp sp (fx s)) (couplingEl (DX e) c Ft S dP false b tp sp dx))
    {netR : ℝ → ℕ → Array ℝ → Array ℝ → Array ℝ} {netD : ℕ → Array (ℝ × ℝ) → Array (ℝ × ℝ) → Array (ℝ × ℝ)}
    (hnet : DualSoundNet t netR netD) :
    DualSoundStageOn t (CouplingAdm e dmask S netD Q)
      (fun s => couplingStage (NF.realX e) c (dmask.map Prod.fst) S false none #[] (netR s))
      (couplingStage (dualX (NF.realX e)) c dmask S false none #[] netD) := by
  have key := couplingStage_on_key e c dmask S Q hel hnet
  constructor
  · intro B X c' dX dc dY dL hadm hX hc h
    obtain ⟨Y, L, dY', dL', h1, h2, h3, h4⟩ := key B X c' dX dc hadm hX hc
    rw [h1] at h
    simp only [Except.ok.injEq, Prod.mk.injEq] at h
    obtain ⟨rfl, rfl⟩ := h
    exact ⟨Y, L, h2, h3, h4⟩
  · intro B X c' dX dc err hadm hX hc h
    obtain ⟨Y, L, dY', dL', h1, _⟩ := key B X c' dX dc hadm hX hc
    rw [h1] at h
    cases h

/-! ## the executed RQ spline with linear tails on dual numbers, EVERY parameter moving -/

section tails
open RQWhole TailsWhole DualXParam

variable {tb minW minH minD beta : Float}

/-- the dual tails program with arbitrary dual parameter lists: the guard sees the value component only -/
theorem tails_unfold_dualP (dW dH dD : List (ℝ × ℝ)) (inverse : Bool) (z : ℝ × ℝ) :
    rqSplineTails (dualX (NF.realX e)) tb minW minH minD beta dW dH dD inverse z
      = if -e tb ≤ z.1 ∧ z.1 ≤ e tb then
          rqSpline (dualX (NF.realX e)) (cfgT tb minW minH minD beta) dW dH
            ((cstT e minD, 0) :: (dD ++ [(cstT e minD, 0)])) inverse z
        else .ok (z, (0, 0)) := by
  unfold rqSplineTails
  simp only [XOps.ge, d_le, d_neg, d_ofFloat, Bool.and_eq_true, decide_eq_true_eq, d_zero, cstT]
  rfl

theorem udT_dualL {FD : ℝ → List ℝ} {dD : List (ℝ × ℝ)} (hD : IsDualL FD t dD) :
    IsDualL (fun s => udT e minD (FD s)) t ((cstT e minD, 0) :: (dD ++ [(cstT e minD, 0)])) := by
  unfold udT
  exact IsDualL.cons (IsDual.const _ t) (IsDualL.append hD (IsDualL.cons (IsDual.const _ t) (IsDualL.nil t)))

/-- **the executed RQ-tails forward program on dual numbers, every parameter and the input moving along any curve
    differentiable at `t`**: for an input outside `[-B, B]` or strictly inside a bin (at `t`), no padded derivative parameter
    on the softplus threshold. -/
theorem rqSplineTails_dual_param_curve {FW FH FD : ℝ → List ℝ} {FX : ℝ → ℝ} {dW dH dD : List (ℝ × ℝ)} {dx : ℝ × ℝ}
    (hW : IsDualL FW t dW) (hH : IsDualL FH t dH) (hD : IsDualL FD t dD) (hX : IsDual FX t dx)
    (hv : RQTailsValid e tb minW minH minD beta (FW t) (FH t) (FD t))
    (hthr : ∀ k < (udT e minD (FD t)).length, e beta * (udT e minD (FD t)).getD k 0 ≠ 20)
    (hpos : (FX t < -e tb ∨ e tb < FX t) ∨
      ∃ k, k < (FW t).length ∧ xs e (cfgT tb minW minH minD beta) (FW t) k < FX t ∧
        FX t < xs e (cfgT tb minW minH minD beta) (FW t) (k+1)) :
    ∃ v' l' : ℝ, rqSplineTails (dualX (NF.realX e)) tb minW minH minD beta dW dH dD false dx
        = .ok ((valT e tb minW minH minD beta (FW t) (FH t) (FD t) (FX t), v'),
               (ldT e tb minW minH minD beta (FW t) (FH t) (FD t) (FX t), l')) ∧
      HasDerivAt (fun s => valT e tb minW minH minD beta (FW s) (FH s) (FD s) (FX s)) v' t ∧
      HasDerivAt (fun s => ldT e tb minW minH minD beta (FW s) (FH s) (FD s) (FX s)) l' t := by
  have hc := hX.2.continuousAt
  obtain ⟨x, x'⟩ := dx
  have hx : x = FX t := hX.1
  rcases hpos with hout | ⟨k, hk, h0, h1⟩
  · have hn : ¬ (-e tb ≤ x ∧ x ≤ e tb) := by
      rw [hx]; rintro ⟨a, b⟩; rcases hout with h | h <;> linarith
    have hev : ∀ᶠ s in 𝓝 t, FX s < -e tb ∨ e tb < FX s := by
      rcases hout with h | h
      · exact (hc.eventually (gt_mem_nhds h)).mono fun s hs => Or.inl hs
      · exact (hc.eventually (lt_mem_nhds h)).mono fun s hs => Or.inr hs
    refine ⟨x', 0, ?_, ?_, ?_⟩
    · rw [tails_unfold_dualP, if_neg hn, (valT_outside (FX t) hout).1, (valT_outside (FX t) hout).2, hx]
    · exact hX.2.congr_of_eventuallyEq (hev.mono fun s hs => (valT_outside (FX s) hs).1)
    · exact (hasDerivAt_const t (0:ℝ)).congr_of_eventuallyEq (hev.mono fun s hs => (valT_outside (FX s) hs).2)
  · have hx0 : -e tb < FX t := lt_of_le_of_lt (knot_mem hv k hk.le).1 h0
    have hx1 : FX t < e tb := lt_of_lt_of_le h1 (knot_mem hv (k+1) hk).2
    obtain ⟨v', l', hrun, hy, hl⟩ := rqSpline_dual_param_curve (c := cfgT tb minW minH minD beta) hW hH
      (udT_dualL (minD := minD) hD) hX hv.inner hthr k hk h0 h1
    have hev : ∀ᶠ s in 𝓝 t, -e tb ≤ FX s ∧ FX s ≤ e tb :=
      ((hc.eventually (lt_mem_nhds hx0)).and (hc.eventually (gt_mem_nhds hx1))).mono fun s hs => ⟨hs.1.le, hs.2.le⟩
    refine ⟨v', l', ?_, ?_, ?_⟩
    · rw [tails_unfold_dualP, if_pos ⟨by rw [hx]; exact hx0.le, by rw [hx]; exact hx1.le⟩, hrun,
        (valT_inside (FX t) hx0.le hx1.le).1, (valT_inside (FX t) hx0.le hx1.le).2]
    · exact hy.congr_of_eventuallyEq (hev.mono fun s hs => (valT_inside (FX s) hs.1 hs.2).1)
    · exact hl.congr_of_eventuallyEq (hev.mono fun s hs => (valT_inside (FX s) hs.1 hs.2).2)

end tails

/-! ## one element of the executed coupling layer (`kind = "rq"`, `tails = true`), and the layer as a stage -/

section element
open RQWhole TailsWhole DualXParam NF.StructureExec DualXCoupling

theorem DA.isDualA {P : ℝ → Array ℝ} {dP : Array (ℝ × ℝ)} (h : DA t P dP) : IsDualA P t dP :=
  ⟨fun s => DL.length h s, fun k _ => DL.getD' h k (f₀ := fun _ => (0:ℝ)) (d₀ := ((0:ℝ), (0:ℝ))) (IsDual.const 0 t)⟩

/-- the admissible (parameter row, input) pairs of one RQ-tails element: no PADDED derivative parameter (the two padding
    constants included) on the softplus threshold `β·u = 20`, and the input outside `[-B, B]` or strictly inside a bin -/
def TailsElAdm (e : Float → ℝ) (c : ElCfg) (p : List ℝ) (x : ℝ) : Prop :=
  (∀ k < (udT e (tMD c) (rqD c p)).length, e (tBe c) * (udT e (tMD c) (rqD c p)).getD k 0 ≠ 20) ∧
  ((x < -e (tTb c) ∨ e (tTb c) < x) ∨
    ∃ k, k < (rqW (NF.realX e) c p).length ∧
      xs e (cfgT (tTb c) (tMW c) (tMH c) (tMD c) (tBe c)) (rqW (NF.realX e) c p) k < x ∧
      x < xs e (cfgT (tTb c) (tMW c) (tMH c) (tMD c) (tBe c)) (rqW (NF.realX e) c p) (k+1))

/-- the two real outputs of the element -/
def tY (e : Float → ℝ) (c : ElCfg) (p : List ℝ) (x : ℝ) : ℝ :=
  valT e (tTb c) (tMW c) (tMH c) (tMD c) (tBe c) (rqW (NF.realX e) c p) (rqH (NF.realX e) c p) (rqD c p) x
def tL (e : Float → ℝ) (c : ElCfg) (p : List ℝ) (x : ℝ) : ℝ :=
  ldT e (tTb c) (tMW c) (tMH c) (tMD c) (tBe c) (rqW (NF.realX e) c p) (rqH (NF.realX e) c p) (rqD c p) x

/-- **chain rule through one executed RQ-tails element**, parameter row and input moving along any curves -/
theorem elTransform_rqTails_dual {c : ElCfg} (hc : RQTailsCfgValid e c) {P : ℝ → List ℝ} {FX : ℝ → ℝ} {dp : List (ℝ × ℝ)}
    {dx : ℝ × ℝ} (hP : IsDualL P t dp) (hlen : (P t).length = 3 * c.K - 1) (hX : IsDual FX t dx)
    (hin : TailsElAdm e c (P t) (FX t)) :
    ∃ y' l' : ℝ, elTransform (dualX (NF.realX e)) c false dp dx
        = .ok ((tY e c (P t) (FX t), y'), (tL e c (P t) (FX t), l'), []) ∧
      HasDerivAt (fun s => tY e c (P s) (FX s)) y' t ∧ HasDerivAt (fun s => tL e c (P s) (FX s)) l' t := by
  obtain ⟨y', l', hrun, hy, hl⟩ := rqSplineTails_dual_param_curve (tb := tTb c) (minW := tMW c) (minH := tMH c)
    (minD := tMD c) (beta := tBe c) (rqW_dualL (e := e) c hP) (rqH_dualL (e := e) c hP) (rqD_dualL c hP) hX
    (rqTailsSliceValid_of_cfg hc (P t) hlen) hin.1 hin.2
  refine ⟨y', l', ?_, hy, hl⟩
  rw [TailsWhole.elTransform_rq_tails _ c hc.hk hc.ht, hrun]
  rfl

variable (e) in
/-- one conditional element of the RQ-tails coupling layer against its dual run -/
theorem couplingEl_rqTails_rel {c : ElCfg} (hc : RQTailsCfgValid e c) (Ft S b tp sp : ℕ) {P : ℝ → Array ℝ}
    {dP : Array (ℝ × ℝ)} {fx : ℝ → ℝ} {dx : ℝ × ℝ} (hP : DA t P dP) (hx : IsDual fx t dx)
    (hin : TailsElAdm e c ((condSlice (DX e) c.mult Ft S dP b tp sp).map Prod.fst) dx.1) :
    RelEl t (fun s => couplingEl (RX e) c Ft S (P s) false b tp sp (fx s)) (couplingEl (DX e) c Ft S dP false b tp sp dx) := by
  have hk1 : c.kind ≠ "affine" := by rw [hc.hk]; decide
  have hk2 : c.kind ≠ "additive" := by rw [hc.hk]; decide
  have hS := condSlice_dualL (e := e) (DA.isDualA hP) c.mult Ft S b tp sp
  have hlen : ∀ s, (condSlice (NF.realX e) c.mult Ft S (P s) b tp sp).length = 3 * c.K - 1 := fun s => by
    rw [condSlice_length, mult_rq_tails hc.hk hc.ht]
  rw [hS.map_fst, hx.1] at hin
  obtain ⟨y', l', hrun, hy, hl⟩ := elTransform_rqTails_dual hc hS (hlen t) hx hin
  refine ⟨fun s => tY e c (condSlice (NF.realX e) c.mult Ft S (P s) b tp sp) (fx s),
    fun s => tL e c (condSlice (NF.realX e) c.mult Ft S (P s) b tp sp) (fx s), fun _ => [],
    (tY e c (condSlice (NF.realX e) c.mult Ft S (P t) b tp sp) (fx t), y'),
    (tL e c (condSlice (NF.realX e) c.mult Ft S (P t) b tp sp) (fx t), l'), [], fun s => ?_, ?_,
    ⟨rfl, hy⟩, ⟨rfl, hl⟩⟩
  · show couplingEl (RX e) c Ft S (P s) false b tp sp (fx s) = _
    rw [couplingEl_spline _ c S (P s) false hk1 hk2]
    exact (rqTails_el_total e c hc.hk hc.ht _ (rqTailsSliceValid_of_cfg hc _ (hlen s)) (fx s)).1
  · rw [couplingEl_spline _ c S dP false hk1 hk2]
    exact hrun

/-- the element predicate of the RQ-tails coupling stage -/
def TailsQ (e : Float → ℝ) (c : ElCfg) (S : ℕ) : ℕ → ℕ → ℕ → ℕ → Array (ℝ × ℝ) → ℝ × ℝ → Prop :=
  fun Ft b tp sp dP dx => TailsElAdm e c ((condSlice (DX e) c.mult Ft S dP b tp sp).map Prod.fst) dx.1

variable (e) in
/-- **HEADLINE: the executed forward coupling stage with RQ-linear-tails elements and any dual-sound conditioner is dual sound
    (never raising, accepted at EVERY `s`) on the admissible set**: every executed element has its input outside `[-B, B]` or
    strictly inside a bin of the knots computed from the conditioner's output (not ON a knot; `±B` are the first / last knot),
    and no padded unnormalised derivative on the softplus threshold. -/
theorem dualSound_couplingStage_rqTails {c : ElCfg} (hc : RQTailsCfgValid e c) (dmask : List (ℝ × ℝ)) (S : ℕ)
    {netR : ℝ → ℕ → Array ℝ → Array ℝ → Array ℝ} {netD : ℕ → Array (ℝ × ℝ) → Array (ℝ × ℝ) → Array (ℝ × ℝ)}
    (hnet : DualSoundNet t netR netD) :
    DualSoundStageOn t (CouplingAdm e dmask S netD (TailsQ e c S))
      (fun s => couplingStage (NF.realX e) c (dmask.map Prod.fst) S false none #[] (netR s))
      (couplingStage (dualX (NF.realX e)) c dmask S false none #[] netD) :=
  dualSoundOn_couplingStage_of_el e c dmask S (TailsQ e c S)
    (fun Ft b tp sp _ _ _ _ hP hx hQ => couplingEl_rqTails_rel e hc Ft S b tp sp hP hx hQ) hnet

end element

/-! ## `Flow._log_prob` over stages that are dual sound ON A SET: acceptance at every `s` -/

section flow

/-- **`Flow._log_prob` on dual numbers with a transform that is dual sound on a set** (no embedding net): on admissible inputs,
    if the dual run returns `dlps` the real run is accepted at EVERY `s` and its rows are curves whose (value, derivative) at `t`
    are the entries of `dlps`; if the dual run raises, the real run raises the same exception at every `s`. -/
theorem flowLogProbExec_dual_on (w : ℕ) {P : ℕ → Array (ℝ × ℝ) → Array (ℝ × ℝ) → Prop} {S : ℝ → BStage ℝ}
    {D : BStage (ℝ × ℝ)} {bR : ℝ → BaseD ℝ} {bD : BaseD (ℝ × ℝ)} (hT : DualSoundStageOn t P S D) (hb : DualSoundBase t bR bD)
    (B : ℕ) {X ctx : ℝ → Array ℝ} {dX dctx : Array (ℝ × ℝ)} (hX : DA t X dX) (hc : DA t ctx dctx) (hP : P B dX dctx) :
    (∀ dlps, flowLogProbExec (dualX (NF.realX e)) w (fun _ a => a) D bD B dX dctx = .ok dlps →
      ∃ lps : ℝ → List ℝ,
        (∀ s, flowLogProbExec (NF.realX e) w (fun _ a => a) (S s) (bR s) B (X s) (ctx s) = .ok (lps s)) ∧
        (∀ s, (lps s).length = dlps.length) ∧
        ∀ i, (dlps.getD i (0, 0)).1 = (lps t).getD i 0 ∧ HasDerivAt (fun s => (lps s).getD i 0) (dlps.getD i (0, 0)).2 t) ∧
    (∀ err, flowLogProbExec (dualX (NF.realX e)) w (fun _ a => a) D bD B dX dctx = .error err →
      ∀ s, flowLogProbExec (NF.realX e) w (fun _ a => a) (S s) (bR s) B (X s) (ctx s) = .error err) := by
  cases hD : D B dX dctx with
  | error err0 =>
    have hR := hT.raises B X _ dX _ err0 hP hX hc hD
    refine ⟨fun dlps h => ?_, fun err h s => ?_⟩
    · rw [flow_of_T_error (emb := fun _ a => a) _ hD] at h; cases h
    · rw [flow_of_T_error (emb := fun _ a => a) _ hD] at h
      rw [flow_of_T_error (emb := fun _ a => a) _ (hR s)]
      cases h; rfl
  | ok p =>
    obtain ⟨dz, dld⟩ := p
    obtain ⟨Z, L, hS, hZ, hL⟩ := hT.ok B X _ dX _ dz dld hP hX hc hD
    have hrows := rowsOf_dual w B hZ
    cases hB : bD B (rowsOf w B dz.toList) dctx with
    | error err0 =>
      have hR := hb.raises B _ _ _ _ err0 hrows hc hB
      refine ⟨fun dlps h => ?_, fun err h s => ?_⟩
      · rw [flow_of_base_error (emb := fun _ a => a) _ hD hB] at h; cases h
      · rw [flow_of_base_error (emb := fun _ a => a) _ hD hB] at h
        rw [flow_of_base_error (emb := fun _ a => a) _ (hS s) (hR s)]
        cases h; rfl
    | ok dlp =>
      obtain ⟨lp, hlp, hlpd⟩ := hb.ok B _ _ _ _ dlp hrows hc hB
      refine ⟨fun dlps h => ?_, fun err h => ?_⟩
      · rw [flow_of_ok (emb := fun _ a => a) _ hD hB] at h
        simp only [Except.ok.injEq] at h
        subst h
        have hd : DV t (fun s => List.zipWith (NF.realX e).add (lp s) (L s)) (List.zipWith (dualX (NF.realX e)).add dlp dld) :=
          DL.zipWith' (fun _ => (NF.realX e).add) (dualX (NF.realX e)).add hlpd hL
          (fun _ _ _ _ ha hb => IsDual.add e ha hb)
        exact ⟨fun s => List.zipWith (NF.realX e).add (lp s) (L s),
          fun s => flow_of_ok (emb := fun _ a => a) _ (hS s) (hlp s), DL.length hd, fun i => DV.entry hd i⟩
      · rw [flow_of_ok (emb := fun _ a => a) _ hD hB] at h; cases h

variable (e) in
/-- **`Flow.log_prob` along straight lines for a `CompositeTransform` of stages dual sound on sets**, acceptance at every `s` -/
theorem flow_logprob_dual_sound_on (w : ℕ) {Ts : List NearTriple} (hT : ∀ T ∈ Ts, DualSoundStageOn 0 T.1 T.2.1 T.2.2)
    {bR : ℝ → BaseD ℝ} {bD : BaseD (ℝ × ℝ)} (hb : DualSoundBase 0 bR bD) (B : ℕ) (dX dctx : Array (ℝ × ℝ))
    (hP : cascadeP B dctx Ts dX) :
    (∀ dlps, flowLogProbExec (dualX (NF.realX e)) w (fun _ a => a) (compStage (dualX (NF.realX e)) (Ts.map fun T => T.2.2)) bD B
        dX dctx = .ok dlps →
      ∃ lps : ℝ → List ℝ,
        (∀ s, flowLogProbExec (NF.realX e) w (fun _ a => a) (compStage (NF.realX e) (Ts.map fun T => T.2.1 s))
          (bR s) B (lineA s dX) (lineA s dctx) = .ok (lps s)) ∧
        (∀ s, (lps s).length = dlps.length) ∧
        ∀ i, (dlps.getD i (0, 0)).1 = (lps 0).getD i 0 ∧ HasDerivAt (fun s => (lps s).getD i 0) (dlps.getD i (0, 0)).2 0) ∧
    (∀ err, flowLogProbExec (dualX (NF.realX e)) w (fun _ a => a) (compStage (dualX (NF.realX e)) (Ts.map fun T => T.2.2)) bD B
        dX dctx = .error err →
      ∀ s, flowLogProbExec (NF.realX e) w (fun _ a => a) (compStage (NF.realX e) (Ts.map fun T => T.2.1 s)) (bR s) B
        (lineA s dX) (lineA s dctx) = .error err) :=
  flowLogProbExec_dual_on (e := e) w (dualSoundOn_compStage e hT) hb B (lineA_dual dX) (lineA_dual dctx) hP

end flow

/-! ## `Flow.log_prob` of `[ActNorm, LULinear, RQ-tails coupling]` with an affine-map conditioner, every parameter moving -/

section rqflow
open NF.StructureExec

/-- the three stages with their admissible sets: `ActNorm` and `LULinear` are sound everywhere, the coupling on `CouplingAdm` -/
def rqTs (e : Float → ℝ) (w : ℕ) (ds : ActSt (ℝ × ℝ)) (dp : LF.LUParams (ℝ × ℝ)) (c : ElCfg) (dmask : List (ℝ × ℝ))
    (S win wout : ℕ) (dW : List (List (ℝ × ℝ))) (db : List (ℝ × ℝ)) : List NearTriple :=
  [(fun _ _ _ => True, fun s => actStage (NF.realX e) w (lineAct s ds), actStage (dualX (NF.realX e)) w ds),
   (fun _ _ _ => True, fun s => luStage (NF.realX e) w (lineP s dp), luStage (dualX (NF.realX e)) w dp),
   (CouplingAdm e dmask S (affNet (dualX (NF.realX e)) win wout dW db) (TailsQ e c S),
    fun s => couplingStage (NF.realX e) c (dmask.map Prod.fst) S false none #[]
      (affNet (NF.realX e) win wout (lineM s dW) (lineV s db)),
    couplingStage (dualX (NF.realX e)) c dmask S false none #[] (affNet (dualX (NF.realX e)) win wout dW db))]

variable (e) in
/-- **HEADLINE: the flow `[ActNorm, LULinear, PiecewiseRationalQuadraticCouplingTransform(tails="linear")]` with a
    standard-normal base, `log_prob` on dual numbers.**  Inputs, context, `log_scale`, `shift`, every `LULinear` tensor and the
    weights / bias of the coupling's conditioner `x_id ↦ W x_id + b` (which produces the unnormalised widths, heights and
    derivatives of every spline) move along `primal + s · tangent`.  On dual inputs admissible for the cascade (`cascadeP`: what
    the dual `LULinear` stage hands to the coupling has every transformed entry off the knots of its own spline, and no padded
    unnormalised derivative on the softplus threshold): if the dual run returns `dlps`, the real run is accepted at EVERY `s` and
    each entry of `dlps` is (real `log_prob` of the row, its derivative at `s = 0`); if the dual run raises, the real run raises
    the same exception at every `s`. -/
theorem flow_rq_coupling_logprob_dual_sound (w : ℕ) (ds : ActSt (ℝ × ℝ)) (dp : LF.LUParams (ℝ × ℝ)) {c : ElCfg}
    (hc : RQTailsCfgValid e c) (dmask : List (ℝ × ℝ)) (S win wout : ℕ) (dW : List (List (ℝ × ℝ))) (db : List (ℝ × ℝ))
    (hs : ds.initialized = true ∨ ds.training = false) (hthr : ∀ d ∈ dp.udiag, d.1 ≠ 20) (heps : 0 ≤ dp.eps.1)
    (shape inShape : List ℕ) (cf : Bool) (B : ℕ) (dX dctx : Array (ℝ × ℝ))
    (hP : cascadeP B dctx (rqTs e w ds dp c dmask S win wout dW db) dX) :
    let flowD := flowLogProbExec (dualX (NF.realX e)) w (fun _ a => a)
      (compStage (dualX (NF.realX e)) [actStage (dualX (NF.realX e)) w ds, luStage (dualX (NF.realX e)) w dp,
        couplingStage (dualX (NF.realX e)) c dmask S false none #[] (affNet (dualX (NF.realX e)) win wout dW db)])
      (fun B rows _ => stdNormalLogProb (dualX (NF.realX e)) shape inShape (ctxOf cf B) rows) B dX dctx
    let flowR := fun s : ℝ => flowLogProbExec (NF.realX e) w (fun _ a => a)
      (compStage (NF.realX e) [actStage (NF.realX e) w (lineAct s ds), luStage (NF.realX e) w (lineP s dp),
        couplingStage (NF.realX e) c (dmask.map Prod.fst) S false none #[]
          (affNet (NF.realX e) win wout (lineM s dW) (lineV s db))])
      (fun B rows _ => stdNormalLogProb (NF.realX e) shape inShape (ctxOf cf B) rows) B
        (lineA s dX) (lineA s dctx)
    (∀ dlps, flowD = .ok dlps → ∃ lps : ℝ → List ℝ, (∀ s, flowR s = .ok (lps s)) ∧ (∀ s, (lps s).length = dlps.length) ∧
      ∀ i, (dlps.getD i (0, 0)).1 = (lps 0).getD i 0 ∧ HasDerivAt (fun s => (lps s).getD i 0) (dlps.getD i (0, 0)).2 0) ∧
    (∀ err, flowD = .error err → ∀ s, flowR s = .error err) := by
  have hne : ∀ d ∈ dp.udiag, LF.softplus (Rr e) d.1 + dp.eps.1 ≠ 0 := fun d _ =>
    (add_pos_of_pos_of_nonneg (LFIndex.softplus_real_pos d.1) heps).ne'
  have hT : ∀ T ∈ rqTs e w ds dp c dmask S win wout dW db, DualSoundStageOn 0 T.1 T.2.1 T.2.2 := by
    intro T hT
    simp only [rqTs, List.mem_cons, List.not_mem_nil, or_false] at hT
    rcases hT with rfl | rfl | rfl
    · exact DualXFlowStages.DualSoundStage.on (dualSound_actStage e w (lineAct_curve ds) hs) _
    · exact DualXFlowStages.DualSoundStage.on (dualSound_luStage e w (lineP_curve dp) hthr hne) _
    · exact dualSound_couplingStage_rqTails e hc dmask S (dualSoundNet_affNet e win wout (lineM_dual dW) (lineV_dual db))
  exact flow_logprob_dual_sound_on e w hT (standard_normal_logprob_dual_sound e shape inShape cf) B dX dctx hP

end rqflow

/-! ## non-vacuity: width 2, mask `(0, 1)`, `K = 2` bins, tail bound 1 (`cT2`), conditioner `x₀ ↦ (a,b,p,q,r)·s·x₀ + bias` -/

section witness
open NF.StructureExec TailsWhole

/-- the dual conditioner at the example: all five unnormalised parameters have value `0` and non-trivial tangents -/
theorem netEx (z z' a b p q r : ℝ) :
    affNet (dualX (NF.realX eW)) 1 5 [[(0, a)], [(0, b)], [(0, p)], [(0, q)], [(0, r)]] [(0, 1), (0, 0), (0, 1), (0, 0), (0, 1)]
      1 #[(z, z')] #[] = #[(0, a * z + 1), (0, b * z), (0, p * z + 1), (0, q * z), (0, r * z + 1)] := by
  simp [affNet, LF.linear, LF.matVec, LF.addV, LF.dot, LF.sum, LF.zero, rowsD, rowD, fitRow, List.range_succ, d_ofRat]

private theorem f1 : ((1.0:Float) == 0.0) = false := by decide +kernel
private theorem f2 : ((1.0:Float) == 0.5) = false := by decide +kernel
private theorem f3 : ((1.0:Float) == (-(1.0:Float))) = false := by decide +kernel
private theorem f4 : ((1.0:Float) == 2.0) = false := by decide +kernel

/-- **the admissible set of the RQ-tails coupling stage is not empty**: one row `(z, 2)`, feature 0 conditions feature 1, the
    transformed entry `2` lies in the upper linear tail (`B = 1`), the three padded unnormalised derivatives are off the
    threshold; every weight and bias of the conditioner and both inputs carry arbitrary tangents -/
theorem couplingAdm_example (z z' x' a b p q r : ℝ) :
    CouplingAdm eW [(0, 0), (1, 0)] 1
      (affNet (dualX (NF.realX eW)) 1 5 [[(0, a)], [(0, b)], [(0, p)], [(0, q)], [(0, r)]] [(0, 1), (0, 0), (0, 1), (0, 0), (0, 1)])
      (TailsQ eW cT2 1) 1 #[(z, z'), (2, x')] #[] := by
  intro b hb p hp
  simp [transformIdx, XOps.gt, List.range_succ, rowIter] at hb hp
  subst hb; subst hp
  have hg : gatherCh #[(z, z'), ((2:ℝ), x')] 1 2 1 (identityIdx (DX eW) [(0, 0), (1, 0)]) (DX eW).zero = #[(z, z')] := by
    simp [gatherCh, identityIdx, List.range_succ, flatIdx]
  simp only [List.length_cons, List.length_nil, hg, netEx]
  simp [transformIdx, XOps.gt, List.range_succ, TailsQ, TailsElAdm, flatIdx, condSlice, cT2, ElCfg.mult, rqD, udT]
  have h1 : eW 1.0 = 1 := by simp [eW, f1, f2, f3, f4]
  have hc : ∀ f, eW f = 0 ∨ eW f = 1 / 2 ∨ eW f = -1 ∨ eW f = 2 ∨ eW f = 1 := by
    intro f; unfold eW; split_ifs <;> simp
  have hc' : cstT eW 0.0 = 0 ∨ cstT eW 0.0 = 1 / 2 ∨ cstT eW 0.0 = -1 ∨ cstT eW 0.0 = 2 ∨ cstT eW 0.0 = 1 := hc _
  refine ⟨?_, Or.inl (Or.inr (by rw [h1]; norm_num))⟩
  intro k hk
  rw [h1, one_mul]
  interval_cases k <;> simp <;> rcases hc' with h | h | h | h | h <;> rw [h] <;> norm_num

/-- … and there the dual coupling stage IS accepted, the real stage is accepted at EVERY `s` along the line, and the dual outputs
    are (value, derivative at 0) of the real outputs and row log-dets -/
example (z z' x' a b p q r : ℝ) :
    ∃ (Y : ℝ → Array ℝ) (L : ℝ → List ℝ) (dY : Array (ℝ × ℝ)) (dL : List (ℝ × ℝ)),
      couplingStage (dualX (NF.realX eW)) cT2 [(0, 0), (1, 0)] 1 false none #[]
        (affNet (dualX (NF.realX eW)) 1 5 [[(0, a)], [(0, b)], [(0, p)], [(0, q)], [(0, r)]]
          [(0, 1), (0, 0), (0, 1), (0, 0), (0, 1)]) 1 #[(z, z'), (2, x')] #[] = .ok (dY, dL) ∧
      (∀ s, couplingStage (NF.realX eW) cT2 ([((0:ℝ), (0:ℝ)), (1, 0)].map Prod.fst) 1 false none #[]
          (affNet (NF.realX eW) 1 5 (lineM s [[(0, a)], [(0, b)], [(0, p)], [(0, q)], [(0, r)]])
            (lineV s [(0, 1), (0, 0), (0, 1), (0, 0), (0, 1)])) 1 (lineA s #[(z, z'), (2, x')]) (lineA s #[]) = .ok (Y s, L s)) ∧
      DA 0 Y dY ∧ DV 0 L dL :=
  couplingStage_on_key (t := 0) eW cT2 [(0, 0), (1, 0)] 1 (TailsQ eW cT2 1)
    (fun Ft b tp sp _ _ _ _ hP hx hQ => couplingEl_rqTails_rel eW rqTailsCfgValid_example Ft 1 b tp sp hP hx hQ)
    (dualSoundNet_affNet eW 1 5 (lineM_dual [[(0, a)], [(0, b)], [(0, p)], [(0, q)], [(0, r)]])
      (lineV_dual [(0, 1), (0, 0), (0, 1), (0, 0), (0, 1)]))
    1 _ _ _ _ (couplingAdm_example z z' x' a b p q r) (lineA_dual _) (lineA_dual _)

end witness

end
end DualXFlowSpline
