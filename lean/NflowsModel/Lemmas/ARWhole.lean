import NflowsModel.Lemmas.StructureExec
import NflowsModel.Lemmas.StructureExecRQ
import NflowsModel.Lemmas.MadeNet
import NflowsModel.Lemmas.RankedDet
import NflowsModel.Lemmas.AutoregInverse
/-!
# Lemmas/ARWhole — the executed AUTOREGRESSIVE transform as a whole program (C02, C06, C01)

`autoregressive.py:36-53`:
```
def forward(self, inputs, context=None):
    autoregressive_params = self.autoregressive_net(inputs, context)
    outputs, logabsdet = self._elementwise_forward(inputs, autoregressive_params)
def inverse(self, inputs, context=None):
    num_inputs = int(np.prod(inputs.shape[1:]))
    outputs = torch.zeros_like(inputs)
    logabsdet = None
    for _ in range(num_inputs):
        autoregressive_params = self.autoregressive_net(outputs, context)
        outputs, logabsdet = self._elementwise_inverse(inputs, autoregressive_params)
    return outputs, logabsdet
```
The element-wise pass is the executed `NF.arApply` (`Core/Structure.lean`).  The conditioner is any function
`net : Array α → Array α` from the WHOLE `[B, F]` batch to the `[B, F, m]` parameter tensor (so a conditioner that
couples the rows of the batch — batch norm in training mode — is covered; a conditioner applied row by row is a
special case, see `madeRowNet` in `Lemmas/ARWholeMadeRow.lean`).

Contents: §1 programs (`arForward`, `arPass`, `arInverse`, `arIter`), §2 hypotheses (`AutoregNet`, `ArElInvertible`),
§3 C02 generic in the scalars (`arIter_prefix`, `ar_inverse_forward`, `ar_inverse_forward_ld`, exceptions, the other
order `ar_forward_inverse`), §4 over the reals, §5 bounded RQ elements discharged, §6 MADE conditioner (`madeNet`,
`madeNet_autoreg`, `made_ar_inverse_forward`, `made_rq_roundtrip_real`), §7 C01 (`ar_forward_dep`, `ar_row_logdet`),
§8 affine elements / MAF unconditional, §9 C01 element laws discharged, §10 refinement to `Lemmas/AutoregInverse`.
-/
open NF

namespace NF.ARWhole
open NF.StructureExec
variable {α : Type}

/-! ## 1. The executed programs -/

/-- number of conditioner outputs per feature that `arEl` reads -/
def pw (c : ElCfg) : Nat := if c.kind == "araffine" then 2 else c.mult

/-- the parameter vector `params[b, i, :]` that `arEl` slices out -/
def arSlice (o : XOps α) (c : ElCfg) (F : Nat) (params : Array α) (b i : Nat) : List α :=
  (List.range (pw c)).map fun k => params.getD ((b * F + i) * pw c + k) o.zero

theorem arEl_eq (o : XOps α) (c : ElCfg) (F : Nat) (x params : Array α) (inverse : Bool) (b i : Nat) :
    arEl o c F x params inverse b i
      = elTransform o c inverse (arSlice o c F params b i) (x.getD (b * F + i) o.zero) := rfl

/-- `AutoregressiveTransform.forward` (autoregressive.py:36-41) -/
def arForward (o : XOps α) (c : ElCfg) (B F : Nat) (net : Array α → Array α) (x : Array α) : TResult α :=
  arApply o c B F x (net x) false

/-- the loop state before the first pass: `outputs = zeros_like(inputs)`, `logabsdet = None` -/
def arInit (o : XOps α) (y : Array α) : TResult α := { out := Array.replicate y.size o.zero, ld := [] }

/-- one pass of the inverse loop (autoregressive.py:50-51): the conditioner is fed the CURRENT outputs, the
    element-wise inverse is applied to the loop-invariant `inputs = y`; outputs and log-det are overwritten.
    An exception raised in any pass aborts the loop: `err` keeps the first one. -/
def arPass (o : XOps α) (c : ElCfg) (B F : Nat) (net : Array α → Array α) (y : Array α) (cur : TResult α) :
    TResult α :=
  let r := arApply o c B F y (net cur.out) true
  { r with err := match cur.err with | some e => some e | none => r.err }

/-- `AutoregressiveTransform.inverse` (autoregressive.py:43-53): exactly `F` passes from the zero array, the result
    (outputs AND log-det) is that of the LAST pass. -/
def arInverse (o : XOps α) (c : ElCfg) (B F : Nat) (net : Array α → Array α) (y : Array α) : TResult α :=
  (List.range F).foldl (fun cur _ => arPass o c B F net y cur) (arInit o y)

/-- the loop state after `k` passes -/
def arIter (o : XOps α) (c : ElCfg) (B F : Nat) (net : Array α → Array α) (y : Array α) (k : Nat) : TResult α :=
  (arPass o c B F net y)^[k] (arInit o y)

theorem foldl_range_const {β : Type} (f : β → β) (z : β) (n : Nat) :
    (List.range n).foldl (fun a _ => f a) z = f^[n] z := by
  induction n with
  | zero => rfl
  | succ n ih => rw [List.range_succ, List.foldl_append, ih, Function.iterate_succ_apply']; rfl

theorem arInverse_eq_iter (o : XOps α) (c : ElCfg) (B F : Nat) (net : Array α → Array α) (y : Array α) :
    arInverse o c B F net y = arIter o c B F net y F :=
  foldl_range_const _ _ F

theorem arIter_succ (o : XOps α) (c : ElCfg) (B F : Nat) (net : Array α → Array α) (y : Array α) (k : Nat) :
    arIter o c B F net y (k + 1) = arPass o c B F net y (arIter o c B F net y k) :=
  Function.iterate_succ_apply' _ _ _

theorem arPass_out (o : XOps α) (c : ElCfg) (B F : Nat) (net : Array α → Array α) (y : Array α) (cur : TResult α) :
    (arPass o c B F net y cur).out = (arApply o c B F y (net cur.out) true).out := rfl

theorem arPass_ld (o : XOps α) (c : ElCfg) (B F : Nat) (net : Array α → Array α) (y : Array α) (cur : TResult α) :
    (arPass o c B F net y cur).ld = (arApply o c B F y (net cur.out) true).ld := rfl

theorem arApply_out_size (o : XOps α) (c : ElCfg) (B F : Nat) (x params : Array α) (inverse : Bool) :
    (arApply o c B F x params inverse).out.size = B * F := elemwise_out_size o B F _

theorem arIter_out_size (o : XOps α) (c : ElCfg) (B F : Nat) (net : Array α → Array α) (y : Array α)
    (hy : y.size = B * F) (k : Nat) : (arIter o c B F net y k).out.size = B * F := by
  cases k with
  | zero => simp [arIter, arInit, hy]
  | succ k => rw [arIter_succ, arPass_out, arApply_out_size]

/-! ## 2. Hypotheses -/

/-- **the conditioner is strictly autoregressive** (C06): the parameter block of feature `i` (of every row) is
    determined by the features `j < i` (of all rows).  Only `[B, F]`-shaped arrays are compared. -/
def AutoregNet (B F m : Nat) (net : Array α → Array α) : Prop :=
  ∀ (x x' : Array α) (i : Nat), x.size = B * F → x'.size = B * F → i < F →
    (∀ b j, b < B → j < i → x[b * F + j]? = x'[b * F + j]?) →
    ∀ b k, b < B → k < m → (net x)[(b * F + i) * m + k]? = (net x')[(b * F + i) * m + k]?

/-- **per-element invertibility** for the parameter tensor `params` (mirrors `StructureExec.ElInvertible`): whenever
    the forward element map succeeds with `(y, l)`, the inverse element map with the SAME parameter vector sends `y`
    back to the input with log-det `-l`. -/
def ArElInvertible (o : XOps α) (c : ElCfg) (F : Nat) (params : Array α) (B : Nat) : Prop :=
  ∀ b i xi y l al, b < B → i < F →
    elTransform o c false (arSlice o c F params b i) xi = .ok (y, l, al) →
    ∃ al', elTransform o c true (arSlice o c F params b i) y = .ok (xi, o.neg l, al')

/-- the other order: whenever the inverse element map succeeds with `(x, l)`, the forward one sends `x` back -/
def ArElInvertibleRev (o : XOps α) (c : ElCfg) (F : Nat) (params : Array α) (B : Nat) : Prop :=
  ∀ b i yi x l al, b < B → i < F →
    elTransform o c true (arSlice o c F params b i) yi = .ok (x, l, al) →
    ∃ al', elTransform o c false (arSlice o c F params b i) x = .ok (yi, o.neg l, al')

/-- two `[B, F]` arrays agree on the features `i < k` of every row -/
def AgreeBelow (B F k : Nat) (z x : Array α) : Prop :=
  ∀ b i, b < B → i < F → i < k → z[b * F + i]? = x[b * F + i]?

theorem arSlice_congr (o : XOps α) (c : ElCfg) (F : Nat) (p p' : Array α) (b i : Nat)
    (h : ∀ k, k < pw c → p[(b * F + i) * pw c + k]? = p'[(b * F + i) * pw c + k]?) :
    arSlice o c F p b i = arSlice o c F p' b i := by
  unfold arSlice
  apply List.map_congr_left
  intro k hk
  exact getD_congr (h k (List.mem_range.1 hk)) _

/-- under `AutoregNet`, agreement below `k` gives the same parameter vectors for the features `i ≤ k` -/
theorem arSlice_of_agree (o : XOps α) (c : ElCfg) {B F : Nat} {net : Array α → Array α}
    (hnet : AutoregNet B F (pw c) net) {z x : Array α} (hz : z.size = B * F) (hx : x.size = B * F) {k : Nat}
    (hag : AgreeBelow B F k z x) {b i : Nat} (hb : b < B) (hi : i < F) (hik : i ≤ k) :
    arSlice o c F (net z) b i = arSlice o c F (net x) b i := by
  apply arSlice_congr
  intro r hr
  exact hnet z x i hz hx hi (fun b' j hb' hj => hag b' j hb' (by omega) (by omega)) b r hb hr

theorem idx_lt {B F b i : Nat} (hb : b < B) (hi : i < F) : b * F + i < B * F := by
  have : (b + 1) * F ≤ B * F := Nat.mul_le_mul_right F hb
  rw [Nat.add_mul, Nat.one_mul] at this
  omega

/-! ## 3. C02: the `F`-pass loop undoes the forward pass -/

section c02
variable (o : XOps α) (c : ElCfg) (B F : Nat) (net : Array α → Array α) (x : Array α)

/-- the forward pass raised nothing: every element succeeded and its output is what the pass stored -/
theorem fwd_el (herr : (arForward o c B F net x).err = none) {b i : Nat} (hb : b < B) (hi : i < F) :
    ∃ y l al, elTransform o c false (arSlice o c F (net x) b i) (x.getD (b * F + i) o.zero) = .ok (y, l, al)
      ∧ (arForward o c B F net x).out.getD (b * F + i) o.zero = y := by
  obtain ⟨⟨y, l, al⟩, hy⟩ := (elemwise_err_none o B F _).1 herr b i hb hi
  refine ⟨y, l, al, by rw [← arEl_eq]; exact hy, ?_⟩
  have h := elemwise_out_getElem? o B F (arEl o c F x (net x) false) hb hi
  rw [hy] at h
  unfold arForward arApply
  rw [Array.getD_eq_getD_getElem?, h]
  rfl

/-- **one pass**: if the current outputs `z` agree with `x` on the features `< k`, then in the pass fed with `z`
    every element `i ≤ k` of every row returns `x[b, i]` and the negated forward log-derivative -/
theorem pass_el (hnet : AutoregNet B F (pw c) net) (hinv : ArElInvertible o c F (net x) B)
    (herr : (arForward o c B F net x).err = none) (hx : x.size = B * F)
    {z : Array α} (hz : z.size = B * F) {k : Nat} (hag : AgreeBelow B F k z x)
    {b i : Nat} (hb : b < B) (hi : i < F) (hik : i ≤ k) :
    ∃ al', arEl o c F (arForward o c B F net x).out (net z) true b i
      = .ok (x.getD (b * F + i) o.zero, o.neg (ldOf o (arEl o c F x (net x) false b i)), al') := by
  obtain ⟨y, l, al, h1, h2⟩ := fwd_el o c B F net x herr hb hi
  obtain ⟨al', h3⟩ := hinv b i _ y l al hb hi h1
  refine ⟨al', ?_⟩
  rw [arEl_eq, arEl_eq, arSlice_of_agree o c hnet hz hx hag hb hi hik, h2, h3, h1]
  rfl

/-- a pass fed with `z` that agrees with `x` below `k` produces outputs that agree with `x` below `k + 1` -/
theorem pass_agree (hnet : AutoregNet B F (pw c) net) (hinv : ArElInvertible o c F (net x) B)
    (herr : (arForward o c B F net x).err = none) (hx : x.size = B * F)
    {z : Array α} (hz : z.size = B * F) {k : Nat} (hag : AgreeBelow B F k z x) :
    AgreeBelow B F (k + 1) (arApply o c B F (arForward o c B F net x).out (net z) true).out x := by
  intro b i hb hi hik
  obtain ⟨al', h⟩ := pass_el o c B F net x hnet hinv herr hx hz hag hb hi (by omega)
  rw [arApply, elemwise_out_getElem? o B F _ hb hi, h]
  have hj : b * F + i < x.size := by rw [hx]; exact idx_lt hb hi
  rw [Array.getElem?_eq_getElem hj, getD_of_lt hj]
  rfl

/-- **the invariant of the loop**: after pass `k` the first `k` features of every row are already correct
    (from the zero array; nothing is claimed — or true — about the other features) -/
theorem arIter_prefix (hnet : AutoregNet B F (pw c) net) (hinv : ArElInvertible o c F (net x) B)
    (herr : (arForward o c B F net x).err = none) (hx : x.size = B * F) (k : Nat) :
    AgreeBelow B F k (arIter o c B F net (arForward o c B F net x).out k).out x := by
  induction k with
  | zero => intro b i _ _ h; omega
  | succ k ih =>
    rw [arIter_succ, arPass_out]
    exact pass_agree o c B F net x hnet hinv herr hx
      (arIter_out_size o c B F net _ (arApply_out_size ..) k) ih

/-- in pass number `k + 1` the elements `i ≤ k` succeed with the right value and the negated log-derivative -/
theorem arIter_pass_el (hnet : AutoregNet B F (pw c) net) (hinv : ArElInvertible o c F (net x) B)
    (herr : (arForward o c B F net x).err = none) (hx : x.size = B * F) (k : Nat)
    {b i : Nat} (hb : b < B) (hi : i < F) (hik : i ≤ k) :
    ∃ al', arEl o c F (arForward o c B F net x).out
        (net (arIter o c B F net (arForward o c B F net x).out k).out) true b i
      = .ok (x.getD (b * F + i) o.zero, o.neg (ldOf o (arEl o c F x (net x) false b i)), al') :=
  pass_el o c B F net x hnet hinv herr hx (arIter_out_size o c B F net _ (arApply_out_size ..) k)
    (arIter_prefix o c B F net x hnet hinv herr hx k) hb hi hik

/-- **C02 (executed autoregressive transform), outputs**: the `F`-pass loop applied to the forward output returns
    the input array exactly — every batch size `B`, feature count `F` (including `0`), conditioner, element family -/
theorem ar_inverse_forward (hnet : AutoregNet B F (pw c) net) (hinv : ArElInvertible o c F (net x) B)
    (herr : (arForward o c B F net x).err = none) (hx : x.size = B * F) :
    (arInverse o c B F net (arForward o c B F net x).out).out = x := by
  rw [arInverse_eq_iter]
  apply Array.ext_getElem?
  intro j
  have hsz := arIter_out_size o c B F net (arForward o c B F net x).out (arApply_out_size ..) F
  by_cases hj : j < B * F
  · have hF : 0 < F := by
      rcases Nat.eq_zero_or_pos F with h | h
      · subst h; simp at hj
      · exact h
    have hb : j / F < B := (Nat.div_lt_iff_lt_mul hF).2 hj
    have hi : j % F < F := Nat.mod_lt _ hF
    have hji : j = (j / F) * F + j % F := by rw [Nat.mul_comm]; exact (Nat.div_add_mod j F).symm
    rw [hji]
    exact arIter_prefix o c B F net x hnet hinv herr hx F _ _ hb hi hi
  · rw [getElem?_none_of_not_lt (by omega), getElem?_none_of_not_lt (by omega)]

/-- **C02, log-dets**: for `F ≥ 1` the log-det returned by the loop (that of the LAST pass) is, row by row, the left
    fold of the NEGATED per-element log-derivatives of the forward pass, in feature order.
    (`F = 0`: the code returns `logabsdet = None`, the model `[]`.) -/
theorem ar_inverse_forward_ld (hnet : AutoregNet B F (pw c) net) (hinv : ArElInvertible o c F (net x) B)
    (herr : (arForward o c B F net x).err = none) (hx : x.size = B * F) (hF : 0 < F) {b : Nat} (hb : b < B) :
    (arForward o c B F net x).ld[b]?
        = some ((List.range F).foldl (fun acc i => o.add acc (ldOf o (arEl o c F x (net x) false b i))) o.zero)
    ∧ (arInverse o c B F net (arForward o c B F net x).out).ld[b]?
        = some ((List.range F).foldl
            (fun acc i => o.add acc (o.neg (ldOf o (arEl o c F x (net x) false b i)))) o.zero) := by
  refine ⟨ar_ld_getElem? o c B F x (net x) false hb, ?_⟩
  obtain ⟨k, rfl⟩ : ∃ k, F = k + 1 := ⟨F - 1, by omega⟩
  rw [arInverse_eq_iter, arIter_succ, arPass_ld, ar_ld_getElem? o c B (k + 1) _ _ true hb]
  congr 1
  apply List.foldl_ext
  intro acc i hi
  have hi' := List.mem_range.1 hi
  obtain ⟨al', h⟩ := arIter_pass_el o c B (k + 1) net x hnet hinv herr hx k hb hi' (by omega)
  rw [h]
  rfl

/-- the LAST pass raises nothing -/
theorem ar_inverse_last_pass_ok (hnet : AutoregNet B F (pw c) net) (hinv : ArElInvertible o c F (net x) B)
    (herr : (arForward o c B F net x).err = none) (hx : x.size = B * F) :
    (arApply o c B F (arForward o c B F net x).out
      (net (arIter o c B F net (arForward o c B F net x).out (F - 1)).out) true).err = none := by
  rw [arApply, elemwise_err_none]
  intro b i hb hi
  obtain ⟨al', h⟩ := arIter_pass_el o c B F net x hnet hinv herr hx (F - 1) hb hi (by omega)
  exact ⟨_, h⟩

/-- the conditioner input of the last pass already yields the forward parameters (`autoregressive_last_pass_params`
    for the executed loop): every parameter vector read by the last pass is the forward one -/
theorem ar_inverse_last_pass_params (hnet : AutoregNet B F (pw c) net) (hinv : ArElInvertible o c F (net x) B)
    (herr : (arForward o c B F net x).err = none) (hx : x.size = B * F) {b i : Nat} (hb : b < B) (hi : i < F) :
    arSlice o c F (net (arIter o c B F net (arForward o c B F net x).out (F - 1)).out) b i
      = arSlice o c F (net x) b i :=
  arSlice_of_agree o c hnet (arIter_out_size o c B F net _ (arApply_out_size ..) (F - 1)) hx
    (arIter_prefix o c B F net x hnet hinv herr hx (F - 1)) hb hi (by omega)

end c02

/-! ### the exceptions of the loop -/

theorem arIter_err_none (o : XOps α) (c : ElCfg) (B F : Nat) (net : Array α → Array α) (y : Array α) (k : Nat) :
    (arIter o c B F net y k).err = none
      ↔ ∀ j, j < k → (arApply o c B F y (net (arIter o c B F net y j).out) true).err = none := by
  induction k with
  | zero => simp [arIter, arInit]
  | succ k ih =>
    rw [arIter_succ]
    have hs : (arPass o c B F net y (arIter o c B F net y k)).err
        = match (arIter o c B F net y k).err with
          | some e => some e
          | none => (arApply o c B F y (net (arIter o c B F net y k).out) true).err := rfl
    rw [hs]
    constructor
    · intro h j hj
      cases he : (arIter o c B F net y k).err with
      | some e0 => rw [he] at h; cases h
      | none =>
        rw [he] at h
        rcases Nat.lt_succ_iff_lt_or_eq.1 hj with hlt | rfl
        · exact (ih.1 he) j hlt
        · exact h
    · intro h
      have h1 : (arIter o c B F net y k).err = none := ih.2 (fun j hj => h j (by omega))
      rw [h1]
      exact h k (by omega)

/-- the loop raises nothing when every element inverse succeeds whatever `[B, F]` array the conditioner is fed -/
theorem ar_inverse_err_none (o : XOps α) (c : ElCfg) (B F : Nat) (net : Array α → Array α) (y : Array α)
    (hy : y.size = B * F)
    (htot : ∀ z : Array α, z.size = B * F → ∀ b i, b < B → i < F →
      ∃ v, elTransform o c true (arSlice o c F (net z) b i) (y.getD (b * F + i) o.zero) = .ok v) :
    (arInverse o c B F net y).err = none := by
  rw [arInverse_eq_iter, arIter_err_none]
  intro j _
  rw [arApply, elemwise_err_none]
  intro b i hb hi
  exact htot _ (arIter_out_size o c B F net y hy j) b i hb hi

/-! ### the other order: `forward ∘ inverse` -/

section rev
variable (o : XOps α) (c : ElCfg) (B F : Nat) (net : Array α → Array α) (y : Array α)

/-- consecutive loop states agree on the features `< k` after `k` and `k + 1` passes: the features stabilise one per
    pass, from the left (needs only the autoregressive conditioner, no invertibility) -/
theorem arIter_stable (hnet : AutoregNet B F (pw c) net) (hy : y.size = B * F) (k : Nat) :
    AgreeBelow B F k (arIter o c B F net y (k + 1)).out (arIter o c B F net y k).out := by
  induction k with
  | zero => intro b i _ _ h; omega
  | succ k ih =>
    intro b i hb hi hik
    have hs := arSlice_of_agree o c hnet (arIter_out_size o c B F net y hy (k + 1))
      (arIter_out_size o c B F net y hy k) ih hb hi (by omega : i ≤ k)
    have h1 : (arIter o c B F net y (k + 1 + 1)).out[b * F + i]?
        = some (outOf o (arEl o c F y (net (arIter o c B F net y (k + 1)).out) true b i)) := by
      rw [arIter_succ o c B F net y (k + 1), arPass_out, arApply, elemwise_out_getElem? o B F _ hb hi]
    have h2 : (arIter o c B F net y (k + 1)).out[b * F + i]?
        = some (outOf o (arEl o c F y (net (arIter o c B F net y k).out) true b i)) := by
      rw [arIter_succ o c B F net y k, arPass_out, arApply, elemwise_out_getElem? o B F _ hb hi]
    rw [h1, h2, arEl_eq, arEl_eq, hs]

/-- the result of the loop is a FIXED POINT of the pass: every parameter vector the conditioner returns on the final
    outputs is the one the last pass used -/
theorem ar_inverse_fixed_params (hnet : AutoregNet B F (pw c) net) (hy : y.size = B * F) {b i : Nat}
    (hb : b < B) (hi : i < F) :
    arSlice o c F (net (arInverse o c B F net y).out) b i
      = arSlice o c F (net (arIter o c B F net y (F - 1)).out) b i := by
  rw [arInverse_eq_iter]
  obtain ⟨k, rfl⟩ : ∃ k, F = k + 1 := ⟨F - 1, by omega⟩
  exact arSlice_of_agree o c hnet (arIter_out_size o c B (k + 1) net y hy (k + 1))
    (arIter_out_size o c B (k + 1) net y hy k) (arIter_stable o c B (k + 1) net y hnet hy k) hb hi (by omega)

/-- element `(b, i)` of the last pass, in terms of the FINAL outputs' parameters -/
theorem ar_inverse_el (hnet : AutoregNet B F (pw c) net) (hy : y.size = B * F)
    (herr : (arInverse o c B F net y).err = none) {b i : Nat} (hb : b < B) (hi : i < F) :
    ∃ l al, elTransform o c true (arSlice o c F (net (arInverse o c B F net y).out) b i) (y.getD (b * F + i) o.zero)
        = .ok ((arInverse o c B F net y).out.getD (b * F + i) o.zero, l, al)
      ∧ ldOf o (arEl o c F y (net (arIter o c B F net y (F - 1)).out) true b i) = l := by
  rw [ar_inverse_fixed_params o c B F net y hnet hy hb hi]
  obtain ⟨k, rfl⟩ : ∃ k, F = k + 1 := ⟨F - 1, by omega⟩
  rw [arInverse_eq_iter] at herr ⊢
  have hlast := (arIter_err_none o c B (k + 1) net y (k + 1)).1 herr k (by omega)
  obtain ⟨⟨x, l, al⟩, hx⟩ := (elemwise_err_none o B (k + 1) _).1 hlast b i hb hi
  have hout : (arIter o c B (k + 1) net y (k + 1)).out[b * (k + 1) + i]? = some x := by
    rw [arIter_succ, arPass_out, arApply, elemwise_out_getElem? o B (k + 1) _ hb hi, hx]; rfl
  refine ⟨l, al, ?_, ?_⟩
  · have hget : (arIter o c B (k + 1) net y (k + 1)).out.getD (b * (k + 1) + i) o.zero = x := by
      rw [Array.getD_eq_getD_getElem?, hout]; rfl
    rw [hget, ← arEl_eq]
    exact hx
  · rw [Nat.add_sub_cancel, hx]; rfl

/-- **C02, the other order (outputs)**: the forward pass applied to the result of the `F`-pass loop returns the
    loop's input `y` — provided the loop raised nothing and the elements invert in the other order -/
theorem ar_forward_inverse (hnet : AutoregNet B F (pw c) net) (hy : y.size = B * F)
    (herr : (arInverse o c B F net y).err = none)
    (hinv : ArElInvertibleRev o c F (net (arInverse o c B F net y).out) B) :
    (arForward o c B F net (arInverse o c B F net y).out).out = y
      ∧ (arForward o c B F net (arInverse o c B F net y).out).err = none := by
  have hel : ∀ b i, b < B → i < F → ∃ l al', arEl o c F (arInverse o c B F net y).out
      (net (arInverse o c B F net y).out) false b i = .ok (y.getD (b * F + i) o.zero, l, al') := by
    intro b i hb hi
    obtain ⟨l, al, h1, _⟩ := ar_inverse_el o c B F net y hnet hy herr hb hi
    obtain ⟨al', h2⟩ := hinv b i _ _ l al hb hi h1
    exact ⟨_, al', by rw [arEl_eq]; exact h2⟩
  constructor
  · apply Array.ext_getElem?
    intro j
    by_cases hj : j < B * F
    · have hF : 0 < F := by
        rcases Nat.eq_zero_or_pos F with h | h
        · subst h; simp at hj
        · exact h
      have hb : j / F < B := (Nat.div_lt_iff_lt_mul hF).2 hj
      have hi : j % F < F := Nat.mod_lt _ hF
      have hji : j = (j / F) * F + j % F := by rw [Nat.mul_comm]; exact (Nat.div_add_mod j F).symm
      rw [hji]
      obtain ⟨l, al', h⟩ := hel _ _ hb hi
      have hjy : j / F * F + j % F < y.size := by rw [← hji, hy]; exact hj
      rw [arForward, arApply, elemwise_out_getElem? o B F _ hb hi, h, Array.getElem?_eq_getElem hjy, getD_of_lt hjy]
      rfl
    · have h1 := arApply_out_size o c B F (arInverse o c B F net y).out (net (arInverse o c B F net y).out) false
      rw [arForward, getElem?_none_of_not_lt (by omega), getElem?_none_of_not_lt (by omega)]
  · rw [arForward, arApply, elemwise_err_none]
    intro b i hb hi
    obtain ⟨l, al', h⟩ := hel b i hb hi
    exact ⟨_, h⟩

/-- **C02, the other order (log-dets)**: the forward row log-det is the left fold of the negated per-element
    log-derivatives of the LAST pass of the loop -/
theorem ar_forward_inverse_ld (hnet : AutoregNet B F (pw c) net) (hy : y.size = B * F)
    (herr : (arInverse o c B F net y).err = none)
    (hinv : ArElInvertibleRev o c F (net (arInverse o c B F net y).out) B) (hF : 0 < F) {b : Nat} (hb : b < B) :
    (arInverse o c B F net y).ld[b]?
        = some ((List.range F).foldl (fun acc i => o.add acc
            (ldOf o (arEl o c F y (net (arIter o c B F net y (F - 1)).out) true b i))) o.zero)
    ∧ (arForward o c B F net (arInverse o c B F net y).out).ld[b]?
        = some ((List.range F).foldl (fun acc i => o.add acc
            (o.neg (ldOf o (arEl o c F y (net (arIter o c B F net y (F - 1)).out) true b i)))) o.zero) := by
  constructor
  · obtain ⟨k, rfl⟩ : ∃ k, F = k + 1 := ⟨F - 1, by omega⟩
    rw [arInverse_eq_iter, arIter_succ, arPass_ld, ar_ld_getElem? o c B (k + 1) _ _ true hb]
    rfl
  · rw [arForward, ar_ld_getElem? o c B F _ _ false hb]
    congr 1
    apply List.foldl_ext
    intro acc i hi
    have hi' := List.mem_range.1 hi
    obtain ⟨l, al, h1, h2⟩ := ar_inverse_el o c B F net y hnet hy herr hb hi'
    obtain ⟨al', h3⟩ := hinv b i _ _ l al hb hi' h1
    rw [arEl_eq, h3, h2]
    rfl

end rev

/-! ## 4. Over the reals -/

theorem foldl_neg_real {β : Type} (e : Float → ℝ) (l : List β) (g : β → ℝ) :
    l.foldl (fun acc i => (NF.realX e).add acc ((NF.realX e).neg (g i))) (NF.realX e).zero
      = - l.foldl (fun acc i => (NF.realX e).add acc (g i)) (NF.realX e).zero := by
  have key : ∀ z : ℝ, l.foldl (fun acc i => (NF.realX e).add acc ((NF.realX e).neg (g i))) (-z)
      = - l.foldl (fun acc i => (NF.realX e).add acc (g i)) z := by
    induction l with
    | nil => intro z; rfl
    | cons a l ih =>
      intro z
      simp only [List.foldl_cons, realX_add, realX_neg]
      rw [← neg_add]
      exact ih (z + g a)
  have := key 0
  simpa using this

/-- **C02 (executed autoregressive transform over the reals)**: any conditioner that is autoregressive, any element
    family that inverts on the forward parameters, any `B`, `F`: the `F`-pass loop returns the input, after pass `k`
    the first `k` features are correct, the last pass raises nothing, and (for `F ≥ 1`) the returned log-det — the
    one of the last pass — is the negated forward log-det. -/
theorem ar_inverse_forward_real (e : Float → ℝ) (c : ElCfg) (B F : Nat) (net : Array ℝ → Array ℝ) (x : Array ℝ)
    (hnet : AutoregNet B F (pw c) net) (hinv : ArElInvertible (NF.realX e) c F (net x) B)
    (herr : (arForward (NF.realX e) c B F net x).err = none) (hx : x.size = B * F) :
    let fwd := arForward (NF.realX e) c B F net x
    let inv := arInverse (NF.realX e) c B F net fwd.out
    inv.out = x
      ∧ (∀ k, AgreeBelow B F k (arIter (NF.realX e) c B F net fwd.out k).out x)
      ∧ (arApply (NF.realX e) c B F fwd.out (net (arIter (NF.realX e) c B F net fwd.out (F - 1)).out) true).err = none
      ∧ (0 < F → ∀ b, b < B → inv.ld[b]? = (fwd.ld[b]?).map (fun l => -l)) := by
  intro fwd inv
  refine ⟨ar_inverse_forward _ c B F net x hnet hinv herr hx, arIter_prefix _ c B F net x hnet hinv herr hx,
    ar_inverse_last_pass_ok _ c B F net x hnet hinv herr hx, ?_⟩
  intro hF b hb
  obtain ⟨h1, h2⟩ := ar_inverse_forward_ld _ c B F net x hnet hinv herr hx hF hb
  show (arInverse (NF.realX e) c B F net (arForward (NF.realX e) c B F net x).out).ld[b]?
    = ((arForward (NF.realX e) c B F net x).ld[b]?).map _
  rw [h1, h2, foldl_neg_real]
  rfl

/-- **C02, the other order, over the reals** -/
theorem ar_forward_inverse_real (e : Float → ℝ) (c : ElCfg) (B F : Nat) (net : Array ℝ → Array ℝ) (y : Array ℝ)
    (hnet : AutoregNet B F (pw c) net) (hy : y.size = B * F)
    (herr : (arInverse (NF.realX e) c B F net y).err = none)
    (hinv : ArElInvertibleRev (NF.realX e) c F (net (arInverse (NF.realX e) c B F net y).out) B) :
    let inv := arInverse (NF.realX e) c B F net y
    let fwd := arForward (NF.realX e) c B F net inv.out
    fwd.out = y ∧ fwd.err = none ∧ (0 < F → ∀ b, b < B → fwd.ld[b]? = (inv.ld[b]?).map (fun l => -l)) := by
  intro inv fwd
  obtain ⟨h1, h2⟩ := ar_forward_inverse _ c B F net y hnet hy herr hinv
  refine ⟨h1, h2, ?_⟩
  intro hF b hb
  obtain ⟨h3, h4⟩ := ar_forward_inverse_ld _ c B F net y hnet hy herr hinv hF hb
  show (arForward (NF.realX e) c B F net (arInverse (NF.realX e) c B F net y).out).ld[b]?
    = ((arInverse (NF.realX e) c B F net y).ld[b]?).map _
  rw [h3, h4, foldl_neg_real]
  rfl

/-! ## 5. The bounded rational-quadratic family: the element hypotheses discharged -/

/-- every parameter vector of the `[B, F, m]` tensor is an accepted RQ configuration -/
def RQParamsValidAR (e : Float → ℝ) (c : ElCfg) (F : Nat) (params : Array ℝ) (B : Nat) : Prop :=
  ∀ b i, b < B → i < F →
    RQWhole.RQValid e (rqCfgOf c)
      (rqW (NF.realX e) c (arSlice (NF.realX e) c F params b i))
      (rqH (NF.realX e) c (arSlice (NF.realX e) c F params b i))
      (rqD c (arSlice (NF.realX e) c F params b i))

/-- a successful inverse call had its input in `[bottom, top]` -/
theorem rqSpline_inverse_dom (e : Float → ℝ) (c : RQCfg) (uw uh ud : List ℝ) {y : ℝ} {v : ℝ × ℝ}
    (h : rqSpline (NF.realX e) c uw uh ud true y = .ok v) : e c.box.bottom ≤ y ∧ y ≤ e c.box.top := by
  by_contra hc
  have hb : ((NF.realX e).lt y ((NF.realX e).ofFloat c.box.bottom) ||
      (NF.realX e).lt ((NF.realX e).ofFloat c.box.top) y) = true := by
    simp only [realX_lt, realX_ofFloat, Bool.or_eq_true, decide_eq_true_eq]
    by_contra h2
    exact hc ⟨le_of_not_gt (fun h3 => h2 (Or.inl h3)), le_of_not_gt (fun h3 => h2 (Or.inr h3))⟩
  have herr : rqSpline (NF.realX e) c uw uh ud true y = .error .outsideDomain := by
    unfold rqSpline
    simp only [↓reduceIte, hb]
    rfl
  rw [herr] at h
  cases h

/-- **one RQ element over the reals, the other order**: executed inverse program followed by the executed forward
    program with the same (valid) parameters -/
theorem rqSpline_real_invertible_rev (e : Float → ℝ) (c : RQCfg) (uw uh ud : List ℝ)
    (hv : RQWhole.RQValid e c uw uh ud) {x y l : ℝ}
    (h : rqSpline (NF.realX e) c uw uh ud true y = .ok (x, l)) :
    rqSpline (NF.realX e) c uw uh ud false x = .ok (y, -l) := by
  obtain ⟨hy0, hy1⟩ := rqSpline_inverse_dom e c uw uh ud h
  rw [RQInverseWhole.exec_ok hv y hy0 hy1] at h
  simp only [Except.ok.injEq, Prod.mk.injEq] at h
  obtain ⟨hx, hl⟩ := h
  have hin := RQInverseWhole.inv_mapsTo hv ⟨hy0, hy1⟩
  rw [hx] at hin
  rw [RQWhole.exec_eq_bin hv x hin.1 hin.2, ← RQWhole.val_eq hv x hin.1 hin.2, ← RQWhole.ld_eq hv x hin.1 hin.2]
  have h1 := RQInverseWhole.val_inv hv y hy0 hy1
  have h2 := RQInverseWhole.invLd_eq_neg_ld hv y hy0 hy1
  rw [hx] at h1 h2
  rw [h1]
  congr 2
  linarith

theorem arElInvertible_rq_real (e : Float → ℝ) (c : ElCfg) (hk : c.kind = "rq") (ht : c.tails = false)
    (F : Nat) (params : Array ℝ) (B : Nat) (hv : RQParamsValidAR e c F params B) :
    ArElInvertible (NF.realX e) c F params B := by
  intro b i xi y l al hb hi hf
  rw [elTransform_rq _ c hk ht] at hf ⊢
  cases hr : rqSpline (NF.realX e) (rqCfgOf c)
      (rqW (NF.realX e) c (arSlice (NF.realX e) c F params b i))
      (rqH (NF.realX e) c (arSlice (NF.realX e) c F params b i))
      (rqD c (arSlice (NF.realX e) c F params b i)) false xi with
  | error err => rw [hr] at hf; simp [Except.map] at hf
  | ok v =>
    obtain ⟨y', l'⟩ := v
    rw [hr] at hf
    simp only [Except.map, Except.ok.injEq, Prod.mk.injEq] at hf
    obtain ⟨rfl, rfl, rfl⟩ := hf
    rw [rqSpline_real_invertible e _ _ _ _ (hv b i hb hi) hr]
    exact ⟨[], rfl⟩

theorem arElInvertibleRev_rq_real (e : Float → ℝ) (c : ElCfg) (hk : c.kind = "rq") (ht : c.tails = false)
    (F : Nat) (params : Array ℝ) (B : Nat) (hv : RQParamsValidAR e c F params B) :
    ArElInvertibleRev (NF.realX e) c F params B := by
  intro b i yi x l al hb hi hf
  rw [elTransform_rq _ c hk ht] at hf ⊢
  cases hr : rqSpline (NF.realX e) (rqCfgOf c)
      (rqW (NF.realX e) c (arSlice (NF.realX e) c F params b i))
      (rqH (NF.realX e) c (arSlice (NF.realX e) c F params b i))
      (rqD c (arSlice (NF.realX e) c F params b i)) true yi with
  | error err => rw [hr] at hf; simp [Except.map] at hf
  | ok v =>
    obtain ⟨x', l'⟩ := v
    rw [hr] at hf
    simp only [Except.map, Except.ok.injEq, Prod.mk.injEq] at hf
    obtain ⟨rfl, rfl, rfl⟩ := hf
    rw [rqSpline_real_invertible_rev e _ _ _ _ (hv b i hb hi) hr]
    exact ⟨[], rfl⟩

/-- the conditioner returns an accepted RQ configuration for every feature of every row, whatever `[B, F]` array
    it is fed (true of the library: the parameters are unconstrained, softmax / softplus make them valid) -/
def RQNetValid (e : Float → ℝ) (c : ElCfg) (B F : Nat) (net : Array ℝ → Array ℝ) : Prop :=
  ∀ z : Array ℝ, z.size = B * F → RQParamsValidAR e c F (net z) B

/-- every entry of the `[B, F]` array lies in `[lo, hi]` -/
def InBox (lo hi : ℝ) (B F : Nat) (x : Array ℝ) : Prop := ∀ j, j < B * F → lo ≤ x.getD j 0 ∧ x.getD j 0 ≤ hi

/-- the forward RQ pass raises nothing on inputs in `[left, right]`, its outputs lie in `[bottom, top]` -/
theorem ar_rq_forward_ok (e : Float → ℝ) (c : ElCfg) (hk : c.kind = "rq") (ht : c.tails = false) (B F : Nat)
    (net : Array ℝ → Array ℝ) (x : Array ℝ) (hv : RQParamsValidAR e c F (net x) B)
    (hbox : InBox (e (rqCfgOf c).box.left) (e (rqCfgOf c).box.right) B F x) :
    (arForward (NF.realX e) c B F net x).err = none
      ∧ InBox (e (rqCfgOf c).box.bottom) (e (rqCfgOf c).box.top) B F (arForward (NF.realX e) c B F net x).out := by
  have hel : ∀ b i, b < B → i < F → ∃ y l, arEl (NF.realX e) c F x (net x) false b i = .ok (y, l, [])
      ∧ e (rqCfgOf c).box.bottom ≤ y ∧ y ≤ e (rqCfgOf c).box.top := by
    intro b i hb hi
    obtain ⟨h0, h1⟩ := hbox (b * F + i) (idx_lt hb hi)
    have hm := RQWhole.val_mapsTo (hv b i hb hi) ⟨h0, h1⟩
    rw [RQWhole.val_eq (hv b i hb hi) _ h0 h1] at hm
    rw [arEl_eq, elTransform_rq _ c hk ht, realX_zero, RQWhole.exec_eq_bin (hv b i hb hi) _ h0 h1]
    exact ⟨_, _, rfl, hm.1, hm.2⟩
  constructor
  · rw [arForward, arApply, elemwise_err_none]
    intro b i hb hi
    obtain ⟨y, l, h, _⟩ := hel b i hb hi
    exact ⟨_, h⟩
  · intro j hj
    have hF : 0 < F := by
      rcases Nat.eq_zero_or_pos F with h | h
      · subst h; simp at hj
      · exact h
    have hb : j / F < B := (Nat.div_lt_iff_lt_mul hF).2 hj
    have hi : j % F < F := Nat.mod_lt _ hF
    have hji : j = (j / F) * F + j % F := by rw [Nat.mul_comm]; exact (Nat.div_add_mod j F).symm
    obtain ⟨y, l, h, h0, h1⟩ := hel _ _ hb hi
    have : (arForward (NF.realX e) c B F net x).out.getD j 0 = y := by
      rw [hji, Array.getD_eq_getD_getElem?, arForward, arApply, elemwise_out_getElem? _ B F _ hb hi, h]
      rfl
    rw [this]
    exact ⟨h0, h1⟩

/-- every pass of the RQ loop succeeds on inputs in `[bottom, top]` -/
theorem ar_rq_inverse_err_none (e : Float → ℝ) (c : ElCfg) (hk : c.kind = "rq") (ht : c.tails = false) (B F : Nat)
    (net : Array ℝ → Array ℝ) (y : Array ℝ) (hy : y.size = B * F) (hv : RQNetValid e c B F net)
    (hbox : InBox (e (rqCfgOf c).box.bottom) (e (rqCfgOf c).box.top) B F y) :
    (arInverse (NF.realX e) c B F net y).err = none := by
  apply ar_inverse_err_none _ c B F net y hy
  intro z hz b i hb hi
  obtain ⟨h0, h1⟩ := hbox (b * F + i) (idx_lt hb hi)
  rw [elTransform_rq _ c hk ht, realX_zero, RQInverseWhole.exec_ok (hv z hz b i hb hi) _ h0 h1]
  exact ⟨_, rfl⟩

/-- **C02 for the executed masked-autoregressive bounded RQ transform over the reals, no element hypothesis left.**
    Any autoregressive conditioner whose outputs are accepted RQ configurations, any `B`, `F`, any input in
    `[left, right]`: forward raises nothing; the `F`-pass loop raises nothing in any pass, returns the input exactly
    and (for `F ≥ 1`) the negated log-det. -/
theorem ar_rq_roundtrip_real (e : Float → ℝ) (c : ElCfg) (hk : c.kind = "rq") (ht : c.tails = false) (B F : Nat)
    (net : Array ℝ → Array ℝ) (x : Array ℝ) (hnet : AutoregNet B F (pw c) net) (hv : RQNetValid e c B F net)
    (hx : x.size = B * F) (hbox : InBox (e (rqCfgOf c).box.left) (e (rqCfgOf c).box.right) B F x) :
    let fwd := arForward (NF.realX e) c B F net x
    let inv := arInverse (NF.realX e) c B F net fwd.out
    fwd.err = none ∧ inv.err = none ∧ inv.out = x
      ∧ (∀ k, AgreeBelow B F k (arIter (NF.realX e) c B F net fwd.out k).out x)
      ∧ (0 < F → ∀ b, b < B → inv.ld[b]? = (fwd.ld[b]?).map (fun l => -l)) := by
  intro fwd inv
  obtain ⟨h1, h2⟩ := ar_rq_forward_ok e c hk ht B F net x (hv x hx) hbox
  obtain ⟨h3, h4, _, h5⟩ := ar_inverse_forward_real e c B F net x hnet
    (arElInvertible_rq_real e c hk ht F (net x) B (hv x hx)) h1 hx
  exact ⟨h1, ar_rq_inverse_err_none e c hk ht B F net _ (arApply_out_size ..) hv h2, h3, h4, h5⟩

/-- the other order for the RQ family: any `y` in `[bottom, top]` -/
theorem ar_rq_roundtrip_rev_real (e : Float → ℝ) (c : ElCfg) (hk : c.kind = "rq") (ht : c.tails = false) (B F : Nat)
    (net : Array ℝ → Array ℝ) (y : Array ℝ) (hnet : AutoregNet B F (pw c) net) (hv : RQNetValid e c B F net)
    (hy : y.size = B * F) (hbox : InBox (e (rqCfgOf c).box.bottom) (e (rqCfgOf c).box.top) B F y) :
    let inv := arInverse (NF.realX e) c B F net y
    let fwd := arForward (NF.realX e) c B F net inv.out
    inv.err = none ∧ fwd.err = none ∧ fwd.out = y
      ∧ (0 < F → ∀ b, b < B → fwd.ld[b]? = (inv.ld[b]?).map (fun l => -l)) := by
  intro inv fwd
  have h1 := ar_rq_inverse_err_none e c hk ht B F net y hy hv hbox
  have hsz : (arInverse (NF.realX e) c B F net y).out.size = B * F := by
    rw [arInverse_eq_iter]; exact arIter_out_size _ c B F net y hy F
  obtain ⟨h2, h3, h4⟩ := ar_forward_inverse_real e c B F net y hnet hy h1
    (arElInvertibleRev_rq_real e c hk ht F _ B (hv _ hsz))
  exact ⟨h1, h3, h2, h4⟩

/-! ### the RQ parameters of the library are always accepted: validity depends on the configuration only -/

/-- `RQValid` constrains the configuration and the LENGTHS of the three parameter lists, not their values -/
theorem rqValid_of_lengths {e : Float → ℝ} {c : RQCfg} {uw uh ud uw' uh' ud' : List ℝ}
    (hv : RQWhole.RQValid e c uw uh ud) (hw : uw'.length = uw.length) (hh : uh'.length = uw.length)
    (hd : ud'.length = uw.length + 1) : RQWhole.RQValid e c uw' uh' ud' where
  hK := by
    have := List.length_pos_of_ne_nil hv.hK
    exact List.ne_nil_of_length_pos (by omega)
  hlenh := by rw [hh, hw]
  hlend := by rw [hd, hw]
  hgW := by rw [hw]; exact hv.hgW
  hgH := by rw [hw]; exact hv.hgH
  hmW0 := hv.hmW0
  hcW := by rw [hw]; exact hv.hcW
  hmWK := by rw [hw]; exact hv.hmWK
  hmH0 := hv.hmH0
  hcH := by rw [hh, ← hv.hlenh]; exact hv.hcH
  hmHK := by rw [hh, ← hv.hlenh]; exact hv.hmHK
  hlr := hv.hlr
  hdlr := hv.hdlr
  hbt := hv.hbt
  hdbt := hv.hdbt
  heps := hv.heps
  hminD := hv.hminD
  hbeta := hv.hbeta

/-- an accepted bounded-RQ element configuration: `K ≥ 1` bins and the constants of the spline are accepted for
    (one, hence every) parameter vector with `K` widths, `K` heights, `K + 1` derivatives -/
structure RQCfgValid (e : Float → ℝ) (c : ElCfg) : Prop where
  hk : c.kind = "rq"
  ht : c.tails = false
  hK : 0 < c.K
  hv : RQWhole.RQValid e (rqCfgOf c) (List.replicate c.K 0) (List.replicate c.K 0) (List.replicate (c.K + 1) 0)

theorem pw_rq {c : ElCfg} (hk : c.kind = "rq") (ht : c.tails = false) : pw c = 3 * c.K + 1 := by
  simp [pw, ElCfg.mult, hk, ht]

theorem rqScale_length (o : XOps α) (c : ElCfg) (b : Bool) (l : List α) : (rqScale o c b l).length = l.length := by
  unfold rqScale; split <;> simp

theorem arSlice_length (o : XOps α) (c : ElCfg) (F : Nat) (params : Array α) (b i : Nat) :
    (arSlice o c F params b i).length = pw c := by simp [arSlice]

/-- whatever the conditioner returns, every parameter vector is an accepted configuration -/
theorem rqNetValid_of_cfg (e : Float → ℝ) (c : ElCfg) (hc : RQCfgValid e c) (B F : Nat) (net : Array ℝ → Array ℝ) :
    RQNetValid e c B F net := by
  intro z _ b i _ _
  have hlen : (arSlice (NF.realX e) c F (net z) b i).length = 3 * c.K + 1 := by
    rw [arSlice_length, pw_rq hc.hk hc.ht]
  have hK := hc.hK
  apply rqValid_of_lengths hc.hv
  · rw [rqW, rqScale_length, List.length_take, List.length_replicate, hlen]; omega
  · rw [rqH, rqScale_length, List.length_take, List.length_drop, List.length_replicate, hlen]; omega
  · rw [rqD, List.length_drop, List.length_replicate, hlen]; omega

/-- non-vacuity: the one-bin configuration on the unit box of `StructureExecRQ.cW` -/
theorem rqCfgValid_example : RQCfgValid RQWhole.eNV cW where
  hk := rfl
  ht := rfl
  hK := by decide
  hv := RQWhole.valid_example

/-! ## 6. C06 ⇒ the hypothesis `AutoregNet` for the executable MADE model -/

section made
open NF.Made

/-- adapter: a flat `[B, F]` array as the batch `X b j` that `Made.madeReal` (the executed `Made.outputs` at
    real-valued functions of the whole batch) consumes -/
def batchOf (B F : Nat) (x : Array ℝ) : Fin B → ℕ → ℝ := fun b j => x.getD (b.1 * F + j) 0

/-- adapter: the conditioner `autoregressive_net` of a masked autoregressive transform: the executed
    `Made.outputs` of the net `n` with weights `W`, biases, context contributions `ctxv` and per-unit maps `g`
    (activation, dropout mask, batch norm — which may couple the `B` rows), as a map from the flat `[B, F]` input to
    the flat `[B, F * m]` parameter tensor -/
noncomputable def madeNet (n : Net) (W : ℕ → ℕ → ℕ → ℝ) (bias : ℕ → ℕ → ℝ) (B : Nat) (ctxv : ℕ → ℕ → Fin B → ℝ)
    (g : ℕ → Slot → ℕ → (Fin B → ℝ) → Fin B → ℝ) (x : Array ℝ) : Array ℝ :=
  ((List.range B).flatMap fun b => (List.range (n.F * n.m)).map fun u =>
    if h : b < B then madeReal n W bias ctxv g (batchOf B n.F x) ⟨b, h⟩ u else 0).toArray

theorem madeNet_size (n : Net) (W : ℕ → ℕ → ℕ → ℝ) (bias : ℕ → ℕ → ℝ) (B : Nat) (ctxv : ℕ → ℕ → Fin B → ℝ)
    (g : ℕ → Slot → ℕ → (Fin B → ℝ) → Fin B → ℝ) (x : Array ℝ) :
    (madeNet n W bias B ctxv g x).size = B * (n.F * n.m) := by
  simp only [madeNet, List.size_toArray]
  exact flatRange_length _ B (n.F * n.m)

/-- the adapter is right: entry `[b, i, k]` of the parameter tensor is output unit `i * m + k` of the net on row `b` -/
theorem madeNet_getElem? (n : Net) (W : ℕ → ℕ → ℕ → ℝ) (bias : ℕ → ℕ → ℝ) (B : Nat) (ctxv : ℕ → ℕ → Fin B → ℝ)
    (g : ℕ → Slot → ℕ → (Fin B → ℝ) → Fin B → ℝ) (x : Array ℝ) {b i k : Nat} (hb : b < B) (hi : i < n.F)
    (hk : k < n.m) :
    (madeNet n W bias B ctxv g x)[(b * n.F + i) * n.m + k]?
      = some (madeReal n W bias ctxv g (batchOf B n.F x) ⟨b, hb⟩ (i * n.m + k)) := by
  have hidx : (b * n.F + i) * n.m + k = b * (n.F * n.m) + (i * n.m + k) := by ring
  have hu : i * n.m + k < n.F * n.m := idx_lt hi hk
  simp only [madeNet, List.getElem?_toArray]
  rw [hidx, flatRange_getElem? _ B (n.F * n.m) b (i * n.m + k) hb hu]
  simp [hb]

/-- **C06 ⇒ `AutoregNet`**: the MADE conditioner of every valid net is autoregressive in the sense the inverse loop
    needs, for all weights, biases, context, per-unit maps, batch size -/
theorem madeNet_autoreg (n : Net) (hv : n.valid = true) (hm : 0 < n.m) (W : ℕ → ℕ → ℕ → ℝ) (bias : ℕ → ℕ → ℝ)
    (B : Nat) (ctxv : ℕ → ℕ → Fin B → ℝ) (g : ℕ → Slot → ℕ → (Fin B → ℝ) → Fin B → ℝ) :
    AutoregNet B n.F n.m (madeNet n W bias B ctxv g) := by
  intro x x' i _ _ hi hag b k hb hk
  rw [madeNet_getElem? n W bias B ctxv g x hb hi hk, madeNet_getElem? n W bias B ctxv g x' hb hi hk]
  congr 1
  apply madeReal_autoregressive n hv hm
  intro j hj b'
  have hdiv : (i * n.m + k) / n.m = i := by
    rw [Nat.mul_comm, Nat.mul_add_div hm, Nat.div_eq_of_lt hk, Nat.add_zero]
  rw [hdiv] at hj
  exact getD_congr (hag b'.1 j b'.2 hj) 0

/-- **C02 + C06: the masked autoregressive transform.**  For every architecture accepted by `Made.build` (both
    copies of `MADE.__init__`), whose multiplier is the parameter count of the element family, every weight / bias /
    context / activation / batch-norm / dropout assignment, every batch size `B`: if the forward pass raised nothing
    and the elements invert on the forward parameters, the `F`-pass inverse loop started from zeros returns the input
    exactly, after pass `k` the first `k` features are correct, the last pass raises nothing, and the returned
    log-det is the negated forward log-det (`F = a.F ≥ 1` is guaranteed by `build`). -/
theorem made_ar_inverse_forward (e : Float → ℝ) (c : ElCfg) (a : Arch) (n : Net) (hbuild : build a = .ok n)
    (hmult : a.mult = pw c) (W : ℕ → ℕ → ℕ → ℝ) (bias : ℕ → ℕ → ℝ) (B : Nat) (ctxv : ℕ → ℕ → Fin B → ℝ)
    (g : ℕ → Slot → ℕ → (Fin B → ℝ) → Fin B → ℝ) (x : Array ℝ) (hx : x.size = B * a.F)
    (hinv : ArElInvertible (NF.realX e) c a.F (madeNet n W bias B ctxv g x) B)
    (herr : (arForward (NF.realX e) c B a.F (madeNet n W bias B ctxv g) x).err = none) :
    let net := madeNet n W bias B ctxv g
    let fwd := arForward (NF.realX e) c B a.F net x
    let inv := arInverse (NF.realX e) c B a.F net fwd.out
    inv.out = x
      ∧ (∀ k, AgreeBelow B a.F k (arIter (NF.realX e) c B a.F net fwd.out k).out x)
      ∧ (arApply (NF.realX e) c B a.F fwd.out
          (net (arIter (NF.realX e) c B a.F net fwd.out (a.F - 1)).out) true).err = none
      ∧ (∀ b, b < B → inv.ld[b]? = (fwd.ld[b]?).map (fun l => -l)) := by
  obtain ⟨hv, hF, hm, hFa, hma⟩ := build_valid hbuild
  have hnet : AutoregNet B a.F (pw c) (madeNet n W bias B ctxv g) := by
    rw [← hmult, ← hma, ← hFa]; exact madeNet_autoreg n hv hm W bias B ctxv g
  intro net fwd inv
  obtain ⟨h1, h2, h3, h4⟩ := ar_inverse_forward_real e c B a.F _ x hnet hinv herr hx
  exact ⟨h1, h2, h3, h4 (by omega)⟩

/-- **the masked autoregressive bounded rational-quadratic transform, nothing left to assume about the network or
    the elements**: every architecture accepted by `build` with multiplier `3K + 1`, every weight assignment, every
    `B`, every input in `[left, right]`: forward raises nothing, no pass of the inverse loop raises, the loop returns
    the input exactly and the negated log-det; and in the other order for every `y` in `[bottom, top]`. -/
theorem made_rq_roundtrip_real (e : Float → ℝ) (c : ElCfg) (hc : RQCfgValid e c) (a : Arch) (n : Net)
    (hbuild : build a = .ok n) (hmult : a.mult = 3 * c.K + 1) (W : ℕ → ℕ → ℕ → ℝ) (bias : ℕ → ℕ → ℝ) (B : Nat)
    (ctxv : ℕ → ℕ → Fin B → ℝ) (g : ℕ → Slot → ℕ → (Fin B → ℝ) → Fin B → ℝ) :
    let net := madeNet n W bias B ctxv g
    (∀ x : Array ℝ, x.size = B * a.F → InBox (e (rqCfgOf c).box.left) (e (rqCfgOf c).box.right) B a.F x →
      let fwd := arForward (NF.realX e) c B a.F net x
      let inv := arInverse (NF.realX e) c B a.F net fwd.out
      fwd.err = none ∧ inv.err = none ∧ inv.out = x
        ∧ (∀ k, AgreeBelow B a.F k (arIter (NF.realX e) c B a.F net fwd.out k).out x)
        ∧ (∀ b, b < B → inv.ld[b]? = (fwd.ld[b]?).map (fun l => -l)))
    ∧ (∀ y : Array ℝ, y.size = B * a.F → InBox (e (rqCfgOf c).box.bottom) (e (rqCfgOf c).box.top) B a.F y →
      let inv := arInverse (NF.realX e) c B a.F net y
      let fwd := arForward (NF.realX e) c B a.F net inv.out
      inv.err = none ∧ fwd.err = none ∧ fwd.out = y
        ∧ (∀ b, b < B → fwd.ld[b]? = (inv.ld[b]?).map (fun l => -l))) := by
  obtain ⟨hv, hF, hm, hFa, hma⟩ := build_valid hbuild
  have hnet : AutoregNet B a.F (pw c) (madeNet n W bias B ctxv g) := by
    rw [pw_rq hc.hk hc.ht, ← hmult, ← hma, ← hFa]; exact madeNet_autoreg n hv hm W bias B ctxv g
  have hval := rqNetValid_of_cfg e c hc B a.F (madeNet n W bias B ctxv g)
  intro net
  constructor
  · intro x hx hbox
    obtain ⟨h1, h2, h3, h4, h5⟩ := ar_rq_roundtrip_real e c hc.hk hc.ht B a.F _ x hnet hval hx hbox
    exact ⟨h1, h2, h3, h4, h5 (by omega)⟩
  · intro y hy hbox
    obtain ⟨h1, h2, h3, h4⟩ := ar_rq_roundtrip_rev_real e c hc.hk hc.ht B a.F _ y hnet hval hy hbox
    exact ⟨h1, h2, h3, h4 (by omega)⟩

end made

/-! ## 7. C01: the forward log-det is the sum of the element log-derivatives = `log |det|` of the row Jacobian -/

/-- `ld[b]` of the executed forward pass is the sum over the features of the per-element log-derivatives -/
theorem ar_forward_ld_real (e : Float → ℝ) (c : ElCfg) (B F : Nat) (net : Array ℝ → Array ℝ) (x : Array ℝ)
    {b : Nat} (hb : b < B) :
    (arForward (NF.realX e) c B F net x).ld[b]?
      = some (∑ i : Fin F, ldOf (NF.realX e) (arEl (NF.realX e) c F x (net x) false b i)) :=
  ar_ld_real e c B F x (net x) false hb

/-- **the dependency structure of the forward pass** (what makes the Jacobian lower-triangular): element `(b, i)` —
    its output, its log-derivative, whether it raises — is determined by `x[b, i]` and the features `j < i` (of all
    rows, through the conditioner).  It does not depend on `x[b', j]` for `j ≥ i`, `(b', j) ≠ (b, i)`. -/
theorem ar_forward_dep (o : XOps α) (c : ElCfg) (B F : Nat) (net : Array α → Array α)
    (hnet : AutoregNet B F (pw c) net) {x x' : Array α} (hx : x.size = B * F) (hx' : x'.size = B * F)
    {b i : Nat} (hb : b < B) (hi : i < F)
    (hlow : ∀ b' j, b' < B → j < i → x[b' * F + j]? = x'[b' * F + j]?) (hown : x[b * F + i]? = x'[b * F + i]?) :
    arEl o c F x (net x) false b i = arEl o c F x' (net x') false b i
      ∧ (arForward o c B F net x).out[b * F + i]? = (arForward o c B F net x').out[b * F + i]? := by
  have h : arEl o c F x (net x) false b i = arEl o c F x' (net x') false b i := by
    rw [arEl_eq, arEl_eq, arSlice_of_agree o c hnet hx hx' (k := i) (fun b' j hb' _ hj => hlow b' j hb' hj) hb hi
      (le_refl i), getD_congr hown]
  refine ⟨h, ?_⟩
  rw [arForward, arForward, arApply, arApply, elemwise_out_getElem? o B F _ hb hi, elemwise_out_getElem? o B F _ hb hi, h]

/-- the `[B, F]` array `x` with row `b` replaced by `v` -/
def setRow (B F : Nat) (x : Array ℝ) (b : Nat) (v : Fin F → ℝ) : Array ℝ :=
  Array.ofFn (n := B * F) fun j =>
    if j.1 / F = b then (if h : j.1 % F < F then v ⟨j.1 % F, h⟩ else 0) else x.getD j.1 0

theorem setRow_size (B F : Nat) (x : Array ℝ) (b : Nat) (v : Fin F → ℝ) : (setRow B F x b v).size = B * F := by
  simp [setRow]

theorem setRow_getElem? (B F : Nat) (x : Array ℝ) (b : Nat) (v : Fin F → ℝ) {b' j : Nat} (hb' : b' < B) (hj : j < F) :
    (setRow B F x b v)[b' * F + j]? = some (if b' = b then v ⟨j, hj⟩ else x.getD (b' * F + j) 0) := by
  have hlt : b' * F + j < (setRow B F x b v).size := by rw [setRow_size]; exact idx_lt hb' hj
  have hF : 0 < F := by omega
  have h1 : (b' * F + j) / F = b' := by rw [Nat.mul_comm, Nat.mul_add_div hF, Nat.div_eq_of_lt hj, Nat.add_zero]
  have h2 : (b' * F + j) % F = j := by rw [Nat.mul_comm, Nat.mul_add_mod, Nat.mod_eq_of_lt hj]
  rw [Array.getElem?_eq_getElem hlt]
  simp only [setRow, Array.getElem_ofFn, h1, h2, hj, dite_true]

/-- row `b` of the forward pass as a map `ℝ^F → ℝ^F` (the other rows of the batch held fixed at `x`) -/
noncomputable def rowMap (e : Float → ℝ) (c : ElCfg) (B F : Nat) (net : Array ℝ → Array ℝ) (x : Array ℝ) (b : Nat)
    (v : Fin F → ℝ) : Fin F → ℝ :=
  fun i => (arForward (NF.realX e) c B F net (setRow B F x b v)).out.getD (b * F + i.1) 0

/-- the scalar map of element `(b, i)` at the forward parameters of `x` -/
noncomputable def elMap (e : Float → ℝ) (c : ElCfg) (F : Nat) (params : Array ℝ) (b i : Nat) (s : ℝ) : ℝ :=
  outOf (NF.realX e) (elTransform (NF.realX e) c false (arSlice (NF.realX e) c F params b i) s)

/-- along any point `v` that agrees with row `b` of `x` on the features `< i`, output `i` of the row map is the
    scalar element map (at the parameters of `x`) applied to `v i` -/
theorem rowMap_eq (e : Float → ℝ) (c : ElCfg) (B F : Nat) (net : Array ℝ → Array ℝ) (x : Array ℝ)
    (hnet : AutoregNet B F (pw c) net) (hx : x.size = B * F) {b : Nat} (hb : b < B) (v : Fin F → ℝ) (i : Fin F)
    (hag : ∀ j : Fin F, j < i → v j = x.getD (b * F + j.1) 0) :
    rowMap e c B F net x b v i = elMap e c F (net x) b i (v i) := by
  have hagree : AgreeBelow B F i.1 (setRow B F x b v) x := by
    intro b' j hb' hj hji
    have hlt : b' * F + j < x.size := by rw [hx]; exact idx_lt hb' hj
    have hxj : x[b' * F + j]? = some (x.getD (b' * F + j) 0) := by
      rw [Array.getElem?_eq_getElem hlt, getD_of_lt hlt]
    rw [setRow_getElem? B F x b v hb' hj, hxj]
    refine congrArg some ?_
    by_cases hbb : b' = b
    · rw [if_pos hbb]; subst hbb; exact hag ⟨j, hj⟩ hji
    · rw [if_neg hbb]
  have hs := arSlice_of_agree (NF.realX e) c hnet (setRow_size B F x b v) hx hagree hb i.2 (le_refl _)
  have hown : (setRow B F x b v).getD (b * F + i.1) 0 = v i := by
    rw [Array.getD_eq_getD_getElem?, setRow_getElem? B F x b v hb i.2]
    simp
  unfold rowMap elMap
  rw [Array.getD_eq_getD_getElem?, arForward, arApply, elemwise_out_getElem? _ B F _ hb i.2, arEl_eq, hs,
    realX_zero, hown]
  rfl

/-- **C01 (executed autoregressive transform)**: for an autoregressive conditioner, `ld[b]` returned by the
    forward pass is `log |det J|`, `J` the Jacobian at row `b` of `x` of the row map (other rows fixed) — because that
    Jacobian is lower-triangular (`ar_forward_dep`) with the element derivatives on the diagonal.  `hdiag` is the
    per-element law (C01 of the element family): the scalar element map at the forward parameters has derivative
    `exp (its log-det)`. -/
theorem ar_row_logdet (e : Float → ℝ) (c : ElCfg) (B F : Nat) (net : Array ℝ → Array ℝ) (x : Array ℝ)
    (hnet : AutoregNet B F (pw c) net) (hx : x.size = B * F) {b : Nat} (hb : b < B)
    {L : (Fin F → ℝ) →L[ℝ] (Fin F → ℝ)}
    (hL : HasFDerivAt (rowMap e c B F net x b) L (fun i => x.getD (b * F + i.1) 0))
    (hdiag : ∀ i : Fin F, HasDerivAt (elMap e c F (net x) b i)
      (Real.exp (ldOf (NF.realX e) (arEl (NF.realX e) c F x (net x) false b i))) (x.getD (b * F + i.1) 0)) :
    (arForward (NF.realX e) c B F net x).ld[b]?
      = some (Real.log |LinearMap.det (L : (Fin F → ℝ) →ₗ[ℝ] (Fin F → ℝ))|) := by
  set v0 : Fin F → ℝ := fun i => x.getD (b * F + i.1) 0 with hv0
  have hline : ∀ (i j : Fin F) (t : ℝ), ¬ (j < i) → ∀ j' : Fin F, j' < i →
      (v0 + t • (Pi.single j (1 : ℝ) : Fin F → ℝ)) j' = x.getD (b * F + j'.1) 0 := by
    intro i j t hji j' hj'
    have hne : j' ≠ j := fun h => hji (h ▸ hj')
    simp [hne, hv0]
  have hdet := RankedDet.det_of_ranked_dependency hL (fun i => i.1)
    (fun i => Real.exp (ldOf (NF.realX e) (arEl (NF.realX e) c F x (net x) false b i)))
    (by
      intro i j hji hr t
      have hr' : ¬ (j < i) := fun h => hr h
      rw [rowMap_eq e c B F net x hnet hx hb _ i (hline i j t hr'),
        rowMap_eq e c B F net x hnet hx hb v0 i (fun j' _ => rfl)]
      have hne : i ≠ j := fun h => hji h.symm
      simp [hne])
    (by
      intro i
      have hfun : (fun t : ℝ => rowMap e c B F net x b (v0 + t • Pi.single i 1) i)
          = fun t : ℝ => elMap e c F (net x) b i (v0 i + t) := by
        funext t
        rw [rowMap_eq e c B F net x hnet hx hb _ i (hline i i t (lt_irrefl i))]
        simp
      rw [hfun]
      have h := hdiag i
      have h0 : x.getD (b * F + i.1) 0 = v0 i + 0 := by simp [hv0]
      rw [h0] at h
      exact h.comp_const_add (v0 i) 0)
  rw [ar_forward_ld_real e c B F net x hb, hdet, ← Real.exp_sum, abs_of_pos (Real.exp_pos _), Real.log_exp]

/-! ## 8. The affine family (`MaskedAffineAutoregressiveTransform`, autoregressive.py:107-127): MAF, unconditionally -/

/-- the scale `softplus(u) + eps` of the affine autoregressive element -/
def afScale (o : XOps α) (c : ElCfg) (p : List α) : α :=
  o.add (o.softplus (p.getD 0 o.zero)) (o.ofFloat (c.ds.getD 0 0.0))

theorem elTransform_araffine (o : XOps α) (c : ElCfg) (hk : c.kind = "araffine") (inverse : Bool) (p : List α) (x : α) :
    elTransform o c inverse p x
      = (scaleShiftT o (afScale o c p) (p.getD 1 o.zero) inverse x).map (fun ab => (ab.1, ab.2, [])) := by
  unfold elTransform afScale
  rcases hsc : c.scaling with ⟨hid, sW, sH⟩
  simp only [hk]

theorem pw_araffine {c : ElCfg} (hk : c.kind = "araffine") : pw c = 2 := by simp [pw, hk]

theorem afScale_pos (e : Float → ℝ) (c : ElCfg) (he : 0 ≤ e (c.ds.getD 0 0.0)) (p : List ℝ) :
    0 < afScale (NF.realX e) c p := by
  have hsp : ∀ u : ℝ, 0 < (NF.realX e).softplus u := by
    intro u
    rw [realX_softplus]
    split
    · linarith
    · exact Real.log_pos (by linarith [Real.exp_pos u])
  have := hsp (p.getD 0 (NF.realX e).zero)
  simp only [afScale, realX_add, realX_ofFloat]
  linarith

theorem scaleShiftT_real_invertible_rev (e : Float → ℝ) (scale shift yi : ℝ) (hs : scale ≠ 0) {x l : ℝ}
    (h : scaleShiftT (NF.realX e) scale shift true yi = .ok (x, l)) :
    scaleShiftT (NF.realX e) scale shift false x = .ok (yi, (NF.realX e).neg l) := by
  simp only [scaleShiftT, if_true, Except.ok.injEq, Prod.mk.injEq] at h
  obtain ⟨rfl, rfl⟩ := h
  simp only [scaleShiftT, Bool.false_eq_true, if_false, realX_add, realX_mul, realX_sub, realX_div, realX_neg,
    realX_log, neg_neg]
  congr 2
  field_simp
  ring

/-- the affine element never raises, in either direction, for any scalar type -/
theorem araffine_ok (o : XOps α) (c : ElCfg) (hk : c.kind = "araffine") (inverse : Bool) (p : List α) (x : α) :
    ∃ v, elTransform o c inverse p x = .ok v := by
  rw [elTransform_araffine o c hk]
  cases inverse <;> exact ⟨_, rfl⟩

theorem arElInvertible_araffine_real (e : Float → ℝ) (c : ElCfg) (hk : c.kind = "araffine")
    (he : 0 ≤ e (c.ds.getD 0 0.0)) (F : Nat) (params : Array ℝ) (B : Nat) :
    ArElInvertible (NF.realX e) c F params B ∧ ArElInvertibleRev (NF.realX e) c F params B := by
  constructor
  · intro b i xi y l al _ _ hf
    rw [elTransform_araffine _ c hk] at hf ⊢
    have hpos := afScale_pos e c he (arSlice (NF.realX e) c F params b i)
    cases hr : scaleShiftT (NF.realX e) (afScale (NF.realX e) c (arSlice (NF.realX e) c F params b i))
        ((arSlice (NF.realX e) c F params b i).getD 1 (NF.realX e).zero) false xi with
    | error err => rw [hr] at hf; simp [Except.map] at hf
    | ok v =>
      obtain ⟨y', l'⟩ := v
      rw [hr] at hf
      simp only [Except.map, Except.ok.injEq, Prod.mk.injEq] at hf
      obtain ⟨rfl, rfl, rfl⟩ := hf
      rw [scaleShiftT_real_invertible e _ _ xi hpos.ne' hr]
      exact ⟨[], rfl⟩
  · intro b i yi x l al _ _ hf
    rw [elTransform_araffine _ c hk] at hf ⊢
    have hpos := afScale_pos e c he (arSlice (NF.realX e) c F params b i)
    cases hr : scaleShiftT (NF.realX e) (afScale (NF.realX e) c (arSlice (NF.realX e) c F params b i))
        ((arSlice (NF.realX e) c F params b i).getD 1 (NF.realX e).zero) true yi with
    | error err => rw [hr] at hf; simp [Except.map] at hf
    | ok v =>
      obtain ⟨x', l'⟩ := v
      rw [hr] at hf
      simp only [Except.map, Except.ok.injEq, Prod.mk.injEq] at hf
      obtain ⟨rfl, rfl, rfl⟩ := hf
      rw [scaleShiftT_real_invertible_rev e _ _ yi hpos.ne' hr]
      exact ⟨[], rfl⟩

/-- no pass of the affine transform raises (any scalar type, any conditioner) -/
theorem ar_affine_err_none (o : XOps α) (c : ElCfg) (hk : c.kind = "araffine") (B F : Nat)
    (net : Array α → Array α) (x : Array α) :
    (arForward o c B F net x).err = none ∧ (x.size = B * F → (arInverse o c B F net x).err = none) := by
  constructor
  · rw [arForward, arApply, elemwise_err_none]
    intro b i _ _
    rw [arEl_eq]; exact araffine_ok o c hk false _ _
  · intro hx
    exact ar_inverse_err_none o c B F net x hx (fun z _ b i _ _ => araffine_ok o c hk true _ _)

/-- **C02 for the executed masked AFFINE autoregressive transform (MAF) over the reals**: any autoregressive
    conditioner, any `B`, `F`, any input array of the right size — no other hypothesis than the reading of the
    constant `eps` (`1e-3`) as a non-negative real. -/
theorem ar_affine_roundtrip_real (e : Float → ℝ) (c : ElCfg) (hk : c.kind = "araffine")
    (he : 0 ≤ e (c.ds.getD 0 0.0)) (B F : Nat) (net : Array ℝ → Array ℝ) (hnet : AutoregNet B F 2 net)
    (x : Array ℝ) (hx : x.size = B * F) :
    (let fwd := arForward (NF.realX e) c B F net x
     let inv := arInverse (NF.realX e) c B F net fwd.out
     fwd.err = none ∧ inv.err = none ∧ inv.out = x
      ∧ (∀ k, AgreeBelow B F k (arIter (NF.realX e) c B F net fwd.out k).out x)
      ∧ (0 < F → ∀ b, b < B → inv.ld[b]? = (fwd.ld[b]?).map (fun l => -l)))
    ∧ (let inv := arInverse (NF.realX e) c B F net x
       let fwd := arForward (NF.realX e) c B F net inv.out
       inv.err = none ∧ fwd.err = none ∧ fwd.out = x
        ∧ (0 < F → ∀ b, b < B → fwd.ld[b]? = (inv.ld[b]?).map (fun l => -l))) := by
  have hnet' : AutoregNet B F (pw c) net := by rw [pw_araffine hk]; exact hnet
  constructor
  · intro fwd inv
    have h1 := (ar_affine_err_none (NF.realX e) c hk B F net x).1
    obtain ⟨h3, h4, _, h5⟩ := ar_inverse_forward_real e c B F net x hnet'
      (arElInvertible_araffine_real e c hk he F (net x) B).1 h1 hx
    exact ⟨h1, (ar_affine_err_none (NF.realX e) c hk B F net _).2 (arApply_out_size ..), h3, h4, h5⟩
  · intro inv fwd
    have h1 := (ar_affine_err_none (NF.realX e) c hk B F net x).2 hx
    obtain ⟨h2, h3, h4⟩ := ar_forward_inverse_real e c B F net x hnet' hx h1
      (arElInvertible_araffine_real e c hk he F _ B).2
    exact ⟨h1, h3, h2, h4⟩

section madeAffine
open NF.Made

/-- **MAF with a MADE conditioner, unconditionally**: every architecture accepted by `build` with multiplier `2`,
    every weight / bias / context / activation / batch-norm / dropout assignment, every `B`, every `[B, F]` input:
    the `F`-pass inverse loop undoes the forward pass (and the forward pass undoes the loop), nothing raises, the
    log-dets are negated. -/
theorem made_affine_roundtrip_real (e : Float → ℝ) (c : ElCfg) (hk : c.kind = "araffine")
    (he : 0 ≤ e (c.ds.getD 0 0.0)) (a : Arch) (n : Net) (hbuild : build a = .ok n) (hmult : a.mult = 2)
    (W : ℕ → ℕ → ℕ → ℝ) (bias : ℕ → ℕ → ℝ) (B : Nat) (ctxv : ℕ → ℕ → Fin B → ℝ)
    (g : ℕ → Slot → ℕ → (Fin B → ℝ) → Fin B → ℝ) (x : Array ℝ) (hx : x.size = B * a.F) :
    let net := madeNet n W bias B ctxv g
    (let fwd := arForward (NF.realX e) c B a.F net x
     let inv := arInverse (NF.realX e) c B a.F net fwd.out
     fwd.err = none ∧ inv.err = none ∧ inv.out = x
      ∧ (∀ k, AgreeBelow B a.F k (arIter (NF.realX e) c B a.F net fwd.out k).out x)
      ∧ (∀ b, b < B → inv.ld[b]? = (fwd.ld[b]?).map (fun l => -l)))
    ∧ (let inv := arInverse (NF.realX e) c B a.F net x
       let fwd := arForward (NF.realX e) c B a.F net inv.out
       inv.err = none ∧ fwd.err = none ∧ fwd.out = x
        ∧ (∀ b, b < B → fwd.ld[b]? = (inv.ld[b]?).map (fun l => -l))) := by
  obtain ⟨hv, hF, hm, hFa, hma⟩ := build_valid hbuild
  have hnet : AutoregNet B a.F 2 (madeNet n W bias B ctxv g) := by
    rw [← hmult, ← hma, ← hFa]; exact madeNet_autoreg n hv hm W bias B ctxv g
  intro net
  obtain ⟨⟨h1, h2, h3, h4, h5⟩, ⟨k1, k2, k3, k4⟩⟩ := ar_affine_roundtrip_real e c hk he B a.F _ hnet x hx
  exact ⟨⟨h1, h2, h3, h4, h5 (by omega)⟩, ⟨k1, k2, k3, k4 (by omega)⟩⟩

end madeAffine

/-! ## 9. C01: the per-element derivative law discharged for the affine and the bounded-RQ family -/

theorem elMap_affine (e : Float → ℝ) (c : ElCfg) (hk : c.kind = "araffine") (F : Nat) (params : Array ℝ) (b i : Nat) :
    elMap e c F params b i = fun s => s * afScale (NF.realX e) c (arSlice (NF.realX e) c F params b i)
      + (arSlice (NF.realX e) c F params b i).getD 1 0 := by
  funext s
  unfold elMap
  rw [elTransform_araffine _ c hk]
  simp [scaleShiftT, Except.map, outOf]

theorem ldOf_affine (e : Float → ℝ) (c : ElCfg) (hk : c.kind = "araffine") (F : Nat) (x params : Array ℝ) (b i : Nat) :
    ldOf (NF.realX e) (arEl (NF.realX e) c F x params false b i)
      = Real.log (afScale (NF.realX e) c (arSlice (NF.realX e) c F params b i)) := by
  rw [arEl_eq, elTransform_araffine _ c hk]
  simp [scaleShiftT, Except.map, ldOf]

/-- **C01 for the executed MAF row**: `ld[b] = log |det J_b|`, no element hypothesis -/
theorem ar_affine_row_logdet (e : Float → ℝ) (c : ElCfg) (hk : c.kind = "araffine")
    (he : 0 ≤ e (c.ds.getD 0 0.0)) (B F : Nat) (net : Array ℝ → Array ℝ) (x : Array ℝ)
    (hnet : AutoregNet B F 2 net) (hx : x.size = B * F) {b : Nat} (hb : b < B)
    {L : (Fin F → ℝ) →L[ℝ] (Fin F → ℝ)}
    (hL : HasFDerivAt (rowMap e c B F net x b) L (fun i => x.getD (b * F + i.1) 0)) :
    (arForward (NF.realX e) c B F net x).ld[b]?
      = some (Real.log |LinearMap.det (L : (Fin F → ℝ) →ₗ[ℝ] (Fin F → ℝ))|) := by
  apply ar_row_logdet e c B F net x (by rw [pw_araffine hk]; exact hnet) hx hb hL
  intro i
  rw [elMap_affine e c hk, ldOf_affine e c hk,
    Real.exp_log (afScale_pos e c he (arSlice (NF.realX e) c F (net x) b i))]
  have h := ((hasDerivAt_id (x.getD (b * F + i.1) 0)).mul_const
    (afScale (NF.realX e) c (arSlice (NF.realX e) c F (net x) b i))).add_const
    ((arSlice (NF.realX e) c F (net x) b i).getD 1 0)
  simpa using h

theorem elMap_rq (e : Float → ℝ) (c : ElCfg) (hk : c.kind = "rq") (ht : c.tails = false) (F : Nat)
    (params : Array ℝ) (b i : Nat) :
    elMap e c F params b i = RQWhole.val e (rqCfgOf c)
      (rqW (NF.realX e) c (arSlice (NF.realX e) c F params b i))
      (rqH (NF.realX e) c (arSlice (NF.realX e) c F params b i))
      (rqD c (arSlice (NF.realX e) c F params b i)) := by
  funext s
  unfold elMap RQWhole.val
  rw [elTransform_rq _ c hk ht]
  cases rqSpline (NF.realX e) (rqCfgOf c) (rqW (NF.realX e) c (arSlice (NF.realX e) c F params b i))
    (rqH (NF.realX e) c (arSlice (NF.realX e) c F params b i)) (rqD c (arSlice (NF.realX e) c F params b i)) false s with
  | error err => simp [Except.map, outOf]
  | ok v => rfl

theorem ldOf_rq (e : Float → ℝ) (c : ElCfg) (hk : c.kind = "rq") (ht : c.tails = false) (F : Nat)
    (x params : Array ℝ) (b i : Nat) :
    ldOf (NF.realX e) (arEl (NF.realX e) c F x params false b i) = RQWhole.ld e (rqCfgOf c)
      (rqW (NF.realX e) c (arSlice (NF.realX e) c F params b i))
      (rqH (NF.realX e) c (arSlice (NF.realX e) c F params b i))
      (rqD c (arSlice (NF.realX e) c F params b i)) (x.getD (b * F + i) 0) := by
  unfold RQWhole.ld
  rw [arEl_eq, elTransform_rq _ c hk ht, realX_zero]
  cases rqSpline (NF.realX e) (rqCfgOf c) (rqW (NF.realX e) c (arSlice (NF.realX e) c F params b i))
    (rqH (NF.realX e) c (arSlice (NF.realX e) c F params b i)) (rqD c (arSlice (NF.realX e) c F params b i)) false
    (x.getD (b * F + i) 0) with
  | error err => simp [Except.map, ldOf]
  | ok v => rfl

/-- **C01 for a row of the executed bounded-RQ autoregressive transform**: when every feature of row `b` lies
    strictly inside a bin of its own spline (the splines are `C¹` but the executed program is only proved
    differentiable away from the knots), `ld[b] = log |det J_b|` -/
theorem ar_rq_row_logdet (e : Float → ℝ) (c : ElCfg) (hc : RQCfgValid e c) (B F : Nat)
    (net : Array ℝ → Array ℝ) (x : Array ℝ) (hnet : AutoregNet B F (3 * c.K + 1) net) (hx : x.size = B * F)
    {b : Nat} (hb : b < B)
    (hbin : ∀ i : Fin F, ∃ k, k < c.K ∧
      RQWhole.xs e (rqCfgOf c) (rqW (NF.realX e) c (arSlice (NF.realX e) c F (net x) b i)) k < x.getD (b * F + i.1) 0
      ∧ x.getD (b * F + i.1) 0
          < RQWhole.xs e (rqCfgOf c) (rqW (NF.realX e) c (arSlice (NF.realX e) c F (net x) b i)) (k + 1))
    {L : (Fin F → ℝ) →L[ℝ] (Fin F → ℝ)}
    (hL : HasFDerivAt (rowMap e c B F net x b) L (fun i => x.getD (b * F + i.1) 0)) :
    (arForward (NF.realX e) c B F net x).ld[b]?
      = some (Real.log |LinearMap.det (L : (Fin F → ℝ) →ₗ[ℝ] (Fin F → ℝ))|) := by
  apply ar_row_logdet e c B F net x (by rw [pw_rq hc.hk hc.ht]; exact hnet) hx hb hL
  intro i
  obtain ⟨k, hk, h0, h1⟩ := hbin i
  have hv := rqNetValid_of_cfg e c hc B F net x hx b i hb i.2
  have hlen : (rqW (NF.realX e) c (arSlice (NF.realX e) c F (net x) b i)).length = c.K := by
    rw [rqW, rqScale_length, List.length_take, arSlice_length, pw_rq hc.hk hc.ht]; omega
  rw [elMap_rq e c hc.hk hc.ht, ldOf_rq e c hc.hk hc.ht]
  exact RQWhole.val_hasDerivAt hv k (by rw [hlen]; exact hk) _ h0 h1

/-! ## 10. Refinement: on one row the executed loop IS the abstract iteration of `Lemmas/AutoregInverse.lean`

`AutoregInverse.arIter g finv y z₀ k` (`Properties.C02.autoregressive_inverse_exact`) is the abstract `k`-pass
iteration on `Fin F → X`.  With `g v i` = the parameter vector the conditioner returns for feature `i`, `finv` / `f` =
the executed element maps (zero where they raise, as `arApply` stores), the executed loop state of a one-row batch
is that iteration, pass by pass, and `AutoregNet` is `StrictAR g`.  (The abstract theorem needs the element inverse
to be TOTAL, `∀ p x, finv p (f p x) = x`, which fails for splines outside their box; the executed theorems above need
it only where the forward pass succeeded.) -/

section refine
variable (o : XOps α) (c : ElCfg) (F : Nat) (net : Array α → Array α)

/-- a one-row array as a function on features -/
def toFn (z : Array α) : Fin F → α := fun i => z.getD i.1 o.zero
/-- the conditioner on one row: parameter vector of feature `i` -/
def absG : (Fin F → α) → Fin F → List α := fun v i => arSlice o c F (net (Array.ofFn v)) 0 i
/-- the executed element maps as total functions (zero where the element raises) -/
def absF (p : List α) (x : α) : α := outOf o (elTransform o c false p x)
def absFinv (p : List α) (y : α) : α := outOf o (elTransform o c true p y)

theorem ofFn_toFn {z : Array α} (hz : z.size = F) : Array.ofFn (toFn o F z) = z := by
  apply Array.ext
  · simp [hz]
  · intro i h1 h2
    simp only [Array.getElem_ofFn, toFn]
    exact getD_of_lt h2 _

theorem toFn_pass (x params : Array α) (inverse : Bool) (i : Fin F) :
    toFn o F (arApply o c 1 F x params inverse).out i
      = outOf o (elTransform o c inverse (arSlice o c F params 0 i) (toFn o F x i)) := by
  have h := elemwise_out_getElem? o 1 F (arEl o c F x params inverse) (Nat.zero_lt_one) i.2
  simp only [Nat.zero_mul, Nat.zero_add] at h
  unfold toFn
  rw [Array.getD_eq_getD_getElem?, arApply, h, arEl_eq]
  simp only [Nat.zero_mul, Nat.zero_add]
  rfl

/-- **the executed loop state after `k` passes is the abstract iteration** (one-row batch, from zeros) -/
theorem arIter_refines (y : Array α) (hy : y.size = F) (k : Nat) :
    toFn o F (arIter o c 1 F net y k).out
      = AutoregInverse.arIter (absG o c F net) (absFinv o c) (toFn o F y) (fun _ => o.zero) k := by
  induction k with
  | zero =>
    funext i
    simp only [arIter, arInit, toFn, AutoregInverse.arIter, Array.getD_eq_getD_getElem?, Array.getElem?_replicate,
      Function.iterate_zero, id]
    split <;> rfl
  | succ k ih =>
    funext i
    rw [arIter_succ, arPass_out, toFn_pass]
    simp only [AutoregInverse.arIter, AutoregInverse.arPass, absFinv, absG]
    rw [← ih, ofFn_toFn o F (by rw [arIter_out_size o c 1 F net y (by omega) k]; omega)]

theorem arForward_refines (x : Array α) (hx : x.size = F) :
    toFn o F (arForward o c 1 F net x).out
      = AutoregInverse.arForward (absG o c F net) (absF o c) (toFn o F x) := by
  funext i
  rw [arForward, toFn_pass]
  simp only [AutoregInverse.arForward, absF, absG]
  rw [ofFn_toFn o F hx]

/-- `AutoregNet` on a one-row batch is the abstract `StrictAR` -/
theorem strictAR_of_autoregNet (hnet : AutoregNet 1 F (pw c) net) : AutoregInverse.StrictAR (absG o c F net) := by
  intro v v' i hag
  unfold absG
  apply arSlice_of_agree o c hnet (k := i.1) (by simp) (by simp) ?_ Nat.zero_lt_one i.2 (le_refl _)
  intro b j hb hj hji
  have hb0 : b = 0 := by omega
  subst hb0
  simp only [Nat.zero_mul, Nat.zero_add]
  rw [Array.getElem?_eq_getElem (by simpa using hj), Array.getElem?_eq_getElem (by simpa using hj)]
  simp only [Array.getElem_ofFn]
  exact congrArg some (hag ⟨j, hj⟩ hji)

/-- the abstract theorem `AutoregInverse.autoregressive_inverse_exact`, transported to the executed loop, for an
    element family whose (totalised) inverse is exact everywhere — e.g. the affine family over the reals -/
theorem ar_row_inverse_via_abstract (hnet : AutoregNet 1 F (pw c) net)
    (hinv : ∀ p x, absFinv o c p (absF o c p x) = x) (x : Array α) (hx : x.size = F) :
    toFn o F (arInverse o c 1 F net (arForward o c 1 F net x).out).out = toFn o F x := by
  rw [arInverse_eq_iter, arIter_refines o c F net _ (by rw [arForward, arApply_out_size]; omega), arForward_refines o c F net x hx]
  exact AutoregInverse.autoregressive_inverse_exact _ _ _ (strictAR_of_autoregNet o c F net hnet) hinv _ _

end refine

end NF.ARWhole
