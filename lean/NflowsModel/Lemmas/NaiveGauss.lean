import NflowsModel.Core.LinearFamily
import NflowsModel.Real.LinearBridge
import NflowsModel.Lemmas.LinearJacobian
import NflowsModel.Lemmas.CachePaths
import Mathlib.Tactic
import Mathlib.Data.List.GetD
import Mathlib.LinearAlgebra.Matrix.ToLinearEquiv
import Mathlib.LinearAlgebra.Matrix.NonsingularInverse
import Mathlib.LinearAlgebra.Matrix.Determinant.Basic

/-!
# Lemmas/NaiveGauss — the EXECUTED Gauss–Jordan elimination with partial pivoting (`NaiveLinear`) is verified (C11, C01)

`Core/LinearFamily` realises `torch.inverse` / `torch.slogdet` / `torch.lu` + `lu_solve` of `NaiveLinear`
(linear.py:151-232) as ONE program: `gaussStep` folded over the columns of `[W | I]`, the pivot row chosen by `argmaxCol`.
Until now that program entered every theorem as a hypothesis (`LinearJacobian.naiveInvRow_affine_of_spec`,
`CachePaths.naive_inverse_executed`, `Properties.C11.naive_roundtrip`).  Here it is verified at `realOps`, for every `n`
and every real `n × n` matrix `W`:

* §1 `argmaxCol_spec`: the selected row exists and has the largest modulus in the column;
* §2 determinant facts: `det_elim_step` (scale + eliminate divides `det` by the pivot), `abs_det_perm` (moving the pivot
  row is a permutation of the rows: `|det|` unchanged, via the order-independent Gram matrix), `det_zero_of_col`;
* §3 the invariant `Inv W c done rest pivs` after `c` columns: every row `[a | b]` satisfies `a = b ᵥ* W`; the first `c`
  columns of the left block are unit vectors on `done` and zero on `rest`; `|det (left block)| * |∏ pivs| = |det W|`; all
  pivots are non-zero.  `Inv.step` (one `gaussStep` preserves it when the pivot is non-zero), `Inv.pivot_ne_zero`
  (for `det W ≠ 0` the pivot IS non-zero: no division by zero);
* §4 `inv_run`, `final_of_inv`; singular input: `inv_or_zero_run`, `zero_pivot_of_singular`;
* §5 headlines `naive_inverse_is_inverse`, `naive_logabsdet_is_log_abs_det`, `naive_pivot_ne_zero`, `gaussInverse_ok`,
  `gaussInverse_singular`, `gaussInverse_error_iff`, `naive_pivots_ne_zero`, `naive_pivots_prod`;
* §6 the specification hypotheses discharged: `naive_inverse_row_is_affine`, `naive_roundtrip_executed`,
  `naive_combined_executed`, `naive_logdet_is_log_abs_det_fderiv`, `naive_logdet_is_log_abs_det_fderiv_inverse`;
* §7 instances (2 × 2 and 3 × 3 needing a row swap; the program also evaluated directly), and what the model returns at the
  reals for a singular `W` (`naiveLogabsdet_singular_example`: the hypothesis `det W ≠ 0` is forced).
-/

open NF.LF DualSound Matrix LinearBridge

namespace NaiveGauss
variable {n : ℕ}

/-! ## 0. scalars and list plumbing -/

theorem absA_real (x : ℝ) : absA realOps x = |x| := by
  unfold absA
  rw [realOps_lt, LFTriSolve.zero_real]
  by_cases h : x < 0
  · simp only [h, decide_true, if_true]; exact (abs_of_neg h).symm
  · simp only [h, decide_false]; exact (abs_of_nonneg (not_lt.mp h)).symm

/-- the row operation of `gaussStep`: `r - r[c] * nrow` -/
def elimRow (c : ℕ) (nrow r : List ℝ) : List ℝ := List.zipWith (fun a b => a - r.getD c 0 * b) r nrow

theorem length_elimRow (c : ℕ) (nrow r : List ℝ) : (elimRow c nrow r).length = min r.length nrow.length := by
  simp [elimRow]

theorem getD_nrow (prow : List ℝ) (piv : ℝ) (j : ℕ) : (prow.map (· / piv)).getD j 0 = prow.getD j 0 / piv := by
  by_cases hj : j < prow.length
  · simp [List.getD_eq_getElem?_getD, hj]
  · simp [List.getD_eq_getElem?_getD, List.getElem?_eq_none (not_lt.mp hj)]

theorem getD_elimRow (c : ℕ) (prow r : List ℝ) (piv : ℝ) (h : r.length = prow.length) (j : ℕ) :
    (elimRow c (prow.map (· / piv)) r).getD j 0 = r.getD j 0 - r.getD c 0 * (prow.getD j 0 / piv) := by
  unfold elimRow
  by_cases hj : j < r.length
  · have hj' : j < prow.length := h ▸ hj
    simp [List.getD_eq_getElem?_getD, hj, hj']
  · have hj' : ¬ j < prow.length := h ▸ hj
    simp [List.getD_eq_getElem?_getD, List.getElem?_zipWith, List.getElem?_eq_none (not_lt.mp hj),
      List.getElem?_eq_none (not_lt.mp hj')]

theorem getD_map_mid {β : Type} (A B : List β) (x y : β) (e : β → β) (d : β) (i : ℕ)
    (hi : i < (A ++ x :: B).length) :
    (A.map e ++ y :: B.map e).getD i d = if i = A.length then y else e ((A ++ x :: B).getD i d) := by
  rcases lt_trichotomy i A.length with h | h | h
  · rw [List.getD_append _ _ _ _ (by simpa using h), List.getD_append _ _ _ _ h, if_neg (ne_of_lt h)]
    simp [List.getD_eq_getElem?_getD, h]
  · subst h
    rw [List.getD_append_right _ _ _ _ (by simp)]
    simp
  · rw [List.getD_append_right _ _ _ _ (by simpa using h.le), List.getD_append_right _ _ _ _ h.le, if_neg (ne_of_gt h)]
    simp only [List.length_map]
    obtain ⟨m, hm⟩ : ∃ m, i - A.length = m + 1 := ⟨i - A.length - 1, by omega⟩
    rw [hm]
    simp only [List.getD_cons_succ]
    have hmB : m < B.length := by simp at hi; omega
    simp [List.getD_eq_getElem?_getD, hmB]

theorem sum_fin_getD {β : Type} (L : List β) (d : β) (hl : L.length = n) (f : β → ℝ) :
    ∑ i : Fin n, f (L.getD i d) = (L.map f).sum := by
  subst hl
  rw [← List.sum_ofFn]
  congr 1
  apply List.ext_getElem
  · simp
  · intro i h1 h2
    have hi : i < L.length := by simpa using h1
    simp [List.getD_eq_getElem?_getD]

/-! ## 1. `argmaxCol`: the selected row has the largest modulus in column `c` -/

theorem fold_some (f : Option (ℝ × ℕ) → ℝ × ℕ → Option (ℝ × ℕ))
    (hf : ∀ b p, f (some b) p = if b.1 < p.1 then some p else some b) (ps : List (ℝ × ℕ)) (b0 : ℝ × ℕ) :
    ∃ b, ps.foldl f (some b0) = some b ∧
      (b = b0 ∨ b ∈ ps) ∧ b0.1 ≤ b.1 ∧ ∀ p ∈ ps, p.1 ≤ b.1 := by
  induction ps generalizing b0 with
  | nil => exact ⟨b0, rfl, Or.inl rfl, le_refl _, by simp⟩
  | cons p ps ih =>
    rw [List.foldl_cons]
    by_cases h : b0.1 < p.1
    · obtain ⟨b, hb, hmem, h0, hall⟩ := ih p
      refine ⟨b, ?_, ?_, le_trans h.le h0, ?_⟩
      · rw [← hb, hf, if_pos h]
      · rcases hmem with rfl | hm
        · exact Or.inr (List.mem_cons_self)
        · exact Or.inr (List.mem_cons_of_mem _ hm)
      · intro q hq
        rcases List.mem_cons.mp hq with rfl | hq
        · exact h0
        · exact hall q hq
    · obtain ⟨b, hb, hmem, h0, hall⟩ := ih b0
      refine ⟨b, ?_, ?_, h0, ?_⟩
      · rw [← hb, hf, if_neg h]
      · rcases hmem with rfl | hm
        · exact Or.inl rfl
        · exact Or.inr (List.mem_cons_of_mem _ hm)
      · intro q hq
        rcases List.mem_cons.mp hq with rfl | hq
        · exact le_trans (not_lt.mp h) h0
        · exact hall q hq

theorem argmaxCol_spec (rows : List (List ℝ)) (c : ℕ) (hne : rows ≠ []) :
    argmaxCol realOps rows c < rows.length ∧
    ∀ r ∈ rows, |r.getD c 0| ≤ |(rows.getD (argmaxCol realOps rows c) []).getD c 0| := by
  unfold argmaxCol
  simp only [LFTriSolve.zero_real, List.length_map]
  generalize hps : (rows.map (fun r => absA realOps (r.getD c 0))).zip (List.range rows.length) = ps
  have hpslen : ps.length = rows.length := by rw [← hps]; simp
  have hget : ∀ i (h : i < ps.length), ps[i] = (|(rows.getD i []).getD c 0|, i) := by
    intro i h
    have hi : i < rows.length := hpslen ▸ h
    subst hps
    simp [absA_real, List.getD_eq_getElem?_getD, hi]
  cases ps with
  | nil => exact absurd (List.length_eq_zero_iff.mp hpslen.symm) hne
  | cons p0 ps' =>
    rw [List.foldl_cons]
    dsimp only
    suffices h : ∀ f : Option (ℝ × ℕ) → ℝ × ℕ → Option (ℝ × ℕ),
        (∀ b p, f (some b) p = if realOps.lt b.1 p.1 = true then some p else some b) →
        ((ps'.foldl f (some p0)).elim 0 (fun b => b.2)) < rows.length ∧
        ∀ r ∈ rows, |r.getD c 0| ≤ |(rows.getD ((ps'.foldl f (some p0)).elim 0 (fun b => b.2)) []).getD c 0| from
      h _ (fun b p => rfl)
    intro f hf
    obtain ⟨b, hb, hmem, h0, hall⟩ := fold_some f (fun b p => by
      rw [hf, realOps_lt]; simp only [decide_eq_true_eq]) ps' p0
    rw [hb]
    simp only [Option.elim]
    have hbmem : b ∈ p0 :: ps' := by
      rcases hmem with rfl | hm
      · exact List.mem_cons_self
      · exact List.mem_cons_of_mem _ hm
    obtain ⟨i, hi, hbi⟩ := List.mem_iff_getElem.mp hbmem
    rw [hget i hi] at hbi
    subst hbi
    refine ⟨hpslen ▸ hi, ?_⟩
    intro r hr
    obtain ⟨i', hi', rfl⟩ := List.mem_iff_getElem.mp hr
    have hi'' : i' < (p0 :: ps').length := by rw [hpslen]; exact hi'
    have hle : ((p0 :: ps')[i']).1 ≤ |(rows.getD i []).getD c 0| := by
      rcases List.mem_cons.mp (List.getElem_mem hi'') with h | h
      · rw [h]; exact h0
      · exact hall _ h
    rw [hget i' hi''] at hle
    simpa [List.getD_eq_getElem?_getD, hi'] using hle

/-! ## 2. determinant facts (matrix level) -/

/-- one scaling-and-elimination step divides the determinant by the pivot -/
theorem det_elim_step (M M' : Matrix (Fin n) (Fin n) ℝ) (p q : Fin n) (piv : ℝ) (hp : piv ≠ 0)
    (h : ∀ i j, M' i j = if i = p then M p j / piv else M i j - M i q * (M p j / piv)) :
    M'.det * piv = M.det := by
  have hN : (M.updateRow p (fun j => M p j / piv)).det = piv⁻¹ * M.det := by
    have : (fun j => M p j / piv) = piv⁻¹ • (M p) := by funext j; simp [div_eq_inv_mul]
    rw [this, det_updateRow_smul, updateRow_eq_self]
  have hM' : M'.det = (M.updateRow p (fun j => M p j / piv)).det := by
    apply det_eq_of_forall_row_eq_smul_add_const (fun i => if i = p then 0 else - M i q) p (by simp)
    intro i j
    rw [h]
    by_cases hi : i = p
    · subst hi; simp
    · simp [hi, updateRow_ne]; ring
  rw [hM', hN]; field_simp

/-- if the first `c` columns are unit vectors and column `c` vanishes from row `c` on, the matrix is singular -/
theorem det_zero_of_col (M : Matrix (Fin n) (Fin n) ℝ) (c : Fin n)
    (h1 : ∀ i j : Fin n, j < c → M i j = if i = j then 1 else 0)
    (h2 : ∀ i : Fin n, c ≤ i → M i c = 0) : M.det = 0 := by
  rw [← exists_mulVec_eq_zero_iff]
  refine ⟨fun j => if j = c then 1 else if j < c then - M j c else 0, ?_, ?_⟩
  · intro h; have := congrFun h c; simp at this
  · funext i
    simp only [mulVec, dotProduct, Pi.zero_apply]
    by_cases hi : i < c
    · have hterm : ∀ j : Fin n, M i j * (if j = c then 1 else if j < c then - M j c else 0)
          = (if j = c then M i c else 0) + (if j = i then - M i c else 0) := by
        intro j
        by_cases hjc : j = c
        · subst hjc; simp [hi.ne']
        · by_cases hj : j < c
          · rw [h1 i j hj]
            by_cases hij : i = j
            · subst hij; simp [hjc, hj]
            · simp [hjc, hj, hij, Ne.symm hij]
          · have : j ≠ i := by rintro rfl; exact hj hi
            simp [hjc, hj, this]
      rw [Finset.sum_congr rfl (fun j _ => hterm j), Finset.sum_add_distrib]
      simp
    · apply Finset.sum_eq_zero
      intro j _
      by_cases hjc : j = c
      · subst hjc; rw [h2 i (not_lt.mp hi)]; simp
      · by_cases hj : j < c
        · rw [h1 i j hj, if_neg (by rintro rfl; exact hi hj)]; simp
        · simp [hjc, hj]

/-- the left `n × n` block of a list of (augmented) rows -/
def lm (n : ℕ) (L : List (List ℝ)) : Matrix (Fin n) (Fin n) ℝ := fun i j => (L.getD i []).getD j 0

/-- the Gram matrix `MᵀM` written with order-independent list sums -/
def gramL (n : ℕ) (L : List (List ℝ)) : Matrix (Fin n) (Fin n) ℝ :=
  fun j j' => (L.map (fun r => r.getD j 0 * r.getD j' 0)).sum

theorem lm_gram (L : List (List ℝ)) (hl : L.length = n) : (lm n L)ᵀ * lm n L = gramL n L := by
  ext j j'
  simp only [Matrix.mul_apply, transpose_apply, lm, gramL]
  exact sum_fin_getD L [] hl (fun r => r.getD j 0 * r.getD j' 0)

/-- a permutation of the rows does not change `|det|` -/
theorem abs_det_perm (L L' : List (List ℝ)) (h : L.Perm L') (hl : L.length = n) :
    |(lm n L).det| = |(lm n L').det| := by
  have hl' : L'.length = n := h.length_eq ▸ hl
  have hg : gramL n L = gramL n L' := by
    funext j j'
    exact (h.map _).sum_eq
  have h1 : (lm n L).det ^ 2 = (gramL n L).det := by
    rw [← lm_gram L hl, det_mul, det_transpose, sq]
  have h2 : (lm n L').det ^ 2 = (gramL n L').det := by
    rw [← lm_gram L' hl', det_mul, det_transpose, sq]
  exact (sq_eq_sq_iff_abs_eq_abs _ _).mp (by rw [h1, h2, hg])

/-! ## 3. the invariant of `gaussStep` -/

/-- an augmented row `[a | b]` with `a = b ᵥ* W` -/
def RowOK (W : Matrix (Fin n) (Fin n) ℝ) (r : List ℝ) : Prop :=
  r.length = n + n ∧ ∀ j : Fin n, r.getD j 0 = ∑ k : Fin n, r.getD (n + k) 0 * W k j

theorem rowOK_nrow (W : Matrix (Fin n) (Fin n) ℝ) (prow : List ℝ) (piv : ℝ) (h : RowOK W prow) :
    RowOK W (prow.map (· / piv)) := by
  refine ⟨by rw [List.length_map]; exact h.1, ?_⟩
  intro j
  rw [getD_nrow, h.2 j, Finset.sum_div]
  apply Finset.sum_congr rfl
  intro k _
  rw [getD_nrow]; ring

theorem rowOK_elim (W : Matrix (Fin n) (Fin n) ℝ) (c : ℕ) (prow r : List ℝ) (piv : ℝ) (hp : RowOK W prow) (hr : RowOK W r) :
    RowOK W (elimRow c (prow.map (· / piv)) r) := by
  have hlen : r.length = prow.length := by rw [hr.1, hp.1]
  refine ⟨by rw [length_elimRow, List.length_map, hr.1, hp.1, min_self], ?_⟩
  intro j
  rw [getD_elimRow c prow r piv hlen, hr.2 j, hp.2 j]
  have : ∀ k : Fin n, (elimRow c (prow.map (· / piv)) r).getD (n + k) 0 * W k j
      = r.getD (n + k) 0 * W k j - r.getD c 0 / piv * (prow.getD (n + k) 0 * W k j) := by
    intro k
    rw [getD_elimRow c prow r piv hlen]; ring
  rw [Finset.sum_congr rfl (fun k _ => this k), Finset.sum_sub_distrib, ← Finset.mul_sum]
  ring

/-- the pivot row / pivot / normalised pivot row chosen by `gaussStep` in column `c` -/
noncomputable def pivRow (c : ℕ) (rest : List (List ℝ)) : List ℝ := rest.getD (argmaxCol realOps rest c) []
noncomputable def pivot (c : ℕ) (rest : List (List ℝ)) : ℝ := (pivRow c rest).getD c 0
noncomputable def nrowOf (c : ℕ) (rest : List (List ℝ)) : List ℝ := (pivRow c rest).map (· / pivot c rest)

/-- `gaussStep`, unfolded, on a non-empty remainder -/
theorem gaussStep_eq (c : ℕ) (done rest : List (List ℝ)) (pivs : List ℝ) (hne : rest ≠ []) :
    gaussStep realOps c (done, rest, pivs) =
      (done.map (elimRow c (nrowOf c rest)) ++ [nrowOf c rest],
       (rest.eraseIdx (argmaxCol realOps rest c)).map (elimRow c (nrowOf c rest)), pivs ++ [pivot c rest]) := by
  cases rest with
  | nil => exact absurd rfl hne
  | cons r rs =>
    simp only [gaussStep, LFTriSolve.zero_real]
    rfl

/-- invariant after the columns `0 … c-1` have been processed (`W` is the input matrix) -/
structure Inv (W : Matrix (Fin n) (Fin n) ℝ) (c : ℕ) (done rest : List (List ℝ)) (pivs : List ℝ) : Prop where
  lenD : done.length = c
  lenT : done.length + rest.length = n
  rows : ∀ r ∈ done ++ rest, RowOK W r
  unit : ∀ i < c, ∀ j < c, (done.getD i []).getD j 0 = if i = j then 1 else 0
  zero : ∀ r ∈ rest, ∀ j < c, r.getD j 0 = 0
  det : |(lm n (done ++ rest)).det| * |pivs.prod| = |W.det|
  piv : ∀ p ∈ pivs, p ≠ 0
  lenP : pivs.length = c

section step
variable {W : Matrix (Fin n) (Fin n) ℝ} {c : ℕ} {done rest : List (List ℝ)} {pivs : List ℝ}

theorem Inv.rest_ne (h : Inv W c done rest pivs) (hc : c < n) : rest ≠ [] := by
  intro hr
  have := h.lenT; have := h.lenD
  subst hr
  simp at *; omega

theorem Inv.argmax_lt (h : Inv W c done rest pivs) (hc : c < n) : argmaxCol realOps rest c < rest.length :=
  (argmaxCol_spec rest c (h.rest_ne hc)).1

theorem Inv.pivRow_mem (h : Inv W c done rest pivs) (hc : c < n) : pivRow c rest ∈ rest := by
  have hk := h.argmax_lt hc
  unfold pivRow
  rw [List.getD_eq_getElem?_getD, List.getElem?_eq_getElem hk, Option.getD_some]
  exact List.getElem_mem hk

theorem Inv.pivRow_ok (h : Inv W c done rest pivs) (hc : c < n) : RowOK W (pivRow c rest) :=
  h.rows _ (List.mem_append_right _ (h.pivRow_mem hc))

/-- the pivot is non-zero as soon as the remaining column is not identically zero (any list of rows) -/
theorem pivot_ne_zero_of_col (c : ℕ) (rest : List (List ℝ)) (h : ∃ r ∈ rest, r.getD c 0 ≠ 0) : pivot c rest ≠ 0 := by
  obtain ⟨r, hr, hne⟩ := h
  intro hp
  have := (argmaxCol_spec rest c (List.ne_nil_of_mem hr)).2 r hr
  have hp' : (rest.getD (argmaxCol realOps rest c) []).getD c 0 = 0 := hp
  rw [hp', abs_zero] at this
  exact hne (abs_eq_zero.mp (le_antisymm this (abs_nonneg _)))

/-- **no division by zero**: for a non-singular input, the pivot selected by `argmaxCol` is non-zero -/
theorem Inv.pivot_ne_zero (h : Inv W c done rest pivs) (hc : c < n) (hW : W.det ≠ 0) : pivot c rest ≠ 0 := by
  intro hp
  have hcol : ∀ r ∈ rest, r.getD c 0 = 0 := by
    intro r hr
    have := (argmaxCol_spec rest c (h.rest_ne hc)).2 r hr
    have hp' : (rest.getD (argmaxCol realOps rest c) []).getD c 0 = 0 := hp
    rw [hp', abs_zero] at this
    exact abs_eq_zero.mp (le_antisymm this (abs_nonneg _))
  have hrest : ∀ i : Fin n, c ≤ i → (done ++ rest).getD i [] ∈ rest := by
    intro i hi
    rw [List.getD_append_right _ _ _ _ (by rw [h.lenD]; exact hi)]
    have : (i : ℕ) - done.length < rest.length := by have := h.lenT; have := i.2; have := h.lenD; omega
    rw [List.getD_eq_getElem?_getD, List.getElem?_eq_getElem this, Option.getD_some]
    exact List.getElem_mem this
  have hdet : (lm n (done ++ rest)).det = 0 := by
    apply det_zero_of_col _ ⟨c, hc⟩
    · intro i j hj
      have hj' : (j : ℕ) < c := hj
      by_cases hi : (i : ℕ) < c
      · show ((done ++ rest).getD i []).getD j 0 = _
        rw [List.getD_append _ _ _ _ (by rw [h.lenD]; exact hi), h.unit i hi j hj']
        simp only [Fin.ext_iff]
      · show ((done ++ rest).getD i []).getD j 0 = _
        rw [h.zero _ (hrest i (not_lt.mp hi)) j hj', if_neg]
        intro hij; rw [hij] at hi; exact hi hj'
    · intro i hi
      exact hcol _ (hrest i hi)
  have := h.det
  rw [hdet, abs_zero, zero_mul] at this
  exact hW (abs_eq_zero.mp this.symm)

/-- determinant bookkeeping of one step: swap (a permutation of the rows), scale, eliminate -/
theorem Inv.det_step (h : Inv W c done rest pivs) (hc : c < n) (hp : pivot c rest ≠ 0) :
    |(lm n ((done.map (elimRow c (nrowOf c rest)) ++ [nrowOf c rest]) ++
        (rest.eraseIdx (argmaxCol realOps rest c)).map (elimRow c (nrowOf c rest)))).det| * |pivot c rest|
      = |(lm n (done ++ rest)).det| := by
  have hk := h.argmax_lt hc
  have hprow : pivRow c rest = rest[argmaxCol realOps rest c] := by
    unfold pivRow
    rw [List.getD_eq_getElem?_getD, List.getElem?_eq_getElem hk, Option.getD_some]
  have hperm : (done ++ pivRow c rest :: rest.eraseIdx (argmaxCol realOps rest c)).Perm (done ++ rest) := by
    rw [hprow]
    exact List.Perm.append_left done (List.getElem_cons_eraseIdx_perm hk)
  have hlen0 : (done ++ pivRow c rest :: rest.eraseIdx (argmaxCol realOps rest c)).length = n := by
    rw [hperm.length_eq, List.length_append]; exact h.lenT
  rw [← abs_det_perm _ _ hperm hlen0, ← abs_mul]
  congr 1
  apply det_elim_step _ _ ⟨c, hc⟩ ⟨c, hc⟩ _ hp
  intro i j
  have hi : (i : ℕ) < (done ++ pivRow c rest :: rest.eraseIdx (argmaxCol realOps rest c)).length := by
    rw [hlen0]; exact i.2
  have hrow : ((done.map (elimRow c (nrowOf c rest)) ++ [nrowOf c rest]) ++
        (rest.eraseIdx (argmaxCol realOps rest c)).map (elimRow c (nrowOf c rest))).getD i []
      = if (i : ℕ) = done.length then nrowOf c rest
        else elimRow c (nrowOf c rest) ((done ++ pivRow c rest :: rest.eraseIdx (argmaxCol realOps rest c)).getD i []) := by
    rw [List.append_assoc, List.singleton_append]
    exact getD_map_mid _ _ _ _ _ _ _ hi
  have hpiv0 : (done ++ pivRow c rest :: rest.eraseIdx (argmaxCol realOps rest c)).getD c [] = pivRow c rest := by
    rw [List.getD_append_right _ _ _ _ (by rw [h.lenD]), h.lenD]; simp
  show (_ : List ℝ).getD j 0 = if i = ⟨c, hc⟩ then
      ((done ++ pivRow c rest :: rest.eraseIdx (argmaxCol realOps rest c)).getD c []).getD j 0 / pivot c rest
    else ((done ++ pivRow c rest :: rest.eraseIdx (argmaxCol realOps rest c)).getD i []).getD j 0 -
      ((done ++ pivRow c rest :: rest.eraseIdx (argmaxCol realOps rest c)).getD i []).getD c 0 *
      (((done ++ pivRow c rest :: rest.eraseIdx (argmaxCol realOps rest c)).getD c []).getD j 0 / pivot c rest)
  rw [hrow, hpiv0, h.lenD]
  by_cases hic : (i : ℕ) = c
  · rw [if_pos hic, if_pos (Fin.ext hic)]
    exact getD_nrow _ _ _
  · rw [if_neg hic, if_neg (fun hh => hic (congrArg Fin.val hh))]
    have hmem : (done ++ pivRow c rest :: rest.eraseIdx (argmaxCol realOps rest c)).getD i [] ∈ done ++ rest := by
      rw [List.getD_eq_getElem?_getD, List.getElem?_eq_getElem hi, Option.getD_some]
      exact hperm.subset (List.getElem_mem hi)
    have hl : ((done ++ pivRow c rest :: rest.eraseIdx (argmaxCol realOps rest c)).getD i []).length
        = (pivRow c rest).length := by
      rw [(h.rows _ hmem).1, (h.pivRow_ok hc).1]
    exact getD_elimRow c _ _ _ hl j

/-- **one `gaussStep` preserves the invariant** whenever the selected pivot is non-zero -/
theorem Inv.step (h : Inv W c done rest pivs) (hc : c < n) (hp : pivot c rest ≠ 0) :
    Inv W (c + 1) (done.map (elimRow c (nrowOf c rest)) ++ [nrowOf c rest])
      ((rest.eraseIdx (argmaxCol realOps rest c)).map (elimRow c (nrowOf c rest))) (pivs ++ [pivot c rest]) := by
  have hk := h.argmax_lt hc
  have hpm := h.pivRow_mem hc
  have hpok := h.pivRow_ok hc
  have hpp : (pivRow c rest).getD c 0 / pivot c rest = 1 := div_self hp
  have hpz : ∀ j < c, (pivRow c rest).getD j 0 = 0 := h.zero _ hpm
  have hothers : ∀ r ∈ rest.eraseIdx (argmaxCol realOps rest c), r ∈ rest := fun r hr => List.mem_of_mem_eraseIdx hr
  have hlen : ∀ r ∈ done ++ rest, r.length = (pivRow c rest).length := fun r hr => by rw [(h.rows r hr).1, hpok.1]
  refine ⟨?_, ?_, ?_, ?_, ?_, ?_, ?_, ?_⟩
  · simp [h.lenD]
  · have := h.lenT
    simp only [List.length_append, List.length_map, List.length_singleton, List.length_eraseIdx, hk, if_true]
    omega
  · intro r hr
    simp only [List.mem_append, List.mem_map, List.mem_singleton] at hr
    rcases hr with (⟨r0, hr0, rfl⟩ | rfl) | ⟨r0, hr0, rfl⟩
    · exact rowOK_elim W c _ _ _ hpok (h.rows _ (List.mem_append_left _ hr0))
    · exact rowOK_nrow W _ _ hpok
    · exact rowOK_elim W c _ _ _ hpok (h.rows _ (List.mem_append_right _ (hothers _ hr0)))
  · intro i hi j hj
    rcases Nat.lt_succ_iff_lt_or_eq.mp hi with hi' | rfl
    · have hid : i < done.length := h.lenD ▸ hi'
      rw [List.getD_append _ _ _ _ (by simpa using hid)]
      have hmem : done.getD i [] ∈ done := by
        rw [List.getD_eq_getElem?_getD, List.getElem?_eq_getElem hid, Option.getD_some]; exact List.getElem_mem hid
      have : (done.map (elimRow c (nrowOf c rest))).getD i [] = elimRow c (nrowOf c rest) (done.getD i []) := by
        simp [List.getD_eq_getElem?_getD, hid]
      rw [this]
      unfold nrowOf
      rw [getD_elimRow c _ _ _ (hlen _ (List.mem_append_left _ hmem))]
      rcases Nat.lt_succ_iff_lt_or_eq.mp hj with hj' | rfl
      · rw [hpz j hj', h.unit i hi' j hj']; simp
      · rw [hpp, if_neg (ne_of_lt hi')]; ring
    · rw [List.getD_append_right _ _ _ _ (by simp [h.lenD])]
      simp only [List.length_map, h.lenD, Nat.sub_self, List.getD_cons_zero]
      unfold nrowOf
      rw [getD_nrow]
      rcases Nat.lt_succ_iff_lt_or_eq.mp hj with hj' | rfl
      · rw [hpz j hj', if_neg (ne_of_gt hj')]; simp
      · rw [if_pos rfl]; exact hpp
  · intro r hr j hj
    obtain ⟨r0, hr0, rfl⟩ := List.mem_map.mp hr
    have hr0' := hothers _ hr0
    unfold nrowOf
    rw [getD_elimRow c _ _ _ (hlen _ (List.mem_append_right _ hr0'))]
    rcases Nat.lt_succ_iff_lt_or_eq.mp hj with hj' | rfl
    · rw [hpz j hj', h.zero r0 hr0' j hj']; simp
    · rw [hpp]; ring
  · rw [List.prod_append, List.prod_singleton, abs_mul, ← h.det, ← h.det_step hc hp]
    ring
  · intro p hpm'
    rcases List.mem_append.mp hpm' with hm | hm
    · exact h.piv p hm
    · rw [List.mem_singleton.mp hm]; exact hp
  · simp [h.lenP]

end step

/-! ## 4. the whole elimination -/

/-- the augmented matrix `[W | I]` as `gaussInverse` / `naiveLogabsdet` / `naiveInverse` build it -/
noncomputable def aug (W : Matrix (Fin n) (Fin n) ℝ) : List (List ℝ) :=
  ((ofMat W).zip (eye realOps n)).map (fun p => p.1 ++ p.2)

/-- the state after the columns `0 … c-1` -/
noncomputable def run (W : Matrix (Fin n) (Fin n) ℝ) (c : ℕ) : List (List ℝ) × List (List ℝ) × List ℝ :=
  (List.range c).foldl (fun st c => gaussStep realOps c st) ([], aug W, [])

theorem run_succ (W : Matrix (Fin n) (Fin n) ℝ) (c : ℕ) : run W (c + 1) = gaussStep realOps c (run W c) := by
  unfold run
  rw [List.range_succ, List.foldl_append]
  rfl

theorem aug_eq (W : Matrix (Fin n) (Fin n) ℝ) :
    aug W = List.ofFn (fun i : Fin n => List.ofFn (W i) ++ List.ofFn ((1 : Matrix (Fin n) (Fin n) ℝ) i)) := by
  unfold aug
  rw [eye_eq]
  unfold ofMat
  apply List.ext_getElem
  · simp
  · intro i h1 h2
    simp

theorem getD_left (x y : Fin n → ℝ) (j : Fin n) : (List.ofFn x ++ List.ofFn y).getD j 0 = x j := by
  rw [List.getD_append _ _ _ _ (by simp)]
  simp [List.getD_eq_getElem?_getD]

theorem getD_right (x y : Fin n → ℝ) (k : Fin n) : (List.ofFn x ++ List.ofFn y).getD (n + k) 0 = y k := by
  rw [List.getD_append_right _ _ _ _ (by simp)]
  simp [List.getD_eq_getElem?_getD]

theorem inv_init (W : Matrix (Fin n) (Fin n) ℝ) : Inv W 0 [] (aug W) [] := by
  have hmem : ∀ r ∈ aug W, ∃ i : Fin n, r = List.ofFn (W i) ++ List.ofFn ((1 : Matrix (Fin n) (Fin n) ℝ) i) := by
    intro r hr
    rw [aug_eq, List.mem_ofFn] at hr
    obtain ⟨i, hi⟩ := hr
    exact ⟨i, hi.symm⟩
  refine ⟨rfl, by simp [aug_eq], ?_, by intro i hi; omega, by intro r _ j hj; omega, ?_, by simp, rfl⟩
  · intro r hr
    obtain ⟨i, rfl⟩ := hmem r (by simpa using hr)
    refine ⟨by simp, ?_⟩
    intro j
    rw [getD_left]
    simp only [getD_right, Matrix.one_apply]
    simp
  · have : lm n ([] ++ aug W) = W := by
      funext i j
      show (([] ++ aug W).getD i []).getD j 0 = W i j
      rw [List.nil_append, aug_eq]
      have : (List.ofFn (fun i : Fin n => List.ofFn (W i) ++ List.ofFn ((1 : Matrix (Fin n) (Fin n) ℝ) i))).getD i []
          = List.ofFn (W i) ++ List.ofFn ((1 : Matrix (Fin n) (Fin n) ℝ) i) := by
        simp [List.getD_eq_getElem?_getD]
      rw [this, getD_left]
    rw [this]; simp

/-- **the invariant holds along the whole executed elimination** of a non-singular matrix -/
theorem inv_run (W : Matrix (Fin n) (Fin n) ℝ) (hW : W.det ≠ 0) :
    ∀ c ≤ n, Inv W c (run W c).1 (run W c).2.1 (run W c).2.2 := by
  intro c
  induction c with
  | zero => intro _; exact inv_init W
  | succ c ih =>
    intro hc
    have hc' : c < n := hc
    have h := ih hc'.le
    rw [run_succ]
    rcases hrun : run W c with ⟨done, rest, pivs⟩
    rw [hrun] at h
    replace h : Inv W c done rest pivs := h
    rw [gaussStep_eq c done rest pivs (h.rest_ne hc')]
    exact h.step hc' (h.pivot_ne_zero hc' hW)

/-- **no division by zero**: at every column of the elimination of a non-singular matrix the pivot found by `argmaxCol`
    (the entry of largest modulus in the remaining column) is non-zero -/
theorem naive_pivot_ne_zero (W : Matrix (Fin n) (Fin n) ℝ) (hW : W.det ≠ 0) (c : ℕ) (hc : c < n) :
    pivot c (run W c).2.1 ≠ 0 :=
  (inv_run W hW c hc.le).pivot_ne_zero hc hW

theorem sum_log_abs (ps : List ℝ) (h : ∀ p ∈ ps, p ≠ 0) : (ps.map (fun p => Real.log |p|)).sum = Real.log |ps.prod| := by
  induction ps with
  | nil => simp
  | cons p ps ih =>
    have hp : p ≠ 0 := h p List.mem_cons_self
    have hps : ∀ q ∈ ps, q ≠ 0 := fun q hq => h q (List.mem_cons_of_mem _ hq)
    have hprod : ps.prod ≠ 0 := List.prod_ne_zero (fun h0 => hps 0 h0 rfl)
    rw [List.map_cons, List.sum_cons, List.prod_cons, abs_mul, Real.log_mul (abs_ne_zero.mpr hp) (abs_ne_zero.mpr hprod),
      ih hps]

/-- what a final state is: the right blocks of the processed rows are a left inverse of `W`, nothing remains, the
    pivots are non-zero and their product is `± det W` -/
theorem final_of_inv {W : Matrix (Fin n) (Fin n) ℝ} {done rest : List (List ℝ)} {pivs : List ℝ} (h : Inv W n done rest pivs) :
    ∃ B : Matrix (Fin n) (Fin n) ℝ, done.map (fun r => r.drop n) = ofMat B ∧ B * W = 1 ∧
      rest = [] ∧ (∀ p ∈ pivs, p ≠ 0) ∧ |pivs.prod| = |W.det| ∧ pivs.length = n := by
  have hrest : rest = [] := by
    have := h.lenT; have := h.lenD
    exact List.length_eq_zero_iff.mp (by omega)
  subst hrest
  have hdmem : ∀ i : Fin n, done.getD i [] ∈ done := by
    intro i
    have hi : (i : ℕ) < done.length := by rw [h.lenD]; exact i.2
    rw [List.getD_eq_getElem?_getD, List.getElem?_eq_getElem hi, Option.getD_some]; exact List.getElem_mem hi
  have hok : ∀ i : Fin n, RowOK W (done.getD i []) := fun i => h.rows _ (by simpa using hdmem i)
  refine ⟨Matrix.of fun i k => (done.getD i []).getD (n + k) 0, ?_, ?_, rfl, h.piv, ?_, h.lenP⟩
  · apply List.ext_getElem
    · simp [ofMat, h.lenD]
    · intro i h1 h2
      have hi : i < done.length := by simpa using h1
      have hin : i < n := h.lenD ▸ hi
      have hrl : (done[i]).length = n + n := by
        have := (hok ⟨i, hin⟩).1
        simpa [List.getD_eq_getElem?_getD, hi] using this
      apply List.ext_getElem
      · simp [ofMat, hrl]
      · intro k h3 h4
        have hk : k < n := by simpa [ofMat] using h4
        have hnk : n + k < (done[i]).length := by rw [hrl]; omega
        simp [ofMat, List.getD_eq_getElem?_getD, hi, hnk]
  · ext i j
    rw [Matrix.mul_apply]
    simp only [Matrix.of_apply]
    rw [← (hok i).2 j, h.unit i i.2 j j.2, Matrix.one_apply]
    simp only [Fin.ext_iff]
  · have hone : lm n (done ++ []) = 1 := by
      funext i j
      show ((done ++ []).getD i []).getD j 0 = _
      rw [List.append_nil, h.unit i i.2 j j.2, Matrix.one_apply]
      simp only [Fin.ext_iff]
    have := h.det
    rw [hone, det_one, abs_one, one_mul] at this
    exact this

theorem run_final (W : Matrix (Fin n) (Fin n) ℝ) (hW : W.det ≠ 0) :
    ∃ B : Matrix (Fin n) (Fin n) ℝ, (run W n).1.map (fun r => r.drop n) = ofMat B ∧ B * W = 1 ∧
      (run W n).2.1 = [] ∧ (∀ p ∈ (run W n).2.2, p ≠ 0) ∧ |(run W n).2.2.prod| = |W.det| ∧ (run W n).2.2.length = n :=
  final_of_inv (inv_run W hW n le_rfl)

/-! ### singular input: a zero pivot is recorded -/

theorem gaussStep_keeps_zero (c : ℕ) (st : List (List ℝ) × List (List ℝ) × List ℝ) (h : (0 : ℝ) ∈ st.2.2) :
    (0 : ℝ) ∈ (gaussStep realOps c st).2.2 := by
  obtain ⟨done, rest, pivs⟩ := st
  by_cases hr : rest = []
  · subst hr; exact h
  · rw [gaussStep_eq c done rest pivs hr]
    exact List.mem_append_left _ h

/-- without any hypothesis on `W`: along the elimination either the invariant holds or a zero pivot has been recorded -/
theorem inv_or_zero_run (W : Matrix (Fin n) (Fin n) ℝ) :
    ∀ c ≤ n, Inv W c (run W c).1 (run W c).2.1 (run W c).2.2 ∨ (0 : ℝ) ∈ (run W c).2.2 := by
  intro c
  induction c with
  | zero => intro _; exact Or.inl (inv_init W)
  | succ c ih =>
    intro hc
    have hc' : c < n := hc
    rw [run_succ]
    rcases ih hc'.le with h | h
    · rcases hrun : run W c with ⟨done, rest, pivs⟩
      rw [hrun] at h
      replace h : Inv W c done rest pivs := h
      rw [gaussStep_eq c done rest pivs (h.rest_ne hc')]
      by_cases hp : pivot c rest = 0
      · right
        show (0 : ℝ) ∈ pivs ++ [pivot c rest]
        rw [hp]; simp
      · exact Or.inl (h.step hc' hp)
    · exact Or.inr (gaussStep_keeps_zero c _ h)

/-- a singular `W` makes the elimination record a zero pivot -/
theorem zero_pivot_of_singular (W : Matrix (Fin n) (Fin n) ℝ) (hW : W.det = 0) : (0 : ℝ) ∈ (run W n).2.2 := by
  rcases inv_or_zero_run W n le_rfl with h | h
  · exfalso
    obtain ⟨B, -, -, -, hpiv, hprod, -⟩ := final_of_inv h
    rw [hW, abs_zero, abs_eq_zero] at hprod
    exact List.prod_ne_zero (fun h0 => hpiv 0 h0 rfl) hprod
  · exact h

/-! ## 5. headlines -/

theorem naiveWinv_eq_run (W : Matrix (Fin n) (Fin n) ℝ) :
    LinearJacobian.naiveWinv realOps n (ofMat W) = (run W n).1.map (fun r => r.drop n) := rfl

theorem naivePivots_eq_run (W : Matrix (Fin n) (Fin n) ℝ) : NF.CachePaths.naivePivots realOps n (ofMat W) = (run W n).2.2 := rfl

theorem naiveLogabsdet_eq_run (W : Matrix (Fin n) (Fin n) ℝ) :
    naiveLogabsdet realOps n (ofMat W) = sum realOps ((run W n).2.2.map (fun p => realOps.log (absA realOps p))) := rfl

theorem gaussInverse_eq_run (W : Matrix (Fin n) (Fin n) ℝ) :
    gaussInverse realOps n (ofMat W) =
      if (run W n).2.2.any (fun p => !(realOps.lt p (zero realOps) || realOps.lt (zero realOps) p)) then .error .runtime
      else .ok ((run W n).1.map (fun r => r.drop n), (run W n).2.2) := rfl

/-- **`weight_inverse()` of `NaiveLinear`, as executed, is `W⁻¹`** for every `n` and every non-singular `W` -/
theorem naive_inverse_is_inverse (W : Matrix (Fin n) (Fin n) ℝ) (hW : W.det ≠ 0) :
    LinearJacobian.naiveWinv realOps n (ofMat W) = ofMat W⁻¹ := by
  obtain ⟨B, hB, hBW, -⟩ := run_final W hW
  rw [naiveWinv_eq_run, hB, Matrix.inv_eq_left_inv hBW]

/-- **`logabsdet()` of `NaiveLinear`, as executed, is `log |det W|`** -/
theorem naive_logabsdet_is_log_abs_det (W : Matrix (Fin n) (Fin n) ℝ) (hW : W.det ≠ 0) :
    naiveLogabsdet realOps n (ofMat W) = Real.log |W.det| := by
  obtain ⟨B, -, -, -, hpiv, hprod, -⟩ := run_final W hW
  rw [naiveLogabsdet_eq_run, LFTriSolve.sum_real, ← hprod, ← sum_log_abs _ hpiv]
  congr 1
  apply List.map_congr_left
  intro p _
  rw [absA_real]; rfl

theorem isZeroTest (p : ℝ) : (!(realOps.lt p (zero realOps) || realOps.lt (zero realOps) p)) = decide (p = 0) := by
  rw [realOps_lt, realOps_lt, LFTriSolve.zero_real]
  rcases lt_trichotomy p 0 with h | h | h
  · simp [h, h.ne]
  · simp [h]
  · simp [h, h.ne']

/-- **`weight_inverse()` (`torch.inverse`) succeeds on a non-singular `W` and returns `W⁻¹`** together with the pivots -/
theorem gaussInverse_ok (W : Matrix (Fin n) (Fin n) ℝ) (hW : W.det ≠ 0) :
    gaussInverse realOps n (ofMat W) = .ok (ofMat W⁻¹, NF.CachePaths.naivePivots realOps n (ofMat W)) := by
  obtain ⟨B, hB, hBW, -, hpiv, -⟩ := run_final W hW
  rw [gaussInverse_eq_run, naivePivots_eq_run, hB, Matrix.inv_eq_left_inv hBW, if_neg]
  simp only [isZeroTest, List.any_eq_true, decide_eq_true_eq, not_exists, not_and]
  exact fun p hp => hpiv p hp

/-- **singular `W`: the model reports `RuntimeError`** (torch raises `LinAlgError`), for every `n` -/
theorem gaussInverse_singular (W : Matrix (Fin n) (Fin n) ℝ) (hW : W.det = 0) :
    gaussInverse realOps n (ofMat W) = .error .runtime := by
  rw [gaussInverse_eq_run, if_pos]
  simp only [isZeroTest, List.any_eq_true, decide_eq_true_eq]
  exact ⟨0, zero_pivot_of_singular W hW, rfl⟩

/-- `weight_inverse()` raises exactly on the singular matrices -/
theorem gaussInverse_error_iff (W : Matrix (Fin n) (Fin n) ℝ) :
    gaussInverse realOps n (ofMat W) = .error .runtime ↔ W.det = 0 := by
  constructor
  · intro h
    by_contra hW
    rw [gaussInverse_ok W hW] at h
    cases h
  · exact gaussInverse_singular W

/-- every recorded pivot of a non-singular matrix is non-zero (the list `naive_combined_eq` speaks about) -/
theorem naive_pivots_ne_zero (W : Matrix (Fin n) (Fin n) ℝ) (hW : W.det ≠ 0) :
    ∀ p ∈ NF.CachePaths.naivePivots realOps n (ofMat W), p ≠ 0 := by
  obtain ⟨B, -, -, -, hpiv, -⟩ := run_final W hW
  exact hpiv

/-- the pivots multiply to `± det W` -/
theorem naive_pivots_prod (W : Matrix (Fin n) (Fin n) ℝ) (hW : W.det ≠ 0) :
    |(NF.CachePaths.naivePivots realOps n (ofMat W)).prod| = |W.det| := by
  obtain ⟨B, -, -, -, -, hprod, -⟩ := run_final W hW
  exact hprod

/-! ## 6. the specification hypotheses of `LinearJacobian` / `CachePaths` discharged -/

open LinearJacobian LinearFresh

/-- **`NaiveLinear.inverse` on one row is `y ↦ W⁻¹ (y - b)`**, unconditionally (`naiveInvRow_affine_of_spec` without `hspec`) -/
theorem naive_inverse_row_is_affine (W : Matrix (Fin n) (Fin n) ℝ) (hW : W.det ≠ 0) (b : List ℝ) (hb : b.length = n)
    (y : Fin n → ℝ) :
    naiveInvRow realOps n (ofMat W) b (List.ofFn y) = List.ofFn (invAffine W (vecFn n b) y) :=
  naiveInvRow_affine_of_spec W W⁻¹ b hb (naive_inverse_is_inverse W hW)
    (Matrix.nonsing_inv_mul W (isUnit_iff_ne_zero.mpr hW)) y

/-- **the executed inverse pass undoes the executed forward pass** (`CachePaths.naive_inverse_executed` without hypotheses
    on the elimination) -/
theorem naive_roundtrip_executed (W : Matrix (Fin n) (Fin n) ℝ) (hW : W.det ≠ 0) (b : List ℝ) (hb : b.length = n)
    (x : Fin n → ℝ) :
    naiveInverse realOps n (ofMat W) b (naiveForward realOps (ofMat W) b [List.ofFn x]) = [List.ofFn x] :=
  NF.CachePaths.naive_inverse_executed W W⁻¹ b hb _ (gaussInverse_ok W hW)
    (Matrix.nonsing_inv_mul W (isUnit_iff_ne_zero.mpr hW)) x

/-- `weight_inverse_and_logabsdet()` returns `(W⁻¹, log |det W|)` -/
theorem naive_combined_executed (W : Matrix (Fin n) (Fin n) ℝ) (hW : W.det ≠ 0) :
    NF.CachePaths.naiveCombinedInv realOps n (ofMat W) = .ok (ofMat W⁻¹, Real.log |W.det|) := by
  rw [(NF.CachePaths.naive_combined_eq realOps n (ofMat W) _ _ (gaussInverse_ok W hW)).1, naive_logabsdet_is_log_abs_det W hW]

/-- `NaiveLinear.forward` with its log-abs-det (`slogdet(W)[1] * ones(B)`, linear.py:172-184) -/
def naiveForwardLd {α : Type} (o : Ops α) (n : ℕ) (W : List (List α)) (b : List α) (X : List (List α)) : List (List α) × List α :=
  (naiveForward o W b X, timesOnes o (naiveLogabsdet o n W) X.length)
/-- `NaiveLinear.inverse` with its log-abs-det (`-sum(log|diag(lu)|) * ones(B)`, linear.py:186-199) -/
def naiveInverseLd {α : Type} (o : Ops α) (n : ℕ) (W : List (List α)) (b : List α) (X : List (List α)) : List (List α) × List α :=
  (naiveInverse o n W b X, timesOnes o (o.neg (naiveLogabsdet o n W)) X.length)

/-- **C01 + C12 for the executed `NaiveLinear.forward`**: row map `x ↦ W x + b`, derivative `jac W`, every returned
    log-abs-det entry (computed by the executed elimination) is `log |det (jac W)|` -/
theorem naive_logdet_is_log_abs_det_fderiv (W : Matrix (Fin n) (Fin n) ℝ) (hW : W.det ≠ 0) (b : List ℝ) (hb : b.length = n) :
    PassIs n (naiveForwardLd realOps n (ofMat W) b) (naiveRow realOps (ofMat W) b) (affine W (vecFn n b)) W :=
  pass_core _ _ _ _ (naiveLogabsdet realOps n (ofMat W))
    (fun X => by rw [naiveForwardLd, timesOnes_real, naiveForward_rowwise realOps _ b])
    (naiveRow_affine W b hb) (affine_hasFDerivAt _ _) hW (naive_logabsdet_is_log_abs_det W hW)

/-- **the executed `NaiveLinear.inverse`**: row map `y ↦ W⁻¹ (y - b)`, derivative `jac W⁻¹`, returned entries
    `log |det (jac W⁻¹)| = -log |det (jac W)|` -/
theorem naive_logdet_is_log_abs_det_fderiv_inverse (W : Matrix (Fin n) (Fin n) ℝ) (hW : W.det ≠ 0) (b : List ℝ)
    (hb : b.length = n) :
    PassIs n (naiveInverseLd realOps n (ofMat W) b) (naiveInvRow realOps n (ofMat W) b) (invAffine W (vecFn n b)) W⁻¹ ∧
    Real.log |(jac W⁻¹).det| = -Real.log |(jac W).det| :=
  ⟨pass_core _ _ _ _ (realOps.neg (naiveLogabsdet realOps n (ofMat W)))
    (fun X => by rw [naiveInverseLd, timesOnes_real, naiveInverse_rowwise realOps n _ b])
    (naive_inverse_row_is_affine W hW b hb) (invAffine_hasFDerivAt _ _) (det_inv_ne_zero _ hW)
    (by rw [neg_real, naive_logabsdet_is_log_abs_det W hW, log_abs_det_inv]),
   by rw [jac_det, jac_det, log_abs_det_inv]⟩

/-! ## 7. concrete instances (both need a row swap in column 0) -/

theorem det_ex2 : (!![0, 2; 1, 1] : Matrix (Fin 2) (Fin 2) ℝ).det = -2 := by
  rw [Matrix.det_fin_two_of]; norm_num

theorem inv_ex2 : (!![0, 2; 1, 1] : Matrix (Fin 2) (Fin 2) ℝ)⁻¹ = !![-1/2, 1; 1/2, 0] := by
  apply Matrix.inv_eq_left_inv
  ext i j
  fin_cases i <;> fin_cases j <;> norm_num [Matrix.mul_apply, Fin.sum_univ_two]

theorem det_ex3 : (!![0, 1, 2; 1, 0, 3; 4, -3, 8] : Matrix (Fin 3) (Fin 3) ℝ).det = -2 := by
  rw [Matrix.det_fin_three]; simp; norm_num

theorem inv_ex3 : (!![0, 1, 2; 1, 0, 3; 4, -3, 8] : Matrix (Fin 3) (Fin 3) ℝ)⁻¹
    = !![-9/2, 7, -3/2; -2, 4, -1; 3/2, -2, 1/2] := by
  apply Matrix.inv_eq_left_inv
  ext i j
  fin_cases i <;> fin_cases j <;> simp [Matrix.mul_apply, Fin.sum_univ_succ] <;> norm_num

/-- `naive_inverse_is_inverse`, 2 × 2 with a zero in the pivot position -/
example : naiveWinv realOps 2 (ofMat !![0, 2; 1, 1]) = [[-1/2, 1], [1/2, 0]] := by
  rw [naive_inverse_is_inverse _ (by rw [det_ex2]; norm_num), inv_ex2]
  simp [ofMat]

/-- `naive_inverse_is_inverse`, 3 × 3 with a row swap -/
example : naiveWinv realOps 3 (ofMat !![0, 1, 2; 1, 0, 3; 4, -3, 8]) = [[-9/2, 7, -3/2], [-2, 4, -1], [3/2, -2, 1/2]] := by
  rw [naive_inverse_is_inverse _ (by rw [det_ex3]; norm_num), inv_ex3]
  simp [ofMat]

/-- `naive_logabsdet_is_log_abs_det`, 2 × 2 and 3 × 3 -/
example : naiveLogabsdet realOps 2 (ofMat !![0, 2; 1, 1]) = Real.log 2 := by
  rw [naive_logabsdet_is_log_abs_det _ (by rw [det_ex2]; norm_num), det_ex2]; norm_num

example : naiveLogabsdet realOps 3 (ofMat !![0, 1, 2; 1, 0, 3; 4, -3, 8]) = Real.log 2 := by
  rw [naive_logabsdet_is_log_abs_det _ (by rw [det_ex3]; norm_num), det_ex3]; norm_num

/-- `gaussInverse_ok` / `naive_pivot_ne_zero`: the elimination succeeds although `W 0 0 = 0` -/
example : ∃ pivs, gaussInverse realOps 2 (ofMat !![0, 2; 1, 1]) = .ok ([[-1/2, 1], [1/2, 0]], pivs) ∧ ∀ p ∈ pivs, p ≠ 0 := by
  refine ⟨_, ?_, naive_pivots_ne_zero _ (by rw [det_ex2]; norm_num)⟩
  rw [gaussInverse_ok _ (by rw [det_ex2]; norm_num), inv_ex2]
  simp [ofMat]

example : pivot 0 (run (!![0, 1, 2; 1, 0, 3; 4, -3, 8] : Matrix (Fin 3) (Fin 3) ℝ) 0).2.1 ≠ 0 :=
  naive_pivot_ne_zero _ (by rw [det_ex3]; norm_num) 0 (by norm_num)

/-- `naive_roundtrip_executed` / `naive_logdet_is_log_abs_det_fderiv` on the 3 × 3 matrix -/
example (x : Fin 3 → ℝ) :
    naiveInverse realOps 3 (ofMat !![0, 1, 2; 1, 0, 3; 4, -3, 8]) [1, -1, 2]
      (naiveForward realOps (ofMat !![0, 1, 2; 1, 0, 3; 4, -3, 8]) [1, -1, 2] [List.ofFn x]) = [List.ofFn x] :=
  naive_roundtrip_executed (n := 3) !![0, 1, 2; 1, 0, 3; 4, -3, 8] (by rw [det_ex3]; norm_num) _ rfl x

example : PassIs 3 (naiveForwardLd realOps 3 (ofMat !![0, 1, 2; 1, 0, 3; 4, -3, 8]) [1, -1, 2])
    (naiveRow realOps (ofMat !![0, 1, 2; 1, 0, 3; 4, -3, 8]) [1, -1, 2])
    (affine !![0, 1, 2; 1, 0, 3; 4, -3, 8] (vecFn 3 [1, -1, 2])) !![0, 1, 2; 1, 0, 3; 4, -3, 8] :=
  naive_logdet_is_log_abs_det_fderiv _ (by rw [det_ex3]; norm_num) _ rfl

/-- **singular input**: `weight_inverse()` of the model reports `RuntimeError` (torch: `LinAlgError`) -/
example : gaussInverse realOps 2 (ofMat !![1, 2; 2, 4]) = .error .runtime :=
  gaussInverse_singular _ (by rw [Matrix.det_fin_two_of]; norm_num)

example : gaussInverse realOps 3 (ofMat !![1, 2, 3; 4, 5, 6; 7, 8, 9]) = .error .runtime :=
  gaussInverse_singular _ (by rw [Matrix.det_fin_three]; simp; norm_num)

/-! ### the executed program evaluated directly (no theorem in between): the recorded pivots show the row swaps -/

theorem realOps_neg (a : ℝ) : realOps.neg a = -a := rfl

/-- column 0 of `!![0, 2; 1, 1]` has its largest modulus in row 1: the pivots are `1` then `2` (product `2 = -det W`) -/
example : NF.CachePaths.naivePivots realOps 2 (ofMat !![0, 2; 1, 1]) = [1, 2] := by
  norm_num [NF.CachePaths.naivePivots, ofMat, eye, tab2, gaussStep, argmaxCol, absA, realOps_lt, List.range_succ,
    LFIndex.realOps_sub, LFIndex.realOps_mul, LFIndex.realOps_div, realOps_neg, LFTriSolve.zero_real, LFTriSolve.one_real,
    List.eraseIdx]

/-- rows are taken in the order 2, 0, 1; the pivots `4, 1, -1/2` multiply to `-2 = det W` -/
example : NF.CachePaths.naivePivots realOps 3 (ofMat !![0, 1, 2; 1, 0, 3; 4, -3, 8]) = [4, 1, -1/2] := by
  norm_num [NF.CachePaths.naivePivots, ofMat, eye, tab2, gaussStep, argmaxCol, absA, realOps_lt, List.range_succ,
    LFIndex.realOps_sub, LFIndex.realOps_mul, LFIndex.realOps_div, realOps_neg, LFTriSolve.zero_real, LFTriSolve.one_real,
    List.eraseIdx]

/-- the same inverse as in the instance of `naive_inverse_is_inverse` above, by running the program -/
example : naiveWinv realOps 2 (ofMat !![0, 2; 1, 1]) = [[-1/2, 1], [1/2, 0]] := by
  norm_num [naiveWinv, ofMat, eye, tab2, gaussStep, argmaxCol, absA, realOps_lt, List.range_succ,
    LFIndex.realOps_sub, LFIndex.realOps_mul, LFIndex.realOps_div, realOps_neg, LFTriSolve.zero_real, LFTriSolve.one_real,
    List.eraseIdx]

/-! ### singular `W = !![1, 2; 2, 4]`: what the model returns AT THE REALS

`weight_inverse()` is `RuntimeError` (above).  The passes that do not raise (`logabsdet()`, `inverse_no_cache`, modelled on
`torch.slogdet` / `torch.lu` + `lu_solve`) record the zero pivot and go on dividing by it.  At `Float` that division gives
`inf`/`nan` and `log 0 = -inf` (what the library returns); at `realOps` Lean's total `x / 0 = 0`, `Real.log 0 = 0` give the
finite values below, so for singular `W` the real-number semantics says nothing about the floating-point run — the
hypothesis `det W ≠ 0` of every headline is forced. -/

example : NF.CachePaths.naivePivots realOps 2 (ofMat !![1, 2; 2, 4]) = [2, 0] := by
  norm_num [NF.CachePaths.naivePivots, ofMat, eye, tab2, gaussStep, argmaxCol, absA, realOps_lt, List.range_succ,
    LFIndex.realOps_sub, LFIndex.realOps_mul, LFIndex.realOps_div, realOps_neg, LFTriSolve.zero_real, LFTriSolve.one_real,
    List.eraseIdx]

/-- `naive_logabsdet_is_log_abs_det` is false without `det W ≠ 0`: here `det W = 0`, `log |det W| = 0`, the model returns
    `log 2` -/
theorem naiveLogabsdet_singular_example :
    naiveLogabsdet realOps 2 (ofMat !![1, 2; 2, 4]) = Real.log 2 ∧
    (!![1, 2; 2, 4] : Matrix (Fin 2) (Fin 2) ℝ).det = 0 ∧
    naiveLogabsdet realOps 2 (ofMat !![1, 2; 2, 4]) ≠ Real.log |(!![1, 2; 2, 4] : Matrix (Fin 2) (Fin 2) ℝ).det| := by
  have h1 : naiveLogabsdet realOps 2 (ofMat !![1, 2; 2, 4]) = Real.log 2 := by
    norm_num [naiveLogabsdet, sum, ofMat, eye, tab2, gaussStep, argmaxCol, absA, realOps_lt, List.range_succ,
      LFIndex.realOps_sub, LFIndex.realOps_mul, LFIndex.realOps_div, realOps_neg, LFIndex.realOps_log, LFIndex.realOps_add,
      LFTriSolve.zero_real, LFTriSolve.one_real, List.eraseIdx]
  have h2 : (!![1, 2; 2, 4] : Matrix (Fin 2) (Fin 2) ℝ).det = 0 := by rw [Matrix.det_fin_two_of]; norm_num
  refine ⟨h1, h2, ?_⟩
  rw [h1, h2, abs_zero, Real.log_zero]
  exact (Real.log_pos (by norm_num)).ne'

/-- the matrix `inverse_no_cache` multiplies by when `W` is singular (over ℝ; not an inverse of anything) -/
example : naiveWinv realOps 2 (ofMat !![1, 2; 2, 4]) = [[0, 1/2], [0, 0]] := by
  norm_num [naiveWinv, ofMat, eye, tab2, gaussStep, argmaxCol, absA, realOps_lt, List.range_succ,
    LFIndex.realOps_sub, LFIndex.realOps_mul, LFIndex.realOps_div, realOps_neg, LFTriSolve.zero_real, LFTriSolve.one_real,
    List.eraseIdx]

end NaiveGauss
