/-!
# Lemmas/CacheHistorical — the cache machine of `Linear` AS IT WAS CODED BEFORE the repair commit
`fix: Linear invalidates its weight cache on load_state_dict and on dtype/device conversion`

Historical record only (DESIGN appendix B.6, finding F11a/F11b): in that code `load` and `cast` did not touch the
cache, and the two `decide` theorems below are the minimal histories on which it returned stale outputs
(`stale_after_load`) or raised a dtype error (`dtype_after_cast`).  The machine of the CURRENT code is
`Core/Cache.lean`; there both ops invalidate and `Properties.C10.load_cast_repaired` shows that the same two
histories are now answered like the uncached transform.  Nothing here is used by the driver.
-/
namespace CacheHistorical


/-! C10 cache machine spike (core Lean only) -/
inductive DT | f32 | f64 deriving DecidableEq, Repr

structure Slot where
  ver : Nat
  dt : DT
  graphFreed : Bool      -- a backward pass already ran through the cached tensor's graph
deriving DecidableEq, Repr

structure St where
  training : Bool := true
  usingCache : Bool := false
  cW : Option Slot := none
  cInv : Option Slot := none
  cLd : Option Slot := none
  ver : Nat := 0
  dt : DT := .f32
deriving DecidableEq, Repr

inductive Op | train | eval | useCache (b : Bool) | fwd | inv | update | load | cast (d : DT) | fwdBwd
deriving DecidableEq, Repr

inductive Out | none | ok (ver : Nat) (dt : DT) | errDtype | errBackward | errNotTraining
deriving DecidableEq, Repr

def fill (s : St) (c : Option Slot) : Slot := c.getD ⟨s.ver, s.dt, false⟩

/-- mirrors linear.py:46-96 for LU/QR/SVD (cache slots hold tensors computed from the parameters) -/
def step (s : St) : Op → St × Out
  | .train => ({ s with training := true, cW := none, cInv := none, cLd := none }, .none)
  | .eval => ({ s with training := false }, .none)
  | .useCache b => ({ s with usingCache := b }, .none)
  | .fwd =>
    if !s.training && s.usingCache then
      let w := fill s s.cW; let l := fill s s.cLd
      let s' := { s with cW := some w, cLd := some l }
      if w.dt ≠ s.dt then (s', .errDtype) else (s', .ok w.ver w.dt)
    else (s, .ok s.ver s.dt)
  | .inv =>
    if !s.training && s.usingCache then
      let w := fill s s.cInv; let l := fill s s.cLd
      let s' := { s with cInv := some w, cLd := some l }
      if w.dt ≠ s.dt then (s', .errDtype) else (s', .ok w.ver w.dt)
    else (s, .ok s.ver s.dt)
  | .update => if s.training then ({ s with ver := s.ver + 1 }, .none) else (s, .errNotTraining)
  | .load => ({ s with ver := s.ver + 1 }, .none)
  | .cast d => ({ s with dt := d }, .none)
  | .fwdBwd =>
    if !s.training && s.usingCache then
      let w := fill s s.cW; let l := fill s s.cLd
      if w.dt ≠ s.dt then ({ s with cW := some w, cLd := some l }, .errDtype)
      else if w.graphFreed || l.graphFreed then ({ s with cW := some w, cLd := some l }, .errBackward)
      else ({ s with cW := some { w with graphFreed := true }, cLd := some { l with graphFreed := true } }, .ok w.ver w.dt)
    else (s, .ok s.ver s.dt)

/-- reference: same machine with the cache switched off -/
def stepRef (s : St) (o : Op) : St × Out := 
  let (s', out) := step { s with usingCache := false } o
  ({ s' with usingCache := false }, out)

def run (f : St → Op → St × Out) : St → List Op → List Out
  | _, [] => []
  | s, o :: os => let (s', out) := f s o; out :: run f s' os

def current (s : St) (c : Option Slot) : Prop := ∀ x, c = some x → x.ver = s.ver ∧ x.dt = s.dt ∧ x.graphFreed = false
def CInv (s : St) : Prop := (s.training = true → s.cW = none ∧ s.cInv = none ∧ s.cLd = none) ∧
  current s s.cW ∧ current s s.cInv ∧ current s s.cLd

def benign : Op → Bool
  | .load => false | .cast _ => false | .fwdBwd => false | _ => true

theorem inv_init : CInv ({} : St) := by simp [CInv, current]

theorem inv_step (s : St) (o : Op) (hb : benign o = true) (h : CInv s) : CInv (step s o).1 := by
  obtain ⟨ht, hw, hi, hl⟩ := h
  cases o <;> simp [benign] at hb <;> simp only [step]
  case train => simp [CInv, current]
  case eval => exact ⟨by simp, hw, hi, hl⟩
  case useCache b => exact ⟨by simpa using ht, hw, hi, hl⟩
  case fwd =>
    by_cases hc : (!s.training && s.usingCache) = true
    · have htr : s.training = false := by simp at hc; exact hc.1
      have key : ∀ c, current s c → current s (some (fill s c)) := by
        intro c hcur x hx
        cases c with
        | none => simp [fill] at hx; subst hx; simp
        | some y => simp [fill] at hx; subst hx; exact hcur y rfl
      simp only [hc, if_true]
      split <;> exact ⟨by simp [htr], key _ hw, hi, key _ hl⟩
    · simp only [hc]; exact ⟨ht, hw, hi, hl⟩
  case inv =>
    by_cases hc : (!s.training && s.usingCache) = true
    · have htr : s.training = false := by simp at hc; exact hc.1
      have key : ∀ c, current s c → current s (some (fill s c)) := by
        intro c hcur x hx
        cases c with
        | none => simp [fill] at hx; subst hx; simp
        | some y => simp [fill] at hx; subst hx; exact hcur y rfl
      simp only [hc, if_true]
      split <;> exact ⟨by simp [htr], hw, key _ hi, key _ hl⟩
    · simp only [hc]; exact ⟨ht, hw, hi, hl⟩
  case update =>
    by_cases htr : s.training = true
    · obtain ⟨e1, e2, e3⟩ := ht htr
      simp only [htr, if_true]
      exact ⟨fun _ => ⟨e1, e2, e3⟩, by simp [current, e1], by simp [current, e2], by simp [current, e3]⟩
    · simp only [htr]; exact ⟨ht, hw, hi, hl⟩

/-- minimal failing histories of the full-strength statement -/
theorem stale_after_load :
    run step {} [.eval, .useCache true, .fwd, .load, .fwd] ≠ run stepRef {} [.eval, .useCache true, .fwd, .load, .fwd] := by
  decide
theorem dtype_after_cast :
    run step {} [.eval, .useCache true, .fwd, .cast .f64, .fwd] ≠ run stepRef {} [.eval, .useCache true, .fwd, .cast .f64, .fwd] := by
  decide
theorem second_backward :
    run step {} [.eval, .useCache true, .fwdBwd, .fwdBwd] ≠ run stepRef {} [.eval, .useCache true, .fwdBwd, .fwdBwd] := by
  decide

end CacheHistorical
