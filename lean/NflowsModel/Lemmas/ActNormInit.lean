import Mathlib.Analysis.SpecialFunctions.Log.Basic
import Mathlib.Analysis.SpecialFunctions.Sqrt
import Mathlib.Algebra.BigOperators.Field
import Mathlib.Tactic

namespace ActNormInit


noncomputable section
open Finset

variable {B : ℕ}
/-- per-feature statistics as torch computes them: mean, unbiased std (normalization.py:213-217) -/
def mean (x : Fin B → ℝ) : ℝ := (∑ i, x i) / B
def varU (x : Fin B → ℝ) : ℝ := (∑ i, (x i - mean x)^2) / (B - 1)
def stdU (x : Fin B → ℝ) : ℝ := Real.sqrt (varU x)

/-- data-dependent init: log_scale = -log std, shift = -mean(x/std); output = exp(log_scale)·x + shift -/
def actnormInitOut (x : Fin B → ℝ) : Fin B → ℝ :=
  let std := stdU x
  let logScale := - Real.log std
  let shift := - mean (fun i => x i / std)
  fun i => Real.exp logScale * x i + shift

theorem mean_affine (x : Fin B → ℝ) (a c : ℝ) (hB : 0 < B) : mean (fun i => a * x i + c) = a * mean x + c := by
  unfold mean
  have hB' : (B:ℝ) ≠ 0 := by positivity
  rw [Finset.sum_add_distrib, ← Finset.mul_sum]
  simp only [Finset.sum_const, Finset.card_univ, Fintype.card_fin, nsmul_eq_mul]
  field_simp

theorem varU_affine (x : Fin B → ℝ) (a c : ℝ) (hB : 0 < B) : varU (fun i => a * x i + c) = a^2 * varU x := by
  unfold varU
  rw [mean_affine x a c hB]
  have : ∀ i, (a * x i + c - (a * mean x + c))^2 = a^2 * (x i - mean x)^2 := fun i => by ring
  simp_rw [this, ← Finset.mul_sum]
  ring

/-- the initialising batch comes out with mean 0 and unbiased variance 1 (needs B ≥ 2 and a non-constant feature) -/
theorem actnorm_init_normalises (x : Fin B → ℝ) (hB : 2 ≤ B) (hv : 0 < varU x) :
    mean (actnormInitOut x) = 0 ∧ varU (actnormInitOut x) = 1 := by
  have hB0 : 0 < B := by omega
  have hs : 0 < stdU x := Real.sqrt_pos.mpr hv
  have hexp : Real.exp (- Real.log (stdU x)) = (stdU x)⁻¹ := by
    rw [Real.exp_neg, Real.exp_log hs]
  have hform : actnormInitOut x = fun i => (stdU x)⁻¹ * x i + (- mean (fun i => x i / stdU x)) := by
    funext i; simp only [actnormInitOut, hexp]
  have hm : mean (fun i => x i / stdU x) = (stdU x)⁻¹ * mean x := by
    have : (fun i => x i / stdU x) = fun i => (stdU x)⁻¹ * x i + 0 := by funext i; rw [div_eq_inv_mul]; ring
    rw [this, mean_affine _ _ _ hB0]; ring
  constructor
  · rw [hform, mean_affine _ _ _ hB0, hm]; ring
  · rw [hform, varU_affine _ _ _ hB0]
    have : (stdU x)^2 = varU x := Real.sq_sqrt hv.le
    rw [inv_pow, this, inv_mul_cancel₀ hv.ne']


end
end ActNormInit
