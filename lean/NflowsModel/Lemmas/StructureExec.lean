import NflowsModel.Core.Structure
import NflowsModel.Lemmas.Coupling
import NflowsModel.Real.RealX
import Mathlib.Tactic
/-!
# Lemmas/StructureExec — theorems about the EXECUTED tensor-level structure model

`Core/Structure.lean` (`couplingApply`, `arApply`, `cdfApply`, `sumRows`: what the driver runs, generic in
`o : XOps α`) is tied to the abstract coupling theorems of `Lemmas/Coupling.lean`.  Everything up to section R is
generic in `o` and therefore holds at `Float` / `Float32` as well as at the reals.
-/
open NF

namespace NF.StructureExec
variable {α : Type}

/-! ## A. the folds that replace the loop state -/

theorem applyUpd_nil (a : Array α) : applyUpd [] a = a := rfl

theorem applyUpd_append (us vs : List (Nat × ElRes α)) (a : Array α) :
    applyUpd (us ++ vs) a = applyUpd vs (applyUpd us a) := by
  simp [applyUpd, List.foldl_append]

theorem applyUpd_snoc (us : List (Nat × ElRes α)) (u : Nat × ElRes α) (a : Array α) :
    applyUpd (us ++ [u]) a
      = (match u.2 with | .ok (y, _, _) => (applyUpd us a).set! u.1 y | .error _ => applyUpd us a) := by
  unfold applyUpd; rw [List.foldl_append]; rfl

@[simp] theorem applyUpd_size (us : List (Nat × ElRes α)) (a : Array α) : (applyUpd us a).size = a.size := by
  induction us using List.reverseRecOn with
  | nil => rfl
  | append_singleton us u ih =>
    rw [applyUpd_snoc]
    rcases u with ⟨j, r⟩
    rcases r with e | ⟨y, l, al⟩ <;> simp [ih]

/-- positions at which every update raised (in particular: positions that are never written) keep their value -/
theorem applyUpd_untouched (us : List (Nat × ElRes α)) (a : Array α) (j : Nat)
    (h : ∀ u ∈ us, u.1 = j → ∃ e, u.2 = .error e) : (applyUpd us a)[j]? = a[j]? := by
  induction us using List.reverseRecOn with
  | nil => rfl
  | append_singleton us u ih =>
    have ih' := ih (fun v hv => h v (List.mem_append_left _ hv))
    rw [applyUpd_snoc]
    rcases u with ⟨k, r⟩
    rcases r with e | ⟨y, l, al⟩
    · simpa using ih'
    · have hk : k ≠ j := by
        intro hkj
        obtain ⟨e, he⟩ := h (k, .ok (y, l, al)) (by simp) hkj
        simp at he
      simp only [Array.set!_eq_setIfInBounds]
      rw [Array.getElem?_setIfInBounds_ne hk]
      exact ih'

/-- a position all of whose updates succeed with the same value `y`, and which is updated at least once, holds `y` -/
theorem applyUpd_written (us : List (Nat × ElRes α)) (a : Array α) (j : Nat) (y : α)
    (hmem : ∃ u ∈ us, u.1 = j) (h : ∀ u ∈ us, u.1 = j → ∃ l al, u.2 = .ok (y, l, al)) (hj : j < a.size) :
    (applyUpd us a)[j]? = some y := by
  induction us using List.reverseRecOn with
  | nil => simp at hmem
  | append_singleton us u ih =>
    rw [applyUpd_snoc]
    rcases u with ⟨k, r⟩
    by_cases hk : k = j
    · subst hk
      obtain ⟨l, al, hr⟩ := h (k, r) (by simp) rfl
      simp only at hr
      subst hr
      simp [hj]
    · have hmem' : ∃ u ∈ us, u.1 = j := by
        obtain ⟨u, hu, huj⟩ := hmem
        rcases List.mem_append.1 hu with hu | hu
        · exact ⟨u, hu, huj⟩
        · simp at hu; subst hu; exact absurd huj hk
      have ih' := ih hmem' (fun v hv => h v (List.mem_append_left _ hv))
      rcases r with e | ⟨y', l, al⟩
      · simpa using ih'
      · simp only [Array.set!_eq_setIfInBounds]
        rw [Array.getElem?_setIfInBounds_ne hk]
        exact ih'

/-- how one element outcome changes the buffer entry it is written to: success replaces an existing entry,
    an error (or an out-of-range index) leaves it as it was -/
def selOut (r : ElRes α) (old : Option α) : Option α :=
  match r with
  | .ok (y, _, _) => old.map (fun _ => y)
  | .error _ => old

/-- a position whose updates all carry the same outcome `r` (and there is at least one) -/
theorem applyUpd_functional (us : List (Nat × ElRes α)) (a : Array α) (j : Nat) (r : ElRes α)
    (hmem : (j, r) ∈ us) (h : ∀ u ∈ us, u.1 = j → u.2 = r) : (applyUpd us a)[j]? = selOut r a[j]? := by
  rcases r with e | ⟨y, l, al⟩
  · exact applyUpd_untouched us a j (fun u hu huj => ⟨e, h u hu huj⟩)
  · by_cases hj : j < a.size
    · rw [applyUpd_written us a j y ⟨_, hmem, rfl⟩ (fun u hu huj => ⟨l, al, h u hu huj⟩) hj]
      simp [selOut, hj]
    · have h1 : (applyUpd us a)[j]? = none := by simp [hj]
      have h2 : a[j]? = none := by simp [hj]
      simp [selOut, h1, h2]

/-! ### first error -/

theorem firstErr_eq_none (rs : List (ElRes α)) : firstErr rs = none ↔ ∀ r ∈ rs, ∃ v, r = .ok v := by
  unfold firstErr
  rw [List.findSome?_eq_none_iff]
  constructor
  · intro h r hr
    rcases r with e | v
    · have := h _ hr; simp at this
    · exact ⟨v, rfl⟩
  · intro h r hr
    obtain ⟨v, rfl⟩ := h r hr
    rfl

theorem firstErr_append (rs ss : List (ElRes α)) :
    firstErr (rs ++ ss) = (firstErr rs).or (firstErr ss) := by
  simp [firstErr, List.findSome?_append]

/-! ### log-det accumulation -/

/-- when no element of the row raised, the accumulated value is the LEFT fold `((0 + l₁) + l₂) + …` of the
    log-dets in iteration order -/
theorem ldFold_ok (o : XOps α) (rs : List (ElRes α)) (h : ∀ r ∈ rs, ∃ v, r = .ok v) :
    ldFold o rs = (rs.map (ldOf o)).foldl o.add o.zero := by
  unfold ldFold
  rw [List.foldl_map]
  generalize o.zero = z
  induction rs generalizing z with
  | nil => rfl
  | cons r rs ih =>
    obtain ⟨⟨y, l, al⟩, rfl⟩ := h r (by simp)
    simp only [List.foldl_cons, ldOf]
    exact ih (fun r hr => h r (List.mem_cons_of_mem _ hr)) _

/-- in general the elements that raised are skipped -/
theorem ldFold_eq (o : XOps α) (rs : List (ElRes α)) :
    ldFold o rs = (rs.filterMap fun r => match r with | .ok (_, l, _) => some l | .error _ => none).foldl o.add o.zero := by
  unfold ldFold
  generalize o.zero = z
  induction rs generalizing z with
  | nil => rfl
  | cons r rs ih =>
    rcases r with e | ⟨y, l, al⟩
    · simpa [List.filterMap_cons] using ih z
    · simpa [List.filterMap_cons] using ih (o.add z l)

/-! ## B. index arithmetic and the iteration lists -/

theorem divmod_unique {S u u' s s' : Nat} (hs : s < S) (hs' : s' < S) (h : u * S + s = u' * S + s') :
    u = u' ∧ s = s' := by
  rcases Nat.lt_trichotomy u u' with hlt | heq | hgt
  · have h1 : (u + 1) * S ≤ u' * S := Nat.mul_le_mul_right S hlt
    rw [Nat.add_mul, Nat.one_mul] at h1
    omega
  · subst heq; omega
  · have h1 : (u' + 1) * S ≤ u * S := Nat.mul_le_mul_right S hgt
    rw [Nat.add_mul, Nat.one_mul] at h1
    omega

/-- the row-major flat index of a `[B, C, S]` tensor is injective on in-range `(channel, position)` pairs -/
theorem flatIdx_inj {C S b b' ch ch' s s' : Nat} (hc : ch < C) (hc' : ch' < C) (hs : s < S) (hs' : s' < S)
    (h : flatIdx C S b ch s = flatIdx C S b' ch' s') : b = b' ∧ ch = ch' ∧ s = s' := by
  unfold flatIdx at h
  obtain ⟨h1, h2⟩ := divmod_unique hs hs' h
  obtain ⟨h3, h4⟩ := divmod_unique hc hc' h1
  exact ⟨h3, h4, h2⟩

/-- an index list as `identityIdx` / `transformIdx` produce it: distinct entries below `C` -/
structure IdxOK (C : Nat) (idx : List Nat) : Prop where
  nodup : idx.Nodup
  lt : ∀ i ∈ idx, i < C

theorem identityIdx_ok (o : XOps α) (mask : List α) : IdxOK mask.length (identityIdx o mask) where
  nodup := List.Nodup.filter _ List.nodup_range
  lt := fun i hi => by simpa using (List.mem_filter.1 hi).1

theorem transformIdx_ok (o : XOps α) (mask : List α) : IdxOK mask.length (transformIdx o mask) where
  nodup := List.Nodup.filter _ List.nodup_range
  lt := fun i hi => by simpa using (List.mem_filter.1 hi).1

theorem getD_mem_of_lt {idx : List Nat} {t : Nat} (ht : t < idx.length) : idx.getD t 0 ∈ idx := by
  simp [List.getD, ht]

theorem IdxOK.getD_lt {C : Nat} {idx : List Nat} (h : IdxOK C idx) {t : Nat} (ht : t < idx.length) :
    idx.getD t 0 < C := h.lt _ (getD_mem_of_lt ht)

theorem IdxOK.getD_inj {C : Nat} {idx : List Nat} (h : IdxOK C idx) {t t' : Nat} (ht : t < idx.length)
    (ht' : t' < idx.length) (he : idx.getD t 0 = idx.getD t' 0) : t = t' := by
  have e1 : idx.getD t 0 = idx[t] := by simp [List.getD, ht]
  have e2 : idx.getD t' 0 = idx[t'] := by simp [List.getD, ht']
  rw [e1, e2] at he
  exact (List.Nodup.getElem_inj_iff h.nodup).1 he

theorem exists_getD_of_mem {idx : List Nat} {ch : Nat} (h : ch ∈ idx) : ∃ t, t < idx.length ∧ idx.getD t 0 = ch := by
  obtain ⟨t, ht, rfl⟩ := List.getElem_of_mem h
  exact ⟨t, ht, by simp [List.getD, ht]⟩

theorem mem_rowIter {n S t s : Nat} : (t, s) ∈ rowIter n S ↔ t < n ∧ s < S := by
  simp [rowIter, List.mem_flatMap]

theorem mem_tRow (o : XOps α) (C S : Nat) (idx : List Nat) (x : Array α) (el : Nat → Nat → α → ElRes α) (b : Nat)
    (u : Nat × ElRes α) :
    u ∈ tRow o C S idx x el b ↔ ∃ t s, t < idx.length ∧ s < S ∧
      u = (flatIdx C S b (idx.getD t 0) s, el t s (x.getD (flatIdx C S b (idx.getD t 0) s) o.zero)) := by
  unfold tRow
  simp only [List.mem_map, Prod.exists, mem_rowIter]
  constructor
  · rintro ⟨t, s, ⟨ht, hs⟩, rfl⟩; exact ⟨t, s, ht, hs, rfl⟩
  · rintro ⟨t, s, ht, hs, rfl⟩; exact ⟨t, s, ⟨ht, hs⟩, rfl⟩

/-- all rows of a pass, in iteration order -/
def tAll (o : XOps α) (C S : Nat) (idx : List Nat) (x : Array α) (el : Nat → Nat → Nat → α → ElRes α) (B : Nat) :
    List (Nat × ElRes α) :=
  (List.range B).flatMap fun b => tRow o C S idx x (el b) b

theorem mem_tAll (o : XOps α) (C S : Nat) (idx : List Nat) (x : Array α) (el : Nat → Nat → Nat → α → ElRes α) (B : Nat)
    (u : Nat × ElRes α) :
    u ∈ tAll o C S idx x el B ↔ ∃ b t s, b < B ∧ t < idx.length ∧ s < S ∧
      u = (flatIdx C S b (idx.getD t 0) s, el b t s (x.getD (flatIdx C S b (idx.getD t 0) s) o.zero)) := by
  unfold tAll
  simp only [List.mem_flatMap, List.mem_range, mem_tRow]
  constructor
  · rintro ⟨b, hb, t, s, ht, hs, rfl⟩; exact ⟨b, t, s, hb, ht, hs, rfl⟩
  · rintro ⟨b, t, s, hb, ht, hs, rfl⟩; exact ⟨b, hb, t, s, ht, hs, rfl⟩

/-- **what a pass writes**: the entry of element `(b, t, s)` holds that element's own outcome (elements READ `x`,
    the buffer written to is `a`) -/
theorem tAll_written (o : XOps α) {C S : Nat} {idx : List Nat} (hidx : IdxOK C idx) (x a : Array α)
    (el : Nat → Nat → Nat → α → ElRes α) {B b t s : Nat} (hb : b < B) (ht : t < idx.length) (hs : s < S) :
    (applyUpd (tAll o C S idx x el B) a)[flatIdx C S b (idx.getD t 0) s]?
      = selOut (el b t s (x.getD (flatIdx C S b (idx.getD t 0) s) o.zero)) a[flatIdx C S b (idx.getD t 0) s]? := by
  apply applyUpd_functional
  · exact (mem_tAll ..).2 ⟨b, t, s, hb, ht, hs, rfl⟩
  · intro u hu huj
    obtain ⟨b', t', s', _, ht', hs', rfl⟩ := (mem_tAll ..).1 hu
    simp only at huj ⊢
    obtain ⟨h1, h2, h3⟩ := flatIdx_inj (hidx.getD_lt ht') (hidx.getD_lt ht) hs' hs huj
    have h4 := hidx.getD_inj ht' ht h2
    subst h1 h3 h4
    rfl

/-- **what a pass leaves alone**: every flat position that is not one of its elements -/
theorem tAll_untouched (o : XOps α) (C S : Nat) (idx : List Nat) (x a : Array α)
    (el : Nat → Nat → Nat → α → ElRes α) (B j : Nat)
    (hj : ∀ b t s, b < B → t < idx.length → s < S → j ≠ flatIdx C S b (idx.getD t 0) s) :
    (applyUpd (tAll o C S idx x el B) a)[j]? = a[j]? := by
  apply applyUpd_untouched
  intro u hu huj
  obtain ⟨b, t, s, hb, ht, hs, rfl⟩ := (mem_tAll ..).1 hu
  exact absurd huj.symm (hj b t s hb ht hs)

/-- in particular every channel outside the index list, at every row and position -/
theorem tAll_other_channel (o : XOps α) {C S : Nat} {idx : List Nat} (hidx : IdxOK C idx) (x a : Array α)
    (el : Nat → Nat → Nat → α → ElRes α) (B : Nat) {b ch s : Nat} (hch : ch < C) (hs : s < S) (hni : ch ∉ idx) :
    (applyUpd (tAll o C S idx x el B) a)[flatIdx C S b ch s]? = a[flatIdx C S b ch s]? := by
  apply tAll_untouched
  intro b' t s' _ ht hs' he
  obtain ⟨_, h2, _⟩ := flatIdx_inj hch (hidx.getD_lt ht) hs hs' he
  exact hni (h2 ▸ getD_mem_of_lt ht)

/-! ## C. the fields of `couplingApply`, unfolded once -/

section fields
variable (o : XOps α) (c : ElCfg) (mask : List α) (B S : Nat) (x params : Array α) (inverse : Bool)
  (uc : Option ElCfg) (uparams : Array α)

/-- element function of the unconditional pass (parameters shared across the batch) -/
def ucElF (ucfg : ElCfg) : Nat → Nat → Nat → α → ElRes α :=
  fun _ ipos sp => elTransform o ucfg inverse (ucSlice o ucfg.mult S uparams ipos sp)

/-- element function of the conditional pass -/
def condElF : Nat → Nat → Nat → α → ElRes α :=
  fun b t s => couplingEl o c (transformIdx o mask).length S params inverse b t s

/-- all elements of the unconditional pass in iteration order -/
def ucAll : List (Nat × ElRes α) :=
  (List.range B).flatMap (ucRow o uc mask.length S (identityIdx o mask) x uparams inverse)

/-- all elements of the conditional pass in iteration order -/
def condAll : List (Nat × ElRes α) :=
  (List.range B).flatMap (condRow o c mask.length S (transformIdx o mask) x params inverse)

theorem ucAll_none : ucAll o mask B S x inverse none uparams = [] := by
  simp [ucAll, ucRow]

theorem ucAll_some (ucfg : ElCfg) : ucAll o mask B S x inverse (some ucfg) uparams
    = tAll o mask.length S (identityIdx o mask) x (ucElF o S inverse uparams ucfg) B := rfl

theorem condAll_eq : condAll o c mask B S x params inverse
    = tAll o mask.length S (transformIdx o mask) x (condElF o c mask S params inverse) B := rfl

theorem couplingUncond_eq : couplingUncond o mask B S x inverse uc uparams
    = applyUpd (ucAll o mask B S x inverse uc uparams) x := rfl

theorem coupling_out_eq : (couplingApply o c mask B S x params inverse uc uparams).out
    = applyUpd (condAll o c mask B S x params inverse) (couplingUncond o mask B S x inverse uc uparams) := by
  simp only [couplingApply, couplingUncond, condAll, List.flatMap_map]

theorem coupling_ld_eq : (couplingApply o c mask B S x params inverse uc uparams).ld
    = (List.range B).map (fun b => ldFold o
        ((ucRow o uc mask.length S (identityIdx o mask) x uparams inverse b
          ++ condRow o c mask.length S (transformIdx o mask) x params inverse b).map (·.2))) := by
  simp only [couplingApply, List.map_map]; rfl

theorem coupling_err_eq : (couplingApply o c mask B S x params inverse uc uparams).err
    = firstErr ((ucAll o mask B S x inverse uc uparams ++ condAll o c mask B S x params inverse).map (·.2)) := by
  simp only [couplingApply, ucAll, condAll, List.flatMap_map]

theorem coupling_condIn_eq : (couplingApply o c mask B S x params inverse uc uparams).condIn
    = if inverse then gatherCh (couplingUncond o mask B S x inverse uc uparams) B mask.length S (identityIdx o mask) o.zero
      else gatherCh x B mask.length S (identityIdx o mask) o.zero := by
  simp only [couplingApply, couplingUncond, List.flatMap_map]

theorem coupling_alts_eq : (couplingApply o c mask B S x params inverse uc uparams).alts
    = altsOf (condAll o c mask B S x params inverse) := by
  simp only [couplingApply, condAll, List.flatMap_map]

end fields

/-! ## D. C07 on the executed coupling layer -/

theorem getD_congr {x x' : Array α} {j j' : Nat} (h : x[j]? = x'[j']?) (d : α) : x.getD j d = x'.getD j' d := by
  simp [Array.getD_eq_getD_getElem?, h]

/-- `gatherCh` only reads the listed channels -/
theorem gatherCh_congr (x x' : Array α) (B C S : Nat) (idx : List Nat) (d : α)
    (h : ∀ b ch s, b < B → ch ∈ idx → s < S → x[flatIdx C S b ch s]? = x'[flatIdx C S b ch s]?) :
    gatherCh x B C S idx d = gatherCh x' B C S idx d := by
  unfold gatherCh
  congr 1
  apply List.flatMap_congr
  intro b hb
  apply List.flatMap_congr
  intro ch hch
  apply List.map_congr_left
  intro s hs
  exact getD_congr (h b ch s (List.mem_range.1 hb) hch (List.mem_range.1 hs)) d

/-- no channel is in both index lists.  (`XOps α` is an arbitrary record of operations, so this has to be said; it
    holds whenever no mask entry is both `≤ 0` and `> 0`: `maskDisjoint_of`, `maskDisjoint_real`.) -/
def MaskDisjoint (o : XOps α) (mask : List α) : Prop := ∀ ch, ch ∈ identityIdx o mask → ch ∉ transformIdx o mask

theorem maskDisjoint_of (o : XOps α) (mask : List α)
    (h : ∀ m ∈ mask, o.le m o.zero = true → o.gt m o.zero = false) : MaskDisjoint o mask := by
  intro ch hI hT
  simp only [identityIdx, transformIdx, List.mem_filter, List.mem_range] at hI hT
  have hm : mask.getD ch o.zero ∈ mask := by simp [List.getD, hI.1]
  have := h _ hm hI.2
  rw [hT.2] at this
  exact absurd this (by simp)

theorem maskDisjoint_real (e : Float → ℝ) (mask : List ℝ) : MaskDisjoint (NF.realX e) mask := by
  apply maskDisjoint_of
  intro m _ h
  simp only [XOps.gt, realX_le, realX_lt, realX_zero, decide_eq_true_eq, decide_eq_false_iff_not] at h ⊢
  linarith

section c07
variable (o : XOps α) (c : ElCfg) (mask : List α) (B S : Nat) (x params : Array α) (inverse : Bool)
  (uc : Option ElCfg) (uparams : Array α)

/-- the output buffer has the size of the input -/
@[simp] theorem coupling_out_size : (couplingApply o c mask B S x params inverse uc uparams).out.size = x.size := by
  simp [coupling_out_eq, couplingUncond_eq]

@[simp] theorem couplingUncond_size : (couplingUncond o mask B S x inverse uc uparams).size = x.size := by
  simp [couplingUncond_eq]

/-- without an unconditional transform the buffer handed to the conditional pass is the input itself -/
@[simp] theorem couplingUncond_none : couplingUncond o mask B S x inverse none uparams = x := by
  simp [couplingUncond_eq, ucAll_none, applyUpd_nil]

/-- the conditional pass writes nothing outside the transformed elements (any `uc`, both directions, errors or not) -/
theorem coupling_out_untouched (j : Nat)
    (hj : ∀ b t s, b < B → t < (transformIdx o mask).length → s < S →
      j ≠ flatIdx mask.length S b ((transformIdx o mask).getD t 0) s) :
    (couplingApply o c mask B S x params inverse uc uparams).out[j]?
      = (couplingUncond o mask B S x inverse uc uparams)[j]? := by
  rw [coupling_out_eq, condAll_eq]
  exact tAll_untouched o _ _ _ _ _ _ _ j hj

/-- **C07 (executed), identity features.**  With no unconditional transform, every position of a channel that is
    not a transform channel holds the INPUT value — in both directions, for every `B`, `S`, numeric mask, parameter
    array, and also when some element raised. -/
theorem coupling_identity_passthrough {b ch s : Nat} (hch : ch < mask.length) (hs : s < S)
    (hni : ch ∉ transformIdx o mask) :
    (couplingApply o c mask B S x params inverse none uparams).out[flatIdx mask.length S b ch s]?
      = x[flatIdx mask.length S b ch s]? := by
  rw [coupling_out_eq, condAll_eq, couplingUncond_none]
  exact tAll_other_channel o (transformIdx_ok o mask) _ _ _ _ hch hs hni

/-- the same for the identity channels proper, given that the two index lists are disjoint -/
theorem coupling_identity_passthrough' (hd : MaskDisjoint o mask) {b ch s : Nat} (hch : ch ∈ identityIdx o mask)
    (hs : s < S) :
    (couplingApply o c mask B S x params inverse none uparams).out[flatIdx mask.length S b ch s]?
      = x[flatIdx mask.length S b ch s]? :=
  coupling_identity_passthrough o c mask B S x params inverse uparams
    ((identityIdx_ok o mask).lt _ hch) hs (hd ch hch)

/-- **C07 (executed), transformed features** (any `uc`): the entry of transformed element `(b, t, s)` is decided
    by `couplingEl` at that element, applied to the INPUT value at that position with the element's own parameters:
    success overwrites, an error leaves what the unconditional pass left (which, since the channel lists are
    disjoint in practice, is the input). -/
theorem coupling_out_transformed {b t s : Nat} (hb : b < B) (ht : t < (transformIdx o mask).length) (hs : s < S) :
    (couplingApply o c mask B S x params inverse uc uparams).out[flatIdx mask.length S b ((transformIdx o mask).getD t 0) s]?
      = selOut (couplingEl o c (transformIdx o mask).length S params inverse b t s
                  (x.getD (flatIdx mask.length S b ((transformIdx o mask).getD t 0) s) o.zero))
          (couplingUncond o mask B S x inverse uc uparams)[flatIdx mask.length S b ((transformIdx o mask).getD t 0) s]? := by
  rw [coupling_out_eq, condAll_eq]
  exact tAll_written o (transformIdx_ok o mask) _ _ _ hb ht hs

/-- for every family other than the affine / additive ones the element map is `elTransform` on the element's own
    parameter slice `params[b, t*m .. t*m+m-1, s]` -/
theorem couplingEl_spline (hk1 : c.kind ≠ "affine") (hk2 : c.kind ≠ "additive") (Ft b t s : Nat) (xi : α) :
    couplingEl o c Ft S params inverse b t s xi
      = elTransform o c inverse (condSlice o c.mult Ft S params b t s) xi := by
  simp [couplingEl, hk1, hk2]

/-- a successful in-range transformed element holds `elTransform`'s first output -/
theorem coupling_out_transformed_ok {b t s : Nat} (hb : b < B) (ht : t < (transformIdx o mask).length) (hs : s < S)
    (hj : flatIdx mask.length S b ((transformIdx o mask).getD t 0) s < x.size) {y l : α} {al : List α}
    (hel : couplingEl o c (transformIdx o mask).length S params inverse b t s
            (x.getD (flatIdx mask.length S b ((transformIdx o mask).getD t 0) s) o.zero) = .ok (y, l, al)) :
    (couplingApply o c mask B S x params inverse uc uparams).out[flatIdx mask.length S b ((transformIdx o mask).getD t 0) s]?
      = some y := by
  rw [coupling_out_transformed o c mask B S x params inverse uc uparams hb ht hs, hel]
  have hj' : flatIdx mask.length S b ((transformIdx o mask).getD t 0) s
      < (couplingUncond o mask B S x inverse uc uparams).size := by simpa using hj
  rw [Array.getElem?_eq_getElem hj']
  rfl

/-- **C07 (executed), conditioner input, forward** (any `uc`): exactly the gather of the identity channels of the
    raw INPUT (coupling.py:80-84, 92-96: the unconditional transform runs after the conditioner) -/
theorem coupling_condIn_forward : (couplingApply o c mask B S x params false uc uparams).condIn
    = gatherCh x B mask.length S (identityIdx o mask) o.zero := by
  simp [coupling_condIn_eq]

/-- inverse, no unconditional transform: the gather of the identity channels of the layer's input … -/
theorem coupling_condIn_inverse_none : (couplingApply o c mask B S x params true none uparams).condIn
    = gatherCh x B mask.length S (identityIdx o mask) o.zero := by
  simp [coupling_condIn_eq]

/-- … which is the same thing as the gather of the identity channels of the OUTPUT (both directions) -/
theorem coupling_condIn_eq_gather_out (hd : MaskDisjoint o mask) :
    (couplingApply o c mask B S x params inverse none uparams).condIn
      = gatherCh (couplingApply o c mask B S x params inverse none uparams).out B mask.length S (identityIdx o mask) o.zero := by
  have h1 : (couplingApply o c mask B S x params inverse none uparams).condIn
      = gatherCh x B mask.length S (identityIdx o mask) o.zero := by
    cases inverse <;> simp [coupling_condIn_eq]
  rw [h1]
  apply gatherCh_congr
  intro b ch s _ hch hs
  exact (coupling_identity_passthrough' o c mask B S x params inverse uparams hd hch hs).symm

/-- inverse with an unconditional transform `ucfg`: the conditioner is given the gather of the buffer in which the
    identity features have ALREADY been un-transformed (coupling.py:121-125) … -/
theorem coupling_condIn_inverse_uc (ucfg : ElCfg) :
    (couplingApply o c mask B S x params true (some ucfg) uparams).condIn
      = gatherCh (couplingUncond o mask B S x true (some ucfg) uparams) B mask.length S (identityIdx o mask) o.zero := by
  simp [coupling_condIn_eq]

/-- … whose identity entry `(b, ipos, sp)` is the unconditional transformer's outcome (direction `inverse`) on the
    input value at that position, with the batch-shared parameter slice of `(ipos, sp)` -/
theorem couplingUncond_identity (ucfg : ElCfg) {b t s : Nat} (hb : b < B) (ht : t < (identityIdx o mask).length)
    (hs : s < S) :
    (couplingUncond o mask B S x inverse (some ucfg) uparams)[flatIdx mask.length S b ((identityIdx o mask).getD t 0) s]?
      = selOut (elTransform o ucfg inverse (ucSlice o ucfg.mult S uparams t s)
                  (x.getD (flatIdx mask.length S b ((identityIdx o mask).getD t 0) s) o.zero))
          x[flatIdx mask.length S b ((identityIdx o mask).getD t 0) s]? := by
  rw [couplingUncond_eq, ucAll_some]
  exact tAll_written o (identityIdx_ok o mask) _ _ _ hb ht hs

/-- the unconditional pass leaves every non-identity channel alone -/
theorem couplingUncond_other {b ch s : Nat} (hch : ch < mask.length) (hs : s < S) (hni : ch ∉ identityIdx o mask) :
    (couplingUncond o mask B S x inverse uc uparams)[flatIdx mask.length S b ch s]? = x[flatIdx mask.length S b ch s]? := by
  cases uc with
  | none => simp
  | some ucfg =>
    rw [couplingUncond_eq, ucAll_some]
    exact tAll_other_channel o (identityIdx_ok o mask) _ _ _ _ hch hs hni

end c07

/-! ## E. C12 on the executed coupling layer: a row of the result is a function of that row of the inputs -/

/-- rows `b` of `x` and `b'` of `x'` (both `[_, C, S]`) hold the same entries (including which are out of range) -/
def RowAgree (C S b b' : Nat) (x x' : Array α) : Prop :=
  ∀ ch s, ch < C → s < S → x[flatIdx C S b ch s]? = x'[flatIdx C S b' ch s]?

theorem RowAgree.refl (C S b : Nat) (x : Array α) : RowAgree C S b b x x := fun _ _ _ _ => rfl

/-- the results (outcomes in iteration order) of a row depend only on the values read in that row -/
theorem tRow_results_congr (o : XOps α) {C S : Nat} {idx : List Nat} (hidx : IdxOK C idx) (x x' : Array α)
    (el el' : Nat → Nat → α → ElRes α) (b b' : Nat) (hx : RowAgree C S b b' x x')
    (hel : ∀ t s xi, t < idx.length → s < S → el t s xi = el' t s xi) :
    (tRow o C S idx x el b).map (·.2) = (tRow o C S idx x' el' b').map (·.2) := by
  unfold tRow
  rw [List.map_map, List.map_map]
  apply List.map_congr_left
  rintro ⟨t, s⟩ hm
  obtain ⟨ht, hs⟩ := mem_rowIter.1 hm
  simp only [Function.comp]
  rw [hel t s _ ht hs, getD_congr (hx _ s (hidx.getD_lt ht) hs)]

/-- row `b` of the buffer after a pass depends only on row `b` of the values read, of the buffer written to and on
    the element functions of row `b` -/
theorem tAll_row_congr (o : XOps α) {C S : Nat} {idx : List Nat} (hidx : IdxOK C idx) (x x' a a' : Array α)
    (el el' : Nat → Nat → Nat → α → ElRes α) {B B' b b' : Nat} (hb : b < B) (hb' : b' < B')
    (hx : RowAgree C S b b' x x') (ha : RowAgree C S b b' a a')
    (hel : ∀ t s xi, t < idx.length → s < S → el b t s xi = el' b' t s xi) :
    RowAgree C S b b' (applyUpd (tAll o C S idx x el B) a) (applyUpd (tAll o C S idx x' el' B') a') := by
  intro ch s hch hs
  by_cases hm : ch ∈ idx
  · obtain ⟨t, ht, rfl⟩ := exists_getD_of_mem hm
    rw [tAll_written o hidx x a el hb ht hs, tAll_written o hidx x' a' el' hb' ht hs, hel t s _ ht hs,
      getD_congr (hx _ s hch hs), ha _ s hch hs]
  · rw [tAll_other_channel o hidx x a el B hch hs hm, tAll_other_channel o hidx x' a' el' B' hch hs hm]
    exact ha ch s hch hs

/-- channels of the conditioner output per row: `[B, paramWidth, S]` -/
def paramWidth (c : ElCfg) (Ft : Nat) : Nat :=
  if c.kind == "affine" then 2 * Ft else if c.kind == "additive" then Ft else Ft * c.mult

theorem condSlice_congr (o : XOps α) (m Ft S : Nat) (params params' : Array α) (b b' t s : Nat) (ht : t < Ft) (hs : s < S)
    (hp : RowAgree (Ft * m) S b b' params params') :
    condSlice o m Ft S params b t s = condSlice o m Ft S params' b' t s := by
  unfold condSlice
  apply List.map_congr_left
  intro k hk
  have hk' : k < m := List.mem_range.1 hk
  have h1 : t * m + k < Ft * m := by
    have : (t + 1) * m ≤ Ft * m := Nat.mul_le_mul_right m ht
    rw [Nat.add_mul, Nat.one_mul] at this
    omega
  exact getD_congr (hp _ s h1 hs) _

/-- the element map of `(b, t, s)` reads only row `b` of the conditioner output -/
theorem couplingEl_congr (o : XOps α) (c : ElCfg) (Ft S : Nat) (params params' : Array α) (inverse : Bool)
    (b b' t s : Nat) (xi : α) (ht : t < Ft) (hs : s < S)
    (hp : RowAgree (paramWidth c Ft) S b b' params params') :
    couplingEl o c Ft S params inverse b t s xi = couplingEl o c Ft S params' inverse b' t s xi := by
  unfold couplingEl
  unfold paramWidth at hp
  by_cases hk1 : (c.kind == "affine") = true
  · simp only [hk1, if_true] at hp ⊢
    have e1 := getD_congr (hp t s (by omega) hs) o.zero
    have e2 := getD_congr (hp (Ft + t) s (by omega) hs) o.zero
    simp only [flatIdx] at e1 e2
    rw [e1, e2]
  · by_cases hk2 : (c.kind == "additive") = true
    · simp only [hk1, hk2, if_true, Bool.false_eq_true, if_false] at hp ⊢
      have e1 := getD_congr (hp t s ht hs) o.zero
      simp only [flatIdx] at e1
      rw [e1]
    · simp only [hk1, hk2] at hp ⊢
      simp only [Bool.false_eq_true, if_false] at hp ⊢
      rw [condSlice_congr o c.mult Ft S params params' b b' t s ht hs hp]

section c12
variable (o : XOps α) (c : ElCfg) (mask : List α) (S : Nat) (inverse : Bool) (uc : Option ElCfg) (uparams : Array α)

/-- row `b` of the buffer after the unconditional pass depends only on row `b` of the input -/
theorem couplingUncond_row_congr {B B' b b' : Nat} (x x' : Array α) (hb : b < B) (hb' : b' < B')
    (hx : RowAgree mask.length S b b' x x') :
    RowAgree mask.length S b b' (couplingUncond o mask B S x inverse uc uparams)
      (couplingUncond o mask B' S x' inverse uc uparams) := by
  cases uc with
  | none => simpa using hx
  | some ucfg =>
    rw [couplingUncond_eq, couplingUncond_eq, ucAll_some, ucAll_some]
    exact tAll_row_congr o (identityIdx_ok o mask) x x' x x' _ _ hb hb' hx hx (fun _ _ _ _ _ => rfl)

theorem coupling_ld_getElem? {B b : Nat} (x params : Array α) (hb : b < B) :
    (couplingApply o c mask B S x params inverse uc uparams).ld[b]?
      = some (ldFold o ((ucRow o uc mask.length S (identityIdx o mask) x uparams inverse b
          ++ condRow o c mask.length S (transformIdx o mask) x params inverse b).map (·.2))) := by
  rw [coupling_ld_eq]
  simp [hb]

@[simp] theorem coupling_ld_length (B : Nat) (x params : Array α) :
    (couplingApply o c mask B S x params inverse uc uparams).ld.length = B := by
  simp [coupling_ld_eq]

/-- **C12 (executed coupling layer).**  Row `b` of the output and entry `b` of the log-det of a batch of `B` rows
    are determined by row `b` of the input and row `b` of the conditioner output: if another call (possibly with a
    different batch size `B'`, e.g. `B' = 1`) has the same data in its row `b'`, the results in those rows are
    identical — entry by entry in `α`, so bit for bit at `Float`.  Any mask, `S`, direction, family, optional
    unconditional transform (whose parameters are shared across the batch), errors or not. -/
theorem coupling_row_independent {B B' b b' : Nat} (x x' params params' : Array α) (hb : b < B) (hb' : b' < B')
    (hx : RowAgree mask.length S b b' x x')
    (hp : RowAgree (paramWidth c (transformIdx o mask).length) S b b' params params') :
    RowAgree mask.length S b b' (couplingApply o c mask B S x params inverse uc uparams).out
        (couplingApply o c mask B' S x' params' inverse uc uparams).out
      ∧ (couplingApply o c mask B S x params inverse uc uparams).ld[b]?
          = (couplingApply o c mask B' S x' params' inverse uc uparams).ld[b']? := by
  have hel : ∀ t s xi, t < (transformIdx o mask).length → s < S →
      condElF o c mask S params inverse b t s xi = condElF o c mask S params' inverse b' t s xi := by
    intro t s xi ht hs
    exact couplingEl_congr o c _ S params params' inverse b b' t s xi ht hs hp
  constructor
  · rw [coupling_out_eq, coupling_out_eq, condAll_eq, condAll_eq]
    exact tAll_row_congr o (transformIdx_ok o mask) x x' _ _ _ _ hb hb' hx
      (couplingUncond_row_congr o mask S inverse uc uparams x x' hb hb' hx) hel
  · rw [coupling_ld_getElem? o c mask S inverse uc uparams x params hb,
      coupling_ld_getElem? o c mask S inverse uc uparams x' params' hb']
    congr 2
    rw [List.map_append, List.map_append]
    congr 1
    · cases uc with
      | none => rfl
      | some ucfg =>
        simp only [ucRow]
        exact tRow_results_congr o (identityIdx_ok o mask) x x' _ _ b b' hx (fun _ _ _ _ _ => rfl)
    · exact tRow_results_congr o (transformIdx_ok o mask) x x' _ _ b b' hx hel

/-- the form asked for: two batches of the same size that agree on row `b` -/
theorem coupling_row_independent_same {B b : Nat} (x x' params params' : Array α) (hb : b < B)
    (hx : RowAgree mask.length S b b x x')
    (hp : RowAgree (paramWidth c (transformIdx o mask).length) S b b params params') :
    RowAgree mask.length S b b (couplingApply o c mask B S x params inverse uc uparams).out
        (couplingApply o c mask B S x' params' inverse uc uparams).out
      ∧ (couplingApply o c mask B S x params inverse uc uparams).ld[b]?
          = (couplingApply o c mask B S x' params' inverse uc uparams).ld[b]? :=
  coupling_row_independent o c mask S inverse uc uparams x x' params params' hb hb hx hp

end c12

/-! ## F. `sumRows`, the element-wise passes (`arApply`, `cdfApply`): C01 / C12 -/

theorem flatRange_length {β : Type} (f : Nat → Nat → β) (B n : Nat) :
    ((List.range B).flatMap fun b => (List.range n).map (f b)).length = B * n := by
  induction B with
  | zero => simp
  | succ B ih => rw [List.range_succ, List.flatMap_append, List.length_append, ih]; simp [Nat.add_mul]

/-- entry `b * n + i` of a row-major `[B, n]` list built by the two nested loops is the value of element `(b, i)` -/
theorem flatRange_getElem? {β : Type} (f : Nat → Nat → β) (B n b i : Nat) (hb : b < B) (hi : i < n) :
    ((List.range B).flatMap fun b => (List.range n).map (f b))[b * n + i]? = some (f b i) := by
  induction B with
  | zero => omega
  | succ B ih =>
    rw [List.range_succ, List.flatMap_append]
    by_cases hbB : b < B
    · have hlt : b * n + i < ((List.range B).flatMap fun b => (List.range n).map (f b)).length := by
        rw [flatRange_length]
        have : (b + 1) * n ≤ B * n := Nat.mul_le_mul_right n hbB
        rw [Nat.add_mul, Nat.one_mul] at this
        omega
      rw [List.getElem?_append_left hlt]
      exact ih hbB
    · have hbe : b = B := by omega
      subst hbe
      have hge : ((List.range b).flatMap fun b => (List.range n).map (f b)).length ≤ b * n + i := by
        rw [flatRange_length]; omega
      rw [List.getElem?_append_right hge, flatRange_length]
      simp [hi]

/-- **`sum_except_batch` (executed)**: entry `b` is the left fold of row `b`, in index order -/
theorem sumRows_getElem? (o : XOps α) (B : Nat) (xs : Array α) (b : Nat) (hb : b < B) :
    (sumRows o B xs)[b]? = some ((List.range (xs.size / B)).foldl
      (fun acc k => o.add acc (xs.getD (b * (xs.size / B) + k) o.zero)) o.zero) := by
  have hB : (B == 0) = false := by simp; omega
  simp [sumRows, hB, hb]

theorem foldl_add_real (e : Float → ℝ) (l : List ℝ) (z : ℝ) : l.foldl (NF.realX e).add z = z + l.sum := by
  induction l generalizing z with
  | nil => simp
  | cons a l ih => simp [ih, add_assoc]

theorem foldl_add_real' {β : Type} (e : Float → ℝ) (l : List β) (g : β → ℝ) (z : ℝ) :
    l.foldl (fun acc k => (NF.realX e).add acc (g k)) z = z + (l.map g).sum := by
  induction l generalizing z with
  | nil => simp
  | cons a l ih =>
    simp only [List.foldl_cons, List.map_cons, List.sum_cons]
    rw [ih]; simp [add_assoc]

theorem sum_map_range (g : Nat → ℝ) (n : Nat) : ((List.range n).map g).sum = ∑ i : Fin n, g i := by
  rw [← Finset.sum_range]
  induction n with
  | zero => simp
  | succ n ih => rw [List.range_succ, List.map_append, List.sum_append, ih, Finset.sum_range_succ]; simp

/-- over the reals: entry `b` of `sumRows` is the sum of row `b` -/
theorem sumRows_real (e : Float → ℝ) (B : Nat) (xs : Array ℝ) (b : Nat) (hb : b < B) :
    (sumRows (NF.realX e) B xs)[b]? = some (∑ k ∈ Finset.range (xs.size / B), xs.getD (b * (xs.size / B) + k) 0) := by
  rw [sumRows_getElem? _ _ _ _ hb, foldl_add_real', Finset.sum_range, sum_map_range]
  simp

section elemwise
variable (o : XOps α) (B n : Nat) (el : Nat → Nat → ElRes α)

theorem elemwise_out_size : (elemwiseResult o B n el).out.size = B * n := by
  simp only [elemwiseResult, List.size_toArray, List.length_map]
  exact flatRange_length _ B n

theorem elemwise_out_getElem? {b i : Nat} (hb : b < B) (hi : i < n) :
    (elemwiseResult o B n el).out[b * n + i]? = some (outOf o (el b i)) := by
  simp only [elemwiseResult, List.getElem?_toArray, List.getElem?_map]
  rw [flatRange_getElem? _ B n b i hb hi]
  rfl

theorem elemwise_lds_getD {b i : Nat} (hb : b < B) (hi : i < n) :
    (((List.range B).flatMap fun b => (List.range n).map fun i => (b * n + i, el b i)).map
      fun u => ldOf o u.2).toArray.getD (b * n + i) o.zero
      = ldOf o (el b i) := by
  simp only [Array.getD_eq_getD_getElem?, List.getElem?_toArray, List.getElem?_map]
  rw [flatRange_getElem? _ B n b i hb hi]
  rfl

/-- **C01 (executed element-wise passes)**: entry `b` of the log-det is the left fold `((0 + l₀) + l₁) + …` over
    the features of row `b` in index order (zero for an element that raised) -/
theorem elemwise_ld_getElem? {b : Nat} (hb : b < B) :
    (elemwiseResult o B n el).ld[b]?
      = some ((List.range n).foldl (fun acc i => o.add acc (ldOf o (el b i))) o.zero) := by
  simp only [elemwiseResult]
  rw [sumRows_getElem? o B _ b hb]
  have hsz : (((List.range B).flatMap fun b => (List.range n).map fun i => (b * n + i, el b i)).map
      fun u => ldOf o u.2).toArray.size / B = n := by
    simp only [List.size_toArray, List.length_map]
    rw [flatRange_length]
    exact Nat.mul_div_cancel_left n (by omega)
  rw [hsz]
  congr 1
  apply List.foldl_ext
  intro acc i hi
  rw [elemwise_lds_getD o B n el hb (List.mem_range.1 hi)]

theorem elemwise_err_none :
    (elemwiseResult o B n el).err = none ↔ ∀ b i, b < B → i < n → ∃ v, el b i = .ok v := by
  simp only [elemwiseResult]
  rw [firstErr_eq_none]
  simp only [List.mem_map, List.mem_flatMap, List.mem_range]
  constructor
  · intro h b i hb hi
    exact h _ ⟨(b * n + i, el b i), ⟨b, hb, i, hi, rfl⟩, rfl⟩
  · rintro h r ⟨u, ⟨b, hb, i, hi, rfl⟩, rfl⟩
    exact h b i hb hi

end elemwise

/-- **C12 (executed autoregressive pass)**: row `b` of the output and entry `b` of the log-det depend only on row
    `b` of `x` and row `b` of the parameters (also across different batch sizes) -/
theorem ar_row_independent (o : XOps α) (c : ElCfg) (F : Nat) (inverse : Bool) {B B' b b' : Nat}
    (x x' params params' : Array α) (hb : b < B) (hb' : b' < B')
    (hx : ∀ i, i < F → x[b * F + i]? = x'[b' * F + i]?)
    (hp : ∀ i k, i < F → params[(b * F + i) * (if c.kind == "araffine" then 2 else c.mult) + k]?
                        = params'[(b' * F + i) * (if c.kind == "araffine" then 2 else c.mult) + k]?) :
    (∀ i, i < F → (arApply o c B F x params inverse).out[b * F + i]? = (arApply o c B' F x' params' inverse).out[b' * F + i]?)
      ∧ (arApply o c B F x params inverse).ld[b]? = (arApply o c B' F x' params' inverse).ld[b']? := by
  have hel : ∀ i, i < F → arEl o c F x params inverse b i = arEl o c F x' params' inverse b' i := by
    intro i hi
    unfold arEl
    simp only
    rw [getD_congr (hx i hi)]
    congr 1
    apply List.map_congr_left
    intro k _
    exact getD_congr (hp i k hi) _
  constructor
  · intro i hi
    rw [arApply, arApply, elemwise_out_getElem? o B F _ hb hi, elemwise_out_getElem? o B' F _ hb' hi, hel i hi]
  · rw [arApply, arApply, elemwise_ld_getElem? o B F _ hb, elemwise_ld_getElem? o B' F _ hb']
    congr 1
    apply List.foldl_ext
    intro acc i hi
    rw [hel i (List.mem_range.1 hi)]

/-- **C12 (executed `Piecewise*CDF`)**: the parameters are shared across the batch; row `b` of the result depends
    only on row `b` of `x` -/
theorem cdf_row_independent (o : XOps α) (c : ElCfg) (n : Nat) (inverse : Bool) {B B' b b' : Nat}
    (x x' params : Array α) (hb : b < B) (hb' : b' < B')
    (hx : ∀ i, i < n → x[b * n + i]? = x'[b' * n + i]?) :
    (∀ i, i < n → (cdfApply o c B n x params inverse).out[b * n + i]? = (cdfApply o c B' n x' params inverse).out[b' * n + i]?)
      ∧ (cdfApply o c B n x params inverse).ld[b]? = (cdfApply o c B' n x' params inverse).ld[b']? := by
  have hel : ∀ i, i < n → cdfEl o c n x params inverse b i = cdfEl o c n x' params inverse b' i := by
    intro i hi
    unfold cdfEl
    rw [getD_congr (hx i hi)]
  constructor
  · intro i hi
    rw [cdfApply, cdfApply, elemwise_out_getElem? o B n _ hb hi, elemwise_out_getElem? o B' n _ hb' hi, hel i hi]
  · rw [cdfApply, cdfApply, elemwise_ld_getElem? o B n _ hb, elemwise_ld_getElem? o B' n _ hb']
    congr 1
    apply List.foldl_ext
    intro acc i hi
    rw [hel i (List.mem_range.1 hi)]

/-- C01 for the two passes, spelled out: entry `b` of the log-det is the left fold of the per-element log-dets -/
theorem ar_ld_getElem? (o : XOps α) (c : ElCfg) (B F : Nat) (x params : Array α) (inverse : Bool) {b : Nat} (hb : b < B) :
    (arApply o c B F x params inverse).ld[b]?
      = some ((List.range F).foldl (fun acc i => o.add acc (ldOf o (arEl o c F x params inverse b i))) o.zero) :=
  elemwise_ld_getElem? o B F _ hb

theorem cdf_ld_getElem? (o : XOps α) (c : ElCfg) (B n : Nat) (x params : Array α) (inverse : Bool) {b : Nat} (hb : b < B) :
    (cdfApply o c B n x params inverse).ld[b]?
      = some ((List.range n).foldl (fun acc i => o.add acc (ldOf o (cdfEl o c n x params inverse b i))) o.zero) :=
  elemwise_ld_getElem? o B n _ hb

/-- over the reals the left fold is the finite sum that `Properties.C01.sum_logdet_eq_log_abs_det` consumes -/
theorem ar_ld_real (e : Float → ℝ) (c : ElCfg) (B F : Nat) (x params : Array ℝ) (inverse : Bool) {b : Nat} (hb : b < B) :
    (arApply (NF.realX e) c B F x params inverse).ld[b]?
      = some (∑ i : Fin F, ldOf (NF.realX e) (arEl (NF.realX e) c F x params inverse b i)) := by
  rw [ar_ld_getElem? _ _ _ _ _ _ _ hb, foldl_add_real', sum_map_range]
  simp

theorem cdf_ld_real (e : Float → ℝ) (c : ElCfg) (B n : Nat) (x params : Array ℝ) (inverse : Bool) {b : Nat} (hb : b < B) :
    (cdfApply (NF.realX e) c B n x params inverse).ld[b]?
      = some (∑ i : Fin n, ldOf (NF.realX e) (cdfEl (NF.realX e) c n x params inverse b i)) := by
  rw [cdf_ld_getElem? _ _ _ _ _ _ _ hb, foldl_add_real', sum_map_range]
  simp

/-! ## G. C01 on the executed coupling layer: the row log-det is the left fold of the per-element log-dets -/

section c01
variable (o : XOps α) (c : ElCfg) (mask : List α) (B S : Nat) (x params : Array α) (inverse : Bool)
  (uc : Option ElCfg) (uparams : Array α)

/-- the outcomes of row `b`, unconditional part first, then the transformed features in `(tpos, s)` order -/
def rowResults (b : Nat) : List (ElRes α) :=
  (ucRow o uc mask.length S (identityIdx o mask) x uparams inverse b
    ++ condRow o c mask.length S (transformIdx o mask) x params inverse b).map (·.2)

/-- **C01 (executed coupling layer).**  When no element of row `b` raised, `ld[b]` is the LEFT fold
    `((0 + l₁) + l₂) + …` of the per-element log-dets of row `b` in iteration order: the unconditional transform of
    the identity features first (in `(ipos, s)` order), then the transformed features in `(tpos, s)` order. -/
theorem coupling_ld_leftfold {b : Nat} (hb : b < B)
    (hok : ∀ r ∈ rowResults o c mask S x params inverse uc uparams b, ∃ v, r = .ok v) :
    (couplingApply o c mask B S x params inverse uc uparams).ld[b]?
      = some (((rowResults o c mask S x params inverse uc uparams b).map (ldOf o)).foldl o.add o.zero) := by
  rw [coupling_ld_getElem? o c mask S inverse uc uparams x params hb]
  exact congrArg some (ldFold_ok o _ hok)

/-- in general the elements that raised are skipped (and the layer reports the first error) -/
theorem coupling_ld_general {b : Nat} (hb : b < B) :
    (couplingApply o c mask B S x params inverse uc uparams).ld[b]?
      = some (((rowResults o c mask S x params inverse uc uparams b).filterMap
          fun r => match r with | .ok (_, l, _) => some l | .error _ => none).foldl o.add o.zero) := by
  rw [coupling_ld_getElem? o c mask S inverse uc uparams x params hb]
  exact congrArg some (ldFold_eq o _)

/-- no error reported ⇒ every element of every row succeeded -/
theorem coupling_err_none_iff :
    (couplingApply o c mask B S x params inverse uc uparams).err = none
      ↔ ∀ u ∈ ucAll o mask B S x inverse uc uparams ++ condAll o c mask B S x params inverse, ∃ v, u.2 = .ok v := by
  rw [coupling_err_eq, firstErr_eq_none]
  simp only [List.mem_map]
  constructor
  · intro h u hu; exact h _ ⟨u, hu, rfl⟩
  · rintro h r ⟨u, hu, rfl⟩; exact h u hu

theorem rowResults_ok_of_err_none (herr : (couplingApply o c mask B S x params inverse uc uparams).err = none)
    {b : Nat} (hb : b < B) : ∀ r ∈ rowResults o c mask S x params inverse uc uparams b, ∃ v, r = .ok v := by
  have h := (coupling_err_none_iff o c mask B S x params inverse uc uparams).1 herr
  intro r hr
  simp only [rowResults, List.mem_map, List.mem_append] at hr
  obtain ⟨u, hu, rfl⟩ := hr
  apply h u
  rcases hu with hu | hu
  · exact List.mem_append_left _ (List.mem_flatMap.2 ⟨b, List.mem_range.2 hb, hu⟩)
  · exact List.mem_append_right _ (List.mem_flatMap.2 ⟨b, List.mem_range.2 hb, hu⟩)

end c01

/-- over the reals the left fold is the sum of the list -/
theorem coupling_ld_real (e : Float → ℝ) (c : ElCfg) (mask : List ℝ) (B S : Nat) (x params : Array ℝ) (inverse : Bool)
    (uc : Option ElCfg) (uparams : Array ℝ) {b : Nat} (hb : b < B)
    (hok : ∀ r ∈ rowResults (NF.realX e) c mask S x params inverse uc uparams b, ∃ v, r = .ok v) :
    (couplingApply (NF.realX e) c mask B S x params inverse uc uparams).ld[b]?
      = some (((rowResults (NF.realX e) c mask S x params inverse uc uparams b).map (ldOf (NF.realX e))).sum) := by
  rw [coupling_ld_leftfold _ _ _ _ _ _ _ _ _ _ hb hok, foldl_add_real]
  simp

theorem flatMap_singleton_fn {β γ : Type} (f : β → γ) (l : List β) : l.flatMap (fun c => [f c]) = l.map f := by
  induction l with
  | nil => rfl
  | cons a l ih => simp [List.flatMap_cons, ih]

theorem rowIter_one (n : Nat) : rowIter n 1 = (List.range n).map fun t => (t, 0) := by
  simp only [rowIter, List.range_one, List.map_cons, List.map_nil]
  induction (List.range n) with
  | nil => rfl
  | cons a l ih => simp [List.flatMap_cons, ih]

/-! ## H. C02 on the executed coupling layer: the inverse pass with the same parameters undoes the forward pass -/

theorem flatIdx_lt {B C S b ch s : Nat} (hb : b < B) (hch : ch < C) (hs : s < S) : flatIdx C S b ch s < B * C * S := by
  unfold flatIdx
  have h1 : b * C + ch + 1 ≤ B * C := by
    have : (b + 1) * C ≤ B * C := Nat.mul_le_mul_right C hb
    rw [Nat.add_mul, Nat.one_mul] at this
    omega
  have h2 : (b * C + ch + 1) * S ≤ B * C * S := Nat.mul_le_mul_right S h1
  rw [Nat.add_mul, Nat.one_mul] at h2
  omega

theorem getD_of_lt {x : Array α} {j : Nat} (hj : j < x.size) (d : α) : x.getD j d = x[j] := by
  simp [Array.getD_eq_getD_getElem?, hj]

theorem getElem?_none_of_not_lt {x : Array α} {j : Nat} (hj : ¬ j < x.size) : x[j]? = none := by
  simp; omega

theorem selOut_none (r : ElRes α) : selOut r none = none := by
  rcases r with e | ⟨y, l, al⟩ <;> rfl

/-- **per-element invertibility** (the hypothesis of C02 at the level of one element): whenever the forward element
    map succeeds with `(y, l)`, the inverse element map with the SAME parameters sends `y` back to the input with
    log-det `-l`.  Over the reals this is what the spline / affine theorems prove. -/
def ElInvertible (o : XOps α) (c : ElCfg) (Ft S : Nat) (params : Array α) (B : Nat) : Prop :=
  ∀ b t s xi y l al, b < B → t < Ft → s < S →
    couplingEl o c Ft S params false b t s xi = .ok (y, l, al) →
    ∃ al', couplingEl o c Ft S params true b t s y = .ok (xi, o.neg l, al')

/-- for the spline families it is enough to know it of `elTransform` -/
theorem elInvertible_of_elTransform (o : XOps α) (c : ElCfg) (Ft S : Nat) (params : Array α) (B : Nat)
    (hk1 : c.kind ≠ "affine") (hk2 : c.kind ≠ "additive")
    (h : ∀ p xi y l al, elTransform o c false p xi = .ok (y, l, al) →
      ∃ al', elTransform o c true p y = .ok (xi, o.neg l, al')) : ElInvertible o c Ft S params B := by
  intro b t s xi y l al _ _ _ hf
  rw [couplingEl_spline o c S params false hk1 hk2] at hf
  rw [couplingEl_spline o c S params true hk1 hk2]
  exact h _ _ _ _ _ hf

section c02
variable (o : XOps α) (c : ElCfg) (mask : List α) (B S : Nat) (x params : Array α) (uparams uparams' : Array α)

theorem fwd_el_ok (herr : (couplingApply o c mask B S x params false none uparams).err = none)
    {b t s : Nat} (hb : b < B) (ht : t < (transformIdx o mask).length) (hs : s < S) :
    ∃ v, couplingEl o c (transformIdx o mask).length S params false b t s
      (x.getD (flatIdx mask.length S b ((transformIdx o mask).getD t 0) s) o.zero) = .ok v := by
  have hall := (coupling_err_none_iff o c mask B S x params false none uparams).1 herr
  exact hall (_, _) (List.mem_append_right _ (by
    rw [condAll_eq]; exact (mem_tAll ..).2 ⟨b, t, s, hb, ht, hs, rfl⟩))

/-- **C02 (executed coupling layer), outputs.**  If the forward pass reported no error and the element maps are
    invertible, the inverse pass applied to the forward OUTPUT with the SAME parameter array returns the original
    array exactly (every `B`, `S`, mask; arrays of any size). -/
theorem coupling_inverse_forward (hinv : ElInvertible o c (transformIdx o mask).length S params B)
    (herr : (couplingApply o c mask B S x params false none uparams).err = none) :
    (couplingApply o c mask B S (couplingApply o c mask B S x params false none uparams).out params true none uparams').out
      = x := by
  apply Array.ext_getElem?
  intro j
  by_cases hpos : ∃ b t s, b < B ∧ t < (transformIdx o mask).length ∧ s < S ∧
      j = flatIdx mask.length S b ((transformIdx o mask).getD t 0) s
  · obtain ⟨b, t, s, hb, ht, hs, rfl⟩ := hpos
    obtain ⟨⟨y, l, al⟩, hy⟩ := fwd_el_ok o c mask B S x params uparams herr hb ht hs
    have hfwd := coupling_out_transformed o c mask B S x params false none uparams hb ht hs
    rw [hy, couplingUncond_none] at hfwd
    rw [coupling_out_transformed o c mask B S _ params true none uparams' hb ht hs, couplingUncond_none]
    by_cases hj : flatIdx mask.length S b ((transformIdx o mask).getD t 0) s < x.size
    · have hx : x.getD (flatIdx mask.length S b ((transformIdx o mask).getD t 0) s) o.zero
          = x[flatIdx mask.length S b ((transformIdx o mask).getD t 0) s] := getD_of_lt hj _
      have hy' : (couplingApply o c mask B S x params false none uparams).out[flatIdx mask.length S b ((transformIdx o mask).getD t 0) s]?
          = some y := by rw [hfwd, Array.getElem?_eq_getElem hj]; rfl
      have hget : (couplingApply o c mask B S x params false none uparams).out.getD
          (flatIdx mask.length S b ((transformIdx o mask).getD t 0) s) o.zero = y := by
        rw [Array.getD_eq_getD_getElem?, hy']; rfl
      obtain ⟨al', h'⟩ := hinv b t s _ y l al hb ht hs hy
      rw [hget, h', hy', hx, Array.getElem?_eq_getElem hj]
      rfl
    · have h1 : x[flatIdx mask.length S b ((transformIdx o mask).getD t 0) s]? = none := getElem?_none_of_not_lt hj
      rw [h1, selOut_none] at hfwd
      rw [hfwd, selOut_none, h1]
  · have hj : ∀ b t s, b < B → t < (transformIdx o mask).length → s < S →
        j ≠ flatIdx mask.length S b ((transformIdx o mask).getD t 0) s := by
      intro b t s hb ht hs he
      exact hpos ⟨b, t, s, hb, ht, hs, he⟩
    rw [coupling_out_untouched o c mask B S _ params true none uparams' j hj, couplingUncond_none,
      coupling_out_untouched o c mask B S x params false none uparams j hj, couplingUncond_none]

theorem rowResults_none (inverse : Bool) (b : Nat) :
    rowResults o c mask S x params inverse none uparams b
      = (rowIter (transformIdx o mask).length S).map fun ts =>
          couplingEl o c (transformIdx o mask).length S params inverse b ts.1 ts.2
            (x.getD (flatIdx mask.length S b ((transformIdx o mask).getD ts.1 0) ts.2) o.zero) := by
  simp only [rowResults, ucRow, condRow, tRow, List.nil_append, List.map_map]
  rfl

/-- the inverse element applied to what the forward pass stored -/
theorem inv_el_of_fwd (hinv : ElInvertible o c (transformIdx o mask).length S params B)
    (herr : (couplingApply o c mask B S x params false none uparams).err = none)
    (hsz : B * mask.length * S ≤ x.size)
    {b t s : Nat} (hb : b < B) (ht : t < (transformIdx o mask).length) (hs : s < S) :
    ∃ y l al al',
      couplingEl o c (transformIdx o mask).length S params false b t s
        (x.getD (flatIdx mask.length S b ((transformIdx o mask).getD t 0) s) o.zero) = .ok (y, l, al) ∧
      couplingEl o c (transformIdx o mask).length S params true b t s
        ((couplingApply o c mask B S x params false none uparams).out.getD
          (flatIdx mask.length S b ((transformIdx o mask).getD t 0) s) o.zero)
        = .ok (x.getD (flatIdx mask.length S b ((transformIdx o mask).getD t 0) s) o.zero, o.neg l, al') := by
  obtain ⟨⟨y, l, al⟩, hy⟩ := fwd_el_ok o c mask B S x params uparams herr hb ht hs
  have hj : flatIdx mask.length S b ((transformIdx o mask).getD t 0) s < x.size :=
    lt_of_lt_of_le (flatIdx_lt hb ((transformIdx_ok o mask).getD_lt ht) hs) hsz
  have hy' := coupling_out_transformed_ok o c mask B S x params false none uparams hb ht hs hj hy
  have hget : (couplingApply o c mask B S x params false none uparams).out.getD
      (flatIdx mask.length S b ((transformIdx o mask).getD t 0) s) o.zero = y := by
    rw [Array.getD_eq_getD_getElem?, hy']; rfl
  obtain ⟨al', h'⟩ := hinv b t s _ y l al hb ht hs hy
  exact ⟨y, l, al, al', hy, by rw [hget, h']⟩

/-- **C02 (executed coupling layer), log-dets.**  For an input that fills the `[B, C, S]` shape: the inverse pass
    reports no error either, and its row log-det is the left fold of the NEGATED per-element log-dets of the forward
    row, in the same order. -/
theorem coupling_inverse_forward_ld (hinv : ElInvertible o c (transformIdx o mask).length S params B)
    (herr : (couplingApply o c mask B S x params false none uparams).err = none)
    (hsz : B * mask.length * S ≤ x.size) :
    (couplingApply o c mask B S (couplingApply o c mask B S x params false none uparams).out params true none uparams').err = none
    ∧ ∀ b, b < B →
      (couplingApply o c mask B S x params false none uparams).ld[b]?
        = some (((rowResults o c mask S x params false none uparams b).map (ldOf o)).foldl o.add o.zero)
      ∧ (couplingApply o c mask B S (couplingApply o c mask B S x params false none uparams).out params true none uparams').ld[b]?
        = some ((((rowResults o c mask S x params false none uparams b).map (ldOf o)).map o.neg).foldl o.add o.zero) := by
  have hrow : ∀ b, b < B →
      (∀ r ∈ rowResults o c mask S (couplingApply o c mask B S x params false none uparams).out params true none uparams' b,
        ∃ v, r = .ok v)
      ∧ (rowResults o c mask S (couplingApply o c mask B S x params false none uparams).out params true none uparams' b).map (ldOf o)
        = ((rowResults o c mask S x params false none uparams b).map (ldOf o)).map o.neg := by
    intro b hb
    rw [rowResults_none, rowResults_none]
    constructor
    · intro r hr
      obtain ⟨⟨t, s⟩, hts, rfl⟩ := List.mem_map.1 hr
      obtain ⟨ht, hs⟩ := mem_rowIter.1 hts
      obtain ⟨y, l, al, al', _, h2⟩ := inv_el_of_fwd o c mask B S x params uparams hinv herr hsz hb ht hs
      exact ⟨_, h2⟩
    · rw [List.map_map, List.map_map, List.map_map]
      apply List.map_congr_left
      rintro ⟨t, s⟩ hts
      obtain ⟨ht, hs⟩ := mem_rowIter.1 hts
      obtain ⟨y, l, al, al', h1, h2⟩ := inv_el_of_fwd o c mask B S x params uparams hinv herr hsz hb ht hs
      simp only [Function.comp, h1, h2, ldOf]
  constructor
  · rw [coupling_err_none_iff, ucAll_none, List.nil_append, condAll_eq]
    intro u hu
    obtain ⟨b, t, s, hb, ht, hs, rfl⟩ := (mem_tAll ..).1 hu
    obtain ⟨y, l, al, al', _, h2⟩ := inv_el_of_fwd o c mask B S x params uparams hinv herr hsz hb ht hs
    exact ⟨_, h2⟩
  · intro b hb
    refine ⟨coupling_ld_leftfold o c mask B S x params false none uparams hb
      (rowResults_ok_of_err_none o c mask B S x params false none uparams herr hb), ?_⟩
    rw [coupling_ld_leftfold o c mask B S _ params true none uparams' hb (hrow b hb).1, (hrow b hb).2]

/-- **"the same parameters" is justified**: the conditioner input of the inverse pass (run on the forward output)
    is the conditioner input of the forward pass, so a deterministic conditioner returns the same parameter array -/
theorem coupling_condIn_roundtrip (hd : MaskDisjoint o mask) :
    (couplingApply o c mask B S (couplingApply o c mask B S x params false none uparams).out params true none uparams').condIn
      = (couplingApply o c mask B S x params false none uparams).condIn := by
  rw [coupling_condIn_inverse_none, coupling_condIn_eq_gather_out o c mask B S x params false uparams hd]

end c02

theorem sum_map_neg_real (e : Float → ℝ) (l : List ℝ) : (l.map (NF.realX e).neg).sum = - l.sum := by
  induction l with
  | nil => simp
  | cons a l ih => simp only [List.map_cons, List.sum_cons, ih, realX_neg]; ring

/-- **C02 (executed coupling layer) over the reals**: the inverse pass returns the input and the negated row
    log-dets -/
theorem coupling_inverse_forward_real (e : Float → ℝ) (c : ElCfg) (mask : List ℝ) (B S : Nat) (x params uparams uparams' : Array ℝ)
    (hinv : ElInvertible (NF.realX e) c (transformIdx (NF.realX e) mask).length S params B)
    (herr : (couplingApply (NF.realX e) c mask B S x params false none uparams).err = none)
    (hsz : B * mask.length * S ≤ x.size) :
    let fwd := couplingApply (NF.realX e) c mask B S x params false none uparams
    let inv := couplingApply (NF.realX e) c mask B S fwd.out params true none uparams'
    inv.out = x ∧ inv.err = none ∧ inv.condIn = fwd.condIn ∧ ∀ b, b < B → inv.ld[b]? = (fwd.ld[b]?).map (fun l => -l) := by
  intro fwd inv
  obtain ⟨h1, h2⟩ := coupling_inverse_forward_ld (NF.realX e) c mask B S x params uparams uparams' hinv herr hsz
  refine ⟨coupling_inverse_forward (NF.realX e) c mask B S x params uparams uparams' hinv herr, h1,
    coupling_condIn_roundtrip (NF.realX e) c mask B S x params uparams uparams' (maskDisjoint_real e mask), ?_⟩
  intro b hb
  obtain ⟨h3, h4⟩ := h2 b hb
  show (couplingApply (NF.realX e) c mask B S (couplingApply (NF.realX e) c mask B S x params false none uparams).out
      params true none uparams').ld[b]? = ((couplingApply (NF.realX e) c mask B S x params false none uparams).ld[b]?).map _
  rw [h3, h4, foldl_add_real, foldl_add_real, sum_map_neg_real]
  simp

/-! ## R. Refinement: one row of the executed coupling layer IS the abstract coupling of `Lemmas/Coupling.lean` -/

/-- abstraction: row `b` of a flat `[B, C, 1]` array as a function on channels -/
def rowOf (o : XOps α) (C b : Nat) (a : Array α) : Fin C → α := fun i => a.getD (flatIdx C 1 b i 0) o.zero

/-- the abstract mask derived from the numeric mask: channel `i` is transformed iff `mask[i] > 0` -/
def isT (o : XOps α) (mask : List α) : Fin mask.length → Bool := fun i => o.gt (mask.getD i o.zero) o.zero

theorem mem_transformIdx_iff (o : XOps α) (mask : List α) (i : Fin mask.length) :
    (i : Nat) ∈ transformIdx o mask ↔ isT o mask i = true := by
  simp [transformIdx, isT, List.mem_filter]

/-- the "parameters" of channel `i` of row `b` in the abstract model: the two directional element maps the executed
    layer uses there (`tpos` = position of the channel in the transform list) -/
def chanEl (o : XOps α) (c : ElCfg) (mask : List α) (params : Array α) (b : Nat) (i : Fin mask.length) :
    Bool → α → ElRes α :=
  fun inverse => couplingEl o c (transformIdx o mask).length 1 params inverse b ((transformIdx o mask).idxOf i.val) 0

/-- for the spline families: `elTransform` on the channel's own parameter slice -/
theorem chanEl_spline (o : XOps α) (c : ElCfg) (mask : List α) (params : Array α) (b : Nat) (i : Fin mask.length)
    (hk1 : c.kind ≠ "affine") (hk2 : c.kind ≠ "additive") (inverse : Bool) (xi : α) :
    chanEl o c mask params b i inverse xi
      = elTransform o c inverse (condSlice o c.mult (transformIdx o mask).length 1 params b
          ((transformIdx o mask).idxOf i.val) 0) xi :=
  couplingEl_spline o c 1 params inverse hk1 hk2 _ _ _ _ _

/-- value semantics of an element map: success gives the new value, an error leaves the old one in the buffer -/
def applyEl (p : α → ElRes α) (xi : α) : α := match p xi with | .ok (y, _, _) => y | .error _ => xi

def fwdOf (p : Bool → α → ElRes α) : α → α := applyEl (p false)
def invOf (p : Bool → α → ElRes α) : α → α := applyEl (p true)

theorem idxOf_transform (o : XOps α) (mask : List α) {i : Nat} (hi : i ∈ transformIdx o mask) :
    (transformIdx o mask).idxOf i < (transformIdx o mask).length
      ∧ (transformIdx o mask).getD ((transformIdx o mask).idxOf i) 0 = i := by
  have h1 := List.idxOf_lt_length_of_mem hi
  refine ⟨h1, ?_⟩
  simp [List.getD, h1]

/-- one row of the executed layer, channel by channel (`S = 1`, no unconditional transform, either direction,
    errors allowed) -/
theorem coupling_row_pointwise (o : XOps α) (c : ElCfg) (mask : List α) (B : Nat) (x params uparams : Array α)
    (inverse : Bool) {b : Nat} (hb : b < B) (hsz : B * mask.length ≤ x.size) (i : Fin mask.length) :
    rowOf o mask.length b (couplingApply o c mask B 1 x params inverse none uparams).out i
      = if isT o mask i then applyEl (chanEl o c mask params b i inverse) (rowOf o mask.length b x i)
        else rowOf o mask.length b x i := by
  have hj : flatIdx mask.length 1 b i 0 < x.size := by
    have := flatIdx_lt (S := 1) hb i.isLt Nat.zero_lt_one
    omega
  unfold rowOf
  by_cases hT : isT o mask i = true
  · obtain ⟨ht, hg⟩ := idxOf_transform o mask ((mem_transformIdx_iff o mask i).2 hT)
    have h := coupling_out_transformed o c mask B 1 x params inverse none uparams hb ht Nat.zero_lt_one
    rw [hg, couplingUncond_none] at h
    rw [if_pos hT, Array.getD_eq_getD_getElem?, h, getD_of_lt hj, Array.getElem?_eq_getElem hj]
    unfold applyEl chanEl
    rcases couplingEl o c (transformIdx o mask).length 1 params inverse b
      ((transformIdx o mask).idxOf i.val) 0 x[flatIdx mask.length 1 b i 0] with e | ⟨y, l, al⟩ <;> rfl
  · have hni : (i : Nat) ∉ transformIdx o mask := fun hm => hT ((mem_transformIdx_iff o mask i).1 hm)
    rw [if_neg hT]
    exact getD_congr (coupling_identity_passthrough o c mask B 1 x params inverse uparams i.isLt Nat.zero_lt_one hni) _

/-- **Refinement, forward.**  For ANY conditioner `net` (a function of the blanked identity part and a context)
    that produces the element maps the executed layer used in row `b`, row `b` of the executed forward pass is
    `Coupling.Coupling.forward` for the mask-derived `isT` — so `Properties.C07.identity_passthrough`,
    `cond_sees_only_identity`, `transformed_depends_on` and the ranked-dependency theorem of C01 are statements about
    what the driver runs. -/
theorem coupling_row_refines_forward {Cx : Type} (o : XOps α) (c : ElCfg) (mask : List α) (B : Nat)
    (x params uparams : Array α) {b : Nat} (hb : b < B) (hsz : B * mask.length ≤ x.size)
    (net : (Fin mask.length → α) → Cx → Fin mask.length → (Bool → α → ElRes α)) (ctx : Cx)
    (hnet : ∀ i, isT o mask i = true →
      net (Coupling.Coupling.idPart (isT o mask) o.zero (rowOf o mask.length b x)) ctx i = chanEl o c mask params b i) :
    rowOf o mask.length b (couplingApply o c mask B 1 x params false none uparams).out
      = Coupling.Coupling.forward (isT o mask) o.zero net fwdOf (rowOf o mask.length b x) ctx := by
  funext i
  rw [coupling_row_pointwise o c mask B x params uparams false hb hsz i]
  unfold Coupling.Coupling.forward
  by_cases hT : isT o mask i = true
  · rw [if_pos hT, if_pos hT, hnet i hT]; rfl
  · rw [if_neg hT, if_neg hT]

/-- **Refinement, inverse.** -/
theorem coupling_row_refines_inverse {Cx : Type} (o : XOps α) (c : ElCfg) (mask : List α) (B : Nat)
    (y params uparams : Array α) {b : Nat} (hb : b < B) (hsz : B * mask.length ≤ y.size)
    (net : (Fin mask.length → α) → Cx → Fin mask.length → (Bool → α → ElRes α)) (ctx : Cx)
    (hnet : ∀ i, isT o mask i = true →
      net (Coupling.Coupling.idPart (isT o mask) o.zero (rowOf o mask.length b y)) ctx i = chanEl o c mask params b i) :
    rowOf o mask.length b (couplingApply o c mask B 1 y params true none uparams).out
      = Coupling.Coupling.inverse (isT o mask) o.zero net invOf (rowOf o mask.length b y) ctx := by
  funext i
  rw [coupling_row_pointwise o c mask B y params uparams true hb hsz i]
  unfold Coupling.Coupling.inverse
  by_cases hT : isT o mask i = true
  · rw [if_pos hT, if_pos hT, hnet i hT]; rfl
  · rw [if_neg hT, if_neg hT]

/-- the instance with the conditioner "whatever produced `params`" (always available) -/
theorem coupling_row_refines_forward_const (o : XOps α) (c : ElCfg) (mask : List α) (B : Nat)
    (x params uparams : Array α) {b : Nat} (hb : b < B) (hsz : B * mask.length ≤ x.size) :
    rowOf o mask.length b (couplingApply o c mask B 1 x params false none uparams).out
      = Coupling.Coupling.forward (isT o mask) o.zero (fun _ (_ : Unit) i => chanEl o c mask params b i) fwdOf
          (rowOf o mask.length b x) () :=
  coupling_row_refines_forward o c mask B x params uparams hb hsz _ () (fun _ _ => rfl)

/-- the abstract C07 theorems, transported to the executed layer through the refinement: the blanked identity part
    of an executed output row is the blanked identity part of the input row (`Coupling.idPart_forward`), and an
    identity channel of the executed output row is the input (`Coupling.identity_passthrough`) -/
theorem executed_idPart_forward (o : XOps α) (c : ElCfg) (mask : List α) (B : Nat)
    (x params uparams : Array α) {b : Nat} (hb : b < B) (hsz : B * mask.length ≤ x.size) :
    Coupling.Coupling.idPart (isT o mask) o.zero
        (rowOf o mask.length b (couplingApply o c mask B 1 x params false none uparams).out)
      = Coupling.Coupling.idPart (isT o mask) o.zero (rowOf o mask.length b x) := by
  rw [coupling_row_refines_forward_const o c mask B x params uparams hb hsz]
  exact Coupling.Coupling.idPart_forward _ _ _ _ _ _

theorem executed_identity_passthrough (o : XOps α) (c : ElCfg) (mask : List α) (B : Nat)
    (x params uparams : Array α) {b : Nat} (hb : b < B) (hsz : B * mask.length ≤ x.size) (i : Fin mask.length)
    (hi : isT o mask i = false) :
    rowOf o mask.length b (couplingApply o c mask B 1 x params false none uparams).out i = rowOf o mask.length b x i := by
  rw [coupling_row_refines_forward_const o c mask B x params uparams hb hsz]
  exact Coupling.Coupling.identity_passthrough _ _ _ _ _ _ i hi

/-- what the conditioner is given is the abstract `idPart` restricted to the identity channels: entry `(b, k)` of
    `condIn` is `rowOf x` at the `k`-th identity channel -/
theorem coupling_condIn_row (o : XOps α) (c : ElCfg) (mask : List α) (B : Nat) (x params uparams : Array α) (inverse : Bool) :
    (couplingApply o c mask B 1 x params inverse none uparams).condIn
      = ((List.range B).flatMap fun b => (identityIdx o mask).map fun ch => x.getD (flatIdx mask.length 1 b ch 0) o.zero).toArray := by
  have h1 : (couplingApply o c mask B 1 x params inverse none uparams).condIn
      = gatherCh x B mask.length 1 (identityIdx o mask) o.zero := by
    cases inverse <;> simp [coupling_condIn_eq]
  rw [h1]
  unfold gatherCh
  congr 1
  apply List.flatMap_congr
  intro b _
  simp only [List.range_one, List.map_cons, List.map_nil]
  exact flatMap_singleton_fn _ _

/-! ### C01 at channel level: the row log-det as the `Finset.sum` over all `C` channels -/

theorem sum_map_filter_range (p : Nat → Bool) (g : Nat → ℝ) (n : Nat) :
    (((List.range n).filter p).map g).sum = ∑ i : Fin n, if p i then g i else 0 := by
  rw [← sum_map_range (fun i => if p i then g i else 0)]
  induction (List.range n) with
  | nil => rfl
  | cons a l ih =>
    by_cases h : p a = true
    · simp [h, ih]
    · simp [h, ih]

/-- **C01 (executed coupling layer, reals, `S = 1`)**: when no element of row `b` raised, `ld[b]` is
    `∑ i : Fin C, ld i` with `ld i = 0` on identity channels and the element's log-det on transformed channels —
    the sum `Properties.C01.sum_logdet_eq_log_abs_det` turns into `log |det J|`. -/
theorem coupling_ld_real_channels (e : Float → ℝ) (c : ElCfg) (mask : List ℝ) (B : Nat) (x params uparams : Array ℝ)
    (inverse : Bool) {b : Nat} (hb : b < B)
    (hok : ∀ r ∈ rowResults (NF.realX e) c mask 1 x params inverse none uparams b, ∃ v, r = .ok v) :
    (couplingApply (NF.realX e) c mask B 1 x params inverse none uparams).ld[b]?
      = some (∑ i : Fin mask.length,
          if isT (NF.realX e) mask i then
            ldOf (NF.realX e) (chanEl (NF.realX e) c mask params b i inverse (rowOf (NF.realX e) mask.length b x i))
          else 0) := by
  rw [coupling_ld_real e c mask B 1 x params inverse none uparams hb hok, rowResults_none, rowIter_one]
  congr 1
  -- the list of transformed positions is the filtered range of channels
  have hlist : (List.range (transformIdx (NF.realX e) mask).length)
      = (transformIdx (NF.realX e) mask).map (fun ch => (transformIdx (NF.realX e) mask).idxOf ch) := by
    apply List.ext_getElem
    · simp
    · intro t h1 h2
      simp only [List.getElem_range, List.getElem_map]
      exact ((transformIdx_ok (NF.realX e) mask).nodup.idxOf_getElem t (by simpa using h1)).symm
  set g : Nat → ℝ := fun ch =>
    if h : ch < mask.length then
      ldOf (NF.realX e) (chanEl (NF.realX e) c mask params b ⟨ch, h⟩ inverse (rowOf (NF.realX e) mask.length b x ⟨ch, h⟩))
    else 0 with hg
  have hsum : (List.map (ldOf (NF.realX e))
      (List.map (fun ts : Nat × Nat =>
          couplingEl (NF.realX e) c (transformIdx (NF.realX e) mask).length 1 params inverse b ts.1 ts.2
            (x.getD (flatIdx mask.length 1 b ((transformIdx (NF.realX e) mask).getD ts.1 0) ts.2) (NF.realX e).zero))
        (List.map (fun t => (t, 0)) (List.range (transformIdx (NF.realX e) mask).length))))
      = (transformIdx (NF.realX e) mask).map g := by
    rw [hlist]
    simp only [List.map_map]
    apply List.map_congr_left
    intro ch hch
    obtain ⟨_, hgd⟩ := idxOf_transform (NF.realX e) mask hch
    have hlt : ch < mask.length := (transformIdx_ok (NF.realX e) mask).lt _ hch
    simp only [Function.comp, hgd, hg, hlt, dif_pos, chanEl, rowOf]
  rw [hsum]
  unfold transformIdx
  rw [sum_map_filter_range]
  apply Finset.sum_congr rfl
  intro i _
  simp only [isT, hg, i.isLt, dif_pos]
  rfl

/-! ## W. The hypotheses are satisfiable: additive / affine coupling over the reals, hypothesis-free -/

/-- `x ↦ x * scale + shift` over the reals inverts exactly and negates its log-det, for any non-zero scale -/
theorem scaleShiftT_real_invertible (e : Float → ℝ) (scale shift xi : ℝ) (hs : scale ≠ 0) {y l : ℝ}
    (h : scaleShiftT (NF.realX e) scale shift false xi = .ok (y, l)) :
    scaleShiftT (NF.realX e) scale shift true y = .ok (xi, (NF.realX e).neg l) := by
  simp only [scaleShiftT, Bool.false_eq_true, if_false, Except.ok.injEq, Prod.mk.injEq] at h
  obtain ⟨rfl, rfl⟩ := h
  simp only [scaleShiftT, if_true, realX_add, realX_mul, realX_sub, realX_div, realX_neg, realX_log]
  congr 2
  field_simp
  ring

/-- additive coupling: every element is invertible (no hypothesis at all) -/
theorem elInvertible_additive_real (e : Float → ℝ) (c : ElCfg) (hk : c.kind = "additive") (Ft S : Nat)
    (params : Array ℝ) (B : Nat) : ElInvertible (NF.realX e) c Ft S params B := by
  intro b t s xi y l al _ _ _ hf
  have hk1 : (c.kind == "affine") = false := by rw [hk]; decide
  have hk2 : (c.kind == "additive") = true := by rw [hk]; decide
  simp only [couplingEl, hk1, hk2, Bool.false_eq_true, if_false, if_true] at hf ⊢
  cases hft : scaleShiftT (NF.realX e) (NF.realX e).one
      (params.getD ((b * Ft + t) * S + s) (NF.realX e).zero) false xi with
  | error err => rw [hft] at hf; simp [Except.map] at hf
  | ok v =>
    obtain ⟨y', l'⟩ := v
    rw [hft] at hf
    simp only [Except.map, Except.ok.injEq, Prod.mk.injEq] at hf
    obtain ⟨rfl, rfl, rfl⟩ := hf
    rw [scaleShiftT_real_invertible e _ _ xi (by simp) hft]
    exact ⟨[], rfl⟩

/-- additive / affine coupling never raises -/
theorem coupling_additive_err_none (o : XOps α) (c : ElCfg) (hk : c.kind = "additive") (mask : List α) (B S : Nat)
    (x params uparams : Array α) (inverse : Bool) :
    (couplingApply o c mask B S x params inverse none uparams).err = none := by
  rw [coupling_err_none_iff, ucAll_none, List.nil_append, condAll_eq]
  intro u hu
  obtain ⟨b, t, s, _, _, _, rfl⟩ := (mem_tAll ..).1 hu
  have hk1 : (c.kind == "affine") = false := by rw [hk]; decide
  have hk2 : (c.kind == "additive") = true := by rw [hk]; decide
  simp only [condElF, couplingEl, hk1, hk2, Bool.false_eq_true, if_false, if_true, scaleShiftT]
  cases inverse <;> exact ⟨_, rfl⟩

/-- **non-vacuity of C02 (executed)**: the additive coupling layer over the reals, for EVERY mask, `B`, `S`, input
    filling the shape and parameter array: inverse ∘ forward is the identity on the array and negates every row
    log-det, and the conditioner input is the same in both passes -/
theorem coupling_additive_roundtrip_real (e : Float → ℝ) (c : ElCfg) (hk : c.kind = "additive") (mask : List ℝ)
    (B S : Nat) (x params uparams uparams' : Array ℝ) (hsz : B * mask.length * S ≤ x.size) :
    let fwd := couplingApply (NF.realX e) c mask B S x params false none uparams
    let inv := couplingApply (NF.realX e) c mask B S fwd.out params true none uparams'
    inv.out = x ∧ inv.err = none ∧ inv.condIn = fwd.condIn ∧ ∀ b, b < B → inv.ld[b]? = (fwd.ld[b]?).map (fun l => -l) :=
  coupling_inverse_forward_real e c mask B S x params uparams uparams'
    (elInvertible_additive_real e c hk _ S params B)
    (coupling_additive_err_none (NF.realX e) c hk mask B S x params uparams false) hsz

/-- the scale of the affine coupling transform is positive over the reals (both activations), as soon as the
    constant `1e-3` is read as a non-negative real -/
theorem affineScale_pos (e : Float → ℝ) (he : 0 ≤ e 1e-3) (act : String) (u : ℝ) :
    0 < (if act == "general" then
          (NF.realX e).clamp (NF.realX e).zero ((NF.realX e).ofNat 3)
            ((NF.realX e).add ((NF.realX e).softplus u) ((NF.realX e).ofFloat 1e-3))
         else (NF.realX e).add ((NF.realX e).sigmoid ((NF.realX e).add u (NF.realX e).two)) ((NF.realX e).ofFloat 1e-3)) := by
  split
  · have hsp : 0 < (NF.realX e).softplus u := by
      rw [realX_softplus]
      split
      · linarith
      · exact Real.log_pos (by linarith [Real.exp_pos u])
    have hx : 0 < (NF.realX e).softplus u + e 1e-3 := by linarith
    simp only [XOps.clamp, XOps.minA, XOps.maxA, realX_lt, realX_zero, realX_ofNat, realX_add, realX_ofFloat,
      decide_eq_true_eq]
    rw [if_neg (not_lt.2 hx.le)]
    split
    · norm_num
    · exact hx
  · simp only [realX_add, realX_ofFloat, realX_sigmoid]
    have : 0 < 1 / (1 + Real.exp (-(u + (NF.realX e).two))) := by positivity
    linarith

/-- affine coupling (both scale activations): every element is invertible over the reals -/
theorem elInvertible_affine_real (e : Float → ℝ) (he : 0 ≤ e 1e-3) (c : ElCfg) (hk : c.kind = "affine") (Ft S : Nat)
    (params : Array ℝ) (B : Nat) : ElInvertible (NF.realX e) c Ft S params B := by
  intro b t s xi y l al _ _ _ hf
  have hk1 : (c.kind == "affine") = true := by rw [hk]; decide
  simp only [couplingEl, hk1, if_true] at hf ⊢
  have hpos := affineScale_pos e he c.act
    (params.getD ((b * (2 * Ft) + (Ft + t)) * S + s) (NF.realX e).zero)
  generalize (if c.act == "general" then
          (NF.realX e).clamp (NF.realX e).zero ((NF.realX e).ofNat 3)
            ((NF.realX e).add ((NF.realX e).softplus (params.getD ((b * (2 * Ft) + (Ft + t)) * S + s) (NF.realX e).zero))
              ((NF.realX e).ofFloat 1e-3))
         else (NF.realX e).add ((NF.realX e).sigmoid ((NF.realX e).add
            (params.getD ((b * (2 * Ft) + (Ft + t)) * S + s) (NF.realX e).zero) (NF.realX e).two))
            ((NF.realX e).ofFloat 1e-3)) = scale at hf hpos ⊢
  cases hft : scaleShiftT (NF.realX e) scale
      (params.getD ((b * (2 * Ft) + t) * S + s) (NF.realX e).zero) false xi with
  | error err => rw [hft] at hf; simp [Except.map] at hf
  | ok v =>
    obtain ⟨y', l'⟩ := v
    rw [hft] at hf
    simp only [Except.map, Except.ok.injEq, Prod.mk.injEq] at hf
    obtain ⟨rfl, rfl, rfl⟩ := hf
    rw [scaleShiftT_real_invertible e _ _ xi hpos.ne' hft]
    exact ⟨[], rfl⟩

/-- affine coupling never raises -/
theorem coupling_affine_err_none (o : XOps α) (c : ElCfg) (hk : c.kind = "affine") (mask : List α) (B S : Nat)
    (x params uparams : Array α) (inverse : Bool) :
    (couplingApply o c mask B S x params inverse none uparams).err = none := by
  rw [coupling_err_none_iff, ucAll_none, List.nil_append, condAll_eq]
  intro u hu
  obtain ⟨b, t, s, _, _, _, rfl⟩ := (mem_tAll ..).1 hu
  have hk1 : (c.kind == "affine") = true := by rw [hk]; decide
  simp only [condElF, couplingEl, hk1, if_true, scaleShiftT]
  cases inverse <;> exact ⟨_, rfl⟩

/-- **C02 (executed affine coupling layer over the reals)**, hypothesis-free apart from the reading of `1e-3` -/
theorem coupling_affine_roundtrip_real (e : Float → ℝ) (he : 0 ≤ e 1e-3) (c : ElCfg) (hk : c.kind = "affine")
    (mask : List ℝ) (B S : Nat) (x params uparams uparams' : Array ℝ) (hsz : B * mask.length * S ≤ x.size) :
    let fwd := couplingApply (NF.realX e) c mask B S x params false none uparams
    let inv := couplingApply (NF.realX e) c mask B S fwd.out params true none uparams'
    inv.out = x ∧ inv.err = none ∧ inv.condIn = fwd.condIn ∧ ∀ b, b < B → inv.ld[b]? = (fwd.ld[b]?).map (fun l => -l) :=
  coupling_inverse_forward_real e c mask B S x params uparams uparams'
    (elInvertible_affine_real e he c hk _ S params B)
    (coupling_affine_err_none (NF.realX e) c hk mask B S x params uparams false) hsz

/-- a concrete executed instance at `Float` (what the driver runs): mask `[0, 1]`, one row; the identity position
    holds the input bit for bit and the conditioner is given exactly the identity feature -/
theorem float_example : let r := couplingApply floatX { kind := "additive" } [0.0, 1.0] 1 1 #[3.0, 5.0] #[2.0] false
    r.out[0]? = (#[3.0, 5.0] : Array Float)[0]? ∧ r.condIn = gatherCh #[3.0, 5.0] 1 2 1 (identityIdx floatX [0.0, 1.0]) floatX.zero := by
  intro r
  refine ⟨?_, coupling_condIn_forward floatX _ _ 1 1 _ _ none #[]⟩
  have hni : (0 : Nat) ∉ transformIdx floatX [0.0, 1.0] := by decide +kernel
  exact coupling_identity_passthrough floatX _ [0.0, 1.0] 1 1 _ _ false #[] (b := 0) (ch := 0) (s := 0)
    (by decide) (by decide) hni

/-! ## U. C02 with an unconditional transform of the identity features (coupling.py:92-96, 121-125) -/

section c02uc
variable (o : XOps α) (c : ElCfg) (mask : List α) (B S : Nat) (x params uparams : Array α) (ucfg : ElCfg)

/-- the conditional pass leaves every non-transform channel as the unconditional pass left it (any `uc`) -/
theorem coupling_out_other_channel (inverse : Bool) (uc : Option ElCfg) {b ch s : Nat} (hch : ch < mask.length)
    (hs : s < S) (hni : ch ∉ transformIdx o mask) :
    (couplingApply o c mask B S x params inverse uc uparams).out[flatIdx mask.length S b ch s]?
      = (couplingUncond o mask B S x inverse uc uparams)[flatIdx mask.length S b ch s]? := by
  rw [coupling_out_eq, condAll_eq]
  exact tAll_other_channel o (transformIdx_ok o mask) _ _ _ _ hch hs hni

theorem couplingUncond_untouched (inverse : Bool) (uc : Option ElCfg) (j : Nat)
    (hj : ∀ b t s, b < B → t < (identityIdx o mask).length → s < S →
      j ≠ flatIdx mask.length S b ((identityIdx o mask).getD t 0) s) :
    (couplingUncond o mask B S x inverse uc uparams)[j]? = x[j]? := by
  cases uc with
  | none => simp
  | some ucfg =>
    rw [couplingUncond_eq, ucAll_some]
    exact tAll_untouched o _ _ _ _ _ _ _ j hj

/-- per-element invertibility of the unconditional transformer (parameters shared across the batch) -/
def UcInvertible (o : XOps α) (ucfg : ElCfg) (n S : Nat) (uparams : Array α) : Prop :=
  ∀ t s xi y l al, t < n → s < S →
    elTransform o ucfg false (ucSlice o ucfg.mult S uparams t s) xi = .ok (y, l, al) →
    ∃ al', elTransform o ucfg true (ucSlice o ucfg.mult S uparams t s) y = .ok (xi, o.neg l, al')

/-- **C02 (executed coupling layer with an unconditional transform), outputs**: the inverse pass (which FIRST
    un-transforms the identity features, then inverts the transformed ones) applied to the forward output with the
    same conditional and unconditional parameters returns the original array. -/
theorem coupling_inverse_forward_uc (hd : MaskDisjoint o mask)
    (hinv : ElInvertible o c (transformIdx o mask).length S params B)
    (huinv : UcInvertible o ucfg (identityIdx o mask).length S uparams)
    (herr : (couplingApply o c mask B S x params false (some ucfg) uparams).err = none) :
    (couplingApply o c mask B S (couplingApply o c mask B S x params false (some ucfg) uparams).out params true
      (some ucfg) uparams).out = x := by
  have hall := (coupling_err_none_iff o c mask B S x params false (some ucfg) uparams).1 herr
  apply Array.ext_getElem?
  intro j
  by_cases hT : ∃ b t s, b < B ∧ t < (transformIdx o mask).length ∧ s < S ∧
      j = flatIdx mask.length S b ((transformIdx o mask).getD t 0) s
  · obtain ⟨b, t, s, hb, ht, hs, rfl⟩ := hT
    have hch := (transformIdx_ok o mask).getD_lt ht
    have hchI : (transformIdx o mask).getD t 0 ∉ identityIdx o mask := fun h => hd _ h (getD_mem_of_lt ht)
    obtain ⟨⟨y, l, al⟩, hy⟩ := hall (_, couplingEl o c (transformIdx o mask).length S params false b t s
        (x.getD (flatIdx mask.length S b ((transformIdx o mask).getD t 0) s) o.zero))
      (List.mem_append_right _ (by rw [condAll_eq]; exact (mem_tAll ..).2 ⟨b, t, s, hb, ht, hs, rfl⟩))
    simp only at hy
    have hfwd := coupling_out_transformed o c mask B S x params false (some ucfg) uparams hb ht hs
    rw [hy, couplingUncond_other o mask B S x false (some ucfg) uparams hch hs hchI] at hfwd
    rw [coupling_out_transformed o c mask B S _ params true (some ucfg) uparams hb ht hs,
      couplingUncond_other o mask B S _ true (some ucfg) uparams hch hs hchI]
    by_cases hj : flatIdx mask.length S b ((transformIdx o mask).getD t 0) s < x.size
    · have hx : x.getD (flatIdx mask.length S b ((transformIdx o mask).getD t 0) s) o.zero
          = x[flatIdx mask.length S b ((transformIdx o mask).getD t 0) s] := getD_of_lt hj _
      have hy' : (couplingApply o c mask B S x params false (some ucfg) uparams).out[flatIdx mask.length S b ((transformIdx o mask).getD t 0) s]?
          = some y := by rw [hfwd, Array.getElem?_eq_getElem hj]; rfl
      have hget : (couplingApply o c mask B S x params false (some ucfg) uparams).out.getD
          (flatIdx mask.length S b ((transformIdx o mask).getD t 0) s) o.zero = y := by
        rw [Array.getD_eq_getD_getElem?, hy']; rfl
      obtain ⟨al', h'⟩ := hinv b t s _ y l al hb ht hs hy
      rw [hget, h', hy', hx, Array.getElem?_eq_getElem hj]
      rfl
    · have h1 : x[flatIdx mask.length S b ((transformIdx o mask).getD t 0) s]? = none := getElem?_none_of_not_lt hj
      rw [h1, selOut_none] at hfwd
      rw [hfwd, selOut_none, h1]
  · have hjT : ∀ b t s, b < B → t < (transformIdx o mask).length → s < S →
        j ≠ flatIdx mask.length S b ((transformIdx o mask).getD t 0) s :=
      fun b t s hb ht hs he => hT ⟨b, t, s, hb, ht, hs, he⟩
    rw [coupling_out_untouched o c mask B S _ params true (some ucfg) uparams j hjT]
    have hfo := coupling_out_untouched o c mask B S x params false (some ucfg) uparams j hjT
    by_cases hI : ∃ b t s, b < B ∧ t < (identityIdx o mask).length ∧ s < S ∧
        j = flatIdx mask.length S b ((identityIdx o mask).getD t 0) s
    · obtain ⟨b, t, s, hb, ht, hs, rfl⟩ := hI
      obtain ⟨⟨y, l, al⟩, hy⟩ := hall (_, elTransform o ucfg false (ucSlice o ucfg.mult S uparams t s)
          (x.getD (flatIdx mask.length S b ((identityIdx o mask).getD t 0) s) o.zero))
        (List.mem_append_left _ (by rw [ucAll_some]; exact (mem_tAll ..).2 ⟨b, t, s, hb, ht, hs, rfl⟩))
      simp only at hy
      rw [couplingUncond_identity o mask B S x false uparams ucfg hb ht hs, hy] at hfo
      rw [couplingUncond_identity o mask B S _ true uparams ucfg hb ht hs]
      by_cases hj : flatIdx mask.length S b ((identityIdx o mask).getD t 0) s < x.size
      · have hx : x.getD (flatIdx mask.length S b ((identityIdx o mask).getD t 0) s) o.zero
            = x[flatIdx mask.length S b ((identityIdx o mask).getD t 0) s] := getD_of_lt hj _
        have hy' : (couplingApply o c mask B S x params false (some ucfg) uparams).out[flatIdx mask.length S b ((identityIdx o mask).getD t 0) s]?
            = some y := by rw [hfo, Array.getElem?_eq_getElem hj]; rfl
        have hget : (couplingApply o c mask B S x params false (some ucfg) uparams).out.getD
            (flatIdx mask.length S b ((identityIdx o mask).getD t 0) s) o.zero = y := by
          rw [Array.getD_eq_getD_getElem?, hy']; rfl
        obtain ⟨al', h'⟩ := huinv t s _ y l al ht hs hy
        rw [hget, h', hy', hx, Array.getElem?_eq_getElem hj]
        rfl
      · have h1 : x[flatIdx mask.length S b ((identityIdx o mask).getD t 0) s]? = none := getElem?_none_of_not_lt hj
        rw [h1, selOut_none] at hfo
        rw [hfo, selOut_none, h1]
    · have hjI : ∀ b t s, b < B → t < (identityIdx o mask).length → s < S →
          j ≠ flatIdx mask.length S b ((identityIdx o mask).getD t 0) s :=
        fun b t s hb ht hs he => hI ⟨b, t, s, hb, ht, hs, he⟩
      rw [couplingUncond_untouched o mask B S _ uparams true (some ucfg) j hjI, hfo,
        couplingUncond_untouched o mask B S x uparams false (some ucfg) j hjI]

/-- … and the conditioner of the inverse pass is given the un-transformed identity features, i.e. exactly what the
    conditioner of the forward pass was given (the RAW identity features): "the same parameters" is justified with
    an unconditional transform too -/
theorem coupling_condIn_roundtrip_uc (hd : MaskDisjoint o mask)
    (hinv : ElInvertible o c (transformIdx o mask).length S params B)
    (huinv : UcInvertible o ucfg (identityIdx o mask).length S uparams)
    (herr : (couplingApply o c mask B S x params false (some ucfg) uparams).err = none) :
    (couplingApply o c mask B S (couplingApply o c mask B S x params false (some ucfg) uparams).out params true
      (some ucfg) uparams).condIn
      = (couplingApply o c mask B S x params false (some ucfg) uparams).condIn := by
  rw [coupling_condIn_inverse_uc, coupling_condIn_forward]
  apply gatherCh_congr
  intro b ch s _ hch hs
  rw [← coupling_out_other_channel o c mask B S _ params uparams true (some ucfg)
    ((identityIdx_ok o mask).lt _ hch) hs (hd ch hch),
    coupling_inverse_forward_uc o c mask B S x params uparams ucfg hd hinv huinv herr]

theorem rowResults_some (inverse : Bool) (b : Nat) :
    rowResults o c mask S x params inverse (some ucfg) uparams b
      = ((rowIter (identityIdx o mask).length S).map fun ts =>
          elTransform o ucfg inverse (ucSlice o ucfg.mult S uparams ts.1 ts.2)
            (x.getD (flatIdx mask.length S b ((identityIdx o mask).getD ts.1 0) ts.2) o.zero))
        ++ ((rowIter (transformIdx o mask).length S).map fun ts =>
          couplingEl o c (transformIdx o mask).length S params inverse b ts.1 ts.2
            (x.getD (flatIdx mask.length S b ((transformIdx o mask).getD ts.1 0) ts.2) o.zero)) := by
  simp only [rowResults, ucRow, condRow, tRow, List.map_append, List.map_map]
  rfl

/-- the inverse unconditional element applied to what the forward pass stored at an identity position -/
theorem uc_inv_el_of_fwd (hd : MaskDisjoint o mask)
    (huinv : UcInvertible o ucfg (identityIdx o mask).length S uparams)
    (herr : (couplingApply o c mask B S x params false (some ucfg) uparams).err = none)
    (hsz : B * mask.length * S ≤ x.size)
    {b t s : Nat} (hb : b < B) (ht : t < (identityIdx o mask).length) (hs : s < S) :
    ∃ y l al al',
      elTransform o ucfg false (ucSlice o ucfg.mult S uparams t s)
        (x.getD (flatIdx mask.length S b ((identityIdx o mask).getD t 0) s) o.zero) = .ok (y, l, al) ∧
      elTransform o ucfg true (ucSlice o ucfg.mult S uparams t s)
        ((couplingApply o c mask B S x params false (some ucfg) uparams).out.getD
          (flatIdx mask.length S b ((identityIdx o mask).getD t 0) s) o.zero)
        = .ok (x.getD (flatIdx mask.length S b ((identityIdx o mask).getD t 0) s) o.zero, o.neg l, al') := by
  have hall := (coupling_err_none_iff o c mask B S x params false (some ucfg) uparams).1 herr
  obtain ⟨⟨y, l, al⟩, hy⟩ := hall (_, elTransform o ucfg false (ucSlice o ucfg.mult S uparams t s)
      (x.getD (flatIdx mask.length S b ((identityIdx o mask).getD t 0) s) o.zero))
    (List.mem_append_left _ (by rw [ucAll_some]; exact (mem_tAll ..).2 ⟨b, t, s, hb, ht, hs, rfl⟩))
  simp only at hy
  have hch := (identityIdx_ok o mask).getD_lt ht
  have hj : flatIdx mask.length S b ((identityIdx o mask).getD t 0) s < x.size :=
    lt_of_lt_of_le (flatIdx_lt hb hch hs) hsz
  have hy' : (couplingApply o c mask B S x params false (some ucfg) uparams).out[flatIdx mask.length S b ((identityIdx o mask).getD t 0) s]?
      = some y := by
    rw [coupling_out_other_channel o c mask B S x params uparams false (some ucfg) hch hs (hd _ (getD_mem_of_lt ht)),
      couplingUncond_identity o mask B S x false uparams ucfg hb ht hs, hy, Array.getElem?_eq_getElem hj]
    rfl
  have hget : (couplingApply o c mask B S x params false (some ucfg) uparams).out.getD
      (flatIdx mask.length S b ((identityIdx o mask).getD t 0) s) o.zero = y := by
    rw [Array.getD_eq_getD_getElem?, hy']; rfl
  obtain ⟨al', h'⟩ := huinv t s _ y l al ht hs hy
  exact ⟨y, l, al, al', hy, by rw [hget, h']⟩

/-- the inverse conditional element applied to what the forward pass stored at a transformed position -/
theorem cond_inv_el_of_fwd_uc (hinv : ElInvertible o c (transformIdx o mask).length S params B)
    (herr : (couplingApply o c mask B S x params false (some ucfg) uparams).err = none)
    (hsz : B * mask.length * S ≤ x.size)
    {b t s : Nat} (hb : b < B) (ht : t < (transformIdx o mask).length) (hs : s < S) :
    ∃ y l al al',
      couplingEl o c (transformIdx o mask).length S params false b t s
        (x.getD (flatIdx mask.length S b ((transformIdx o mask).getD t 0) s) o.zero) = .ok (y, l, al) ∧
      couplingEl o c (transformIdx o mask).length S params true b t s
        ((couplingApply o c mask B S x params false (some ucfg) uparams).out.getD
          (flatIdx mask.length S b ((transformIdx o mask).getD t 0) s) o.zero)
        = .ok (x.getD (flatIdx mask.length S b ((transformIdx o mask).getD t 0) s) o.zero, o.neg l, al') := by
  have hall := (coupling_err_none_iff o c mask B S x params false (some ucfg) uparams).1 herr
  obtain ⟨⟨y, l, al⟩, hy⟩ := hall (_, couplingEl o c (transformIdx o mask).length S params false b t s
      (x.getD (flatIdx mask.length S b ((transformIdx o mask).getD t 0) s) o.zero))
    (List.mem_append_right _ (by rw [condAll_eq]; exact (mem_tAll ..).2 ⟨b, t, s, hb, ht, hs, rfl⟩))
  simp only at hy
  have hj : flatIdx mask.length S b ((transformIdx o mask).getD t 0) s < x.size :=
    lt_of_lt_of_le (flatIdx_lt hb ((transformIdx_ok o mask).getD_lt ht) hs) hsz
  have hy' := coupling_out_transformed_ok o c mask B S x params false (some ucfg) uparams hb ht hs hj hy
  have hget : (couplingApply o c mask B S x params false (some ucfg) uparams).out.getD
      (flatIdx mask.length S b ((transformIdx o mask).getD t 0) s) o.zero = y := by
    rw [Array.getD_eq_getD_getElem?, hy']; rfl
  obtain ⟨al', h'⟩ := hinv b t s _ y l al hb ht hs hy
  exact ⟨y, l, al, al', hy, by rw [hget, h']⟩

/-- **C02 with an unconditional transform, log-dets**: the inverse pass reports no error and its row log-det is the
    left fold of the negated forward per-element log-dets, in the same order (unconditional part first) -/
theorem coupling_inverse_forward_uc_ld (hd : MaskDisjoint o mask)
    (hinv : ElInvertible o c (transformIdx o mask).length S params B)
    (huinv : UcInvertible o ucfg (identityIdx o mask).length S uparams)
    (herr : (couplingApply o c mask B S x params false (some ucfg) uparams).err = none)
    (hsz : B * mask.length * S ≤ x.size) :
    (couplingApply o c mask B S (couplingApply o c mask B S x params false (some ucfg) uparams).out params true
      (some ucfg) uparams).err = none
    ∧ ∀ b, b < B →
      (couplingApply o c mask B S x params false (some ucfg) uparams).ld[b]?
        = some (((rowResults o c mask S x params false (some ucfg) uparams b).map (ldOf o)).foldl o.add o.zero)
      ∧ (couplingApply o c mask B S (couplingApply o c mask B S x params false (some ucfg) uparams).out params true
          (some ucfg) uparams).ld[b]?
        = some ((((rowResults o c mask S x params false (some ucfg) uparams b).map (ldOf o)).map o.neg).foldl o.add o.zero) := by
  have hrow : ∀ b, b < B →
      (∀ r ∈ rowResults o c mask S (couplingApply o c mask B S x params false (some ucfg) uparams).out params true
          (some ucfg) uparams b, ∃ v, r = .ok v)
      ∧ (rowResults o c mask S (couplingApply o c mask B S x params false (some ucfg) uparams).out params true
          (some ucfg) uparams b).map (ldOf o)
        = ((rowResults o c mask S x params false (some ucfg) uparams b).map (ldOf o)).map o.neg := by
    intro b hb
    rw [rowResults_some, rowResults_some]
    constructor
    · intro r hr
      rcases List.mem_append.1 hr with hr | hr
      · obtain ⟨⟨t, s⟩, hts, rfl⟩ := List.mem_map.1 hr
        obtain ⟨ht, hs⟩ := mem_rowIter.1 hts
        obtain ⟨y, l, al, al', _, h2⟩ := uc_inv_el_of_fwd o c mask B S x params uparams ucfg hd huinv herr hsz hb ht hs
        exact ⟨_, h2⟩
      · obtain ⟨⟨t, s⟩, hts, rfl⟩ := List.mem_map.1 hr
        obtain ⟨ht, hs⟩ := mem_rowIter.1 hts
        obtain ⟨y, l, al, al', _, h2⟩ := cond_inv_el_of_fwd_uc o c mask B S x params uparams ucfg hinv herr hsz hb ht hs
        exact ⟨_, h2⟩
    · simp only [List.map_append, List.map_map]
      congr 1
      · apply List.map_congr_left
        rintro ⟨t, s⟩ hts
        obtain ⟨ht, hs⟩ := mem_rowIter.1 hts
        obtain ⟨y, l, al, al', h1, h2⟩ := uc_inv_el_of_fwd o c mask B S x params uparams ucfg hd huinv herr hsz hb ht hs
        simp only [Function.comp, h1, h2, ldOf]
      · apply List.map_congr_left
        rintro ⟨t, s⟩ hts
        obtain ⟨ht, hs⟩ := mem_rowIter.1 hts
        obtain ⟨y, l, al, al', h1, h2⟩ := cond_inv_el_of_fwd_uc o c mask B S x params uparams ucfg hinv herr hsz hb ht hs
        simp only [Function.comp, h1, h2, ldOf]
  constructor
  · rw [coupling_err_none_iff, ucAll_some, condAll_eq]
    intro u hu
    rcases List.mem_append.1 hu with hu | hu
    · obtain ⟨b, t, s, hb, ht, hs, rfl⟩ := (mem_tAll ..).1 hu
      obtain ⟨y, l, al, al', _, h2⟩ := uc_inv_el_of_fwd o c mask B S x params uparams ucfg hd huinv herr hsz hb ht hs
      exact ⟨_, h2⟩
    · obtain ⟨b, t, s, hb, ht, hs, rfl⟩ := (mem_tAll ..).1 hu
      obtain ⟨y, l, al, al', _, h2⟩ := cond_inv_el_of_fwd_uc o c mask B S x params uparams ucfg hinv herr hsz hb ht hs
      exact ⟨_, h2⟩
  · intro b hb
    refine ⟨coupling_ld_leftfold o c mask B S x params false (some ucfg) uparams hb
      (rowResults_ok_of_err_none o c mask B S x params false (some ucfg) uparams herr hb), ?_⟩
    rw [coupling_ld_leftfold o c mask B S _ params true (some ucfg) uparams hb (hrow b hb).1, (hrow b hb).2]

end c02uc

/-- **C02 with an unconditional transform over the reals**: outputs, error, conditioner input, negated row log-dets -/
theorem coupling_inverse_forward_uc_real (e : Float → ℝ) (c : ElCfg) (mask : List ℝ) (B S : Nat)
    (x params uparams : Array ℝ) (ucfg : ElCfg)
    (hinv : ElInvertible (NF.realX e) c (transformIdx (NF.realX e) mask).length S params B)
    (huinv : UcInvertible (NF.realX e) ucfg (identityIdx (NF.realX e) mask).length S uparams)
    (herr : (couplingApply (NF.realX e) c mask B S x params false (some ucfg) uparams).err = none)
    (hsz : B * mask.length * S ≤ x.size) :
    let fwd := couplingApply (NF.realX e) c mask B S x params false (some ucfg) uparams
    let inv := couplingApply (NF.realX e) c mask B S fwd.out params true (some ucfg) uparams
    inv.out = x ∧ inv.err = none ∧ inv.condIn = fwd.condIn ∧ ∀ b, b < B → inv.ld[b]? = (fwd.ld[b]?).map (fun l => -l) := by
  intro fwd inv
  have hd := maskDisjoint_real e mask
  obtain ⟨h1, h2⟩ := coupling_inverse_forward_uc_ld (NF.realX e) c mask B S x params uparams ucfg hd hinv huinv herr hsz
  refine ⟨coupling_inverse_forward_uc (NF.realX e) c mask B S x params uparams ucfg hd hinv huinv herr, h1,
    coupling_condIn_roundtrip_uc (NF.realX e) c mask B S x params uparams ucfg hd hinv huinv herr, ?_⟩
  intro b hb
  obtain ⟨h3, h4⟩ := h2 b hb
  show (couplingApply (NF.realX e) c mask B S (couplingApply (NF.realX e) c mask B S x params false (some ucfg) uparams).out
      params true (some ucfg) uparams).ld[b]?
    = ((couplingApply (NF.realX e) c mask B S x params false (some ucfg) uparams).ld[b]?).map _
  rw [h3, h4, foldl_add_real, foldl_add_real, sum_map_neg_real]
  simp

end NF.StructureExec
