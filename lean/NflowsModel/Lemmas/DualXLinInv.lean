import NflowsModel.Lemmas.DualXLin
/-!
# Lemmas/DualXLinInv — the EXECUTED piecewise-linear spline INVERSE run on dual numbers (C16)

`linSpline (dualX (NF.realX e)) box eps (up.map ι) true (y, 1)` is the inverse list program of `Core/Spline.lean` run on dual
numbers (forward-mode AD), parameters entering with zero tangent (`ι a = (a, 0)`), the input seeded with tangent `1`.
For every accepted configuration `LinWhole.LinValid e box eps up`:

* `hom_linspace01`, `hom_slopes` — `linspace01` and the slopes map `pdf ↦ pdf·K` commute with every `XHom`.
* `linSpline_dual_inv_exec`, `linSpline_dual_inv_values` — on the WHOLE closed domain `[bottom, top]` (cdf knots, both ends):
  the dual run succeeds (guard, search over the value components of the cdf knots, three gathers), its value components are
  the outputs `LinWhole.inv`, `LinWhole.invLd` of the real executed program, the tangent of the value is
  `invSlope i = (right−left)/((top−bottom)·pdf_i·K)` for the searched bin `i`, the tangent of the log-det is `0`
  (the dual `clamp 0 1` passes value and tangent through on `[0,1]`, ties included).
* `linSpline_dual_inv_slope` — strictly inside cdf-bin `k`: those tangents ARE the derivatives of `inv`, `invLd` (no
  hypothesis on the Python-side `np.log` constant); `linSpline_dualRes_inv` the same in the `DualRes` form.
* `linSpline_dual_inv`, `linSpline_dual_inv_zero` (headline) — with the `boxLog` reading `hbl` of `LinWhole.inv_hasDerivAt_y`:
  the dual run returns `((inv y, exp (invLd y)), (invLd y, 0))`, `HasDerivAt inv (exp (invLd y)) y`, `HasDerivAt invLd 0 y`.
* `linSpline_dual_inv_right` — at a cdf knot (anywhere in `[y_k, y_{k+1})`) the tangent is the RIGHT-hand derivative.
* non-vacuity: `linSpline_dual_inv_example` (three bins, every bin), `example_bins_nonempty`, `linSpline_dual_inv_example_log`.
-/
open NF DualSound DualX Filter Topology

namespace DualXLinInv
open LinWhole
noncomputable section

/-! ### `linspace01` and the slopes map commute with every homomorphism of `XOps` -/

section hom
variable {α β : Type} {o₁ : XOps α} {o₂ : XOps β} {φ : α → β}

theorem hom_ofNat (h : XHom o₁ o₂ φ) (n : ℕ) : φ (o₁.ofNat n) = o₂.ofNat n := h.ofRat n 1

theorem hom_linspace01 (h : XHom o₁ o₂ φ) (K : ℕ) : (linspace01 o₁ K).map φ = linspace01 o₂ K := by
  unfold linspace01
  rw [List.map_map]
  apply List.map_congr_left
  intro i _
  simp only [Function.comp, apply_ite φ, h.mul, h.sub, h.div, h.one, hom_ofNat h]

theorem hom_slopes (h : XHom o₁ o₂ φ) (K : ℕ) (ps : List α) :
    (ps.map (fun p => o₁.mul p (o₁.ofNat K))).map φ = (ps.map φ).map (fun p => o₂.mul p (o₂.ofNat K)) := by
  rw [List.map_map, List.map_map]
  apply List.map_congr_left
  intro p _
  simp only [Function.comp, h.mul, hom_ofNat h]

theorem map_drop' (f : α → β) (l : List α) (n : ℕ) : (l.map f).drop n = (l.drop n).map f := by
  induction l generalizing n with
  | nil => simp
  | cons a t ih =>
    cases n with
    | zero => rfl
    | succ m => simp
end hom

variable {e : Float → ℝ} {box : Box} {eps : Float} {up : List ℝ}

/-- `torch.linspace` and the slopes keep zero tangents -/
theorem dual_bnd (K : ℕ) : linspace01 (dualX (NF.realX e)) K = (bnd e K).map ι :=
  (hom_linspace01 (lift_hom e) K).symm

theorem dual_slp (up : List ℝ) :
    ((pdf e up).map ι).map (fun p => (dualX (NF.realX e)).mul p ((dualX (NF.realX e)).ofNat up.length))
      = (slp e up).map ι :=
  (hom_slopes (lift_hom e) up.length (pdf e up)).symm

/-- the dual normalised input of the inverse: value `y'`, tangent `1/(top − bottom)` -/
theorem dual_ny (hv : LinValid e box eps up) (y : ℝ) :
    (dualX (NF.realX e)).div ((dualX (NF.realX e)).sub (y, 1) ((dualX (NF.realX e)).ofFloat box.bottom))
        ((dualX (NF.realX e)).ofFloat (box.top - box.bottom))
      = (ny e box y, 1 / (e box.top - e box.bottom)) := by
  have hD : e box.top - e box.bottom ≠ 0 := (sub_pos.mpr hv.hbt).ne'
  simp only [d_div, d_sub, d_ofFloat, hv.hdbt]
  refine Prod.ext rfl ?_
  show (((1:ℝ) - 0) * (e box.top - e box.bottom) - (y - e box.bottom) * 0) / ((e box.top - e box.bottom) * (e box.top - e box.bottom))
    = 1 / (e box.top - e box.bottom)
  field_simp
  ring

variable (e) in
/-- the slope of the inverse in cdf-bin `k`, box coordinates: `(right − left)/((top − bottom)·pdf_k·K)` -/
def invSlope (box : Box) (up : List ℝ) (k : ℕ) : ℝ :=
  (e box.right - e box.left) / ((e box.top - e box.bottom) * (pd e up k * (up.length : ℝ)))

/-- the dual search over the lifted cdf knots sees value components only: it returns the bin of the real search -/
theorem dual_search (hv : LinValid e box eps up) (s t : ℝ) (hs0 : 0 ≤ s) (hs1 : s ≤ 1) :
    searchsortedG (dualX (NF.realX e)) eps ((cdf e up).map ι) (s, t) = ((idxI e eps up s : ℕ) : Int) := by
  rw [(fst_hom e).searchsortedG, List.map_map, fst_ι, List.map_id]
  exact (search_specI hv).2 s hs0 hs1

/-- **the dual inverse program selects the same cdf-bin (the search reads value components) and evaluates that bin's line on
    dual numbers** — for EVERY `y` of the closed domain, cdf knots included -/
theorem linSpline_dual_inv_exec (hv : LinValid e box eps up) (y : ℝ) (hy0 : e box.bottom ≤ y) (hy1 : y ≤ e box.top) :
    linSpline (dualX (NF.realX e)) box eps (up.map ι) true (y, 1)
      = .ok ((GI e eps up (ny e box y) * (e box.right - e box.left) + e box.left,
               invSlope e box up (idxI e eps up (ny e box y))),
             (LdI e eps up (ny e box y) - e (boxLog box), 0)) := by
  obtain ⟨hs0, hs1⟩ := ny_mem hv y hy0 hy1
  obtain ⟨hiK, hle, hle1, _⟩ := selI hv _ hs0 hs1
  have hsr := dual_search hv (ny e box y) (1 / (e box.top - e box.bottom)) hs0 hs1
  set i := idxI e eps up (ny e box y) with hi
  obtain ⟨_, hu0, hu1⟩ := binI_mem (e := e) hv.hK i hiK _ hle hle1
  have hT : 0 < e box.top - e box.bottom := sub_pos.mpr hv.hbt
  have hp := pd_pos (e := e) up i hiK
  have hKR := K_posR (up := up) hv.hK
  have hg : ((dualX (NF.realX e)).lt (y, 1) ((dualX (NF.realX e)).ofFloat box.bottom)
      || (dualX (NF.realX e)).lt ((dualX (NF.realX e)).ofFloat box.top) (y, 1)) = false := by
    simp only [d_lt, d_ofFloat, Bool.or_eq_false_iff, decide_eq_false_iff_not, not_lt]
    exact ⟨hy0, hy1⟩
  unfold linSpline
  simp only [if_true, Bool.false_eq_true, if_false, hg, List.length_map, DualXLin.dual_pdf, DualXLin.dual_cdf, dual_ny hv, dual_bnd, dual_slp, hsr,
    map_drop']
  rw [XHom.getI_ok (φ := ι) _ _ _ (SplineTotal.getI_ok (slp e up) i (by rw [slp_length]; exact hiK)),
    XHom.getI_ok (φ := ι) _ _ _
      (SplineTotal.getI_ok ((cdf e up).drop 1) i (by rw [List.length_drop, (cdf_facts hv.hK).1]; omega)),
    XHom.getI_ok (φ := ι) _ _ _
      (SplineTotal.getI_ok ((bnd e up.length).drop 1) i (by rw [List.length_drop, bnd_length]; omega))]
  simp only [QuadWhole.getElem_eq_getD, Bind.bind, Except.bind, Pure.pure, Except.pure, slp_getD i hiK,
    CubicWhole.getD_drop1, bnd_getD (K_pos hv.hK) (i+1) hiK]
  have hin : (dualX (NF.realX e)).add (ι (kn up.length (i+1)))
      ((dualX (NF.realX e)).div
        ((dualX (NF.realX e)).sub (ny e box y, 1 / (e box.top - e box.bottom)) (ι ((cdf e up).getD (i+1) 0)))
        (ι (pd e up i * (up.length : ℝ))))
      = (binI e up i (ny e box y), 1 / ((e box.top - e box.bottom) * (pd e up i * (up.length : ℝ)))) := by
    simp only [d_add, d_div, d_sub, ι]
    refine Prod.ext rfl ?_
    show 0 + ((1 / (e box.top - e box.bottom) - 0) * (pd e up i * (up.length : ℝ))
        - (ny e box y - (cdf e up).getD (i+1) 0) * 0) / (pd e up i * (up.length : ℝ) * (pd e up i * (up.length : ℝ)))
      = 1 / ((e box.top - e box.bottom) * (pd e up i * (up.length : ℝ)))
    field_simp
    ring
  rw [hin, DualXLin.dual_clamp01_id _ hu0 hu1]
  simp only [d_add, d_mul, d_sub, d_neg, d_log, d_ofFloat, ι, hv.hdlr]
  congr 1
  refine Prod.ext (Prod.ext rfl ?_) (Prod.ext rfl ?_)
  · show 1 / ((e box.top - e box.bottom) * (pd e up i * (up.length : ℝ))) * (e box.right - e box.left)
        + binI e up i (ny e box y) * 0 + 0 = invSlope e box up i
    unfold invSlope
    ring
  · show (-(0 / (pd e up i * (up.length : ℝ))) - 0 : ℝ) = 0
    simp

/-- **value projection + explicit tangents, whole closed domain** (cdf knots and both ends included): the dual run returns the
    outputs of the real executed inverse program, the tangent of the value is the inverse slope of the searched cdf-bin, the
    tangent of the log-det is `0` -/
theorem linSpline_dual_inv_values (hv : LinValid e box eps up) (y : ℝ) (hy0 : e box.bottom ≤ y) (hy1 : y ≤ e box.top) :
    linSpline (dualX (NF.realX e)) box eps (up.map ι) true (y, 1)
      = .ok ((inv e box eps up y, invSlope e box up (idxI e eps up (ny e box y))), (invLd e box eps up y, 0)) := by
  rw [linSpline_dual_inv_exec hv y hy0 hy1, inv_eq hv y hy0 hy1, invLd_eq hv y hy0 hy1]

/-- the search returns `k` on `[cdf_k, cdf_{k+1})` -/
theorem idxI_in_bin (hv : LinValid e box eps up) (k : ℕ) (hk : k < up.length) (s : ℝ)
    (h0 : cd e up k ≤ s) (h1 : s < cd e up (k+1)) : idxI e eps up s = k :=
  RQInverseWhole.idx_unique (cd e up) up.length (idxI e eps up) (cd_strict hv.hK) (search_specI hv).1 k hk s h0 (Or.inl h1)

/-- where a half-open cdf-bin sits: inside the box -/
theorem bin_in_box (hv : LinValid e box eps up) (k : ℕ) (hk : k < up.length) (y : ℝ)
    (h0 : cd e up k ≤ ny e box y) (h1 : ny e box y < cd e up (k+1)) :
    e box.bottom ≤ y ∧ y < e box.top := by
  have hmono := cd_mono (e := e) hv.hK
  have hT : 0 < e box.top - e box.bottom := sub_pos.mpr hv.hbt
  have hn0 : 0 ≤ ny e box y := by
    have := hmono 0 k (Nat.zero_le _) hk.le; rw [cd_zero hv.hK] at this; linarith
  have hn1 : ny e box y < 1 := by
    have := hmono (k+1) up.length hk le_rfl; rw [cd_last hv.hK] at this; linarith
  constructor
  · unfold ny at hn0; rw [le_div_iff₀ hT] at hn0; linarith
  · unfold ny at hn1; rw [div_lt_one hT] at hn1; linarith

/-- where an open cdf-bin sits: strictly inside the box, and the executed search returns `k` -/
theorem open_bin_facts (hv : LinValid e box eps up) (k : ℕ) (hk : k < up.length) (y : ℝ)
    (h0 : cd e up k < ny e box y) (h1 : ny e box y < cd e up (k+1)) :
    e box.bottom < y ∧ y < e box.top ∧ idxI e eps up (ny e box y) = k := by
  have hmono := cd_mono (e := e) hv.hK
  have hT : 0 < e box.top - e box.bottom := sub_pos.mpr hv.hbt
  have hn0 : 0 < ny e box y := by
    have := hmono 0 k (Nat.zero_le _) hk.le; rw [cd_zero hv.hK] at this; linarith
  refine ⟨?_, (bin_in_box hv k hk y h0.le h1).2, idxI_in_bin hv k hk _ h0.le h1⟩
  unfold ny at hn0; rw [lt_div_iff₀ hT] at hn0; linarith

/-- the set of inputs strictly inside cdf-bin `k` is a neighbourhood of each of its points -/
theorem open_bin_nhds (hv : LinValid e box eps up) (k : ℕ) (y : ℝ)
    (h0 : cd e up k < ny e box y) (h1 : ny e box y < cd e up (k+1)) :
    {z | cd e up k < ny e box z ∧ ny e box z < cd e up (k+1)} ∈ 𝓝 y := by
  have hy0 := (ny_bin_iff hv k y).1.mp h0
  have hy1 := (ny_bin_iff hv (k+1) y).2.mp h1
  refine Filter.mem_of_superset (Ioo_mem_nhds hy0 hy1) (fun z hz => ?_)
  exact ⟨(ny_bin_iff hv k z).1.mpr hz.1, (ny_bin_iff hv (k+1) z).2.mpr hz.2⟩

theorem ny_hasDerivAt (y : ℝ) : HasDerivAt (ny e box) (1 / (e box.top - e box.bottom)) y := by
  unfold ny
  simpa using ((hasDerivAt_id y).sub_const (e box.bottom)).div_const (e box.top - e box.bottom)

theorem binI_hasDerivAt (up : List ℝ) (k : ℕ) (s : ℝ) :
    HasDerivAt (binI e up k) (1 / (pd e up k * (up.length : ℝ))) s := by
  unfold binI
  simpa using (((hasDerivAt_id s).sub_const (cd e up (k+1))).div_const
    (pd e up k * (up.length : ℝ))).const_add (kn up.length (k+1))

/-- strictly inside a cdf-bin the executed inverse program has derivative the inverse slope of that bin — no hypothesis on
    the Python-side `np.log` constant -/
theorem inv_hasDerivAt_slope (hv : LinValid e box eps up) (k : ℕ) (hk : k < up.length) (y : ℝ)
    (h0 : cd e up k < ny e box y) (h1 : ny e box y < cd e up (k+1)) :
    HasDerivAt (inv e box eps up) (invSlope e box up k) y := by
  have hT : 0 < e box.top - e box.bottom := sub_pos.mpr hv.hbt
  have hc := ((HasDerivAt.comp y (binI_hasDerivAt (e := e) up k (ny e box y)) (ny_hasDerivAt y)).mul_const
    (e box.right - e box.left)).add_const (e box.left)
  have hev : inv e box eps up =ᶠ[𝓝 y]
      (fun y => (binI e up k ∘ ny e box) y * (e box.right - e box.left) + e box.left) := by
    refine Filter.eventuallyEq_of_mem (open_bin_nhds hv k y h0 h1) (fun z hz => ?_)
    obtain ⟨hz0, hz1, hzk⟩ := open_bin_facts hv k hk z hz.1 hz.2
    show inv e box eps up z = _
    rw [inv_eq hv z hz0.le hz1.le]
    unfold GI
    rw [hzk]
    rfl
  refine (hc.congr_of_eventuallyEq hev).congr_deriv ?_
  have hp := pd_pos (e := e) up k hk
  have hKR := K_posR (up := up) hv.hK
  unfold invSlope
  field_simp

/-- strictly inside a cdf-bin the log-abs-det of the executed inverse program is locally constant -/
theorem invLd_hasDerivAt_zero (hv : LinValid e box eps up) (k : ℕ) (hk : k < up.length) (y : ℝ)
    (h0 : cd e up k < ny e box y) (h1 : ny e box y < cd e up (k+1)) :
    HasDerivAt (invLd e box eps up) 0 y := by
  have hev : invLd e box eps up =ᶠ[𝓝 y] fun _ => binLdI e up k - e (boxLog box) := by
    refine Filter.eventuallyEq_of_mem (open_bin_nhds hv k y h0 h1) (fun z hz => ?_)
    obtain ⟨hz0, hz1, hzk⟩ := open_bin_facts hv k hk z hz.1 hz.2
    show invLd e box eps up z = _
    rw [invLd_eq hv z hz0.le hz1.le]
    unfold LdI
    rw [hzk]
  exact (hasDerivAt_const y _).congr_of_eventuallyEq hev

/-- **the executed linear spline inverse on dual numbers, explicit tangents** (no hypothesis on the `np.log` constant): for
    `y'` strictly inside cdf-bin `k` the dual run with zero-tangent parameters returns `((inv y, invSlope_k), (invLd y, 0))`,
    and these tangents ARE the derivatives of the two outputs of the real executed program -/
theorem linSpline_dual_inv_slope (hv : LinValid e box eps up) (k : ℕ) (hk : k < up.length) (y : ℝ)
    (h0 : cd e up k < ny e box y) (h1 : ny e box y < cd e up (k+1)) :
    linSpline (dualX (NF.realX e)) box eps (up.map ι) true (y, 1)
        = .ok ((inv e box eps up y, invSlope e box up k), (invLd e box eps up y, 0)) ∧
      HasDerivAt (inv e box eps up) (invSlope e box up k) y ∧ HasDerivAt (invLd e box eps up) 0 y := by
  obtain ⟨hy0, hy1, hik⟩ := open_bin_facts hv k hk y h0 h1
  refine ⟨?_, inv_hasDerivAt_slope hv k hk y h0 h1, invLd_hasDerivAt_zero hv k hk y h0 h1⟩
  rw [linSpline_dual_inv_values hv y hy0.le hy1.le, hik]

/-- with `boxLog` read as the real logarithm, `exp` of the returned log-abs-det IS the inverse slope of the bin -/
theorem exp_invLd_bin (hv : LinValid e box eps up)
    (hbl : e (boxLog box) = Real.log ((e box.top - e box.bottom) / (e box.right - e box.left)))
    (k : ℕ) (hk : k < up.length) (y : ℝ) (h0 : cd e up k < ny e box y) (h1 : ny e box y < cd e up (k+1)) :
    Real.exp (invLd e box eps up y) = invSlope e box up k :=
  (inv_hasDerivAt hv hbl k hk y h0 h1).unique (inv_hasDerivAt_slope hv k hk y h0 h1)

/-- **the executed linear spline inverse on dual numbers, tangent of the log-det spelled out** (`y` strictly between the
    consecutive output knots `y_k = bottom + cdf_k (top − bottom)`): the dual run with zero-tangent parameters returns
    `((inv y, exp (invLd y)), (invLd y, 0))` — the real outputs; the tangent of the value is `exp` of the returned
    log-abs-det and IS `d inv / dy`; the tangent of the log-det is `0` and IS `d invLd / dy` (locally constant).
    `hbl`: the Python-side constant `boxLog` is read as the real logarithm (the hypothesis of `LinWhole.inv_hasDerivAt_y`;
    see `linSpline_dual_inv_slope` for the form that does not need it) -/
theorem linSpline_dual_inv_zero (hv : LinValid e box eps up)
    (hbl : e (boxLog box) = Real.log ((e box.top - e box.bottom) / (e box.right - e box.left)))
    (k : ℕ) (hk : k < up.length) (y : ℝ) (h0 : yk e box up k < y) (h1 : y < yk e box up (k+1)) :
    linSpline (dualX (NF.realX e)) box eps (up.map ι) true (y, 1)
        = .ok ((inv e box eps up y, Real.exp (invLd e box eps up y)), (invLd e box eps up y, 0)) ∧
      HasDerivAt (inv e box eps up) (Real.exp (invLd e box eps up y)) y ∧ HasDerivAt (invLd e box eps up) 0 y := by
  have h0' := (ny_bin_iff hv k y).1.mpr h0
  have h1' := (ny_bin_iff hv (k+1) y).2.mpr h1
  rw [exp_invLd_bin hv hbl k hk y h0' h1']
  exact linSpline_dual_inv_slope hv k hk y h0' h1'

/-- **the executed linear spline inverse on dual numbers** (headline, the form of `DualX.rqSpline_dual`) -/
theorem linSpline_dual_inv (hv : LinValid e box eps up)
    (hbl : e (boxLog box) = Real.log ((e box.top - e box.bottom) / (e box.right - e box.left)))
    (k : ℕ) (hk : k < up.length) (y : ℝ) (h0 : yk e box up k < y) (h1 : y < yk e box up (k+1)) :
    ∃ l' : ℝ, linSpline (dualX (NF.realX e)) box eps (up.map ι) true (y, 1)
        = .ok ((inv e box eps up y, Real.exp (invLd e box eps up y)), (invLd e box eps up y, l')) ∧
      HasDerivAt (inv e box eps up) (Real.exp (invLd e box eps up y)) y ∧ HasDerivAt (invLd e box eps up) l' y ∧
      l' = 0 := by
  obtain ⟨hr, hdv, hdl⟩ := linSpline_dual_inv_zero hv hbl k hk y h0 h1
  exact ⟨0, hr, hdv, hdl, rfl⟩

/-- the `DualRes` form of `Lemmas/DualXNonlin.lean`: the dual run is sound for the real program
    `s ↦ linSpline (realX e) box eps up true s` at every `y` strictly inside a cdf-bin (no hypothesis on `boxLog`) -/
theorem linSpline_dualRes_inv (hv : LinValid e box eps up) (k : ℕ) (hk : k < up.length) (y : ℝ)
    (h0 : yk e box up k < y) (h1 : y < yk e box up (k+1)) :
    DualRes (fun s => linSpline (NF.realX e) box eps up true s) y
      (linSpline (dualX (NF.realX e)) box eps (up.map ι) true (y, 1)) := by
  have h0' := (ny_bin_iff hv k y).1.mpr h0
  have h1' := (ny_bin_iff hv (k+1) y).2.mpr h1
  obtain ⟨hr, hdv, hdl⟩ := linSpline_dual_inv_slope hv k hk y h0' h1'
  obtain ⟨hy0, hy1, _⟩ := open_bin_facts hv k hk y h0' h1'
  exact ⟨_, _, hr, inv_exec_ok hv y hy0.le hy1.le, hdv, hdl⟩

/-- **what the dual run returns AT a cdf knot (and anywhere in `[y_k, y_{k+1})`): the right-hand derivative.**  The searched
    bin at `y' = cdf_k` is the bin to the right, so the tangent is the inverse slope of bin `k`, the derivative of the
    executed inverse from the right; from the left it is that of bin `k−1` (a kink: a convention, as for `torch.autograd`) -/
theorem linSpline_dual_inv_right (hv : LinValid e box eps up) (k : ℕ) (hk : k < up.length) (y : ℝ)
    (h0 : cd e up k ≤ ny e box y) (h1 : ny e box y < cd e up (k+1)) :
    linSpline (dualX (NF.realX e)) box eps (up.map ι) true (y, 1)
        = .ok ((inv e box eps up y, invSlope e box up k), (invLd e box eps up y, 0)) ∧
      HasDerivWithinAt (inv e box eps up) (invSlope e box up k) (Set.Ici y) y := by
  obtain ⟨hy0, hy1⟩ := bin_in_box hv k hk y h0 h1
  have hT : 0 < e box.top - e box.bottom := sub_pos.mpr hv.hbt
  have hyk : y < yk e box up (k+1) := (ny_bin_iff hv (k+1) y).2.mp h1
  have hykT : yk e box up (k+1) ≤ e box.top := by
    have := (cd_unit (e := e) hv.hK (k+1) hk).2
    unfold yk; nlinarith
  refine ⟨?_, ?_⟩
  · rw [linSpline_dual_inv_values hv y hy0 hy1.le, idxI_in_bin hv k hk _ h0 h1]
  · have hc := ((HasDerivAt.comp y (binI_hasDerivAt (e := e) up k (ny e box y)) (ny_hasDerivAt y)).mul_const
      (e box.right - e box.left)).add_const (e box.left)
    have heq : ∀ z ∈ Set.Ico y (yk e box up (k+1)),
        inv e box eps up z = (binI e up k ∘ ny e box) z * (e box.right - e box.left) + e box.left := by
      intro z hz
      have hzn : ny e box y ≤ ny e box z := by
        unfold ny; exact div_le_div_of_nonneg_right (by linarith [hz.1]) hT.le
      have hzn1 : ny e box z < cd e up (k+1) := (ny_bin_iff hv (k+1) z).2.mpr hz.2
      rw [inv_eq hv z (hy0.trans hz.1) (hz.2.le.trans hykT)]
      unfold GI
      rw [idxI_in_bin hv k hk _ (h0.trans hzn) hzn1]
      rfl
    have hev : inv e box eps up =ᶠ[nhdsWithin y (Set.Ici y)]
        (fun z => (binI e up k ∘ ny e box) z * (e box.right - e box.left) + e box.left) :=
      Filter.eventuallyEq_of_mem (Ico_mem_nhdsGE hyk) heq
    refine (hc.hasDerivWithinAt.congr_of_eventuallyEq hev (heq _ ⟨le_rfl, hyk⟩)).congr_deriv ?_
    have hp := pd_pos (e := e) up k hk
    have hKR := K_posR (up := up) hv.hK
    unfold invSlope
    field_simp

/-! ### non-vacuity -/

private theorem bz : ((0.0:Float) == 0.0) = true := by decide +kernel
private theorem bo : ((1.0:Float) == 0.0) = false := by decide +kernel

/-- in the concrete accepted configuration every cdf-bin is non-empty: the hypotheses of the next theorem are satisfiable
    in each of the three bins -/
theorem example_bins_nonempty (k : ℕ) (hk : k < 3) :
    ∃ y : ℝ, yk RQWhole.eNV ⟨0.0, 1.0, 0.0, 1.0⟩ [0, 1, -1] k < y ∧ y < yk RQWhole.eNV ⟨0.0, 1.0, 0.0, 1.0⟩ [0, 1, -1] (k+1) :=
  exists_between ((knots_facts valid_example).2.2.2.2.2.1 k hk)

/-- non-vacuity on the concrete accepted configuration `LinWhole.valid_example` (three bins `[0, 1, −1]` on the unit box):
    in EVERY cdf-bin `k < 3` the dual run of the inverse returns the real outputs with the inverse slope of bin `k` and
    tangent `0` for the log-det, and these are the derivatives of the real executed program -/
theorem linSpline_dual_inv_example (k : ℕ) (hk : k < 3) (y : ℝ)
    (h0 : yk RQWhole.eNV ⟨0.0, 1.0, 0.0, 1.0⟩ [0, 1, -1] k < y)
    (h1 : y < yk RQWhole.eNV ⟨0.0, 1.0, 0.0, 1.0⟩ [0, 1, -1] (k+1)) :
    linSpline (dualX (NF.realX RQWhole.eNV)) ⟨0.0, 1.0, 0.0, 1.0⟩ 1e-6 [ι 0, ι 1, ι (-1)] true (y, 1)
        = .ok ((inv RQWhole.eNV ⟨0.0, 1.0, 0.0, 1.0⟩ 1e-6 [0, 1, -1] y, invSlope RQWhole.eNV ⟨0.0, 1.0, 0.0, 1.0⟩ [0, 1, -1] k),
               (invLd RQWhole.eNV ⟨0.0, 1.0, 0.0, 1.0⟩ 1e-6 [0, 1, -1] y, 0)) ∧
      HasDerivAt (inv RQWhole.eNV ⟨0.0, 1.0, 0.0, 1.0⟩ 1e-6 [0, 1, -1])
        (invSlope RQWhole.eNV ⟨0.0, 1.0, 0.0, 1.0⟩ [0, 1, -1] k) y ∧
      HasDerivAt (invLd RQWhole.eNV ⟨0.0, 1.0, 0.0, 1.0⟩ 1e-6 [0, 1, -1]) 0 y :=
  linSpline_dual_inv_slope valid_example k hk y ((ny_bin_iff valid_example k y).1.mpr h0)
    ((ny_bin_iff valid_example (k+1) y).2.mpr h1)

/-- non-vacuity of the headline `linSpline_dual_inv` (three bins, unit box, every bin) as soon as the IEEE fact
    `log((1.0−0.0)/(1.0−0.0)) == 0.0` is granted (`Float.log` is opaque to the kernel, see `LinWhole.logs_example`) -/
theorem linSpline_dual_inv_example_log (h2 : (boxLog ⟨0.0, 1.0, 0.0, 1.0⟩ == 0.0) = true) (k : ℕ) (hk : k < 3) (y : ℝ)
    (h0 : yk RQWhole.eNV ⟨0.0, 1.0, 0.0, 1.0⟩ [0, 1, -1] k < y)
    (h1 : y < yk RQWhole.eNV ⟨0.0, 1.0, 0.0, 1.0⟩ [0, 1, -1] (k+1)) :
    linSpline (dualX (NF.realX RQWhole.eNV)) ⟨0.0, 1.0, 0.0, 1.0⟩ 1e-6 [ι 0, ι 1, ι (-1)] true (y, 1)
        = .ok ((inv RQWhole.eNV ⟨0.0, 1.0, 0.0, 1.0⟩ 1e-6 [0, 1, -1] y,
                Real.exp (invLd RQWhole.eNV ⟨0.0, 1.0, 0.0, 1.0⟩ 1e-6 [0, 1, -1] y)),
               (invLd RQWhole.eNV ⟨0.0, 1.0, 0.0, 1.0⟩ 1e-6 [0, 1, -1] y, 0)) ∧
      HasDerivAt (inv RQWhole.eNV ⟨0.0, 1.0, 0.0, 1.0⟩ 1e-6 [0, 1, -1])
        (Real.exp (invLd RQWhole.eNV ⟨0.0, 1.0, 0.0, 1.0⟩ 1e-6 [0, 1, -1] y)) y ∧
      HasDerivAt (invLd RQWhole.eNV ⟨0.0, 1.0, 0.0, 1.0⟩ 1e-6 [0, 1, -1]) 0 y := by
  have hbl : RQWhole.eNV (boxLog ⟨0.0, 1.0, 0.0, 1.0⟩)
      = Real.log ((RQWhole.eNV 1.0 - RQWhole.eNV 0.0) / (RQWhole.eNV 1.0 - RQWhole.eNV 0.0)) := by
    simp [RQWhole.eNV, h2, bz, bo]
  exact linSpline_dual_inv_zero valid_example hbl k hk y h0 h1

end
end DualXLinInv
