import NflowsModel.Real.LinearBridge
/-!
# Lemmas/LinearFresh — freshly constructed linear layers are usable; the log-abs-det the passes return

Answers findings 2 and 4 of the external audit of C11.

* §1 `Usable`: the bundle "the five accessors describe one invertible affine map" and its instances for arbitrary
  LU / QR / SVD parameter records (a re-packaging of `LinearBridge.*_executed`, plus whole batches).
* §2 the constructors (`lu.py:13-42`, `qr.py:13-35`, `svd.py:14-55`, `linear.py:34-36`, `orthogonal.py:26-63`) as
  functions producing the parameter records, with the error the code raises for rejected integer arguments
  (`TypeError` for non-positive sizes, `AssertionError` for an odd Householder count in `SVDLinear`).
* §3 **every constructor-accepted size / initialisation mode yields a usable layer**; `identity_init=True` with
  `0 ≤ eps < 1` yields `W = 1`, `logabsdet() = 0`; the requirement `eps < 1` is forced.
* §4 **the pair `(outputs, logabsdet)` the passes return**: forward entries are `log|det W|`, inverse entries are
  `-log|det W| = log|det W⁻¹|`, Householder sequences return `0 = log|det Q|`, on whole batches.
-/
open Matrix NF.LF DualSound LinearBridge

namespace LinearFresh
noncomputable section

/-! ## §1 usable layers -/

/-- "usable": `weight()` is an invertible matrix `W`, `weight_inverse()` its two-sided inverse, `logabsdet()` is
    `log|det W|`, the forward pass is `x ↦ W x + b` on every row of every batch and the inverse pass undoes it. -/
def Usable (n : ℕ) (weight winv : List (List ℝ)) (ld : ℝ) (fwd inv : List (List ℝ) → List (List ℝ))
    (b : Fin n → ℝ) : Prop :=
  ∃ W Winv : Matrix (Fin n) (Fin n) ℝ,
    weight = ofMat W ∧ winv = ofMat Winv ∧ IsUnit W.det ∧ Winv * W = 1 ∧ W * Winv = 1 ∧
    ld = Real.log |W.det| ∧
    (∀ xs : List (Fin n → ℝ), fwd (xs.map List.ofFn) = xs.map (fun x => List.ofFn (W *ᵥ x + b))) ∧
    (∀ xs : List (Fin n → ℝ), inv (fwd (xs.map List.ofFn)) = xs.map List.ofFn)

theorem flatMap_pure {β γ : Type} (f : β → γ) (X : List β) : X.flatMap (fun x => [f x]) = X.map f := by
  induction X with
  | nil => rfl
  | cons a t ih => simp [List.flatMap_cons, ih]

/-- a row-wise pass is determined by what it does on one-row batches -/
theorem batch_of_single {β γ : Type} (F : List β → List γ) (hF : ∀ X, F X = X.flatMap (fun x => F [x]))
    (g : β → γ) (h1 : ∀ x, F [x] = [g x]) (X : List β) : F X = X.map g := by
  rw [hF X]
  simp [h1, flatMap_pure]

section rowwise
variable {α : Type} (o : Ops α)

theorem luForward_rowwise (p : LUParams α) (X : List (List α)) :
    luForward o p X = X.flatMap (fun x => luForward o p [x]) := by
  simp [luForward, linear, linear0, flatMap_pure, Function.comp_def]
theorem luInverse_rowwise (p : LUParams α) (X : List (List α)) :
    luInverse o p X = X.flatMap (fun x => luInverse o p [x]) := by
  simp [luInverse, flatMap_pure]
theorem qrForward_rowwise (p : QRParams α) (X : List (List α)) :
    qrForward o p X = X.flatMap (fun x => qrForward o p [x]) := by
  simp [qrForward, hhForward, linear0, flatMap_pure, Function.comp_def]
theorem qrInverse_rowwise (p : QRParams α) (X : List (List α)) :
    qrInverse o p X = X.flatMap (fun x => qrInverse o p [x]) := by
  simp [qrInverse, hhInverse, flatMap_pure, Function.comp_def]
theorem svdForward_rowwise (p : SVDParams α) (X : List (List α)) :
    svdForward o p X = X.flatMap (fun x => svdForward o p [x]) := by
  simp [svdForward, hhForward, flatMap_pure, Function.comp_def]
theorem svdInverse_rowwise (p : SVDParams α) (X : List (List α)) :
    svdInverse o p X = X.flatMap (fun x => svdInverse o p [x]) := by
  simp [svdInverse, hhInverse, flatMap_pure, Function.comp_def]
end rowwise

/-- from one-row statements (the form of `LinearBridge.*_executed`) to `Usable` -/
theorem usable_of_single {n : ℕ} {weight winv : List (List ℝ)} {ld : ℝ} {fwd inv : List (List ℝ) → List (List ℝ)}
    {b : Fin n → ℝ} (W Winv : Matrix (Fin n) (Fin n) ℝ) (hw : weight = ofMat W) (hwi : winv = ofMat Winv)
    (h1 : Winv * W = 1) (h2 : W * Winv = 1) (hld : ld = Real.log |W.det|)
    (hF : ∀ X, fwd X = X.flatMap (fun x => fwd [x])) (hI : ∀ X, inv X = X.flatMap (fun x => inv [x]))
    (hf : ∀ x : Fin n → ℝ, fwd [List.ofFn x] = [List.ofFn (W *ᵥ x + b)])
    (hi : ∀ x : Fin n → ℝ, inv (fwd [List.ofFn x]) = [List.ofFn x]) :
    Usable n weight winv ld fwd inv b := by
  have hfb : ∀ xs : List (Fin n → ℝ), fwd (xs.map List.ofFn) = xs.map (fun x => List.ofFn (W *ᵥ x + b)) := by
    intro xs
    rw [hF, List.flatMap_map]
    simp only [hf, flatMap_pure]
  refine ⟨W, Winv, hw, hwi, Matrix.isUnit_det_of_left_inverse h1, h1, h2, hld, hfb, ?_⟩
  intro xs
  rw [hfb, hI, List.flatMap_map]
  have : ∀ x : Fin n → ℝ, inv [List.ofFn (W *ᵥ x + b)] = [List.ofFn x] := fun x => by rw [← hf, hi]
  simp only [this, flatMap_pure]

/-- **LULinear, any parameters of the constructor's shapes** (`udiag`, bias of length `n`; `eps ≥ 0`) -/
theorem lu_usable (p : LUParams ℝ) (hlen : p.udiag.length = p.n) (heps : 0 ≤ p.eps) (hb : p.bias.length = p.n) :
    Usable p.n (luWeight realOps p) (luWeightInverse realOps p) (luLogabsdet realOps p) (luForward realOps p)
      (luInverse realOps p) (vecFn p.n p.bias) := by
  obtain ⟨Winv, hwi, h1, h2⟩ := luWeightInverse_executed p hlen heps
  exact usable_of_single (luW p) Winv (luWeight_executed p) hwi h1 h2 (luLogabsdet_executed p hlen heps)
    (luForward_rowwise _ p) (luInverse_rowwise _ p) (luForward_executed p hb) (luInverse_executed p hlen heps hb)

/-- **QRLinear, any parameters of the constructor's shapes and non-zero q-vectors** -/
theorem qr_usable (p : QRParams ℝ) (vs : List (Fin p.n → ℝ)) (hq : p.qs = vs.map List.ofFn) (hv : ∀ v ∈ vs, v ⬝ᵥ v ≠ 0)
    (hl : p.logDiag.length = p.n) (hb : p.bias.length = p.n) :
    Usable p.n (qrWeight realOps p) (qrWeightInverse realOps p) (qrLogabsdet realOps p) (qrForward realOps p)
      (qrInverse realOps p) (vecFn p.n p.bias) := by
  obtain ⟨Winv, hwi, h1, h2⟩ := qrWeightInverse_executed p vs hq hv hl
  exact usable_of_single (qrW p vs) Winv (qrWeight_executed p vs hq hl) hwi h1 h2 (qrLogabsdet_executed p vs hv hl)
    (qrForward_rowwise _ p) (qrInverse_rowwise _ p) (qrForward_executed p vs hq hl hb)
    (qrInverse_executed p vs hq hv hl hb)

/-- **SVDLinear, any parameters of the constructor's shapes and non-zero q-vectors** -/
theorem svd_usable (p : SVDParams ℝ) (vs1 vs2 : List (Fin p.n → ℝ)) (h1 : p.qs1 = vs1.map List.ofFn)
    (h2 : p.qs2 = vs2.map List.ofFn) (hv1 : ∀ v ∈ vs1, v ⬝ᵥ v ≠ 0) (hv2 : ∀ v ∈ vs2, v ⬝ᵥ v ≠ 0)
    (hl : p.udiag.length = p.n) (heps : 0 ≤ p.eps) (hb : p.bias.length = p.n) :
    Usable p.n (svdWeight realOps p) (svdWeightInverse realOps p) (svdLogabsdet realOps p) (svdForward realOps p)
      (svdInverse realOps p) (vecFn p.n p.bias) := by
  obtain ⟨Winv, hwi, g1, g2⟩ := svdWeightInverse_executed p vs1 vs2 h1 h2 hv1 hv2 hl heps
  exact usable_of_single (svdW p vs1 vs2) Winv (svdWeight_executed p vs1 vs2 h1 h2 hl) hwi g1 g2
    (svdLogabsdet_executed p vs1 vs2 hv1 hv2 hl heps) (svdForward_rowwise _ p) (svdInverse_rowwise _ p)
    (svdForward_executed p vs1 vs2 h1 h2 hl hb) (svdInverse_executed p vs1 vs2 h1 h2 hv1 hv2 hl heps hb)

/-! ## §2 the constructors -/
section ctor
variable {α : Type} (o : Ops α)

/-- `n_triangular_entries = ((features - 1) * features) // 2` (lu.py:21, qr.py:20) -/
def nTri (n : ℕ) : ℕ := ((n - 1) * n) / 2

/-- the `identity_init` constant `np.log(np.exp(1 - eps) - 1)` (lu.py:36, svd.py:52) -/
def idConst (eps : α) : α := o.log (o.sub (o.exp (o.sub (one o) eps)) (one o))

/-- `torch.zeros(k)` -/
def zeros (k : ℕ) : List α := List.replicate k (zero o)

/-- parameters after `LULinear.__init__` with `identity_init=False`: bias zero, the three `init.uniform_` draws
    `lo`, `up`, `ud` (any values; the constructor makes them of lengths `nTri n`, `nTri n`, `n`) -/
def luInit (n : ℕ) (eps : α) (lo up ud : List α) : LUParams α :=
  { n := n, lower := lo, upper := up, udiag := ud, bias := zeros o n, eps := eps }

/-- parameters after `LULinear.__init__` with `identity_init=True` (lu.py:33-37) -/
def luIdInit (n : ℕ) (eps : α) : LUParams α :=
  luInit o n eps (zeros o (nTri n)) (zeros o (nTri n)) (List.replicate n (idConst o eps))

/-- `LULinear(features, identity_init, eps)` for an integer `features`; `draws = none` is `identity_init=True`
    (`Linear.__init__` raises `TypeError` unless `features` is a positive int, linear.py:34-36) -/
def luConstruct (features : Int) (eps : α) (draws : Option (List α × List α × List α)) : Except Err (LUParams α) :=
  if features ≤ 0 then .error .typeError
  else .ok (match draws with
    | none => luIdInit o features.toNat eps
    | some d => luInit o features.toNat eps d.1 d.2.1 d.2.2)

/-- parameters after `QRLinear.__init__` (qr.py:13-35): uniform draws `up`, `ld`, zero bias, the Householder
    sequence's constructor q-vectors -/
def qrInit (n num : ℕ) (up ld : List α) : QRParams α :=
  { n := n, upper := up, logDiag := ld, qs := hhInitQ o n num, bias := zeros o n }

/-- `QRLinear(features, num_householder)` for integer arguments -/
def qrConstruct (features num : Int) (up ld : List α) : Except Err (QRParams α) :=
  if features ≤ 0 then .error .typeError
  else match (hhConstruct o features num : Except Err (List (List α))) with
    | .error e => .error e
    | .ok _ => .ok (qrInit o features.toNat num.toNat up ld)

/-- parameters after `SVDLinear.__init__` with `identity_init=False` (svd.py:14-55): both Householder sequences get
    the same constructor q-vectors -/
def svdInit (n num : ℕ) (eps : α) (ud : List α) : SVDParams α :=
  { n := n, udiag := ud, qs1 := hhInitQ o n num, qs2 := hhInitQ o n num, bias := zeros o n, eps := eps }

/-- `identity_init=True` (svd.py:50-53) -/
def svdIdInit (n num : ℕ) (eps : α) : SVDParams α := svdInit o n num eps (List.replicate n (idConst o eps))

/-- `SVDLinear(features, num_householder, identity_init, eps)` for integer arguments, in the code's order:
    `Linear.__init__` (`TypeError`), `assert num_householder % 2 == 0` (svd.py:19, `AssertionError`), then the two
    `HouseholderSequence` constructors (`TypeError` for `num ≤ 0`) -/
def svdConstruct (features num : Int) (eps : α) (draw : Option (List α)) : Except Err (SVDParams α) :=
  if features ≤ 0 then .error .typeError
  else if num % 2 != 0 then .error .assertion
  else match (hhConstruct o features num : Except Err (List (List α))) with
    | .error e => .error e
    | .ok _ => .ok (match draw with
      | none => svdIdInit o features.toNat num.toNat eps
      | some ud => svdInit o features.toNat num.toNat eps ud)

/-- **which integer arguments the three constructors accept** -/
theorem construct_accepts (features num : Int) (eps : α) (dl : Option (List α × List α × List α)) (up ld : List α)
    (ds : Option (List α)) :
    ((∃ p, luConstruct o features eps dl = .ok p) ↔ 1 ≤ features) ∧
    ((∃ p, qrConstruct o features num up ld = .ok p) ↔ 1 ≤ features ∧ 1 ≤ num) ∧
    ((∃ p, svdConstruct o features num eps ds = .ok p) ↔ 1 ≤ features ∧ 1 ≤ num ∧ num % 2 = 0) := by
  refine ⟨?_, ?_, ?_⟩
  · unfold luConstruct
    by_cases h : features ≤ 0
    · simp [h]; omega
    · simp [h]; omega
  · unfold qrConstruct hhConstruct
    by_cases h : features ≤ 0
    · simp [h]; omega
    · by_cases h2 : num ≤ 0
      · simp [h, h2]; omega
      · simp [h, h2]; omega
  · unfold svdConstruct hhConstruct
    by_cases h : features ≤ 0
    · simp [h]; omega
    · by_cases h3 : num % 2 = 0
      · by_cases h2 : num ≤ 0
        · simp [h, h2, h3]; omega
        · simp [h, h2, h3]; omega
      · simp [h, h3]

/-- an odd Householder count is refused by `SVDLinear` with `AssertionError` (and accepted by `QRLinear`) -/
theorem svd_odd_rejected (features num : Int) (hf : 1 ≤ features) (hodd : num % 2 = 1) (eps : α) (ds : Option (List α)) :
    svdConstruct o features num eps ds = .error .assertion := by
  unfold svdConstruct
  have h : ¬ features ≤ 0 := by omega
  simp [h, hodd]

end ctor

/-! ## §3 fresh layers are usable, for every accepted size and initialisation mode -/

theorem vecFn_zeros (n : ℕ) : vecFn n (zeros realOps n) = 0 := by
  funext i
  simp [vecFn, zeros, List.getD_eq_getElem?_getD]

theorem zeros_length {α : Type} (o : Ops α) (k : ℕ) : (zeros o k).length = k := by simp [zeros]

/-- the constructor's q-vectors, as real vectors, are non-zero -/
theorem initVs_ne (n num : ℕ) (hf : 0 < n) : ∀ v ∈ initVs n num hf, v ⬝ᵥ v ≠ 0 := fun v h => by
  rw [initVs_unit n num hf v h]; exact one_ne_zero

/-- what the constructors return on accepted arguments -/
theorem construct_ok {α : Type} (o : Ops α) (n num : ℕ) (hn : 1 ≤ n) (hk : 1 ≤ num) (eps : α) (lo up ud ld : List α) :
    luConstruct o (n : ℤ) eps none = .ok (luIdInit o n eps) ∧
    luConstruct o (n : ℤ) eps (some (lo, up, ud)) = .ok (luInit o n eps lo up ud) ∧
    qrConstruct o (n : ℤ) (num : ℤ) up ld = .ok (qrInit o n num up ld) ∧
    (num % 2 = 0 → svdConstruct o (n : ℤ) (num : ℤ) eps none = .ok (svdIdInit o n num eps) ∧
      svdConstruct o (n : ℤ) (num : ℤ) eps (some ud) = .ok (svdInit o n num eps ud)) := by
  have h1 : n ≠ 0 := by omega
  have h2 : num ≠ 0 := by omega
  refine ⟨by simp [luConstruct, h1], by simp [luConstruct, h1], by simp [qrConstruct, hhConstruct, h1, h2], ?_⟩
  intro hev
  have h3 : (num : ℤ) % 2 = 0 := by omega
  constructor <;> simp [svdConstruct, hhConstruct, h1, h2, h3]

/-- **a fresh `LULinear` is usable**: every `features`, `identity_init=False` with any draws (`ud` of the constructor's
    length), any `eps ≥ 0`; the bias is zero -/
theorem lu_fresh_usable (n : ℕ) (eps : ℝ) (heps : 0 ≤ eps) (lo up ud : List ℝ) (hud : ud.length = n) :
    Usable n (luWeight realOps (luInit realOps n eps lo up ud)) (luWeightInverse realOps (luInit realOps n eps lo up ud))
      (luLogabsdet realOps (luInit realOps n eps lo up ud)) (luForward realOps (luInit realOps n eps lo up ud))
      (luInverse realOps (luInit realOps n eps lo up ud)) 0 := by
  have := lu_usable (luInit realOps n eps lo up ud) hud heps (zeros_length _ n)
  simpa only [luInit, vecFn_zeros] using this

/-- … and with `identity_init=True`, any `eps ≥ 0` -/
theorem lu_fresh_id_usable (n : ℕ) (eps : ℝ) (heps : 0 ≤ eps) :
    Usable n (luWeight realOps (luIdInit realOps n eps)) (luWeightInverse realOps (luIdInit realOps n eps))
      (luLogabsdet realOps (luIdInit realOps n eps)) (luForward realOps (luIdInit realOps n eps))
      (luInverse realOps (luIdInit realOps n eps)) 0 :=
  lu_fresh_usable n eps heps _ _ _ (by simp)

/-- **a fresh `QRLinear` is usable**: every `features ≥ 1`, every Householder count (odd, even, beyond
    `2·features`), any draws with `log_upper_diag` of the constructor's length -/
theorem qr_fresh_usable (n num : ℕ) (hn : 1 ≤ n) (up ld : List ℝ) (hld : ld.length = n) :
    Usable n (qrWeight realOps (qrInit realOps n num up ld)) (qrWeightInverse realOps (qrInit realOps n num up ld))
      (qrLogabsdet realOps (qrInit realOps n num up ld)) (qrForward realOps (qrInit realOps n num up ld))
      (qrInverse realOps (qrInit realOps n num up ld)) 0 := by
  have := qr_usable (qrInit realOps n num up ld) (initVs n num hn) (hhInitQ_real n num hn) (initVs_ne n num hn) hld
    (zeros_length _ n)
  simpa only [qrInit, vecFn_zeros] using this

/-- **a fresh `SVDLinear` is usable**: every `features ≥ 1`, every Householder count (the constructor accepts the even
    ones), any draw `ud` of the constructor's length, any `eps ≥ 0` -/
theorem svd_fresh_usable (n num : ℕ) (hn : 1 ≤ n) (eps : ℝ) (heps : 0 ≤ eps) (ud : List ℝ) (hud : ud.length = n) :
    Usable n (svdWeight realOps (svdInit realOps n num eps ud)) (svdWeightInverse realOps (svdInit realOps n num eps ud))
      (svdLogabsdet realOps (svdInit realOps n num eps ud)) (svdForward realOps (svdInit realOps n num eps ud))
      (svdInverse realOps (svdInit realOps n num eps ud)) 0 := by
  have := svd_usable (svdInit realOps n num eps ud) (initVs n num hn) (initVs n num hn) (hhInitQ_real n num hn)
    (hhInitQ_real n num hn) (initVs_ne n num hn) (initVs_ne n num hn) hud heps (zeros_length _ n)
  simpa only [svdInit, vecFn_zeros] using this

theorem svd_fresh_id_usable (n num : ℕ) (hn : 1 ≤ n) (eps : ℝ) (heps : 0 ≤ eps) :
    Usable n (svdWeight realOps (svdIdInit realOps n num eps)) (svdWeightInverse realOps (svdIdInit realOps n num eps))
      (svdLogabsdet realOps (svdIdInit realOps n num eps)) (svdForward realOps (svdIdInit realOps n num eps))
      (svdInverse realOps (svdIdInit realOps n num eps)) 0 :=
  svd_fresh_usable n num hn eps heps _ (by simp)

/-! ### `identity_init=True` gives the identity matrix (for `0 ≤ eps < 1`) -/

theorem lookupIdx_zero (idx : List (ℕ × ℕ)) (vals : List ℝ) (hz : ∀ v ∈ vals, v = 0) (i j : ℕ) :
    (lookupIdx idx vals i j).getD 0 = 0 := by
  unfold lookupIdx
  cases h : (idx.zip vals).find? (fun p => p.1 == (i, j)) with
  | none => rfl
  | some q =>
    have hm : q ∈ idx.zip vals := List.mem_of_find?_eq_some h
    simpa using hz q.2 (List.of_mem_zip (a := q.1) (b := q.2) hm).2

theorem mkLower_zero {n : ℕ} : LU.mkLower (fun _ _ : Fin n => (0 : ℝ)) = 1 := by
  ext i j
  simp only [LU.mkLower, Matrix.one_apply]
  by_cases h : j < i
  · simp [h, h.ne']
  · simp [h]

theorem mkUpper_one {n : ℕ} : LU.mkUpper (fun _ _ : Fin n => (0 : ℝ)) (fun _ => 1) = 1 := by
  ext i j
  simp only [LU.mkUpper, Matrix.one_apply]
  by_cases h : i < j
  · simp [h, h.ne]
  · simp [h]

theorem loFn_zeros (n k : ℕ) : loFn n (zeros realOps k) = fun _ _ => 0 := by
  funext i j
  exact lookupIdx_zero _ _ (fun v hv => by simpa [zeros] using (List.eq_of_mem_replicate hv)) i j

theorem upFn_zeros (n k : ℕ) : upFn n (zeros realOps k) = fun _ _ => 0 := by
  funext i j
  exact lookupIdx_zero _ _ (fun v hv => by simpa [zeros] using (List.eq_of_mem_replicate hv)) i j

theorem idConst_real (eps : ℝ) : idConst realOps eps = Real.log (Real.exp (1 - eps) - 1) := by
  simp [idConst, LFIndex.realOps_log, LFIndex.realOps_sub, LFIndex.realOps_exp]

/-- the diagonal `softplus(constant) + eps` of a fresh identity-initialised layer is one -/
theorem idDiag_one (n : ℕ) (eps : ℝ) (h0 : 0 ≤ eps) (h1 : eps < 1) :
    vecFn n (posDiag realOps eps (List.replicate n (idConst realOps eps))) = fun _ => 1 := by
  funext i
  have hi : (i : ℕ) < n := i.2
  simp only [vecFn, posDiag, List.map_replicate, List.getD_eq_getElem?_getD, List.getElem?_replicate, hi, if_true,
    Option.getD_some, idConst_real]
  exact LFIndex.identity_init_diag eps h0 h1

/-- **fresh `LULinear(identity_init=True)`, `0 ≤ eps < 1`: `weight()` is the identity matrix, `logabsdet() = 0`,
    the forward pass is the identity map** -/
theorem lu_identity_init (n : ℕ) (eps : ℝ) (h0 : 0 ≤ eps) (h1 : eps < 1) :
    luW (luIdInit realOps n eps) = 1 ∧
    luWeight realOps (luIdInit realOps n eps) = eye realOps n ∧
    luLogabsdet realOps (luIdInit realOps n eps) = 0 ∧
    ∀ xs : List (Fin n → ℝ), luForward realOps (luIdInit realOps n eps) (xs.map List.ofFn) = xs.map List.ofFn := by
  have hW : luW (luIdInit realOps n eps) = 1 := by
    unfold luW luIdInit luInit
    simp only
    rw [loFn_zeros, upFn_zeros, idDiag_one n eps h0 h1, mkLower_zero, mkUpper_one, one_mul]
  obtain ⟨W, Winv, hw, -, -, -, -, hld, hf, -⟩ := lu_fresh_id_usable n eps h0
  have hWW : W = 1 := (ofMat_injective (hw.symm.trans (luWeight_executed _))).trans hW
  subst hWW
  refine ⟨hW, by rw [hw, eye_eq], by rw [hld]; simp, fun xs => ?_⟩
  rw [hf]; simp

/-- an even number of constructor q-vectors: the reflections cancel in pairs, the sequence is the identity -/
theorem seqMat_initVs_even (n k : ℕ) (hn : 0 < n) : LinearFamily.seqMat (initVs n (2 * k) hn) = 1 := by
  induction k with
  | zero => simp [initVs, LinearFamily.seqMat]
  | succ k ih =>
    have hr : List.range (2 * (k + 1)) = List.range (2 * k) ++ [2 * k, 2 * k + 1] := by
      rw [show 2 * (k + 1) = 2 * k + 1 + 1 by ring, List.range_succ, List.range_succ]; simp
    have e1 : 2 * k / 2 = k := by omega
    have e2 : (2 * k + 1) / 2 = k := by omega
    unfold initVs at ih ⊢
    rw [hr, List.map_append, LinearFamily.seqMat_append, ih, one_mul]
    simp only [List.map_cons, List.map_nil, e1, e2, LinearFamily.seqMat, List.prod_cons, List.prod_nil, mul_one]
    exact LinearFamily.hhMat_mul_self _ (by simp)

theorem Q_initVs_even (n k : ℕ) (hn : 0 < n) : LinearFamily.Q (initVs n (2 * k) hn) = 1 := by
  unfold LinearFamily.Q; rw [seqMat_initVs_even, Matrix.transpose_one]

theorem svdW_one {n : ℕ} (vs : List (Fin n → ℝ)) (d : Fin n → ℝ) (hQ : LinearFamily.Q vs = 1) (hd : d = fun _ => 1) :
    LinearFamily.Q vs * Matrix.diagonal d * LinearFamily.Q vs = 1 := by
  rw [hQ, hd]; simp

/-- **fresh `SVDLinear(identity_init=True)`, `0 ≤ eps < 1`, any accepted (even) Householder count: `weight()` is the
    identity matrix, `logabsdet() = 0`, the forward pass is the identity map** -/
theorem svd_identity_init (n k : ℕ) (hn : 1 ≤ n) (eps : ℝ) (h0 : 0 ≤ eps) (h1 : eps < 1) :
    svdWeight realOps (svdIdInit realOps n (2 * k) eps) = eye realOps n ∧
    svdLogabsdet realOps (svdIdInit realOps n (2 * k) eps) = 0 ∧
    ∀ xs : List (Fin n → ℝ), svdForward realOps (svdIdInit realOps n (2 * k) eps) (xs.map List.ofFn) = xs.map List.ofFn := by
  have hD : (svdD (svdIdInit realOps n (2 * k) eps) : Fin n → ℝ) = fun _ => 1 := by
    funext i
    have hi : (i : ℕ) < n := i.2
    simp only [svdD, svdIdInit, svdInit, svdDiag, vecFn, List.map_replicate, List.getD_eq_getElem?_getD,
      List.getElem?_replicate, hi, if_true, Option.getD_some, idConst_real]
    have := LFIndex.identity_init_diag eps h0 h1
    rw [LFIndex.realOps_add]; linarith
  have hW : svdW (svdIdInit realOps n (2 * k) eps) (initVs n (2 * k) hn) (initVs n (2 * k) hn) = 1 := by
    exact svdW_one _ _ (Q_initVs_even n k hn) hD
  obtain ⟨W, Winv, hw, -, -, -, -, hld, hf, -⟩ := svd_fresh_id_usable n (2 * k) hn eps h0
  have hWW : W = 1 :=
    (ofMat_injective (hw.symm.trans (svdWeight_executed (svdIdInit realOps n (2 * k) eps) (initVs n (2 * k) hn)
      (initVs n (2 * k) hn) (hhInitQ_real n (2 * k) hn) (hhInitQ_real n (2 * k) hn) (by simp [svdIdInit, svdInit])))).trans hW
  subst hWW
  refine ⟨by rw [hw, eye_eq], by rw [hld]; simp, fun xs => ?_⟩
  rw [hf]; simp

/-! ### the requirement `eps < 1` is forced -/

/-- no value of the unconstrained parameter gives a unit diagonal when `eps ≥ 1` (`softplus > 0`): no constructor
    checks `eps`, and `identity_init=True` with `eps ≥ 1` does NOT start at the identity in the real-number model -/
theorem identity_init_needs_eps_lt_one (eps c : ℝ) (h : 1 ≤ eps) : softplus realOps c + eps ≠ 1 := by
  have := LFIndex.softplus_real_pos c
  intro hc; linarith

/-- at `eps = 1` the constant is `log(exp 0 - 1) = log 0` (`-inf` with a NumPy warning in Python; `0` in the
    totalised real-number model, giving the diagonal `log 2 + 1`); for `eps > 1` the argument of the logarithm is
    negative (`nan` in Python) -/
theorem idConst_at_one :
    Real.exp (1 - 1) - 1 = (0 : ℝ) ∧ idConst realOps 1 = Real.log 0 ∧
    softplus realOps (idConst realOps 1) + 1 = Real.log 2 + 1 ∧
    ∀ eps : ℝ, 1 < eps → Real.exp (1 - eps) - 1 < 0 := by
  have h0 : Real.exp (1 - 1) - 1 = (0 : ℝ) := by simp
  refine ⟨h0, by rw [idConst_real, h0], ?_, fun eps h => ?_⟩
  · rw [idConst_real, h0, Real.log_zero, LFIndex.softplus_real, if_neg (by norm_num), Real.exp_zero]
    norm_num
  · have : Real.exp (1 - eps) < 1 := by rw [Real.exp_lt_one_iff]; linarith
    linarith

/-- consequently a fresh `LULinear(1, identity_init=True, eps=1)` has, in the real-number model, the weight
    `[[log 2 + 1]]`, not the identity, and `logabsdet() ≠ 0` -/
theorem lu_identity_init_eps_one_counterexample :
    luWeight realOps (luIdInit realOps 1 1) = [[Real.log 2 + 1]] ∧ luLogabsdet realOps (luIdInit realOps 1 1) ≠ 0 := by
  have hd : softplus realOps (idConst realOps 1) + 1 = Real.log 2 + 1 := idConst_at_one.2.2.1
  have hl : Real.log 2 > 0 := Real.log_pos (by norm_num)
  constructor
  · simp [luWeight, luIdInit, luInit, luL, luU, luLower, mkUpper, tab2, matMul, NF.LF.transpose, NF.LF.col, dot, NF.LF.sum, posDiag,
      List.range_succ, LFIndex.realOps_add, LFIndex.realOps_mul, hd]
  · simp only [luLogabsdet, luIdInit, luInit, sumLog, posDiag, NF.LF.sum, List.replicate, List.map_cons, List.map_nil,
      List.foldl_cons, List.foldl_nil, LFIndex.realOps_add, LFIndex.realOps_log, hd, LFIndex.zero_real, zero_add]
    exact (Real.log_pos (by linarith)).ne'

/-! ## §4 the pair `(outputs, logabsdet)` the passes return

`Core/LinearFamily` models the outputs of the passes and the scalar `logabsdet()`; the driver answers `[ld]` once per
layer (`Core/Ops/C11.lean`).  The code returns `logabsdet() * ones(B)` from `forward_no_cache`, `(-logabsdet()) * ones(B)`
from `inverse_no_cache` (lu.py:67,88-91, qr.py:61,81-83, svd.py:73,94-96) and `new_zeros(B)` from
`HouseholderSequence` (orthogonal.py:87-88).  The pairs below are built from the Core functions exactly so. -/
section passes
variable {α : Type} (o : Ops α)

/-- `c * inputs.new_ones(B)` -/
def timesOnes (c : α) (B : ℕ) : List α := (List.replicate B (one o)).map (fun w => o.mul c w)

def luForwardLd (p : LUParams α) (X : List (List α)) : List (List α) × List α :=
  (luForward o p X, timesOnes o (luLogabsdet o p) X.length)
def luInverseLd (p : LUParams α) (X : List (List α)) : List (List α) × List α :=
  (luInverse o p X, timesOnes o (o.neg (luLogabsdet o p)) X.length)
def qrForwardLd (p : QRParams α) (X : List (List α)) : List (List α) × List α :=
  (qrForward o p X, timesOnes o (qrLogabsdet o p) X.length)
def qrInverseLd (p : QRParams α) (X : List (List α)) : List (List α) × List α :=
  (qrInverse o p X, timesOnes o (o.neg (qrLogabsdet o p)) X.length)
def svdForwardLd (p : SVDParams α) (X : List (List α)) : List (List α) × List α :=
  (svdForward o p X, timesOnes o (svdLogabsdet o p) X.length)
def svdInverseLd (p : SVDParams α) (X : List (List α)) : List (List α) × List α :=
  (svdInverse o p X, timesOnes o (o.neg (svdLogabsdet o p)) X.length)
/-- `HouseholderSequence.forward` / `.inverse`: `(outputs, inputs.new_zeros(batch_size))` -/
def hhForwardLd (qs : List (List α)) (X : List (List α)) : List (List α) × List α :=
  (hhForward o qs X, List.replicate X.length (zero o))
def hhInverseLd (qs : List (List α)) (X : List (List α)) : List (List α) × List α :=
  (hhInverse o qs X, List.replicate X.length (zero o))
end passes

theorem timesOnes_real (c : ℝ) (B : ℕ) : timesOnes realOps c B = List.replicate B c := by
  simp [timesOnes, LFIndex.realOps_mul]

/-- **what both passes return, outputs and log-abs-det, against the matrix the accessors describe**:
    `weight()` is `W`, `weight_inverse()` is `Winv`, two-sided inverses; on every batch the forward pass returns
    `(W x + b, log|det W|)` per row, the inverse pass returns `(Winv (y - b), log|det Winv|)` per row,
    `log|det Winv| = -log|det W|`, and the inverse pass applied to the forward outputs returns the inputs. -/
def PassesAgree (n : ℕ) (weight winv : List (List ℝ)) (fwdLd invLd : List (List ℝ) → List (List ℝ) × List ℝ)
    (b : Fin n → ℝ) : Prop :=
  ∃ W Winv : Matrix (Fin n) (Fin n) ℝ,
    weight = ofMat W ∧ winv = ofMat Winv ∧ Winv * W = 1 ∧ W * Winv = 1 ∧
    Real.log |Winv.det| = - Real.log |W.det| ∧
    ∀ xs : List (Fin n → ℝ),
      fwdLd (xs.map List.ofFn)
        = (xs.map (fun x => List.ofFn (W *ᵥ x + b)), List.replicate xs.length (Real.log |W.det|)) ∧
      invLd (xs.map List.ofFn)
        = (xs.map (fun y => List.ofFn (Winv *ᵥ (y - b))), List.replicate xs.length (Real.log |Winv.det|)) ∧
      (invLd (fwdLd (xs.map List.ofFn)).1).1 = xs.map List.ofFn

theorem passes_of_usable {n : ℕ} {weight winv : List (List ℝ)} {ld : ℝ} {fwd inv : List (List ℝ) → List (List ℝ)}
    {b : Fin n → ℝ} (hU : Usable n weight winv ld fwd inv b)
    (fwdLd invLd : List (List ℝ) → List (List ℝ) × List ℝ)
    (hf : ∀ X, fwdLd X = (fwd X, timesOnes realOps ld X.length))
    (hi : ∀ X, invLd X = (inv X, timesOnes realOps (realOps.neg ld) X.length)) :
    PassesAgree n weight winv fwdLd invLd b := by
  obtain ⟨W, Winv, hw, hwi, hunit, h1, h2, hld, hfw, hinv⟩ := hU
  have hdet : Real.log |Winv.det| = - Real.log |W.det| := by
    have hd : Winv.det * W.det = 1 := by rw [← Matrix.det_mul, h1, Matrix.det_one]
    have : |Winv.det| = |W.det|⁻¹ := by
      have h3 : |Winv.det| * |W.det| = 1 := by rw [← abs_mul, hd, abs_one]
      exact eq_inv_of_mul_eq_one_left h3
    rw [this, Real.log_inv]
  have hinvB : ∀ ys : List (Fin n → ℝ), inv (ys.map List.ofFn) = ys.map (fun y => List.ofFn (Winv *ᵥ (y - b))) := by
    intro ys
    have h3 := hinv (ys.map (fun y => Winv *ᵥ (y - b)))
    rw [hfw] at h3
    simp only [List.map_map] at h3
    have h4 : ((fun x => List.ofFn (W *ᵥ x + b)) ∘ fun y => Winv *ᵥ (y - b)) = (List.ofFn : (Fin n → ℝ) → List ℝ) := by
      funext y
      simp only [Function.comp, Matrix.mulVec_mulVec, h2, Matrix.one_mulVec, sub_add_cancel]
    rw [h4] at h3
    rw [h3]; rfl
  refine ⟨W, Winv, hw, hwi, h1, h2, hdet, fun xs => ⟨?_, ?_, ?_⟩⟩
  · rw [hf, hfw, timesOnes_real, List.length_map, hld]
  · rw [hi, hinvB, timesOnes_real, List.length_map, hld, hdet]; rfl
  · rw [hf, hi]
    exact hinv xs

/-- **LULinear: the pairs returned by `forward_no_cache` / `inverse_no_cache`** -/
theorem lu_passes (p : LUParams ℝ) (hlen : p.udiag.length = p.n) (heps : 0 ≤ p.eps) (hb : p.bias.length = p.n) :
    PassesAgree p.n (luWeight realOps p) (luWeightInverse realOps p) (luForwardLd realOps p) (luInverseLd realOps p)
      (vecFn p.n p.bias) :=
  passes_of_usable (lu_usable p hlen heps hb) _ _ (fun _ => rfl) (fun _ => rfl)

/-- **QRLinear** -/
theorem qr_passes (p : QRParams ℝ) (vs : List (Fin p.n → ℝ)) (hq : p.qs = vs.map List.ofFn) (hv : ∀ v ∈ vs, v ⬝ᵥ v ≠ 0)
    (hl : p.logDiag.length = p.n) (hb : p.bias.length = p.n) :
    PassesAgree p.n (qrWeight realOps p) (qrWeightInverse realOps p) (qrForwardLd realOps p) (qrInverseLd realOps p)
      (vecFn p.n p.bias) :=
  passes_of_usable (qr_usable p vs hq hv hl hb) _ _ (fun _ => rfl) (fun _ => rfl)

/-- **SVDLinear** -/
theorem svd_passes (p : SVDParams ℝ) (vs1 vs2 : List (Fin p.n → ℝ)) (h1 : p.qs1 = vs1.map List.ofFn)
    (h2 : p.qs2 = vs2.map List.ofFn) (hv1 : ∀ v ∈ vs1, v ⬝ᵥ v ≠ 0) (hv2 : ∀ v ∈ vs2, v ⬝ᵥ v ≠ 0)
    (hl : p.udiag.length = p.n) (heps : 0 ≤ p.eps) (hb : p.bias.length = p.n) :
    PassesAgree p.n (svdWeight realOps p) (svdWeightInverse realOps p) (svdForwardLd realOps p) (svdInverseLd realOps p)
      (vecFn p.n p.bias) :=
  passes_of_usable (svd_usable p vs1 vs2 h1 h2 hv1 hv2 hl heps hb) _ _ (fun _ => rfl) (fun _ => rfl)

/-- **HouseholderSequence: both passes return `(Q x, 0)` resp. `(Qᵀ x, 0)`, and `0 = log|det Q| = log|det Qᵀ|`**
    (`matrix()` is `Q`), on every batch, whenever no q-vector is zero -/
theorem hh_passes {n : ℕ} (vs : List (Fin n → ℝ)) (hv : ∀ v ∈ vs, v ⬝ᵥ v ≠ 0) :
    hhMatrix realOps n (vs.map List.ofFn) = ofMat (LinearFamily.Q vs) ∧
    Real.log |(LinearFamily.Q vs).det| = 0 ∧ Real.log |(LinearFamily.Q vs)ᵀ.det| = 0 ∧
    ∀ xs : List (Fin n → ℝ),
      hhForwardLd realOps (vs.map List.ofFn) (xs.map List.ofFn)
        = (xs.map (fun x => List.ofFn (LinearFamily.Q vs *ᵥ x)), List.replicate xs.length (Real.log |(LinearFamily.Q vs).det|)) ∧
      hhInverseLd realOps (vs.map List.ofFn) (xs.map List.ofFn)
        = (xs.map (fun x => List.ofFn ((LinearFamily.Q vs)ᵀ *ᵥ x)),
           List.replicate xs.length (Real.log |(LinearFamily.Q vs)ᵀ.det|)) ∧
      (hhInverseLd realOps (vs.map List.ofFn) (hhForwardLd realOps (vs.map List.ofFn) (xs.map List.ofFn)).1).1
        = xs.map List.ofFn := by
  have hd : Real.log |(LinearFamily.Q vs).det| = 0 := by rw [LinearFamily.Q_det_abs vs hv, Real.log_one]
  have hdT : Real.log |(LinearFamily.Q vs)ᵀ.det| = 0 := by rw [Matrix.det_transpose]; exact hd
  refine ⟨LinearBridge.hhMatrix_executed vs, hd, hdT, fun xs => ⟨?_, ?_, ?_⟩⟩
  · simp only [hhForwardLd, hhForward, List.map_map, List.length_map, hd, LFIndex.zero_real, Prod.mk.injEq, and_true]
    apply List.map_congr_left
    intro x _
    simp only [Function.comp, LinearBridge.hhSeq_executed, LinearFamily.forward_eq_mulVec]
  · simp only [hhInverseLd, hhInverse, List.map_map, List.length_map, hdT, LFIndex.zero_real, Prod.mk.injEq, and_true,
      ← List.map_reverse]
    apply List.map_congr_left
    intro x _
    simp only [Function.comp, LinearBridge.hhSeq_executed, LinearFamily.inverse_eq_mulVec]
  · simp only [hhInverseLd, hhForwardLd, hhInverse, hhForward, List.map_map, ← List.map_reverse]
    apply List.map_congr_left
    intro x _
    simp only [Function.comp, LinearBridge.hhSeq_executed, Householder.hhSeq_inverse vs hv]

/-- a fresh `HouseholderSequence(features, num)`, every accepted size -/
theorem hh_fresh_passes (n num : ℕ) (hn : 1 ≤ n) :
    ∃ vs : List (Fin n → ℝ), hhInitQ realOps n num = vs.map List.ofFn ∧ (∀ v ∈ vs, v ⬝ᵥ v ≠ 0) ∧
    ∀ xs : List (Fin n → ℝ),
      (hhForwardLd realOps (hhInitQ realOps n num) (xs.map List.ofFn)).2 = List.replicate xs.length 0 ∧
      Real.log |(LinearFamily.Q vs).det| = 0 ∧
      (hhForwardLd realOps (hhInitQ realOps n num) (xs.map List.ofFn)).1 = xs.map (fun x => List.ofFn (LinearFamily.Q vs *ᵥ x)) := by
  refine ⟨initVs n num hn, hhInitQ_real n num hn, initVs_ne n num hn, fun xs => ?_⟩
  obtain ⟨-, hd, -, h⟩ := hh_passes (initVs n num hn) (initVs_ne n num hn)
  rw [hhInitQ_real n num hn, (h xs).1, hd]
  exact ⟨rfl, rfl, rfl⟩

/-- the pairs returned by FRESH layers of every accepted size (bias zero) -/
theorem fresh_passes (n num : ℕ) (hn : 1 ≤ n) (eps : ℝ) (heps : 0 ≤ eps) (lo up ud ld : List ℝ) (hud : ud.length = n)
    (hld : ld.length = n) :
    PassesAgree n (luWeight realOps (luInit realOps n eps lo up ud)) (luWeightInverse realOps (luInit realOps n eps lo up ud))
      (luForwardLd realOps (luInit realOps n eps lo up ud)) (luInverseLd realOps (luInit realOps n eps lo up ud)) 0 ∧
    PassesAgree n (qrWeight realOps (qrInit realOps n num up ld)) (qrWeightInverse realOps (qrInit realOps n num up ld))
      (qrForwardLd realOps (qrInit realOps n num up ld)) (qrInverseLd realOps (qrInit realOps n num up ld)) 0 ∧
    PassesAgree n (svdWeight realOps (svdInit realOps n num eps ud)) (svdWeightInverse realOps (svdInit realOps n num eps ud))
      (svdForwardLd realOps (svdInit realOps n num eps ud)) (svdInverseLd realOps (svdInit realOps n num eps ud)) 0 :=
  ⟨passes_of_usable (lu_fresh_usable n eps heps lo up ud hud) _ _ (fun _ => rfl) (fun _ => rfl),
   passes_of_usable (qr_fresh_usable n num hn up ld hld) _ _ (fun _ => rfl) (fun _ => rfl),
   passes_of_usable (svd_fresh_usable n num hn eps heps ud hud) _ _ (fun _ => rfl) (fun _ => rfl)⟩

/-! ## non-vacuity: concrete instances -/

/-- a fresh `QRLinear(features = 3, num_householder = 7)` (odd count, beyond `2·features`) with concrete draws -/
example : Usable 3 (qrWeight realOps (qrInit realOps 3 7 [5, -1, 2] [0, 1, -1]))
    (qrWeightInverse realOps (qrInit realOps 3 7 [5, -1, 2] [0, 1, -1])) (qrLogabsdet realOps (qrInit realOps 3 7 [5, -1, 2] [0, 1, -1]))
    (qrForward realOps (qrInit realOps 3 7 [5, -1, 2] [0, 1, -1])) (qrInverse realOps (qrInit realOps 3 7 [5, -1, 2] [0, 1, -1])) 0 :=
  qr_fresh_usable 3 7 (by norm_num) _ _ rfl

/-- its `logabsdet()` is the sum of the drawn `log_upper_diag`, `0 + 1 - 1 = 0`, although `W ≠ I` -/
example : qrLogabsdet realOps (qrInit realOps 3 7 [5, -1, 2] [0, 1, -1]) = 0 := by
  simp [qrLogabsdet, qrInit, NF.LF.sum, LFIndex.realOps_add]

/-- a fresh `LULinear(2, identity_init=False, eps=1e-3)` with concrete draws, and the default `identity_init=True` -/
example : Usable 2 (luWeight realOps (luInit realOps 2 (1/1000) [3] [5] [0, 1])) (luWeightInverse realOps (luInit realOps 2 (1/1000) [3] [5] [0, 1]))
    (luLogabsdet realOps (luInit realOps 2 (1/1000) [3] [5] [0, 1])) (luForward realOps (luInit realOps 2 (1/1000) [3] [5] [0, 1]))
    (luInverse realOps (luInit realOps 2 (1/1000) [3] [5] [0, 1])) 0 :=
  lu_fresh_usable 2 _ (by norm_num) _ _ _ rfl
example : luWeight realOps (luIdInit realOps 4 (1/1000)) = eye realOps 4 :=
  (lu_identity_init 4 _ (by norm_num) (by norm_num)).2.1
/-- the default `SVDLinear(features = 2, num_householder = 4)` starts at the identity -/
example : svdWeight realOps (svdIdInit realOps 2 (2 * 2) (1/1000)) = eye realOps 2 :=
  (svd_identity_init 2 2 (by norm_num) _ (by norm_num) (by norm_num)).1
/-- the constructors on concrete integers -/
example : svdConstruct realOps 3 5 (1/1000) none = .error .assertion := svd_odd_rejected _ 3 5 (by norm_num) (by norm_num) _ _
example : (∃ p, qrConstruct realOps 3 5 [] [] = .ok p) := ((construct_accepts realOps 3 5 0 none [] [] none).2.1).mpr (by norm_num)

end
end LinearFresh
