import NflowsModel.Lemmas.FlowWholeND
import NflowsModel.Lemmas.ARWhole
import NflowsModel.Lemmas.RankedDet
/-!
# Lemmas/CouplingJacobian — the Jacobian of a row of the EXECUTED coupling layer (C01, C02, C03)

For the executed autoregressive transform `Lemmas/ARWhole.lean` / `Lemmas/FlowWholeND.lean` connect the returned
log-abs-det to the determinant of the row Jacobian (`ar_row_logdet`, `ar_row_abs_det`, `arRowDiffeo`).  For the executed
coupling layer (`couplingApply`, `Core/Structure.lean`) only the channel-sum form existed
(`StructureExec.coupling_ld_real_channels`).  This file closes the gap: the abstract determinant theorem
`RankedDet.det_of_ranked_dependency` (`Properties.C01.det_of_ranked_dependency`) is applied to the row map of the program,
with the rank function "identity channels first, then the transformed ones".

The conditioner is an ARBITRARY function `net : Array ℝ → Array ℝ`, run — as coupling.py:80-86 does — on the identity
split: `params = net (idSplit x)`.  NO hypothesis on `net` is needed for the triangular structure (contrast `AutoregNet`
for MADE): the program itself hands it the identity channels only.  2-D inputs (`S = 1`), no unconditional transform.

Everything in §3–§5 is stated for BOTH passes (`inverse : Bool`; `couplingRun … false = couplingForward`,
`couplingRun … true = couplingInverse`): the inverse pass also hands the conditioner the identity channels only.

* §1 `idSplit`, `couplingForward`, `couplingInverse`, `couplingRun` (the executed passes with the conditioner in the loop).
* §2 `ldFold_real`, `coupling_ld_channels`: over the reals `ld[b]` is the channel sum WITHOUT the "nothing raised"
  hypothesis of `coupling_ld_real_channels` (a raising element contributes `ldOf = 0`, exactly what the fold skips).
* §3 `couplingRowMap` (row `b` of `couplingRun` on the batch `x` with row `b` replaced), `couplingRowMap_self` (it is
  `rowOf` of the executed output), `couplingRowMap_apply`, `idSplit_setRow_congr` (the conditioner sees the identity
  channels only), `couplingRowMap_eq` (dependency structure), `couplingRun_ld`.
* §4 `coupling_row_det` (det = ∏ element derivatives), **`coupling_row_abs_det`** (`∃ l, ld[b]? = some l ∧ |L.det| = exp l`),
  `coupling_row_logdet` (`ld[b]? = some (log |det L|)`).
* §5 the per-element law discharged, both directions: `couplingElMap_additive_hasDerivAt`,
  `couplingElMap_affine_hasDerivAt`, `couplingElMap_rq_tails_hasDerivAt`; `coupling_{additive,affine,rq_tails}_row_abs_det`
  (only `hL` is left).
* §6 `CouplingFamily` (`rqTailsFamily`, `additiveFamily`, `affineFamily`), C02 with the conditioner RE-RUN by the inverse
  pass: `coupling_net_roundtrip`, `coupling_net_roundtrip_rev`, `coupling_net_rq_tails_roundtrip`.
* §7 `couplingRowT`, `CouplingRowHyp`, **`couplingRowDiffeo : DiffeoN C`**, `couplingRowInv_abs_det`; satisfiability of the
  differentiability hypothesis: `couplingRowHyp_const_net` (every family), `couplingRowHyp_additive_diffNet`,
  `couplingRowHyp_affine_diffNet` (ANY entry-wise differentiable conditioner), `…_affineNet` (`net z = A z + β`).
* §8 `ExecLayer2` (= `FlowWholeND.ExecLayer` + coupling), `runAll2`, **`executed_pipeline2_normalised`**(`_diag`).
* §9 non-vacuity.
-/
open MeasureTheory NF DualSound Properties.C03

namespace NF.CouplingJacobian
open NF.StructureExec NF.ARWhole

variable {α : Type}

/-! ## 1. The executed programs: the conditioner is run on the identity split -/

/-- the identity split `inputs[:, identity_features]` of a `[B, C]` input (coupling.py:80): what the conditioner is given -/
def idSplit (o : XOps α) (mask : List α) (B : Nat) (x : Array α) : Array α :=
  gatherCh x B mask.length 1 (identityIdx o mask) o.zero

/-- `CouplingTransform.forward` on 2-D inputs (coupling.py:73-100), no unconditional transform: the conditioner `net`
    is applied to the identity split, `couplingApply` to its output -/
def couplingForward (o : XOps α) (c : ElCfg) (mask : List α) (B : Nat) (net : Array α → Array α) (x : Array α) :
    TResult α :=
  couplingApply o c mask B 1 x (net (idSplit o mask B x)) false

/-- `CouplingTransform.inverse` (coupling.py:102-132), no unconditional transform -/
def couplingInverse (o : XOps α) (c : ElCfg) (mask : List α) (B : Nat) (net : Array α → Array α) (y : Array α) :
    TResult α :=
  couplingApply o c mask B 1 y (net (idSplit o mask B y)) true

/-- either pass: the conditioner is run on the identity split of the pass's own input -/
def couplingRun (o : XOps α) (c : ElCfg) (mask : List α) (B : Nat) (net : Array α → Array α) (inverse : Bool)
    (x : Array α) : TResult α :=
  couplingApply o c mask B 1 x (net (idSplit o mask B x)) inverse

theorem couplingRun_false (o : XOps α) (c : ElCfg) (mask : List α) (B : Nat) (net : Array α → Array α) (x : Array α) :
    couplingRun o c mask B net false x = couplingForward o c mask B net x := rfl

theorem couplingRun_true (o : XOps α) (c : ElCfg) (mask : List α) (B : Nat) (net : Array α → Array α) (x : Array α) :
    couplingRun o c mask B net true x = couplingInverse o c mask B net x := rfl

/-- the conditioner input the model reports IS the identity split the conditioner was run on -/
theorem couplingForward_condIn (o : XOps α) (c : ElCfg) (mask : List α) (B : Nat) (net : Array α → Array α)
    (x : Array α) : (couplingForward o c mask B net x).condIn = idSplit o mask B x :=
  coupling_condIn_forward o c mask B 1 x _ none #[]

theorem couplingInverse_condIn (o : XOps α) (c : ElCfg) (mask : List α) (B : Nat) (net : Array α → Array α)
    (y : Array α) : (couplingInverse o c mask B net y).condIn = idSplit o mask B y :=
  coupling_condIn_inverse_none o c mask B 1 y _ #[]

theorem flatIdx_one (C b ch : Nat) : flatIdx C 1 b ch 0 = b * C + ch := by simp [flatIdx]

/-! ## 2. The row log-det over the reals as a channel sum, with NO "nothing raised" hypothesis -/

/-- over the reals skipping the elements that raised is adding their `ldOf = 0` -/
theorem ldFold_real (e : Float → ℝ) (rs : List (ElRes ℝ)) :
    ldFold (NF.realX e) rs = (rs.map (ldOf (NF.realX e))).sum := by
  rw [ldFold_eq, foldl_add_real, realX_zero, zero_add]
  induction rs with
  | nil => rfl
  | cons r rs ih =>
    rcases r with er | ⟨y, l, al⟩
    · simp only [List.filterMap_cons, List.map_cons, List.sum_cons, ldOf, realX_zero, zero_add]
      exact ih
    · simp only [List.filterMap_cons, List.map_cons, List.sum_cons, ldOf]
      rw [ih]

theorem coupling_ld_real_sum (e : Float → ℝ) (c : ElCfg) (mask : List ℝ) (B S : Nat) (x params : Array ℝ)
    (inverse : Bool) (uc : Option ElCfg) (uparams : Array ℝ) {b : Nat} (hb : b < B) :
    (couplingApply (NF.realX e) c mask B S x params inverse uc uparams).ld[b]?
      = some (((rowResults (NF.realX e) c mask S x params inverse uc uparams b).map (ldOf (NF.realX e))).sum) := by
  rw [coupling_ld_getElem? _ c mask S inverse uc uparams x params hb, ldFold_real]
  rfl

/-- `StructureExec.coupling_ld_real_channels` without its hypothesis: over the reals, `ld[b]` is the sum over the
    channels of the element log-dets of the transformed channels (`0` where the element raised) -/
theorem coupling_ld_channels (e : Float → ℝ) (c : ElCfg) (mask : List ℝ) (B : Nat) (x params uparams : Array ℝ)
    (inverse : Bool) {b : Nat} (hb : b < B) :
    (couplingApply (NF.realX e) c mask B 1 x params inverse none uparams).ld[b]?
      = some (∑ i : Fin mask.length,
          if isT (NF.realX e) mask i then
            ldOf (NF.realX e) (chanEl (NF.realX e) c mask params b i inverse (rowOf (NF.realX e) mask.length b x i))
          else 0) := by
  rw [coupling_ld_real_sum e c mask B 1 x params inverse none uparams hb, rowResults_none, rowIter_one]
  congr 1
  have hlist : (List.range (transformIdx (NF.realX e) mask).length)
      = (transformIdx (NF.realX e) mask).map (fun ch => (transformIdx (NF.realX e) mask).idxOf ch) := by
    apply List.ext_getElem
    · simp
    · intro t h1 h2
      simp only [List.getElem_range, List.getElem_map]
      exact ((transformIdx_ok (NF.realX e) mask).nodup.idxOf_getElem t (by simpa using h1)).symm
  set g : Nat → ℝ := fun ch =>
    if h : ch < mask.length then
      ldOf (NF.realX e) (chanEl (NF.realX e) c mask params b ⟨ch, h⟩ inverse (rowOf (NF.realX e) mask.length b x ⟨ch, h⟩))
    else 0 with hg
  have hsum : (List.map (ldOf (NF.realX e))
      (List.map (fun ts : Nat × Nat =>
          couplingEl (NF.realX e) c (transformIdx (NF.realX e) mask).length 1 params inverse b ts.1 ts.2
            (x.getD (flatIdx mask.length 1 b ((transformIdx (NF.realX e) mask).getD ts.1 0) ts.2) (NF.realX e).zero))
        (List.map (fun t => (t, 0)) (List.range (transformIdx (NF.realX e) mask).length))))
      = (transformIdx (NF.realX e) mask).map g := by
    rw [hlist]
    simp only [List.map_map]
    apply List.map_congr_left
    intro ch hch
    obtain ⟨_, hgd⟩ := idxOf_transform (NF.realX e) mask hch
    have hlt : ch < mask.length := (transformIdx_ok (NF.realX e) mask).lt _ hch
    simp only [Function.comp, hgd, hg, hlt, dif_pos, chanEl, rowOf]
  rw [hsum]
  unfold transformIdx
  rw [sum_map_filter_range]
  apply Finset.sum_congr rfl
  intro i _
  simp only [isT, hg, i.isLt, dif_pos]
  rfl

/-! ## 3. The row map of the executed pass (either direction) and its dependency structure -/

/-- row `b` of the executed forward pass (conditioner run on the identity split, then `couplingApply … false`) as a map
    `ℝ^C → ℝ^C`: the batch is `x` with row `b` replaced by `v` -/
noncomputable def couplingRowMap (e : Float → ℝ) (c : ElCfg) (mask : List ℝ) (B : Nat) (net : Array ℝ → Array ℝ)
    (inverse : Bool) (x : Array ℝ) (b : Nat) (v : Fin mask.length → ℝ) : Fin mask.length → ℝ :=
  rowOf (NF.realX e) mask.length b (couplingRun (NF.realX e) c mask B net inverse (setRow B mask.length x b v)).out

/-- the scalar map of channel `i` of row `b` at the conditioner output `params` (value semantics of the buffer: an
    element that raises leaves the input value) -/
noncomputable def couplingElMap (e : Float → ℝ) (c : ElCfg) (mask : List ℝ) (params : Array ℝ) (inverse : Bool)
    (b : Nat) (i : Fin mask.length) (s : ℝ) : ℝ :=
  applyEl (chanEl (NF.realX e) c mask params b i inverse) s

/-- the log-det the element of channel `i` of row `b` returns at `s` (zero if it raises) -/
noncomputable def couplingElLd (e : Float → ℝ) (c : ElCfg) (mask : List ℝ) (params : Array ℝ) (inverse : Bool)
    (b : Nat) (i : Fin mask.length) (s : ℝ) : ℝ :=
  ldOf (NF.realX e) (chanEl (NF.realX e) c mask params b i inverse s)

theorem rowOf_setRow (e : Float → ℝ) (B C : Nat) (x : Array ℝ) {b : Nat} (hb : b < B) (v : Fin C → ℝ) :
    rowOf (NF.realX e) C b (setRow B C x b v) = v := by
  funext i
  unfold rowOf
  rw [flatIdx_one, Array.getD_eq_getD_getElem?, setRow_getElem? B C x b v hb i.2]
  simp

theorem setRow_rowOf (e : Float → ℝ) (B C : Nat) (x : Array ℝ) (hx : x.size = B * C) (b : Nat) :
    setRow B C x b (rowOf (NF.realX e) C b x) = x := by
  apply Array.ext
  · rw [setRow_size, hx]
  · intro j h1 h2
    have hj : j < B * C := by rwa [setRow_size] at h1
    have hC : 0 < C := by
      rcases Nat.eq_zero_or_pos C with h | h
      · subst h; simp at hj
      · exact h
    have hm : j % C < C := Nat.mod_lt _ hC
    simp only [setRow, Array.getElem_ofFn]
    by_cases hb : j / C = b
    · rw [if_pos hb, dif_pos hm]
      subst hb
      have hjj : j / C * C + j % C = j := by rw [Nat.mul_comm]; exact Nat.div_add_mod j C
      simp only [rowOf, flatIdx_one, hjj]
      exact getD_of_lt h2 _
    · rw [if_neg hb]
      exact getD_of_lt h2 _

/-- **the program computes the row map**: at row `b` of `x` itself, the row map is row `b` of the executed output -/
theorem couplingRowMap_self (e : Float → ℝ) (c : ElCfg) (mask : List ℝ) (B : Nat) (net : Array ℝ → Array ℝ)
    (inverse : Bool) (x : Array ℝ) (hx : x.size = B * mask.length) (b : Nat) :
    couplingRowMap e c mask B net inverse x b (rowOf (NF.realX e) mask.length b x)
      = rowOf (NF.realX e) mask.length b (couplingRun (NF.realX e) c mask B net inverse x).out := by
  unfold couplingRowMap
  rw [setRow_rowOf e B _ x hx b]

/-- channel by channel: an identity channel returns its input, a transformed channel the element map at the parameters
    the conditioner returns for the identity split of the batch -/
theorem couplingRowMap_apply (e : Float → ℝ) (c : ElCfg) (mask : List ℝ) (B : Nat) (net : Array ℝ → Array ℝ)
    (inverse : Bool) (x : Array ℝ) {b : Nat} (hb : b < B) (v : Fin mask.length → ℝ) (i : Fin mask.length) :
    couplingRowMap e c mask B net inverse x b v i
      = if isT (NF.realX e) mask i then
          couplingElMap e c mask (net (idSplit (NF.realX e) mask B (setRow B mask.length x b v))) inverse b i (v i)
        else v i := by
  unfold couplingRowMap couplingRun
  rw [coupling_row_pointwise (NF.realX e) c mask B _ _ #[] inverse hb (by rw [setRow_size]) i,
    rowOf_setRow e B _ x hb v]
  rfl

theorem not_isT_of_mem_identityIdx (e : Float → ℝ) (mask : List ℝ) {ch : Nat}
    (h : ch ∈ identityIdx (NF.realX e) mask) (hlt : ch < mask.length) : isT (NF.realX e) mask ⟨ch, hlt⟩ = false := by
  have hd := maskDisjoint_real e mask ch h
  cases hT : isT (NF.realX e) mask ⟨ch, hlt⟩ with
  | false => rfl
  | true => exact absurd ((mem_transformIdx_iff (NF.realX e) mask ⟨ch, hlt⟩).2 hT) hd

/-- **the conditioner sees only the identity channels** (C07): two rows that agree on the identity channels give the
    same identity split, hence the same conditioner output -/
theorem idSplit_setRow_congr (e : Float → ℝ) (mask : List ℝ) (B : Nat) (x : Array ℝ) (b : Nat)
    (v v' : Fin mask.length → ℝ) (h : ∀ i, isT (NF.realX e) mask i = false → v i = v' i) :
    idSplit (NF.realX e) mask B (setRow B mask.length x b v) = idSplit (NF.realX e) mask B (setRow B mask.length x b v') := by
  unfold idSplit
  apply gatherCh_congr
  intro b' ch s hb' hch hs
  have hs0 : s = 0 := by omega
  subst hs0
  have hlt := (identityIdx_ok (NF.realX e) mask).lt _ hch
  rw [flatIdx_one, setRow_getElem? _ _ x b v hb' hlt, setRow_getElem? _ _ x b v' hb' hlt,
    h ⟨ch, hlt⟩ (not_isT_of_mem_identityIdx e mask hch hlt)]

/-- **dependency structure**: along any `v` that agrees with row `b` of `x` on the identity channels, identity outputs
    are the identity inputs and transformed output `i` is the scalar element map AT THE PARAMETERS OF `x` applied to
    `v i` — it depends on `v i` and the identity inputs only -/
theorem couplingRowMap_eq (e : Float → ℝ) (c : ElCfg) (mask : List ℝ) (B : Nat) (net : Array ℝ → Array ℝ)
    (inverse : Bool) (x : Array ℝ) (hx : x.size = B * mask.length) {b : Nat} (hb : b < B) (v : Fin mask.length → ℝ)
    (hv : ∀ i, isT (NF.realX e) mask i = false → v i = rowOf (NF.realX e) mask.length b x i) (i : Fin mask.length) :
    couplingRowMap e c mask B net inverse x b v i
      = if isT (NF.realX e) mask i then couplingElMap e c mask (net (idSplit (NF.realX e) mask B x)) inverse b i (v i)
        else v i := by
  rw [couplingRowMap_apply e c mask B net inverse x hb, idSplit_setRow_congr e mask B x b v _ hv, setRow_rowOf e B _ x hx b]

/-- `ld[b]` of the executed forward pass in terms of `couplingElLd` -/
theorem couplingRun_ld (e : Float → ℝ) (c : ElCfg) (mask : List ℝ) (B : Nat) (net : Array ℝ → Array ℝ)
    (inverse : Bool) (x : Array ℝ) {b : Nat} (hb : b < B) :
    (couplingRun (NF.realX e) c mask B net inverse x).ld[b]?
      = some (∑ i : Fin mask.length, if isT (NF.realX e) mask i then
          couplingElLd e c mask (net (idSplit (NF.realX e) mask B x)) inverse b i (rowOf (NF.realX e) mask.length b x i) else 0) :=
  coupling_ld_channels e c mask B x _ #[] inverse hb

/-! ## 4. C01: the Jacobian of the row map is triangular up to the mask's permutation -/

/-- the rank function: identity channels first, then the transformed ones -/
noncomputable def maskRank (e : Float → ℝ) (mask : List ℝ) (i : Fin mask.length) : ℕ := if isT (NF.realX e) mask i then 1 else 0

/-- the determinant of the Jacobian of the row map is the product of the element derivatives (`1` on identity
    channels): `RankedDet.det_of_ranked_dependency` with `maskRank` -/
theorem coupling_row_det (e : Float → ℝ) (c : ElCfg) (mask : List ℝ) (B : Nat) (net : Array ℝ → Array ℝ)
    (inverse : Bool) (x : Array ℝ) (hx : x.size = B * mask.length) {b : Nat} (hb : b < B)
    {L : (Fin mask.length → ℝ) →L[ℝ] (Fin mask.length → ℝ)}
    (hL : HasFDerivAt (couplingRowMap e c mask B net inverse x b) L (rowOf (NF.realX e) mask.length b x))
    (d : Fin mask.length → ℝ)
    (hdiag : ∀ i, isT (NF.realX e) mask i = true →
      HasDerivAt (couplingElMap e c mask (net (idSplit (NF.realX e) mask B x)) inverse b i) (d i)
        (rowOf (NF.realX e) mask.length b x i)) :
    LinearMap.det (L : (Fin mask.length → ℝ) →ₗ[ℝ] (Fin mask.length → ℝ))
      = ∏ i, if isT (NF.realX e) mask i then d i else 1 := by
  set v0 : Fin mask.length → ℝ := rowOf (NF.realX e) mask.length b x with hv0
  -- a perturbation of a transformed channel leaves the identity channels alone
  have hline : ∀ (j : Fin mask.length) (t : ℝ), isT (NF.realX e) mask j = true →
      ∀ k, isT (NF.realX e) mask k = false → (v0 + t • (Pi.single j (1 : ℝ) : Fin mask.length → ℝ)) k = v0 k := by
    intro j t hj k hk
    have hne : k ≠ j := fun h => by rw [h, hj] at hk; exact Bool.noConfusion hk
    simp [hne]
  apply RankedDet.det_of_ranked_dependency hL (maskRank e mask)
  · intro i j hji hr t
    have hne : i ≠ j := fun h => hji h.symm
    cases hi : isT (NF.realX e) mask i with
    | false =>
      rw [couplingRowMap_apply e c mask B net inverse x hb, couplingRowMap_apply e c mask B net inverse x hb, hi]
      simp [hne]
    | true =>
      have hj : isT (NF.realX e) mask j = true := by
        cases hj : isT (NF.realX e) mask j with
        | true => rfl
        | false => exact absurd (by simp [maskRank, hi, hj]) hr
      rw [couplingRowMap_eq e c mask B net inverse x hx hb _ (hline j t hj) i,
        couplingRowMap_eq e c mask B net inverse x hx hb v0 (fun _ _ => rfl) i, hi]
      simp [hne]
  · intro i
    cases hi : isT (NF.realX e) mask i with
    | false =>
      have hfun : (fun t : ℝ => couplingRowMap e c mask B net inverse x b (v0 + t • Pi.single i 1) i)
          = fun t : ℝ => v0 i + t := by
        funext t
        rw [couplingRowMap_apply e c mask B net inverse x hb, hi]
        simp
      rw [hfun]
      simpa using (hasDerivAt_id (0 : ℝ)).const_add (v0 i)
    | true =>
      have hfun : (fun t : ℝ => couplingRowMap e c mask B net inverse x b (v0 + t • Pi.single i 1) i)
          = fun t : ℝ => couplingElMap e c mask (net (idSplit (NF.realX e) mask B x)) inverse b i (v0 i + t) := by
        funext t
        rw [couplingRowMap_eq e c mask B net inverse x hx hb _ (hline i t hi) i, hi]
        simp
      rw [hfun]
      have h := hdiag i hi
      have h0 : v0 i = v0 i + 0 := by simp
      rw [h0] at h
      simpa using h.comp_const_add (v0 i) 0

/-- **C01 (executed coupling layer)**: for ANY conditioner `net` (no hypothesis on it: it is run on the identity split),
    if the row map has Fréchet derivative `L` at row `b` of `x` and every transformed element obeys the per-element law
    (derivative of the element map = `exp` of the log-det it returns), then entry `b` of the log-abs-det the executed
    forward pass returns is `l` with `|det L| = exp l` -/
theorem coupling_row_abs_det (e : Float → ℝ) (c : ElCfg) (mask : List ℝ) (B : Nat) (net : Array ℝ → Array ℝ)
    (inverse : Bool) (x : Array ℝ) (hx : x.size = B * mask.length) {b : Nat} (hb : b < B)
    {L : (Fin mask.length → ℝ) →L[ℝ] (Fin mask.length → ℝ)}
    (hL : HasFDerivAt (couplingRowMap e c mask B net inverse x b) L (rowOf (NF.realX e) mask.length b x))
    (hdiag : ∀ i, isT (NF.realX e) mask i = true →
      HasDerivAt (couplingElMap e c mask (net (idSplit (NF.realX e) mask B x)) inverse b i)
        (Real.exp (couplingElLd e c mask (net (idSplit (NF.realX e) mask B x)) inverse b i (rowOf (NF.realX e) mask.length b x i)))
        (rowOf (NF.realX e) mask.length b x i)) :
    ∃ l, (couplingRun (NF.realX e) c mask B net inverse x).ld[b]? = some l ∧ |L.det| = Real.exp l := by
  refine ⟨_, couplingRun_ld e c mask B net inverse x hb, ?_⟩
  rw [ContinuousLinearMap.det, coupling_row_det e c mask B net inverse x hx hb hL _ hdiag, Real.exp_sum,
    abs_of_pos (Finset.prod_pos fun i _ => by split <;> first | exact Real.exp_pos _ | exact one_pos)]
  apply Finset.prod_congr rfl
  intro i _
  split <;> simp

/-- the `log` form: `ld[b] = log |det J_b|` -/
theorem coupling_row_logdet (e : Float → ℝ) (c : ElCfg) (mask : List ℝ) (B : Nat) (net : Array ℝ → Array ℝ)
    (inverse : Bool) (x : Array ℝ) (hx : x.size = B * mask.length) {b : Nat} (hb : b < B)
    {L : (Fin mask.length → ℝ) →L[ℝ] (Fin mask.length → ℝ)}
    (hL : HasFDerivAt (couplingRowMap e c mask B net inverse x b) L (rowOf (NF.realX e) mask.length b x))
    (hdiag : ∀ i, isT (NF.realX e) mask i = true →
      HasDerivAt (couplingElMap e c mask (net (idSplit (NF.realX e) mask B x)) inverse b i)
        (Real.exp (couplingElLd e c mask (net (idSplit (NF.realX e) mask B x)) inverse b i (rowOf (NF.realX e) mask.length b x i)))
        (rowOf (NF.realX e) mask.length b x i)) :
    (couplingRun (NF.realX e) c mask B net inverse x).ld[b]?
      = some (Real.log |LinearMap.det (L : (Fin mask.length → ℝ) →ₗ[ℝ] (Fin mask.length → ℝ))|) := by
  obtain ⟨l, hl, hdet⟩ := coupling_row_abs_det e c mask B net inverse x hx hb hL hdiag
  rw [hl]
  rw [ContinuousLinearMap.det] at hdet
  rw [hdet, Real.log_exp]

/-! ## 5. The per-element law discharged, both directions: additive, affine, RQ with linear tails -/

/-- an element that is `s ↦ s * scale + shift` with log-det `log scale`, `scale > 0`, obeys the law everywhere -/
theorem elLaw_of_affine_form {e : Float → ℝ} {c : ElCfg} {mask : List ℝ} {params : Array ℝ} {inverse : Bool} {b : Nat}
    {i : Fin mask.length} {scale shift : ℝ} (hs : 0 < scale)
    (h : ∀ s, chanEl (NF.realX e) c mask params b i inverse s = .ok (s * scale + shift, Real.log scale, [])) (x : ℝ) :
    HasDerivAt (couplingElMap e c mask params inverse b i) (Real.exp (couplingElLd e c mask params inverse b i x)) x := by
  have hf : couplingElMap e c mask params inverse b i = fun s => s * scale + shift := by
    funext s; simp [couplingElMap, applyEl, h]
  have hl : couplingElLd e c mask params inverse b i x = Real.log scale := by simp [couplingElLd, ldOf, h]
  rw [hf, hl, Real.exp_log hs]
  simpa using ((hasDerivAt_id x).mul_const scale).add_const shift

/-- an element that is `s ↦ (s - shift) / scale` with log-det `- log scale`, `scale > 0`, obeys the law everywhere -/
theorem elLaw_of_affine_form_inv {e : Float → ℝ} {c : ElCfg} {mask : List ℝ} {params : Array ℝ} {inverse : Bool}
    {b : Nat} {i : Fin mask.length} {scale shift : ℝ} (hs : 0 < scale)
    (h : ∀ s, chanEl (NF.realX e) c mask params b i inverse s = .ok ((s - shift) / scale, -Real.log scale, [])) (x : ℝ) :
    HasDerivAt (couplingElMap e c mask params inverse b i) (Real.exp (couplingElLd e c mask params inverse b i x)) x := by
  have hf : couplingElMap e c mask params inverse b i = fun s => (s - shift) / scale := by
    funext s; simp [couplingElMap, applyEl, h]
  have hl : couplingElLd e c mask params inverse b i x = -Real.log scale := by simp [couplingElLd, ldOf, h]
  rw [hf, hl, Real.exp_neg, Real.exp_log hs]
  simpa using ((hasDerivAt_id x).sub_const shift).div_const scale

/-- number of transformed channels / position of channel `i` among them -/
noncomputable abbrev nT (e : Float → ℝ) (mask : List ℝ) : Nat := (transformIdx (NF.realX e) mask).length
noncomputable abbrev tpos (e : Float → ℝ) (mask : List ℝ) (i : Fin mask.length) : Nat :=
  (transformIdx (NF.realX e) mask).idxOf i.val

/-- the additive element (`AdditiveCouplingTransform`, coupling.py:248-257) in closed form: `s + shift[b, tpos]` -/
theorem chanEl_additive (e : Float → ℝ) (c : ElCfg) (hk : c.kind = "additive") (mask : List ℝ) (params : Array ℝ)
    (b : Nat) (i : Fin mask.length) (s : ℝ) :
    chanEl (NF.realX e) c mask params b i false s
      = .ok (s * 1 + params.getD ((b * nT e mask + tpos e mask i) * 1 + 0) 0, Real.log 1, []) := by
  have hk1 : (c.kind == "affine") = false := by rw [hk]; decide
  have hk2 : (c.kind == "additive") = true := by rw [hk]; decide
  simp only [chanEl, couplingEl, hk1, hk2, Bool.false_eq_true, if_false, if_true, scaleShiftT, Except.map, realX_add,
    realX_mul, realX_log, realX_one, realX_zero]

/-- … and its inverse pass: `s - shift[b, tpos]` -/
theorem chanEl_additive_inv (e : Float → ℝ) (c : ElCfg) (hk : c.kind = "additive") (mask : List ℝ) (params : Array ℝ)
    (b : Nat) (i : Fin mask.length) (s : ℝ) :
    chanEl (NF.realX e) c mask params b i true s
      = .ok ((s - params.getD ((b * nT e mask + tpos e mask i) * 1 + 0) 0) / 1, -Real.log 1, []) := by
  have hk1 : (c.kind == "affine") = false := by rw [hk]; decide
  have hk2 : (c.kind == "additive") = true := by rw [hk]; decide
  simp only [chanEl, couplingEl, hk1, hk2, Bool.false_eq_true, if_false, if_true, scaleShiftT, Except.map, realX_sub,
    realX_div, realX_neg, realX_log, realX_one, realX_zero]

/-- the scale of the affine element: `sigmoid(u + 2) + 1e-3` (default) or `clamp(softplus(u) + 1e-3, 0, 3)` -/
noncomputable def affScale (e : Float → ℝ) (act : String) (u : ℝ) : ℝ :=
  if act == "general" then
    (NF.realX e).clamp (NF.realX e).zero ((NF.realX e).ofNat 3)
      ((NF.realX e).add ((NF.realX e).softplus u) ((NF.realX e).ofFloat 1e-3))
  else (NF.realX e).add ((NF.realX e).sigmoid ((NF.realX e).add u (NF.realX e).two)) ((NF.realX e).ofFloat 1e-3)

theorem chanEl_affine_aux (e : Float → ℝ) (c : ElCfg) (hk : c.kind = "affine") (mask : List ℝ) (params : Array ℝ)
    (b : Nat) (i : Fin mask.length) (s : ℝ) :
    chanEl (NF.realX e) c mask params b i false s
      = .ok (s * affScale e c.act (params.getD ((b * (2 * nT e mask) + (nT e mask + tpos e mask i)) * 1 + 0) (NF.realX e).zero)
              + params.getD ((b * (2 * nT e mask) + tpos e mask i) * 1 + 0) (NF.realX e).zero,
             Real.log (affScale e c.act (params.getD ((b * (2 * nT e mask) + (nT e mask + tpos e mask i)) * 1 + 0)
              (NF.realX e).zero)), []) := by
  have hk1 : (c.kind == "affine") = true := by rw [hk]; decide
  simp only [chanEl, couplingEl, hk1, if_true, Bool.false_eq_true, if_false, scaleShiftT, Except.map]
  rfl

theorem chanEl_affine_inv_aux (e : Float → ℝ) (c : ElCfg) (hk : c.kind = "affine") (mask : List ℝ) (params : Array ℝ)
    (b : Nat) (i : Fin mask.length) (s : ℝ) :
    chanEl (NF.realX e) c mask params b i true s
      = .ok ((s - params.getD ((b * (2 * nT e mask) + tpos e mask i) * 1 + 0) (NF.realX e).zero)
              / affScale e c.act (params.getD ((b * (2 * nT e mask) + (nT e mask + tpos e mask i)) * 1 + 0) (NF.realX e).zero),
             -Real.log (affScale e c.act (params.getD ((b * (2 * nT e mask) + (nT e mask + tpos e mask i)) * 1 + 0)
              (NF.realX e).zero)), []) := by
  have hk1 : (c.kind == "affine") = true := by rw [hk]; decide
  simp only [chanEl, couplingEl, hk1, if_true, scaleShiftT, Except.map]
  rfl

/-- the affine element (`AffineCouplingTransform`, coupling.py:215-246) in closed form:
    `s * scale(u[b, Ft + tpos]) + shift[b, tpos]` -/
theorem chanEl_affine (e : Float → ℝ) (c : ElCfg) (hk : c.kind = "affine") (mask : List ℝ) (params : Array ℝ)
    (b : Nat) (i : Fin mask.length) (s : ℝ) :
    chanEl (NF.realX e) c mask params b i false s
      = .ok (s * affScale e c.act (params.getD ((b * (2 * nT e mask) + (nT e mask + tpos e mask i)) * 1 + 0) 0)
              + params.getD ((b * (2 * nT e mask) + tpos e mask i) * 1 + 0) 0,
             Real.log (affScale e c.act (params.getD ((b * (2 * nT e mask) + (nT e mask + tpos e mask i)) * 1 + 0) 0)), []) := by
  have h := chanEl_affine_aux e c hk mask params b i s
  rw [realX_zero] at h
  exact h

/-- … and its inverse pass: `(s - shift) / scale`, log-det `- log scale` -/
theorem chanEl_affine_inv (e : Float → ℝ) (c : ElCfg) (hk : c.kind = "affine") (mask : List ℝ) (params : Array ℝ)
    (b : Nat) (i : Fin mask.length) (s : ℝ) :
    chanEl (NF.realX e) c mask params b i true s
      = .ok ((s - params.getD ((b * (2 * nT e mask) + tpos e mask i) * 1 + 0) 0)
              / affScale e c.act (params.getD ((b * (2 * nT e mask) + (nT e mask + tpos e mask i)) * 1 + 0) 0),
             -Real.log (affScale e c.act (params.getD ((b * (2 * nT e mask) + (nT e mask + tpos e mask i)) * 1 + 0) 0)), []) := by
  have h := chanEl_affine_inv_aux e c hk mask params b i s
  rw [realX_zero] at h
  exact h

/-- additive coupling: the law holds for every parameter array at every real, both directions -/
theorem couplingElMap_additive_hasDerivAt (e : Float → ℝ) (c : ElCfg) (hk : c.kind = "additive") (mask : List ℝ)
    (params : Array ℝ) (inverse : Bool) (b : Nat) (i : Fin mask.length) (x : ℝ) :
    HasDerivAt (couplingElMap e c mask params inverse b i) (Real.exp (couplingElLd e c mask params inverse b i x)) x := by
  cases inverse
  · exact elLaw_of_affine_form one_pos (chanEl_additive e c hk mask params b i) x
  · exact elLaw_of_affine_form_inv one_pos (chanEl_additive_inv e c hk mask params b i) x

/-- affine coupling (both scale activations, both directions): the law holds for every parameter array at every real, as
    soon as the constant `1e-3` is read as a non-negative real -/
theorem couplingElMap_affine_hasDerivAt (e : Float → ℝ) (he : 0 ≤ e 1e-3) (c : ElCfg) (hk : c.kind = "affine")
    (mask : List ℝ) (params : Array ℝ) (inverse : Bool) (b : Nat) (i : Fin mask.length) (x : ℝ) :
    HasDerivAt (couplingElMap e c mask params inverse b i) (Real.exp (couplingElLd e c mask params inverse b i x)) x := by
  cases inverse
  · exact elLaw_of_affine_form (affineScale_pos e he c.act _) (chanEl_affine e c hk mask params b i) x
  · exact elLaw_of_affine_form_inv (affineScale_pos e he c.act _) (chanEl_affine_inv e c hk mask params b i) x

/-- the RQ element with linear tails never raises: the buffer semantics `applyEl` is `outOf` -/
theorem couplingElMap_rq_tails (e : Float → ℝ) (c : ElCfg) (hc : RQTailsCfgValid e c) (mask : List ℝ)
    (params : Array ℝ) (inverse : Bool) (b : Nat) (i : Fin mask.length) :
    couplingElMap e c mask params inverse b i
      = fun z => outOf (NF.realX e) (couplingEl (NF.realX e) c (transformIdx (NF.realX e) mask).length 1 params inverse b
          ((transformIdx (NF.realX e) mask).idxOf i.val) 0 z) := by
  have hk1 : c.kind ≠ "affine" := by rw [hc.hk]; decide
  have hk2 : c.kind ≠ "additive" := by rw [hc.hk]; decide
  funext z
  have hv := rqTailsSliceValid_of_cfg hc (condSlice (NF.realX e) c.mult (transformIdx (NF.realX e) mask).length 1 params b
    ((transformIdx (NF.realX e) mask).idxOf i.val) 0) (by rw [condSlice_length, mult_rq_tails hc.hk hc.ht])
  unfold couplingElMap chanEl applyEl
  rw [couplingEl_spline (NF.realX e) c 1 params inverse hk1 hk2]
  cases inverse
  · rw [(rqTails_el_total e c hc.hk hc.ht _ hv z).1]; rfl
  · rw [(rqTails_el_total e c hc.hk hc.ht _ hv z).2]; rfl

/-- RQ coupling with linear tails: the law holds for every parameter array at EVERY real (knots included), both
    directions -/
theorem couplingElMap_rq_tails_hasDerivAt (e : Float → ℝ) (c : ElCfg) (hc : RQTailsCfgValid e c)
    (hp : TailsWhole.PadExact e (tMD c) (tBe c)) (mask : List ℝ) (params : Array ℝ) (inverse : Bool) (b : Nat)
    (i : Fin mask.length) (x : ℝ) :
    HasDerivAt (couplingElMap e c mask params inverse b i) (Real.exp (couplingElLd e c mask params inverse b i x)) x := by
  rw [couplingElMap_rq_tails e c hc]
  exact couplingEl_rq_tails_hasDerivAt e c hc hp _ 1 params inverse b _ 0 x

/-- **C01, additive coupling, either pass**: `|det J_b| = exp ld[b]` (both are `1`), whatever the conditioner -/
theorem coupling_additive_row_abs_det (e : Float → ℝ) (c : ElCfg) (hk : c.kind = "additive") (mask : List ℝ) (B : Nat)
    (net : Array ℝ → Array ℝ) (inverse : Bool) (x : Array ℝ) (hx : x.size = B * mask.length) {b : Nat} (hb : b < B)
    {L : (Fin mask.length → ℝ) →L[ℝ] (Fin mask.length → ℝ)}
    (hL : HasFDerivAt (couplingRowMap e c mask B net inverse x b) L (rowOf (NF.realX e) mask.length b x)) :
    ∃ l, (couplingRun (NF.realX e) c mask B net inverse x).ld[b]? = some l ∧ |L.det| = Real.exp l :=
  coupling_row_abs_det e c mask B net inverse x hx hb hL
    fun i _ => couplingElMap_additive_hasDerivAt e c hk mask _ inverse b i _

/-- **C01, affine coupling, either pass** -/
theorem coupling_affine_row_abs_det (e : Float → ℝ) (he : 0 ≤ e 1e-3) (c : ElCfg) (hk : c.kind = "affine")
    (mask : List ℝ) (B : Nat) (net : Array ℝ → Array ℝ) (inverse : Bool) (x : Array ℝ) (hx : x.size = B * mask.length)
    {b : Nat} (hb : b < B) {L : (Fin mask.length → ℝ) →L[ℝ] (Fin mask.length → ℝ)}
    (hL : HasFDerivAt (couplingRowMap e c mask B net inverse x b) L (rowOf (NF.realX e) mask.length b x)) :
    ∃ l, (couplingRun (NF.realX e) c mask B net inverse x).ld[b]? = some l ∧ |L.det| = Real.exp l :=
  coupling_row_abs_det e c mask B net inverse x hx hb hL
    fun i _ => couplingElMap_affine_hasDerivAt e he c hk mask _ inverse b i _

/-- **C01, RQ coupling with linear tails** (`PiecewiseRationalQuadraticCouplingTransform(tails='linear')`), either pass,
    at EVERY real input row -/
theorem coupling_rq_tails_row_abs_det (e : Float → ℝ) (c : ElCfg) (hc : RQTailsCfgValid e c)
    (hp : TailsWhole.PadExact e (tMD c) (tBe c)) (mask : List ℝ) (B : Nat) (net : Array ℝ → Array ℝ) (inverse : Bool)
    (x : Array ℝ) (hx : x.size = B * mask.length) {b : Nat} (hb : b < B)
    {L : (Fin mask.length → ℝ) →L[ℝ] (Fin mask.length → ℝ)}
    (hL : HasFDerivAt (couplingRowMap e c mask B net inverse x b) L (rowOf (NF.realX e) mask.length b x)) :
    ∃ l, (couplingRun (NF.realX e) c mask B net inverse x).ld[b]? = some l ∧ |L.det| = Real.exp l :=
  coupling_row_abs_det e c mask B net inverse x hx hb hL
    fun i _ => couplingElMap_rq_tails_hasDerivAt e c hc hp mask _ inverse b i _

/-! ## 6. C02 with the conditioner in the loop: `couplingInverse ∘ couplingForward = id` and the other order -/

/-- the identity split of the OUTPUT of either pass is the identity split of its input: the conditioner is given the
    same array in both directions -/
theorem idSplit_out (e : Float → ℝ) (c : ElCfg) (mask : List ℝ) (B : Nat) (x params uparams : Array ℝ) (inverse : Bool) :
    idSplit (NF.realX e) mask B (couplingApply (NF.realX e) c mask B 1 x params inverse none uparams).out
      = idSplit (NF.realX e) mask B x := by
  unfold idSplit
  rw [← coupling_condIn_eq_gather_out (NF.realX e) c mask B 1 x params inverse uparams (maskDisjoint_real e mask)]
  cases inverse
  · exact coupling_condIn_forward ..
  · exact coupling_condIn_inverse_none ..

/-- additive coupling: the other order of per-element invertibility -/
theorem elInvertibleRev_additive_real (e : Float → ℝ) (c : ElCfg) (hk : c.kind = "additive") (Ft S : Nat)
    (params : Array ℝ) (B : Nat) : ElInvertibleRev (NF.realX e) c Ft S params B := by
  intro b t s xi y l al _ _ _ hf
  have hk1 : (c.kind == "affine") = false := by rw [hk]; decide
  have hk2 : (c.kind == "additive") = true := by rw [hk]; decide
  simp only [couplingEl, hk1, hk2, Bool.false_eq_true, if_false, if_true] at hf ⊢
  cases hft : scaleShiftT (NF.realX e) (NF.realX e).one
      (params.getD ((b * Ft + t) * S + s) (NF.realX e).zero) true xi with
  | error err => rw [hft] at hf; simp [Except.map] at hf
  | ok v =>
    obtain ⟨y', l'⟩ := v
    rw [hft] at hf
    simp only [Except.map, Except.ok.injEq, Prod.mk.injEq] at hf
    obtain ⟨rfl, rfl, rfl⟩ := hf
    rw [scaleShiftT_real_invertible_rev e _ _ xi (by simp) hft]
    exact ⟨[], rfl⟩

/-- affine coupling: the other order of per-element invertibility -/
theorem elInvertibleRev_affine_real (e : Float → ℝ) (he : 0 ≤ e 1e-3) (c : ElCfg) (hk : c.kind = "affine") (Ft S : Nat)
    (params : Array ℝ) (B : Nat) : ElInvertibleRev (NF.realX e) c Ft S params B := by
  intro b t s xi y l al _ _ _ hf
  have hk1 : (c.kind == "affine") = true := by rw [hk]; decide
  simp only [couplingEl, hk1, if_true] at hf ⊢
  have hpos := affineScale_pos e he c.act
    (params.getD ((b * (2 * Ft) + (Ft + t)) * S + s) (NF.realX e).zero)
  generalize (if c.act == "general" then
          (NF.realX e).clamp (NF.realX e).zero ((NF.realX e).ofNat 3)
            ((NF.realX e).add ((NF.realX e).softplus (params.getD ((b * (2 * Ft) + (Ft + t)) * S + s) (NF.realX e).zero))
              ((NF.realX e).ofFloat 1e-3))
         else (NF.realX e).add ((NF.realX e).sigmoid ((NF.realX e).add
            (params.getD ((b * (2 * Ft) + (Ft + t)) * S + s) (NF.realX e).zero) (NF.realX e).two))
            ((NF.realX e).ofFloat 1e-3)) = scale at hf hpos ⊢
  cases hft : scaleShiftT (NF.realX e) scale
      (params.getD ((b * (2 * Ft) + t) * S + s) (NF.realX e).zero) true xi with
  | error err => rw [hft] at hf; simp [Except.map] at hf
  | ok v =>
    obtain ⟨y', l'⟩ := v
    rw [hft] at hf
    simp only [Except.map, Except.ok.injEq, Prod.mk.injEq] at hf
    obtain ⟨rfl, rfl, rfl⟩ := hf
    rw [scaleShiftT_real_invertible_rev e _ _ xi hpos.ne' hft]
    exact ⟨[], rfl⟩

/-- **what the layer theorems need of an element family** (2-D inputs): both orders of per-element invertibility, no
    element ever raises, the per-element derivative law at every real — for EVERY parameter array -/
structure CouplingFamily (e : Float → ℝ) (c : ElCfg) : Prop where
  inv : ∀ (Ft : Nat) (params : Array ℝ) (B : Nat), ElInvertible (NF.realX e) c Ft 1 params B
  invRev : ∀ (Ft : Nat) (params : Array ℝ) (B : Nat), ElInvertibleRev (NF.realX e) c Ft 1 params B
  ok : ∀ (mask : List ℝ) (B : Nat) (x params uparams : Array ℝ) (inverse : Bool),
    (couplingApply (NF.realX e) c mask B 1 x params inverse none uparams).err = none
  law : ∀ (mask : List ℝ) (params : Array ℝ) (inverse : Bool) (b : Nat) (i : Fin mask.length) (x : ℝ),
    HasDerivAt (couplingElMap e c mask params inverse b i) (Real.exp (couplingElLd e c mask params inverse b i x)) x

/-- `PiecewiseRationalQuadraticCouplingTransform(tails='linear')` -/
theorem rqTailsFamily {e : Float → ℝ} {c : ElCfg} (hc : RQTailsCfgValid e c)
    (hp : TailsWhole.PadExact e (tMD c) (tBe c)) : CouplingFamily e c where
  inv := fun Ft params B => elInvertible_rq_tails_real e c hc Ft 1 params B
  invRev := fun Ft params B => elInvertibleRev_rq_tails_real e c hc Ft 1 params B
  ok := fun mask B x params uparams inverse => coupling_rq_tails_err_none e c hc mask B 1 x params uparams inverse
  law := fun mask params inverse b i x => couplingElMap_rq_tails_hasDerivAt e c hc hp mask params inverse b i x

/-- `AdditiveCouplingTransform` (NICE): no hypothesis -/
theorem additiveFamily (e : Float → ℝ) {c : ElCfg} (hk : c.kind = "additive") : CouplingFamily e c where
  inv := fun Ft params B => elInvertible_additive_real e c hk Ft 1 params B
  invRev := fun Ft params B => elInvertibleRev_additive_real e c hk Ft 1 params B
  ok := fun mask B x params uparams inverse => coupling_additive_err_none (NF.realX e) c hk mask B 1 x params uparams inverse
  law := fun mask params inverse b i x => couplingElMap_additive_hasDerivAt e c hk mask params inverse b i x

/-- `AffineCouplingTransform` (RealNVP), both scale activations: `1e-3` read as a non-negative real -/
theorem affineFamily {e : Float → ℝ} (he : 0 ≤ e 1e-3) {c : ElCfg} (hk : c.kind = "affine") : CouplingFamily e c where
  inv := fun Ft params B => elInvertible_affine_real e he c hk Ft 1 params B
  invRev := fun Ft params B => elInvertibleRev_affine_real e he c hk Ft 1 params B
  ok := fun mask B x params uparams inverse => coupling_affine_err_none (NF.realX e) c hk mask B 1 x params uparams inverse
  law := fun mask params inverse b i x => couplingElMap_affine_hasDerivAt e he c hk mask params inverse b i x

/-- **C02 (executed coupling layer, the conditioner RE-RUN by the inverse pass)**: for ANY conditioner `net`, `B`, mask
    and real `[B, C]` input, `inverse(forward(x)) = x`, nothing raises, the log-dets are negated — the inverse pass
    recomputes the parameters from its own input and gets the same ones -/
theorem coupling_net_roundtrip {e : Float → ℝ} {c : ElCfg} (fam : CouplingFamily e c) (mask : List ℝ) (B : Nat)
    (net : Array ℝ → Array ℝ) (x : Array ℝ) (hsz : B * mask.length ≤ x.size) :
    let fwd := couplingForward (NF.realX e) c mask B net x
    let inv := couplingInverse (NF.realX e) c mask B net fwd.out
    fwd.err = none ∧ inv.err = none ∧ inv.out = x ∧ ∀ b, b < B → inv.ld[b]? = (fwd.ld[b]?).map (fun l => -l) := by
  intro fwd inv
  have h := coupling_inverse_forward_real e c mask B 1 x (net (idSplit (NF.realX e) mask B x)) #[] #[]
    (fam.inv _ _ _) (fam.ok mask B x _ #[] false) (by rw [Nat.mul_one]; exact hsz)
  have hinv : inv = couplingApply (NF.realX e) c mask B 1 fwd.out (net (idSplit (NF.realX e) mask B x)) true := by
    show couplingApply (NF.realX e) c mask B 1 fwd.out (net (idSplit (NF.realX e) mask B fwd.out)) true = _
    rw [show idSplit (NF.realX e) mask B fwd.out = idSplit (NF.realX e) mask B x from idSplit_out e c mask B x _ _ false]
  rw [hinv]
  exact ⟨fam.ok mask B x _ #[] false, h.2.1, h.1, h.2.2.2⟩

/-- the other order: `forward(inverse(y)) = y` -/
theorem coupling_net_roundtrip_rev {e : Float → ℝ} {c : ElCfg} (fam : CouplingFamily e c) (mask : List ℝ)
    (B : Nat) (net : Array ℝ → Array ℝ) (y : Array ℝ) (hsz : B * mask.length ≤ y.size) :
    let inv := couplingInverse (NF.realX e) c mask B net y
    let fwd := couplingForward (NF.realX e) c mask B net inv.out
    inv.err = none ∧ fwd.err = none ∧ fwd.out = y ∧ ∀ b, b < B → fwd.ld[b]? = (inv.ld[b]?).map (fun l => -l) := by
  intro inv fwd
  have h := coupling_forward_inverse_real e c mask B 1 y (net (idSplit (NF.realX e) mask B y)) #[] #[]
    (fam.invRev _ _ _) (fam.ok mask B y _ #[] true) (by rw [Nat.mul_one]; exact hsz)
  have hfwd : fwd = couplingApply (NF.realX e) c mask B 1 inv.out (net (idSplit (NF.realX e) mask B y)) false := by
    show couplingApply (NF.realX e) c mask B 1 inv.out (net (idSplit (NF.realX e) mask B inv.out)) false = _
    rw [show idSplit (NF.realX e) mask B inv.out = idSplit (NF.realX e) mask B y from idSplit_out e c mask B y _ _ true]
  rw [hfwd]
  exact ⟨fam.ok mask B y _ #[] true, h.2.1, h.1, h.2.2.2⟩

/-- **C02, `PiecewiseRationalQuadraticCouplingTransform(tails='linear')` with its conditioner**: both orders -/
theorem coupling_net_rq_tails_roundtrip (e : Float → ℝ) (c : ElCfg) (hc : RQTailsCfgValid e c)
    (hp : TailsWhole.PadExact e (tMD c) (tBe c)) (mask : List ℝ) (B : Nat)
    (net : Array ℝ → Array ℝ) (x : Array ℝ) (hsz : B * mask.length ≤ x.size) :
    (let fwd := couplingForward (NF.realX e) c mask B net x
     let inv := couplingInverse (NF.realX e) c mask B net fwd.out
     fwd.err = none ∧ inv.err = none ∧ inv.out = x ∧ ∀ b, b < B → inv.ld[b]? = (fwd.ld[b]?).map (fun l => -l))
    ∧ (let inv := couplingInverse (NF.realX e) c mask B net x
       let fwd := couplingForward (NF.realX e) c mask B net inv.out
       inv.err = none ∧ fwd.err = none ∧ fwd.out = x ∧ ∀ b, b < B → fwd.ld[b]? = (inv.ld[b]?).map (fun l => -l)) :=
  ⟨coupling_net_roundtrip (rqTailsFamily hc hp) mask B net x hsz,
   coupling_net_roundtrip_rev (rqTailsFamily hc hp) mask B net x hsz⟩

/-! ## 7. C03: the executed coupling layer as an n-D part -/

section part
variable (e : Float → ℝ) (c : ElCfg) (mask : List ℝ) (net : Array ℝ → Array ℝ) (C : ℕ)

/-- the row map of the EXECUTED forward pass on a one-row batch -/
noncomputable def couplingRowT (v : Fin C → ℝ) : Fin C → ℝ :=
  fun i => (couplingForward (NF.realX e) c mask 1 net (Array.ofFn v)).out.getD i 0

/-- the log-abs-det the executed forward pass returns for that row -/
noncomputable def couplingRowLd (v : Fin C → ℝ) : ℝ :=
  (couplingForward (NF.realX e) c mask 1 net (Array.ofFn v)).ld.getD 0 0

/-- the row map of the EXECUTED inverse pass on a one-row batch -/
noncomputable def couplingRowInv (y : Fin C → ℝ) : Fin C → ℝ :=
  fun i => (couplingInverse (NF.realX e) c mask 1 net (Array.ofFn y)).out.getD i 0

theorem couplingRowMap_one (x : Array ℝ) :
    couplingRowMap e c mask 1 net false x 0 = couplingRowT e c mask net mask.length := by
  funext w i
  simp [couplingRowMap, couplingRowT, couplingRun_false, FlowWholeND.setRow_one, rowOf, flatIdx]

theorem couplingRowMap_one_inv (x : Array ℝ) :
    couplingRowMap e c mask 1 net true x 0 = couplingRowInv e c mask net mask.length := by
  funext w i
  simp [couplingRowMap, couplingRowInv, couplingRun_true, FlowWholeND.setRow_one, rowOf, flatIdx]

theorem rowOf_ofFn (v : Fin C → ℝ) : rowOf (NF.realX e) C 0 (Array.ofFn v) = v := by
  funext i
  simp [rowOf, flatIdx]

theorem couplingForward_out_ofFn (v : Fin C → ℝ) :
    (couplingForward (NF.realX e) c mask 1 net (Array.ofFn v)).out = Array.ofFn (couplingRowT e c mask net C v) := by
  unfold couplingRowT
  rw [FlowWholeND.ofFn_getD]
  simp [couplingForward]

theorem couplingInverse_out_ofFn (y : Fin C → ℝ) :
    (couplingInverse (NF.realX e) c mask 1 net (Array.ofFn y)).out = Array.ofFn (couplingRowInv e c mask net C y) := by
  unfold couplingRowInv
  rw [FlowWholeND.ofFn_getD]
  simp [couplingInverse]

/-- the hypotheses: the mask has `C` entries, an element family accepted by the layer theorems (`rqTailsFamily`,
    `additiveFamily`, `affineFamily`), and — explicitly — differentiability of the row map (the conditioner is an
    arbitrary function) -/
structure CouplingRowHyp : Prop where
  hm : mask.length = C
  fam : CouplingFamily e c
  hdiff : Differentiable ℝ (couplingRowT e c mask net C)

variable {e c mask net C}

/-- the row map channel by channel -/
theorem couplingRowT_apply (hm : mask.length = C) (v : Fin C → ℝ) (i : Fin C) :
    couplingRowT e c mask net C v i
      = if isT (NF.realX e) mask (i.cast hm.symm) then
          couplingElMap e c mask (net (idSplit (NF.realX e) mask 1 (Array.ofFn v))) false 0 (i.cast hm.symm) (v i)
        else v i := by
  subst hm
  rw [← couplingRowMap_one e c mask net #[], couplingRowMap_apply e c mask 1 net false #[] (by omega) v i,
    FlowWholeND.setRow_one]
  rfl

theorem couplingRowInv_T (hm : mask.length = C) (fam : CouplingFamily e c) (v : Fin C → ℝ) :
    couplingRowInv e c mask net C (couplingRowT e c mask net C v) = v := by
  have h := (coupling_net_roundtrip fam mask 1 net (Array.ofFn v) (by simp [hm])).2.2.1
  rw [couplingForward_out_ofFn, couplingInverse_out_ofFn] at h
  exact FlowWholeND.ofFn_inj h

theorem couplingRowT_Inv (hm : mask.length = C) (fam : CouplingFamily e c) (y : Fin C → ℝ) :
    couplingRowT e c mask net C (couplingRowInv e c mask net C y) = y := by
  have h := (coupling_net_roundtrip_rev fam mask 1 net (Array.ofFn y) (by simp [hm])).2.2.1
  rw [couplingInverse_out_ofFn, couplingForward_out_ofFn] at h
  exact FlowWholeND.ofFn_inj h

theorem couplingRow_bijective (h : CouplingRowHyp e c mask net C) : Function.Bijective (couplingRowT e c mask net C) :=
  Function.bijective_iff_has_inverse.2
    ⟨couplingRowInv e c mask net C, couplingRowInv_T h.hm h.fam, couplingRowT_Inv h.hm h.fam⟩

theorem couplingRow_abs_det (h : CouplingRowHyp e c mask net C) (v : Fin C → ℝ) :
    |(fderiv ℝ (couplingRowT e c mask net C) v).det| = Real.exp (couplingRowLd e c mask net C v) := by
  obtain ⟨hm, fam, hdiff⟩ := h
  subst hm
  have hL : HasFDerivAt (couplingRowMap e c mask 1 net false (Array.ofFn v) 0) (fderiv ℝ (couplingRowT e c mask net _) v)
      (rowOf (NF.realX e) mask.length 0 (Array.ofFn v)) := by
    rw [couplingRowMap_one, rowOf_ofFn]
    exact (hdiff v).hasFDerivAt
  obtain ⟨l, hl, hdet⟩ := coupling_row_abs_det e c mask 1 net false (Array.ofFn v) (by simp) (b := 0)
    (by omega) hL (fun i _ => fam.law mask _ false 0 i _)
  rw [couplingRun_false] at hl
  rw [hdet, couplingRowLd, List.getD_eq_getElem?_getD, hl]
  rfl

/-- the same for the executed INVERSE pass (the map `sample` runs): wherever its row map is differentiable, the
    log-abs-det it returns is `log |det|` of its Jacobian -/
theorem couplingRowInv_abs_det (hm : mask.length = C) (fam : CouplingFamily e c) (y : Fin C → ℝ)
    (hdiff : DifferentiableAt ℝ (couplingRowInv e c mask net C) y) :
    |(fderiv ℝ (couplingRowInv e c mask net C) y).det|
      = Real.exp ((couplingInverse (NF.realX e) c mask 1 net (Array.ofFn y)).ld.getD 0 0) := by
  subst hm
  have hL : HasFDerivAt (couplingRowMap e c mask 1 net true (Array.ofFn y) 0) (fderiv ℝ (couplingRowInv e c mask net _) y)
      (rowOf (NF.realX e) mask.length 0 (Array.ofFn y)) := by
    rw [couplingRowMap_one_inv, rowOf_ofFn]
    exact hdiff.hasFDerivAt
  obtain ⟨l, hl, hdet⟩ := coupling_row_abs_det e c mask 1 net true (Array.ofFn y) (by simp) (b := 0)
    (by omega) hL (fun i _ => fam.law mask _ true 0 i _)
  rw [couplingRun_true] at hl
  rw [hdet, List.getD_eq_getElem?_getD, hl]
  rfl

/-- **the executed coupling layer (RQ with linear tails / additive / affine; any mask, any conditioner) as an n-D part**,
    under `CouplingRowHyp`: a bijection of `ℝ^C` whose inverse is the executed inverse pass, with `|det J| = exp ld` -/
noncomputable def couplingRowDiffeo (h : CouplingRowHyp e c mask net C) : DiffeoN C where
  T := couplingRowT e c mask net C
  T' := fun v => fderiv ℝ (couplingRowT e c mask net C) v
  ld := couplingRowLd e c mask net C
  bij := couplingRow_bijective h
  deriv := fun v => (h.hdiff v).hasFDerivAt
  ld_eq := couplingRow_abs_det h

/-- **`CouplingRowHyp` is satisfiable**: for a conditioner that ignores its input (any constant parameter array — e.g. a
    network whose last layer has zero weights, arbitrary biases) the row map is differentiable everywhere, so the
    hypothesis holds for every accepted family and ANY mask -/
theorem couplingRowHyp_const_net (hm : mask.length = C) (fam : CouplingFamily e c) (params : Array ℝ) :
    CouplingRowHyp e c mask (fun _ => params) C := by
  refine ⟨hm, fam, ?_⟩
  rw [differentiable_pi]
  intro i
  have hfun : (fun v => couplingRowT e c mask (fun _ => params) C v i)
      = fun v => if isT (NF.realX e) mask (i.cast hm.symm) then couplingElMap e c mask params false 0 (i.cast hm.symm) (v i)
          else v i := by
    funext v
    exact couplingRowT_apply hm v i
  rw [hfun]
  cases hi : isT (NF.realX e) mask (i.cast hm.symm) with
  | false => simpa using differentiable_apply i
  | true =>
    simp only [if_true]
    have h1 : Differentiable ℝ (couplingElMap e c mask params false 0 (i.cast hm.symm)) :=
      fun s => (fam.law mask params false 0 (i.cast hm.symm) s).differentiableAt
    exact h1.comp (differentiable_apply i)

/-! ### `CouplingRowHyp` with a NON-constant conditioner: affine conditioners, additive / affine coupling -/

/-- `net z = A z + β`: every output entry is an affine function of the first `n` input entries (any output shape) -/
def AffineNet (n : ℕ) (net : Array ℝ → Array ℝ) : Prop :=
  ∃ (A : ℕ → ℕ → ℝ) (β : ℕ → ℝ), ∀ (z : Array ℝ) (k : ℕ),
    (net z).getD k 0 = (∑ j ∈ Finset.range n, A k j * z.getD j 0) + β k

/-- the concrete affine conditioner with weight matrix `A : m × n` and bias `β : m` -/
theorem affineNet_ofFn (m n : ℕ) (A : Fin m → ℕ → ℝ) (β : Fin m → ℝ) :
    AffineNet n (fun z => Array.ofFn fun k : Fin m => (∑ j ∈ Finset.range n, A k j * z.getD j 0) + β k) := by
  refine ⟨fun k j => if h : k < m then A ⟨k, h⟩ j else 0, fun k => if h : k < m then β ⟨k, h⟩ else 0, ?_⟩
  intro z k
  by_cases hk : k < m
  · simp [Array.getD, hk]
  · simp [Array.getD, hk]

theorem ofFn_getD_differentiable (k : ℕ) : Differentiable ℝ fun v : Fin C → ℝ => (Array.ofFn v).getD k 0 := by
  by_cases hk : k < C
  · have h : (fun v : Fin C → ℝ => (Array.ofFn v).getD k 0) = fun v => v ⟨k, hk⟩ := by
      funext v; simp [Array.getD, hk]
    rw [h]; exact differentiable_apply _
  · have h : (fun v : Fin C → ℝ => (Array.ofFn v).getD k 0) = fun _ => 0 := by
      funext v; simp [Array.getD, hk]
    rw [h]; exact differentiable_const _

theorem listArray_getD_differentiable (l : List ℕ) (g : ℕ → (Fin C → ℝ) → ℝ) (hg : ∀ ch, Differentiable ℝ (g ch))
    (j : ℕ) : Differentiable ℝ fun v => ((l.map fun ch => g ch v).toArray).getD j 0 := by
  by_cases hj : j < l.length
  · have h : (fun v => ((l.map fun ch => g ch v).toArray).getD j 0) = g l[j] := by
      funext v; simp [Array.getD, hj]
    rw [h]; exact hg _
  · have h : (fun v => ((l.map fun ch => g ch v).toArray).getD j 0) = fun _ => 0 := by
      funext v; simp [Array.getD, hj]
    rw [h]; exact differentiable_const _

/-- every entry of the identity split of a one-row batch is a differentiable (linear) function of the row -/
theorem idSplit_entry_differentiable (e : Float → ℝ) (mask : List ℝ) (C j : ℕ) :
    Differentiable ℝ fun v : Fin C → ℝ => (idSplit (NF.realX e) mask 1 (Array.ofFn v)).getD j 0 := by
  have h : ∀ x : Array ℝ, idSplit (NF.realX e) mask 1 x
      = ((identityIdx (NF.realX e) mask).map fun ch => x.getD (flatIdx mask.length 1 0 ch 0) 0).toArray := by
    intro x
    unfold idSplit gatherCh
    simp only [List.range_one, List.map_cons, List.map_nil, List.flatMap_cons, List.flatMap_nil, List.append_nil,
      realX_zero]
    rw [flatMap_singleton_fn]
  simp only [h]
  exact listArray_getD_differentiable _ (fun ch v => (Array.ofFn v).getD (flatIdx mask.length 1 0 ch 0) 0)
    (fun ch => ofFn_getD_differentiable _) j

/-- the conditioner, run on the identity split of a one-row batch, is entry-wise differentiable in the row (networks with
    smooth activations; affine conditioners: `affineNet_diffNet`) -/
def DiffNet (e : Float → ℝ) (mask : List ℝ) (C : ℕ) (net : Array ℝ → Array ℝ) : Prop :=
  ∀ k, Differentiable ℝ fun v : Fin C → ℝ => (net (idSplit (NF.realX e) mask 1 (Array.ofFn v))).getD k 0

/-- every entry of the output of an affine conditioner run on the identity split is differentiable in the row -/
theorem affineNet_diffNet (e : Float → ℝ) (mask : List ℝ) (C : ℕ) {n : ℕ} {net : Array ℝ → Array ℝ}
    (hnet : AffineNet n net) : DiffNet e mask C net := by
  intro k
  obtain ⟨A, β, h⟩ := hnet
  simp only [h]
  exact (Differentiable.fun_sum fun j _ => (idSplit_entry_differentiable e mask C j).const_mul (A k j)).add
    (differentiable_const _)

/-- a constant conditioner is `DiffNet` -/
theorem constNet_diffNet (e : Float → ℝ) (mask : List ℝ) (C : ℕ) (params : Array ℝ) :
    DiffNet e mask C (fun _ => params) := fun _ => differentiable_const _

/-- **`CouplingRowHyp` holds for the executed ADDITIVE coupling layer (NICE) with ANY entry-wise differentiable
    conditioner**, any mask: the differentiability of the row map is reduced to that of the conditioner -/
theorem couplingRowHyp_additive_diffNet (e : Float → ℝ) {c : ElCfg} (hk : c.kind = "additive") {mask : List ℝ}
    {C : ℕ} (hm : mask.length = C) {net : Array ℝ → Array ℝ} (hnet : DiffNet e mask C net) :
    CouplingRowHyp e c mask net C := by
  refine ⟨hm, additiveFamily e hk, ?_⟩
  rw [differentiable_pi]
  intro i
  have hfun : (fun v => couplingRowT e c mask net C v i)
      = fun v => if isT (NF.realX e) mask (i.cast hm.symm) then
          couplingElMap e c mask (net (idSplit (NF.realX e) mask 1 (Array.ofFn v))) false 0 (i.cast hm.symm) (v i)
          else v i := by
    funext v
    exact couplingRowT_apply hm v i
  rw [hfun]
  cases hi : isT (NF.realX e) mask (i.cast hm.symm) with
  | false => simpa using differentiable_apply i
  | true =>
    simp only [if_true, couplingElMap, applyEl, chanEl_additive e c hk]
    exact ((differentiable_apply i).mul_const 1).add (hnet _)

/-- … in particular with ANY affine conditioner: no differentiability hypothesis is left -/
theorem couplingRowHyp_additive_affineNet (e : Float → ℝ) {c : ElCfg} (hk : c.kind = "additive") {mask : List ℝ}
    {C : ℕ} (hm : mask.length = C) {n : ℕ} {net : Array ℝ → Array ℝ} (hnet : AffineNet n net) :
    CouplingRowHyp e c mask net C :=
  couplingRowHyp_additive_diffNet e hk hm (affineNet_diffNet e mask C hnet)

/-- the scale `sigmoid(u + 2) + 1e-3` of the default activation is a differentiable function of `u` -/
theorem affScale_differentiable (e : Float → ℝ) {act : String} (hact : (act == "general") = false) :
    Differentiable ℝ (affScale e act) := by
  have h : affScale e act = fun u => 1 / (1 + Real.exp (-(u + 2))) + e 1e-3 := by
    funext u
    simp [affScale, hact, realX_sigmoid]
  rw [h]
  have hne : ∀ u : ℝ, 1 + Real.exp (-(u + 2)) ≠ 0 := fun u => by positivity
  exact ((differentiable_const (1 : ℝ)).div
    ((differentiable_const (1 : ℝ)).add (Real.differentiable_exp.comp ((differentiable_id.add_const 2).neg))) hne).add_const _

/-- **`CouplingRowHyp` holds for the executed AFFINE coupling layer (RealNVP, default scale activation) with ANY
    entry-wise differentiable conditioner**, any mask -/
theorem couplingRowHyp_affine_diffNet {e : Float → ℝ} (he : 0 ≤ e 1e-3) {c : ElCfg} (hk : c.kind = "affine")
    (hact : (c.act == "general") = false) {mask : List ℝ} {C : ℕ} (hm : mask.length = C)
    {net : Array ℝ → Array ℝ} (hnet : DiffNet e mask C net) :
    CouplingRowHyp e c mask net C := by
  refine ⟨hm, affineFamily he hk, ?_⟩
  rw [differentiable_pi]
  intro i
  have hfun : (fun v => couplingRowT e c mask net C v i)
      = fun v => if isT (NF.realX e) mask (i.cast hm.symm) then
          couplingElMap e c mask (net (idSplit (NF.realX e) mask 1 (Array.ofFn v))) false 0 (i.cast hm.symm) (v i)
          else v i := by
    funext v
    exact couplingRowT_apply hm v i
  rw [hfun]
  cases hi : isT (NF.realX e) mask (i.cast hm.symm) with
  | false => simpa using differentiable_apply i
  | true =>
    simp only [if_true, couplingElMap, applyEl, chanEl_affine e c hk]
    exact ((differentiable_apply i).mul ((affScale_differentiable e hact).comp (hnet _))).add (hnet _)

/-- … in particular with ANY affine conditioner -/
theorem couplingRowHyp_affine_affineNet {e : Float → ℝ} (he : 0 ≤ e 1e-3) {c : ElCfg} (hk : c.kind = "affine")
    (hact : (c.act == "general") = false) {mask : List ℝ} {C : ℕ} (hm : mask.length = C) {n : ℕ}
    {net : Array ℝ → Array ℝ} (hnet : AffineNet n net) :
    CouplingRowHyp e c mask net C :=
  couplingRowHyp_affine_diffNet he hk hact hm (affineNet_diffNet e mask C hnet)

end part

/-! ## 8. End to end: pipelines with coupling layers -/

section pipeline
open FlowWholeND

/-- a layer on `[B, n]` inputs: one of the layers of `FlowWholeND.ExecLayer` (executed RQ-CDF with linear tails,
    permutation, LU / QR / SVD linear, masked-autoregressive RQ) or an executed RQ COUPLING layer with linear tails -/
inductive ExecLayer2 (e : Float → ℝ) (n : ℕ) where
  /-- `PiecewiseRationalQuadraticCDF`, `Permutation`, `LULinear`, `QRLinear`, `SVDLinear`,
      `MaskedPiecewiseRationalQuadraticAutoregressiveTransform` -/
  | base (L : ExecLayer e n)
  /-- `PiecewiseRationalQuadraticCouplingTransform(mask, tails='linear')` with conditioner `net`, under the explicit
      differentiability hypothesis inside `CouplingRowHyp` -/
  | coupling (c : ElCfg) (mask : List ℝ) (net : Array ℝ → Array ℝ) (h : CouplingRowHyp e c mask net n)

variable {e : Float → ℝ}

/-- RUN one layer on the row `v` with the executed programs: `(output row, log-abs-det)` -/
noncomputable def ExecLayer2.run {n : ℕ} : ExecLayer2 e n → (Fin n → ℝ) → (Fin n → ℝ) × ℝ
  | .base L, v => L.run v
  | .coupling c mask net _, v =>
    let r := couplingForward (NF.realX e) c mask 1 net (Array.ofFn v)
    (fun i => r.out.getD i 0, r.ld.getD 0 0)

/-- the n-D part a layer is -/
noncomputable def ExecLayer2.part {n : ℕ} : ExecLayer2 e n → DiffeoN n
  | .base L => L.part
  | .coupling _ _ _ h => couplingRowDiffeo h

/-- **running a layer with the executed programs = applying its part** -/
theorem ExecLayer2.run_eq {n : ℕ} (L : ExecLayer2 e n) (v : Fin n → ℝ) : L.run v = (L.part.T v, L.part.ld v) := by
  cases L with
  | base L => exact ExecLayer.run_eq L v
  | coupling c mask net h => rfl

/-- RUN a list of layers in the order given, accumulating the log-abs-dets (`CompositeTransform._cascade`) -/
noncomputable def runAll2 {n : ℕ} : List (ExecLayer2 e n) → (Fin n → ℝ) → (Fin n → ℝ) × ℝ
  | [], v => (v, 0)
  | L :: rest, v => ((runAll2 rest (L.run v).1).1, (L.run v).2 + (runAll2 rest (L.run v).1).2)

theorem runAll2_eq {n : ℕ} (Ls : List (ExecLayer2 e n)) (v : Fin n → ℝ) :
    runAll2 Ls v = ((progN (Ls.map ExecLayer2.part)).T v, (progN (Ls.map ExecLayer2.part)).ld v) := by
  induction Ls generalizing v with
  | nil => rfl
  | cons L rest ih =>
    simp only [runAll2, List.map_cons, ExecLayer2.run_eq L v, ih]
    rfl

/-- **End to end, n dimensions, WITH coupling layers**: `Flow(CompositeTransform(layers), StandardNormal([n])).log_prob`,
    every layer RUN by its executed program and the base by the executed `stdNormalRow`, is a normalised probability
    density — for every list of executed RQ-CDF (linear tails) / permutation / LU / QR / SVD-linear layers,
    masked-autoregressive RQ layers AND RQ coupling layers (any mask; the last two whenever their row map is
    differentiable), any depth, any `n`, any parameters and conditioners. -/
theorem executed_pipeline2_normalised {n : ℕ} (Ls : List (ExecLayer2 e n)) :
    ∫ x : Fin n → ℝ, Real.exp (NF.Density.stdNormalRow (NF.realX e) n (List.ofFn (runAll2 Ls x).1) + (runAll2 Ls x).2) = 1 := by
  simp_rw [runAll2_eq Ls]
  exact executed_flow_normalised e _

/-- the same over the executed `DiagonalNormal` / `ConditionalDiagonalNormal` row (any means and log-stds of length `n`) -/
theorem executed_pipeline2_normalised_diag {n : ℕ} (means logStds : List ℝ) (hm : means.length = n)
    (hl : logStds.length = n) (Ls : List (ExecLayer2 e n)) :
    ∫ x : Fin n → ℝ, Real.exp (NF.Density.diagNormalRow (NF.realX e) n means logStds (List.ofFn (runAll2 Ls x).1)
        + (runAll2 Ls x).2) = 1 := by
  simp_rw [runAll2_eq Ls]
  exact executed_flow_normalised_cond e means logStds hm hl _

end pipeline

/-! ## 9. Non-vacuity -/

section witness

/-- a coupling configuration: one bin, tail bound 1 -/
def cC1 : ElCfg := { container := "coupling", kind := "rq", tails := true, K := 1, ds := #[1.0, 0.0, 0.0, 0.0, 1.0] }

/-- the hypotheses `RQTailsCfgValid`, `PadExact` are jointly satisfiable at `cC1` (conditional — as
    `NF.ARWhole.pad_cfg_example` — on the seven `Float` comparisons an evaluator confirms: `Float.log` / `Float.exp` are
    opaque to the kernel) -/
theorem pad_cfg_example_coupling (hk : (TailsWhole.kP == TailsWhole.kP) = true)
    (h0 : ((0.0:Float) == TailsWhole.kP) = false) (h1 : ((1.0:Float) == TailsWhole.kP) = false)
    (hm1 : ((-(1.0:Float)) == TailsWhole.kP) = false) (h2 : (((1.0:Float) - (-(1.0:Float))) == TailsWhole.kP) = false)
    (h6 : ((1e-6:Float) == TailsWhole.kP) = false) (hcc : (((1:Float) - 0.0 * (1:Nat).toFloat) == TailsWhole.kP) = false) :
    RQTailsCfgValid TailsWhole.eP cC1 ∧ TailsWhole.PadExact TailsWhole.eP (tMD cC1) (tBe cC1) :=
  ⟨⟨rfl, rfl, by decide, (TailsWhole.pad_example hk h0 h1 hm1 h2 h6 hcc).1⟩,
   (TailsWhole.pad_example hk h0 h1 hm1 h2 h6 hcc).2⟩

/-- `[LU-linear, RQ coupling (mask [0,1]), permutation, RQ coupling (mask [1,0]), RQ-CDF]` over `StandardNormal`, the
    coupling conditioners constant: a normalised density -/
example (hk : (TailsWhole.kP == TailsWhole.kP) = true) (h0 : ((0.0:Float) == TailsWhole.kP) = false)
    (h1 : ((1.0:Float) == TailsWhole.kP) = false) (hm1 : ((-(1.0:Float)) == TailsWhole.kP) = false)
    (h2 : (((1.0:Float) - (-(1.0:Float))) == TailsWhole.kP) = false) (h6 : ((1e-6:Float) == TailsWhole.kP) = false)
    (hcc : (((1:Float) - 0.0 * (1:Nat).toFloat) == TailsWhole.kP) = false) (p1 p2 p3 : Array ℝ) :
    ∃ Ls : List (ExecLayer2 TailsWhole.eP 2), Ls.length = 5 ∧
      ∫ x : Fin 2 → ℝ, Real.exp (NF.Density.stdNormalRow (NF.realX TailsWhole.eP) 2 (List.ofFn (runAll2 Ls x).1)
        + (runAll2 Ls x).2) = 1 := by
  obtain ⟨hc, hp⟩ := pad_cfg_example_coupling hk h0 h1 hm1 h2 h6 hcc
  exact ⟨[.base (.lu [3] [5] [0, 1] [1, -1] (1 / 1000) rfl (by norm_num) rfl),
    .coupling cC1 [0, 1] (fun _ => p1) (couplingRowHyp_const_net rfl (rqTailsFamily hc hp) p1),
    .base (.perm (Equiv.swap 0 1)),
    .coupling cC1 [1, 0] (fun _ => p2) (couplingRowHyp_const_net rfl (rqTailsFamily hc hp) p2),
    .base (.cdf cC1 hc hp p3)], rfl, executed_pipeline2_normalised _⟩

/-- NICE and RealNVP layers with genuinely input-dependent (affine) conditioners `net z = A z + β`, any weights: NO
    hypothesis is left apart from the reading of `1e-3` as a non-negative real -/
example (e : Float → ℝ) (he : 0 ≤ e 1e-3) (A1 : Fin 1 → ℕ → ℝ) (β1 : Fin 1 → ℝ) (A2 : Fin 2 → ℕ → ℝ) (β2 : Fin 2 → ℝ) :
    ∃ Ls : List (ExecLayer2 e 2), Ls.length = 3 ∧
      ∫ x : Fin 2 → ℝ, Real.exp (NF.Density.stdNormalRow (NF.realX e) 2 (List.ofFn (runAll2 Ls x).1)
        + (runAll2 Ls x).2) = 1 :=
  ⟨[.coupling { kind := "additive" } [0, 1] _
      (couplingRowHyp_additive_affineNet e rfl rfl (affineNet_ofFn 1 1 A1 β1)),
    .base (.perm (Equiv.swap 0 1)),
    .coupling { kind := "affine" } [0, 1] _
      (couplingRowHyp_affine_affineNet he rfl (by decide) rfl (affineNet_ofFn 2 1 A2 β2))],
   rfl, executed_pipeline2_normalised _⟩

end witness

end NF.CouplingJacobian
