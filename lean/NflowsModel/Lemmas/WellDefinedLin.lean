import NflowsModel.Lemmas.LinWhole
import Mathlib.Tactic
/-!
# Lemmas/WellDefinedLin — every logarithm / division the EXECUTED piecewise-linear spline forms on an in-domain input
has its operand in the domain of the operation (both directions)

Over ℝ every arithmetic operation is total (`Real.log 0 = 0`, `x / 0 = 0`), so `linSpline (NF.realX e) … = .ok r` alone
does not say that the program stayed inside the domains of `log` and `/`.  This file states and proves exactly that,
operation by operation, for the program text of `Core/Spline.lean` (`linSpline`, lines 241-273) and its helpers.
No square root is formed by `linSpline`.

## Enumeration, forward (`linSpline o box eps up false x`)

| # | where (file:line)               | operation                                   | operand                                  | covered by (`LinFwdWellDefined`)       |
|---|---------------------------------|---------------------------------------------|------------------------------------------|----------------------------------------|
| 1 | Spline:246                      | `o.div (x − left) (ofFloat (right − left))` | `o.ofFloat (box.right − box.left)`       | `norm_divisor` (`0 <`)                 |
| 2 | Spline:248 → Basic:37 `softmaxG`| `o.div e s`                                 | `s = sumG (exp (u − max))` over `up`     | `softmax_divisor` (`0 <`)              |
| 3 | Spline:272                      | `o.log p`, `p = pdf[idx]`                   | the gathered bin mass                    | `gather_p`, `log_arg` (`0 <`), `pdf_pos` |
| 4 | Spline:272                      | `Float.log (1.0 / K.toFloat)` (Float const) | real reading: `1 / K`, divisor `K`       | `logK_divisor`, `logK_arg` (readings)  |
| 5 | Spline:250 → :175 `boxLog`      | `Float.log ((top−bottom)/(right−left))` (Float const) | real reading on `e`            | `boxLog_divisor`, `boxLog_arg` (readings) |

Rows 4 and 5 are Python-side double constants (computed in `Float`, then embedded by `o.ofFloat`): no operation over
`α` is formed; the conjuncts state that the REAL READINGS of their operands are in the domain.  The only other
divisions are the rational literals `o.ofRat n 1` (`o.zero`, `o.one`, `o.ofRat idx 1` at line 268): divisor the literal
`1`.  `cumsumG`, `setLast`, `o.floorInt`, `getI`, `o.clamp` form no `log` / `div`.

## Enumeration, inverse (`linSpline o box eps up true y`)

| # | where (file:line)               | operation                                   | operand                                  | covered by (`LinInvWellDefined`)       |
|---|---------------------------------|---------------------------------------------|------------------------------------------|----------------------------------------|
| 1 | Spline:245                      | `o.div (y − bottom) (ofFloat (top − bottom))` | `o.ofFloat (box.top − box.bottom)`     | `norm_divisor` (`0 <`)                 |
| 2 | Spline:248 → Basic:37 `softmaxG`| `o.div e s`                                 | `s = sumG (exp (u − max))` over `up`     | `softmax_divisor` (`0 <`)              |
| 3 | Spline:253 → :235 `linspace01`  | `o.div o.one (o.ofNat K)`                   | `o.ofNat K`                              | `linspace_divisor` (`0 <`)             |
| 4 | Spline:260                      | `o.div (x' − rc) s`, `s = slopes[idx]`      | the gathered slope `pdf_i · K`           | `gather_s`, `slope_pos` (`0 <`), `slopes_pos` |
| 5 | Spline:261                      | `o.log s`                                   | the same gathered slope                  | `gather_s`, `slope_pos` (`0 <`)        |
| 6 | Spline:250 → :175 `boxLog`      | Float constant                              | real reading on `e`                      | `boxLog_divisor`, `boxLog_arg` (readings) |

No finding: every operand is in its domain on the whole closed box, end-points included, for every parameter vector.
-/
open NF DualSound

namespace NF.WellDefined.Lin
noncomputable section
variable {e : Float → ℝ} {box : Box} {eps : Float} {up : List ℝ}

/-! ### the program's stage-A terms are the `LinWhole` names (all `rfl`) -/

theorem pdf_is_program (up : List ℝ) : LinWhole.pdf e up = softmaxG (NF.realX e) up := rfl
theorem cdf_is_program (up : List ℝ) :
    LinWhole.cdf e up = (NF.realX e).zero :: setLast (cumsumG (NF.realX e) (softmaxG (NF.realX e) up)) (NF.realX e).one := rfl
theorem slp_is_program (up : List ℝ) :
    LinWhole.slp e up = (softmaxG (NF.realX e) up).map (fun p => (NF.realX e).mul p ((NF.realX e).ofNat up.length)) := rfl
/-- the program's softmax IS `es.map (· / s)` with `s` the sum named in `softmax_divisor` -/
theorem softmaxG_shape (u : List ℝ) :
    softmaxG (NF.realX e) u
      = (u.map fun t => (NF.realX e).exp ((NF.realX e).sub t (maxG (NF.realX e) u))).map
          (fun x => (NF.realX e).div x
            (sumG (NF.realX e) (u.map fun t => (NF.realX e).exp ((NF.realX e).sub t (maxG (NF.realX e) u))))) := rfl
/-- the program's `linspace01` IS built from the single quotient `1 / ofNat K` -/
theorem linspace01_shape (K : ℕ) :
    linspace01 (NF.realX e) K
      = (List.range (K + 1)).map (fun i =>
          if i < (K + 1) / 2 then (NF.realX e).mul ((NF.realX e).ofNat i) ((NF.realX e).div (NF.realX e).one ((NF.realX e).ofNat K))
          else (NF.realX e).sub (NF.realX e).one
            ((NF.realX e).mul ((NF.realX e).ofNat (K - i)) ((NF.realX e).div (NF.realX e).one ((NF.realX e).ofNat K)))) := rfl

theorem softmax_divisor_pos (u : List ℝ) (hu : u ≠ []) :
    0 < sumG (NF.realX e) (u.map fun t => (NF.realX e).exp ((NF.realX e).sub t (maxG (NF.realX e) u))) := by
  rw [SplineExec.sumG_eq]
  simp only [NF.realX_exp, NF.realX_sub]
  exact SplineExec.sum_exp_pos u _ hu

/-! ### forward -/

/-- every `log` argument is positive and every divisor is positive on the forward run at `x` -/
structure LinFwdWellDefined (e : Float → ℝ) (box : Box) (eps : Float) (up : List ℝ) (x : ℝ) : Prop where
  /-- row 1: the divisor of the input normalisation -/
  norm_divisor : 0 < (NF.realX e).ofFloat (box.right - box.left)
  /-- the normalised input the program forms is `nx`, in `[0,1]` -/
  norm_eq : (NF.realX e).div ((NF.realX e).sub x ((NF.realX e).ofFloat box.left)) ((NF.realX e).ofFloat (box.right - box.left))
      = LinWhole.nx e box x
  norm_mem : 0 ≤ LinWhole.nx e box x ∧ LinWhole.nx e box x ≤ 1
  /-- row 2: the softmax divisor -/
  softmax_divisor :
    0 < sumG (NF.realX e) (up.map fun t => (NF.realX e).exp ((NF.realX e).sub t (maxG (NF.realX e) up)))
  /-- every bin mass the program could gather is positive -/
  pdf_pos : ∀ p ∈ softmaxG (NF.realX e) up, 0 < p
  /-- the tie to the program: it returns the closed forms of the bin its floor-and-repair index selected -/
  exec : linSpline (NF.realX e) box eps up false x
      = .ok (LinWhole.GF e up (LinWhole.nx e box x) * (e box.top - e box.bottom) + e box.bottom,
             LinWhole.LdF e up (LinWhole.nx e box x) + e (boxLog box))
  idx_lt : LinWhole.idxF up.length (LinWhole.nx e box x) < up.length
  /-- row 3: the index the program forms (`floorInt (x'·K)`, repaired) gathers, from the program's softmax, the mass `p` … -/
  gather_p :
    getI (softmaxG (NF.realX e) up)
        (if (NF.realX e).floorInt ((NF.realX e).mul (LinWhole.nx e box x) ((NF.realX e).ofNat up.length)) ≥ Int.ofNat up.length
          then Int.ofNat up.length - 1
          else (NF.realX e).floorInt ((NF.realX e).mul (LinWhole.nx e box x) ((NF.realX e).ofNat up.length)))
      = .ok (LinWhole.pd e up (LinWhole.idxF up.length (LinWhole.nx e box x)))
  /-- … which is positive: the argument of `o.log p` -/
  log_arg : 0 < LinWhole.pd e up (LinWhole.idxF up.length (LinWhole.nx e box x))
  /-- the returned log-abs-det, unfolded: `log p − np.log(1/K) + boxLog` -/
  ld_unfold : LinWhole.LdF e up (LinWhole.nx e box x) + e (boxLog box)
      = Real.log (LinWhole.pd e up (LinWhole.idxF up.length (LinWhole.nx e box x)))
        - e (Float.log (1.0 / up.length.toFloat)) + e (boxLog box)
  /-- row 4: real reading of the operands of the Float constant `np.log(1/K)` -/
  logK_divisor : (0:ℝ) < (up.length : ℝ)
  logK_arg : (0:ℝ) < 1 / (up.length : ℝ)
  /-- row 5: real reading of the operands of the Float constant `boxLog` -/
  boxLog_divisor : 0 < e box.right - e box.left
  boxLog_arg : 0 < (e box.top - e box.bottom) / (e box.right - e box.left)

theorem lin_forward_well_defined (hv : LinWhole.LinValid e box eps up) (x : ℝ)
    (hx0 : e box.left ≤ x) (hx1 : x ≤ e box.right) : LinFwdWellDefined e box eps up x := by
  obtain ⟨ht0, ht1⟩ := LinWhole.nx_mem hv x hx0 hx1
  have hK0 := LinWhole.K_pos hv.hK
  have hKR := LinWhole.K_posR hv.hK
  obtain ⟨hspec, hidx⟩ := LinWhole.idxF_spec hK0
  obtain ⟨hiK, _, _⟩ := hspec (LinWhole.nx e box x) (by rw [LinWhole.kn_zero]; exact ht0)
    (by rw [LinWhole.kn_last hK0]; exact ht1)
  have hD : 0 < e box.right - e box.left := sub_pos.mpr hv.hlr
  have hDy : 0 < e box.top - e box.bottom := sub_pos.mpr hv.hbt
  exact {
    norm_divisor := by rw [NF.realX_ofFloat, hv.hdlr]; exact hD
    norm_eq := by simp only [NF.realX_div, NF.realX_sub, NF.realX_ofFloat, hv.hdlr]; rfl
    norm_mem := ⟨ht0, ht1⟩
    softmax_divisor := softmax_divisor_pos up hv.hK
    pdf_pos := SplineExec.softmaxG_pos e up
    exec := LinWhole.exec_eq_bin hv x hx0 hx1
    idx_lt := hiK
    gather_p := by
      have hz : (if ⌊LinWhole.nx e box x * (up.length : ℝ)⌋ ≥ Int.ofNat up.length then Int.ofNat up.length - 1
          else ⌊LinWhole.nx e box x * (up.length : ℝ)⌋) = ((LinWhole.idxF up.length (LinWhole.nx e box x) : ℕ) : ℤ) :=
        hidx _ ht0 ht1
      simp only [NF.realX_mul, NF.realX_ofNat, LinWhole.realX_floorInt, hz]
      have h1 : softmaxG (NF.realX e) up = LinWhole.pdf e up := rfl
      rw [h1, SplineTotal.getI_ok (LinWhole.pdf e up) _ (by rw [LinWhole.pdf_length]; exact hiK),
        QuadWhole.getElem_eq_getD]
      rfl
    log_arg := LinWhole.pd_pos up _ hiK
    ld_unfold := rfl
    logK_divisor := hKR
    logK_arg := by positivity
    boxLog_divisor := hD
    boxLog_arg := div_pos hDy hD }

/-! ### inverse -/

/-- every `log` argument is positive and every divisor is positive on the inverse run at `y` -/
structure LinInvWellDefined (e : Float → ℝ) (box : Box) (eps : Float) (up : List ℝ) (y : ℝ) : Prop where
  /-- row 1: the divisor of the input normalisation -/
  norm_divisor : 0 < (NF.realX e).ofFloat (box.top - box.bottom)
  norm_eq : (NF.realX e).div ((NF.realX e).sub y ((NF.realX e).ofFloat box.bottom)) ((NF.realX e).ofFloat (box.top - box.bottom))
      = LinWhole.ny e box y
  norm_mem : 0 ≤ LinWhole.ny e box y ∧ LinWhole.ny e box y ≤ 1
  /-- row 2: the softmax divisor -/
  softmax_divisor :
    0 < sumG (NF.realX e) (up.map fun t => (NF.realX e).exp ((NF.realX e).sub t (maxG (NF.realX e) up)))
  /-- row 3: the divisor of the `linspace` step `1 / K` -/
  linspace_divisor : 0 < (NF.realX e).ofNat up.length
  /-- every slope the program could gather is positive -/
  slopes_pos : ∀ s ∈ (softmaxG (NF.realX e) up).map (fun p => (NF.realX e).mul p ((NF.realX e).ofNat up.length)), 0 < s
  /-- the tie to the program: it returns the closed forms of the bin the EXECUTED search over the cdf knots selected -/
  exec : linSpline (NF.realX e) box eps up true y
      = .ok (LinWhole.GI e eps up (LinWhole.ny e box y) * (e box.right - e box.left) + e box.left,
             LinWhole.LdI e eps up (LinWhole.ny e box y) - e (boxLog box))
  idx_lt : LinWhole.idxI e eps up (LinWhole.ny e box y) < up.length
  /-- rows 4, 5: the executed search, on the program's cdf knots, gathers from the program's slopes the value `pdf_i·K` … -/
  gather_s :
    getI ((softmaxG (NF.realX e) up).map (fun p => (NF.realX e).mul p ((NF.realX e).ofNat up.length)))
        (searchsortedG (NF.realX e) eps
          ((NF.realX e).zero :: setLast (cumsumG (NF.realX e) (softmaxG (NF.realX e) up)) (NF.realX e).one)
          (LinWhole.ny e box y))
      = .ok (LinWhole.pd e up (LinWhole.idxI e eps up (LinWhole.ny e box y)) * (up.length : ℝ))
  /-- … which is positive: the divisor of `(x' − rc) / s` and the argument of `o.log s` -/
  slope_pos : 0 < LinWhole.pd e up (LinWhole.idxI e eps up (LinWhole.ny e box y)) * (up.length : ℝ)
  /-- the returned value and log-abs-det, unfolded: the quotient by, and the logarithm of, that same slope -/
  val_unfold : LinWhole.GI e eps up (LinWhole.ny e box y)
      = LinWhole.kn up.length (LinWhole.idxI e eps up (LinWhole.ny e box y) + 1)
        + (LinWhole.ny e box y - LinWhole.cd e up (LinWhole.idxI e eps up (LinWhole.ny e box y) + 1))
          / (LinWhole.pd e up (LinWhole.idxI e eps up (LinWhole.ny e box y)) * (up.length : ℝ))
  ld_unfold : LinWhole.LdI e eps up (LinWhole.ny e box y) - e (boxLog box)
      = - Real.log (LinWhole.pd e up (LinWhole.idxI e eps up (LinWhole.ny e box y)) * (up.length : ℝ)) - e (boxLog box)
  /-- row 6: real reading of the operands of the Float constant `boxLog` -/
  boxLog_divisor : 0 < e box.right - e box.left
  boxLog_arg : 0 < (e box.top - e box.bottom) / (e box.right - e box.left)

theorem lin_inverse_well_defined (hv : LinWhole.LinValid e box eps up) (y : ℝ)
    (hy0 : e box.bottom ≤ y) (hy1 : y ≤ e box.top) : LinInvWellDefined e box eps up y := by
  obtain ⟨hs0, hs1⟩ := LinWhole.ny_mem hv y hy0 hy1
  have hKR := LinWhole.K_posR hv.hK
  obtain ⟨_, hsearch⟩ := LinWhole.search_specI hv
  obtain ⟨hiK, _, _, _⟩ := LinWhole.selI hv _ hs0 hs1
  have hD : 0 < e box.right - e box.left := sub_pos.mpr hv.hlr
  have hDy : 0 < e box.top - e box.bottom := sub_pos.mpr hv.hbt
  have hp := LinWhole.pd_pos (e := e) up _ hiK
  exact {
    norm_divisor := by rw [NF.realX_ofFloat, hv.hdbt]; exact hDy
    norm_eq := by simp only [NF.realX_div, NF.realX_sub, NF.realX_ofFloat, hv.hdbt]; rfl
    norm_mem := ⟨hs0, hs1⟩
    softmax_divisor := softmax_divisor_pos up hv.hK
    linspace_divisor := by rw [NF.realX_ofNat]; exact hKR
    slopes_pos := by
      intro s hs
      simp only [List.mem_map] at hs
      obtain ⟨p, hp, rfl⟩ := hs
      rw [NF.realX_mul, NF.realX_ofNat]
      exact mul_pos (SplineExec.softmaxG_pos e up p hp) hKR
    exec := LinWhole.inv_exec_eq_bin hv y hy0 hy1
    idx_lt := hiK
    gather_s := by
      have h2 : (NF.realX e).zero :: setLast (cumsumG (NF.realX e) (softmaxG (NF.realX e) up)) (NF.realX e).one
          = LinWhole.cdf e up := rfl
      have h4 : (softmaxG (NF.realX e) up).map (fun p => (NF.realX e).mul p ((NF.realX e).ofNat up.length))
          = LinWhole.slp e up := rfl
      rw [h2, h4, hsearch _ hs0 hs1,
        SplineTotal.getI_ok (LinWhole.slp e up) _ (by rw [LinWhole.slp_length]; exact hiK),
        QuadWhole.getElem_eq_getD, LinWhole.slp_getD _ hiK]
    slope_pos := mul_pos hp hKR
    val_unfold := rfl
    ld_unfold := rfl
    boxLog_divisor := hD
    boxLog_arg := div_pos hDy hD }

/-! ### non-vacuity: the bundles are inhabited at the concrete accepted configuration `LinWhole.valid_example` -/

private theorem b0 : ((0.0:Float) == 0.0) = true := by decide +kernel
private theorem b1 : ((1.0:Float) == 0.0) = false := by decide +kernel

example : LinFwdWellDefined RQWhole.eNV ⟨0.0, 1.0, 0.0, 1.0⟩ 1e-6 [0, 1, -1] (1/2) :=
  lin_forward_well_defined LinWhole.valid_example (1/2)
    (by simp [RQWhole.eNV, b0]) (by simp [RQWhole.eNV, b1]; norm_num)
example : LinFwdWellDefined RQWhole.eNV ⟨0.0, 1.0, 0.0, 1.0⟩ 1e-6 [0, 1, -1] 1 :=
  lin_forward_well_defined LinWhole.valid_example 1
    (by simp [RQWhole.eNV, b0]) (by simp [RQWhole.eNV, b1])
example : LinInvWellDefined RQWhole.eNV ⟨0.0, 1.0, 0.0, 1.0⟩ 1e-6 [0, 1, -1] (1/2) :=
  lin_inverse_well_defined LinWhole.valid_example (1/2)
    (by simp [RQWhole.eNV, b0]) (by simp [RQWhole.eNV, b1]; norm_num)
example : LinInvWellDefined RQWhole.eNV ⟨0.0, 1.0, 0.0, 1.0⟩ 1e-6 [0, 1, -1] 0 :=
  lin_inverse_well_defined LinWhole.valid_example 0
    (by simp [RQWhole.eNV, b0]) (by simp [RQWhole.eNV, b1])

end
end NF.WellDefined.Lin
