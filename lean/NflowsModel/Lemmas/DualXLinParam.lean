import NflowsModel.Lemmas.DualXLin
import NflowsModel.Lemmas.DualXParam
/-!
# Lemmas/DualXLinParam — PARAMETER-direction soundness of the EXECUTED piecewise-linear spline run on dual numbers (C16)

`linSpline (dualX (NF.realX e)) box eps (List.zip up up') false (x, x')` is the forward list program of `Core/Spline.lean`
run on dual numbers with the unnormalised pdf carrying an ARBITRARY tangent list `up'` and the input the tangent `x'`.

* `linValid_of_length` — `LinWhole.LinValid` depends on the parameter vector only through its length (so it holds along
  every curve of parameters of constant length).
* `linSpline_dualG_exec` — control flow of the dual run with arbitrary tangents, whole closed domain: guard, integer floor,
  repair and gathers read value components only; the run selects bin `min(⌊x'K⌋, K−1)` (independent of the parameters) and
  evaluates `clamp 0 1 (cdf_i + (x'K − i)·pdf_i)`, `log pdf_i − np.log(1/K) + boxLog` on the dual `softmax`/`cumsum` lists.
* `linSpline_dual_param_core` — along ANY differentiable curve of parameters `F` (`DualXParam.IsDualL`) and input `X`
  (`DualX.IsDual`), strictly inside bin `k`: the run returns `((val, v'), (ld, l'))` with `v'`, `l'` the derivatives of
  the REAL executed program's two outputs along the curve.  Ingredients: `DualXParam.softmaxG_dualL` (sound at ties of the
  max-shift), `cumsumG_dualL`, `setLast_dualL` (the pinned last knot has tangent 0: the real pinned knot is the constant 1),
  `dual_clamp01_id` (dual clamp = identity on `[0,1]`, ties included); on the real side `LinWhole.val_eq` already has the
  clamp removed for ALL parameters (`binF_mem`), so only "the curve stays in the open bin near `t`" is needed.
* `linSpline_dual_param` (headline) — the line `s ↦ (up + s·up', x + s·x')` at `s = 0`; NO side condition on `up`, `up'`.
* `linSpline_dual_param_fixed_x` — the pure parameter gradient (`x' = 0`).
* `linSpline_dual_param_example` — non-vacuity: `LinWhole.valid_example` (three bins `[0, 1, −1]`, unit box), every
  direction `([a, b, c], x')`, `x` in the middle bin.
-/
open NF DualSound DualX Filter Topology

namespace DualXLin
open LinWhole DualXParam
noncomputable section
variable {e : Float → ℝ} {box : Box} {eps : Float} {up : List ℝ}

/-- `LinValid` depends on the parameter vector only through its length -/
theorem linValid_of_length (hv : LinValid e box eps up) {up2 : List ℝ} (h : up2.length = up.length) :
    LinValid e box eps up2 where
  hK := by intro h0; rw [h0] at h; exact hv.hK (List.length_eq_zero_iff.mp h.symm)
  hlr := hv.hlr
  hdlr := hv.hdlr
  hbt := hv.hbt
  hdbt := hv.hdbt
  heps := hv.heps

variable (e)

/-- the pieces of the dual run, exactly as `linSpline` at `dualX (NF.realX e)` forms them -/
def dPdf (dup : List (ℝ × ℝ)) : List (ℝ × ℝ) := softmaxG (dualX (NF.realX e)) dup
def dCdf (dup : List (ℝ × ℝ)) : List (ℝ × ℝ) :=
  (dualX (NF.realX e)).zero :: setLast (cumsumG (dualX (NF.realX e)) (dPdf e dup)) (dualX (NF.realX e)).one
def dNx (box : Box) (dx : ℝ × ℝ) : ℝ × ℝ :=
  (dualX (NF.realX e)).div ((dualX (NF.realX e)).sub dx ((dualX (NF.realX e)).ofFloat box.left))
    ((dualX (NF.realX e)).ofFloat (box.right - box.left))
def dBinPos (box : Box) (K : ℕ) (dx : ℝ × ℝ) : ℝ × ℝ :=
  (dualX (NF.realX e)).mul (dNx e box dx) ((dualX (NF.realX e)).ofNat K)
def dInner (box : Box) (dup : List (ℝ × ℝ)) (i : ℕ) (dx : ℝ × ℝ) : ℝ × ℝ :=
  (dualX (NF.realX e)).add ((dCdf e dup).getD i 0)
    ((dualX (NF.realX e)).mul ((dualX (NF.realX e)).sub (dBinPos e box dup.length dx) ((dualX (NF.realX e)).ofRat (i : ℤ) 1))
      ((dPdf e dup).getD i 0))
def dOutOf (box : Box) (u : ℝ × ℝ) : ℝ × ℝ :=
  (dualX (NF.realX e)).add ((dualX (NF.realX e)).mul u ((dualX (NF.realX e)).ofFloat (box.top - box.bottom)))
    ((dualX (NF.realX e)).ofFloat box.bottom)
def dLd (box : Box) (dup : List (ℝ × ℝ)) (i : ℕ) : ℝ × ℝ :=
  (dualX (NF.realX e)).add
    ((dualX (NF.realX e)).sub ((dualX (NF.realX e)).log ((dPdf e dup).getD i 0))
      ((dualX (NF.realX e)).ofFloat (Float.log (1.0 / dup.length.toFloat))))
    ((dualX (NF.realX e)).ofFloat (boxLog box))

theorem dPdf_fst (dup : List (ℝ × ℝ)) : (dPdf e dup).map Prod.fst = pdf e (dup.map Prod.fst) :=
  (fst_hom e).softmaxG dup

theorem dCdf_fst (dup : List (ℝ × ℝ)) : (dCdf e dup).map Prod.fst = cdf e (dup.map Prod.fst) := by
  have hF := fst_hom e
  unfold dCdf cdf
  rw [List.map_cons, XHom.setLast, hF.cumsumG, dPdf_fst, hF.zero, hF.one]

theorem dPdf_length (dup : List (ℝ × ℝ)) : (dPdf e dup).length = dup.length := by
  have := congrArg List.length (dPdf_fst e dup)
  rw [List.length_map, pdf_length, List.length_map] at this
  exact this

variable {e}

theorem dCdf_length (dup : List (ℝ × ℝ)) (hK : dup.map Prod.fst ≠ []) : (dCdf e dup).length = dup.length + 1 := by
  have := congrArg List.length (dCdf_fst e dup)
  rw [List.length_map, (cdf_facts hK).1, List.length_map] at this
  exact this

theorem dBinPos_fst (hv : LinValid e box eps up) (K : ℕ) (dx : ℝ × ℝ) :
    (dBinPos e box K dx).1 = nx e box dx.1 * (K : ℝ) := by
  unfold dBinPos dNx
  simp only [d_mul, d_div, d_sub, d_ofFloat, d_ofNat, hv.hdlr]
  rfl

/-- **control flow of the dual linear-spline program with ARBITRARY tangents on parameters and input**: guard, floor and
    gathers read value components only, so the run selects the bin the real run selects and evaluates its line (clamp and
    logarithm included) on the gathered dual `pdf`/`cdf` entries -/
theorem linSpline_dualG_exec (dup : List (ℝ × ℝ)) (hv : LinValid e box eps (dup.map Prod.fst)) (dx : ℝ × ℝ)
    (hx0 : e box.left ≤ dx.1) (hx1 : dx.1 ≤ e box.right) :
    linSpline (dualX (NF.realX e)) box eps dup false dx
      = .ok (dOutOf e box ((dualX (NF.realX e)).clamp (dualX (NF.realX e)).zero (dualX (NF.realX e)).one
                (dInner e box dup (idxF dup.length (nx e box dx.1)) dx)),
             dLd e box dup (idxF dup.length (nx e box dx.1))) := by
  obtain ⟨ht0, ht1⟩ := nx_mem hv dx.1 hx0 hx1
  have hK0 : 0 < dup.length := by have := K_pos hv.hK; rwa [List.length_map] at this
  obtain ⟨hspec, hidx⟩ := idxF_spec hK0
  obtain ⟨hiK, _, _⟩ := hspec (nx e box dx.1) (by rw [kn_zero]; exact ht0) (by rw [kn_last hK0]; exact ht1)
  set i := idxF dup.length (nx e box dx.1) with hi
  have hz : (if ⌊nx e box dx.1 * (dup.length : ℝ)⌋ ≥ Int.ofNat dup.length then Int.ofNat dup.length - 1
      else ⌊nx e box dx.1 * (dup.length : ℝ)⌋) = ((i : ℕ) : ℤ) := hidx _ ht0 ht1
  have hg : ((dualX (NF.realX e)).lt dx ((dualX (NF.realX e)).ofFloat box.left)
      || (dualX (NF.realX e)).lt ((dualX (NF.realX e)).ofFloat box.right) dx) = false := by
    simp only [d_lt, d_ofFloat, Bool.or_eq_false_iff, decide_eq_false_iff_not, not_lt]
    exact ⟨hx0, hx1⟩
  have hbp : ((dualX (NF.realX e)).mul
      ((dualX (NF.realX e)).div ((dualX (NF.realX e)).sub dx ((dualX (NF.realX e)).ofFloat box.left))
        ((dualX (NF.realX e)).ofFloat (box.right - box.left))) ((dualX (NF.realX e)).ofNat dup.length)).1
      = nx e box dx.1 * (dup.length : ℝ) := dBinPos_fst hv dup.length dx
  have hpl : (softmaxG (dualX (NF.realX e)) dup).length = dup.length := dPdf_length e dup
  have hcl : ((dualX (NF.realX e)).zero ::
      setLast (cumsumG (dualX (NF.realX e)) (softmaxG (dualX (NF.realX e)) dup)) (dualX (NF.realX e)).one).length
        = dup.length + 1 := dCdf_length dup hv.hK
  unfold linSpline
  simp only [Bool.false_eq_true, if_false, hg, d_floorInt, hbp, hz]
  rw [getI_ok_getD _ i (by rw [hpl]; exact hiK) 0, getI_ok_getD _ i (by rw [hcl]; omega) 0]
  rfl

/-- **core**: the dual run along ANY differentiable curve of parameters `F` and input `X` (list-level duality `IsDualL`,
    scalar duality `IsDual`): strictly inside bin `k` it returns the real outputs with, as tangents, the derivatives of the
    REAL executed program's two outputs along the curve -/
theorem linSpline_dual_param_core (F : ℝ → List ℝ) (X : ℝ → ℝ) (t : ℝ) (dup : List (ℝ × ℝ)) (dx : ℝ × ℝ)
    (hv : LinValid e box eps (F t)) (hU : IsDualL F t dup) (hX : IsDual X t dx)
    (k : ℕ) (hk : k < (F t).length)
    (h0 : kn (F t).length k < nx e box (X t)) (h1 : nx e box (X t) < kn (F t).length (k+1)) :
    ∃ v' l' : ℝ, linSpline (dualX (NF.realX e)) box eps dup false dx
        = .ok ((val e box eps (F t) (X t), v'), (ld e box eps (F t) (X t), l')) ∧
      HasDerivAt (fun s => val e box eps (F s) (X s)) v' t ∧
      HasDerivAt (fun s => ld e box eps (F s) (X s)) l' t := by
  have hFl : ∀ s, (F s).length = dup.length := hU.1
  have hfst : dup.map Prod.fst = F t := hU.map_fst
  have hvd : LinValid e box eps (dup.map Prod.fst) := by rw [hfst]; exact hv
  have hkd : k < dup.length := by rw [← hFl t]; exact hk
  obtain ⟨hxL, hxR, hik⟩ := open_bin_facts hv k hk (X t) h0 h1
  have hdx : dx.1 = X t := hX.1
  -- the dual run
  have hrun := linSpline_dualG_exec dup hvd dx (by rw [hdx]; exact hxL.le) (by rw [hdx]; exact hxR.le)
  rw [hdx, ← hFl t, hik] at hrun
  -- duality of the knot pipeline
  have hP : IsDualL (fun s => pdf e (F s)) t (dPdf e dup) := softmaxG_dualL e hU
  have hC : IsDualL (fun s => cdf e (F s)) t (dCdf e dup) :=
    IsDualL.cons (IsDual.zero e t) (setLast_dualL (IsDual.one e t) (cumsumG_dualL e hP))
  have hp : IsDual (fun s => pd e (F s) k) t ((dPdf e dup).getD k 0) :=
    hP.getD k (by rw [dPdf_length]; exact hkd)
  have hc : IsDual (fun s => cd e (F s) k) t ((dCdf e dup).getD k 0) :=
    hC.getD k (by rw [dCdf_length dup hvd.hK]; omega)
  have hD : e box.right - e box.left ≠ 0 := (sub_pos.mpr hv.hlr).ne'
  have hnx : IsDual (fun s => nx e box (X s)) t (dNx e box dx) := by
    refine (IsDual.div e (IsDual.sub e hX (IsDual.ofFloat e box.left t)) (IsDual.ofFloat e (box.right - box.left) t)
      (by rw [d_ofFloat, hv.hdlr]; exact hD)).congr_fun (fun s => ?_)
    simp only [NF.realX_div, NF.realX_sub, NF.realX_ofFloat, hv.hdlr]
    rfl
  have hbp : IsDual (fun s => nx e box (X s) * (dup.length : ℝ)) t (dBinPos e box dup.length dx) := by
    refine (IsDual.mul e hnx (IsDual.ofNat e dup.length t)).congr_fun (fun s => ?_)
    simp only [NF.realX_mul, NF.realX_ofNat]
  have hin : IsDual (fun s => binF e (F s) k (nx e box (X s))) t (dInner e box dup k dx) := by
    refine (IsDual.add e hc (IsDual.mul e (IsDual.sub e hbp (IsDual.ofRat e (k : ℤ) 1 t)) hp)).congr_fun (fun s => ?_)
    simp only [NF.realX_add, NF.realX_mul, NF.realX_sub, NF.realX_ofRat]
    unfold binF
    rw [hFl s]
    simp
  -- the dual clamp is the identity
  obtain ⟨_, _, hu0, hu1⟩ := binF_mem (e := e) hv.hK k hk (nx e box (X t)) h0.le h1.le
  have hcl : (dualX (NF.realX e)).clamp (dualX (NF.realX e)).zero (dualX (NF.realX e)).one (dInner e box dup k dx)
      = dInner e box dup k dx :=
    dual_clamp01_id _ (by rw [hin.1]; exact hu0) (by rw [hin.1]; exact hu1)
  rw [hcl] at hrun
  have hout : IsDual (fun s => binF e (F s) k (nx e box (X s)) * (e box.top - e box.bottom) + e box.bottom) t
      (dOutOf e box (dInner e box dup k dx)) := by
    refine (IsDual.add e (IsDual.mul e hin (IsDual.ofFloat e (box.top - box.bottom) t))
      (IsDual.ofFloat e box.bottom t)).congr_fun (fun s => ?_)
    simp only [NF.realX_add, NF.realX_mul, NF.realX_ofFloat, hv.hdbt]
  have hpne : ((dPdf e dup).getD k 0).1 ≠ 0 := by
    rw [hp.1]; exact (pd_pos (e := e) (F t) k hk).ne'
  have hld : IsDual (fun s => binLdF e (F s) k + e (boxLog box)) t (dLd e box dup k) := by
    refine (IsDual.add e (IsDual.sub e (IsDual.log e hp hpne) (IsDual.ofFloat e (Float.log (1.0 / dup.length.toFloat)) t))
      (IsDual.ofFloat e (boxLog box) t)).congr_fun (fun s => ?_)
    simp only [NF.realX_add, NF.realX_sub, NF.realX_log, NF.realX_ofFloat]
    unfold binLdF
    rw [hFl s]
  -- near `t` the curve stays strictly inside bin `k`, where the real program is that bin's closed form
  have hnear : ∀ᶠ s in 𝓝 t, kn (F t).length k < nx e box (X s) ∧ nx e box (X s) < kn (F t).length (k+1) :=
    hX.2.continuousAt.eventually (open_bin_nhds hv k (X t) h0 h1)
  have hFt : ∀ s, (F s).length = (F t).length := fun s => by rw [hFl s, hFl t]
  have hevV : (fun s => binF e (F s) k (nx e box (X s)) * (e box.top - e box.bottom) + e box.bottom)
      =ᶠ[𝓝 t] (fun s => val e box eps (F s) (X s)) := by
    filter_upwards [hnear] with s hs
    have hvs := linValid_of_length hv (hFt s)
    rw [← hFt s] at hs
    obtain ⟨hsL, hsR, hsk⟩ := open_bin_facts hvs k (by rw [hFt s]; exact hk) (X s) hs.1 hs.2
    rw [val_eq hvs (X s) hsL.le hsR.le]
    unfold GF
    rw [hsk]
  have hevL : (fun s => binLdF e (F s) k + e (boxLog box)) =ᶠ[𝓝 t] (fun s => ld e box eps (F s) (X s)) := by
    filter_upwards [hnear] with s hs
    have hvs := linValid_of_length hv (hFt s)
    rw [← hFt s] at hs
    obtain ⟨hsL, hsR, hsk⟩ := open_bin_facts hvs k (by rw [hFt s]; exact hk) (X s) hs.1 hs.2
    rw [ld_eq hvs (X s) hsL.le hsR.le]
    unfold LdF
    rw [hsk]
  have hV := hout.congr hevV
  have hL := hld.congr hevL
  refine ⟨(dOutOf e box (dInner e box dup k dx)).2, (dLd e box dup k).2, ?_, hV.2, hL.2⟩
  rw [hrun]
  exact congrArg Except.ok (Prod.ext (Prod.ext hV.1 rfl) (Prod.ext hL.1 rfl))

/-- **PARAMETER (and input) direction, executed linear-spline forward program**: run on the dual input `(x, x')` with the
    unnormalised pdf carrying the tangent list `up'` (any direction), for `x` strictly inside bin `k` the dual program returns
    `((val x, v'), (ld x, l'))` where `v'`, `l'` are the derivatives at `s = 0` of the REAL executed program's two outputs
    along the line `s ↦ (up + s·up', x + s·x')`.  No side condition on the parameters: softmax is sound at ties of its
    max-shift, both clamps are the identity on `[0,1]` (ties included), and the bin index `min(⌊x'K⌋, K−1)` does not depend
    on the parameters. -/
theorem linSpline_dual_param (hv : LinValid e box eps up) (up' : List ℝ) (hl : up.length = up'.length)
    (k : ℕ) (hk : k < up.length) (x x' : ℝ)
    (h0 : kn up.length k < nx e box x) (h1 : nx e box x < kn up.length (k+1)) :
    ∃ v' l' : ℝ, linSpline (dualX (NF.realX e)) box eps (List.zip up up') false (x, x')
        = .ok ((val e box eps up x, v'), (ld e box eps up x, l')) ∧
      HasDerivAt (fun s => val e box eps (DualXParam.lineL up up' s) (x + s * x')) v' 0 ∧
      HasDerivAt (fun s => ld e box eps (DualXParam.lineL up up' s) (x + s * x')) l' 0 := by
  have hU := IsDualL.line up up' hl
  have z : DualXParam.lineL up up' 0 = up := lineL_zero up up' hl.le
  have hX : IsDual (fun s : ℝ => x + s * x') 0 (x, x') := by
    refine ⟨by simp, ?_⟩
    simpa using ((hasDerivAt_id (0:ℝ)).mul_const x').const_add x
  have hx0 : x + 0 * x' = x := by ring
  have := linSpline_dual_param_core (e := e) (box := box) (eps := eps) (DualXParam.lineL up up') (fun s => x + s * x') 0
    (List.zip up up') (x, x') (by rw [z]; exact hv) hU hX k (by rw [z]; exact hk)
    (by rw [z, hx0]; exact h0) (by rw [z, hx0]; exact h1)
  rw [z, hx0] at this
  exact this

/-- the pure parameter direction (`x' = 0`): the gradient of the two outputs w.r.t. the unnormalised pdf at fixed `x` -/
theorem linSpline_dual_param_fixed_x (hv : LinValid e box eps up) (up' : List ℝ) (hl : up.length = up'.length)
    (k : ℕ) (hk : k < up.length) (x : ℝ)
    (h0 : kn up.length k < nx e box x) (h1 : nx e box x < kn up.length (k+1)) :
    ∃ v' l' : ℝ, linSpline (dualX (NF.realX e)) box eps (List.zip up up') false (x, 0)
        = .ok ((val e box eps up x, v'), (ld e box eps up x, l')) ∧
      HasDerivAt (fun s => val e box eps (DualXParam.lineL up up' s) x) v' 0 ∧
      HasDerivAt (fun s => ld e box eps (DualXParam.lineL up up' s) x) l' 0 := by
  obtain ⟨v', l', h, hv', hl'⟩ := linSpline_dual_param hv up' hl k hk x 0 h0 h1
  refine ⟨v', l', h, ?_, ?_⟩
  · simpa using hv'
  · simpa using hl'

/-- non-vacuity on the concrete accepted configuration `LinWhole.valid_example` (three bins `[0, 1, −1]` on the unit box),
    EVERY direction `([a, b, c], x')`, `x` in the middle bin -/
theorem linSpline_dual_param_example (a b c x x' : ℝ) (h0 : 1/3 < x) (h1 : x < 2/3) :
    ∃ v' l' : ℝ, linSpline (dualX (NF.realX RQWhole.eNV)) ⟨0.0, 1.0, 0.0, 1.0⟩ 1e-6 [(0, a), (1, b), (-1, c)] false (x, x')
        = .ok ((val RQWhole.eNV ⟨0.0, 1.0, 0.0, 1.0⟩ 1e-6 [0, 1, -1] x, v'),
               (ld RQWhole.eNV ⟨0.0, 1.0, 0.0, 1.0⟩ 1e-6 [0, 1, -1] x, l')) ∧
      HasDerivAt (fun s => val RQWhole.eNV ⟨0.0, 1.0, 0.0, 1.0⟩ 1e-6 [0 + s * a, 1 + s * b, -1 + s * c] (x + s * x')) v' 0 ∧
      HasDerivAt (fun s => ld RQWhole.eNV ⟨0.0, 1.0, 0.0, 1.0⟩ 1e-6 [0 + s * a, 1 + s * b, -1 + s * c] (x + s * x')) l' 0 := by
  refine linSpline_dual_param valid_example [a, b, c] rfl 1 (by simp) x x' ?_ ?_
  · rw [nx_unit]; unfold kn; simp only [List.length_cons, List.length_nil]; norm_num; linarith
  · rw [nx_unit]; unfold kn; simp only [List.length_cons, List.length_nil]; norm_num; linarith

end
end DualXLin
