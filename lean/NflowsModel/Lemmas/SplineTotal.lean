import NflowsModel.Properties.C20
import NflowsModel.Lemmas.SplineExec
/-!
# Lemmas/SplineTotal — in-domain totality of the EXECUTED rational-quadratic spline (forward), at the reals

For every bin count, every unnormalised parameter vector, every box with `left < right`, `bottom < top`, and every
input in `[left, right]`, `rqSpline (realX e) …` returns a value: the domain guard passes, the bin index computed by
the executed `searchsortedG` is in range, and every `gather` succeeds.  (The Python-side constants enter through
`e : Float → ℝ`; the hypotheses say `e` is consistent on the few expressions the code forms, and the two size guards —
`Float` comparisons — are taken as passed, which is what the constructor-accepted configurations satisfy.)
-/
open NF

namespace SplineTotal
variable (e : Float → ℝ)

theorem realX_ordered' : NF.TU.OrderedX (NF.realX e) := ⟨fun _ _ => rfl, fun _ _ => rfl⟩

theorem getI_ok {α : Type} (xs : List α) (i : ℕ) (h : i < xs.length) : getI xs (i : Int) = .ok xs[i] := by
  unfold getI
  have : ¬ ((i : Int) < 0) := by omega
  simp [this, h]

theorem diffsG_length (xs : List ℝ) : (diffsG (NF.realX e) xs).length = xs.length - 1 := by
  induction xs with
  | nil => simp [diffsG]
  | cons a t ih =>
    cases t with
    | nil => simp [diffsG]
    | cons b r => simp [diffsG, ih]

end SplineTotal

namespace SplineTotal
variable (e : Float → ℝ)

theorem rq_forward_total (c : RQCfg) (uw uh ud : List ℝ) (x : ℝ)
    (hK : uw ≠ []) (hlenh : uh.length = uw.length) (hlend : ud.length = uw.length + 1)
    (hgW : ¬ (c.minW * uw.length.toFloat > 1.0)) (hgH : ¬ (c.minH * uw.length.toFloat > 1.0))
    (hmW0 : 0 ≤ e c.minW) (hcW : e (1 - c.minW * uw.length.toFloat) = 1 - e c.minW * uw.length) (hmWK : e c.minW * uw.length ≤ 1)
    (hmH0 : 0 ≤ e c.minH) (hcH : e (1 - c.minH * uh.length.toFloat) = 1 - e c.minH * uh.length) (hmHK : e c.minH * uh.length ≤ 1)
    (hlr : e c.box.left < e c.box.right) (hdlr : e (c.box.right - c.box.left) = e c.box.right - e c.box.left)
    (hbt : e c.box.bottom < e c.box.top) (hdbt : e (c.box.top - c.box.bottom) = e c.box.top - e c.box.bottom)
    (heps : 0 < e c.eps) (hx0 : e c.box.left ≤ x) (hx1 : x ≤ e c.box.right) :
    ∃ r, rqSpline (NF.realX e) c uw uh ud false x = .ok r := by
  have huh : uh ≠ [] := by intro h; rw [h] at hlenh; exact hK (List.length_eq_zero_iff.mp hlenh.symm)
  -- knots of both axes
  have hv := SplineExec.flooredSoftmax_valid e c.minW uw hK hmW0 hcW hmWK
  have hvh := SplineExec.flooredSoftmax_valid e c.minH uh huh hmH0 hcH hmHK
  have hneW : flooredSoftmax (NF.realX e) c.minW uw ≠ [] := by intro h; have := hv.2; rw [h] at this; simp at this
  have hneH : flooredSoftmax (NF.realX e) c.minH uh ≠ [] := by intro h; have := hvh.2; rw [h] at this; simp at this
  have hlenW : (flooredSoftmax (NF.realX e) c.minW uw).length = uw.length := by
    simp [SplineExec.flooredSoftmax_eq, SplineExec.softmaxG_length]
  have hlenH : (flooredSoftmax (NF.realX e) c.minH uh).length = uw.length := by
    simp [SplineExec.flooredSoftmax_eq, SplineExec.softmaxG_length, hlenh]
  obtain ⟨hcwlen, hcwhead, hcwlast, hcwstrict⟩ :=
    SplineExec.rqKnots_valid e c.box.left c.box.right _ hneW hv.1 hv.2 hlr hdlr
  obtain ⟨hchlen, _, _, _⟩ :=
    SplineExec.rqKnots_valid e c.box.bottom c.box.top _ hneH hvh.1 hvh.2 hbt hdbt
  rw [hlenW] at hcwlen
  rw [hlenH] at hchlen
  set cw := (rqKnots (NF.realX e) c.box.left c.box.right (flooredSoftmax (NF.realX e) c.minW uw)).1 with hcw
  set ch := (rqKnots (NF.realX e) c.box.bottom c.box.top (flooredSoftmax (NF.realX e) c.minH uh)).1 with hch
  -- split the x-knots as init ++ [right]
  obtain ⟨init, hsplit⟩ : ∃ init, cw = init ++ [e c.box.right] := by
    rcases List.getLast?_eq_some_iff.mp hcwlast with ⟨ys, hys⟩
    exact ⟨ys, hys⟩
  have hinitlen : init.length = uw.length := by
    have := congrArg List.length hsplit; simp [hcwlen] at this; omega
  have hK0 : 0 < uw.length := List.length_pos_of_ne_nil hK
  have hinithead : init.head? = some (e c.box.left) := by
    cases init with
    | nil => simp at hinitlen; omega
    | cons a t => rw [hsplit] at hcwhead; simpa using hcwhead
  have hb : e c.box.right < NF.TU.bumpedLast (NF.realX e) c.eps (e c.box.right) := by
    simp only [NF.TU.bumpedLast, XOps.maxA, NF.realX_add, NF.realX_ofFloat, NF.realX_lt]
    have : (NF.realX e).nextUp (e c.box.right) = e c.box.right := rfl
    rw [this]
    have hnot : ¬ (e c.box.right + e c.eps < e c.box.right) := by linarith
    simp only [hnot, decide_false, Bool.false_eq_true, if_false]
    linarith
  obtain ⟨i, hi, hiK, _⟩ := Properties.C20.searchsorted_spec (NF.realX e) (realX_ordered' e) c.eps init (e c.box.right) x
    (by rw [← hsplit]; exact hcwstrict) hb (e c.box.left) hinithead hx0 hx1
  rw [hinitlen] at hiK
  have hg1 : ((NF.realX e).lt x ((NF.realX e).ofFloat c.box.left) || (NF.realX e).lt ((NF.realX e).ofFloat c.box.right) x) = false := by
    simp only [NF.realX_lt, NF.realX_ofFloat, Bool.or_eq_false_iff, decide_eq_false_iff_not, not_lt]
    exact ⟨hx0, hx1⟩
  have hidx : searchsortedG (NF.realX e) c.eps cw x = (i : Int) := by rw [hsplit]; exact hi
  have hwlen : (diffsG (NF.realX e) cw).length = uw.length := by rw [diffsG_length, hcwlen]; omega
  have hhlen : (diffsG (NF.realX e) ch).length = uw.length := by rw [diffsG_length, hchlen]; omega
  have hk1 : rqKnots (NF.realX e) c.box.left c.box.right (flooredSoftmax (NF.realX e) c.minW uw) = (cw, diffsG (NF.realX e) cw) := rfl
  have hk2 : rqKnots (NF.realX e) c.box.bottom c.box.top (flooredSoftmax (NF.realX e) c.minH uh) = (ch, diffsG (NF.realX e) ch) := rfl
  have hdl : (ud.map (fun u => (NF.realX e).add ((NF.realX e).ofFloat c.minD) ((NF.realX e).softplusB ((NF.realX e).ofFloat c.beta) u))).length
      = uw.length + 1 := by rw [List.length_map, hlend]
  unfold rqSpline
  simp only [Bool.false_eq_true, if_false, hg1, hgW, hgH, hk1, hk2, hidx]
  rw [getI_ok cw i (by omega), getI_ok _ i (by omega : i < (diffsG (NF.realX e) cw).length), getI_ok ch i (by omega),
    getI_ok _ i (by omega : i < (diffsG (NF.realX e) ch).length)]
  have hi1 : ((i : Int) + 1) = ((i + 1 : ℕ) : Int) := by push_cast; rfl
  rw [hi1, getI_ok _ i (by omega), getI_ok _ (i + 1) (by omega)]
  exact ⟨_, rfl⟩

end SplineTotal
