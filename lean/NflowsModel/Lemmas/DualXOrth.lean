import NflowsModel.Lemmas.DualXLU
/-!
# Lemmas/DualXOrth — the EXECUTED Householder / QR / SVD / 1×1-convolution programs run on dual numbers (C16)

Continuation of `Lemmas/DualXLU.lean` (same generic layer `DL`, `DV`, `DM`; same statement form as
`DualXLU.lu_forward_dual_sound`): the list programs of `Core/LinearFamily.lean` that `DualXLU` left out.

* §1 `HouseholderSequence`: `hhApply`, `hhSeq`, `hhForward`, `hhInverse`; direction in the input rows AND every q-vector.
  Side condition: every q-vector has a non-zero entry at the primal point (the program divides by `dot q q`).
  Forced: `hh_forward_not_differentiable_at_zero_q`.
* §2 `QRLinear`: `qrR`, `qrForward`, `qrLogabsdet`, `qrInverse`.
* §3 `SVDLinear`: `svdDiag`, `svdForward`, `svdLogabsdet`, `svdInverse` (softplus threshold side condition `≠ 20`).
* §4 `OneByOneConvolution.forward`: `permuteChannels`, `convRows`, `convUnrows`, `convLogabsdet`, `convForward`.
* §5 accessors `luWeight`, `luWeightInverse`.
-/
open NF DualSound DualX Filter Topology

namespace DualXOrth
open DualXLU
noncomputable section

/-! ## 0. additions to the generic layer -/

section generic
variable {A B : Type}

/-- carry a property of the dual data (known for every member) inside the relation: `DL.foldl'` / `DL.zipWith'` give no
    membership information to their step functions -/
theorem DL.and_mem {rel : (ℝ → A) → B → Prop} {F : ℝ → List A} {ds : List B} (h : DL rel F ds) {P : B → Prop}
    (hP : ∀ d ∈ ds, P d) : DL (fun f d => rel f d ∧ P d) F ds := by
  obtain ⟨fs, hF, h2⟩ := h
  exact ⟨fs, hF, forall₂_imp_mem h2 (fun _ d hd hr => ⟨hr, hP d hd⟩)⟩

theorem DL.reverse {rel : (ℝ → A) → B → Prop} {F : ℝ → List A} {ds : List B} (h : DL rel F ds) :
    DL rel (fun s => (F s).reverse) ds.reverse := by
  obtain ⟨fs, hF, h2⟩ := h
  exact ⟨fs.reverse, fun s => by beta_reduce; rw [hF, List.map_reverse], List.rel_reverse h2⟩

end generic

variable {e : Float → ℝ} {t : ℝ}

theorem two_dual : IsDual (fun _ => LF.two (Rr e)) t (LF.two (Dd e)) := IsDual.ofRat e 2 1 t
theorem two_R : LF.two (Rr e) = 2 := by show ((2:ℤ):ℝ) / ((1:ℕ):ℝ) = 2; norm_num

/-- the executed sequential sum at the reals is the list sum -/
theorem sum_R (l : List ℝ) : LF.sum (Rr e) l = l.sum := by
  unfold LF.sum
  rw [zero_R]
  have h : ∀ (l : List ℝ) (a : ℝ), l.foldl (Rr e).add a = a + l.sum := by
    intro l
    induction l with
    | nil => intro a; simp
    | cons x l ih =>
      intro a
      rw [List.foldl_cons, ih, List.sum_cons]
      show a + x + l.sum = a + (x + l.sum)
      ring
  rw [h, zero_add]

/-! ## 1. `HouseholderSequence` -/

/-- `|q|²` as the program computes it -/
def sqNorm {α : Type} (o : Ops α) (q : List α) : α := LF.sum o (q.map (fun a => o.mul a a))

theorem sqNorm_dual {q : ℝ → List ℝ} {dq : List (ℝ × ℝ)} (hq : DV t q dq) :
    IsDual (fun s => sqNorm (Rr e) (q s)) t (sqNorm (Dd e) dq) :=
  sum_dual (DL.map' (fun _ a => (Rr e).mul a a) (fun a => (Dd e).mul a a) hq (fun _ _ _ ha => IsDual.mul e ha ha))

/-- the squared norm of a real vector with a non-zero entry is non-zero -/
theorem sqNorm_R_ne (l : List ℝ) (h : ∃ a ∈ l, a ≠ 0) : sqNorm (Rr e) l ≠ 0 := by
  unfold sqNorm
  rw [sum_R]
  obtain ⟨a, ha, ha0⟩ := h
  have hnn : ∀ x ∈ l.map (fun a => (Rr e).mul a a), (0:ℝ) ≤ x := by
    intro x hx
    obtain ⟨b, _, rfl⟩ := List.mem_map.mp hx
    exact mul_self_nonneg b
  have hmem : (Rr e).mul a a ∈ l.map (fun a => (Rr e).mul a a) := List.mem_map.mpr ⟨a, ha, rfl⟩
  have hle : (Rr e).mul a a ≤ (l.map (fun a => (Rr e).mul a a)).sum := List.single_le_sum hnn _ hmem
  have hpos : 0 < (Rr e).mul a a := mul_self_pos.mpr ha0
  exact (lt_of_lt_of_le hpos hle).ne'

/-- one Householder reflection `x − (x·q) (2/|q|²) q`, direction in `x` and `q`; side condition `|q|² ≠ 0` at the primal point -/
theorem hhApply_dual {q x : ℝ → List ℝ} {dq dx : List (ℝ × ℝ)} (hq : DV t q dq) (hx : DV t x dx)
    (hne : (sqNorm (Dd e) dq).1 ≠ 0) :
    DV t (fun s => LF.hhApply (Rr e) (q s) (x s)) (LF.hhApply (Dd e) dq dx) := by
  have hsq := sqNorm_dual (e := e) hq
  have htemp := dot_dual (e := e) hx hq
  have hcoef := IsDual.div e (two_dual (e := e) (t := t)) hsq hne
  have hscaled : DV t (fun s => (q s).map (fun a => (Rr e).mul ((Rr e).div (LF.two (Rr e)) (sqNorm (Rr e) (q s))) a))
      (dq.map (fun a => (Dd e).mul ((Dd e).div (LF.two (Dd e)) (sqNorm (Dd e) dq)) a)) :=
    DL.map' (fun s a => (Rr e).mul ((Rr e).div (LF.two (Rr e)) (sqNorm (Rr e) (q s))) a)
      (fun a => (Dd e).mul ((Dd e).div (LF.two (Dd e)) (sqNorm (Dd e) dq)) a) hq
      (fun _ _ _ ha => IsDual.mul e hcoef ha)
  exact DL.zipWith' (fun s xi si => (Rr e).sub xi ((Rr e).mul (LF.dot (Rr e) (x s) (q s)) si))
    (fun xi si => (Dd e).sub xi ((Dd e).mul (LF.dot (Dd e) dx dq) si)) hx hscaled
    (fun _ _ _ _ ha hb => IsDual.sub e ha (IsDual.mul e htemp hb))

theorem hhSeq_dual {qs : ℝ → List (List ℝ)} {dqs : List (List (ℝ × ℝ))} {x : ℝ → List ℝ} {dx : List (ℝ × ℝ)}
    (hqs : DM t qs dqs) (hx : DV t x dx) (hne : ∀ dq ∈ dqs, (sqNorm (Dd e) dq).1 ≠ 0) :
    DV t (fun s => LF.hhSeq (Rr e) (qs s) (x s)) (LF.hhSeq (Dd e) dqs dx) :=
  DL.foldl' (rel₀ := DV t) (fun _ acc q => LF.hhApply (Rr e) q acc) (fun acc q => LF.hhApply (Dd e) q acc)
    (DL.and_mem hqs hne) (fun _ _ _ _ hacc hq => hhApply_dual hq.1 hacc hq.2) hx

theorem hhForward_dual {qs X : ℝ → List (List ℝ)} {dqs dX : List (List (ℝ × ℝ))}
    (hqs : DM t qs dqs) (hX : DM t X dX) (hne : ∀ dq ∈ dqs, (sqNorm (Dd e) dq).1 ≠ 0) :
    DM t (fun s => LF.hhForward (Rr e) (qs s) (X s)) (LF.hhForward (Dd e) dqs dX) :=
  DL.map' (fun s x => LF.hhSeq (Rr e) (qs s) x) (fun x => LF.hhSeq (Dd e) dqs x) hX
    (fun _ _ _ hx => hhSeq_dual hqs hx hne)

theorem hhInverse_dual {qs X : ℝ → List (List ℝ)} {dqs dX : List (List (ℝ × ℝ))}
    (hqs : DM t qs dqs) (hX : DM t X dX) (hne : ∀ dq ∈ dqs, (sqNorm (Dd e) dq).1 ≠ 0) :
    DM t (fun s => LF.hhInverse (Rr e) (qs s) (X s)) (LF.hhInverse (Dd e) dqs dX) :=
  DL.map' (fun s x => LF.hhSeq (Rr e) (qs s).reverse x) (fun x => LF.hhSeq (Dd e) dqs.reverse x) hX
    (fun _ _ _ hx => hhSeq_dual (DL.reverse hqs) hx (fun dq hdq => hne dq (List.mem_reverse.mp hdq)))

/-- the q-vector side condition of the headlines: a non-zero entry at the primal point -/
def QNonzero (dqs : List (List (ℝ × ℝ))) : Prop := ∀ dq ∈ dqs, ∃ a ∈ dq, a.1 ≠ 0

theorem sqNorm_D_ne {dqs : List (List (ℝ × ℝ))} (h : QNonzero dqs) : ∀ dq ∈ dqs, (sqNorm (Dd e) dq).1 ≠ 0 := by
  intro dq hdq
  rw [(sqNorm_dual (e := e) (lineV_dual dq)).val, lineV_zero]
  obtain ⟨a, ha, ha0⟩ := h dq hdq
  exact sqNorm_R_ne _ ⟨a.1, List.mem_map.mpr ⟨a, ha, rfl⟩, ha0⟩

variable (e)

/-- **`HouseholderSequence.forward` on dual numbers is sound** (C16).  `dqs` holds the dual q-vectors, `dX` the dual batch of
    input rows; ALL of them move simultaneously along `primal + s · tangent`.  If every q-vector has a non-zero entry at the primal
    point, every entry of the dual run is (entry of the real run at the primal parts, derivative at `s = 0` of that entry of the
    real run), and the two runs have the same shape for every `s`. -/
theorem hh_forward_dual_sound (dqs dX : List (List (ℝ × ℝ))) (hq : QNonzero dqs) :
    (∀ s, (LF.hhForward (Rr e) (lineM s dqs) (lineM s dX)).map List.length
        = (LF.hhForward (Dd e) dqs dX).map List.length) ∧
    ∀ r c : ℕ,
      (((LF.hhForward (Dd e) dqs dX).getD r []).getD c (0, 0)).1
          = ((LF.hhForward (Rr e) (lineM 0 dqs) (lineM 0 dX)).getD r []).getD c 0 ∧
      HasDerivAt (fun s => ((LF.hhForward (Rr e) (lineM s dqs) (lineM s dX)).getD r []).getD c 0)
        (((LF.hhForward (Dd e) dqs dX).getD r []).getD c (0, 0)).2 0 :=
  have h := hhForward_dual (e := e) (lineM_dual dqs) (lineM_dual dX) (sqNorm_D_ne hq)
  ⟨fun s => h.shape s, fun r c => h.entry r c⟩

/-- **`HouseholderSequence.inverse` on dual numbers is sound** (C16): the reflections in reversed order -/
theorem hh_inverse_dual_sound (dqs dX : List (List (ℝ × ℝ))) (hq : QNonzero dqs) :
    (∀ s, (LF.hhInverse (Rr e) (lineM s dqs) (lineM s dX)).map List.length
        = (LF.hhInverse (Dd e) dqs dX).map List.length) ∧
    ∀ r c : ℕ,
      (((LF.hhInverse (Dd e) dqs dX).getD r []).getD c (0, 0)).1
          = ((LF.hhInverse (Rr e) (lineM 0 dqs) (lineM 0 dX)).getD r []).getD c 0 ∧
      HasDerivAt (fun s => ((LF.hhInverse (Rr e) (lineM s dqs) (lineM s dX)).getD r []).getD c 0)
        (((LF.hhInverse (Dd e) dqs dX).getD r []).getD c (0, 0)).2 0 :=
  have h := hhInverse_dual (e := e) (lineM_dual dqs) (lineM_dual dX) (sqNorm_D_ne hq)
  ⟨fun s => h.shape s, fun r c => h.entry r c⟩

/-! ### non-vacuity: `n = 2`, two q-vectors, every entry moving -/

def exQ : List (List (ℝ × ℝ)) := [[(1, 1), (0, -1)], [(1/2, 0), (-1, 2)]]
def exX : List (List (ℝ × ℝ)) := [[(1, 1), (2, 0)], [(0, 0), (-1, 1)]]

theorem exQ_nonzero : QNonzero exQ := by
  intro dq hdq
  simp only [exQ, List.mem_cons, List.not_mem_nil, or_false] at hdq
  rcases hdq with rfl | rfl
  · exact ⟨(1, 1), by simp, by norm_num⟩
  · exact ⟨(-1, 2), by simp, by norm_num⟩

example (r c : ℕ) := (hh_forward_dual_sound e exQ exX exQ_nonzero).2 r c
example (r c : ℕ) := (hh_inverse_dual_sound e exQ exX exQ_nonzero).2 r c

/-! ### the q-vector hypothesis is forced -/

/-- one reflection with the `1`-dimensional q-vector `0` moving with velocity `1`, input `1` -/
theorem zeroq_forward_eq (s : ℝ) :
    ((LF.hhForward (Rr e) (lineM s [[(0, 1)]]) (lineM s [[(1, 0)]])).getD 0 []).getD 0 0 = if s = 0 then 1 else -1 := by
  have h : ((LF.hhForward (Rr e) (lineM s [[(0, 1)]]) (lineM s [[(1, 0)]])).getD 0 []).getD 0 0
      = (1 + s * 0) - (0 + (1 + s * 0) * (0 + s * 1)) * (2 / (0 + (0 + s * 1) * (0 + s * 1)) * (0 + s * 1)) := by
    simp only [LF.hhForward, LF.hhSeq, LF.hhApply, LF.dot, LF.sum, lineM, lineV, DualXLU.line, zero_R, two_R,
      List.map_cons, List.map_nil, List.foldl_cons, List.foldl_nil, List.zipWith_cons_cons, List.zipWith_nil_right,
      List.getD_cons_zero]
    rfl
  rw [h]
  by_cases hs : s = 0
  · simp [hs]
  · rw [if_neg hs]; field_simp; ring

/-- **the hypothesis `QNonzero` of `hh_forward_dual_sound` cannot be dropped**: with a q-vector AT `0` the real executed program
    (which divides by `|q|² = 0`; at the reals `2 / 0 = 0`, in floating point the result is `nan`) is not continuous along the
    direction, so NO number is its derivative -/
theorem hh_forward_not_differentiable_at_zero_q :
    ¬ ∃ d' : ℝ, HasDerivAt
      (fun s => ((LF.hhForward (Rr e) (lineM s [[(0, 1)]]) (lineM s [[(1, 0)]])).getD 0 []).getD 0 0) d' 0 := by
  rintro ⟨d', h⟩
  rw [show (fun s => ((LF.hhForward (Rr e) (lineM s [[(0, 1)]]) (lineM s [[(1, 0)]])).getD 0 []).getD 0 0)
      = fun s : ℝ => if s = 0 then (1:ℝ) else -1 from funext (zeroq_forward_eq e)] at h
  have hc := h.continuousAt
  have hev : ∀ᶠ s : ℝ in 𝓝 0, (0:ℝ) < if s = 0 then (1:ℝ) else -1 := by
    have h0 : (0:ℝ) < (fun s : ℝ => if s = 0 then (1:ℝ) else -1) 0 := by simp
    exact hc.eventually (lt_mem_nhds h0)
  obtain ⟨ε, hε, hball⟩ := Metric.eventually_nhds_iff.mp hev
  have := hball (y := ε / 2) (by rw [Real.dist_eq, sub_zero, abs_of_pos (by linarith)]; linarith)
  rw [if_neg (by linarith)] at this
  linarith

variable {e}

/-! ## 2. `QRLinear` -/

/-- a curve of `QRLinear` parameters against dual parameters -/
structure QRCurve (t : ℝ) (P : ℝ → LF.QRParams ℝ) (dp : LF.QRParams (ℝ × ℝ)) : Prop where
  n : ∀ s, (P s).n = dp.n
  upper : DV t (fun s => (P s).upper) dp.upper
  logDiag : DV t (fun s => (P s).logDiag) dp.logDiag
  qs : DM t (fun s => (P s).qs) dp.qs
  bias : DV t (fun s => (P s).bias) dp.bias

theorem qrR_dual {P : ℝ → LF.QRParams ℝ} {dp : LF.QRParams (ℝ × ℝ)} (hP : QRCurve t P dp) :
    DM t (fun s => LF.qrR (Rr e) (P s)) (LF.qrR (Dd e) dp) := by
  unfold LF.qrR
  simp only [hP.n]
  exact mkUpper_dual _ hP.upper
    (DL.map' (fun _ => (Rr e).exp) (Dd e).exp hP.logDiag (fun _ _ _ ha => IsDual.exp e ha))

theorem qrForward_dual_curve {P : ℝ → LF.QRParams ℝ} {dp : LF.QRParams (ℝ × ℝ)} {X : ℝ → List (List ℝ)}
    {dX : List (List (ℝ × ℝ))} (hP : QRCurve t P dp) (hX : DM t X dX) (hne : ∀ dq ∈ dp.qs, (sqNorm (Dd e) dq).1 ≠ 0) :
    DM t (fun s => LF.qrForward (Rr e) (P s) (X s)) (LF.qrForward (Dd e) dp dX) := by
  unfold LF.qrForward
  exact DL.map' (fun s y => LF.addV (Rr e) y (P s).bias) (fun y => LF.addV (Dd e) y dp.bias)
    (hhForward_dual hP.qs (linear0_dual (qrR_dual hP) hX) hne) (fun _ _ _ hy => addV_dual hy hP.bias)

theorem qrLogabsdet_dual_curve {P : ℝ → LF.QRParams ℝ} {dp : LF.QRParams (ℝ × ℝ)} (hP : QRCurve t P dp) :
    IsDual (fun s => LF.qrLogabsdet (Rr e) (P s)) t (LF.qrLogabsdet (Dd e) dp) :=
  sum_dual hP.logDiag

theorem qrInverse_dual_curve {P : ℝ → LF.QRParams ℝ} {dp : LF.QRParams (ℝ × ℝ)} {X : ℝ → List (List ℝ)}
    {dX : List (List (ℝ × ℝ))} (hP : QRCurve t P dp) (hX : DM t X dX) (hne : ∀ dq ∈ dp.qs, (sqNorm (Dd e) dq).1 ≠ 0)
    (hdiag : ∀ k, k < (LF.qrR (Dd e) dp).length → (((LF.qrR (Dd e) dp).getD k []).getD (0 + k) (LF.zero (Dd e))).1 ≠ 0) :
    DM t (fun s => LF.qrInverse (Rr e) (P s) (X s)) (LF.qrInverse (Dd e) dp dX) := by
  unfold LF.qrInverse
  refine DL.map' (fun s y => LF.solveUpper (Rr e) (LF.qrR (Rr e) (P s)) y)
    (fun y => LF.solveUpper (Dd e) (LF.qrR (Dd e) dp) y)
    (hhInverse_dual hP.qs (DL.map' (fun s x => LF.subV (Rr e) x (P s).bias) (fun x => LF.subV (Dd e) x dp.bias) hX
      (fun _ _ _ hx => subV_dual hx hP.bias)) hne) (fun _ _ _ hy => ?_)
  exact solveUpperAux_dual 0 (qrR_dual hP) hy hdiag

/-- the diagonal of `R` is `exp(log_upper_diag)`: never `0` -/
theorem qrR_diag_ne (dp : LF.QRParams (ℝ × ℝ)) (hn : dp.n ≤ dp.logDiag.length) (k : ℕ)
    (hk : k < (LF.qrR (Dd e) dp).length) :
    (((LF.qrR (Dd e) dp).getD k []).getD (0 + k) (LF.zero (Dd e))).1 ≠ 0 := by
  have hk' : k < dp.n := by simpa [LF.qrR, LF.mkUpper, LFIndex.tab2_length] using hk
  have hlt : k < dp.logDiag.length := lt_of_lt_of_le hk' hn
  have hd := LFIndex.mkUpper_diag (Dd e) dp.n dp.upper (dp.logDiag.map (Dd e).exp) hk'
  rw [Nat.zero_add]
  rw [show ((LF.qrR (Dd e) dp).getD k []).getD k (LF.zero (Dd e))
    = (dp.logDiag.map (Dd e).exp).getD k (LF.zero (Dd e)) from hd]
  simp only [List.getD_eq_getElem?_getD, List.getElem?_map, List.getElem?_eq_getElem hlt, Option.map_some,
    Option.getD_some]
  show Real.exp (dp.logDiag[k]).1 ≠ 0
  exact (Real.exp_pos _).ne'

/-- the `QRLinear` parameters at `s`: every entry of every parameter tensor (strictly-upper entries, log-diagonal, q-vectors,
    bias) moves along its own tangent -/
def lineQR (s : ℝ) (dp : LF.QRParams (ℝ × ℝ)) : LF.QRParams ℝ :=
  ⟨dp.n, lineV s dp.upper, lineV s dp.logDiag, lineM s dp.qs, lineV s dp.bias⟩

theorem lineQR_curve (dp : LF.QRParams (ℝ × ℝ)) : QRCurve 0 (fun s => lineQR s dp) dp :=
  ⟨fun _ => rfl, lineV_dual _, lineV_dual _, lineM_dual _, lineV_dual _⟩

variable (e)

/-- **`QRLinear.forward_no_cache` on dual numbers is sound** (C16): direction in the inputs, the strictly-upper entries, the
    log-diagonal, the q-vectors and the bias simultaneously.  Side condition: every q-vector non-zero at the primal point. -/
theorem qr_forward_dual_sound (dp : LF.QRParams (ℝ × ℝ)) (dX : List (List (ℝ × ℝ))) (hq : QNonzero dp.qs) :
    (∀ s, (LF.qrForward (Rr e) (lineQR s dp) (lineM s dX)).map List.length
        = (LF.qrForward (Dd e) dp dX).map List.length) ∧
    ∀ r c : ℕ,
      (((LF.qrForward (Dd e) dp dX).getD r []).getD c (0, 0)).1
          = ((LF.qrForward (Rr e) (lineQR 0 dp) (lineM 0 dX)).getD r []).getD c 0 ∧
      HasDerivAt (fun s => ((LF.qrForward (Rr e) (lineQR s dp) (lineM s dX)).getD r []).getD c 0)
        (((LF.qrForward (Dd e) dp dX).getD r []).getD c (0, 0)).2 0 :=
  have h := qrForward_dual_curve (e := e) (lineQR_curve dp) (lineM_dual dX) (sqNorm_D_ne hq)
  ⟨fun s => h.shape s, fun r c => h.entry r c⟩

/-- **`QRLinear.logabsdet` on dual numbers is sound** (C16), no side condition (`sum(log_upper_diag)`) -/
theorem qr_logabsdet_dual_sound (dp : LF.QRParams (ℝ × ℝ)) :
    (LF.qrLogabsdet (Dd e) dp).1 = LF.qrLogabsdet (Rr e) (lineQR 0 dp) ∧
    HasDerivAt (fun s => LF.qrLogabsdet (Rr e) (lineQR s dp)) (LF.qrLogabsdet (Dd e) dp).2 0 :=
  qrLogabsdet_dual_curve (e := e) (lineQR_curve dp)

/-- **`QRLinear.inverse_no_cache` on dual numbers is sound** (C16): all directions.  Side conditions: every q-vector non-zero
    at the primal point; at least `n` log-diagonal entries (otherwise the back substitution divides by the default `0`). -/
theorem qr_inverse_dual_sound (dp : LF.QRParams (ℝ × ℝ)) (dX : List (List (ℝ × ℝ))) (hq : QNonzero dp.qs)
    (hn : dp.n ≤ dp.logDiag.length) :
    (∀ s, (LF.qrInverse (Rr e) (lineQR s dp) (lineM s dX)).map List.length
        = (LF.qrInverse (Dd e) dp dX).map List.length) ∧
    ∀ r c : ℕ,
      (((LF.qrInverse (Dd e) dp dX).getD r []).getD c (0, 0)).1
          = ((LF.qrInverse (Rr e) (lineQR 0 dp) (lineM 0 dX)).getD r []).getD c 0 ∧
      HasDerivAt (fun s => ((LF.qrInverse (Rr e) (lineQR s dp) (lineM s dX)).getD r []).getD c 0)
        (((LF.qrInverse (Dd e) dp dX).getD r []).getD c (0, 0)).2 0 :=
  have h := qrInverse_dual_curve (e := e) (lineQR_curve dp) (lineM_dual dX) (sqNorm_D_ne hq) (qrR_diag_ne dp hn)
  ⟨fun s => h.shape s, fun r c => h.entry r c⟩

/-- `R = [[exp 0, −1],[0, exp(1/2)]]`, the two reflections of `exQ`, bias `(0, 3)`; tangents on every entry -/
def exQR : LF.QRParams (ℝ × ℝ) := ⟨2, [(-1, 2)], [(0, 1), (1/2, -1)], exQ, [(0, 1), (3, 0)]⟩

example (r c : ℕ) := (qr_forward_dual_sound e exQR exX exQ_nonzero).2 r c
example := qr_logabsdet_dual_sound e exQR
example (r c : ℕ) := (qr_inverse_dual_sound e exQR exX exQ_nonzero (by simp [exQR])).2 r c

variable {e}

/-! ## 3. `SVDLinear` -/

/-- a curve of `SVDLinear` parameters against dual parameters -/
structure SVDCurve (t : ℝ) (P : ℝ → LF.SVDParams ℝ) (dp : LF.SVDParams (ℝ × ℝ)) : Prop where
  n : ∀ s, (P s).n = dp.n
  udiag : DV t (fun s => (P s).udiag) dp.udiag
  qs1 : DM t (fun s => (P s).qs1) dp.qs1
  qs2 : DM t (fun s => (P s).qs2) dp.qs2
  bias : DV t (fun s => (P s).bias) dp.bias
  eps : IsDual (fun s => (P s).eps) t dp.eps

/-- `diagonal = eps + softplus(unconstrained_diagonal)`, entry by entry -/
theorem svdDiag_dual {P : ℝ → LF.SVDParams ℝ} {dp : LF.SVDParams (ℝ × ℝ)} (hP : SVDCurve t P dp)
    (hthr : ∀ d ∈ dp.udiag, d.1 ≠ 20) :
    DV t (fun s => LF.svdDiag (Rr e) (P s)) (LF.svdDiag (Dd e) dp) :=
  DL.map' (fun s x => (Rr e).add (P s).eps (LF.softplus (Rr e) x)) (fun x => (Dd e).add dp.eps (LF.softplus (Dd e) x))
    hP.udiag (fun _ d hd ha => IsDual.add e hP.eps (softplus_dual ha (hthr d hd)))

/-- entry-wise division by a vector with non-zero primal entries -/
theorem divV_dual {F G : ℝ → List ℝ} {ds es : List (ℝ × ℝ)} (hx : DV t F ds) (hy : DV t G es)
    (hne : ∀ d ∈ es, d.1 ≠ 0) :
    DV t (fun s => List.zipWith (Rr e).div (F s) (G s)) (List.zipWith (Dd e).div ds es) :=
  DL.zipWith' (fun _ => (Rr e).div) (Dd e).div hx (DL.and_mem hy hne) (fun _ _ _ _ ha hb => IsDual.div e ha hb.1 hb.2)

theorem svdForward_dual_curve {P : ℝ → LF.SVDParams ℝ} {dp : LF.SVDParams (ℝ × ℝ)} {X : ℝ → List (List ℝ)}
    {dX : List (List (ℝ × ℝ))} (hP : SVDCurve t P dp) (hX : DM t X dX) (hthr : ∀ d ∈ dp.udiag, d.1 ≠ 20)
    (hne1 : ∀ dq ∈ dp.qs1, (sqNorm (Dd e) dq).1 ≠ 0) (hne2 : ∀ dq ∈ dp.qs2, (sqNorm (Dd e) dq).1 ≠ 0) :
    DM t (fun s => LF.svdForward (Rr e) (P s) (X s)) (LF.svdForward (Dd e) dp dX) := by
  unfold LF.svdForward
  exact DL.map' (fun s y => LF.addV (Rr e) y (P s).bias) (fun y => LF.addV (Dd e) y dp.bias)
    (hhForward_dual hP.qs1
      (DL.map' (fun s y => List.zipWith (Rr e).mul y (LF.svdDiag (Rr e) (P s)))
        (fun y => List.zipWith (Dd e).mul y (LF.svdDiag (Dd e) dp)) (hhForward_dual hP.qs2 hX hne2)
        (fun _ _ _ hy => mulV_dual hy (svdDiag_dual hP hthr))) hne1)
    (fun _ _ _ hy => addV_dual hy hP.bias)

theorem svdLogabsdet_dual_curve {P : ℝ → LF.SVDParams ℝ} {dp : LF.SVDParams (ℝ × ℝ)} (hP : SVDCurve t P dp)
    (hthr : ∀ d ∈ dp.udiag, d.1 ≠ 20) (hne : ∀ d ∈ LF.svdDiag (Dd e) dp, d.1 ≠ 0) :
    IsDual (fun s => LF.svdLogabsdet (Rr e) (P s)) t (LF.svdLogabsdet (Dd e) dp) := by
  unfold LF.svdLogabsdet LF.sumLog
  exact sum_dual (DL.map' (fun _ => (Rr e).log) (Dd e).log (svdDiag_dual hP hthr)
    (fun _ d hd ha => IsDual.log e ha (hne d hd)))

theorem svdInverse_dual_curve {P : ℝ → LF.SVDParams ℝ} {dp : LF.SVDParams (ℝ × ℝ)} {X : ℝ → List (List ℝ)}
    {dX : List (List (ℝ × ℝ))} (hP : SVDCurve t P dp) (hX : DM t X dX) (hthr : ∀ d ∈ dp.udiag, d.1 ≠ 20)
    (hne1 : ∀ dq ∈ dp.qs1, (sqNorm (Dd e) dq).1 ≠ 0) (hne2 : ∀ dq ∈ dp.qs2, (sqNorm (Dd e) dq).1 ≠ 0)
    (hne : ∀ d ∈ LF.svdDiag (Dd e) dp, d.1 ≠ 0) :
    DM t (fun s => LF.svdInverse (Rr e) (P s) (X s)) (LF.svdInverse (Dd e) dp dX) := by
  unfold LF.svdInverse
  exact hhInverse_dual hP.qs2
    (DL.map' (fun s y => List.zipWith (Rr e).div y (LF.svdDiag (Rr e) (P s)))
      (fun y => List.zipWith (Dd e).div y (LF.svdDiag (Dd e) dp))
      (hhInverse_dual hP.qs1 (DL.map' (fun s x => LF.subV (Rr e) x (P s).bias) (fun x => LF.subV (Dd e) x dp.bias) hX
        (fun _ _ _ hx => subV_dual hx hP.bias)) hne1)
      (fun _ _ _ hy => divV_dual hy (svdDiag_dual hP hthr) hne)) hne2

/-- for `eps ≥ 0` the diagonal `eps + softplus(u)` is positive -/
theorem svdDiag_ne (dp : LF.SVDParams (ℝ × ℝ)) (hthr : ∀ d ∈ dp.udiag, d.1 ≠ 20) (heps : 0 ≤ dp.eps.1) :
    ∀ d ∈ LF.svdDiag (Dd e) dp, d.1 ≠ 0 := by
  intro d hd
  obtain ⟨x, hx, rfl⟩ := List.mem_map.mp hd
  show dp.eps.1 + (LF.softplus (Dd e) x).1 ≠ 0
  rw [softplus_D_val _ (hthr x hx)]
  have h : 0 < LF.softplus (Rr e) x.1 := LFIndex.softplus_real_pos x.1
  exact (add_pos_of_nonneg_of_pos heps h).ne'

/-- the `SVDLinear` parameters at `s`: unconstrained diagonal, both Householder sequences, bias (and `eps`) move along their
    tangents -/
def lineSVD (s : ℝ) (dp : LF.SVDParams (ℝ × ℝ)) : LF.SVDParams ℝ :=
  ⟨dp.n, lineV s dp.udiag, lineM s dp.qs1, lineM s dp.qs2, lineV s dp.bias, DualXLU.line s dp.eps⟩

theorem lineSVD_curve (dp : LF.SVDParams (ℝ × ℝ)) : SVDCurve 0 (fun s => lineSVD s dp) dp :=
  ⟨fun _ => rfl, lineV_dual _, lineM_dual _, lineM_dual _, lineV_dual _, line_dual _⟩

variable (e)

/-- **`SVDLinear.forward_no_cache` on dual numbers is sound** (C16): direction in the inputs, the unconstrained diagonal, the
    q-vectors of both orthogonal factors, the bias (and `eps`) simultaneously.  Side conditions: no unconstrained diagonal entry
    AT the softplus threshold 20; every q-vector non-zero at the primal point. -/
theorem svd_forward_dual_sound (dp : LF.SVDParams (ℝ × ℝ)) (dX : List (List (ℝ × ℝ)))
    (hthr : ∀ d ∈ dp.udiag, d.1 ≠ 20) (hq1 : QNonzero dp.qs1) (hq2 : QNonzero dp.qs2) :
    (∀ s, (LF.svdForward (Rr e) (lineSVD s dp) (lineM s dX)).map List.length
        = (LF.svdForward (Dd e) dp dX).map List.length) ∧
    ∀ r c : ℕ,
      (((LF.svdForward (Dd e) dp dX).getD r []).getD c (0, 0)).1
          = ((LF.svdForward (Rr e) (lineSVD 0 dp) (lineM 0 dX)).getD r []).getD c 0 ∧
      HasDerivAt (fun s => ((LF.svdForward (Rr e) (lineSVD s dp) (lineM s dX)).getD r []).getD c 0)
        (((LF.svdForward (Dd e) dp dX).getD r []).getD c (0, 0)).2 0 :=
  have h := svdForward_dual_curve (e := e) (lineSVD_curve dp) (lineM_dual dX) hthr (sqNorm_D_ne hq1) (sqNorm_D_ne hq2)
  ⟨fun s => h.shape s, fun r c => h.entry r c⟩

/-- **`SVDLinear.logabsdet` on dual numbers is sound** (C16) for the library's `eps ≥ 0`; side condition: no unconstrained
    diagonal entry AT the softplus threshold 20 -/
theorem svd_logabsdet_dual_sound (dp : LF.SVDParams (ℝ × ℝ)) (hthr : ∀ d ∈ dp.udiag, d.1 ≠ 20) (heps : 0 ≤ dp.eps.1) :
    (LF.svdLogabsdet (Dd e) dp).1 = LF.svdLogabsdet (Rr e) (lineSVD 0 dp) ∧
    HasDerivAt (fun s => LF.svdLogabsdet (Rr e) (lineSVD s dp)) (LF.svdLogabsdet (Dd e) dp).2 0 :=
  svdLogabsdet_dual_curve (e := e) (lineSVD_curve dp) hthr (svdDiag_ne dp hthr heps)

/-- **`SVDLinear.inverse_no_cache` on dual numbers is sound** (C16): all directions.  Side conditions: threshold, `eps ≥ 0`
    (the diagonal divided by is positive), every q-vector non-zero at the primal point. -/
theorem svd_inverse_dual_sound (dp : LF.SVDParams (ℝ × ℝ)) (dX : List (List (ℝ × ℝ)))
    (hthr : ∀ d ∈ dp.udiag, d.1 ≠ 20) (heps : 0 ≤ dp.eps.1) (hq1 : QNonzero dp.qs1) (hq2 : QNonzero dp.qs2) :
    (∀ s, (LF.svdInverse (Rr e) (lineSVD s dp) (lineM s dX)).map List.length
        = (LF.svdInverse (Dd e) dp dX).map List.length) ∧
    ∀ r c : ℕ,
      (((LF.svdInverse (Dd e) dp dX).getD r []).getD c (0, 0)).1
          = ((LF.svdInverse (Rr e) (lineSVD 0 dp) (lineM 0 dX)).getD r []).getD c 0 ∧
      HasDerivAt (fun s => ((LF.svdInverse (Rr e) (lineSVD s dp) (lineM s dX)).getD r []).getD c 0)
        (((LF.svdInverse (Dd e) dp dX).getD r []).getD c (0, 0)).2 0 :=
  have h := svdInverse_dual_curve (e := e) (lineSVD_curve dp) (lineM_dual dX) hthr (sqNorm_D_ne hq1) (sqNorm_D_ne hq2)
    (svdDiag_ne dp hthr heps)
  ⟨fun s => h.shape s, fun r c => h.entry r c⟩

/-- diagonal `10⁻³ + softplus(0, 1)`, reflections `exQ` on both sides, bias `(0, 3)`; tangents on every tensor -/
def exSVD : LF.SVDParams (ℝ × ℝ) := ⟨2, [(0, 1), (1, -1)], exQ, exQ, [(0, 1), (3, 0)], (1/1000, 0)⟩

theorem exSVD_thr : ∀ d ∈ exSVD.udiag, d.1 ≠ 20 := by
  intro d hd
  simp only [exSVD, List.mem_cons, List.not_mem_nil, or_false] at hd
  rcases hd with rfl | rfl <;> norm_num

example (r c : ℕ) := (svd_forward_dual_sound e exSVD exX exSVD_thr exQ_nonzero exQ_nonzero).2 r c
example := svd_logabsdet_dual_sound e exSVD exSVD_thr (by norm_num [exSVD])
example (r c : ℕ) :=
  (svd_inverse_dual_sound e exSVD exX exSVD_thr (by norm_num [exSVD]) exQ_nonzero exQ_nonzero).2 r c

variable {e}

/-! ## 4. `OneByOneConvolution.forward`: channel permutation, `LULinear` on every pixel, `H·W·logabsdet` -/

theorem permuteChannels_dual (B C H W : ℕ) (perm : List ℕ) {xs : ℝ → List ℝ} {dxs : List (ℝ × ℝ)} (hx : DV t xs dxs) :
    DV t (fun s => LF.permuteChannels (Rr e) B C H W perm (xs s)) (LF.permuteChannels (Dd e) B C H W perm dxs) := by
  unfold LF.permuteChannels
  exact DL.ofMap _ _ _ (fun k _ => DL.getD' hx _ zero_dual)

theorem convRows_dual (B C H W : ℕ) {xs : ℝ → List ℝ} {dxs : List (ℝ × ℝ)} (hx : DV t xs dxs) :
    DM t (fun s => LF.convRows (Rr e) B C H W (xs s)) (LF.convRows (Dd e) B C H W dxs) := by
  unfold LF.convRows
  exact DL.ofMap _ _ _ (fun r _ => DL.ofMap _ _ _ (fun c _ => DL.getD' hx _ zero_dual))

theorem convUnrows_dual (B C H W : ℕ) {rows : ℝ → List (List ℝ)} {drows : List (List (ℝ × ℝ))} (hrows : DM t rows drows) :
    DV t (fun s => LF.convUnrows (Rr e) B C H W (rows s)) (LF.convUnrows (Dd e) B C H W drows) := by
  unfold LF.convUnrows
  exact DL.ofMap _ _ _ (fun k _ => DL.getD' (DL.getD' hrows _ DL.nil) _ zero_dual)

theorem convLogabsdet_dual {P : ℝ → LF.LUParams ℝ} {dp : LF.LUParams (ℝ × ℝ)} (hP : LUCurve t P dp) (B H W : ℕ)
    (hthr : ∀ d ∈ dp.udiag, d.1 ≠ 20) (hne : ∀ d ∈ dp.udiag, LF.softplus (Rr e) d.1 + dp.eps.1 ≠ 0) :
    DV t (fun s => LF.convLogabsdet (Rr e) (P s) B H W id) (LF.convLogabsdet (Dd e) dp B H W id) := by
  unfold LF.convLogabsdet
  exact DL.ofMap _ _ _ (fun _ _ => sum_dual
    (DL.replicate (H * W) (rel := fun f d => IsDual f t d) (luLogabsdet_dual_curve hP hthr hne)))

theorem convForward_dual_curve {P : ℝ → LF.LUParams ℝ} {dp : LF.LUParams (ℝ × ℝ)} (hP : LUCurve t P dp)
    (perm : List ℕ) (B H W : ℕ) {xs : ℝ → List ℝ} {dxs : List (ℝ × ℝ)} (hx : DV t xs dxs)
    (hthr : ∀ d ∈ dp.udiag, d.1 ≠ 20) (hne : ∀ d ∈ dp.udiag, LF.softplus (Rr e) d.1 + dp.eps.1 ≠ 0) :
    DV t (fun s => (LF.convForward (Rr e) (P s) perm B H W (xs s)).1) (LF.convForward (Dd e) dp perm B H W dxs).1 ∧
    DV t (fun s => (LF.convForward (Rr e) (P s) perm B H W (xs s)).2) (LF.convForward (Dd e) dp perm B H W dxs).2 := by
  unfold LF.convForward
  simp only [hP.n]
  exact ⟨convUnrows_dual _ _ _ _ (luForward_dual_curve hP
      (convRows_dual _ _ _ _ (permuteChannels_dual _ _ _ _ perm hx)) hthr),
    convLogabsdet_dual hP B H W hthr hne⟩

variable (e)

/-- **`OneByOneConvolution.forward` on dual numbers is sound** (C16): direction in the (flat NCHW) input and in ALL `LULinear`
    parameters (lower, upper, unconstrained diagonal, bias, `eps`) simultaneously; the channel permutation is fixed data.  Both
    outputs (flat NCHW outputs; per-sample log-abs-det `H·W·logabsdet`) of the dual run have, for every `s`, the length of the
    real run, and every entry is (value at the primal parts, derivative along `primal + s · tangent` at `s = 0`).
    Side conditions: no unconstrained diagonal entry AT the softplus threshold 20, `eps ≥ 0`. -/
theorem conv_forward_dual_sound (dp : LF.LUParams (ℝ × ℝ)) (perm : List ℕ) (B H W : ℕ) (dxs : List (ℝ × ℝ))
    (hthr : ∀ d ∈ dp.udiag, d.1 ≠ 20) (heps : 0 ≤ dp.eps.1) :
    (∀ s, (LF.convForward (Rr e) (lineP s dp) perm B H W (lineV s dxs)).1.length
          = (LF.convForward (Dd e) dp perm B H W dxs).1.length ∧
        (LF.convForward (Rr e) (lineP s dp) perm B H W (lineV s dxs)).2.length
          = (LF.convForward (Dd e) dp perm B H W dxs).2.length) ∧
    (∀ k : ℕ,
      ((LF.convForward (Dd e) dp perm B H W dxs).1.getD k (0, 0)).1
          = (LF.convForward (Rr e) (lineP 0 dp) perm B H W (lineV 0 dxs)).1.getD k 0 ∧
      HasDerivAt (fun s => (LF.convForward (Rr e) (lineP s dp) perm B H W (lineV s dxs)).1.getD k 0)
        ((LF.convForward (Dd e) dp perm B H W dxs).1.getD k (0, 0)).2 0) ∧
    (∀ k : ℕ,
      ((LF.convForward (Dd e) dp perm B H W dxs).2.getD k (0, 0)).1
          = (LF.convForward (Rr e) (lineP 0 dp) perm B H W (lineV 0 dxs)).2.getD k 0 ∧
      HasDerivAt (fun s => (LF.convForward (Rr e) (lineP s dp) perm B H W (lineV s dxs)).2.getD k 0)
        ((LF.convForward (Dd e) dp perm B H W dxs).2.getD k (0, 0)).2 0) := by
  have hne : ∀ d ∈ dp.udiag, LF.softplus (Rr e) d.1 + dp.eps.1 ≠ 0 := fun d _ => by
    have h : 0 < LF.softplus (Rr e) d.1 := LFIndex.softplus_real_pos d.1
    exact (add_pos_of_pos_of_nonneg h heps).ne'
  obtain ⟨h1, h2⟩ := convForward_dual_curve (e := e) (lineP_curve dp) perm B H W (lineV_dual dxs) hthr hne
  exact ⟨fun s => ⟨DL.length h1 s, DL.length h2 s⟩, fun k => h1.entry k, fun k => h2.entry k⟩

/-- two channels swapped by the permutation, one sample, a `1 × 2` image, the `LULinear` parameters `exP` -/
example (k : ℕ) := (conv_forward_dual_sound e exP [1, 0] 1 1 2 [(1, 1), (2, 0), (0, 0), (-1, 1)] exP_thr
  (by norm_num [exP])).2.1 k
example (k : ℕ) := (conv_forward_dual_sound e exP [1, 0] 1 1 2 [(1, 1), (2, 0), (0, 0), (-1, 1)] exP_thr
  (by norm_num [exP])).2.2 k

variable {e}

/-! ## 5. the accessors `LULinear.weight()` and `LULinear.weight_inverse()` -/

theorem col_dual {M : ℝ → List (List ℝ)} {dM : List (List (ℝ × ℝ))} (hM : DM t M dM) (j : ℕ) :
    DV t (fun s => LF.col (Rr e) (M s) j) (LF.col (Dd e) dM j) :=
  DL.map' (fun _ row => row.getD j (LF.zero (Rr e))) (fun row => row.getD j (LF.zero (Dd e))) hM
    (fun _ _ _ hrow => DL.getD' hrow j zero_dual)

theorem transpose_dual (n : ℕ) {M : ℝ → List (List ℝ)} {dM : List (List (ℝ × ℝ))} (hM : DM t M dM) :
    DM t (fun s => LF.transpose (Rr e) n (M s)) (LF.transpose (Dd e) n dM) :=
  DL.ofMap (List.range n) (fun s j => LF.col (Rr e) (M s) j) (fun j => LF.col (Dd e) dM j) (fun j _ => col_dual hM j)

theorem matMul_dual (n : ℕ) {A B : ℝ → List (List ℝ)} {dA dB : List (List (ℝ × ℝ))} (hA : DM t A dA) (hB : DM t B dB) :
    DM t (fun s => LF.matMul (Rr e) n (A s) (B s)) (LF.matMul (Dd e) n dA dB) :=
  DL.map' (fun s row => (LF.transpose (Rr e) n (B s)).map (fun c => LF.dot (Rr e) row c))
    (fun row => (LF.transpose (Dd e) n dB).map (fun c => LF.dot (Dd e) row c)) hA
    (fun f d _ hrow => DL.map' (fun s c => LF.dot (Rr e) (f s) c) (fun c => LF.dot (Dd e) d c) (transpose_dual n hB)
      (fun _ _ _ hc => dot_dual hrow hc))

theorem eye_dual (n : ℕ) : DM t (fun _ => LF.eye (Rr e) n) (LF.eye (Dd e) n) := by
  refine tab2_dual n _ _ (fun i j => ?_)
  by_cases hij : i = j
  · simp only [if_pos hij]; exact one_dual
  · simp only [if_neg hij]; exact zero_dual

theorem luL_dual {P : ℝ → LF.LUParams ℝ} {dp : LF.LUParams (ℝ × ℝ)} (hP : LUCurve t P dp) :
    DM t (fun s => LF.luL (Rr e) (P s)) (LF.luL (Dd e) dp) := by
  unfold LF.luL; simp only [hP.n]
  exact luLower_dual _ hP.lower

theorem luU_dual {P : ℝ → LF.LUParams ℝ} {dp : LF.LUParams (ℝ × ℝ)} (hP : LUCurve t P dp)
    (hthr : ∀ d ∈ dp.udiag, d.1 ≠ 20) : DM t (fun s => LF.luU (Rr e) (P s)) (LF.luU (Dd e) dp) := by
  unfold LF.luU; simp only [hP.n]
  exact mkUpper_dual _ hP.upper (posDiag_dual hP.udiag hP.eps hthr)

theorem luWeight_dual_curve {P : ℝ → LF.LUParams ℝ} {dp : LF.LUParams (ℝ × ℝ)} (hP : LUCurve t P dp)
    (hthr : ∀ d ∈ dp.udiag, d.1 ≠ 20) : DM t (fun s => LF.luWeight (Rr e) (P s)) (LF.luWeight (Dd e) dp) := by
  unfold LF.luWeight; simp only [hP.n]
  exact matMul_dual _ (luL_dual hP) (luU_dual hP hthr)

theorem luWeightInverse_dual_curve {P : ℝ → LF.LUParams ℝ} {dp : LF.LUParams (ℝ × ℝ)} (hP : LUCurve t P dp)
    (hthr : ∀ d ∈ dp.udiag, d.1 ≠ 20)
    (hdiag : ∀ k, k < (LF.luU (Dd e) dp).length → (((LF.luU (Dd e) dp).getD k []).getD (0 + k) (LF.zero (Dd e))).1 ≠ 0) :
    DM t (fun s => LF.luWeightInverse (Rr e) (P s)) (LF.luWeightInverse (Dd e) dp) := by
  unfold LF.luWeightInverse; simp only [hP.n]
  exact transpose_dual _ (DL.map'
    (fun s v => LF.solveUpper (Rr e) (LF.luU (Rr e) (P s)) (LF.solveLowerUnit (Rr e) (LF.luL (Rr e) (P s)) v))
    (fun v => LF.solveUpper (Dd e) (LF.luU (Dd e) dp) (LF.solveLowerUnit (Dd e) (LF.luL (Dd e) dp) v)) (eye_dual _)
    (fun _ _ _ hv => solveUpperAux_dual 0 (luU_dual hP hthr) (solveLowerAux_dual DL.nil (luL_dual hP) hv) hdiag))

variable (e)

/-- **`LULinear.weight()` on dual numbers is sound** (C16): every entry of `lower @ upper` run at dual parameters is
    (entry at the primal parameters, derivative along the parameter direction); side condition: softplus threshold -/
theorem lu_weight_dual_sound (dp : LF.LUParams (ℝ × ℝ)) (hthr : ∀ d ∈ dp.udiag, d.1 ≠ 20) :
    (∀ s, (LF.luWeight (Rr e) (lineP s dp)).map List.length = (LF.luWeight (Dd e) dp).map List.length) ∧
    ∀ r c : ℕ,
      (((LF.luWeight (Dd e) dp).getD r []).getD c (0, 0)).1 = ((LF.luWeight (Rr e) (lineP 0 dp)).getD r []).getD c 0 ∧
      HasDerivAt (fun s => ((LF.luWeight (Rr e) (lineP s dp)).getD r []).getD c 0)
        (((LF.luWeight (Dd e) dp).getD r []).getD c (0, 0)).2 0 :=
  have h := luWeight_dual_curve (e := e) (lineP_curve dp) hthr
  ⟨fun s => h.shape s, fun r c => h.entry r c⟩

/-- **`LULinear.weight_inverse()` on dual numbers is sound** (C16); side conditions: softplus threshold, `eps ≥ 0`, at least
    `n` unconstrained diagonal entries -/
theorem lu_weight_inverse_dual_sound (dp : LF.LUParams (ℝ × ℝ)) (hthr : ∀ d ∈ dp.udiag, d.1 ≠ 20)
    (heps : 0 ≤ dp.eps.1) (hn : dp.n ≤ dp.udiag.length) :
    (∀ s, (LF.luWeightInverse (Rr e) (lineP s dp)).map List.length = (LF.luWeightInverse (Dd e) dp).map List.length) ∧
    ∀ r c : ℕ,
      (((LF.luWeightInverse (Dd e) dp).getD r []).getD c (0, 0)).1
          = ((LF.luWeightInverse (Rr e) (lineP 0 dp)).getD r []).getD c 0 ∧
      HasDerivAt (fun s => ((LF.luWeightInverse (Rr e) (lineP s dp)).getD r []).getD c 0)
        (((LF.luWeightInverse (Dd e) dp).getD r []).getD c (0, 0)).2 0 :=
  have h := luWeightInverse_dual_curve (e := e) (lineP_curve dp) hthr (luU_diag_ne dp hthr heps hn)
  ⟨fun s => h.shape s, fun r c => h.entry r c⟩

example (r c : ℕ) := (lu_weight_dual_sound e exP exP_thr).2 r c
example (r c : ℕ) := (lu_weight_inverse_dual_sound e exP exP_thr (by norm_num [exP]) (by simp [exP])).2 r c

variable {e}

/-! ## 6. further executed programs of the family: `OneByOneConvolution.inverse`, `HouseholderSequence.matrix()`,
    `QRLinear.weight()/weight_inverse()`, `SVDLinear.weight()/weight_inverse()` -/

theorem convLogabsdet_neg_dual {P : ℝ → LF.LUParams ℝ} {dp : LF.LUParams (ℝ × ℝ)} (hP : LUCurve t P dp) (B H W : ℕ)
    (hthr : ∀ d ∈ dp.udiag, d.1 ≠ 20) (hne : ∀ d ∈ dp.udiag, LF.softplus (Rr e) d.1 + dp.eps.1 ≠ 0) :
    DV t (fun s => LF.convLogabsdet (Rr e) (P s) B H W (Rr e).neg) (LF.convLogabsdet (Dd e) dp B H W (Dd e).neg) := by
  unfold LF.convLogabsdet
  exact DL.ofMap _ _ _ (fun _ _ => sum_dual
    (DL.replicate (H * W) (rel := fun f d => IsDual f t d) (IsDual.neg e (luLogabsdet_dual_curve hP hthr hne))))

theorem convInverse_dual_curve {P : ℝ → LF.LUParams ℝ} {dp : LF.LUParams (ℝ × ℝ)} (hP : LUCurve t P dp)
    (perm : List ℕ) (B H W : ℕ) {xs : ℝ → List ℝ} {dxs : List (ℝ × ℝ)} (hx : DV t xs dxs)
    (hthr : ∀ d ∈ dp.udiag, d.1 ≠ 20) (hne : ∀ d ∈ dp.udiag, LF.softplus (Rr e) d.1 + dp.eps.1 ≠ 0)
    (hdiag : ∀ k, k < (LF.luU (Dd e) dp).length → (((LF.luU (Dd e) dp).getD k []).getD (0 + k) (LF.zero (Dd e))).1 ≠ 0) :
    DV t (fun s => (LF.convInverse (Rr e) (P s) perm B H W (xs s)).1) (LF.convInverse (Dd e) dp perm B H W dxs).1 ∧
    DV t (fun s => (LF.convInverse (Rr e) (P s) perm B H W (xs s)).2) (LF.convInverse (Dd e) dp perm B H W dxs).2 := by
  unfold LF.convInverse
  simp only [hP.n]
  exact ⟨permuteChannels_dual _ _ _ _ _ (convUnrows_dual _ _ _ _ (luInverse_dual_curve hP
      (convRows_dual _ _ _ _ hx) hthr hdiag)),
    convLogabsdet_neg_dual hP B H W hthr hne⟩

theorem diagM_dual {d : ℝ → List ℝ} {dd : List (ℝ × ℝ)} (hd : DV t d dd) :
    DM t (fun s => LF.diagM (Rr e) (d s)) (LF.diagM (Dd e) dd) := by
  unfold LF.diagM
  simp only [DL.length hd]
  refine tab2_dual _ _ _ (fun i j => ?_)
  by_cases hij : i = j
  · simp only [if_pos hij]; exact DL.getD' hd i zero_dual
  · simp only [if_neg hij]; exact zero_dual

theorem hhMatrix_dual (n : ℕ) {qs : ℝ → List (List ℝ)} {dqs : List (List (ℝ × ℝ))} (hqs : DM t qs dqs)
    (hne : ∀ dq ∈ dqs, (sqNorm (Dd e) dq).1 ≠ 0) :
    DM t (fun s => LF.hhMatrix (Rr e) n (qs s)) (LF.hhMatrix (Dd e) n dqs) :=
  hhInverse_dual hqs (eye_dual n) hne

theorem qrWeight_dual_curve {P : ℝ → LF.QRParams ℝ} {dp : LF.QRParams (ℝ × ℝ)} (hP : QRCurve t P dp)
    (hne : ∀ dq ∈ dp.qs, (sqNorm (Dd e) dq).1 ≠ 0) :
    DM t (fun s => LF.qrWeight (Rr e) (P s)) (LF.qrWeight (Dd e) dp) := by
  unfold LF.qrWeight; simp only [hP.n]
  exact transpose_dual _ (hhForward_dual hP.qs (transpose_dual _ (qrR_dual hP)) hne)

theorem qrWeightInverse_dual_curve {P : ℝ → LF.QRParams ℝ} {dp : LF.QRParams (ℝ × ℝ)} (hP : QRCurve t P dp)
    (hne : ∀ dq ∈ dp.qs, (sqNorm (Dd e) dq).1 ≠ 0)
    (hdiag : ∀ k, k < (LF.qrR (Dd e) dp).length → (((LF.qrR (Dd e) dp).getD k []).getD (0 + k) (LF.zero (Dd e))).1 ≠ 0) :
    DM t (fun s => LF.qrWeightInverse (Rr e) (P s)) (LF.qrWeightInverse (Dd e) dp) := by
  unfold LF.qrWeightInverse; simp only [hP.n]
  exact hhForward_dual hP.qs (transpose_dual _ (DL.map' (fun s v => LF.solveUpper (Rr e) (LF.qrR (Rr e) (P s)) v)
    (fun v => LF.solveUpper (Dd e) (LF.qrR (Dd e) dp) v) (eye_dual _)
    (fun _ _ _ hv => solveUpperAux_dual 0 (qrR_dual hP) hv hdiag))) hne

theorem svdWeight_dual_curve {P : ℝ → LF.SVDParams ℝ} {dp : LF.SVDParams (ℝ × ℝ)} (hP : SVDCurve t P dp)
    (hthr : ∀ d ∈ dp.udiag, d.1 ≠ 20)
    (hne1 : ∀ dq ∈ dp.qs1, (sqNorm (Dd e) dq).1 ≠ 0) (hne2 : ∀ dq ∈ dp.qs2, (sqNorm (Dd e) dq).1 ≠ 0) :
    DM t (fun s => LF.svdWeight (Rr e) (P s)) (LF.svdWeight (Dd e) dp) := by
  unfold LF.svdWeight; simp only [hP.n]
  exact transpose_dual _ (hhForward_dual hP.qs1
    (transpose_dual _ (hhInverse_dual hP.qs2 (diagM_dual (svdDiag_dual hP hthr)) hne2)) hne1)

theorem svdWeightInverse_dual_curve {P : ℝ → LF.SVDParams ℝ} {dp : LF.SVDParams (ℝ × ℝ)} (hP : SVDCurve t P dp)
    (hthr : ∀ d ∈ dp.udiag, d.1 ≠ 20)
    (hne1 : ∀ dq ∈ dp.qs1, (sqNorm (Dd e) dq).1 ≠ 0) (hne2 : ∀ dq ∈ dp.qs2, (sqNorm (Dd e) dq).1 ≠ 0)
    (hne : ∀ d ∈ LF.svdDiag (Dd e) dp, d.1 ≠ 0) :
    DM t (fun s => LF.svdWeightInverse (Rr e) (P s)) (LF.svdWeightInverse (Dd e) dp) := by
  unfold LF.svdWeightInverse; simp only [hP.n]
  exact transpose_dual _ (hhInverse_dual hP.qs2 (transpose_dual _ (hhForward_dual hP.qs1
    (diagM_dual (DL.map' (fun _ d => (Rr e).div (LF.one (Rr e)) d) (fun d => (Dd e).div (LF.one (Dd e)) d)
      (svdDiag_dual hP hthr) (fun _ d hd ha => IsDual.div e one_dual ha (hne d hd)))) hne1)) hne2)

variable (e)

/-- **`OneByOneConvolution.inverse` on dual numbers is sound** (C16): direction in the flat NCHW input and all `LULinear`
    parameters; both outputs.  Side conditions: threshold, `eps ≥ 0`, at least `n` unconstrained diagonal entries. -/
theorem conv_inverse_dual_sound (dp : LF.LUParams (ℝ × ℝ)) (perm : List ℕ) (B H W : ℕ) (dxs : List (ℝ × ℝ))
    (hthr : ∀ d ∈ dp.udiag, d.1 ≠ 20) (heps : 0 ≤ dp.eps.1) (hn : dp.n ≤ dp.udiag.length) :
    (∀ s, (LF.convInverse (Rr e) (lineP s dp) perm B H W (lineV s dxs)).1.length
          = (LF.convInverse (Dd e) dp perm B H W dxs).1.length ∧
        (LF.convInverse (Rr e) (lineP s dp) perm B H W (lineV s dxs)).2.length
          = (LF.convInverse (Dd e) dp perm B H W dxs).2.length) ∧
    (∀ k : ℕ,
      ((LF.convInverse (Dd e) dp perm B H W dxs).1.getD k (0, 0)).1
          = (LF.convInverse (Rr e) (lineP 0 dp) perm B H W (lineV 0 dxs)).1.getD k 0 ∧
      HasDerivAt (fun s => (LF.convInverse (Rr e) (lineP s dp) perm B H W (lineV s dxs)).1.getD k 0)
        ((LF.convInverse (Dd e) dp perm B H W dxs).1.getD k (0, 0)).2 0) ∧
    (∀ k : ℕ,
      ((LF.convInverse (Dd e) dp perm B H W dxs).2.getD k (0, 0)).1
          = (LF.convInverse (Rr e) (lineP 0 dp) perm B H W (lineV 0 dxs)).2.getD k 0 ∧
      HasDerivAt (fun s => (LF.convInverse (Rr e) (lineP s dp) perm B H W (lineV s dxs)).2.getD k 0)
        ((LF.convInverse (Dd e) dp perm B H W dxs).2.getD k (0, 0)).2 0) := by
  have hne : ∀ d ∈ dp.udiag, LF.softplus (Rr e) d.1 + dp.eps.1 ≠ 0 := fun d _ => by
    have h : 0 < LF.softplus (Rr e) d.1 := LFIndex.softplus_real_pos d.1
    exact (add_pos_of_pos_of_nonneg h heps).ne'
  obtain ⟨h1, h2⟩ := convInverse_dual_curve (e := e) (lineP_curve dp) perm B H W (lineV_dual dxs) hthr hne
    (luU_diag_ne dp hthr heps hn)
  exact ⟨fun s => ⟨DL.length h1 s, DL.length h2 s⟩, fun k => h1.entry k, fun k => h2.entry k⟩

example (k : ℕ) := (conv_inverse_dual_sound e exP [1, 0] 1 1 2 [(1, 1), (2, 0), (0, 0), (-1, 1)] exP_thr
  (by norm_num [exP]) (by simp [exP])).2.1 k

/-- **`HouseholderSequence.matrix()` on dual numbers is sound** (C16) -/
theorem hh_matrix_dual_sound (n : ℕ) (dqs : List (List (ℝ × ℝ))) (hq : QNonzero dqs) :
    (∀ s, (LF.hhMatrix (Rr e) n (lineM s dqs)).map List.length = (LF.hhMatrix (Dd e) n dqs).map List.length) ∧
    ∀ r c : ℕ,
      (((LF.hhMatrix (Dd e) n dqs).getD r []).getD c (0, 0)).1 = ((LF.hhMatrix (Rr e) n (lineM 0 dqs)).getD r []).getD c 0 ∧
      HasDerivAt (fun s => ((LF.hhMatrix (Rr e) n (lineM s dqs)).getD r []).getD c 0)
        (((LF.hhMatrix (Dd e) n dqs).getD r []).getD c (0, 0)).2 0 :=
  have h := hhMatrix_dual (e := e) n (lineM_dual dqs) (sqNorm_D_ne hq)
  ⟨fun s => h.shape s, fun r c => h.entry r c⟩

/-- **`QRLinear.weight()` on dual numbers is sound** (C16) -/
theorem qr_weight_dual_sound (dp : LF.QRParams (ℝ × ℝ)) (hq : QNonzero dp.qs) :
    (∀ s, (LF.qrWeight (Rr e) (lineQR s dp)).map List.length = (LF.qrWeight (Dd e) dp).map List.length) ∧
    ∀ r c : ℕ,
      (((LF.qrWeight (Dd e) dp).getD r []).getD c (0, 0)).1 = ((LF.qrWeight (Rr e) (lineQR 0 dp)).getD r []).getD c 0 ∧
      HasDerivAt (fun s => ((LF.qrWeight (Rr e) (lineQR s dp)).getD r []).getD c 0)
        (((LF.qrWeight (Dd e) dp).getD r []).getD c (0, 0)).2 0 :=
  have h := qrWeight_dual_curve (e := e) (lineQR_curve dp) (sqNorm_D_ne hq)
  ⟨fun s => h.shape s, fun r c => h.entry r c⟩

/-- **`QRLinear.weight_inverse()` on dual numbers is sound** (C16) -/
theorem qr_weight_inverse_dual_sound (dp : LF.QRParams (ℝ × ℝ)) (hq : QNonzero dp.qs) (hn : dp.n ≤ dp.logDiag.length) :
    (∀ s, (LF.qrWeightInverse (Rr e) (lineQR s dp)).map List.length = (LF.qrWeightInverse (Dd e) dp).map List.length) ∧
    ∀ r c : ℕ,
      (((LF.qrWeightInverse (Dd e) dp).getD r []).getD c (0, 0)).1
          = ((LF.qrWeightInverse (Rr e) (lineQR 0 dp)).getD r []).getD c 0 ∧
      HasDerivAt (fun s => ((LF.qrWeightInverse (Rr e) (lineQR s dp)).getD r []).getD c 0)
        (((LF.qrWeightInverse (Dd e) dp).getD r []).getD c (0, 0)).2 0 :=
  have h := qrWeightInverse_dual_curve (e := e) (lineQR_curve dp) (sqNorm_D_ne hq) (qrR_diag_ne dp hn)
  ⟨fun s => h.shape s, fun r c => h.entry r c⟩

/-- **`SVDLinear.weight()` on dual numbers is sound** (C16) -/
theorem svd_weight_dual_sound (dp : LF.SVDParams (ℝ × ℝ)) (hthr : ∀ d ∈ dp.udiag, d.1 ≠ 20)
    (hq1 : QNonzero dp.qs1) (hq2 : QNonzero dp.qs2) :
    (∀ s, (LF.svdWeight (Rr e) (lineSVD s dp)).map List.length = (LF.svdWeight (Dd e) dp).map List.length) ∧
    ∀ r c : ℕ,
      (((LF.svdWeight (Dd e) dp).getD r []).getD c (0, 0)).1 = ((LF.svdWeight (Rr e) (lineSVD 0 dp)).getD r []).getD c 0 ∧
      HasDerivAt (fun s => ((LF.svdWeight (Rr e) (lineSVD s dp)).getD r []).getD c 0)
        (((LF.svdWeight (Dd e) dp).getD r []).getD c (0, 0)).2 0 :=
  have h := svdWeight_dual_curve (e := e) (lineSVD_curve dp) hthr (sqNorm_D_ne hq1) (sqNorm_D_ne hq2)
  ⟨fun s => h.shape s, fun r c => h.entry r c⟩

/-- **`SVDLinear.weight_inverse()` on dual numbers is sound** (C16) -/
theorem svd_weight_inverse_dual_sound (dp : LF.SVDParams (ℝ × ℝ)) (hthr : ∀ d ∈ dp.udiag, d.1 ≠ 20)
    (heps : 0 ≤ dp.eps.1) (hq1 : QNonzero dp.qs1) (hq2 : QNonzero dp.qs2) :
    (∀ s, (LF.svdWeightInverse (Rr e) (lineSVD s dp)).map List.length
        = (LF.svdWeightInverse (Dd e) dp).map List.length) ∧
    ∀ r c : ℕ,
      (((LF.svdWeightInverse (Dd e) dp).getD r []).getD c (0, 0)).1
          = ((LF.svdWeightInverse (Rr e) (lineSVD 0 dp)).getD r []).getD c 0 ∧
      HasDerivAt (fun s => ((LF.svdWeightInverse (Rr e) (lineSVD s dp)).getD r []).getD c 0)
        (((LF.svdWeightInverse (Dd e) dp).getD r []).getD c (0, 0)).2 0 :=
  have h := svdWeightInverse_dual_curve (e := e) (lineSVD_curve dp) hthr (sqNorm_D_ne hq1) (sqNorm_D_ne hq2)
    (svdDiag_ne dp hthr heps)
  ⟨fun s => h.shape s, fun r c => h.entry r c⟩

example (r c : ℕ) := (hh_matrix_dual_sound e 2 exQ exQ_nonzero).2 r c
example (r c : ℕ) := (qr_weight_dual_sound e exQR exQ_nonzero).2 r c
example (r c : ℕ) := (qr_weight_inverse_dual_sound e exQR exQ_nonzero (by simp [exQR])).2 r c
example (r c : ℕ) := (svd_weight_dual_sound e exSVD exSVD_thr exQ_nonzero exQ_nonzero).2 r c
example (r c : ℕ) :=
  (svd_weight_inverse_dual_sound e exSVD exSVD_thr (by norm_num [exSVD]) exQ_nonzero exQ_nonzero).2 r c

/-! ### the threshold hypothesis of the `SVDLinear` headlines is forced -/

/-- the `1 × 1` layer without reflections, unconstrained diagonal `20` (AT the threshold) moving with velocity `1`, input `1` -/
def thrSVD : LF.SVDParams (ℝ × ℝ) := ⟨1, [(20, 1)], [], [], [(0, 0)], (0, 0)⟩

theorem thr_svd_forward_eq (s : ℝ) :
    ((LF.svdForward (Rr e) (lineSVD s thrSVD) (lineM s [[(1, 0)]])).getD 0 []).getD 0 0
      = (NF.realX e).softplus (20 + s) := by
  rw [← softplus_R_eq]
  simp [LF.svdForward, LF.hhForward, LF.hhSeq, LF.svdDiag, LF.addV, lineSVD, lineM, lineV, DualXLU.line, thrSVD]

/-- **the hypothesis `≠ 20` of `svd_forward_dual_sound` cannot be dropped** (same jump of the executed softplus as in
    `DualXLU.lu_forward_not_differentiable_at_threshold`) -/
theorem svd_forward_not_differentiable_at_threshold :
    ¬ ∃ d' : ℝ, HasDerivAt
      (fun s => ((LF.svdForward (Rr e) (lineSVD s thrSVD) (lineM s [[(1, 0)]])).getD 0 []).getD 0 0) d' 0 := by
  rintro ⟨d', h⟩
  have hc : ContinuousAt (fun s => (NF.realX e).softplus (20 + s)) 0 := by
    have := h.continuousAt
    rwa [show (fun s => ((LF.svdForward (Rr e) (lineSVD s thrSVD) (lineM s [[(1, 0)]])).getD 0 []).getD 0 0)
      = fun s => (NF.realX e).softplus (20 + s) from funext (thr_svd_forward_eq e)] at this
  refine NF.MadeSmooth.softplus_not_continuousAt_threshold e ?_
  have h2 : ContinuousAt (fun x : ℝ => x - 20) 20 := (continuous_id.sub continuous_const).continuousAt
  have hc' : ContinuousAt (fun s => (NF.realX e).softplus (20 + s)) ((fun x : ℝ => x - 20) 20) := by
    simpa using hc
  have := ContinuousAt.comp (g := fun s => (NF.realX e).softplus (20 + s)) (f := fun x : ℝ => x - 20) hc' h2
  refine this.congr (Filter.Eventually.of_forall fun x => ?_)
  simp

end
end DualXOrth
