import NflowsModel.Lemmas.DualXRQInvParam
import NflowsModel.Lemmas.DualXLinParam
import NflowsModel.Lemmas.DualXQuadParam
import NflowsModel.Lemmas.DualXCoupling
import NflowsModel.Lemmas.DualXCouplingInv
/-!
# Lemmas/DualXParam2 — forward-mode AD (dual numbers) of the EXECUTED programs: the remaining parameter directions and the
chain rule through the executed coupling layer (C16: gradients w.r.t. inputs AND parameters are correct)

Collected by import (every headline: `∃ v' l', dual run = .ok ((real value, v'), (real log-det, l')) ∧ HasDerivAt … v' ∧
HasDerivAt … l'` along the line `s ↦ (params + s·dir, input + s·input')` at `s = 0`, or along ANY differentiable curve):

* `Lemmas/DualXRQInvParam.lean` — `DualX.rqSpline_dual_inv_param` (+ `_curve`, `_core`, `_exec`, `_fixed_y`, `_example`): the
  executed rational-quadratic INVERSE program, every parameter direction and the input direction;
* `Lemmas/DualXLinParam.lean` — `DualXLin.linSpline_dual_param` (+ `_core`, `_fixed_x`, `_example`): executed linear spline;
* `Lemmas/DualXQuadParamCore.lean`, `Lemmas/DualXQuadParam.lean` — `DualXQuadParam.quadSpline_dual_param`,
  `quadSpline_dual_param_T` (+ `_fixed_x`, `_example`): executed quadratic spline, both shapes (K+1 and tails K−1);
* `Lemmas/DualXCoupling.lean` — `DualX.rqSpline_dual_param_curve`, `DualXCoupling.elTransform_rq_dual`,
  `coupling_rq_dual_out`, `coupling_rq_dual_ld`, `coupling_rq_dual_err_none`: chain rule through the executed coupling layer
  (bounded RQ element), forward direction; the conditioner is ANY map whose recorded dual output is its (value, derivative);
* `Lemmas/DualXCouplingInv.lean` — the same for the INVERSE direction of the layer (`elTransform_rq_dual_inv`,
  `coupling_rq_dual_out_inv`, `coupling_rq_dual_ld_inv`, `coupling_rq_dual_err_none_inv`).
-/
