import NflowsModel.Lemmas.DualXRQInv
import NflowsModel.Lemmas.TailsWhole
/-!
# Lemmas/DualXTails — the EXECUTED rational-quadratic spline WITH LINEAR TAILS run on dual numbers (C16)

Subject: `rqSplineTails (dualX (NF.realX e)) tb minW minH minD beta (uw.map ι) (uh.map ι) (ud.map ι) inverse (x, 1)`
(zero-tangent parameters, seed tangent 1 on the input), both directions, under `TailsWhole.RQTailsValid`.

* `tails_unfold_dual`: the guard of the dual program looks at the value component only; inside `[-B, B]` the run IS the
  inner `rqSpline` dual run on the box `[-B,B]²` with the padded derivative vector `(udT …).map ι`, outside it is
  `((x, t), (0, 0))`.
* `rqSplineTails_dual_outside(_inv)`: outside the box the run returns `((x, 1), (0, 0))`, which is (value, derivative) of
  the two real outputs (`valT` is locally the identity, `ldT` locally the constant 0).
* `rqSplineTails_dual_bin(_inv)`: strictly inside a bin the run returns `((valT x, exp (ldT x)), (ldT x, l'))` with
  `HasDerivAt valT (exp (ldT x)) x` and `HasDerivAt ldT l' x`.
* `rqSplineTails_dual_all(_inv)`: at EVERY real `x` that is not a knot (the junctions `±B` are the first / last knot) the
  run returns (value, derivative) pairs of both real outputs, and the value tangent is `exp` of the returned log-abs-det.
* `rqSpline_dual_closed`, `rqSplineTails_dual_value_all`: the VALUE tangent is right at every real `x` (junctions and
  interior knots included) when the padding constant is read exactly (`PadExact`).
* inverse direction of the same: `rq_inv_closed`, `rqRoot_closed_smooth`, `rqInv_bin_dual_closed` (the root term is smooth
  on the CLOSED y-bin: the discriminant is `(h d0)²` resp. `(h d1)²` at the two ends), `inv_eqOn_bin`,
  `rqSpline_dual_inv_closed`, `rqSplineTails_dual_value_all_inv`.
* `rq_example_outside`, `rq_example_inside`, `rq_example_inside_inv`: non-vacuity at `TailsWhole.rq_valid_example`.
-/
set_option linter.unusedSimpArgs false
open NF DualSound Filter Topology

namespace DualXTails
noncomputable section
open DualX RQWhole RQInverseWhole TailsWhole

variable {e : Float → ℝ} {tb minW minH minD beta : Float} {uw uh ud : List ℝ}

local notation "CF" => cfgT tb minW minH minD beta
local notation "UD" => udT e minD ud
local notation "VT" => valT e tb minW minH minD beta uw uh ud
local notation "LT" => ldT e tb minW minH minD beta uw uh ud
local notation "IT" => invT e tb minW minH minD beta uw uh ud
local notation "ILT" => invLdT e tb minW minH minD beta uw uh ud
local notation "HV" => RQTailsValid e tb minW minH minD beta uw uh ud
/-- the executed tails program on dual numbers, zero-tangent parameters -/
local notation "DRUN" =>
  rqSplineTails (dualX (NF.realX e)) tb minW minH minD beta (List.map ι uw) (List.map ι uh) (List.map ι ud)
/-- the inner executed program on dual numbers, on the box `[-B,B]²`, padded zero-tangent derivative vector -/
local notation "DINNER" =>
  rqSpline (dualX (NF.realX e)) (cfgT tb minW minH minD beta) (List.map ι uw) (List.map ι uh)
    (List.map ι (udT e minD ud))

/-! ## the wrapper on dual numbers -/

/-- **the dual tails program, unfolded**: the inside test sees only the value component; inside it runs the inner dual
    program with the padded (zero-tangent) derivative vector, outside it returns the input and a zero log-abs-det -/
theorem tails_unfold_dual (inverse : Bool) (z : ℝ × ℝ) :
    DRUN inverse z = if -e tb ≤ z.1 ∧ z.1 ≤ e tb then DINNER inverse z else .ok (z, (0, 0)) := by
  unfold rqSplineTails
  simp only [XOps.ge, d_le, d_neg, d_ofFloat, Bool.and_eq_true, decide_eq_true_eq, d_zero, udT, cstT, List.map_cons,
    List.map_append, List.map_nil, ι]
  rfl

theorem dual_run_outside (inverse : Bool) (x t : ℝ) (h : x < -e tb ∨ e tb < x) :
    DRUN inverse (x, t) = .ok ((x, t), (0, 0)) := by
  have hn : ¬ (-e tb ≤ x ∧ x ≤ e tb) := by rintro ⟨h0, h1⟩; rcases h with h | h <;> linarith
  rw [tails_unfold_dual]; exact if_neg hn

/-- inside `[-B, B]` the dual tails run IS the inner program's dual run -/
theorem dual_run_inside (inverse : Bool) (x t : ℝ) (h0 : -e tb ≤ x) (h1 : x ≤ e tb) :
    DRUN inverse (x, t) = DINNER inverse (x, t) := by
  rw [tails_unfold_dual]; exact if_pos ⟨h0, h1⟩

/-! ## outside the box -/

theorem ldT_hasDerivAt_outside (x : ℝ) (h : x < -e tb ∨ e tb < x) : HasDerivAt LT 0 x := by
  have hev : LT =ᶠ[𝓝 x] fun _ => (0:ℝ) := by
    rcases h with h | h
    · exact Filter.eventuallyEq_of_mem (Iio_mem_nhds h) (fun z hz => (valT_outside z (Or.inl hz)).2)
    · exact Filter.eventuallyEq_of_mem (Ioi_mem_nhds h) (fun z hz => (valT_outside z (Or.inr hz)).2)
  exact (hasDerivAt_const x (0:ℝ)).congr_of_eventuallyEq hev

theorem invLdT_hasDerivAt_outside (y : ℝ) (h : y < -e tb ∨ e tb < y) : HasDerivAt ILT 0 y := by
  have hev : ILT =ᶠ[𝓝 y] fun _ => (0:ℝ) := by
    rcases h with h | h
    · exact Filter.eventuallyEq_of_mem (Iio_mem_nhds h) (fun z hz => (invT_outside z (Or.inl hz)).2)
    · exact Filter.eventuallyEq_of_mem (Ioi_mem_nhds h) (fun z hz => (invT_outside z (Or.inr hz)).2)
  exact (hasDerivAt_const y (0:ℝ)).congr_of_eventuallyEq hev

/-- **outside `[-B, B]`, forward** (no hypothesis): the dual run returns `((x, 1), (0, 0))`, and that is (value, derivative)
    of the two real outputs -/
theorem rqSplineTails_dual_outside (x : ℝ) (h : x < -e tb ∨ e tb < x) :
    DRUN false (x, 1) = .ok ((x, 1), (0, 0)) ∧ VT x = x ∧ LT x = 0 ∧ HasDerivAt VT 1 x ∧ HasDerivAt LT 0 x := by
  have ho : VT x = x ∧ LT x = 0 := valT_outside x h
  have hd : HasDerivAt VT (Real.exp (LT x)) x := valT_hasDerivAt_outside x h
  rw [ho.2, Real.exp_zero] at hd
  exact ⟨dual_run_outside false x 1 h, ho.1, ho.2, hd, ldT_hasDerivAt_outside x h⟩

/-- **outside `[-B, B]`, inverse** (no hypothesis) -/
theorem rqSplineTails_dual_outside_inv (y : ℝ) (h : y < -e tb ∨ e tb < y) :
    DRUN true (y, 1) = .ok ((y, 1), (0, 0)) ∧ IT y = y ∧ ILT y = 0 ∧ HasDerivAt IT 1 y ∧ HasDerivAt ILT 0 y := by
  have ho : IT y = y ∧ ILT y = 0 := invT_outside y h
  have hd : HasDerivAt IT (Real.exp (ILT y)) y := invT_hasDerivAt_outside y h
  rw [ho.2, Real.exp_zero] at hd
  exact ⟨dual_run_outside true y 1 h, ho.1, ho.2, hd, invLdT_hasDerivAt_outside y h⟩

/-! ## strictly inside a bin -/

/-- **strictly inside bin `k`, forward**: the dual tails run equals the inner dual run and returns
    `((valT x, exp (ldT x)), (ldT x, l'))`, the real outputs with tangents the derivatives of the real outputs -/
theorem rqSplineTails_dual_bin (hv : HV) (k : ℕ) (hk : k < uw.length) (x : ℝ)
    (h0 : xs e CF uw k < x) (h1 : x < xs e CF uw (k+1)) :
    ∃ l' : ℝ, DRUN false (x, 1) = .ok ((VT x, Real.exp (LT x)), (LT x, l')) ∧
      DRUN false (x, 1) = DINNER false (x, 1) ∧
      HasDerivAt VT (Real.exp (LT x)) x ∧ HasDerivAt LT l' x := by
  have hx0 : -e tb < x := lt_of_le_of_lt (knot_mem hv k hk.le).1 h0
  have hx1 : x < e tb := lt_of_lt_of_le h1 (knot_mem hv (k+1) hk).2
  obtain ⟨l', hr, -, hdl⟩ := rqSpline_dual hv.inner k hk x h0 h1
  have hin : VT x = val e CF uw uh UD x ∧ LT x = ld e CF uw uh UD x := valT_inside x hx0.le hx1.le
  refine ⟨l', ?_, dual_run_inside false x 1 hx0.le hx1.le, valT_hasDerivAt_bin hv k hk x h0 h1, ?_⟩
  · rw [dual_run_inside false x 1 hx0.le hx1.le, hr, hin.1, hin.2]
  · have hev : LT =ᶠ[𝓝 x] ld e CF uw uh UD :=
      Filter.eventuallyEq_of_mem (Ioo_mem_nhds hx0 hx1) (fun z hz => (valT_inside z hz.1.le hz.2.le).2)
    exact hdl.congr_of_eventuallyEq hev

/-- **strictly inside y-bin `k`, inverse** -/
theorem rqSplineTails_dual_bin_inv (hv : HV) (k : ℕ) (hk : k < uw.length) (y : ℝ)
    (h0 : ys e CF uh k < y) (h1 : y < ys e CF uh (k+1)) :
    ∃ l' : ℝ, DRUN true (y, 1) = .ok ((IT y, Real.exp (ILT y)), (ILT y, l')) ∧
      DRUN true (y, 1) = DINNER true (y, 1) ∧
      HasDerivAt IT (Real.exp (ILT y)) y ∧ HasDerivAt ILT l' y := by
  have hy0 : -e tb < y := lt_of_le_of_lt (knot_mem_yT hv k hk.le).1 h0
  have hy1 : y < e tb := lt_of_lt_of_le h1 (knot_mem_yT hv (k+1) hk).2
  obtain ⟨l', hr, -, hdl⟩ := rqSpline_dual_inv hv.inner k hk y h0 h1
  have hin : IT y = inv e CF uw uh UD y ∧ ILT y = invLd e CF uw uh UD y := invT_inside y hy0.le hy1.le
  refine ⟨l', ?_, dual_run_inside true y 1 hy0.le hy1.le, invT_hasDerivAt_bin hv k hk y h0 h1, ?_⟩
  · rw [dual_run_inside true y 1 hy0.le hy1.le, hr, hin.1, hin.2]
  · have hev : ILT =ᶠ[𝓝 y] invLd e CF uw uh UD :=
      Filter.eventuallyEq_of_mem (Ioo_mem_nhds hy0 hy1) (fun z hz => (invT_inside z hz.1.le hz.2.le).2)
    exact hdl.congr_of_eventuallyEq hev

/-! ## every real point that is not a knot -/

/-- **C16 for the executed tails program, forward, at EVERY non-knot real `x`** (the junctions `±B` are the knots `0` and
    `K`): the dual run returns (value, derivative) pairs of BOTH real outputs, and the value tangent is `exp` of the
    log-abs-det the program returns -/
theorem rqSplineTails_dual_all (hv : HV) (x : ℝ) (hk : ∀ j ≤ uw.length, x ≠ xs e CF uw j) :
    ∃ v' l' : ℝ, DRUN false (x, 1) = .ok ((VT x, v'), (LT x, l')) ∧
      HasDerivAt VT v' x ∧ HasDerivAt LT l' x ∧ v' = Real.exp (LT x) := by
  by_cases ho : x < -e tb ∨ e tb < x
  · obtain ⟨hr, hv1, hl1, hdv, hdl⟩ :=
      rqSplineTails_dual_outside (minW := minW) (minH := minH) (minD := minD) (beta := beta) (uw := uw) (uh := uh)
        (ud := ud) x ho
    refine ⟨1, 0, ?_, hdv, hdl, ?_⟩
    · rw [hr, hv1, hl1]
    · rw [hl1, Real.exp_zero]
  · have hx0 : -e tb ≤ x := not_lt.mp (fun h => ho (Or.inl h))
    have hx1 : x ≤ e tb := not_lt.mp (fun h => ho (Or.inr h))
    have hi := hv.inner
    have hz : xs e CF uw 0 = -e tb := by rw [xs_zero hi]; exact hv.hneg
    have hl : xs e CF uw uw.length = e tb := xs_last hi
    obtain ⟨hiK, hle, hr⟩ := (RQWhole.search_spec hi).1 x (by rw [hz]; exact hx0) (by rw [hl]; exact hx1)
    have hlt0 : xs e CF uw (idx e CF uw x) < x := lt_of_le_of_ne hle (fun h => hk _ hiK.le h.symm)
    have hlt1 : x < xs e CF uw (idx e CF uw x + 1) := by
      rcases hr with hr | ⟨_, hr⟩
      · exact hr
      · exact absurd hr (hk _ le_rfl)
    obtain ⟨l', hr', -, hdv, hdl⟩ := rqSplineTails_dual_bin hv _ hiK x hlt0 hlt1
    exact ⟨_, l', hr', hdv, hdl, rfl⟩

/-- **C16 for the executed tails program, inverse, at EVERY non-knot real `y`** (y-knots) -/
theorem rqSplineTails_dual_all_inv (hv : HV) (y : ℝ) (hk : ∀ j ≤ uw.length, y ≠ ys e CF uh j) :
    ∃ v' l' : ℝ, DRUN true (y, 1) = .ok ((IT y, v'), (ILT y, l')) ∧
      HasDerivAt IT v' y ∧ HasDerivAt ILT l' y ∧ v' = Real.exp (ILT y) := by
  by_cases ho : y < -e tb ∨ e tb < y
  · obtain ⟨hr, hv1, hl1, hdv, hdl⟩ :=
      rqSplineTails_dual_outside_inv (minW := minW) (minH := minH) (minD := minD) (beta := beta) (uw := uw) (uh := uh)
        (ud := ud) y ho
    refine ⟨1, 0, ?_, hdv, hdl, ?_⟩
    · rw [hr, hv1, hl1]
    · rw [hl1, Real.exp_zero]
  · have hy0 : -e tb ≤ y := not_lt.mp (fun h => ho (Or.inl h))
    have hy1 : y ≤ e tb := not_lt.mp (fun h => ho (Or.inr h))
    have hi := hv.inner
    have hz : ys e CF uh 0 = -e tb := by rw [ys_zero hi]; exact hv.hneg
    have hl : ys e CF uh uw.length = e tb := ys_last hi
    obtain ⟨hiK, hle, hr⟩ := (RQInverseWhole.search_spec hi).1 y (by rw [hz]; exact hy0) (by rw [hl]; exact hy1)
    have hlt0 : ys e CF uh (idxI e CF uh y) < y := lt_of_le_of_ne hle (fun h => hk _ hiK.le h.symm)
    have hlt1 : y < ys e CF uh (idxI e CF uh y + 1) := by
      rcases hr with hr | ⟨_, hr⟩
      · exact hr
      · exact absurd hr (hk _ le_rfl)
    obtain ⟨l', hr', -, hdv, hdl⟩ := rqSplineTails_dual_bin_inv hv _ hiK y hlt0 hlt1
    exact ⟨_, l', hr', hdv, hdl, rfl⟩

/-- the form with the junctions spelled out (they are knots, so the two extra hypotheses are redundant) -/
theorem rqSplineTails_dual_all' (hv : HV) (x : ℝ) (_hl : x ≠ -e tb) (_hr : x ≠ e tb)
    (hk : ∀ j ≤ uw.length, x ≠ xs e CF uw j) :
    ∃ v' l' : ℝ, DRUN false (x, 1) = .ok ((VT x, v'), (LT x, l')) ∧
      HasDerivAt VT v' x ∧ HasDerivAt LT l' x ∧ v' = Real.exp (LT x) :=
  rqSplineTails_dual_all hv x hk

theorem rqSplineTails_dual_all_inv' (hv : HV) (y : ℝ) (_hl : y ≠ -e tb) (_hr : y ≠ e tb)
    (hk : ∀ j ≤ uw.length, y ≠ ys e CF uh j) :
    ∃ v' l' : ℝ, DRUN true (y, 1) = .ok ((IT y, v'), (ILT y, l')) ∧
      HasDerivAt IT v' y ∧ HasDerivAt ILT l' y ∧ v' = Real.exp (ILT y) :=
  rqSplineTails_dual_all_inv hv y hk

/-! ## the VALUE tangent at every point of the closed box (knots included) -/

section closed
variable {c : RQCfg} {uw uh ud : List ℝ}

/-- **the bounded executed RQ spline on dual numbers at EVERY `x` of the closed box** (knots and end-points included):
    value components are the real outputs and the tangent of the value is `exp` of the returned log-abs-det (the
    derivative of the selected bin's formula, which at a knot is the one-sided derivative from the right, resp. from the
    left at the right end; by `TailsWhole.val_hasDerivAt_all` it is the two-sided derivative at every interior point) -/
theorem rqSpline_dual_closed (hi : RQValid e c uw uh ud) (x : ℝ) (hx0 : e c.box.left ≤ x) (hx1 : x ≤ e c.box.right) :
    ∃ l' : ℝ, rqSpline (dualX (NF.realX e)) c (uw.map ι) (uh.map ι) (ud.map ι) false (x, 1)
        = .ok ((val e c uw uh ud x, Real.exp (ld e c uw uh ud x)), (ld e c uw uh ud x, l')) := by
  obtain ⟨hiK, hle, hr⟩ := (RQWhole.search_spec hi).1 x (by rw [xs_zero hi]; exact hx0) (by rw [xs_last hi]; exact hx1)
  have hexec := rqSpline_dual_exec hi x hx0 hx1
  have hval : val e c uw uh ud x = binVal e c uw uh ud (idx e c uw x) x := val_eq hi x hx0 hx1
  have hld : ld e c uw uh ud x = binLd e c uw uh ud (idx e c uw x) x := ld_eq hi x hx0 hx1
  generalize idx e c uw x = k at hiK hle hr hexec hval hld
  have hle1 : x ≤ xs e c uw (k+1) := by
    rcases hr with hr | ⟨hK, hr⟩
    · exact hr.le
    · rw [hK]; exact hr.le
  have hw : 0 < xs e c uw (k+1) - xs e c uw k := sub_pos.mpr (xs_strict hi k hiK)
  have hh : 0 < ys e c uh (k+1) - ys e c uh k := sub_pos.mpr (ys_strict hi k hiK)
  have hd0 := ds_pos hi k (by omega)
  have hd1 := ds_pos hi (k+1) (by omega)
  have hxr : x ≤ xs e c uw k + (xs e c uw (k+1) - xs e c uw k) := by linarith
  have hY := rqFwdE_dual e (yk := ys e c uh k) hw hh hd0 hd1 hle hxr
  have hLd := rqFwdLdE_dual e (yk := ys e c uh k) hw hh hd0 hd1 hle hxr
  have hder := RQBin.rq_executed_logdet (xk := xs e c uw k) (yk := ys e c uh k) (x := x) hw hh hd0 hd1 hle hxr
  have huniq := hY.2.unique hder
  refine ⟨(evalX (dualX (NF.realX e)) [(x, 1), ι (xs e c uw k), ι (xs e c uw (k + 1) - xs e c uw k), ι (ys e c uh k),
    ι (ys e c uh (k + 1) - ys e c uh k), ι (ds e c ud k), ι (ds e c ud (k + 1))] rqFwdLdE).2, ?_⟩
  rw [hexec]
  congr 1
  refine Prod.ext (Prod.ext ?_ ?_) (Prod.ext ?_ rfl)
  · show _ = val e c uw uh ud x
    rw [hval]; exact hY.1
  · show _ = Real.exp (ld e c uw uh ud x)
    rw [huniq, hld]; rfl
  · show _ = ld e c uw uh ud x
    rw [hld]; exact hLd.1

/-! ### inverse direction: the root term is smooth on the CLOSED bin -/

/-- on the closed bin (`0 ≤ Δ ≤ h`) the discriminant is POSITIVE and the denominator `-b - √disc` of the stable root is
    negative (at `Δ = 0` the discriminant is `(h d0)²`, at `Δ = h` it is `(h d1)²`) -/
theorem rq_inv_closed {s d0 d1 h Δ : ℝ} (hs : 0 < s) (hh : 0 < h) (h0 : 0 < d0) (h1 : 0 < d1)
    (hΔ0 : 0 ≤ Δ) (hΔ1 : Δ ≤ h) :
    0 < (RQ.qb s d0 d1 h Δ) ^ 2 - 4 * RQ.qa s d0 d1 h Δ * RQ.qc s Δ ∧
    - RQ.qb s d0 d1 h Δ - Real.sqrt ((RQ.qb s d0 d1 h Δ) ^ 2 - 4 * RQ.qa s d0 d1 h Δ * RQ.qc s Δ) < 0 := by
  rcases eq_or_lt_of_le hΔ0 with heq | hpos
  · rw [← heq]
    have hb : RQ.qb s d0 d1 h 0 = h * d0 := by simp [RQ.qb]
    have hc : RQ.qc s 0 = 0 := by simp [RQ.qc]
    have hp : 0 < h * d0 := mul_pos hh h0
    rw [hb, hc, mul_zero, sub_zero]
    refine ⟨by positivity, ?_⟩
    have := Real.sqrt_nonneg ((h * d0) ^ 2)
    linarith
  · rcases eq_or_lt_of_le hΔ1 with heq | hlt
    · rw [heq]
      have hd : (RQ.qb s d0 d1 h h) ^ 2 - 4 * RQ.qa s d0 d1 h h * RQ.qc s h = (h * d1) ^ 2 := by
        simp only [RQ.qa, RQ.qb, RQ.qc]; ring
      have hp : 0 < h * d1 := mul_pos hh h1
      rw [hd, Real.sqrt_sq hp.le]
      refine ⟨by positivity, ?_⟩
      have hb : - RQ.qb s d0 d1 h h - h * d1 = -(2 * (h * s)) := by simp only [RQ.qb]; ring
      rw [hb]
      have := mul_pos hh hs
      linarith
    · exact rq_inv_interior hs hpos hlt

/-- smoothness of the executed root term on the CLOSED bin -/
theorem rqRoot_closed_smooth {y xk w yk h d0 d1 : ℝ} (hw : 0 < w) (hh : 0 < h) (h0 : 0 < d0) (h1 : 0 < d1)
    (hy0 : yk ≤ y) (hy1 : y ≤ yk + h) :
    Smooth (Bridge.rqEnv y xk w yk h d0 d1) rqRootE := by
  have hs : 0 < h / w := div_pos hh hw
  obtain ⟨hdisc, hden⟩ := rq_inv_closed hs hh h0 h1 (sub_nonneg.mpr hy0) (by linarith : y - yk ≤ h)
  rw [← RQInverseWhole.rqDiscE_eq y xk w yk h d0 d1] at hdisc
  rw [← rqRootDen_eq y xk w yk h d0 d1] at hden
  have hD : Smooth (Bridge.rqEnv y xk w yk h d0 d1) rqDiscE := by
    simp only [rqDiscE, NF.v, Expr.add_def, Expr.sub_def, Expr.mul_def, Expr.div_def, Expr.ofNat_def, Smooth, evalR_var,
      Bridge.rqEnv2, true_and, and_true, ne_eq, hw.ne', not_false_eq_true, and_self]
  show Smooth _ (Expr.div _ (Expr.sub (Expr.neg _) (Expr.sqrt rqDiscE)))
  refine ⟨?_, ⟨?_, hD, hdisc.ne'⟩, ?_⟩
  · simp only [NF.v, Expr.add_def, Expr.sub_def, Expr.mul_def, Expr.div_def, Expr.ofNat_def, Smooth, evalR_var,
      Bridge.rqEnv2, true_and, and_true, ne_eq, hw.ne', not_false_eq_true, and_self]
  · simp only [NF.v, Expr.add_def, Expr.sub_def, Expr.mul_def, Expr.div_def, Expr.ofNat_def, Smooth, evalR_var,
      Bridge.rqEnv2, true_and, and_true, ne_eq, hw.ne', not_false_eq_true, and_self]
  · refine ne_of_eq_of_ne ?_ hden.ne
    simp only [NF.v, Expr.add_def, Expr.sub_def, Expr.mul_def, Expr.div_def, Expr.ofNat_def, evalR_sub, evalR_neg,
      evalR_sqrt, evalR_mul, evalR_add, evalR_div, evalR_var, evalR_lit, Bridge.rqEnv0, Bridge.rqEnv2, Bridge.rqEnv3,
      Bridge.rqEnv4, Bridge.rqEnv5, Bridge.rqEnv6]
    norm_num

/-- per-bin soundness of the inverse terms on the CLOSED y-bin: the dual terms are (value, derivative) of the bin's
    closed forms (which extend smoothly beyond the bin) -/
theorem rqInv_bin_dual_closed (hv : RQValid e c uw uh ud) (k : ℕ) (hk : k < uw.length) (y : ℝ)
    (h0 : ys e c uh k ≤ y) (h1 : y ≤ ys e c uh (k+1)) :
    IsDual (binInv e c uw uh ud k) y
      ((dualX (NF.realX e)).add
        ((dualX (NF.realX e)).mul (evalX (dualX (NF.realX e)) (envD (e := e) c uw uh ud k (y, 1)) rqRootE)
          (ι (xs e c uw (k + 1) - xs e c uw k))) (ι (xs e c uw k))) ∧
    IsDual (binInvLd e c uw uh ud k) y
      ((dualX (NF.realX e)).neg (evalX (dualX (NF.realX e)) (envD (e := e) c uw uh ud k
        (evalX (dualX (NF.realX e)) (envD (e := e) c uw uh ud k (y, 1)) rqRootE)) rqLdThetaE)) := by
  have hw : 0 < xs e c uw (k+1) - xs e c uw k := sub_pos.mpr (xs_strict hv k hk)
  have hh : 0 < ys e c uh (k+1) - ys e c uh k := sub_pos.mpr (ys_strict hv k hk)
  have hd0 := ds_pos hv k (by omega)
  have hd1 := ds_pos hv (k+1) (by omega)
  have hroot : IsDual (binRoot e c uw uh ud k) y
      (evalX (dualX (NF.realX e)) (envD (e := e) c uw uh ud k (y, 1)) rqRootE) := by
    rw [evalX_dual]
    exact evalD_curve _ _ y (envD_isDual k (IsDual.id y)) rqRootE
      (rqRoot_closed_smooth hw hh hd0 hd1 h0 (by linarith))
  obtain ⟨_, hr0, hr1, _⟩ := bin_facts hv k hk y h0 h1
  refine ⟨?_, ?_⟩
  · exact IsDual.add e (IsDual.mul e hroot (IsDual.const _ y)) (IsDual.const _ y)
  · refine IsDual.neg e ?_
    rw [evalX_dual]
    exact evalD_curve _ _ y (envD_isDual k hroot) rqLdThetaE (rqLdTheta_smooth hw hh hd0 hd1 hr0 hr1)

/-- on each CLOSED y-bin the executed inverse is that bin's closed form -/
theorem inv_eqOn_bin (hv : RQValid e c uw uh ud) (k : ℕ) (hk : k < uw.length) :
    Set.EqOn (inv e c uw uh ud) (binInv e c uw uh ud k) (Set.Icc (ys e c uh k) (ys e c uh (k+1))) := by
  intro y hy
  have hy0 : e c.box.bottom ≤ y := le_trans (knot_mem_y hv k hk.le).1 hy.1
  have hy1 : y ≤ e c.box.top := le_trans hy.2 (knot_mem_y hv (k+1) hk).2
  obtain ⟨_, hr0, hr1, hbv⟩ := bin_facts hv k hk y hy.1 hy.2
  have hw : 0 < xs e c uw (k+1) - xs e c uw k := sub_pos.mpr (xs_strict hv k hk)
  have hmem : binInv e c uw uh ud k y ∈ Set.Icc (xs e c uw k) (xs e c uw (k+1)) := by
    unfold binInv; constructor <;> nlinarith
  have hbox : binInv e c uw uh ud k y ∈ Set.Icc (e c.box.left) (e c.box.right) :=
    ⟨le_trans (knot_mem_x hv k hk.le).1 hmem.1, le_trans hmem.2 (knot_mem_x hv (k+1) hk).2⟩
  have h1 : val e c uw uh ud (binInv e c uw uh ud k y) = y := by rw [val_eqOn_bin hv k hk hmem]; exact hbv
  have h2 : val e c uw uh ud (inv e c uw uh ud y) = y := val_inv hv y hy0 hy1
  exact (val_strictMonoOn hv).injOn (inv_mapsTo hv ⟨hy0, hy1⟩) hbox (h2.trans h1.symm)

/-- **the bounded executed inverse on dual numbers at EVERY `y` of the closed box**: value components are the real
    outputs; the tangents are the derivatives of the selected bin's closed forms `binInv`, `binInvLd` -/
theorem rqSpline_dual_inv_closed (hi : RQValid e c uw uh ud) (y : ℝ) (hy0 : e c.box.bottom ≤ y) (hy1 : y ≤ e c.box.top) :
    ∃ v' l' : ℝ, rqSpline (dualX (NF.realX e)) c (uw.map ι) (uh.map ι) (ud.map ι) true (y, 1)
        = .ok ((inv e c uw uh ud y, v'), (invLd e c uw uh ud y, l')) ∧
      HasDerivAt (binInv e c uw uh ud (idxI e c uh y)) v' y ∧ HasDerivAt (binInvLd e c uw uh ud (idxI e c uh y)) l' y := by
  obtain ⟨hiK, hle, hyle, _⟩ := sel hi y hy0 hy1
  obtain ⟨hO, hL⟩ := rqInv_bin_dual_closed hi _ hiK y hle hyle
  have hexec := rqSpline_dual_inv_exec hi y hy0 hy1
  refine ⟨_, _, ?_, hO.2, hL.2⟩
  rw [hexec]
  congr 1
  refine Prod.ext (Prod.ext ?_ rfl) (Prod.ext ?_ rfl)
  · rw [inv_eq hi y hy0 hy1]; exact hO.1
  · rw [invLd_eq hi y hy0 hy1]; exact hL.1

end closed

/-- **the value tangent of the executed tails program is right at EVERY real `x`** (tails, junctions `±B`, interior
    knots, open bins), with the padding constant read exactly: the dual run returns `((valT x, exp (ldT x)), (ldT x, l'))`
    and `exp (ldT x)` IS the derivative of `valT` at `x` -/
theorem rqSplineTails_dual_value_all (hv : HV) (hp : PadExact e minD beta) (x : ℝ) :
    ∃ l' : ℝ, DRUN false (x, 1) = .ok ((VT x, Real.exp (LT x)), (LT x, l')) ∧ HasDerivAt VT (Real.exp (LT x)) x := by
  refine Exists.imp (fun l' h => ⟨h, valT_hasDerivAt_all hv hp x⟩) ?_
  by_cases ho : x < -e tb ∨ e tb < x
  · have h1 : VT x = x ∧ LT x = 0 := valT_outside x ho
    exact ⟨0, by rw [dual_run_outside false x 1 ho, h1.1, h1.2, Real.exp_zero]⟩
  · have hx0 : -e tb ≤ x := not_lt.mp (fun h => ho (Or.inl h))
    have hx1 : x ≤ e tb := not_lt.mp (fun h => ho (Or.inr h))
    have hin : VT x = val e CF uw uh UD x ∧ LT x = ld e CF uw uh UD x := valT_inside x hx0 hx1
    obtain ⟨l', hr⟩ := rqSpline_dual_closed hv.inner x (by show e (-tb) ≤ x; rw [hv.hneg]; exact hx0) hx1
    exact ⟨l', by rw [dual_run_inside false x 1 hx0 hx1, hr, hin.1, hin.2]⟩

/-- **the value tangent of the executed INVERSE tails program is right at EVERY real `y`** (tails, junctions, interior
    y-knots, open bins), with the padding constant read exactly -/
theorem rqSplineTails_dual_value_all_inv (hv : HV) (hp : PadExact e minD beta) (y : ℝ) :
    ∃ l' : ℝ, DRUN true (y, 1) = .ok ((IT y, Real.exp (ILT y)), (ILT y, l')) ∧ HasDerivAt IT (Real.exp (ILT y)) y := by
  have hD : HasDerivAt IT (Real.exp (ILT y)) y := invT_hasDerivAt_all hv hp y
  refine Exists.imp (fun l' h => ⟨h, hD⟩) ?_
  by_cases ho : y < -e tb ∨ e tb < y
  · have h1 : IT y = y ∧ ILT y = 0 := invT_outside y ho
    exact ⟨0, by rw [dual_run_outside true y 1 ho, h1.1, h1.2, Real.exp_zero]⟩
  · have hy0 : -e tb ≤ y := not_lt.mp (fun h => ho (Or.inl h))
    have hy1 : y ≤ e tb := not_lt.mp (fun h => ho (Or.inr h))
    have hi := hv.inner
    have hy0' : e (CF).box.bottom ≤ y := by show e (-tb) ≤ y; rw [hv.hneg]; exact hy0
    have hin : IT y = inv e CF uw uh UD y ∧ ILT y = invLd e CF uw uh UD y := invT_inside y hy0 hy1
    obtain ⟨v', l', hr, hdv, -⟩ := rqSpline_dual_inv_closed hi y hy0' hy1
    obtain ⟨hiK, hle, hyle, _⟩ := sel hi y hy0' hy1
    -- on the closed y-bin the whole-line inverse is the bin's closed form: the two derivatives agree
    have heq : ∀ z ∈ Set.Icc (ys e CF uh (idxI e CF uh y)) (ys e CF uh (idxI e CF uh y + 1)),
        binInv e CF uw uh UD (idxI e CF uh y) z = IT z := by
      intro z hz
      have hz0 : -e tb ≤ z := le_trans (knot_mem_yT hv _ hiK.le).1 hz.1
      have hz1 : z ≤ e tb := le_trans hz.2 (knot_mem_yT hv _ hiK).2
      have h1 : IT z = inv e CF uw uh UD z ∧ ILT z = invLd e CF uw uh UD z := invT_inside z hz0 hz1
      rw [h1.1]; exact (inv_eqOn_bin hi _ hiK hz).symm
    have hW := (hD.hasDerivWithinAt (s := Set.Icc (ys e CF uh (idxI e CF uh y)) (ys e CF uh (idxI e CF uh y + 1)))).congr
      heq (heq y ⟨hle, hyle⟩)
    have hU := uniqueDiffOn_Icc (ys_strict hi _ hiK) y ⟨hle, hyle⟩
    have hvv : v' = Real.exp (ILT y) := hU.eq_deriv _ hdv.hasDerivWithinAt hW
    rw [hin.2] at hvv
    exact ⟨l', by rw [dual_run_inside true y 1 hy0 hy1, hr, hin.1, hin.2, hvv]⟩

/-! ## non-vacuity at `TailsWhole.rq_valid_example` (one bin, tail bound 1) -/

private theorem f1 : ((1.0:Float) == 0.0) = false := by decide +kernel
private theorem f2 : ((1.0:Float) == 0.5) = false := by decide +kernel
private theorem f3 : ((1.0:Float) == (-(1.0:Float))) = false := by decide +kernel
private theorem f4 : ((1.0:Float) == 2.0) = false := by decide +kernel

theorem eW_one : eW 1.0 = 1 := by simp [eW, f1, f2, f3, f4]

/-- outside `[-1, 1]`, both directions: the dual run returns `((x, 1), (0, 0))` -/
theorem rq_example_outside (inverse : Bool) (x : ℝ) (h : x < -1 ∨ 1 < x) :
    rqSplineTails (dualX (NF.realX eW)) 1.0 0.0 0.0 0.0 1.0 [ι 0] [ι 0] [] inverse (x, 1) = .ok ((x, 1), (0, 0)) := by
  have := dual_run_outside (e := eW) (tb := 1.0) (minW := 0.0) (minH := 0.0) (minD := 0.0) (beta := 1.0)
    (uw := [0]) (uh := [0]) (ud := []) inverse x 1 (by rw [eW_one]; exact h)
  simpa using this

/-- strictly inside `(-1, 1)` (the single bin), forward -/
theorem rq_example_inside (x : ℝ) (h0 : -1 < x) (h1 : x < 1) :
    ∃ l' : ℝ, rqSplineTails (dualX (NF.realX eW)) 1.0 0.0 0.0 0.0 1.0 [ι 0] [ι 0] [] false (x, 1)
        = .ok ((valT eW 1.0 0.0 0.0 0.0 1.0 [0] [0] [] x, Real.exp (ldT eW 1.0 0.0 0.0 0.0 1.0 [0] [0] [] x)),
            (ldT eW 1.0 0.0 0.0 0.0 1.0 [0] [0] [] x, l')) ∧
      HasDerivAt (valT eW 1.0 0.0 0.0 0.0 1.0 [0] [0] []) (Real.exp (ldT eW 1.0 0.0 0.0 0.0 1.0 [0] [0] [] x)) x ∧
      HasDerivAt (ldT eW 1.0 0.0 0.0 0.0 1.0 [0] [0] []) l' x := by
  have hv := rq_valid_example
  have hi := hv.inner
  have hz : xs eW (cfgT 1.0 0.0 0.0 0.0 1.0) [0] 0 = -1 := by
    rw [xs_zero hi]; show eW (-(1.0:Float)) = -1; rw [hv.hneg, eW_one]
  have hl : xs eW (cfgT 1.0 0.0 0.0 0.0 1.0) [0] (0+1) = 1 := by
    have := xs_last hi
    simp only [List.length_singleton] at this
    rw [this]; exact eW_one
  obtain ⟨l', hr, -, hdv, hdl⟩ := rqSplineTails_dual_bin hv 0 (by simp) x (by rw [hz]; exact h0) (by rw [hl]; exact h1)
  exact ⟨l', by simpa using hr, hdv, hdl⟩

/-- strictly inside `(-1, 1)` (the single y-bin), inverse -/
theorem rq_example_inside_inv (y : ℝ) (h0 : -1 < y) (h1 : y < 1) :
    ∃ l' : ℝ, rqSplineTails (dualX (NF.realX eW)) 1.0 0.0 0.0 0.0 1.0 [ι 0] [ι 0] [] true (y, 1)
        = .ok ((invT eW 1.0 0.0 0.0 0.0 1.0 [0] [0] [] y, Real.exp (invLdT eW 1.0 0.0 0.0 0.0 1.0 [0] [0] [] y)),
            (invLdT eW 1.0 0.0 0.0 0.0 1.0 [0] [0] [] y, l')) ∧
      HasDerivAt (invT eW 1.0 0.0 0.0 0.0 1.0 [0] [0] []) (Real.exp (invLdT eW 1.0 0.0 0.0 0.0 1.0 [0] [0] [] y)) y ∧
      HasDerivAt (invLdT eW 1.0 0.0 0.0 0.0 1.0 [0] [0] []) l' y := by
  have hv := rq_valid_example
  have hi := hv.inner
  have hz : ys eW (cfgT 1.0 0.0 0.0 0.0 1.0) [0] 0 = -1 := by
    rw [ys_zero hi]; show eW (-(1.0:Float)) = -1; rw [hv.hneg, eW_one]
  have hl : ys eW (cfgT 1.0 0.0 0.0 0.0 1.0) [0] (0+1) = 1 := by
    have := ys_last hi
    simp only [List.length_singleton] at this
    rw [this]; exact eW_one
  obtain ⟨l', hr, -, hdv, hdl⟩ :=
    rqSplineTails_dual_bin_inv hv 0 (by simp) y (by rw [hz]; exact h0) (by rw [hl]; exact h1)
  exact ⟨l', by simpa using hr, hdv, hdl⟩

/-- the every-non-knot-point theorem at the example: every real `x ∉ {-1, 1}` -/
theorem rq_example_all (x : ℝ) (hl : x ≠ -1) (hr : x ≠ 1) :
    ∃ v' l' : ℝ, rqSplineTails (dualX (NF.realX eW)) 1.0 0.0 0.0 0.0 1.0 [ι 0] [ι 0] [] false (x, 1)
        = .ok ((valT eW 1.0 0.0 0.0 0.0 1.0 [0] [0] [] x, v'), (ldT eW 1.0 0.0 0.0 0.0 1.0 [0] [0] [] x, l')) ∧
      HasDerivAt (valT eW 1.0 0.0 0.0 0.0 1.0 [0] [0] []) v' x ∧
      HasDerivAt (ldT eW 1.0 0.0 0.0 0.0 1.0 [0] [0] []) l' x ∧
      v' = Real.exp (ldT eW 1.0 0.0 0.0 0.0 1.0 [0] [0] [] x) := by
  have hv := rq_valid_example
  have hi := hv.inner
  have hz : xs eW (cfgT 1.0 0.0 0.0 0.0 1.0) [0] 0 = -1 := by
    rw [xs_zero hi]; show eW (-(1.0:Float)) = -1; rw [hv.hneg, eW_one]
  have hl1 : xs eW (cfgT 1.0 0.0 0.0 0.0 1.0) [0] 1 = 1 := by
    have := xs_last hi
    simp only [List.length_singleton] at this
    rw [this]; exact eW_one
  obtain ⟨v', l', h, hdv, hdl, hv'⟩ := rqSplineTails_dual_all hv x (by
    intro j hj
    simp only [List.length_singleton] at hj
    interval_cases j
    · rw [hz]; exact hl
    · rw [hl1]; exact hr)
  exact ⟨v', l', by simpa using h, hdv, hdl, hv'⟩

end
end DualXTails
