import NflowsModel.Core.FlowPairing
import NflowsModel.Lemmas.Pairing
import Mathlib.Tactic
/-!
# Lemmas/FlowPairing — index algebra of the executable pairing model (C04)

The list-level helpers of `Core/FlowPairing` are definitionally the ones of `Lemmas/Pairing` (design-time spike),
so its index laws transfer; on top of them: the law of the whole `merge → repeat_rows → row-wise map → split` pipeline.
-/
namespace NF.FlowPairing

/-- entry `j` of block `i` of a `[R][n]` nested list -/
def get2 {α : Type} (x : List (List α)) (i j : Nat) : Option α := (x[i]?).bind (fun b => b[j]?)

/-- `[R][n]`: `R` blocks of length `n` -/
def Uniform {α : Type} (x : List (List α)) (R n : Nat) : Prop := x.length = R ∧ ∀ b ∈ x, b.length = n

theorem repeatRows_eq {α : Type} (x : List α) (n : Nat) : repeatRows x n = Pairing.repeatRows x n := rfl
theorem mergeLeading_eq {α : Type} (x : List (List α)) : mergeLeading x = Pairing.mergeLeading x := rfl
theorem splitLeading_eq {α : Type} (n : Nat) (l : List α) : splitLeading n l = Pairing.splitLeading n l := rfl

theorem repeatRows_length {α : Type} (x : List α) (n : Nat) : (repeatRows x n).length = x.length * n :=
  Pairing.repeatRows_length x n

theorem repeatRows_get {α : Type} (x : List α) (n i j : Nat) (hi : i < x.length) (hj : j < n) :
    (repeatRows x n)[i * n + j]? = x[i]? := Pairing.repeatRows_get x n i j hi hj

theorem mergeLeading_get {α : Type} (x : List (List α)) (R n i j : Nat) (hx : Uniform x R n) (hi : i < R) (hj : j < n) :
    (mergeLeading x)[i * n + j]? = get2 x i j :=
  Pairing.mergeLeading_get x n i j hx.2 (hx.1 ▸ hi) hj

theorem mergeLeading_length {α : Type} (x : List (List α)) (R n : Nat) (hx : Uniform x R n) :
    (mergeLeading x).length = R * n := by
  obtain ⟨hlen, hb⟩ := hx
  induction x generalizing R with
  | nil => simp at hlen; subst hlen; simp [mergeLeading]
  | cons b t ih =>
    simp only [List.length_cons] at hlen
    subst hlen
    have := ih t.length rfl (fun c hc => hb c (List.mem_cons_of_mem _ hc))
    simp only [mergeLeading, List.flatten_cons, List.length_append] at this ⊢
    rw [this, hb b List.mem_cons_self]; ring

theorem splitLeading_get {α : Type} (n : Nat) (l : List α) (i j : Nat) (hi : i < l.length / n) (hj : j < n) :
    get2 (splitLeading n l) i j = l[i * n + j]? := Pairing.splitLeading_get n l i j hi hj

/-- splitting a list of `R·n` rows gives `R` blocks of length `n` -/
theorem splitLeading_uniform {α : Type} (n : Nat) (l : List α) (R : Nat) (hn : 0 < n) (hl : l.length = R * n) :
    Uniform (splitLeading n l) R n := by
  have hdiv : l.length / n = R := by rw [hl]; exact Nat.mul_div_cancel R hn
  constructor
  · simp [splitLeading, hdiv]
  · intro b hb
    simp only [splitLeading, List.mem_map, List.mem_range] at hb
    obtain ⟨i, hi, rfl⟩ := hb
    rw [hdiv] at hi
    simp only [List.length_take, List.length_drop]
    have : (i + 1) * n ≤ R * n := Nat.mul_le_mul_right n hi
    have h2 : (i + 1) * n = i * n + n := by ring
    omega

theorem get2_lt {α : Type} {x : List (List α)} {R n i j : Nat} (hx : Uniform x R n) (hi : i < R) (hj : j < n) :
    ∃ z, get2 x i j = some z := by
  obtain ⟨hlen, hb⟩ := hx
  have hi' : i < x.length := hlen ▸ hi
  have hbl : (x[i]).length = n := hb _ (List.getElem_mem hi')
  refine ⟨(x[i])[j]'(by omega), ?_⟩
  simp [get2, List.getElem?_eq_getElem hi', List.getElem?_eq_getElem (show j < (x[i]).length by omega)]

/-- **the pipeline**: `split(n) ∘ (row-wise f) ∘ (merge × repeat_rows(n))` pairs block `i`, draw `j` of the noise
    with row `i` of the (embedded) context -/
theorem pipeline_get {Z E W : Type} (f : Z → E → W) (N : List (List Z)) (e : List E) (R n i j : Nat)
    (hN : Uniform N R n) (he : e.length = R) (hi : i < R) (hj : j < n) (z : Z) (c : E)
    (hz : get2 N i j = some z) (hc : e[i]? = some c) :
    get2 (splitLeading n (List.zipWith f (mergeLeading N) (repeatRows e n))) i j = some (f z c) := by
  have hn : 0 < n := by omega
  have hlen : (List.zipWith f (mergeLeading N) (repeatRows e n)).length = R * n := by
    simp [mergeLeading_length N R n hN, repeatRows_length, he]
  have hdiv : (List.zipWith f (mergeLeading N) (repeatRows e n)).length / n = R := by
    rw [hlen]; exact Nat.mul_div_cancel R hn
  rw [splitLeading_get n _ i j (by rw [hdiv]; exact hi) hj, List.getElem?_zipWith,
    mergeLeading_get N R n i j hN hi hj, repeatRows_get e n i j (he ▸ hi) hj, hz, hc]

theorem pipeline_uniform {Z E W : Type} (f : Z → E → W) (N : List (List Z)) (e : List E) (R n : Nat) (hn : 0 < n)
    (hN : Uniform N R n) (he : e.length = R) :
    Uniform (splitLeading n (List.zipWith f (mergeLeading N) (repeatRows e n))) R n :=
  splitLeading_uniform n _ R hn (by simp [mergeLeading_length N R n hN, repeatRows_length, he])

/-- split ∘ merge returns the blocks -/
theorem split_merge_get {Z : Type} (N : List (List Z)) (R n i j : Nat) (hN : Uniform N R n) (hi : i < R) (hj : j < n) :
    get2 (splitLeading n (mergeLeading N)) i j = get2 N i j := by
  have hn : 0 < n := by omega
  have hdiv : (mergeLeading N).length / n = R := by
    rw [mergeLeading_length N R n hN]; exact Nat.mul_div_cancel R hn
  rw [splitLeading_get n _ i j (by rw [hdiv]; exact hi) hj, mergeLeading_get N R n i j hN hi hj]

theorem split_merge_uniform {Z : Type} (N : List (List Z)) (R n : Nat) (hn : 0 < n) (hN : Uniform N R n) :
    Uniform (splitLeading n (mergeLeading N)) R n :=
  splitLeading_uniform n _ R hn (mergeLeading_length N R n hN)

theorem get2_zipWith {A B C : Type} (g : A → B → C) (x : List (List A)) (y : List (List B)) (i j : Nat) (a : A) (b : B)
    (ha : get2 x i j = some a) (hb : get2 y i j = some b) :
    get2 (List.zipWith (List.zipWith g) x y) i j = some (g a b) := by
  unfold get2 at *
  rw [List.getElem?_zipWith]
  cases hx : x[i]? with
  | none => simp [hx] at ha
  | some bx =>
    cases hy : y[i]? with
    | none => simp [hy] at hb
    | some by' =>
      simp only [hx, hy, Option.bind_some] at ha hb ⊢
      simp [List.getElem?_zipWith, ha, hb]

end NF.FlowPairing
